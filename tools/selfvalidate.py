#!/usr/bin/env python3
"""Hand-made breaking changes (and harmless rewrites) for C15/C06/C17, applied one
at a time to the repo worktree under test (never committed), each followed by the
quick check.  usage: VERIF_REPO=... VERIF_BUILD=... tools/selfvalidate.py [C15|C06|C17] [name-substring]
Prints one line per mutation: caught (with the first violation) / MISSED / silent (harmless)."""
import json
import os
import re
import subprocess
import sys

VERIF = os.path.dirname(os.path.dirname(os.path.abspath(__file__)))
REPO = os.environ["VERIF_REPO"]

M = [
    # (property, name, kind, file, old, new)
    ("C15", "dirty_ starts false", "break", "util/compress.cc",
     "dirty_(true /* Even if input is empty, generate a valid gzip file */)", "dirty_(false)"),
    ("C15", "ignore Z_BUF_ERROR in GZipRead::Process", "break", "util/compress.cc",
     "        case Z_STREAM_END:\n          return false;\n        case Z_ERRNO:", "        case Z_STREAM_END:\n          return false;\n        case Z_BUF_ERROR:\n          return true;\n        case Z_ERRNO:"),
    ("C15", "skip ReadFactory re-detection after a member", "break", "util/compress.cc",
     "          ReplaceThis(ReadFactory(file_.release(), ReadCount(thunk), back_.NextInput(), back_.AvailInput(), true), thunk);",
     "          ReplaceThis(new Complete(), thunk);"),
    ("C15", "seeded C02-m2: next member only probed when input is left", "break", "util/compress.cc",
     "          ReplaceThis(ReadFactory(file_.release(), ReadCount(thunk), back_.NextInput(), back_.AvailInput(), true), thunk);",
     "          if (back_.AvailInput()) {\n            ReplaceThis(ReadFactory(file_.release(), ReadCount(thunk), back_.NextInput(), back_.AvailInput(), true), thunk);\n          } else {\n            ReplaceThis(new Complete(), thunk);\n          }"),
    ("C15", "seeded C15-m3: write() drains a 'full' buffer with buf_size_", "break", "util/compress.cc",
     "      while (compressor_.AvailInput()) {\n        if (!compressor_.EnoughOutput()) {\n          writer_.write(buf_.get(), compressor_.NextOutput() - reinterpret_cast<const uint8_t*>(buf_.get()));",
     "      while (compressor_.AvailInput()) {\n        if (!compressor_.EnoughOutput()) {\n          writer_.write(buf_.get(), buf_size_);"),
    ("C15", "same in flush(): drains with buf_size_", "break", "util/compress.cc",
     "      do {\n        if (!compressor_.EnoughOutput()) {\n          writer_.write(buf_.get(), compressor_.NextOutput() - reinterpret_cast<const uint8_t*>(buf_.get()));",
     "      do {\n        if (!compressor_.EnoughOutput()) {\n          writer_.write(buf_.get(), buf_size_);"),
    ("C15", "seeded C15-n1: xz decoder gets a 64 MiB memory limit", "break", "util/compress.cc",
     "HandleError(lzma_stream_decoder(&stream_, UINT64_MAX, 0));", "HandleError(lzma_stream_decoder(&stream_, 64ULL << 20, 0));"),
    ("C15", "seeded C15-n2: flush() calls Finish before draining a full buffer", "break", "util/compress.cc",
     "      do {\n        if (!compressor_.EnoughOutput()) {\n          writer_.write(buf_.get(), compressor_.NextOutput() - reinterpret_cast<const uint8_t*>(buf_.get()));\n          compressor_.SetOutput(buf_.get(), buf_size_);\n        }\n      } while (!compressor_.Finish());",
     "      while (!compressor_.Finish()) {\n        writer_.write(buf_.get(), compressor_.NextOutput() - reinterpret_cast<const uint8_t*>(buf_.get()));\n        compressor_.SetOutput(buf_.get(), buf_size_);\n      }"),
    ("C15", "seeded C15-n3: FilePiece re-detects a magic in already decompressed data", "break", "util/file_piece.cc",
     "    if (!fallback_to_read_) {\n      at_end_ = false;\n      TransitionToRead();\n    }", "    at_end_ = false;\n    TransitionToRead();"),
    ("C15", "revert fix: zlib input cursor uninitialised", "break", "util/compress.cc",
     "      stream_.next_in = Z_NULL;\n      stream_.avail_in = 0;\n", ""),
    ("C15", "revert fix: bzip2 stall test", "break", "util/compress.cc",
     "      UTIL_THROW_IF(no_input && stream_.next_out == out_before, BZException,", "      UTIL_THROW_IF(false && no_input && stream_.next_out == out_before, BZException,"),
    ("C15", "flush forgets the last partial buffer", "break", "util/compress.cc",
     "      if (compressor_.NextOutput() != buf_.get()) {\n        writer_.write(buf_.get(), compressor_.NextOutput() - reinterpret_cast<const uint8_t*>(buf_.get()));\n      }\n      writer_.flush();",
     "      writer_.flush();"),
    ("C15", "UncompressedWithHeader drops a byte", "break", "util/compress.cc",
     "      std::size_t sending = std::min<std::size_t>(amount, end_ - remain_);\n      memcpy(to, remain_, sending);",
     "      std::size_t sending = std::min<std::size_t>(amount, end_ - remain_);\n      memcpy(to, remain_ + (sending > 3 ? 1 : 0), sending);"),
    ("C15", "GZCompress grows the string too late", "break", "util/compress.cc",
     "    to.resize(to.size() + kIncrement);\n    writer.SetOutput(&to[old_done], to.size() - old_done);",
     "    to.resize(to.size() + kIncrement);\n    writer.SetOutput(&to[old_done], to.size() - old_done - kIncrement);"),
    ("C15", "harmless: input buffer 16384 -> 8192", "harmless", "util/compress.cc",
     "static const std::size_t kInputBuffer = 16384;", "static const std::size_t kInputBuffer = 8192;"),
    ("C15", "harmless: rename local in ReadStream::Read", "harmless", "util/compress.cc",
     "          std::size_t ret = back_.NextOutput() - static_cast<const uint8_t*>(to);\n", "          std::size_t ret = static_cast<std::size_t>(back_.NextOutput() - static_cast<const uint8_t*>(to));\n"),

    ("C06", "% (shard_count - 1)", "break", "preprocess/shard_main.cc",
     "out[cb.Hash() % shard_count] << line << '\\n';", "out[cb.Hash() % (shard_count > 1 ? shard_count - 1 : 1)] << line << '\\n';"),
    ("C06", "hash depends on the line position", "break", "preprocess/shard_main.cc",
     "    preprocess::HashCallback cb;\n", "    static uint64_t line_number = 0;\n    preprocess::HashCallback cb(47849374332489ULL + (line_number++ & 1));\n"),
    ("C06", "newline forgotten", "break", "preprocess/shard_main.cc",
     "out[cb.Hash() % shard_count] << line << '\\n';", "out[cb.Hash() % shard_count] << line;"),
    ("C06", "digits computed from number instead of number - 1", "break", "preprocess/shard_main.cc",
     "for (unsigned int compare = number - 1; compare; ++digits, compare /= 10) {}", "for (unsigned int compare = number; compare; ++digits, compare /= 10) {}"),
    ("C06", "writer thread drops the last block", "break", "util/threaded_buffered_stream.hh",
     "      SpillBuffer();\n      // Poison.", "      // Poison."),
    ("C06", "empty gzip shard not flushed (dirty_ false)", "break", "util/compress.cc",
     "dirty_(true /* Even if input is empty, generate a valid gzip file */)", "dirty_(false)"),
    ("C06", "lines read with the default strip_cr again", "break", "preprocess/shard_main.cc",
     "in.ReadLineOrEOF(line, '\\n', false)", "in.ReadLineOrEOF(line)"),
    ("C06", "seeded C06-n3: CreateOrThrow without O_TRUNC", "break", "util/file.cc",
     "open(name, O_CREAT | O_TRUNC | O_RDWR, S_IRUSR", "open(name, O_CREAT | O_RDWR, S_IRUSR"),
    ("C06", "harmless: variable renamed, statements reordered", "harmless", "preprocess/shard_main.cc",
     "    preprocess::HashCallback cb;\n    preprocess::RangeFields(line, options.key_fields, options.delim, cb);\n    out[cb.Hash() % shard_count] << line << '\\n';",
     "    preprocess::HashCallback key_hash;\n    preprocess::RangeFields(line, options.key_fields, options.delim, key_hash);\n    out[key_hash.Hash() % shard_count] << line << '\\n';"),
    ("C06", "harmless: block size 8192 -> 4096", "harmless", "util/threaded_buffered_stream.hh",
     "(8192 > kToStringMaxBytes) ? 8192 : kToStringMaxBytes", "(4096 > kToStringMaxBytes) ? 4096 : kToStringMaxBytes"),

    ("C17", "+ 2 instead of + 4", "break", "preprocess/warc.cc",
     "header.Consumed() + length + 4 /*", "header.Consumed() + length + 2 /*"),
    ("C17", "duplicate Content-Length check dropped", "break", "preprocess/warc.cc",
     '      UTIL_THROW_IF2(seen_content_length, "Two Content-Length headers?");\n', ""),
    ("C17", "overhang starts one byte late", "break", "preprocess/warc.cc",
     "overhang_.assign(out.data() + total_length, out.size() - total_length);", "overhang_.assign(out.data() + total_length + 1, out.size() - total_length - 1);"),
    ("C17", "newline search restarts behind the new data", "break", "preprocess/warc.cc",
     "        newline_start = out_.size();\n        if (!ReadMore(reader_, out_)) return false;", "        if (!ReadMore(reader_, out_)) return false;\n        newline_start = out_.size();"),
    ("C17", "revert fix: negative Content-Length", "break", "preprocess/warc.cc",
     "      UTIL_THROW_IF2(parsed < 0,", "      UTIL_THROW_IF2(false && parsed < 0,"),
    ("C17", "revert fix: Content-Length without digits", "break", "preprocess/warc.cc",
     "UTIL_THROW_IF2(end == value || end != line.data() + line.size(),", "UTIL_THROW_IF2(end != line.data() + line.size(),"),
    ("C17", "terminator check dropped", "break", "preprocess/warc.cc",
     'UTIL_THROW_IF2(util::StringPiece(out.data() + out.size() - 4, 4) != util::StringPiece("\\r\\n\\r\\n", 4), "End of WARC record missing CRLF CRLF");',
     '(void)0;'),
    ("C17", "warc_parallel poisons only one worker", "break", "preprocess/warc_parallel_main.cc",
     "      for (std::size_t i = 0; i < workers_.size(); ++i) {\n        in_.Produce(str);", "      for (std::size_t i = 0; i < 1; ++i) {\n        in_.Produce(str);"),
    ("C17", "warc_parallel -z compresses two records into one member", "break", "preprocess/warc_parallel_main.cc",
     "      util::GZCompress(str, compressed);\n", "      static thread_local std::string held;\n      if (held.empty()) { held = str; continue; }\n      held += str;\n      util::GZCompress(held, compressed);\n      held.clear();\n"),
    ("C17", "warc_parallel emits without holding the mutex", "break", "preprocess/warc_parallel_main.cc",
     "    while (reader.Read(str)) {\n      std::lock_guard<std::mutex> guard(*out_mutex);\n      *out << str;\n    }\n  }\n}",
     "    while (reader.Read(str)) {\n      *out << str;\n    }\n  }\n}"),
    ("C17", "seeded C16-n1: Join queues its end markers with ProduceSwap", "break", "preprocess/warc_parallel_main.cc",
     "        in_.Produce(str);", "        in_.ProduceSwap(str);"),
    ("C17", "harmless: unique_lock instead of lock_guard in the plain branch", "harmless", "preprocess/warc_parallel_main.cc",
     "    while (reader.Read(str)) {\n      std::lock_guard<std::mutex> guard(*out_mutex);\n      *out << str;",
     "    while (reader.Read(str)) {\n      std::unique_lock<std::mutex> guard(*out_mutex);\n      *out << str;"),
    ("C17", "ReadMore treats end of file inside a header as a clean end", "break", "preprocess/warc.cc",
     "    UTIL_THROW_IF(had, util::EndOfFileException, \"Unexpected end of file inside header\");\n", ""),
    ("C17", "overhang_ not cleared after the swap", "break", "preprocess/warc.cc",
     "  std::swap(overhang_, out);\n  overhang_.clear();\n", "  std::swap(overhang_, out);\n"),
    ("C17", "Content-Length compared case-sensitively", "break", "preprocess/warc.cc",
     "!strncasecmp(line.data(), kContentLength, kContentLengthLength)", "!strncmp(line.data(), kContentLength, kContentLengthLength)"),
    ("C17", "harmless: <= for < in the overhang test", "harmless", "preprocess/warc.cc",
     "  if (total_length < out.size()) {", "  if (total_length <= out.size()) {"),
    ("C17", "harmless: kRead 4096 -> 1024", "harmless", "preprocess/warc.cc",
     "const std::size_t kRead = 4096;", "const std::size_t kRead = 1024;"),
]


def main():
    want = sys.argv[1] if len(sys.argv) > 1 else None
    sub = sys.argv[2] if len(sys.argv) > 2 else None
    subprocess.run(["git", "-C", REPO, "checkout", "--", "."], check=True)
    for prop, name, kind, f, old, new in M:
        if want and prop != want:
            continue
        if sub and sub not in name:
            continue
        path = os.path.join(REPO, f)
        src = open(path).read()
        if src.count(old) != 1:
            print("%s | %-52s | CANNOT APPLY (pattern occurs %d times)" % (prop, name, src.count(old)))
            continue
        open(path, "w").write(src.replace(old, new))
        try:
            p = subprocess.run([os.path.join(VERIF, "bin", "check"), prop, "--tier", "quick"], stdout=subprocess.PIPE,
                               stderr=subprocess.PIPE, timeout=3000)
            out = p.stdout.decode()
            viol = re.findall(r"VIOLATION property=\S+ replay=(\S+)( no-failing-input-found)?", out)
            first = ""
            if viol:
                try:
                    first = json.load(open(viol[0][0])).get("what", "")[:150]
                except Exception:
                    pass
            with_input = [v for v in viol if not v[1]]
            if kind == "break":
                verdict = ("caught, concrete input" if with_input else "caught, NO failing input") if viol else "MISSED"
            else:
                verdict = "silent (good)" if not viol and p.returncode == 0 else "FALSE ALARM"
            print("%s | %-52s | %s | rc=%d | %s" % (prop, name, verdict, p.returncode, first))
        finally:
            subprocess.run(["git", "-C", REPO, "checkout", "--", "."], check=True)
        sys.stdout.flush()


if __name__ == "__main__":
    main()
