"""Catalogue of valid small invocations of all 24 executables of kpu/preprocess
(shared by C11 fault injection and C20 sanitizer runs).

Each entry: name, argv tail (after the binary; '{W}' = scratch directory of the
run, '{HX}' = directory with harness helpers such as vchild), stdin bytes,
files to create in the scratch directory, output files to collect, and the
I/O family of the tool:
  util      util::FilePiece / util::FileStream (errors are exceptions)
  iostream  std::cin / std::cout
  wrapper   launches a child through preprocess::Launch
"""
import os
import shutil
import subprocess
import tempfile

GIZA = (b"# sentence pair (0) source length 2 target length 2 alignment score : 0.1\n"
        b"hello world\n"
        b"NULL ({ }) hello ({ 1 }) world ({ 2 })\n")
WARC1 = b"WARC/1.0\r\nWARC-Type: response\r\nContent-Length: 5\r\n\r\nhello\r\n\r\n"
WARC2 = b"WARC/1.0\r\nContent-Length: 0\r\n\r\n\r\n\r\n"
LONGLINE = b"This is a perfectly ordinary sentence, long enough to be kept by the cleaner.\n"


class Tool:
    def __init__(self, name, args=(), stdin=b"", files=None, outputs=(), kind="util", label=None, reads_stdin=True):
        self.name = name
        self.args = list(args)
        self.stdin = stdin
        self.files = files or {}
        self.outputs = list(outputs)
        self.kind = kind
        self.label = label or name
        self.reads_stdin = reads_stdin

    def argv(self, bindir, work, hx):
        return [os.path.join(bindir, self.name)] + [a.replace("{W}", work).replace("{HX}", hx) for a in self.args]


def catalogue():
    T = Tool
    return [
        T("apply_case", ["{W}/align", "{W}/src", "{W}/tgt", "{W}/model"], b"",
          {"align": b"0 ||| 0-0 1-1\n", "src": b"hello world\n", "tgt": b"hello world\n", "model": b"123\tHello 2\n"}, reads_stdin=False),
        T("b64filter", ["{HX}/vchild", "-1", "exit:0"], b"YQpiCg==\nYw==\n", kind="wrapper"),
        T("base64_number", [], b"YQpiCg==\nYw==\n"),
        T("cache", ["{HX}/vchild", "-1", "exit:0"], b"a\nb\na\nc\n", kind="wrapper"),
        T("commoncrawl_dedupe", ["{W}/remove"], b"x\nhello\nhello\nworld\n", {"remove": b"x\n"}),
        T("dedupe", [], b"a\nb\na\nc\n"),
        T("dedupe", ["-f", "2", "-d", ","], b"a,k\nb,k\nc,l\n", label="dedupe-f"),
        T("dedupe", ["-p", "{W}/in0", "{W}/in1", "{W}/out0", "{W}/out1"], b"",
          {"in0": b"a\nb\na\n", "in1": b"x\ny\nz\n"}, outputs=["out0", "out1"], label="dedupe-p", reads_stdin=False),
        T("docenc", [], b"line one\nline two\n\nsecond doc\n"),
        T("docenc", ["-d"], b"bGluZSBvbmUKbGluZSB0d28K\nc2Vjb25kIGRvYwo=\n", label="docenc-d"),
        T("foldfilter", ["-w", "10", "{HX}/vchild", "-1", "exit:0"], b"hello world, this is a long line\nshort\n", kind="wrapper"),
        T("gigaword_unwrap", [], b"<TEXT>\n<P>\nhello\nworld\n</P>\n</TEXT>\n", kind="iostream"),
        T("idf", [], b"a b c\na b\na\n"),
        T("mmhsum", [], b"hello\nworld\n", kind="iostream"),
        T("order_independent_hash", [], b"hello\nworld\n", kind="iostream"),
        T("process_unicode", ["--lower", "--flatten", "--normalize"], b"Hello World\nSecond Line\n", kind="iostream"),
        T("remove_invalid_utf8", [], b"good\nbad\xff\nfine\n"),
        T("remove_invalid_utf8_base64", [], b"YQpiCg==\n/w==\n"),
        T("remove_long_lines", ["10"], b"short\nthis line is far too long\nok\n"),
        T("shard", ["{W}/s0", "{W}/s1"], b"a\nb\nc\nd\ne\n", outputs=["s0", "s1"]),
        T("shard", ["-c", "bzip2", "{W}/z0", "{W}/z1"], b"a\nb\nc\nd\ne\n", outputs=["z0", "z1"], label="shard-bz2"),
        T("simple_cleaning", [], LONGLINE + b"x\n" + LONGLINE),
        T("substitute", [], b"a\tb\tc\td\tv\tz\na\tb\tc\td\tw\ty\n"),
        T("subtract_lines", ["{W}/sub"], b"a\nx\nb\n", {"sub": b"x\n"}),
        T("train_case", ["{W}/align", "{W}/src", "{W}/tgt"], b"",
          {"align": GIZA, "src": b"Hello World\n", "tgt": b"Hello World\n"}, reads_stdin=False),
        T("truecase", ["--model", "{W}/model"], b"hello the world .\nthe end\n",
          {"model": b"Hello (3/4) hello (1/4)\nthe (5/5)\n"}),
        T("vocab", [], b"a b a\nc b\n"),
        T("warc_parallel", ["-j", "1", "{HX}/vchild", "-1", "exit:0"], WARC1 + WARC2, kind="wrapper"),
    ]


ALL_EXECUTABLES = sorted(set(t.name for t in catalogue()))


class Scratch:
    """Fresh scratch directory under VERIF_BUILD (never /tmp, never the repos)."""
    def __init__(self, root, tool=None):
        os.makedirs(root, exist_ok=True)
        self.dir = tempfile.mkdtemp(prefix="run-", dir=root)
        if tool is not None:
            for n, b in tool.files.items():
                with open(os.path.join(self.dir, n), "wb") as f:
                    f.write(b)

    def __enter__(self):
        return self.dir

    def __exit__(self, *a):
        shutil.rmtree(self.dir, ignore_errors=True)


def status_class(rc):
    """Canonical status class of a subprocess return code: ('exit', c) | ('signal', s) | ('timeout',)"""
    if rc == "timeout":
        return ("timeout",)
    if rc < 0:
        return ("signal", -rc)
    return ("exit", rc)


def run(argv, stdin=b"", timeout=20, env=None, cwd=None, stdout=None, preexec_fn=None, stdin_file=None):
    """Run a binary, return (rc|'timeout', stdout bytes, stderr bytes)."""
    try:
        if stdin_file is not None:
            p = subprocess.run(argv, stdin=stdin_file, stdout=stdout if stdout is not None else subprocess.PIPE,
                               stderr=subprocess.PIPE, timeout=timeout, env=env, cwd=cwd, preexec_fn=preexec_fn)
        else:
            p = subprocess.run(argv, input=stdin, stdout=stdout if stdout is not None else subprocess.PIPE,
                               stderr=subprocess.PIPE, timeout=timeout, env=env, cwd=cwd, preexec_fn=preexec_fn)
        return p.returncode, p.stdout or b"", p.stderr or b""
    except subprocess.TimeoutExpired as e:
        return "timeout", e.stdout or b"", e.stderr or b""
