#!/bin/sh
# usage: tools/process_round.sh <prefix e.g. mut2> <suffix letter e.g. n> P1 P2 ...   : confirm candidates, keep, clean scratch
pre=$1; suf=$2; shift 2
cd "$(dirname "$0")/.." || exit 2
for P in "$@"; do
  for k in 1 2 3 4 5 6; do
    d=/tmp/$pre-$P/$pre-$P-out/$k
    [ -d "$d" ] || continue
    r=$(python3 tools/confirm_seeded.py $d $P-$suf$k 2>&1 | grep -E '"confirmed"|failed|not apply' | tr '\n' ' ' | cut -c1-160)
    echo "$P-$suf$k: $r"
  done
  git -C /repo worktree remove --force /tmp/$pre-$P/repo 2>/dev/null
  rm -rf /tmp/$pre-$P /tmp/$pre-$P-build
done
