HOOKS = {
    "guard": "PREPROCESS_VERIF",
    "enable": "cmake -S /verif/harness -B /var/tmp/verif-build/rel -DREPO_DIR=/repo (the superproject adds -DPREPROCESS_VERIF to every target of /repo and builds the harnesses in the same ninja graph)",
    "baseline_off_cmd": "cmake -G Ninja -S /repo -B /var/tmp/verif-baseline -DCOMPILE_TESTS=ON -DCMAKE_BUILD_TYPE=Release && cmake --build /var/tmp/verif-baseline -j16 && ctest --test-dir /var/tmp/verif-baseline -j8 --timeout 900",
    "source_commits": [],
    "add_only": True,
}

NOTES = ("Technique family: machine-checked proof in Coq 8.16.1. Every check = (1) rebuild /repo working tree + harnesses, "
         "(2) regenerate Gen/Src_*.v from the source text, (3) re-check the property theorems (Props/Properties_<id>.v, closed by exact, Print Assumptions recorded), "
         "(4) extracted model vs implementation on generated cases, (5) direct property oracle on implementation output as the search for a failing input. "
         "A broken theorem/translator/correspondence without a failing input is reported as VIOLATION ... no-failing-input-found. "
         "Genuine defects repaired in /repo are listed in known_findings.json as fixed.")

NOT_APPLICABLE = {}

CHECKS = {
    "C09": {
        "text": "Coq theorems over the executable model of base64_encode/base64_decode (tables and loop constants regenerated from preprocess/base64.cc each run): encode = RFC 4648 for all byte strings, decode(encode) = id with any amount of padding removed, every foreign byte before '=' rejected (256-entry sweep over the regenerated INV_TABLE lifted by forallb_forall); docenc round trip and index selection theorems over the document model. Model tied to the code by extracted-model-vs-harness runs (exhaustive lengths 0-2, every foreign byte at every offset) and tool-level docenc runs.",
        "note": "Trusted: Coq kernel, gen_src.py, extraction (ExtrOcamlBasic), harness; the FilePiece record splitting used by docenc is the C02 specification function, tied by tool-level runs. `int val` overflow modelled as 32-bit wrap (g++).",
        "technique": "Coq proof (induction over 3-byte groups, lia, vm_compute table sweeps) + extracted-model/implementation correspondence",
    },
}
