HOOKS = {
    "guard": "PREPROCESS_VERIF",
    "enable": "cmake -S /verif/harness -B /var/tmp/verif-build/rel -DREPO_DIR=/repo (the superproject adds -DPREPROCESS_VERIF to every target of /repo and builds the harnesses in the same ninja graph)",
    "baseline_off_cmd": "cmake -G Ninja -S /repo -B /var/tmp/verif-baseline -DCOMPILE_TESTS=ON -DCMAKE_BUILD_TYPE=Release && cmake --build /var/tmp/verif-baseline -j16 && ctest --test-dir /var/tmp/verif-baseline -j8 --timeout 900",
    "source_commits": ["2f674d0", "a374430", "a7fb66e", "9427220", "00a4181"],
    "add_only": True,
}

NOTES = ("Technique family: machine-checked proof in Coq 8.16.1. Every check = (1) rebuild /repo working tree + harnesses, "
         "(2) regenerate Gen/Src_*.v from the source text, (3) re-check the property theorems (Props/Properties_<id>.v, closed by exact, Print Assumptions recorded), "
         "(4) extracted model vs implementation on generated cases, (5) direct property oracle on implementation output as the search for a failing input. "
         "A broken theorem/translator/correspondence without a failing input is reported as VIOLATION ... no-failing-input-found. "
         "Genuine defects repaired in /repo are listed in known_findings.json as fixed.")

NOT_APPLICABLE = {}

import glob, json, os
CHECKS = {}
for _f in sorted(glob.glob(os.path.join(os.path.dirname(os.path.abspath(__file__)), "..", "meta", "C*.json"))):
    CHECKS[os.path.basename(_f)[:-5]] = json.load(open(_f))
