"""util/compress.{cc,hh} -> Gen/Src_compress.v : magic byte strings and their
order of detection, buffer sizes, kMinOutput per codec, the initial dirty_ flag,
the GZCompress buffer increments, and -- from the case labels of the switch
statements -- which codec return codes the wrappers treat as "continue", "end"
and "silently fine".  The numeric values of the codec macros come from the
system headers the code is compiled against (zlib.h, bzlib.h, lzma/base.h)."""
import os
import re
from .cparse import strip_comments


def need(rx, s, what, flags=0):
    m = re.search(rx, s, flags)
    if not m:
        raise ValueError("pattern for %s not found in util/compress" % what)
    return m


def cint(t):
    t = t.strip().strip("()").replace(" ", "")
    return int(t, 16) if t.lower().startswith(("0x", "-0x")) else int(t)


def c_byte(tok):
    tok = tok.strip()
    m = re.match(r"'(\\?.)'$", tok)
    if m:
        ch = m.group(1)
        if ch.startswith("\\"):
            return {"\\0": 0, "\\n": 10, "\\r": 13, "\\t": 9}[ch]
        return ord(ch)
    return cint(tok)


def header_defs(path, names, enum=False):
    txt = strip_comments(open(path).read())
    out = {}
    for n in names:
        if enum:
            m = re.search(r"\b%s\s*=\s*(-?\s*\d+)" % n, txt)
        else:
            m = re.search(r"#\s*define\s+%s\s+(\(?\s*-?\s*\d+\s*\)?)" % n, txt)
        if not m:
            raise ValueError("%s not found in %s" % (n, path))
        out[n] = cint(m.group(1))
    return out


def find_header(name):
    for d in ("/usr/include", "/usr/local/include", "/usr/include/x86_64-linux-gnu"):
        p = os.path.join(d, name)
        if os.path.exists(p):
            return p
    raise ValueError("system header %s not found" % name)


def body_of(src, start_rx, what):
    """text of the brace block that follows the first match of start_rx"""
    m = need(start_rx, src, what)
    i = src.index("{", m.end() - 1)
    depth = 0
    for j in range(i, len(src)):
        if src[j] == "{":
            depth += 1
        elif src[j] == "}":
            depth -= 1
            if depth == 0:
                return src[i + 1:j]
    raise ValueError("unbalanced braces in " + what)


def cases_leading_to(body, action_rx):
    """names of the case labels whose (fall-through) group ends in action_rx"""
    out = []
    pending = []
    for m in re.finditer(r"case\s+(\w+)\s*:|default\s*:|(return[^;]*;|UTIL_THROW\w*\s*\(|throw\b)", body):
        if m.group(1):
            pending.append(m.group(1))
        elif m.group(2):
            if re.match(action_rx, m.group(2)):
                out += pending
            pending = []
        else:
            pending = []
    return out


def generate(repo):
    cc = strip_comments(open(os.path.join(repo, "util", "compress.cc")).read())
    hh = strip_comments(open(os.path.join(repo, "util", "compress.hh")).read())
    magic_size = cint(need(r"kMagicSize\s*=\s*(\d+)\s*;", hh, "kMagicSize").group(1))
    in_buf = cint(need(r"kInputBuffer\s*=\s*(\d+)\s*;", cc, "kInputBuffer").group(1))
    gz_min = cint(need(r"GZipWrite::kMinOutput\s*=\s*(\d+)\s*;", cc, "GZipWrite::kMinOutput").group(1))
    bz_min = cint(need(r"BZipWrite::kMinOutput\s*=\s*(\d+)\s*;", cc, "BZipWrite::kMinOutput").group(1))
    wbuf = cint(need(r"WriteStream\s*\(\s*int\s+out\s*,\s*int\s+level\s*=\s*\d+\s*,\s*std::size_t\s+compressed_buffer\s*=\s*(\d+)\s*\)", cc, "WriteStream buffer").group(1))
    need(r"buf_size_\s*\(\s*std::max<std::size_t>\s*\(\s*Compressor::kMinOutput\s*,\s*compressed_buffer\s*\)\s*\)", cc, "buf_size_ = max(kMinOutput, compressed_buffer)")
    dirty0 = need(r"dirty_\s*\(\s*(true|false)\b", cc, "initial dirty_").group(1)
    need(r"GZip::kSizeMax\s*=\s*static_cast<std::size_t>\s*\(\s*std::numeric_limits<uInt>::max\(\)\s*\)", cc, "GZip::kSizeMax = UINT_MAX")
    need(r"BZip::kSizeMax\s*=\s*static_cast<std::size_t>\s*\(\s*std::numeric_limits<unsigned int>::max\(\)\s*\)", cc, "BZip::kSizeMax = UINT_MAX")

    # ReadStream::Read: at the end of a member the next reader is ALWAYS looked for with
    # ReadFactory on the left-over input (also when that is empty), then the thunk
    rs = body_of(cc, r"template\s*<class\s+Compression>\s*class\s+ReadStream[^{]*\{", "class ReadStream")
    rr = body_of(rs, r"std::size_t\s+Read\s*\(\s*void\s*\*to\s*,\s*std::size_t\s+amount\s*,\s*ReadCompressed\s*&thunk\s*\)\s*\{", "ReadStream::Read")
    need(r"if\s*\(\s*!back_\.Process\(\)\s*\)\s*\{\s*std::size_t\s+ret\s*=[^;]*;\s*"
         r"ReplaceThis\s*\(\s*ReadFactory\s*\(\s*file_\.release\(\)\s*,\s*ReadCount\(thunk\)\s*,\s*back_\.NextInput\(\)\s*,\s*back_\.AvailInput\(\)\s*,\s*true\s*\)\s*,\s*thunk\s*\)\s*;\s*"
         r"if\s*\(\s*ret\s*\)\s*return\s+ret\s*;\s*return\s+Current\(thunk\)->Read\(to,\s*amount,\s*thunk\)\s*;", rr,
         "end of member: unconditional ReplaceThis(ReadFactory(rest of input, require_compressed)) then thunk")
    need(r"if\s*\(\s*!back_\.AvailInput\(\)\s*\)\s*ReadInput\s*\(\s*thunk\s*\)\s*;", rr, "refill only when the input buffer is empty")
    need(r"while\s*\(\s*back_\.NextOutput\(\)\s*==\s*to\s*\)", rr, "loop while nothing was produced")

    # DetectMagic: gzip test, then BZ, then XZ
    dm = body_of(cc, r"MagicResult\s+DetectMagic\s*\([^)]*\)\s*\{", "DetectMagic")
    g = need(r"length\s*>=\s*(\d+)\s*&&\s*header\[0\]\s*==\s*(\w+)\s*&&\s*header\[1\]\s*==\s*(\w+)\s*\)\s*\{\s*return\s+UTIL_GZIP", dm, "gzip magic test")
    if cint(g.group(1)) != 2:
        raise ValueError("gzip magic length is not 2")
    gz_magic = [cint(g.group(2)), cint(g.group(3))]
    b = need(r"kBZMagic\s*\[\s*(\d+)\s*\]\s*=\s*\{([^}]*)\}", dm, "kBZMagic")
    bz_magic = [c_byte(x) for x in b.group(2).split(",") if x.strip()]
    x = need(r"kXZMagic\s*\[\s*(\d+)\s*\]\s*=\s*\{([^}]*)\}", dm, "kXZMagic")
    xz_magic = [c_byte(t) for t in x.group(2).split(",") if t.strip()]
    if len(bz_magic) != cint(b.group(1)) or len(xz_magic) != cint(x.group(1)):
        raise ValueError("magic array size differs from its initialiser")
    need(r"length\s*>=\s*sizeof\(kBZMagic\)\s*&&\s*!memcmp\(header,\s*kBZMagic,\s*sizeof\(kBZMagic\)\)\s*\)\s*\{\s*return\s+UTIL_BZIP", dm, "bzip magic test")
    need(r"length\s*>=\s*sizeof\(kXZMagic\)\s*&&\s*!memcmp\(header,\s*kXZMagic,\s*sizeof\(kXZMagic\)\)\s*\)\s*\{\s*return\s+UTIL_XZIP", dm, "xz magic test")
    order = [m.group(1) for m in re.finditer(r"return\s+UTIL_(GZIP|BZIP|XZIP)", dm)]
    if order != ["GZIP", "BZIP", "XZIP"]:
        raise ValueError("DetectMagic order changed: %r" % order)

    # GZCompress
    gzc = body_of(cc, r"void\s+GZCompress\s*\(\s*StringPiece\s+from\s*,\s*std::string\s*&to\s*,\s*int\s+level\s*\)\s*\{", "GZCompress")
    gz_first = cint(need(r"to\.resize\(\s*(\d+)\s*\)", gzc, "GZCompress initial size").group(1))
    # input of more than kSizeMax bytes is fed in pieces (zlib's avail_in is an unsigned int)
    need(r"for\s*\(\s*;\s*amount\s*>\s*GZip::kSizeMax\s*;\s*data\s*\+=\s*GZip::kSizeMax\s*,\s*amount\s*-=\s*GZip::kSizeMax\s*\)\s*\{\s*"
         r"writer\.SetInput\(data,\s*GZip::kSizeMax\);\s*while\s*\(writer\.AvailInput\(\)\)\s*\{\s*EnsureOutput\(writer,\s*to\);\s*writer\.Process\(\);\s*\}\s*"
         r"EnsureOutput\(writer,\s*to\);\s*\}\s*writer\.SetInput\(data,\s*amount\);", gzc, "GZCompress: chunked input above kSizeMax")
    gz_inc = cint(need(r"kIncrement\s*=\s*(\d+)\s*;", cc, "EnsureOutput kIncrement").group(1))

    z = header_defs(find_header("zlib.h"), ["Z_OK", "Z_STREAM_END", "Z_ERRNO", "Z_BUF_ERROR", "Z_NO_FLUSH", "Z_FINISH"])
    bzc = header_defs(find_header("bzlib.h"), ["BZ_RUN", "BZ_FINISH", "BZ_OK", "BZ_RUN_OK", "BZ_FLUSH_OK", "BZ_FINISH_OK", "BZ_STREAM_END"])
    lz = header_defs(find_header("lzma/base.h"), ["LZMA_OK", "LZMA_STREAM_END", "LZMA_BUF_ERROR", "LZMA_RUN", "LZMA_FINISH"], enum=True)
    allc = dict(z)
    allc.update(bzc)
    allc.update(lz)

    # which return codes the wrappers treat how (from the case labels)
    gzr = body_of(cc, r"class\s+GZipRead[^{]*\{", "class GZipRead")
    gzr_p = body_of(gzr, r"bool\s+Process\s*\(\s*\)\s*\{", "GZipRead::Process")
    need(r"inflate\s*\(\s*&stream_\s*,\s*0\s*\)", gzr_p, "inflate(&stream_, 0)")
    gz_read_true = cases_leading_to(gzr_p, r"return\s+true\s*;")
    gz_read_false = cases_leading_to(gzr_p, r"return\s+false\s*;")
    gzw = body_of(cc, r"class\s+GZipWrite[^{]*\{", "class GZipWrite")
    gzw_p = body_of(gzw, r"void\s+Process\s*\(\s*\)\s*\{", "GZipWrite::Process")
    need(r"deflate\s*\(\s*&stream_\s*,\s*Z_NO_FLUSH\s*\)", gzw_p, "deflate(Z_NO_FLUSH)")
    need(r"UTIL_THROW_IF\s*\(\s*Z_OK\s*!=\s*result", gzw_p, "GZipWrite::Process throws unless Z_OK")
    gzw_f = body_of(gzw, r"bool\s+Finish\s*\(\s*\)\s*\{", "GZipWrite::Finish")
    need(r"deflate\s*\(\s*&stream_\s*,\s*Z_FINISH\s*\)", gzw_f, "deflate(Z_FINISH)")
    gz_fin_true = cases_leading_to(gzw_f, r"return\s+true\s*;")
    gz_fin_false = cases_leading_to(gzw_f, r"return\s+false\s*;")
    bzb = body_of(cc, r"class\s+BZip\s*\{", "class BZip")
    bz_he = body_of(bzb, r"void\s+HandleError\s*\(\s*int\s+value\s*\)\s*\{", "BZip::HandleError")
    bz_fine = cases_leading_to(bz_he, r"return\s*;")
    bzw = body_of(cc, r"class\s+BZipWrite[^{]*\{", "class BZipWrite")
    bzw_p = body_of(bzw, r"void\s+Process\s*\(\s*\)\s*\{", "BZipWrite::Process")
    need(r"HandleError\s*\(\s*BZ2_bzCompress\s*\(\s*&stream_\s*,\s*BZ_RUN\s*\)\s*\)", bzw_p, "BZ2_bzCompress(BZ_RUN)")
    bzw_f = body_of(bzw, r"bool\s+Finish\s*\(\s*\)\s*\{", "BZipWrite::Finish")
    need(r"BZ2_bzCompress\s*\(\s*&stream_\s*,\s*BZ_FINISH\s*\)", bzw_f, "BZ2_bzCompress(BZ_FINISH)")
    bz_fin_true = cases_leading_to(bzw_f, r"return\s+true\s*;")
    bz_fin_false = cases_leading_to(bzw_f, r"return\s+false\s*;")
    bzr = body_of(cc, r"class\s+BZipRead[^{]*\{", "class BZipRead")
    bzr_p = body_of(bzr, r"bool\s+Process\s*\(\s*\)\s*\{", "BZipRead::Process")
    need(r"if\s*\(\s*ret\s*==\s*BZ_STREAM_END\s*\)\s*return\s+false\s*;\s*HandleError\s*\(\s*ret\s*\)\s*;", bzr_p, "BZipRead::Process end test")
    bz_stall_check = 1 if re.search(r"UTIL_THROW_IF\s*\(\s*no_input\s*&&\s*stream_\.next_out\s*==\s*out_before", bzr_p) else 0
    xzb = body_of(cc, r"class\s+XZip\s*\{", "class XZip")
    xz_he = body_of(xzb, r"void\s+HandleError\s*\(\s*lzma_ret\s+value\s*\)\s*\{", "XZip::HandleError")
    xz_fine = cases_leading_to(xz_he, r"return\s*;")
    xz_p = body_of(xzb, r"bool\s+Process\s*\(\s*\)\s*\{", "XZip::Process")
    need(r"if\s*\(\s*status\s*==\s*LZMA_STREAM_END\s*\)\s*return\s+false\s*;\s*HandleError\s*\(\s*status\s*\)\s*;", xz_p, "XZip::Process end test")
    need(r"if\s*\(\s*!amount\s*\)\s*action_\s*=\s*LZMA_FINISH\s*;", xzb, "XZip::SetInput switches to LZMA_FINISH on empty input")
    need(r"action_\s*\(\s*LZMA_RUN\s*\)", xzb, "XZip initial action LZMA_RUN")

    def codes(names):
        try:
            return [allc[n] for n in names]
        except KeyError as e:
            raise ValueError("return code %s used in a switch is not known to the translator" % e)

    def zl(v):
        return "[" + "; ".join("(%d)" % x if x < 0 else str(x) for x in v) + "]"

    L = ["(* GENERATED by tools/gen/g_compress.py from util/compress.cc, util/compress.hh and the",
         "   codec headers (zlib.h, bzlib.h, lzma/base.h) -- do not edit *)",
         "From Coq Require Import List ZArith NArith.",
         "Import ListNotations.",
         "Local Open Scope Z_scope.",
         ""]
    for n, v in [("kMagicSize", magic_size), ("kInputBuffer", in_buf), ("gz_kMinOutput", gz_min), ("bz_kMinOutput", bz_min),
                 ("compressed_buffer", wbuf), ("kSizeMax", 4294967295), ("gzc_initial", gz_first), ("gzc_increment", gz_inc)]:
        L.append("Definition %s : N := %d%%N." % (n, v))
    L.append("Definition dirty_initial : bool := %s." % dirty0)
    L.append("Definition bz_read_stall_check : bool := %s." % ("true" if bz_stall_check else "false"))
    L.append("Definition gz_magic : list Z := %s." % zl(gz_magic))
    L.append("Definition bz_magic : list Z := %s." % zl(bz_magic))
    L.append("Definition xz_magic : list Z := %s." % zl(xz_magic))
    for n in sorted(allc):
        v = allc[n]
        L.append("Definition %s : Z := %s." % (n, "(%d)" % v if v < 0 else str(v)))
    L.append("(* return codes by wrapper outcome, from the case labels *)")
    L.append("Definition gz_read_continue : list Z := %s." % zl(codes(gz_read_true)))
    L.append("Definition gz_read_end : list Z := %s." % zl(codes(gz_read_false)))
    L.append("Definition gz_finish_done : list Z := %s." % zl(codes(gz_fin_true)))
    L.append("Definition gz_finish_again : list Z := %s." % zl(codes(gz_fin_false)))
    L.append("Definition bz_fine : list Z := %s." % zl(codes(bz_fine)))
    L.append("Definition bz_finish_done : list Z := %s." % zl(codes(bz_fin_true)))
    L.append("Definition bz_finish_again : list Z := %s." % zl(codes(bz_fin_false)))
    L.append("Definition xz_fine : list Z := %s." % zl(codes(xz_fine)))
    return "Src_compress.v", "\n".join(L) + "\n"
