"""Shape-tolerant wrapper for translators whose model is hand-written (control flow) and only
constants are regenerated.

strict()  = the normal translation with strict patterns on the shape of the code.
If strict() fails but the multiset of numeric literals in the anchored source regions is the same
as at the last good translation, the code was restructured without touching any number (renamed
variable, std::find -> memchr, reordered statements ...).  Then the last good Gen file is kept,
marked `SHAPE-CHANGED`, and the tie rests on the correspondence run of the check (which compares
the model with those constants against the current code).  If a literal changed as well, the
translator raises: broken tie."""
import os
import re
import subprocess

HERE = os.path.dirname(os.path.abspath(__file__))
VERIF = os.path.dirname(os.path.dirname(HERE))
_LIT = re.compile(r"(?<![\w.])(0[xX][0-9a-fA-F]+|\d+)[uUlL]*\b")


def literals(text):
    out = []
    for t in _LIT.findall(text):
        out.append(int(t, 16) if t.lower().startswith("0x") else int(t, 8) if len(t) > 1 and t[0] == "0" else int(t))
    return sorted(out)


def fingerprint(regions):
    return ",".join(str(x) for x in literals("\n".join(regions)))


def _last_good(basename):
    rel = os.path.join("coq", "theories", "Gen", basename)
    cands = []
    p = os.path.join(VERIF, rel)
    if os.path.exists(p):
        cands.append(open(p).read())
    try:
        cands.append(subprocess.run(["git", "-C", VERIF, "show", "HEAD:" + rel], stdout=subprocess.PIPE, stderr=subprocess.DEVNULL,
                                    timeout=20).stdout.decode())
    except Exception:
        pass
    for c in cands:
        if "(* LITERALS: " in c and "translator failed" not in c:
            return c
    return None


def with_fallback(basename, regions, strict):
    fp = fingerprint(regions)
    try:
        text = strict()
        return text.rstrip("\n") + "\n(* LITERALS: %s *)\n" % fp
    except ValueError as e:
        prev = _last_good(basename)
        if prev is None:
            raise
        m = re.search(r"\(\* LITERALS: ([0-9,]*) \*\)", prev)
        if not m or m.group(1) != fp:
            raise ValueError("%s (and the numeric literals of the anchored code changed: constants cannot be kept)" % e)
        prev = re.sub(r"\(\* SHAPE-CHANGED:.*?\*\)\n", "", prev, flags=re.S)
        msg = str(e).replace("*)", "* )")
        return prev.rstrip("\n") + "\n(* SHAPE-CHANGED: %s ; all numeric literals unchanged, constants of the last good translation kept *)\n" % msg


def shape_note(basename):
    """for checks: the SHAPE-CHANGED note of a generated file, or None"""
    p = os.path.join(VERIF, "coq", "theories", "Gen", basename)
    try:
        m = re.search(r"\(\* SHAPE-CHANGED: (.*?) \*\)", open(p).read(), flags=re.S)
        return m.group(1) if m else None
    except FileNotFoundError:
        return None
