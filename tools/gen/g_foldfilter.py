"""preprocess/foldfilter_main.cc + util/utf8.hh -> Gen/Src_foldfilter.v

Data of the tool that is not control flow: the default wrap options (width,
keep-delimiters flag, delimiter list in preference order), the getopt string,
and the numeric constants of util::DecodeUTF8 / IsTrailByte / IsValidCodepoint
that the model of the scanner uses (names prefixed fu8_ so that they cannot
clash with the C12 owner's Src_utf8.v)."""
import os
import re
from .cparse import strip_comments


def need(rx, s, what, flags=0):
    m = re.search(rx, s, flags)
    if not m:
        raise ValueError("pattern for %s not found" % what)
    return m


def cint(t):
    t = t.strip().replace(" ", "")
    neg = t.startswith("-")
    if neg:
        t = t[1:]
    t = re.sub(r"[uUlL]+$", "", t)
    v = int(t, 16) if t.lower().startswith("0x") else int(t)
    return -v if neg else v


def char_literal(t):
    t = t.strip()
    m = re.match(r"^(?:U|u|L)?'(\\.|[^'\\])'$", t)
    if not m:
        raise ValueError("not a character literal: %r" % t)
    c = m.group(1)
    if c.startswith("\\"):
        simple = {"n": 10, "t": 9, "r": 13, "0": 0, "\\": 92, "'": 39, '"': 34}
        if c[1] not in simple:
            raise ValueError("unknown escape in %r" % t)
        return simple[c[1]]
    return ord(c)


def generate(repo):
    src = strip_comments(open(os.path.join(repo, "preprocess", "foldfilter_main.cc")).read())
    opts = src[src.index("struct wrap_options"):]
    opts = opts[:opts.index("};") + 2]
    width = cint(need(r"size_t\s+column_width\s*=\s*([^;]+);", opts, "default column_width").group(1))
    keep = need(r"bool\s+keep_delimiters_in_lines\s*=\s*(true|false)\s*;", opts, "default keep_delimiters_in_lines").group(1)
    dl = need(r"std::vector<\s*char32_t\s*>\s+delimiters\s*\{([^}]*)\}\s*;", opts, "default delimiters").group(1)
    delims = [char_literal(x) for x in re.findall(r"(?:U|u|L)?'(?:\\.|[^'\\])'", dl)]
    if re.sub(r"(?:U|u|L)?'(?:\\.|[^'\\])'", "", dl).replace(",", "").strip() != "":
        raise ValueError("default delimiter list is not a list of character literals: %r" % dl)
    getopt = need(r"getopt\s*\(\s*\w+\s*,\s*\w+\s*,\s*\"([^\"]*)\"\s*\)", src, "getopt string").group(1)
    sflag = need(r"case\s+'s'\s*:\s*\w+\.keep_delimiters_in_lines\s*=\s*(true|false)\s*;", src, "-s handler").group(1)

    # how the feeder and the collector read lines (FilePiece's strip_cr argument)
    fp = strip_comments(open(os.path.join(repo, "util", "file_piece.hh")).read())
    dflt_rl = need(r"StringPiece\s+ReadLine\s*\(\s*char\s+delim\s*=\s*'\\n'\s*,\s*bool\s+strip_cr\s*=\s*(true|false)\s*\)", fp, "ReadLine default strip_cr").group(1)
    dflt_rle = need(r"bool\s+ReadLineOrEOF\s*\(\s*StringPiece\s*&\s*to\s*,\s*char\s+delim\s*=\s*'\\n'\s*,\s*bool\s+strip_cr\s*=\s*(true|false)\s*\)", fp, "ReadLineOrEOF default strip_cr").group(1)

    def strip_arg(args, dflt, what):
        a = [x.strip() for x in args.split(",")] if args.strip() else []
        if len(a) == 0:
            return dflt
        if a[0] != "'\\n'":
            raise ValueError("%s: unexpected line delimiter %r" % (what, a[0]))
        if len(a) == 1:
            return dflt
        if a[1] not in ("true", "false"):
            raise ValueError("%s: strip_cr argument %r is not a literal" % (what, a[1]))
        return a[1]

    m = re.search(r"for\s*\(\s*util::StringPiece\s+\w+\s*:\s*\w+\s*\)", src)
    if m:
        feeder_cr = dflt_rle      # LineIterator calls ReadLineOrEOF(line_, delim_)
    else:
        m = need(r"\w+\.ReadLineOrEOF\s*\(\s*\w+\s*((?:,[^)]*)?)\)", src, "feeder line loop")
        feeder_cr = strip_arg(m.group(1).lstrip(","), dflt_rle, "feeder ReadLineOrEOF")
    m = need(r"\w+\.ReadLine\s*\(([^)]*)\)", src, "collector ReadLine")
    collector_cr = strip_arg(m.group(1), dflt_rl, "collector ReadLine")

    u8 = strip_comments(open(os.path.join(repo, "util", "utf8.hh")).read())
    trail = cint(need(r"IsTrailByte\s*\(\s*char\s+x\s*\)\s*\{\s*return\s+static_cast<\s*signed\s+char\s*>\s*\(\s*x\s*\)\s*<\s*(-?\s*\w+)\s*;", u8, "IsTrailByte bound").group(1))
    vc = need(r"IsValidCodepoint\s*\(\s*char32\s+c\s*\)\s*\{\s*return\s*\(\s*static_cast<\s*uint32\s*>\s*\(\s*c\s*\)\s*<\s*(\w+)\s*\)\s*\|\|\s*\(\s*c\s*>=\s*(\w+)\s*&&\s*c\s*<=\s*(\w+)\s*\)\s*;", u8, "IsValidCodepoint")
    dec = u8[u8.index("inline char32 DecodeUTF8"):]
    dec = dec[:dec.index("throw NotUTF8Exception")]
    b1 = need(r"static_cast<\s*unsigned\s+char\s*>\s*\(\s*begin\[0\]\s*\)\s*<\s*(\w+)\s*\)\s*\{\s*\*mblen\s*=\s*(\d+)\s*;", dec, "1-byte branch")
    b2 = need(r"len\s*>=\s*(\d+)\s*&&\s*\(\s*begin\[0\]\s*&\s*(\w+)\s*\)\s*==\s*(\w+)\s*\)\s*\{\s*const\s+char32\s+cp\s*=\s*\(\s*\(\s*\(\s*begin\[0\]\s*&\s*(\w+)\s*\)\s*<<\s*(\d+)\s*\)\s*\|\s*\(\s*\(\s*begin\[1\]\s*&\s*(\w+)\s*\)\s*\)\s*\)\s*;\s*if\s*\(\s*IsTrailByte\s*\(\s*begin\[1\]\s*\)\s*&&\s*cp\s*>=\s*(\w+)\s*&&\s*IsValidCodepoint\s*\(\s*cp\s*\)\s*\)\s*\{\s*\*mblen\s*=\s*(\d+)\s*;", dec, "2-byte branch")
    b3 = need(r"len\s*>=\s*(\d+)\s*&&\s*\(\s*begin\[0\]\s*&\s*(\w+)\s*\)\s*==\s*(\w+)\s*\)\s*\{\s*const\s+char32\s+cp\s*=\s*\(\s*\(\s*\(\s*begin\[0\]\s*&\s*(\w+)\s*\)\s*<<\s*(\d+)\s*\)\s*\|\s*\(\s*\(\s*begin\[1\]\s*&\s*(\w+)\s*\)\s*<<\s*(\d+)\s*\)\s*\|\s*\(\s*\(\s*begin\[2\]\s*&\s*(\w+)\s*\)\s*\)\s*\)\s*;\s*if\s*\(\s*IsTrailByte\s*\(\s*begin\[1\]\s*\)\s*&&\s*IsTrailByte\s*\(\s*begin\[2\]\s*\)\s*&&\s*cp\s*>=\s*(\w+)\s*&&\s*IsValidCodepoint\s*\(\s*cp\s*\)\s*\)\s*\{\s*\*mblen\s*=\s*(\d+)\s*;", dec, "3-byte branch")
    b4 = need(r"len\s*>=\s*(\d+)\s*&&\s*\(\s*begin\[0\]\s*&\s*(\w+)\s*\)\s*==\s*(\w+)\s*\)\s*\{\s*const\s+char32\s+cp\s*=\s*\(\s*\(\s*\(\s*begin\[0\]\s*&\s*(\w+)\s*\)\s*<<\s*(\d+)\s*\)\s*\|\s*\(\s*\(\s*begin\[1\]\s*&\s*(\w+)\s*\)\s*<<\s*(\d+)\s*\)\s*\|\s*\(\s*\(\s*begin\[2\]\s*&\s*(\w+)\s*\)\s*<<\s*(\d+)\s*\)\s*\|\s*\(\s*\(\s*begin\[3\]\s*&\s*(\w+)\s*\)\s*\)\s*\)\s*;\s*if\s*\(\s*IsTrailByte\s*\(\s*begin\[1\]\s*\)\s*&&\s*IsTrailByte\s*\(\s*begin\[2\]\s*\)\s*&&\s*IsTrailByte\s*\(\s*begin\[3\]\s*\)\s*&&\s*cp\s*>=\s*(\w+)\s*&&\s*IsValidCodepoint\s*\(\s*cp\s*\)\s*\)\s*\{\s*\*mblen\s*=\s*(\d+)\s*;", dec, "4-byte branch")

    L = ["(* GENERATED by tools/gen/g_foldfilter.py from preprocess/foldfilter_main.cc and util/utf8.hh -- do not edit *)",
         "From Coq Require Import List ZArith.", "Import ListNotations.", "Local Open Scope Z_scope.", ""]

    def d(n, v):
        L.append("Definition %s : Z := %s." % (n, "(%d)" % v if v < 0 else str(v)))

    d("fold_default_width", width)
    L.append("Definition fold_default_keep : bool := %s." % keep)
    L.append("Definition fold_default_delims : list Z := [%s]." % "; ".join(str(x) for x in delims))
    L.append("Definition fold_s_sets_keep : bool := %s." % sflag)
    L.append("(* getopt string %r *)" % getopt)
    L.append("Definition fold_getopt : list Z := [%s]." % "; ".join(str(ord(c)) for c in getopt))
    L.append("Definition fold_feeder_strip_cr : bool := %s." % feeder_cr)
    L.append("Definition fold_collector_strip_cr : bool := %s." % collector_cr)
    L.append("")
    d("fu8_trail_bound", trail)
    d("fu8_valid_lt", cint(vc.group(1)))
    d("fu8_valid_ge", cint(vc.group(2)))
    d("fu8_valid_le", cint(vc.group(3)))
    d("fu8_b1_lt", cint(b1.group(1)))
    d("fu8_b1_len", cint(b1.group(2)))
    names2 = ["len", "leadmask", "leadval", "m0", "s0", "m1", "min", "mblen"]
    for n, g in zip(names2, b2.groups()):
        d("fu8_b2_" + n, cint(g))
    names3 = ["len", "leadmask", "leadval", "m0", "s0", "m1", "s1", "m2", "min", "mblen"]
    for n, g in zip(names3, b3.groups()):
        d("fu8_b3_" + n, cint(g))
    names4 = ["len", "leadmask", "leadval", "m0", "s0", "m1", "s1", "m2", "s2", "m3", "min", "mblen"]
    for n, g in zip(names4, b4.groups()):
        d("fu8_b4_" + n, cint(g))
    return "Src_foldfilter.v", "\n".join(L) + "\n"
