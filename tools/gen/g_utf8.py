"""util/utf8.hh -> Gen/Src_utf8.v : every mask, shift, bound and returned length
of IsTrailByte / IsValidCodepoint / DecodeUTF8, read from the source text.

The patterns are deliberately strict about the *shape* of each branch (which
tests are and-ed together, which comparison operator is used): if a branch is
restructured the translator raises (broken tie) instead of silently producing
constants for a different program."""
import os
import re
from .cparse import strip_comments
from .fallback import with_fallback

NUM = r"(-?\s*(?:0[xX][0-9a-fA-F]+|\d+))"


def cint(t):
    t = t.replace(" ", "")
    neg = t.startswith("-")
    if neg:
        t = t[1:]
    v = int(t, 16) if t.lower().startswith("0x") else (int(t, 8) if len(t) > 1 and t.startswith("0") else int(t))
    return -v if neg else v


def need(rx, s, what):
    m = re.search(rx, s, flags=re.S)
    if not m:
        raise ValueError("pattern for %s not found in util/utf8.hh" % what)
    return m


def ws(rx):
    """turn single spaces in a readable pattern into \\s*"""
    return rx.replace(" ", r"\s*")


def generate(repo):
    regions = [strip_comments(open(os.path.join(repo, *p)).read()) for p in
               (("util", "utf8.hh"), ("util", "utf8.cc"), ("preprocess", "remove_invalid_utf8_main.cc"), ("util", "spaces.cc"))]
    return "Src_utf8.v", with_fallback("Src_utf8.v", regions, lambda: strict(repo)[1])


def strict(repo):
    src = strip_comments(open(os.path.join(repo, "util", "utf8.hh")).read())
    consts = []

    m = need(ws(r"inline bool IsTrailByte \( char x \) \{ return static_cast<signed\s+char> \( x \) < " + NUM + r" ; \}"), src, "IsTrailByte")
    consts.append(("trail_bound", cint(m.group(1))))

    m = need(ws(r"inline bool IsValidCodepoint \( char32 c \) \{ return \( static_cast<uint32> \( c \) < " + NUM +
                r" \) \|\| \( c >= " + NUM + r" && c <= " + NUM + r" \) ; \}"), src, "IsValidCodepoint")
    consts += [("sur_lo", cint(m.group(1))), ("sur_hi", cint(m.group(2))), ("cp_max", cint(m.group(3)))]

    m = need(ws(r"constexpr uint32 kUnicodeError = " + NUM + " ;"), src, "kUnicodeError")
    consts.append(("kUnicodeError", cint(m.group(1))))

    i = src.index("inline char32 DecodeUTF8")
    j = src.index("class DecodeUTF8Iterator")
    body = src[i:j]
    need(ws(r"const size_t len = end - begin ;"), body, "len = end - begin")

    m = need(ws(r"if \( static_cast<unsigned\s+char> \( begin \[ 0 \] \) < " + NUM +
                r" \) \{ \*mblen = " + NUM + r" ; return static_cast<unsigned\s+char> \( begin \[ 0 \] \) ; \}"), body, "1-byte branch")
    consts += [("ascii_bound", cint(m.group(1))), ("mblen1", cint(m.group(2)))]

    m = need(ws(r"\} else if \( len >= " + NUM + r" && \( begin \[ 0 \] & " + NUM + r" \) == " + NUM + r" \) \{ "
                r"const char32 cp = \( \( \( begin \[ 0 \] & " + NUM + r" \) << " + NUM + r" \) \| \( \( begin \[ 1 \] & " + NUM + r" \) \) \) ; "
                r"if \( IsTrailByte \( begin \[ 1 \] \) && cp >= " + NUM + r" && IsValidCodepoint \( cp \) \) \{ "
                r"\*mblen = " + NUM + r" ; return cp ; \}"), body, "2-byte branch")
    consts += [("len2", cint(m.group(1))), ("lead2_mask", cint(m.group(2))), ("lead2_val", cint(m.group(3))),
               ("pay2_mask", cint(m.group(4))), ("sh2_0", cint(m.group(5))), ("tr2_1_mask", cint(m.group(6))),
               ("min2", cint(m.group(7))), ("mblen2", cint(m.group(8)))]

    m = need(ws(r"\} else if \( len >= " + NUM + r" && \( begin \[ 0 \] & " + NUM + r" \) == " + NUM + r" \) \{ "
                r"const char32 cp = \( \( \( begin \[ 0 \] & " + NUM + r" \) << " + NUM + r" \) \| \( \( begin \[ 1 \] & " + NUM + r" \) << " + NUM + r" \) \| "
                r"\( \( begin \[ 2 \] & " + NUM + r" \) \) \) ; "
                r"if \( IsTrailByte \( begin \[ 1 \] \) && IsTrailByte \( begin \[ 2 \] \) && cp >= " + NUM + r" && "
                r"IsValidCodepoint \( cp \) \) \{ \*mblen = " + NUM + r" ; return cp ; \}"), body, "3-byte branch")
    consts += [("len3", cint(m.group(1))), ("lead3_mask", cint(m.group(2))), ("lead3_val", cint(m.group(3))),
               ("pay3_mask", cint(m.group(4))), ("sh3_0", cint(m.group(5))), ("tr3_1_mask", cint(m.group(6))), ("sh3_1", cint(m.group(7))),
               ("tr3_2_mask", cint(m.group(8))), ("min3", cint(m.group(9))), ("mblen3", cint(m.group(10)))]

    m = need(ws(r"\} else if \( len >= " + NUM + r" && \( begin \[ 0 \] & " + NUM + r" \) == " + NUM + r" \) \{ "
                r"const char32 cp = \( \( \( begin \[ 0 \] & " + NUM + r" \) << " + NUM + r" \) \| \( \( begin \[ 1 \] & " + NUM + r" \) << " + NUM + r" \) \| "
                r"\( \( begin \[ 2 \] & " + NUM + r" \) << " + NUM + r" \) \| \( \( begin \[ 3 \] & " + NUM + r" \) \) \) ; "
                r"if \( IsTrailByte \( begin \[ 1 \] \) && IsTrailByte \( begin \[ 2 \] \) && IsTrailByte \( begin \[ 3 \] \) && cp >= " + NUM + r" && "
                r"IsValidCodepoint \( cp \) \) \{ \*mblen = " + NUM + r" ; return cp ; \} \}"), body, "4-byte branch")
    consts += [("len4", cint(m.group(1))), ("lead4_mask", cint(m.group(2))), ("lead4_val", cint(m.group(3))),
               ("pay4_mask", cint(m.group(4))), ("sh4_0", cint(m.group(5))), ("tr4_1_mask", cint(m.group(6))), ("sh4_1", cint(m.group(7))),
               ("tr4_2_mask", cint(m.group(8))), ("sh4_2", cint(m.group(9))), ("tr4_3_mask", cint(m.group(10))),
               ("min4", cint(m.group(11))), ("mblen4", cint(m.group(12)))]

    # after the chain: *mblen = 1; throw NotUTF8Exception(...)
    tail = body[m.end():]
    need(ws(r"^ \*mblen = " + NUM + r" ; throw NotUTF8Exception \("), tail, "fall-through throws NotUTF8Exception")

    # the iterator and IsUTF8: shape only (advance by the decoded length; stop when empty; catch -> false)
    it = src[j:]
    need(ws(r"DecodeUTF8Iterator &operator\+\+ \( \) \{ remaining_\.remove_prefix \( current_\.size \( \) \) ; "
            r"if \( !remaining_\.empty \( \) \) \{ size_t length ; "
            r"current_codepoint_ = DecodeUTF8 \( remaining_\.begin \( \) , remaining_\.end \( \) , &length \) ; "
            r"current_ = StringPiece \( remaining_\.data \( \) , length \) ; \} else \{ current_codepoint_ = kUnicodeError ; \}"), it, "DecodeUTF8Iterator::operator++")
    cc = strip_comments(open(os.path.join(repo, "util", "utf8.cc")).read())
    need(ws(r"bool IsUTF8 \( const StringPiece &str \) \{ try \{ for \( char32_t character : DecodeUTF8Range \( str \) \) \{ "
            r"\( void \) character ; \} return true ; \} catch \( const NotUTF8Exception & \) \{ return false ; \} \}"), cc, "IsUTF8")

    # remove_invalid_utf8_main.cc: which reader call, which predicate, what is written
    fp = strip_comments(open(os.path.join(repo, "util", "file_piece.hh")).read())
    d = need(ws(r"bool ReadLineOrEOF \( StringPiece &to , char delim = '(\\?.)' , bool strip_cr = (true|false) \) ;"), fp, "FilePiece::ReadLineOrEOF defaults")
    def_delim = {"\\n": 10, "\\0": 0, "\\t": 9}.get(d.group(1), ord(d.group(1)[-1]))
    def_cr = d.group(2) == "true"
    riu = strip_comments(open(os.path.join(repo, "preprocess", "remove_invalid_utf8_main.cc")).read())
    r = need(ws(r"while \( in\.ReadLineOrEOF \( line( , '(\\?.)')?( , (true|false))? \) \) \{ if \( util::IsUTF8 \( line \) \) \{ out << line << '(\\?.)' ; \} \}"), riu, "remove_invalid_utf8 main loop")
    riu_delim = def_delim if r.group(2) is None else {"\\n": 10, "\\0": 0, "\\t": 9}.get(r.group(2), ord(r.group(2)[-1]))
    riu_cr = def_cr if r.group(4) is None else r.group(4) == "true"
    riu_out = {"\\n": 10, "\\0": 0, "\\t": 9}.get(r.group(5), ord(r.group(5)[-1]))
    if riu_out != riu_delim:
        raise ValueError("remove_invalid_utf8 writes a terminator different from the delimiter it reads")

    # util/spaces.cc: the bytes StripSpaces (commoncrawl_dedupe) removes from both ends of a line
    sp = strip_comments(open(os.path.join(repo, "util", "spaces.cc")).read())
    t = need(ws(r"const bool kSpaces \[ 256 \] = \{ ([01 ,\s]*) \} ;"), sp, "kSpaces table")
    flags = [x.strip() for x in t.group(1).split(",") if x.strip() != ""]
    if len(flags) != 256:
        raise ValueError("kSpaces has %d initialisers, expected 256" % len(flags))
    space_bytes = [i for i, x in enumerate(flags) if x == "1"]

    L = ["(* GENERATED by tools/gen/g_utf8.py from util/utf8.hh, util/utf8.cc, util/file_piece.hh,",
         "   preprocess/remove_invalid_utf8_main.cc -- do not edit *)",
         "From Coq Require Import List ZArith.", "Import ListNotations.", "Local Open Scope Z_scope.", ""]
    for n, v in consts:
        L.append("Definition %s : Z := %s." % (n, "(%d)" % v if v < 0 else str(v)))
    L.append("(* remove_invalid_utf8: in.ReadLineOrEOF(line%s%s) *)" % ("" if r.group(2) is None else ", delim", "" if r.group(4) is None else ", strip_cr"))
    L.append("(* util/spaces.cc: the indices i with kSpaces[i] *)")
    L.append("Definition space_bytes : list Z := [%s]." % "; ".join(str(x) for x in space_bytes))
    L.append("Definition riu_delim : Z := %d." % riu_delim)
    L.append("Definition riu_strip_cr : bool := %s." % ("true" if riu_cr else "false"))
    return "Src_utf8.v", "\n".join(L) + "\n"
