"""util/file_piece.cc, util/file_piece.hh, util/compress.{cc,hh}, util/file.cc ->
Gen/Src_filepiece.v : the numeric constants of the line reader and of the
transfer loops (properties C02, C03).

What is tied: the initial window formula kPageSize * max(min_buffer / kPageSize + ADD, MINPAGES),
the growth factor of both shift back ends, the carriage-return byte and the guard of
the CR test, kMagicSize and the three magic byte strings, the default min_buffer,
the comparison operators of the retry / end tests of PartialRead, ReadOrEOF,
ReadOrThrow, WriteOrThrow and ReadShift (as small integers the model branches on),
kInputBuffer of ReadStream, kRead of the WARC reader, BufferedStream's buffer size."""
import os
import re
from .cparse import strip_comments, eval_int_list, find_initializer, unescape


def need(rx, s, what, flags=0):
    m = re.search(rx, s, flags)
    if not m:
        raise ValueError("pattern for %s not found" % what)
    return m


def body_of(src, header_rx, what):
    """text of the function whose header matches header_rx (brace matched)"""
    m = need(header_rx, src, what)
    i = src.index("{", m.end() - 1)
    depth = 0
    for j in range(i, len(src)):
        if src[j] == "{":
            depth += 1
        elif src[j] == "}":
            depth -= 1
            if depth == 0:
                return src[i:j + 1]
    raise ValueError("unbalanced braces in " + what)


def char_lit(t):
    b = unescape(t)
    if len(b) != 1:
        raise ValueError("bad char literal %r" % t)
    return b[0]


def byte_list(text):
    """{ 0xFD, '7', 'z' } -> ints"""
    out = []
    for tok in text.split(","):
        tok = tok.strip()
        if not tok:
            continue
        m = re.match(r"^'((?:\\.|[^'\\])+)'$", tok)
        if m:
            out.append(char_lit(m.group(1)))
        elif re.match(r"^0[xX][0-9a-fA-F]+$", tok):
            out.append(int(tok, 16))
        elif tok.isdigit():
            out.append(int(tok))
        else:
            raise ValueError("unexpected magic byte token %r" % tok)
    return out


def generate(repo):
    rd = lambda *p: strip_comments(open(os.path.join(repo, *p)).read())
    fpc = rd("util", "file_piece.cc")
    fph = rd("util", "file_piece.hh")
    cc = rd("util", "compress.cc")
    ch = rd("util", "compress.hh")
    fc = rd("util", "file.cc")
    bs = rd("util", "buffered_stream.hh")
    warc = rd("preprocess", "warc.cc")

    consts = []
    # --- initial window
    m = need(r"default_map_size_\s*=\s*kPageSize\s*\*\s*std::max<std::size_t>\s*\(\s*\(\s*min_buffer\s*/\s*kPageSize\s*\+\s*(\d+)\s*\)\s*,\s*(\d+)\s*\)\s*;", fpc, "initial default_map_size_")
    consts += [("fp_init_add", int(m.group(1))), ("fp_init_min_pages", int(m.group(2)))]
    # --- growth factors
    mm = body_of(fpc, r"void\s+FilePiece::MMapShift\s*\(", "MMapShift")
    rs = body_of(fpc, r"void\s+FilePiece::ReadShift\s*\(", "ReadShift")
    rl = body_of(fpc, r"StringPiece\s+FilePiece::ReadLine\s*\(", "ReadLine")
    g1 = need(r"if\s*\(\s*position_\s*==\s*data_\.begin\(\)\s*\+\s*ignore\s*&&\s*position_\s*\)\s*\{\s*default_map_size_\s*\*=\s*(\d+)\s*;", mm, "MMapShift doubling")
    consts.append(("fp_mmap_grow", int(g1.group(1))))
    g2 = need(r"if\s*\(\s*already_read\s*==\s*default_map_size_\s*\)\s*\{\s*if\s*\(\s*position_\s*==\s*data_\.begin\(\)\s*\)\s*\{[^}]*?default_map_size_\s*\*=\s*(\d+)\s*;\s*HugeRealloc", rs, "ReadShift doubling", re.S)
    consts.append(("fp_read_grow", int(g2.group(1))))
    e = need(r"if\s*\(\s*read_return\s*==\s*(\d+)\s*\)\s*\{\s*at_end_\s*=\s*true\s*;", rs, "ReadShift EOF test")
    consts.append(("fp_eof_read_return", int(e.group(1))))
    # --- ReadLine
    c = need(r"\(\s*strip_cr\s*&&\s*i\s*>\s*position_\s*&&\s*\*\s*\(\s*i\s*-\s*1\s*\)\s*==\s*'((?:\\.|[^'\\])+)'\s*\)\s*\?\s*(\d+)\s*:\s*(\d+)", rl, "ReadLine CR test")
    consts += [("fp_cr_byte", char_lit(c.group(1))), ("fp_cr_subtract", int(c.group(2))), ("fp_cr_else", int(c.group(3)))]
    d = need(r"min_buffer\s*=\s*(\d+)\s*\)", fph, "default min_buffer")
    consts.append(("fp_default_min_buffer", int(d.group(1))))
    dd = need(r"StringPiece\s+ReadLine\s*\(\s*char\s+delim\s*=\s*'((?:\\.|[^'\\])+)'\s*,\s*bool\s+strip_cr\s*=\s*(true|false)\s*\)", fph, "ReadLine defaults")
    consts += [("fp_default_delim", char_lit(dd.group(1))), ("fp_default_strip_cr", 1 if dd.group(2) == "true" else 0)]
    # --- magic
    k = need(r"static\s+const\s+std::size_t\s+kMagicSize\s*=\s*(\d+)\s*;", ch, "kMagicSize")
    consts.append(("rc_magic_size", int(k.group(1))))
    dm = body_of(cc, r"MagicResult\s+DetectMagic\s*\(", "DetectMagic")
    gz = need(r"length\s*>=\s*(\d+)\s*&&\s*header\[0\]\s*==\s*(0[xX][0-9a-fA-F]+|\d+)\s*&&\s*header\[1\]\s*==\s*(0[xX][0-9a-fA-F]+|\d+)", dm, "gzip magic")
    if int(gz.group(1)) != 2:
        raise ValueError("gzip magic length test is not 2")
    gzm = [int(gz.group(2), 0), int(gz.group(3), 0)]
    bz = byte_list(need(r"kBZMagic\s*\[\s*(\d+)\s*\]\s*=\s*\{([^}]*)\}", dm, "bzip magic").group(2))
    xz = byte_list(need(r"kXZMagic\s*\[\s*(\d+)\s*\]\s*=\s*\{([^}]*)\}", dm, "xz magic").group(2))
    ib = need(r"static\s+const\s+std::size_t\s+kInputBuffer\s*=\s*(\d+)\s*;", cc, "kInputBuffer")
    consts.append(("rc_input_buffer", int(ib.group(1))))
    # --- file.cc loops: operators
    pr = body_of(fc, r"std::size_t\s+PartialRead\s*\(", "PartialRead")
    ro = body_of(fc, r"std::size_t\s+ReadOrEOF\s*\(", "ReadOrEOF")
    rt = body_of(fc, r"void\s+ReadOrThrow\s*\(", "ReadOrThrow")
    wt = body_of(fc, r"void\s+WriteOrThrow\s*\(\s*int\s+fd", "WriteOrThrow")
    w1 = need(r"UTIL_THROW_IF_ARG\s*\(\s*ret\s*<\s*(\d+)\s*,\s*FDException", wt, "WriteOrThrow error test")
    consts.append(("wr_min_progress", int(w1.group(1))))
    for fn in ("ErsatzPRead", "ErsatzPWrite"):
        b = body_of(fc, r"void\s+%s\s*\(" % fn, fn)
    # --- BufferedStream
    b1 = need(r"kBufferSize\s*=\s*std::max<size_t>\s*\(\s*(\d+)\s*,\s*kToStringMaxBytes\s*\)", bs, "BufferedStream kBufferSize")
    consts.append(("bs_buffer_size", int(b1.group(1))))
    tb = rd("util", "threaded_buffered_stream.hh")
    b2 = need(r"kBlockSize\s*=\s*\(\s*(\d+)\s*>\s*kToStringMaxBytes\s*\)\s*\?\s*(\d+)\s*:\s*kToStringMaxBytes", tb, "BlockQueue::kBlockSize")
    if b2.group(1) != b2.group(2):
        raise ValueError("kBlockSize expression changed shape")
    consts.append(("tbs_block_size", int(b2.group(1))))
    # --- WARC
    kr = need(r"const\s+std::size_t\s+kRead\s*=\s*(\d+)\s*;", warc, "warc kRead")
    consts.append(("warc_kread", int(kr.group(1))))

    L = ["(* GENERATED by tools/gen/g_filepiece.py from util/file_piece.{cc,hh}, util/compress.{cc,hh}, util/file.cc,",
         "   util/buffered_stream.hh, preprocess/warc.cc -- do not edit *)",
         "From Coq Require Import List ZArith.", "Import ListNotations.", "Local Open Scope Z_scope.", ""]
    for n, v in consts:
        if n in ("fp_cr_byte", "fp_default_delim"):
            L.append("Definition %s : Z := %d." % (n, v))
        elif v > 1000:
            L.append("Definition %s : N := %d%%N." % (n, v))
        else:
            L.append("Definition %s : nat := %d%%nat." % (n, v))
    L.append("Definition rc_magic_gz : list Z := [%s]." % "; ".join(map(str, gzm)))
    L.append("Definition rc_magic_bz : list Z := [%s]." % "; ".join(map(str, bz)))
    L.append("Definition rc_magic_xz : list Z := [%s]." % "; ".join(map(str, xz)))
    return "Src_filepiece.v", "\n".join(L) + "\n"
