"""util/murmur_hash.cc (+ the call sites that fix seeds) -> Gen/Src_murmur.v :
multiplier m, shift r, the tail switch as a table (case label, byte index, shift),
which case carries `h *= m`, the native dispatch, and the seed every tool uses."""
import os
import re
from .cparse import strip_comments
from .fallback import with_fallback

NUM = r"((?:0[xX][0-9a-fA-F]+|\d+)(?:ULL|ull|UL|ul|U|u|LL|ll|L|l)?)"


def cint(t):
    t = re.sub(r"[uUlL]+$", "", t.strip())
    return int(t, 16) if t.lower().startswith("0x") else (int(t, 8) if len(t) > 1 and t.startswith("0") else int(t))


def ws(rx):
    return rx.replace(" ", r"\s*")


def need(rx, s, what, where="util/murmur_hash.cc"):
    m = re.search(rx, s, flags=re.S)
    if not m:
        raise ValueError("pattern for %s not found in %s" % (what, where))
    return m


def read(repo, *p):
    return strip_comments(open(os.path.join(repo, *p)).read())


def strip_arm(src):
    """keep the #else branch of `#if defined(__arm) || defined(__arm__)` blocks (x86-64 build)"""
    out = []
    mode = None   # None | "arm" | "else"
    for line in src.split("\n"):
        s = line.strip()
        if mode is None and re.match(r"#\s*if\s+defined\(__arm\)\s*\|\|\s*defined\(__arm__\)", s):
            mode = "arm"
            continue
        if mode == "arm" and re.match(r"#\s*else", s):
            mode = "else"
            continue
        if mode in ("arm", "else") and re.match(r"#\s*endif", s):
            mode = None
            continue
        if mode == "arm":
            continue
        out.append(line)
    return "\n".join(out)


REGION_FILES = [("util", "murmur_hash.cc"), ("util", "murmur_hash.hh"), ("preprocess", "fields.hh"), ("preprocess", "shard_main.cc"),
                ("preprocess", "dedupe_main.cc"), ("preprocess", "cache_main.cc"), ("preprocess", "subtract_lines_main.cc"),
                ("preprocess", "commoncrawl_dedupe_main.cc"), ("preprocess", "train_case_main.cc"), ("preprocess", "apply_case_main.cc"),
                ("preprocess", "mmhsum_main.cc"), ("preprocess", "order_independent_hash_main.cc")]


def generate(repo):
    regions = []
    for f in REGION_FILES:
        t = read(repo, *f)
        if f[1] == "murmur_hash.cc":
            t = strip_arm(t)
            t = t[t.index("uint64_t MurmurHash64A"):]
        elif f[0] == "preprocess":
            # only the lines that hash
            t = "\n".join(l for l in t.split("\n") if "Murmur" in l or "HashCallback" in l or "hash" in l.lower())
        regions.append(t)
    return "Src_murmur.v", with_fallback("Src_murmur.v", regions, lambda: strict(repo)[1])


def strict(repo):
    src = strip_arm(read(repo, "util", "murmur_hash.cc"))
    i = src.index("uint64_t MurmurHash64A")
    j = src.index("uint64_t MurmurHash64B")
    a = src[i:j]
    need(ws(r"uint64_t MurmurHash64A \( const void \* key , std::size_t len , uint64_t seed \)"), a, "MurmurHash64A signature")
    m = need(ws(r"const uint64_t m = " + NUM + " ;"), a, "m")
    mm = cint(m.group(1))
    m = need(ws(r"const int r = " + NUM + " ;"), a, "r")
    rr = cint(m.group(1))
    need(ws(r"uint64_t h = seed \^ \( len \* m \) ;"), a, "h = seed ^ (len * m)")
    need(ws(r"const size_t ksize = sizeof \( uint64_t \) ;"), a, "ksize = sizeof(uint64_t)")
    m = need(ws(r"const unsigned char \* data = \( const unsigned char \* \) key ; "
                r"const unsigned char \* end = data \+ \( std::size_t \) \( len / " + NUM + r" \) \* ksize ;"), a, "block pointer setup")
    block = cint(m.group(1))
    need(ws(r"while \( data != end \) \{ uint64_t k ; memcpy \( &k , data , ksize \) ; data \+= ksize ; "
            r"k \*= m ; k \^= k >> r ; k \*= m ; h \^= k ; h \*= m ; \}"), a, "block loop")
    need(ws(r"const unsigned char \* data2 = \( const unsigned char \* \) data ;"), a, "data2")
    sw = need(ws(r"switch \( len & " + NUM + r" \) \{(.*?)\} ;? h \^= h >> r ; h \*= m ; h \^= h >> r ; return h ; \}"), a, "tail switch + finalisation")
    tail_mask = cint(sw.group(1))
    body = sw.group(2)
    cases = []
    mul_case = None
    pos = 0
    rx = re.compile(ws(r"case " + NUM + r" : h \^= uint64_t \( data2 \[ " + NUM + r" \] \)( << " + NUM + r")? ;( h \*= m ;)?"))
    while True:
        rest = body[pos:]
        if rest.strip() == "":
            break
        mt = rx.match(rest.lstrip())
        if not mt:
            raise ValueError("unexpected statement in the tail switch of MurmurHash64A: %r" % rest.strip()[:60])
        pos += (len(rest) - len(rest.lstrip())) + mt.end()
        label, idx = cint(mt.group(1)), cint(mt.group(2))
        shift = cint(mt.group(4)) if mt.group(3) else 0
        cases.append((label, idx, shift))
        if mt.group(5):
            if mul_case is not None:
                raise ValueError("two `h *= m` in the tail switch")
            mul_case = label
    if mul_case is None:
        raise ValueError("no `h *= m` in the tail switch")
    labels = [c[0] for c in cases]
    if labels != sorted(labels, reverse=True) or len(set(labels)) != len(labels):
        raise ValueError("tail switch cases are not in strictly descending fall-through order: %r" % labels)
    if labels != list(range(tail_mask, 0, -1)):
        raise ValueError("tail switch cases are not exactly %d..1: %r (a missing label would skip the whole switch)" % (tail_mask, labels))
    if mul_case != labels[-1]:
        raise ValueError("`h *= m` is not in the last case of the tail switch")

    # ---- MurmurHash64B (the version MurmurHashNative picks on 4-byte pointers)
    k64b = src.index("uint64_t MurmurHash64B")
    b = src[k64b:src.index("namespace {", k64b)]
    need(ws(r"uint64_t MurmurHash64B \( const void \* key , std::size_t len , uint64_t seed \)"), b, "MurmurHash64B signature")
    mb = need(ws(r"const unsigned int m = " + NUM + r" ; const int r = " + NUM + r" ; unsigned int h1 = seed \^ len ; unsigned int h2 = " + NUM + " ;"), b, "64B constants and initial state")
    need(ws(r"size_t ksize = sizeof \( unsigned int \) ; const unsigned char \* data = \( const unsigned char \* \) key ; unsigned int k1 , k2 ;"), b, "64B pointer setup")
    lb = need(ws(r"while \( len >= " + NUM + r" \) \{ memcpy \( &k1 , data , ksize \) ; data \+= ksize ; memcpy \( &k2 , data , ksize \) ; data \+= ksize ; "
                 r"k1 \*= m ; k1 \^= k1 >> r ; k1 \*= m ; h1 \*= m ; h1 \^= k1 ; len -= " + NUM + r" ; "
                 r"k2 \*= m ; k2 \^= k2 >> r ; k2 \*= m ; h2 \*= m ; h2 \^= k2 ; len -= " + NUM + r" ; \}"), b, "64B block loop")
    ib = need(ws(r"if \( len >= " + NUM + r" \) \{ memcpy \( &k1 , data , ksize \) ; data \+= ksize ; k1 \*= m ; k1 \^= k1 >> r ; k1 \*= m ; h1 \*= m ; h1 \^= k1 ; len -= " + NUM + r" ; \}"), b, "64B half block")
    sb = need(ws(r"switch \( len \) \{ case 3 : h2 \^= \( \( unsigned char \* \) data \) \[ 2 \] << " + NUM + r" ; "
                 r"case 2 : h2 \^= \( \( unsigned char \* \) data \) \[ 1 \] << " + NUM + r" ; "
                 r"case 1 : h2 \^= \( \( unsigned char \* \) data \) \[ 0 \] ; h2 \*= m ; \} ;"), b, "64B tail switch")
    fb = need(ws(r"h1 \^= h2 >> " + NUM + r" ; h1 \*= m ; h2 \^= h1 >> " + NUM + r" ; h2 \*= m ; h1 \^= h2 >> " + NUM + r" ; h1 \*= m ; h2 \^= h1 >> " + NUM + r" ; h2 \*= m ; "
                 r"uint64_t h = h1 ; h = \( h << " + NUM + r" \) \| h2 ; return h ; \}"), b, "64B finalisation")
    b_consts = [("m64b_m", cint(mb.group(1))), ("m64b_r", cint(mb.group(2))), ("m64b_h2_init", cint(mb.group(3))),
                ("m64b_loop_min", cint(lb.group(1))), ("m64b_loop_dec1", cint(lb.group(2))), ("m64b_loop_dec2", cint(lb.group(3))),
                ("m64b_half_min", cint(ib.group(1))), ("m64b_half_dec", cint(ib.group(2))),
                ("m64b_tail_sh2", cint(sb.group(1))), ("m64b_tail_sh1", cint(sb.group(2))),
                ("m64b_fin1", cint(fb.group(1))), ("m64b_fin2", cint(fb.group(2))), ("m64b_fin3", cint(fb.group(3))), ("m64b_fin4", cint(fb.group(4))),
                ("m64b_join_shift", cint(fb.group(5)))]

    # native dispatch
    need(ws(r"template <unsigned L> inline uint64_t MurmurHashNativeBackend \( const void \* key , std::size_t len , uint64_t seed \) \{ "
            r"return MurmurHash64A \( key , len , seed \) ; \}"), src, "MurmurHashNativeBackend<L> = 64A")
    m4 = need(ws(r"template <> inline uint64_t MurmurHashNativeBackend<" + NUM + r"> \( const void \* key , std::size_t len , uint64_t seed \) \{ "
                 r"return MurmurHash64B \( key , len , seed \) ; \}"), src, "MurmurHashNativeBackend<4> = 64B")
    need(ws(r"uint64_t MurmurHashNative \( const void \* key , std::size_t len , uint64_t seed \) \{ "
            r"return MurmurHashNativeBackend<sizeof \( void \* \)> \( key , len , seed \) ; \}"), src, "MurmurHashNative dispatch")
    hh = read(repo, "util", "murmur_hash.hh")
    d = need(ws(r"uint64_t MurmurHash64A \( const void \* key , std::size_t len , uint64_t seed = " + NUM + r" \) ;"), hh, "default seed of MurmurHash64A", "util/murmur_hash.hh")
    default_seed_a = cint(d.group(1))
    d = need(ws(r"uint64_t MurmurHashNative \( const void \* key , std::size_t len , uint64_t seed = " + NUM + r" \) ;"), hh, "default seed of MurmurHashNative", "util/murmur_hash.hh")
    default_seed_n = cint(d.group(1))

    # ---- call sites
    f = read(repo, "preprocess", "fields.hh")
    m = need(ws(r"explicit HashCallback \( uint64_t seed = " + NUM + r" \) : hash_ \( seed \)"), f, "HashCallback default seed", "preprocess/fields.hh")
    shard_seed = cint(m.group(1))
    need(ws(r"void operator\(\) \( util::StringPiece key \) \{ hash_ = util::MurmurHashNative \( key\.data \( \) , key\.size \( \) , hash_ \) ; \}"),
         f, "HashCallback::operator() folds with the previous value as seed", "preprocess/fields.hh")
    sh = read(repo, "preprocess", "shard_main.cc")
    need(ws(r"preprocess::HashCallback cb ; preprocess::RangeFields \( line , options\.key_fields , options\.delim , cb \) ; "
            r"out \[ cb\.Hash \( \) % shard_count \] << line << '\\n' ;"), sh, "shard: default-seeded HashCallback, Hash() % shard_count", "preprocess/shard_main.cc")
    need(ws(r"uint64_t shard_count = options\.outputs\.size \( \) ;"), sh, "shard_count", "preprocess/shard_main.cc")
    dd = read(repo, "preprocess", "dedupe_main.cc")
    m1 = need(ws(r"return \( \*this \) \( util::MurmurHashNative \( line\.data \( \) , line\.size \( \) , " + NUM + r" \) \) ;"), dd, "dedupe whole-line seed", "preprocess/dedupe_main.cc")
    m2 = need(ws(r"HashCallback hasher \( " + NUM + r" \) ; RangeFields \( line , key_fields_ , delim_ , hasher \) ;"), dd, "dedupe field seed", "preprocess/dedupe_main.cc")
    dedupe_line_seed, dedupe_field_seed = cint(m1.group(1)), cint(m2.group(1))
    ca = read(repo, "preprocess", "cache_main.cc")
    m = need(ws(r"HashWithSeed \( \) \{ hash = " + NUM + r" ; \} void operator\(\) \( util::StringPiece sp \) \{ "
                r"size_t result = util::MurmurHashNative \( sp\.data \( \) , sp\.size \( \) , hash \) ; hash = result ; \}"), ca, "cache HashWithSeed", "preprocess/cache_main.cc")
    cache_seed = cint(m.group(1))
    sl = read(repo, "preprocess", "subtract_lines_main.cc")
    ss = re.findall(ws(r"util::MurmurHashNative \( line\.data \( \) , line\.size \( \) , " + NUM + r" \)"), sl)
    if len(ss) != 2:
        raise ValueError("expected two MurmurHashNative(line, seed) call sites in subtract_lines_main.cc, found %d" % len(ss))
    sub_insert_seed, sub_lookup_seed = cint(ss[0]), cint(ss[1])
    cc = read(repo, "preprocess", "commoncrawl_dedupe_main.cc")
    m = need(ws(r"entry\.key = util::MurmurHashNative \( l\.data \( \) , l\.size \( \) , " + NUM + r" \) ;"), cc, "commoncrawl_dedupe seed", "preprocess/commoncrawl_dedupe_main.cc")
    ccd_seed = cint(m.group(1))
    tr = read(repo, "preprocess", "train_case_main.cc")
    need(ws(r"uint64_t key = util::MurmurHash64A \( lowered_\.data \( \) , lowered_\.size \( \) , util::MurmurHash64A \( source\.data \( \) , source\.size \( \) \) \) ;"),
         tr, "train_case key = 64A(lowered, 64A(source))", "preprocess/train_case_main.cc")
    ap = read(repo, "preprocess", "apply_case_main.cc")
    need(ws(r"uint64_t key = util::MurmurHash64A \( lowered\.data \( \) , lowered\.size \( \) , util::MurmurHash64A \( source\.data \( \) , source\.size \( \) \) \) ;"),
         ap, "apply_case key = 64A(lowered, 64A(source))", "preprocess/apply_case_main.cc")
    mh = read(repo, "preprocess", "mmhsum_main.cc")
    m = need(ws(r"constexpr size_t bufferSize = " + NUM + r" \* " + NUM + r" ;"), mh, "mmhsum buffer size", "preprocess/mmhsum_main.cc")
    mmh_buf = cint(m.group(1)) * cint(m.group(2))
    m = need(ws(r"uint64_t chained_hash = " + NUM + r" ;"), mh, "mmhsum initial value", "preprocess/mmhsum_main.cc")
    mmh_seed = cint(m.group(1))
    need(ws(r"chained_hash = util::MurmurHashNative \( &buffer \[ 0 \] , count , chained_hash \) ;"), mh, "mmhsum chaining", "preprocess/mmhsum_main.cc")
    oi = read(repo, "preprocess", "order_independent_hash_main.cc")
    m = need(ws(r"uint64_t sum = " + NUM + r" ; for \( util::StringPiece line : util::FilePiece \( 0 \) \) \{ "
                r"sum \+= util::MurmurHash64A \( line\.data \( \) , line\.size \( \) \) ; \}"), oi, "order_independent_hash loop", "preprocess/order_independent_hash_main.cc")
    oih_init = cint(m.group(1))

    L = ["(* GENERATED by tools/gen/g_murmur.py from util/murmur_hash.cc/.hh and the hashing call sites -- do not edit *)",
         "From Coq Require Import List ZArith.", "Import ListNotations.", "Local Open Scope Z_scope.", ""]
    L.append("Definition murmur_m : Z := %d.   (* 0x%x *)" % (mm, mm))
    L.append("Definition murmur_r : Z := %d." % rr)
    L.append("Definition murmur_block : Z := %d.   (* len / %d blocks of uint64_t *)" % (block, block))
    L.append("Definition murmur_tail_mask : Z := %d.   (* switch (len & %d) *)" % (tail_mask, tail_mask))
    L.append("(* tail switch in source order: (case label, index into data2, left shift) *)")
    L.append("Definition murmur_tail_cases : list (Z * nat * Z) :=\n  [%s]." % "; ".join("(%d, %d%%nat, %d)" % c for c in cases))
    L.append("Definition murmur_tail_mul_case : Z := %d.   (* the case that carries h *= m *)" % mul_case)
    L.append("Definition native_64b_pointer_size : Z := %d.   (* MurmurHashNative = 64A unless the pointer size is this *)" % cint(m4.group(1)))
    for n_, v_ in b_consts:
        L.append("Definition %s : Z := %d." % (n_, v_))
    L.append("Definition default_seed_64a : Z := %d." % default_seed_a)
    L.append("Definition default_seed_native : Z := %d." % default_seed_n)
    L.append("Definition shard_seed : Z := %d.   (* HashCallback default, fields.hh *)" % shard_seed)
    L.append("Definition dedupe_line_seed : Z := %d." % dedupe_line_seed)
    L.append("Definition dedupe_field_seed : Z := %d." % dedupe_field_seed)
    L.append("Definition cache_seed : Z := %d." % cache_seed)
    L.append("Definition subtract_insert_seed : Z := %d." % sub_insert_seed)
    L.append("Definition subtract_lookup_seed : Z := %d." % sub_lookup_seed)
    L.append("Definition commoncrawl_dedupe_seed : Z := %d." % ccd_seed)
    L.append("Definition mmhsum_buffer : Z := %d." % mmh_buf)
    L.append("Definition mmhsum_seed : Z := %d." % mmh_seed)
    L.append("Definition order_independent_init : Z := %d." % oih_init)
    return "Src_murmur.v", "\n".join(L) + "\n"
