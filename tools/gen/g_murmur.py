"""util/murmur_hash.cc (+ the call sites that fix seeds) -> Gen/Src_murmur.v :
multiplier m, shift r, the tail switch as a table (case label, byte index, shift),
which case carries `h *= m`, the native dispatch, and the seed every tool uses."""
import os
import re
from .cparse import strip_comments
from .fallback import with_fallback

NUM = r"((?:0[xX][0-9a-fA-F]+|\d+)(?:ULL|ull|UL|ul|U|u|LL|ll|L|l)?)"


def cint(t):
    t = re.sub(r"[uUlL]+$", "", t.strip())
    return int(t, 16) if t.lower().startswith("0x") else (int(t, 8) if len(t) > 1 and t.startswith("0") else int(t))


def ws(rx):
    return rx.replace(" ", r"\s*")


def need(rx, s, what, where="util/murmur_hash.cc"):
    m = re.search(rx, s, flags=re.S)
    if not m:
        raise ValueError("pattern for %s not found in %s" % (what, where))
    return m


def read(repo, *p):
    return strip_comments(open(os.path.join(repo, *p)).read())


# ---------------------------------------------------------------------------------------------
# Key shapes: how each tool forms its key, extracted from that tool's own source as DATA
#   kexpr ::= KConst n | KPrev | KHash fn data_role len_role seed_kexpr
# (which string is hashed, WHICH string's size() is passed as the length, which seed / nesting).
_CALL = re.compile(r"\s*util\s*::\s*(MurmurHash64A|MurmurHashNative)\s*\(")


def _split_args(text):
    """top-level comma split of the argument text of one call"""
    out, depth, cur = [], 0, ""
    for ch in text:
        if ch in "([":
            depth += 1
        elif ch in ")]":
            depth -= 1
        if ch == "," and depth == 0:
            out.append(cur.strip())
            cur = ""
        else:
            cur += ch
    out.append(cur.strip())
    return out


def _matching(text, i):
    depth = 0
    for j in range(i, len(text)):
        if text[j] == "(":
            depth += 1
        elif text[j] == ")":
            depth -= 1
            if depth == 0:
                return j
    raise ValueError("unbalanced parentheses in a hash call")


def parse_kexpr(expr, roles, scope, default_seed, prev_names=(), what=""):
    """expr: C++ text of a key expression; roles: C++ identifier -> role constructor;
    scope: the surrounding function text (to resolve a variable that holds an inner hash);
    prev_names: identifiers that denote the running value of a fold (KPrev)."""
    expr = expr.strip()
    m = _CALL.match(expr)
    if m:
        close = _matching(expr, m.end() - 1)
        if expr[close + 1:].strip() != "":
            raise ValueError("unexpected text after the hash call in %s: %r" % (what, expr[close + 1:][:40]))
        args = _split_args(expr[m.end():close])
        if len(args) not in (2, 3):
            raise ValueError("hash call with %d arguments in %s" % (len(args), what))
        d = re.fullmatch(r"(\w+)\s*\.\s*data\s*\(\s*\)", args[0])
        l = re.fullmatch(r"(\w+)\s*\.\s*size\s*\(\s*\)", args[1])
        if not d or not l or d.group(1) not in roles or l.group(1) not in roles:
            raise ValueError("cannot tell which string / length is hashed in %s: %r, %r" % (what, args[0], args[1]))
        seed = parse_kexpr(args[2], roles, scope, default_seed, prev_names, what) if len(args) == 3 else "(KConst %d)" % default_seed
        return "(KHash %s %s %s %s)" % ("F64A" if m.group(1) == "MurmurHash64A" else "FNative", roles[d.group(1)], roles[l.group(1)], seed)
    if re.fullmatch(NUM, expr):
        return "(KConst %d)" % cint(expr)
    if re.fullmatch(r"\w+", expr):
        if expr in prev_names:
            return "KPrev"
        # a variable holding an inner hash: its (single) initialisation / assignment in the scope
        defs = re.findall(r"(?:uint64_t|size_t|unsigned\s+long)?\s*\b" + re.escape(expr) + r"\s*=\s*([^;]*Murmur[^;]*);", scope)
        defs = sorted(set(" ".join(x.split()) for x in defs))
        if len(defs) == 1:
            return parse_kexpr(defs[0], roles, scope, default_seed, prev_names, what)
        raise ValueError("cannot resolve the seed variable %r in %s (%d definitions)" % (expr, what, len(defs)))
    raise ValueError("unsupported key expression in %s: %r" % (what, expr[:60]))


def key_statement(src, lhs_rx, what, where):
    """the right-hand side of `<lhs> = <expr>;` for the first statement whose rhs contains a Murmur call"""
    m = re.search(lhs_rx + r"\s*=\s*([^;]*Murmur[^;]*);", src, flags=re.S)
    if not m:
        raise ValueError("key statement for %s not found in %s" % (what, where))
    return m.group(1)


def strip_arm(src):
    """keep the #else branch of `#if defined(__arm) || defined(__arm__)` blocks (x86-64 build)"""
    out = []
    mode = None   # None | "arm" | "else"
    for line in src.split("\n"):
        s = line.strip()
        if mode is None and re.match(r"#\s*if\s+defined\(__arm\)\s*\|\|\s*defined\(__arm__\)", s):
            mode = "arm"
            continue
        if mode == "arm" and re.match(r"#\s*else", s):
            mode = "else"
            continue
        if mode in ("arm", "else") and re.match(r"#\s*endif", s):
            mode = None
            continue
        if mode == "arm":
            continue
        out.append(line)
    return "\n".join(out)


REGION_FILES = [("util", "murmur_hash.cc"), ("util", "murmur_hash.hh"), ("preprocess", "fields.hh"), ("preprocess", "shard_main.cc"),
                ("preprocess", "dedupe_main.cc"), ("preprocess", "cache_main.cc"), ("preprocess", "subtract_lines_main.cc"),
                ("preprocess", "commoncrawl_dedupe_main.cc"), ("preprocess", "train_case_main.cc"), ("preprocess", "apply_case_main.cc"),
                ("preprocess", "mmhsum_main.cc"), ("preprocess", "order_independent_hash_main.cc")]


def generate(repo):
    regions = []
    for f in REGION_FILES:
        t = read(repo, *f)
        if f[1] == "murmur_hash.cc":
            t = strip_arm(t)
            t = t[t.index("uint64_t MurmurHash64A"):]
        elif f[0] == "preprocess":
            # only the lines that hash
            t = "\n".join(l for l in t.split("\n") if "Murmur" in l or "HashCallback" in l or "hash" in l.lower())
        regions.append(t)
    return "Src_murmur.v", with_fallback("Src_murmur.v", regions, lambda: strict(repo)[1])


def strict(repo):
    src = strip_arm(read(repo, "util", "murmur_hash.cc"))
    i = src.index("uint64_t MurmurHash64A")
    j = src.index("uint64_t MurmurHash64B")
    a = src[i:j]
    need(ws(r"uint64_t MurmurHash64A \( const void \* key , std::size_t len , uint64_t seed \)"), a, "MurmurHash64A signature")
    m = need(ws(r"const uint64_t m = " + NUM + " ;"), a, "m")
    mm = cint(m.group(1))
    m = need(ws(r"const int r = " + NUM + " ;"), a, "r")
    rr = cint(m.group(1))
    need(ws(r"uint64_t h = seed \^ \( len \* m \) ;"), a, "h = seed ^ (len * m)")
    need(ws(r"const size_t ksize = sizeof \( uint64_t \) ;"), a, "ksize = sizeof(uint64_t)")
    m = need(ws(r"const unsigned char \* data = \( const unsigned char \* \) key ; "
                r"const unsigned char \* end = data \+ \( std::size_t \) \( len / " + NUM + r" \) \* ksize ;"), a, "block pointer setup")
    block = cint(m.group(1))
    need(ws(r"while \( data != end \) \{ uint64_t k ; memcpy \( &k , data , ksize \) ; data \+= ksize ; "
            r"k \*= m ; k \^= k >> r ; k \*= m ; h \^= k ; h \*= m ; \}"), a, "block loop")
    need(ws(r"const unsigned char \* data2 = \( const unsigned char \* \) data ;"), a, "data2")
    sw = need(ws(r"switch \( len & " + NUM + r" \) \{(.*?)\} ;? h \^= h >> r ; h \*= m ; h \^= h >> r ; return h ; \}"), a, "tail switch + finalisation")
    tail_mask = cint(sw.group(1))
    body = sw.group(2)
    cases = []
    mul_case = None
    pos = 0
    rx = re.compile(ws(r"case " + NUM + r" : h \^= uint64_t \( data2 \[ " + NUM + r" \] \)( << " + NUM + r")? ;( h \*= m ;)?"))
    while True:
        rest = body[pos:]
        if rest.strip() == "":
            break
        mt = rx.match(rest.lstrip())
        if not mt:
            raise ValueError("unexpected statement in the tail switch of MurmurHash64A: %r" % rest.strip()[:60])
        pos += (len(rest) - len(rest.lstrip())) + mt.end()
        label, idx = cint(mt.group(1)), cint(mt.group(2))
        shift = cint(mt.group(4)) if mt.group(3) else 0
        cases.append((label, idx, shift))
        if mt.group(5):
            if mul_case is not None:
                raise ValueError("two `h *= m` in the tail switch")
            mul_case = label
    if mul_case is None:
        raise ValueError("no `h *= m` in the tail switch")
    labels = [c[0] for c in cases]
    if labels != sorted(labels, reverse=True) or len(set(labels)) != len(labels):
        raise ValueError("tail switch cases are not in strictly descending fall-through order: %r" % labels)
    if labels != list(range(tail_mask, 0, -1)):
        raise ValueError("tail switch cases are not exactly %d..1: %r (a missing label would skip the whole switch)" % (tail_mask, labels))
    if mul_case != labels[-1]:
        raise ValueError("`h *= m` is not in the last case of the tail switch")

    # ---- MurmurHash64B (the version MurmurHashNative picks on 4-byte pointers)
    k64b = src.index("uint64_t MurmurHash64B")
    b = src[k64b:src.index("namespace {", k64b)]
    need(ws(r"uint64_t MurmurHash64B \( const void \* key , std::size_t len , uint64_t seed \)"), b, "MurmurHash64B signature")
    mb = need(ws(r"const unsigned int m = " + NUM + r" ; const int r = " + NUM + r" ; unsigned int h1 = seed \^ len ; unsigned int h2 = " + NUM + " ;"), b, "64B constants and initial state")
    need(ws(r"size_t ksize = sizeof \( unsigned int \) ; const unsigned char \* data = \( const unsigned char \* \) key ; unsigned int k1 , k2 ;"), b, "64B pointer setup")
    lb = need(ws(r"while \( len >= " + NUM + r" \) \{ memcpy \( &k1 , data , ksize \) ; data \+= ksize ; memcpy \( &k2 , data , ksize \) ; data \+= ksize ; "
                 r"k1 \*= m ; k1 \^= k1 >> r ; k1 \*= m ; h1 \*= m ; h1 \^= k1 ; len -= " + NUM + r" ; "
                 r"k2 \*= m ; k2 \^= k2 >> r ; k2 \*= m ; h2 \*= m ; h2 \^= k2 ; len -= " + NUM + r" ; \}"), b, "64B block loop")
    ib = need(ws(r"if \( len >= " + NUM + r" \) \{ memcpy \( &k1 , data , ksize \) ; data \+= ksize ; k1 \*= m ; k1 \^= k1 >> r ; k1 \*= m ; h1 \*= m ; h1 \^= k1 ; len -= " + NUM + r" ; \}"), b, "64B half block")
    sb = need(ws(r"switch \( len \) \{ case 3 : h2 \^= \( \( unsigned char \* \) data \) \[ 2 \] << " + NUM + r" ; "
                 r"case 2 : h2 \^= \( \( unsigned char \* \) data \) \[ 1 \] << " + NUM + r" ; "
                 r"case 1 : h2 \^= \( \( unsigned char \* \) data \) \[ 0 \] ; h2 \*= m ; \} ;"), b, "64B tail switch")
    fb = need(ws(r"h1 \^= h2 >> " + NUM + r" ; h1 \*= m ; h2 \^= h1 >> " + NUM + r" ; h2 \*= m ; h1 \^= h2 >> " + NUM + r" ; h1 \*= m ; h2 \^= h1 >> " + NUM + r" ; h2 \*= m ; "
                 r"uint64_t h = h1 ; h = \( h << " + NUM + r" \) \| h2 ; return h ; \}"), b, "64B finalisation")
    b_consts = [("m64b_m", cint(mb.group(1))), ("m64b_r", cint(mb.group(2))), ("m64b_h2_init", cint(mb.group(3))),
                ("m64b_loop_min", cint(lb.group(1))), ("m64b_loop_dec1", cint(lb.group(2))), ("m64b_loop_dec2", cint(lb.group(3))),
                ("m64b_half_min", cint(ib.group(1))), ("m64b_half_dec", cint(ib.group(2))),
                ("m64b_tail_sh2", cint(sb.group(1))), ("m64b_tail_sh1", cint(sb.group(2))),
                ("m64b_fin1", cint(fb.group(1))), ("m64b_fin2", cint(fb.group(2))), ("m64b_fin3", cint(fb.group(3))), ("m64b_fin4", cint(fb.group(4))),
                ("m64b_join_shift", cint(fb.group(5)))]

    # native dispatch
    need(ws(r"template <unsigned L> inline uint64_t MurmurHashNativeBackend \( const void \* key , std::size_t len , uint64_t seed \) \{ "
            r"return MurmurHash64A \( key , len , seed \) ; \}"), src, "MurmurHashNativeBackend<L> = 64A")
    m4 = need(ws(r"template <> inline uint64_t MurmurHashNativeBackend<" + NUM + r"> \( const void \* key , std::size_t len , uint64_t seed \) \{ "
                 r"return MurmurHash64B \( key , len , seed \) ; \}"), src, "MurmurHashNativeBackend<4> = 64B")
    need(ws(r"uint64_t MurmurHashNative \( const void \* key , std::size_t len , uint64_t seed \) \{ "
            r"return MurmurHashNativeBackend<sizeof \( void \* \)> \( key , len , seed \) ; \}"), src, "MurmurHashNative dispatch")
    hh = read(repo, "util", "murmur_hash.hh")
    d = need(ws(r"uint64_t MurmurHash64A \( const void \* key , std::size_t len , uint64_t seed = " + NUM + r" \) ;"), hh, "default seed of MurmurHash64A", "util/murmur_hash.hh")
    default_seed_a = cint(d.group(1))
    d = need(ws(r"uint64_t MurmurHashNative \( const void \* key , std::size_t len , uint64_t seed = " + NUM + r" \) ;"), hh, "default seed of MurmurHashNative", "util/murmur_hash.hh")
    default_seed_n = cint(d.group(1))

    # ---- call sites
    f = read(repo, "preprocess", "fields.hh")
    m = need(ws(r"explicit HashCallback \( uint64_t seed = " + NUM + r" \) : hash_ \( seed \)"), f, "HashCallback default seed", "preprocess/fields.hh")
    shard_seed = cint(m.group(1))
    sh = read(repo, "preprocess", "shard_main.cc")
    need(ws(r"out \[ cb\.Hash \( \) % shard_count \] << line << '\\n' ;"), sh, "shard: out[cb.Hash() % shard_count]", "preprocess/shard_main.cc")
    need(ws(r"preprocess::RangeFields \( line , options\.key_fields , options\.delim , cb \) ;"), sh, "shard: RangeFields into cb", "preprocess/shard_main.cc")
    need(ws(r"uint64_t shard_count = options\.outputs\.size \( \) ;"), sh, "shard_count", "preprocess/shard_main.cc")
    dd = read(repo, "preprocess", "dedupe_main.cc")
    need(ws(r"RangeFields \( line , key_fields_ , delim_ , hasher \) ;"), dd, "dedupe: RangeFields into hasher", "preprocess/dedupe_main.cc")
    ca = read(repo, "preprocess", "cache_main.cc")
    m = need(ws(r"HashWithSeed \( \) \{ hash = " + NUM + r" ; \}"), ca, "cache HashWithSeed initial value", "preprocess/cache_main.cc")
    cache_seed = cint(m.group(1))
    sl = read(repo, "preprocess", "subtract_lines_main.cc")
    cc = read(repo, "preprocess", "commoncrawl_dedupe_main.cc")
    tr = read(repo, "preprocess", "train_case_main.cc")
    tr_fn = tr[tr.index("void Add"):tr.index("void Dump")]
    train_shape = parse_kexpr(key_statement(tr_fn, r"uint64_t\s+key", "train_case key", "train_case_main.cc"),
                              {"lowered_": "RLowered", "source": "RSource", "target": "RTarget"}, tr_fn, default_seed_a, what="train_case_main.cc Recorder::Add")
    ap = read(repo, "preprocess", "apply_case_main.cc")
    ap_fn = ap[ap.index("int main"):]
    apply_shape = parse_kexpr(key_statement(ap_fn, r"uint64_t\s+key", "apply_case key", "apply_case_main.cc"),
                              {"lowered": "RLowered", "source": "RSource"}, ap_fn, default_seed_a, what="apply_case_main.cc main")
    # the fold step of HashCallback (fields.hh) and of cache's HashWithSeed, each from its own source
    hc = f[f.index("class HashCallback"):]
    hc_step = parse_kexpr(key_statement(hc, r"hash_", "HashCallback::operator()", "fields.hh"),
                          {"key": "RPiece"}, hc, default_seed_n, prev_names=("hash_",), what="fields.hh HashCallback::operator()")
    hw = ca[ca.index("struct HashWithSeed"):ca.index("void Input")]
    cache_step = parse_kexpr(key_statement(hw, r"size_t\s+result", "HashWithSeed::operator()", "cache_main.cc"),
                             {"sp": "RPiece"}, hw, default_seed_n, prev_names=("hash",), what="cache_main.cc HashWithSeed::operator()")
    need(ws(r"size_t result = [^;]* ; hash = result ; \}"), hw, "HashWithSeed stores the result as the next seed", "preprocess/cache_main.cc")
    dd_fn = dd[dd.index("class Dedupe"):dd.index("class FieldDedupe")]
    m = re.search(r"\(\s*\*this\s*\)\s*\(\s*(util::Murmur[^;]*)\)\s*;", dd_fn, flags=re.S)
    if not m:
        raise ValueError("dedupe whole-line key expression not found in dedupe_main.cc")
    dedupe_line_shape = parse_kexpr(m.group(1), {"line": "RLine"}, dd_fn, default_seed_n, what="dedupe_main.cc Dedupe::operator()")
    sub_shapes = [parse_kexpr(x, {"line": "RLine"}, sl, default_seed_n, what="subtract_lines_main.cc")
                  for x in re.findall(r"=\s*(util::MurmurHashNative[^;]*);", sl)]
    if len(sub_shapes) != 2:
        raise ValueError("expected two key statements in subtract_lines_main.cc, found %d" % len(sub_shapes))
    ccd_shape = parse_kexpr(key_statement(cc, r"entry\.key", "commoncrawl_dedupe key", "commoncrawl_dedupe_main.cc"),
                            {"l": "RLine"}, cc, default_seed_n, what="commoncrawl_dedupe_main.cc IsNewLine")
    # shard: which seed the callback is constructed with (none = the default of fields.hh)
    msh = need(ws(r"preprocess::HashCallback cb (?:\( " + NUM + r" \))? ;"), sh, "shard's HashCallback construction", "preprocess/shard_main.cc")
    shard_ctor_seed = "None" if msh.group(1) is None else "(Some %d)" % cint(msh.group(1))
    mdf = need(ws(r"HashCallback hasher (?:\( " + NUM + r" \))? ;"), dd, "dedupe's HashCallback construction", "preprocess/dedupe_main.cc")
    dedupe_ctor_seed = "None" if mdf.group(1) is None else "(Some %d)" % cint(mdf.group(1))
    def const_seed(shape, what):
        mm_ = re.search(r"\(KConst (\d+)\)\)$", shape)
        if not mm_:
            raise ValueError("the seed of %s is not a constant" % what)
        return int(mm_.group(1))
    dedupe_line_seed = const_seed(dedupe_line_shape, "dedupe's whole-line key")
    dedupe_field_seed = shard_seed if mdf.group(1) is None else cint(mdf.group(1))
    sub_insert_seed, sub_lookup_seed = const_seed(sub_shapes[0], "subtract_lines insert"), const_seed(sub_shapes[1], "subtract_lines lookup")
    ccd_seed = const_seed(ccd_shape, "commoncrawl_dedupe")
    mh = read(repo, "preprocess", "mmhsum_main.cc")
    m = need(ws(r"constexpr size_t bufferSize = " + NUM + r" \* " + NUM + r" ;"), mh, "mmhsum buffer size", "preprocess/mmhsum_main.cc")
    mmh_buf = cint(m.group(1)) * cint(m.group(2))
    m = need(ws(r"uint64_t chained_hash = " + NUM + r" ;"), mh, "mmhsum initial value", "preprocess/mmhsum_main.cc")
    mmh_seed = cint(m.group(1))
    need(ws(r"chained_hash = util::MurmurHashNative \( &buffer \[ 0 \] , count , chained_hash \) ;"), mh, "mmhsum chaining", "preprocess/mmhsum_main.cc")
    oi = read(repo, "preprocess", "order_independent_hash_main.cc")
    m = need(ws(r"uint64_t sum = " + NUM + r" ; for \( util::StringPiece line : util::FilePiece \( 0 \) \) \{ "
                r"sum \+= util::MurmurHash64A \( line\.data \( \) , line\.size \( \) \) ; \}"), oi, "order_independent_hash loop", "preprocess/order_independent_hash_main.cc")
    oih_init = cint(m.group(1))

    L = ["(* GENERATED by tools/gen/g_murmur.py from util/murmur_hash.cc/.hh and the hashing call sites -- do not edit *)",
         "From Coq Require Import List ZArith.", "Import ListNotations.", "Local Open Scope Z_scope.", ""]
    L.append("(* how a key is formed: which hash function, which string's data(), WHICH string's size() as the length, which seed *)")
    L.append("Inductive kfn : Type := F64A | FNative.")
    L.append("Inductive krole : Type := RLowered | RSource | RTarget | RPiece | RLine.")
    L.append("Inductive kexpr : Type := KConst (z : Z) | KPrev | KHash (f : kfn) (data len : krole) (seed : kexpr).")
    L.append("(* each extracted from that tool's own source text *)")
    L.append("Definition train_case_key_shape : kexpr := %s." % train_shape)
    L.append("Definition apply_case_key_shape : kexpr := %s." % apply_shape)
    L.append("Definition hashcallback_step_shape : kexpr := %s.   (* fields.hh HashCallback::operator() *)" % hc_step)
    L.append("Definition cache_step_shape : kexpr := %s.   (* cache_main.cc HashWithSeed::operator() *)" % cache_step)
    L.append("Definition dedupe_line_key_shape : kexpr := %s." % dedupe_line_shape)
    L.append("Definition subtract_insert_key_shape : kexpr := %s." % sub_shapes[0])
    L.append("Definition subtract_lookup_key_shape : kexpr := %s." % sub_shapes[1])
    L.append("Definition commoncrawl_dedupe_key_shape : kexpr := %s." % ccd_shape)
    L.append("Definition shard_callback_ctor_seed : option Z := %s.   (* None = HashCallback's default *)" % shard_ctor_seed)
    L.append("Definition dedupe_callback_ctor_seed : option Z := %s." % dedupe_ctor_seed)
    L.append("Definition murmur_m : Z := %d.   (* 0x%x *)" % (mm, mm))
    L.append("Definition murmur_r : Z := %d." % rr)
    L.append("Definition murmur_block : Z := %d.   (* len / %d blocks of uint64_t *)" % (block, block))
    L.append("Definition murmur_tail_mask : Z := %d.   (* switch (len & %d) *)" % (tail_mask, tail_mask))
    L.append("(* tail switch in source order: (case label, index into data2, left shift) *)")
    L.append("Definition murmur_tail_cases : list (Z * nat * Z) :=\n  [%s]." % "; ".join("(%d, %d%%nat, %d)" % c for c in cases))
    L.append("Definition murmur_tail_mul_case : Z := %d.   (* the case that carries h *= m *)" % mul_case)
    L.append("Definition native_64b_pointer_size : Z := %d.   (* MurmurHashNative = 64A unless the pointer size is this *)" % cint(m4.group(1)))
    for n_, v_ in b_consts:
        L.append("Definition %s : Z := %d." % (n_, v_))
    L.append("Definition default_seed_64a : Z := %d." % default_seed_a)
    L.append("Definition default_seed_native : Z := %d." % default_seed_n)
    L.append("Definition shard_seed : Z := %d.   (* HashCallback default, fields.hh *)" % shard_seed)
    L.append("Definition dedupe_line_seed : Z := %d." % dedupe_line_seed)
    L.append("Definition dedupe_field_seed : Z := %d." % dedupe_field_seed)
    L.append("Definition cache_seed : Z := %d." % cache_seed)
    L.append("Definition subtract_insert_seed : Z := %d." % sub_insert_seed)
    L.append("Definition subtract_lookup_seed : Z := %d." % sub_lookup_seed)
    L.append("Definition commoncrawl_dedupe_seed : Z := %d." % ccd_seed)
    L.append("Definition mmhsum_buffer : Z := %d." % mmh_buf)
    L.append("Definition mmhsum_seed : Z := %d." % mmh_seed)
    L.append("Definition order_independent_init : Z := %d." % oih_init)
    return "Src_murmur.v", "\n".join(L) + "\n"
