"""util/utf8_icu.cc + preprocess/process_unicode_main.cc -> Gen/Src_flatten.v

The replacement rule tables (from, to) as lists of UTF-16 code units, the
right_boundary flag of every AddToFlatten call, the per-language composition
(the statements of AllFlattenData's constructor, interpreted in order), and
from the tool: which buffer the main loop prints."""
import os
import re
from .cparse import strip_comments, find_initializer


def need(rx, s, what, flags=0):
    m = re.search(rx, s, flags)
    if not m:
        raise ValueError("pattern for %s not found" % what)
    return m


def c_string_value(lit):
    """value (str) of one C string literal body in a UTF-8 source file"""
    out = []
    i = 0
    while i < len(lit):
        ch = lit[i]
        if ch != "\\":
            out.append(ch)
            i += 1
            continue
        i += 1
        ch = lit[i]
        if ch == "u":
            out.append(chr(int(lit[i + 1:i + 5], 16)))
            i += 5
        elif ch == "U":
            out.append(chr(int(lit[i + 1:i + 9], 16)))
            i += 9
        elif ch in "\"'\\":
            out.append(ch)
            i += 1
        elif ch == "n":
            out.append("\n")
            i += 1
        elif ch == "t":
            out.append("\t")
            i += 1
        else:
            raise ValueError("unsupported escape \\%s in rule table" % ch)
    return "".join(out)


def utf16(s):
    b = s.encode("utf-16-be")
    return [b[i] * 256 + b[i + 1] for i in range(0, len(b), 2)]


def strip_line_comments_outside_strings(s):
    """remove // comments but not inside string literals (the tables contain none with //, but be safe)"""
    out = []
    for line in s.split("\n"):
        res = []
        i = 0
        instr = False
        while i < len(line):
            ch = line[i]
            if instr:
                res.append(ch)
                if ch == "\\":
                    res.append(line[i + 1])
                    i += 2
                    continue
                if ch == '"':
                    instr = False
            else:
                if ch == '"':
                    instr = True
                    res.append(ch)
                elif line.startswith("//", i):
                    break
                else:
                    res.append(ch)
            i += 1
        out.append("".join(res))
    return "\n".join(out)


def braces(src, decl_regex):
    """text between the braces following decl_regex; string literals are skipped"""
    m = re.search(decl_regex, src)
    if not m:
        raise ValueError("declaration not found: " + decl_regex)
    i = src.index("{", m.end() - 1 if src[m.end() - 1] == "{" else m.end())
    depth = 0
    j = i
    instr = False
    while j < len(src):
        ch = src[j]
        if instr:
            if ch == "\\":
                j += 2
                continue
            if ch == '"':
                instr = False
        elif ch == '"':
            instr = True
        elif ch == "{":
            depth += 1
        elif ch == "}":
            depth -= 1
            if depth == 0:
                return src[i + 1:j]
        j += 1
    raise ValueError("unbalanced braces after " + decl_regex)


def coq_list(xs):
    return "[" + "; ".join(str(x) for x in xs) + "]"


def parse(repo):
    raw = open(os.path.join(repo, "util", "utf8_icu.cc"), encoding="utf-8").read()
    src = strip_line_comments_outside_strings(raw)
    tables = {}
    order = []
    for m in re.finditer(r"const\s+ReplaceRule\s+(\w+)\s*\[\s*\]\s*=\s*\{", src):
        name = m.group(1)
        body = braces(src, r"const\s+ReplaceRule\s+%s\s*\[\s*\]\s*=\s*" % name)
        rules = []
        pos = 0
        body_s = body.strip()
        rule_rx = re.compile(r'\s*\{\s*"((?:[^"\\]|\\.)*)"\s*,\s*"((?:[^"\\]|\\.)*)"\s*\}\s*,?')
        while pos < len(body_s):
            mm = rule_rx.match(body_s, pos)
            if not mm:
                if body_s[pos:].strip() == "":
                    break
                raise ValueError("table %s: cannot parse rule near %r" % (name, body_s[pos:pos + 30]))
            rules.append((c_string_value(mm.group(1)), c_string_value(mm.group(2))))
            pos = mm.end()
        if not rules:
            raise ValueError("table %s is empty" % name)
        for f, t in rules:
            if f == "":
                raise ValueError("table %s has an empty 'from'" % name)
        tables[name] = rules
        order.append(name)
    if not tables:
        raise ValueError("no ReplaceRule tables found in utf8_icu.cc")

    # AllFlattenData(): interpret the constructor
    ctor = need(r"AllFlattenData\s*\(\s*\)\s*\{", src, "AllFlattenData constructor")
    body = braces(src, r"AllFlattenData\s*\(\s*\)\s*")
    langvar = {}
    ops = {}
    for stmt in [s.strip() for s in body.split(";")]:
        if not stmt:
            continue
        m = re.match(r"^FlattenData\s*&\s*(\w+)\s*=\s*lang_map_\s*\[\s*\"(\w+)\"\s*\]$", stmt)
        if m:
            langvar[m.group(1)] = m.group(2)
            ops[m.group(1)] = []
            continue
        m = re.match(r"^AddToFlatten\s*\(\s*(\w+)\s*,\s*(\w+)\s*(?:,\s*(true|false)\s*)?\)$", stmt)
        if m:
            if m.group(1) not in tables or m.group(2) not in ops:
                raise ValueError("AllFlattenData: unknown table/language in %r" % stmt)
            ops[m.group(2)].append((m.group(1), m.group(3) or "false"))
            continue
        m = re.match(r"^(\w+)\s*=\s*(\w+)$", stmt)
        if m and m.group(1) in ops and m.group(2) in ops:
            ops[m.group(1)] = list(ops[m.group(2)])
            continue
        raise ValueError("AllFlattenData: statement not understood: %r" % stmt)
    # default of the right_boundary parameter
    dflt = need(r"void\s+AddToFlatten\s*\([^{;]*?bool\s+right_boundary\s*=\s*(true|false)\s*\)\s*\{", src, "AddToFlatten default right_boundary").group(1)
    if dflt != "false":
        raise ValueError("AddToFlatten: default right_boundary changed to %s" % dflt)

    errors = []
    # Flatten::Apply: how far the index advances after copying an untouched code point
    copy_adv = None
    try:
        apply_src = src[src.index("void Flatten::Apply(const UnicodeString &"):]
        apply_src = apply_src[:apply_src.index("void Flatten::Apply(const StringPiece")]
        m = need(r"\}\s*else\s*\{\s*(\w+)\.append\s*\(\s*(\w+)\s*\)\s*;\s*(\+\+\s*(\w+)|(\w+)\s*\+=\s*U16_LENGTH\s*\(\s*(\w+)\s*\))\s*;\s*\}", apply_src, "Flatten::Apply copy branch")
        if m.group(5) and m.group(6) != m.group(2):
            raise ValueError("Flatten::Apply copy branch: U16_LENGTH of something else than the copied character")
        copy_adv = "true" if m.group(5) else "false"
    except ValueError as e:
        errors.append(str(e))

    pr = None
    dlang = None
    try:
        main = strip_comments(open(os.path.join(repo, "preprocess", "process_unicode_main.cc")).read())
        arr = need(r"UnicodeString\s+(\w+)\s*\[\s*2\s*\]\s*;", main, "the two buffers").group(1)
        pm = need(r"UnicodeString\s*\*\s*(\w+)\s*=\s*&\s*%s\s*\[\s*0\s*\]\s*,\s*\*\s*(\w+)\s*=\s*&\s*%s\s*\[\s*1\s*\]\s*;" % (arr, arr), main, "cur/tmp pointers")
        printed = need(r"std::cout\s*<<\s*\*\s*(\w+)\s*<<\s*'\\n'\s*;", main, "the print statement of process_unicode").group(1)
        if printed == arr:
            pr = "str"
        elif printed == pm.group(1):
            pr = "cur"
        else:
            raise ValueError("process_unicode prints *%s: neither the buffer array nor the current pointer" % printed)
        dlang = need(r"\(\s*\"language,l\"\s*,\s*po::value\s*\(\s*&\s*\w+\.language\s*\)\s*->\s*default_value\s*\(\s*\"(\w+)\"\s*\)", main, "default language").group(1)
    except ValueError as e:
        errors.append(str(e))

    # preprocess/text.sh: the two process_unicode stages of the text pipeline
    stages = []
    try:
        sh = open(os.path.join(repo, "preprocess", "text.sh"), encoding="utf-8").read()
        sh = "\n".join(l for l in sh.split("\n") if not l.lstrip().startswith("#"))
        for m in re.finditer(r"process_unicode((?:\s+(?:--\w+|-l)(?:\s+\$\w+)?)*)", sh):
            a = m.group(1).split()
            stages.append(("--lower" in a, "--flatten" in a, "--normalize" in a, ("--language" in a) or ("-l" in a)))
            for x in a:
                if x.startswith("-") and x not in ("--lower", "--flatten", "--normalize", "--language", "-l"):
                    raise ValueError("text.sh: unknown process_unicode option %s" % x)
        if len(stages) != 2:
            raise ValueError("text.sh: expected two process_unicode invocations, found %d" % len(stages))
    except (OSError, ValueError) as e:
        errors.append(str(e))
        stages = None

    return {"text_sh": stages, "tables": tables, "order": order, "langvar": langvar, "ops": ops, "copy_adv": copy_adv, "prints": pr,
            "default_language": dlang or "en", "errors": errors}


def generate(repo):
    P = parse(repo)
    if P["errors"]:
        raise ValueError("; ".join(P["errors"]))
    tables, order, langvar, ops, copy_adv, pr, dlang = (P["tables"], P["order"], P["langvar"], P["ops"], P["copy_adv"], P["prints"], P["default_language"])
    L = ["(* GENERATED by tools/gen/g_flatten.py from util/utf8_icu.cc and preprocess/process_unicode_main.cc -- do not edit *)",
         "From Coq Require Import List ZArith.", "Import ListNotations.", "Local Open Scope Z_scope.", "",
         "(* rule tables: (from, to) as UTF-16 code units *)"]
    for name in order:
        L.append("Definition %s : list (list Z * list Z) :=\n  [%s]." % (
            name, ";\n   ".join("(%s, %s)" % (coq_list(utf16(f)), coq_list(utf16(t))) for f, t in tables[name])))
    L.append("")
    L.append("(* per language: the AddToFlatten calls in order, with their right_boundary argument *)")
    for var, code in langvar.items():
        L.append("Definition flatten_ops_%s : list (list (list Z * list Z) * bool) :=\n  [%s]." % (
            code, "; ".join("(%s, %s)" % (t, rb) for t, rb in ops[var])))
    L.append("Definition flatten_languages : list (list Z * list (list (list Z * list Z) * bool)) :=\n  [%s]." % (
        ";\n   ".join("(%s, flatten_ops_%s)" % (coq_list([ord(ch) for ch in code]), code) for code in langvar.values())))
    L.append("")
    L.append("(* Flatten::Apply advances by U16_LENGTH(character) after copying an untouched code point (false: by 1) *)")
    L.append("Definition flatten_copy_advances_by_length : bool := %s." % copy_adv)
    L.append("(* process_unicode prints *cur (false: *str, i.e. str[0]) *)")
    L.append("Definition pu_prints_cur : bool := %s." % ("true" if pr == "cur" else "false"))
    b = lambda x: "true" if x else "false"
    L.append("(* preprocess/text.sh: (lower, flatten, normalize, language given) of its two process_unicode stages *)")
    for i, st in enumerate(P["text_sh"]):
        L.append("Definition text_sh_stage%d : bool * bool * bool * bool := (%s, %s, %s, %s)." % (i + 1, b(st[0]), b(st[1]), b(st[2]), b(st[3])))
    L.append("Definition pu_default_language : list Z := %s." % coq_list([ord(ch) for ch in dlang]))
    return "Src_flatten.v", "\n".join(L) + "\n"
