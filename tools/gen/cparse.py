"""Small helpers to read C/C++ source text (tokenising; never eval)."""
import re


def strip_comments(s):
    s = re.sub(r"/\*.*?\*/", lambda m: " " * 1 + "\n" * m.group(0).count("\n"), s, flags=re.S)
    s = re.sub(r"//[^\n]*", "", s)
    return s


def find_initializer(src, decl_regex):
    """Return the text between the braces of `decl_regex ... = { ... };`"""
    m = re.search(decl_regex, src)
    if not m:
        raise ValueError("declaration not found: " + decl_regex)
    i = src.index("{", m.end() - 1 if src[m.end() - 1] == "{" else m.end())
    depth = 0
    j = i
    while j < len(src):
        if src[j] == "{":
            depth += 1
        elif src[j] == "}":
            depth -= 1
            if depth == 0:
                return src[i + 1:j]
        j += 1
    raise ValueError("unbalanced braces after " + decl_regex)


_TOK = re.compile(r"\s*(0[xX][0-9a-fA-F]+|\d+|[-+*/(),])")


def tokenize_int_exprs(text):
    toks = []
    pos = 0
    text = text.strip()
    while pos < len(text):
        m = _TOK.match(text, pos)
        if not m:
            if text[pos:].strip() == "":
                break
            raise ValueError("unexpected token in integer initializer at: %r" % text[pos:pos + 20])
        toks.append(m.group(1))
        pos = m.end()
    return toks


def eval_int_list(text):
    """Parse a brace initializer of integer constant expressions (+ - * unary -,
    parentheses) separated by commas, the way a C compiler does: `-1 -1` with a
    missing comma is ONE expression (-2).  Trailing comma allowed."""
    toks = tokenize_int_exprs(text)
    pos = [0]

    def peek():
        return toks[pos[0]] if pos[0] < len(toks) else None

    def take():
        t = toks[pos[0]]
        pos[0] += 1
        return t

    def atom():
        t = take()
        if t == "(":
            v = expr()
            if take() != ")":
                raise ValueError("expected )")
            return v
        if t == "-":
            return -atom()
        if t == "+":
            return atom()
        if re.match(r"0[xX]", t):
            return int(t, 16)
        if re.match(r"0\d+$", t):
            return int(t, 8)
        if t.isdigit():
            return int(t)
        raise ValueError("unexpected token %r" % t)

    def term():
        v = atom()
        while peek() in ("*", "/"):
            op = take()
            w = atom()
            v = v * w if op == "*" else int(v / w)
        return v

    def expr():
        v = term()
        while peek() in ("+", "-"):
            op = take()
            w = term()
            v = v + w if op == "+" else v - w
        return v

    out = []
    while peek() is not None:
        out.append(expr())
        if peek() == ",":
            take()
        elif peek() is not None:
            raise ValueError("expected , between initializers near token %d" % pos[0])
    return out


def c_string_literal(src, decl_regex):
    """Value (bytes) of the (possibly concatenated) string literal following decl_regex."""
    m = re.search(decl_regex, src)
    if not m:
        raise ValueError("declaration not found: " + decl_regex)
    pos = m.end()
    out = bytearray()
    found = False
    while True:
        mm = re.match(r'\s*"((?:[^"\\]|\\.)*)"', src[pos:])
        if not mm:
            break
        found = True
        out += unescape(mm.group(1))
        pos += mm.end()
    if not found:
        raise ValueError("no string literal after " + decl_regex)
    return bytes(out)


def unescape(s):
    out = bytearray()
    i = 0
    simple = {"n": 10, "t": 9, "r": 13, "0": 0, "\\": 92, '"': 34, "'": 39, "a": 7, "b": 8, "f": 12, "v": 11}
    while i < len(s):
        c = s[i]
        if c != "\\":
            out += c.encode("utf-8")
            i += 1
            continue
        i += 1
        c = s[i]
        if c == "x":
            j = i + 1
            while j < len(s) and s[j] in "0123456789abcdefABCDEF":
                j += 1
            out.append(int(s[i + 1:j], 16) & 0xFF)
            i = j
        elif c in "01234567":
            j = i
            while j < len(s) and j < i + 3 and s[j] in "01234567":
                j += 1
            out.append(int(s[i:j], 8) & 0xFF)
            i = j
        elif c in simple:
            out.append(simple[c])
            i += 1
        else:
            raise ValueError("unknown escape \\" + c)
    return bytes(out)


def coq_nlist(xs, per_line=16):
    lines = []
    for i in range(0, len(xs), per_line):
        lines.append("; ".join(str(x) for x in xs[i:i + per_line]))
    return "[" + ";\n   ".join(lines) + "]"
