"""preprocess/fields.hh / fields.cc (+ option defaults of dedupe, shard, cache) -> Gen/Src_fields.v.
Constants, and a strict check of the *shape* of ConsumeInt / ParseFields / RangeFields /
IndividualFields (the hand-written model in Fields/FieldsDefs.v mirrors exactly this shape;
if a loop is rewritten the translator raises = broken tie)."""
import os
import re
from .cparse import strip_comments, unescape
from .fallback import with_fallback


def ws(rx):
    return rx.replace(" ", r"\s*")


def need(rx, s, what, where):
    m = re.search(rx, s, flags=re.S)
    if not m:
        raise ValueError("pattern for %s not found in %s" % (what, where))
    return m


def read(repo, *p):
    return strip_comments(open(os.path.join(repo, *p)).read())


def coq_bytes(b):
    return "[" + "; ".join(str(x) for x in b) + "]"


def generate(repo):
    regions = [read(repo, "preprocess", "fields.hh"), read(repo, "preprocess", "fields.cc")]
    for f in ("dedupe_main.cc", "shard_main.cc", "cache_main.cc"):
        regions.append("\n".join(l for l in read(repo, "preprocess", f).split("\n") if "default_value" in l or "kInfiniteEnd" in l))
    return "Src_fields.v", with_fallback("Src_fields.v", regions, lambda: strict(repo)[1])


def strict(repo):
    hh = read(repo, "preprocess", "fields.hh")
    cc = read(repo, "preprocess", "fields.cc")
    need(ws(r"unsigned int begin , end ;"), hh, "FieldRange members are unsigned int", "fields.hh")
    need(ws(r"static const unsigned int kInfiniteEnd = std::numeric_limits<unsigned int>::max \( \) ;"), hh, "kInfiniteEnd", "fields.hh")
    need(ws(r"bool operator< \( const FieldRange &other \) const \{ return begin < other\.begin ; \}"), hh, "FieldRange::operator<", "fields.hh")

    # ---- RangeFields
    i = hh.index("inline void RangeFields")
    j = hh.index("class HashCallback")
    rf = hh[i:j]
    need(ws(r"const char \*begin = str\.data \( \) ; const char \*const end = str\.data \( \) \+ str\.size \( \) ; unsigned int index = 0 ; "
            r"for \( const FieldRange f : indices \) \{ "
            r"for \( ; index < f\.begin ; \+\+index \) \{ const char \*found = std::find \( begin , end , delim \) ; if \( found == end \) return ; begin = found \+ 1 ; \} "
            r"if \( f\.end == FieldRange::kInfiniteEnd \) \{ callback \( util::StringPiece \( begin , end - begin \) \) ; return ; \} "
            r"const char \*old_begin = begin ; "
            r"for \( ; index < f\.end ; \+\+index \) \{ const char \*found = std::find \( begin , end , delim \) ; "
            r"if \( found == end \) \{ callback \( util::StringPiece \( old_begin , end - old_begin \) \) ; return ; \} begin = found \+ 1 ; \} "
            r"callback \( util::StringPiece \( old_begin , begin - old_begin - 1 \) \) ; \} return ; \}"), rf, "RangeFields loops", "fields.hh")
    # ---- IndividualFields
    k = hh.index("inline bool IndividualFields")
    inf = hh[k:i]
    need(ws(r"unsigned int index = 0 ; for \( const FieldRange f : indices \) \{ "
            r"for \( ; index < f\.begin ; \+\+index \) \{ const char \*found = std::find \( begin , end , delim \) ; if \( found == end \) return true ; begin = found \+ 1 ; \} "
            r"for \( ; index < f\.end ; \+\+index \) \{ const char \*found = std::find \( begin , end , delim \) ; "
            r"if \( !callback \( util::StringPiece \( begin , found - begin \) \) \) \{ return false ; \} "
            r"if \( found == end \) return true ; begin = found \+ 1 ; \} \} return true ; \}"), inf, "IndividualFields loops", "fields.hh")

    # ---- ConsumeInt / ParseFields / DefragmentFields
    need(ws(r"unsigned int ConsumeInt \( const char \*&arg \) \{ "
            r"UTIL_THROW_IF \( \*arg < '0' \|\| \*arg > '9' , util::Exception , [^;]*\) ; "
            r"char \*end ; unsigned long ret = strtoul \( arg , &end , 10 \) ; "
            r"UTIL_THROW_IF \( ret == 0 \|\| ret >= FieldRange::kInfiniteEnd , util::Exception , [^;]*\) ; "
            r"arg = end ; return ret ; \}"), cc, "ConsumeInt (digits only, 1 <= n < kInfiniteEnd)", "fields.cc")
    need(ws(r"void ParseFields \( const char \*arg , std::vector<FieldRange> &indices \) \{ FieldRange add ; "
            r"UTIL_THROW_IF \( !\*arg , util::Exception , [^;]*\) ; "
            r"while \( \*arg \) \{ if \( \*arg == '-' \) \{ add\.begin = 0 ; \} else \{ add\.begin = ConsumeInt \( arg \) - 1 ; \} "
            r"switch \( \*arg \) \{ case ',' : case 0 : add\.end = add\.begin \+ 1 ; break ; "
            r"case '-' : \+\+arg ; if \( \*arg == 0 \|\| \*arg == ',' \) \{ add\.end = FieldRange::kInfiniteEnd ; \} "
            r"else \{ add\.end = ConsumeInt \( arg \) ; UTIL_THROW_IF \( add\.end <= add\.begin , util::Exception , [^;]*\) ; \} break ; "
            r"default : UTIL_THROW \( util::Exception , [^;]*\) ; \} "
            r"UTIL_THROW_IF \( \*arg && \*arg != ',' , util::Exception , [^;]*\) ; "
            r"if \( \*arg == ',' \) \{ \+\+arg ; UTIL_THROW_IF \( !\*arg , util::Exception , [^;]*\) ; \} "
            r"indices\.push_back \( add \) ; \} \}"), cc, "ParseFields loop", "fields.cc")
    need(ws(r"void DefragmentFields \( std::vector<FieldRange> &indices \) \{ std::sort \( indices\.begin \( \) , indices\.end \( \) \) ; "
            r"for \( unsigned int i = 1 ; i < indices\.size \( \) ; \) \{ "
            r"UTIL_THROW_IF \( indices \[ i-1 \]\.end > indices \[ i \]\.begin , util::Exception , [^;]*\) ; "
            r"if \( indices \[ i-1 \]\.end == indices \[ i \]\.begin \) \{ indices \[ i-1 \]\.end = indices \[ i \]\.end ; indices\.erase \( indices\.begin \( \) \+ i \) ; \} "
            r"else \{ \+\+i ; \} \} \}"), cc, "DefragmentFields loop", "fields.cc")

    # ---- option defaults of the tools
    def opt_default(src, long_short, where, kind):
        if kind == "str":
            m = need(ws(r"\( \"" + long_short + r"\" , po::value \( &\w+(?:\.\w+)? \)->default_value \( \"((?:[^\"\\]|\\.)*)\" \)"), src, long_short + " default", where)
            return list(unescape(m.group(1)))
        m = need(ws(r"\( \"" + long_short + r"\" , po::value(?:<char>)? \( &\w+(?:\.\w+)? \)->default_value \( '((?:[^'\\]|\\.)+)' \)"), src, long_short + " default", where)
        return list(unescape(m.group(1)))[0]
    dd = read(repo, "preprocess", "dedupe_main.cc")
    sh = read(repo, "preprocess", "shard_main.cc")
    ca = read(repo, "preprocess", "cache_main.cc")
    d_f, d_d = opt_default(dd, "fields,f", "dedupe_main.cc", "str"), opt_default(dd, "delim,d", "dedupe_main.cc", "chr")
    s_f, s_d = opt_default(sh, "fields,f", "shard_main.cc", "str"), opt_default(sh, "delim,d", "shard_main.cc", "chr")
    c_f, c_d = opt_default(ca, "key,k", "cache_main.cc", "str"), opt_default(ca, "field_separator,t", "cache_main.cc", "chr")
    need(ws(r"if \( options\.key_fields\.size \( \) == 1 && options\.key_fields \[ 0 \]\.begin == 0 && options\.key_fields \[ 0 \]\.end == preprocess::FieldRange::kInfiniteEnd \) \{ "
            r"return preprocess::FilterParallel<preprocess::Dedupe> \( options\.files \) ; \}"), dd, "dedupe whole-line shortcut", "dedupe_main.cc")

    L = ["(* GENERATED by tools/gen/g_fields.py from preprocess/fields.hh, fields.cc and the option tables of",
         "   dedupe_main.cc, shard_main.cc, cache_main.cc -- do not edit *)",
         "From Coq Require Import List ZArith.", "Import ListNotations.", "Local Open Scope Z_scope.", "",
         "(* std::numeric_limits<unsigned int>::max() with 32-bit unsigned int *)",
         "Definition kInfiniteEnd : Z := 4294967295.",
         "(* ULONG_MAX on LP64: the value strtoul saturates to *)",
         "Definition ulong_max : Z := 18446744073709551615.",
         "Definition dedupe_default_fields : list Z := %s." % coq_bytes(d_f),
         "Definition dedupe_default_delim : Z := %d." % d_d,
         "Definition shard_default_fields : list Z := %s." % coq_bytes(s_f),
         "Definition shard_default_delim : Z := %d." % s_d,
         "Definition cache_default_key : list Z := %s." % coq_bytes(c_f),
         "Definition cache_default_separator : Z := %d." % c_d]
    return "Src_fields.v", "\n".join(L) + "\n"
