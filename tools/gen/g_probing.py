"""util/probing_hash_table.hh -> Gen/Src_probing.v : the numeric constants of
AutoProbing / ProbingHashTable / Power2Mod that the C13 model and theorems are
stated over (initial size, size multiplier, growth threshold, growth factor,
mask update, invalid key, RoundBuckets shifts, the `entries_` overflow test).

Every pattern is matched on the comment-stripped source text; a pattern that is
not found raises (broken tie)."""
import os
import re
from fractions import Fraction
from .cparse import strip_comments


def need(rx, s, what, flags=0):
    m = re.search(rx, s, flags)
    if not m:
        raise ValueError("pattern for %s not found in probing_hash_table.hh" % what)
    return m


def dec_fraction(tok):
    """decimal literal (no exponent) -> exact (num, den) as written, e.g. 0.75 -> 75/100"""
    t = tok.rstrip("fFlL")
    if not re.fullmatch(r"\d+(\.\d*)?|\.\d+", t):
        raise ValueError("unsupported floating literal %r" % tok)
    if "." in t:
        a, b = t.split(".")
        den = 10 ** len(b)
        num = int((a or "0") + b) if (a + b) else 0
    else:
        num, den = int(t), 1
    return num, den


def body_of(src, start_rx, what):
    """text of the brace block that follows the first match of start_rx"""
    m = need(start_rx, src, what)
    i = src.index("{", m.end() - 1)
    depth = 0
    for j in range(i, len(src)):
        if src[j] == "{":
            depth += 1
        elif src[j] == "}":
            depth -= 1
            if depth == 0:
                return src[i:j + 1]
    raise ValueError("unbalanced braces in " + what)


def generate(repo):
    src = strip_comments(open(os.path.join(repo, "util", "probing_hash_table.hh")).read())
    auto = src[src.index("class AutoProbing {"):]
    p2 = body_of(src, r"class\s+Power2Mod\s*\{", "Power2Mod")
    pht = src[src.index("class ProbingHashTable {"):src.index("class AutoProbing {")]

    # --- AutoProbing constructor: initial size, invalid key, multiplier
    m = need(r"AutoProbing\s*\(\s*std::size_t\s+initial_size\s*=\s*(\d+)\s*,\s*const\s+Key\s*&\s*invalid\s*=\s*(\w+)\s*\(\s*\)\s*,", auto, "AutoProbing constructor defaults")
    init_size = int(m.group(1))
    if m.group(2) != "Key":
        raise ValueError("default invalid key is not value-initialised Key()")
    m = need(r"allocated_\s*\(\s*Backend::Size\s*\(\s*initial_size\s*,\s*([0-9.]+[fF]?)\s*\)\s*\)", auto, "initial allocation Backend::Size(initial_size, mult)")
    mult = dec_fraction(m.group(1))
    # --- Size(): buckets = RoundBuckets(max(entries + k, (uint64)(multiplier * (float)entries)))
    m = need(r"static\s+uint64_t\s+Size\s*\(\s*uint64_t\s+entries\s*,\s*float\s+multiplier\s*\)\s*\{\s*uint64_t\s+buckets\s*=\s*Mod::RoundBuckets\s*\(\s*std::max\s*\(\s*entries\s*\+\s*(\d+)\s*,\s*static_cast<uint64_t>\s*\(\s*multiplier\s*\*\s*static_cast<float>\s*\(\s*entries\s*\)\s*\)\s*\)\s*\)\s*;\s*return\s+buckets\s*\*\s*sizeof\s*\(\s*Entry\s*\)\s*;", pht, "ProbingHashTable::Size")
    size_plus = int(m.group(1))
    # --- threshold (must be written identically in the constructor and in DoubleIfNeeded)
    thr = re.findall(r"threshold_\s*=\s*std::min<std::size_t>\s*\(\s*backend_\.buckets_\s*-\s*(\d+)\s*,\s*backend_\.buckets_\s*\*\s*([0-9.]+[fF]?)\s*\)\s*;", auto)
    if len(thr) != 2:
        raise ValueError("expected the threshold formula twice (constructor, DoubleIfNeeded), found %d" % len(thr))
    if thr[0] != thr[1]:
        raise ValueError("threshold formula differs between constructor and DoubleIfNeeded: %r" % (thr,))
    thr_sub = int(thr[0][0])
    thr_frac = dec_fraction(thr[0][1])
    # --- DoubleIfNeeded: returns early iff Size() < threshold_
    dbl = body_of(auto, r"void\s+DoubleIfNeeded\s*\(\s*\)\s*", "DoubleIfNeeded")
    need(r"if\s*\(\s*UTIL_LIKELY\s*\(\s*Size\s*\(\s*\)\s*<\s*threshold_\s*\)\s*\)\s*return\s*;", dbl, "DoubleIfNeeded early return `Size() < threshold_`")
    need(r"HugeRealloc\s*\(\s*backend_\.DoubleTo\s*\(\s*\)\s*,\s*KeyIsRawZero\s*\(\s*backend_\.invalid_\s*\)\s*,\s*mem_\s*\)\s*;", dbl, "HugeRealloc(DoubleTo(), zero_new = KeyIsRawZero(invalid))")
    need(r"backend_\.Double\s*\(\s*mem_\.get\s*\(\s*\)\s*,\s*!\s*KeyIsRawZero\s*\(\s*backend_\.invalid_\s*\)\s*\)\s*;", dbl, "backend_.Double(mem, !KeyIsRawZero(invalid))")
    # --- AutoProbing::FindOrInsert / Insert order of effects
    need(r"bool\s+FindOrInsert\s*\(\s*const\s+T\s*&\s*t\s*,\s*MutableIterator\s*&\s*out\s*\)\s*\{\s*DoubleIfNeeded\s*\(\s*\)\s*;\s*return\s+backend_\.FindOrInsert\s*\(\s*t\s*,\s*out\s*\)\s*;", auto, "AutoProbing::FindOrInsert = DoubleIfNeeded; backend.FindOrInsert")
    need(r"MutableIterator\s+Insert\s*\(\s*const\s+T\s*&\s*t\s*\)\s*\{\s*\+\+backend_\.entries_\s*;\s*DoubleIfNeeded\s*\(\s*\)\s*;\s*return\s+backend_\.UncheckedInsert\s*\(\s*t\s*\)\s*;", auto, "AutoProbing::Insert = ++entries; DoubleIfNeeded; UncheckedInsert")
    # --- ProbingHashTable::Double
    dt = need(r"std::size_t\s+DoubleTo\s*\(\s*\)\s*const\s*\{\s*return\s+buckets_\s*\*\s*(\d+)\s*\*\s*sizeof\s*\(\s*Entry\s*\)\s*;", pht, "DoubleTo")
    d = body_of(pht, r"void\s+Double\s*\(\s*void\s*\*\s*new_base\s*,\s*bool\s+clear_new\s*=\s*true\s*\)\s*", "ProbingHashTable::Double")
    g = need(r"buckets_\s*\*=\s*(\d+)\s*;", d, "buckets_ *= 2")
    if int(g.group(1)) != int(dt.group(1)):
        raise ValueError("DoubleTo factor and Double factor differ")
    grow = int(g.group(1))
    need(r"mod_\.Double\s*\(\s*\)\s*;", d, "mod_.Double()")
    need(r"for\s*\(\s*MutableIterator\s+i\s*=\s*begin_\s*;\s*i\s*!=\s*old_end\s*&&\s*!\s*equal_\s*\(\s*i->GetKey\s*\(\s*\)\s*,\s*invalid_\s*\)\s*;\s*\+\+i\s*\)\s*\{\s*rolled_over\.push_back\s*\(\s*\*i\s*\)\s*;\s*i->SetKey\s*\(\s*invalid_\s*\)\s*;\s*\}", d, "Double: parking loop")
    need(r"for\s*\(\s*MutableIterator\s+i\s*=\s*begin_\s*;\s*i\s*!=\s*old_end\s*;\s*\+\+i\s*\)\s*\{\s*if\s*\(\s*!\s*equal_\s*\(\s*i->GetKey\s*\(\s*\)\s*,\s*invalid_\s*\)\s*\)\s*\{\s*temp\s*=\s*\*i\s*;\s*i->SetKey\s*\(\s*invalid_\s*\)\s*;\s*UncheckedInsert\s*\(\s*temp\s*\)\s*;\s*\}\s*\}", d, "Double: re-insertion loop")
    need(r"for\s*\(\s*typename\s+std::vector<Entry>::const_iterator\s+i\s*\(\s*rolled_over\.begin\s*\(\s*\)\s*\)\s*;\s*i\s*!=\s*rolled_over\.end\s*\(\s*\)\s*;\s*\+\+i\s*\)\s*\{\s*UncheckedInsert\s*\(\s*\*i\s*\)\s*;\s*\}", d, "Double: parked entries re-inserted last")
    # --- Power2Mod
    m = need(r"void\s+Double\s*\(\s*\)\s*\{\s*mask_\s*=\s*\(\s*mask_\s*<<\s*(\d+)\s*\)\s*\|\s*(\d+)\s*;", p2, "Power2Mod::Double")
    mask_shl, mask_or = int(m.group(1)), int(m.group(2))
    need(r"mask_\s*=\s*buckets\s*-\s*1\s*;", p2, "Power2Mod mask = buckets - 1")
    need(r"return\s+begin\s*\+\s*\(\s*hash\s*&\s*mask_\s*\)\s*;", p2, "Power2Mod::Ideal = hash & mask")
    need(r"it\s*=\s*begin\s*\+\s*\(\s*\(\s*it\s*-\s*begin\s*\+\s*1\s*\)\s*&\s*mask_\s*\)\s*;", p2, "Power2Mod::Next = (i + 1) & mask")
    rb = body_of(p2, r"static\s+uint64_t\s+RoundBuckets\s*\(\s*uint64_t\s+from\s*\)\s*", "Power2Mod::RoundBuckets")
    need(r"\{\s*--from\s*;", rb, "RoundBuckets --from")
    shifts = [int(x) for x in re.findall(r"from\s*\|=\s*from\s*>>\s*(\d+)\s*;", rb)]
    need(r"return\s+from\s*\+\s*1\s*;", rb, "RoundBuckets return from + 1")
    if not shifts:
        raise ValueError("RoundBuckets shifts not found")
    # --- the overflow test in ProbingHashTable::FindOrInsert, and probe order (key test before empty test)
    foi = body_of(pht, r"bool\s+FindOrInsert\s*\(\s*const\s+T\s*&\s*t\s*,\s*MutableIterator\s*&\s*out\s*\)\s*", "ProbingHashTable::FindOrInsert")
    need(r"if\s*\(\s*equal_\s*\(\s*got\s*,\s*t\.GetKey\s*\(\s*\)\s*\)\s*\)\s*\{\s*out\s*=\s*i\s*;\s*return\s+true\s*;\s*\}\s*if\s*\(\s*equal_\s*\(\s*got\s*,\s*invalid_\s*\)\s*\)\s*\{\s*UTIL_THROW_IF\s*\(\s*\+\+entries_\s*>=\s*buckets_\s*,", foi, "FindOrInsert: key test, then empty test with ++entries_ >= buckets_")

    L = ["(* GENERATED by tools/gen/g_probing.py from util/probing_hash_table.hh -- do not edit *)",
         "From Coq Require Import List NArith.", "Import ListNotations.", "Local Open Scope N_scope.", ""]
    consts = [("invalid_key", 0), ("init_size", init_size), ("size_plus", size_plus),
              ("mult_num", mult[0]), ("mult_den", mult[1]),
              ("thr_sub", thr_sub), ("thr_num", thr_frac[0]), ("thr_den", thr_frac[1]),
              ("grow_factor", grow), ("mask_shl", mask_shl), ("mask_or", mask_or)]
    for n, v in consts:
        L.append("Definition %s : N := %d." % (n, v))
    L.append("Definition round_shifts : list N := [%s]." % "; ".join(str(s) for s in shifts))
    return "Src_probing.v", "\n".join(L) + "\n"
