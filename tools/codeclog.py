"""Helpers shared by C15 / C06 / C17: running a line-protocol harness under the
codec-call interposer (harness/libvcodec.c), resuming after a crash or a hang
of a single case, and parsing the log into per-case codec instances."""
import os
import subprocess

from checklib import hx_bin, BUILD_ROOT

INIT_FNS = {"inflateInit2": "inflate", "bzDecompressInit": "bzDecompress", "lzma_stream_decoder": "lzma_code",
            "deflateInit2": "deflate", "bzCompressInit": "bzCompress"}


def scratch_dir():
    d = os.path.join(BUILD_ROOT, "scratch")
    os.makedirs(d, exist_ok=True)
    return d


class Call:
    __slots__ = ("id", "fn", "flag", "ain", "aout", "ain2", "aout2", "rc", "inhex", "outhex")

    def used(self):
        return self.ain - self.ain2

    def produced(self):
        return self.aout - self.aout2

    def token(self):
        return "%d,%d,%d,%d,%d,%d,%s" % (self.flag, self.ain, self.aout, self.ain2, self.aout2, self.rc, self.outhex)


def parse_log(text):
    """-> list (one per 'M case' marker) of event lists; event = ('N', id, fn) | Call.
    Calls whose return line is missing (crash inside the codec) have rc None."""
    cases = []
    cur = None
    open_calls = {}
    for ln in text.split("\n"):
        if not ln:
            continue
        t = ln.split(" ")
        if t[0] == "M":
            cur = []
            cases.append(cur)
            open_calls = {}
        elif cur is None:
            continue
        elif t[0] == "N" and len(t) >= 3:
            cur.append(("N", t[1], t[2]))
        elif t[0] == "C" and len(t) >= 6:
            c = Call()
            c.id, c.fn, c.flag, c.ain, c.aout = t[1], t[2], int(t[3]), int(t[4]), int(t[5])
            c.ain2 = c.aout2 = c.rc = None
            c.inhex = c.outhex = "-"
            open_calls[(t[1], t[2])] = c
            cur.append(c)
        elif t[0] == "R" and len(t) >= 8:
            c = open_calls.pop((t[1], t[2]), None)
            if c is not None:
                c.ain2, c.aout2, c.rc, c.inhex, c.outhex = int(t[3]), int(t[4]), int(t[5]), t[6], t[7]
        elif t[0] == "X":
            cur.append(("X", "", "log truncated"))
    return cases


def instances(events):
    """group the calls of one case by codec instance (a new one starts at each init)"""
    inst = []
    by_id = {}
    for e in events:
        if isinstance(e, tuple):
            if e[0] == "N" and e[2] in INIT_FNS:
                cur = {"init": e[2], "calls": []}
                inst.append(cur)
                by_id[e[1]] = cur
        else:
            cur = by_id.get(e.id)
            if cur is None:
                cur = {"init": "?", "calls": []}
                inst.append(cur)
                by_id[e.id] = cur
            cur["calls"].append(e)
    return inst


def log_token(events):
    inst = instances(events)
    if not inst:
        return "-"
    return "|".join(i["init"] + ":" + ";".join(c.token() for c in i["calls"] if c.rc is not None) for i in inst)


def run_logged(exe, lines, timeout_case=10, data=True, extra_env=None, preload=True, max_bad=6):
    """Run a harness over protocol lines under the interposer.  A case that
    crashes or hangs the harness gets the result 'CRASH <status>' / 'HANG' and
    the run resumes with the next case; after max_bad such cases the remaining
    ones are not run (result 'SKIPPED').  Returns (results, events_per_case)."""
    results = []
    events = []
    pos = 0
    bad = 0
    logp = os.path.join(scratch_dir(), "vcodec-%d.log" % os.getpid())
    while pos < len(lines):
        if bad >= max_bad:
            results += ["SKIPPED"] * (len(lines) - pos)
            events += [[] for _ in range(len(lines) - pos)]
            break
        if os.path.exists(logp):
            os.unlink(logp)
        env = dict(os.environ)
        if preload:
            env["LD_PRELOAD"] = hx_bin("libvcodec.so")
            env["VCODEC_LOG"] = logp
            env["VCODEC_DATA"] = "1" if data else "0"
            env["VCODEC_MAX_LINES"] = "120000"
        env["HX_TMPDIR"] = scratch_dir()
        env["HX_CASE_TIMEOUT"] = str(timeout_case)
        # uninitialised heap memory must not look like zeros by accident
        env["MALLOC_PERTURB_"] = "165"
        if extra_env:
            env.update(extra_env)
        part = lines[pos:]

        def pre():
            # a harness that runs away (a reader that never ends) must not exhaust the machine
            import resource
            try:
                resource.setrlimit(resource.RLIMIT_AS, (12 << 30, 12 << 30))
            except Exception:
                pass
        try:
            p = subprocess.run([exe], input=("\n".join(part) + "\n").encode(), stdout=subprocess.PIPE,
                               stderr=subprocess.PIPE, env=env, timeout=timeout_case * 4 + 600, preexec_fn=pre)
            out = p.stdout.decode("utf-8", "replace").split("\n")
            rc = p.returncode
        except subprocess.TimeoutExpired as e:
            out = (e.stdout or b"").decode("utf-8", "replace").split("\n")
            rc = "timeout"
        if out and out[-1] == "":
            out.pop()
        logtxt = open(logp).read() if os.path.exists(logp) else ""
        ev = parse_log(logtxt)
        if len(out) >= len(part):
            results += out[:len(part)]
            events += (ev + [[] for _ in part])[:len(part)]
            pos = len(lines)
        else:
            done = len(out)
            hang = done > 0 and out[-1] == "HANG"
            if hang:
                done -= 1
            results += out[:done]
            results.append("HANG" if hang or rc == "timeout" else "CRASH %s" % rc)
            events += (ev + [[] for _ in range(done + 1)])[:done + 1]
            pos += done + 1
            bad += 1
    if os.path.exists(logp):
        os.unlink(logp)
    return results, events


def run_lines_bigstack(exe, lines, timeout=900):
    """like checklib.run_lines, with an unlimited stack (the extracted model recurses over long lists)"""
    import resource

    def pre():
        try:
            resource.setrlimit(resource.RLIMIT_STACK, (resource.RLIM_INFINITY, resource.RLIM_INFINITY))
        except Exception:
            pass
    data = ("\n".join(lines) + "\n").encode()
    p = subprocess.run([exe], input=data, stdout=subprocess.PIPE, stderr=subprocess.PIPE, timeout=timeout, preexec_fn=pre)
    out = p.stdout.decode("utf-8", "replace").split("\n")
    if out and out[-1] == "":
        out.pop()
    return p.returncode, out, p.stderr.decode("utf-8", "replace")


def run_tool_limited(argv, stdin=b"", timeout=60, env=None, cwd=None, max_output=64 << 20, max_memory=8 << 30, stdin_file=False):
    """Like checklib.run_tool, but a tool that runs away (endless output, endless allocation) cannot take
    the check down with it: stdout goes to a scratch file, every file the tool writes is limited to
    max_output bytes (RLIMIT_FSIZE -> SIGXFSZ) and its address space to max_memory.
    stdin_file=True: stdin is a regular file holding the bytes (the tool may mmap / seek it) instead of a pipe.
    Returns (status, stdout, stderr) with status = exit code, -signal or 'timeout'."""
    import resource
    import tempfile

    def pre():
        try:
            resource.setrlimit(resource.RLIMIT_FSIZE, (max_output, max_output))
            resource.setrlimit(resource.RLIMIT_AS, (max_memory, max_memory))
        except Exception:
            pass
    with tempfile.TemporaryFile(dir=scratch_dir()) as out, tempfile.TemporaryFile(dir=scratch_dir()) as err:
        try:
            if stdin_file:
                with tempfile.TemporaryFile(dir=scratch_dir()) as inp:
                    inp.write(stdin)
                    inp.flush()
                    inp.seek(0)
                    p = subprocess.run(argv, stdin=inp, stdout=out, stderr=err, timeout=timeout, env=env, cwd=cwd, preexec_fn=pre)
            else:
                p = subprocess.run(argv, input=stdin, stdout=out, stderr=err, timeout=timeout, env=env, cwd=cwd, preexec_fn=pre)
            status = p.returncode
        except subprocess.TimeoutExpired:
            status = "timeout"
        out.seek(0)
        err.seek(0)
        return status, out.read(max_output + 1), err.read(1 << 20)
