#!/usr/bin/env python3
"""Confirm a candidate behaviour-preserving change in a scratch worktree (never in /repo):
   patch applies to HEAD, builds, the pinned test suite passes.  (That behaviour is unchanged is argued in
   meta.json why_equivalent and was reviewed by reading the diff.)
usage: tools/confirm_harmless.py <candidate_dir> ...   -> copies into seeded/<basename>/ with "harmless": true"""
import json
import os
import shutil
import subprocess
import sys
import time

VERIF = os.path.dirname(os.path.dirname(os.path.abspath(__file__)))


def sh(cmd, **kw):
    p = subprocess.run(cmd, stdout=subprocess.PIPE, stderr=subprocess.STDOUT, **kw)
    return p.returncode, p.stdout.decode("utf-8", "replace")


def main():
    lane = os.environ.get("CONFIRM_LANE", "")
    wt = "/var/tmp/confirm-wt" + lane
    bd = "/var/tmp/confirm-build" + lane
    sh(["git", "-C", "/repo", "worktree", "add", "--detach", wt, "HEAD"])
    try:
        cache = os.path.join(bd, "CMakeCache.txt")
        if os.path.exists(cache) and ("CMAKE_HOME_DIRECTORY:INTERNAL=" + wt + "\n") not in open(cache).read():
            shutil.rmtree(bd)
        for cand in sys.argv[1:]:
            name = os.path.basename(cand.rstrip("/"))
            sh(["git", "-C", wt, "checkout", "--", "."])
            rc, out = sh(["git", "-C", wt, "apply", os.path.join(cand, "patch.diff")])
            if rc != 0:
                print(name, "patch does not apply", out[-200:])
                continue
            rc, out = sh(["cmake", "-G", "Ninja", "-S", wt, "-B", bd, "-DCOMPILE_TESTS=ON", "-DCMAKE_BUILD_TYPE=Release"])
            rc, out = sh(["cmake", "--build", bd, "-j16"])
            if rc != 0:
                print(name, "build failed", out[-300:])
                continue
            rc, out = sh(["ctest", "--test-dir", bd, "-j8", "--timeout", "900"], timeout=1800)
            if rc != 0:
                print(name, "tests fail", out[-300:])
                continue
            dst = os.path.join(VERIF, "seeded", name)
            os.makedirs(dst, exist_ok=True)
            shutil.copy(os.path.join(cand, "patch.diff"), dst)
            meta = json.load(open(os.path.join(cand, "meta.json")))
            meta["harmless"] = True
            meta["confirmed_by"] = {"when": time.strftime("%Y-%m-%d %H:%M"),
                                    "what_i_ran": "scratch worktree of /repo HEAD: git apply; cmake -DCOMPILE_TESTS=ON + build ok; ctest passes; diff read and equivalence argument reviewed"}
            json.dump(meta, open(os.path.join(dst, "meta.json"), "w"), indent=1)
            print(name, "confirmed")
            sys.stdout.flush()
    finally:
        sh(["git", "-C", "/repo", "worktree", "remove", "--force", wt])


if __name__ == "__main__":
    sys.exit(main())
