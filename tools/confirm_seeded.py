#!/usr/bin/env python3
"""Confirm a candidate seeded change myself, in a scratch worktree (never in /repo):
   clean HEAD: demo passes; patched: builds, the pinned test suite passes, demo fails.
usage: tools/confirm_seeded.py <candidate_dir> <name>   -> copies into seeded/<name>/ when confirmed"""
import json
import os
import shutil
import subprocess
import sys
import time

VERIF = os.path.dirname(os.path.dirname(os.path.abspath(__file__)))


def sh(cmd, **kw):
    p = subprocess.run(cmd, stdout=subprocess.PIPE, stderr=subprocess.STDOUT, **kw)
    return p.returncode, p.stdout.decode("utf-8", "replace")


def main():
    cand, name = sys.argv[1], sys.argv[2]
    lane = os.environ.get("CONFIRM_LANE", "")
    wt = "/var/tmp/confirm-wt" + lane
    bd = "/var/tmp/confirm-build" + lane      # reused incrementally across confirmations
    sh(["git", "-C", "/repo", "worktree", "add", "--detach", wt, "HEAD"])
    res = {}
    try:
        def build():
            rc, out = sh(["cmake", "-G", "Ninja", "-S", wt, "-B", bd, "-DCOMPILE_TESTS=ON", "-DCMAKE_BUILD_TYPE=Release"])
            if rc != 0:
                return rc, out
            return sh(["cmake", "--build", bd, "-j16"])
        # the build dir caches the source path: wipe it when it points elsewhere
        cache = os.path.join(bd, "CMakeCache.txt")
        if os.path.exists(cache) and ("CMAKE_HOME_DIRECTORY:INTERNAL=" + wt + "\n") not in open(cache).read():
            shutil.rmtree(bd)
        rc, out = build()
        if rc != 0:
            print("clean build failed", out[-1500:])
            return 1
        demo = os.path.join(cand, "demo.sh")
        rc, out = sh(["bash", demo, os.path.join(bd, "bin"), os.path.join(bd, "lib")], timeout=300)
        res["demo_clean_exit"] = rc
        rc, out = sh(["git", "-C", wt, "apply", os.path.join(cand, "patch.diff")])
        if rc != 0:
            print("patch does not apply", out)
            return 1
        rc, out = build()
        res["patched_builds"] = rc == 0
        rc, out = sh(["ctest", "--test-dir", bd, "-j8", "--timeout", "900"], timeout=1800)
        res["tests_pass_with_patch"] = rc == 0
        res["ctest_tail"] = out.strip().split("\n")[-3:]
        rc, out = sh(["bash", demo, os.path.join(bd, "bin"), os.path.join(bd, "lib")], timeout=300)
        res["demo_patched_exit"] = rc
        res["demo_patched_tail"] = out.strip().split("\n")[-3:]
        ok = res["demo_clean_exit"] == 0 and res["patched_builds"] and res["tests_pass_with_patch"] and res["demo_patched_exit"] != 0
        res["confirmed"] = ok
        print(json.dumps(res, indent=1))
        if ok:
            dst = os.path.join(VERIF, "seeded", name)
            os.makedirs(dst, exist_ok=True)
            shutil.copy(os.path.join(cand, "patch.diff"), dst)
            shutil.copy(demo, dst)
            meta = json.load(open(os.path.join(cand, "meta.json")))
            meta["confirmed_by"] = {"when": time.strftime("%Y-%m-%d %H:%M"), "what_i_ran": "scratch worktree of /repo HEAD: cmake -DCOMPILE_TESTS=ON + build; demo.sh passes on clean HEAD; git apply patch.diff; rebuild ok; ctest passes; demo.sh fails",
                                    "result": res}
            json.dump(meta, open(os.path.join(dst, "meta.json"), "w"), indent=1)
        return 0 if ok else 1
    finally:
        sh(["git", "-C", "/repo", "worktree", "remove", "--force", wt])


if __name__ == "__main__":
    sys.exit(main())
