#!/usr/bin/env python3
"""Writes MANIFEST.json from tools/manifest_data.py (single source of truth)."""
import json
import os
import sys
HERE = os.path.dirname(os.path.abspath(__file__))
sys.path.insert(0, HERE)
import manifest_data as md

props = [json.loads(l)["id"] for l in open(os.path.join(HERE, "..", "properties.jsonl"))]
checks = []
for pid in props:
    if pid in md.CHECKS and not md.CHECKS[pid].get('withdrawn'):
        d = md.CHECKS[pid]
        checks.append({
            "property_id": pid,
            "quick_cmd": "bin/check %s --tier quick" % pid,
            "thorough_cmd": "bin/check %s --tier thorough" % pid,
            "evidence_file": "/verif/evidence/%s.json" % pid,
            "replay_cmd_template": "bin/check %s --replay {path}" % pid,
            "engine": "coq-model+correspondence",
            "level_claimed": {"category": d.get("category", "proof"), "text": d["text"], "design_ref": d.get("design_ref", "DESIGN.md section 5, " + pid)},
            "level_note": d["note"],
            "technique": d["technique"],
        })
na = [{"property_id": p, "reason": (md.CHECKS.get(p) or {}).get("withdrawn") or md.NOT_APPLICABLE.get(p, "no check built yet in this round; planned (DESIGN.md section 9.1)")} for p in props if p not in md.CHECKS or md.CHECKS[p].get("withdrawn")]
m = {
    "version": 1,
    "setup_cmd": "bin/setup",
    "hooks": md.HOOKS,
    "engines": [{"name": "coq-model+correspondence", "path": "/verif/bin/check",
                 "serves_properties": [c["property_id"] for c in checks],
                 "kind_free_text": "Coq 8.16.1 theorems over executable Gallina models (coq/theories), constants/tables regenerated from /repo source on every run (tools/gen_src.py), models extracted to OCaml and run against the code built from /repo's working tree (harness/, checks/)"}],
    "checks": checks,
    "not_applicable": na,
    "notes": md.NOTES,
}
json.dump(m, open(os.path.join(HERE, "..", "MANIFEST.json"), "w"), indent=1)
print("MANIFEST.json: %d checks, %d not claimed" % (len(checks), len(na)))
