#!/usr/bin/env python3
"""After cherry-picking agents' fix commits onto /repo main the hashes change:
rewrite 'commit' fields (and hashes inside 'line') in known_findings*.json to the
hash of the commit on main with the same subject."""
import glob, json, os, re, subprocess
VERIF = os.path.dirname(os.path.dirname(os.path.abspath(__file__)))
def git(*a):
    return subprocess.run(["git", "-C", "/repo"] + list(a), stdout=subprocess.PIPE).stdout.decode()
main = {}
for l in git("log", "--format=%h\t%s", "main").strip().split("\n"):
    h, s = l.split("\t", 1)
    main[s] = h
for p in [os.path.join(VERIF, "known_findings.json")] + glob.glob(os.path.join(VERIF, "known_findings.d", "*.json")):
    d = json.load(open(p))
    ch = False
    for f in d.get("findings", []):
        c = f.get("commit")
        if not c:
            continue
        subj = git("log", "-1", "--format=%s", c).strip()
        new = main.get(subj)
        if new and new != c[:len(new)]:
            f["commit"] = new
            if "line" in f:
                f["line"] = f["line"].replace(c, new)
            ch = True
            print(os.path.basename(p), f["id"], c, "->", new)
        elif not new:
            print("WARNING: no commit on main with subject %r (%s)" % (subj, c))
    if ch:
        json.dump(d, open(p, "w"), indent=1)
