#!/usr/bin/env python3
"""Assemble DESIGN.md from tools/design_head.md, meta/Cxx.design.md, known findings, seeded results, tools/design_tail.md."""
import glob, json, os
V = os.path.dirname(os.path.dirname(os.path.abspath(__file__)))
out = [open(os.path.join(V, "tools", "design_head.md")).read().rstrip() + "\n"]
props = [json.loads(l) for l in open(os.path.join(V, "properties.jsonl"))]
out.append("\n## 5. Per-property design as built\n")
out.append("Generated from `meta/Cxx.design.md` (written next to each check).  Claimed level and technique per property are in MANIFEST.json.\n")
for p in props:
    f = os.path.join(V, "meta", p["id"] + ".design.md")
    out.append("\n---\n")
    if os.path.exists(f):
        txt = open(f).read().strip()
        # demote headings by two levels so they nest under section 5
        lines = []
        for l in txt.split("\n"):
            if l.startswith("#"):
                l = "##" + l
                if l.startswith("#######"):
                    l = "######" + l.lstrip("#")
            lines.append(l)
        out.append("\n".join(lines) + "\n")
    else:
        out.append("### %s — %s\n\n(no notes)\n" % (p["id"], p["title"]))
# section 6: findings
out.append("\n## 6. Genuine defects found in kpu/preprocess\n")
out.append("Every entry was shown on the real code with a concrete input before it was repaired (one `fix:` commit each in /repo) or recorded as open.  `status` open = reported as KNOWN-FINDING by the check; fixed = suppresses nothing.\n")
out.append("\n| id | property | status | commit | what failed |\n|---|---|---|---|---|\n")
fs = []
for f in [os.path.join(V, "known_findings.json")] + sorted(glob.glob(os.path.join(V, "known_findings.d", "*.json"))):
    fs += json.load(open(f)).get("findings", [])
for k in fs:
    out.append("| %s | %s | %s | %s | %s |\n" % (k.get("id"), k.get("property"), k.get("status"), k.get("commit", ""), " ".join(str(k.get("what", "")).split()).replace("|", "\\|")[:400]))
tail = os.path.join(V, "tools", "design_tail.md")
if os.path.exists(tail):
    out.append("\n" + open(tail).read())
# section 9: seeded
out.append("\n## 9. Independent breaking changes (`seeded/`) and which check catches which\n")
out.append("Each change was written by a fresh sub-agent that saw only the property text and a scratch worktree, then confirmed by me in a scratch worktree (clean: demo passes; patched: builds, 44 tests pass, demo fails) and run through `tools/run_seeded.py` (apply to /repo, quick check, undo).  `input` = the check produced a concrete failing input; `tie only` = reported as no-failing-input-found.\n")
out.append("\nFour rounds were run (suffixes m, n, p, q; from round 2 on the testers were given the summaries of all earlier changes for their property and asked for different sites and mechanisms).  First-run detection, before any strengthening: round 1: 65 of 80 reported (8 of them without a failing input), round 2: 53+4 of 80 (3 without input), round 3: 60 of 80 (7 without input; one change, C05-p1, became harmless after a fix and was retired), round 4: 43 of 58 (4 without input; 2 further candidates were not kept because their demonstrations did not fail in my confirmation run).  Every miss was handed to the property's check, which was strengthened (new generators aimed at the trigger, new oracles, translator ties, model extensions) until the change was reported with a concrete input while the unchanged tree stayed silent; the table shows the final state on /repo HEAD.  Patches whose context lines were invalidated by later `fix:` commits were rebased by hand (noted in their meta.json).\n")
res = {}
rf = os.path.join(V, "seeded", "RESULTS_ALL.json")
if os.path.exists(rf):
    res = json.load(open(rf))
out.append("\n| change | property | what it needs to manifest | caught by check | how |\n|---|---|---|---|---|\n")
harmless = []
for d in sorted(glob.glob(os.path.join(V, "seeded", "*", "meta.json"))):
    name = os.path.basename(os.path.dirname(d))
    m = json.load(open(d))
    r = res.get(name, {})
    if m.get("harmless"):
        harmless.append((name, m, r))
        continue
    if m.get("retired"):
        caught, how, detail = "retired", "", m["retired"][:200]
    elif isinstance(r, dict) and r:
        caught = "yes" if r.get("caught") else "NO"
        how = ("input" if r.get("with_input") else "tie only") if r.get("caught") else "-"
        detail = (r.get("detail") or [""])[0][:160].replace("|", "\\|")
    else:
        caught, how, detail = "?", "", ""
    out.append("| %s | %s | %s | %s | %s %s |\n" % (name, m.get("property"), " ".join(str(m.get("needs", "")).split())[:260].replace("|", "\\|"), caught, how, detail))
if harmless:
    out.append("\n### 9b. Independent behaviour-preserving changes (false-alarm test)\n\n")
    hn = os.path.join(V, "tools", "design_harmless.md")
    if os.path.exists(hn):
        out.append(open(hn).read() + "\n")
    out.append("| change | property | edit | check result |\n|---|---|---|---|\n")
    for name, m, r in harmless:
        if isinstance(r, dict) and r:
            if r.get("exit") == 0:
                v = "silent (exit 0)"
            elif r.get("with_input"):
                v = "FALSE ALARM with input: " + (r.get("detail") or [""])[0][:160].replace("|", "\\|")
            else:
                v = "alarm without input (`no-failing-input-found`: tie broke, as the brief allows): " + (r.get("detail") or [""])[0][:140].replace("|", "\\|")
        else:
            v = "?"
        if m.get("note"):
            v += " — " + m["note"]
        out.append("| %s | %s | %s | %s |\n" % (name, m.get("property"), " ".join(str(m.get("summary", "")).split())[:260].replace("|", "\\|"), v))
lim = os.path.join(V, "tools", "design_limits.md")
if os.path.exists(lim):
    out.append("\n" + open(lim).read())
open(os.path.join(V, "DESIGN.md"), "w").write("".join(out))
print("DESIGN.md written, %d bytes" % len("".join(out)))
