#!/usr/bin/env python3
"""Self-validation of the C11 / C20 checks (agent G): hand-made breaking changes and harmless refactorings.

usage: VERIF_REPO=<repo worktree> VERIF_BUILD=<build root> tools/selfvalidate_G.py PROP name
       (names: the functions decorated with @mut below; c11_* for C11, c20_* for C20)
Applies the named change to the repo worktree (which must be clean), runs `bin/check PROP --tier quick`, prints the
VIOLATION lines with their 'what', and reverts with `git checkout -- .`.  Expected results: meta/C11.design.md, meta/C20.design.md."""
import json, os, re, subprocess, sys
REPO = os.environ.get("VERIF_REPO", "/repo")
VERIF = os.path.dirname(os.path.dirname(os.path.abspath(__file__)))
ENV = dict(os.environ, VERIF_REPO=REPO)

def sub(path, old, new, count=1):
    p = os.path.join(REPO, path)
    s = open(p).read()
    assert s.count(old) >= 1, (path, old)
    open(p, "w").write(s.replace(old, new, count))

M = {}
def mut(f):
    M[f.__name__] = f
    return f

# ---------------- C11
@mut
def c11_wait_256():
    sub("preprocess/captive_child.cc", "return 128 + WTERMSIG(status);", "return 256;")
@mut
def c11_wait_signal_0():
    sub("preprocess/captive_child.cc", "return 128 + WTERMSIG(status);", "return 0;")
@mut
def c11_tool_swallows_fdexception():
    sub("preprocess/remove_long_lines_main.cc", "  } catch (const util::EndOfFileException &e) {}", "  } catch (const util::EndOfFileException &e) {} catch (const util::FDException &e) {}")
@mut
def c11_fsync_ignore_all():
    sub("util/file.cc", "  if (errno == EROFS || errno == EINVAL || errno == ENOTSUP) return;\n  UTIL_THROW_ARG(FDException, (fd), \"while syncing fd \" << fd);", "  return;")
@mut
def c11_close_no_abort():
    sub("util/file.cc", "    std::cerr << \"Could not close file \" << fd_ << std::endl;\n    std::abort();", "    std::cerr << \"Could not close file \" << fd_ << std::endl;")
@mut
def c11_mmhsum_no_cout_check():
    sub("preprocess/mmhsum_main.cc", "  if (!std::cout) {", "  if (false) {")
@mut
def c11_cache_premature_eof_break():
    sub("preprocess/cache_main.cc", "      util::StringPiece got = in.ReadLine();", "      util::StringPiece got; try { got = in.ReadLine(); } catch (const util::EndOfFileException &) { break; }")
@mut
def c11_dtor_swallows_flush_error():
    sub("util/buffered_stream.hh", "    ~BufferedStream() {\n      flush();\n    }", "    ~BufferedStream() {\n      try { flush(); } catch (...) {}\n    }")
@mut
def c11_write_error_breaks_loop():
    sub("util/file.cc", "    UTIL_THROW_IF_ARG(ret < 1, FDException, (fd), \"while writing \" << size << \" bytes\");", "    if (ret < 1) return;")
@mut
def c11_foldfilter_returns_0():
    sub("preprocess/foldfilter_main.cc", "\treturn retval;\n}", "\t(void)retval;\n\treturn 0;\n}")
# harmless
@mut
def c11_harmless_rename_and_reorder():
    sub("preprocess/captive_child.cc", "int Wait(pid_t child) {\n  int status;", "int Wait(pid_t child) {\n  int status = 0;")
    sub("util/buffered_stream.hh", "        std::memcpy(current_, data, length);\n        current_ += length;\n        return *this;\n      }\n      SpillBuffer();", "        std::memmove(current_, data, length);\n        current_ += length;\n        return *this;\n      }\n      SpillBuffer();")
    sub("preprocess/mmhsum_main.cc", "constexpr size_t bufferSize = 1024*1024;", "constexpr size_t bufferSize = 512*1024;")
    sub("preprocess/cache_main.cc", "  const std::size_t kFlushRate = 4096;", "  const std::size_t kFlushRate = 1000;")

# ---------------- C20
@mut
def c20_double_kbytes_19():
    sub("util/float_to_string.hh", "static const unsigned kBytes = 26;", "static const unsigned kBytes = 19;", 2)
    sub("util/integer_to_string.hh", "enum { kToStringMaxBytes = 26 };", "enum { kToStringMaxBytes = 20 };")
@mut
def c20_u64_kbytes_19():
    sub("util/integer_to_string.hh", "template <> struct ToStringBuf<uint64_t> {\n  enum { kBytes = 20 };", "template <> struct ToStringBuf<uint64_t> {\n  enum { kBytes = 19 };")
@mut
def c20_i32_kbytes_10():
    sub("util/integer_to_string.hh", "template <> struct ToStringBuf<int32_t> {\n  enum { kBytes = 11 };", "template <> struct ToStringBuf<int32_t> {\n  enum { kBytes = 10 };")
@mut
def c20_ensure_without_spill():
    sub("util/buffered_stream.hh", "      if (UTIL_UNLIKELY(current_ + amount > end_)) {\n        SpillBuffer();\n        assert(current_ + amount <= end_);\n      }\n      return current_;", "      return current_;")
@mut
def c20_b64filter_back_on_empty():
    sub("preprocess/b64filter_main.cc", "!doc.empty() && doc.back() == '\\n'", "doc.back() == '\\n'")
@mut
def c20_gigaword_no_empty_check():
    sub("preprocess/gigaword_unwrap_main.cc", "if (l.empty() || (l.data()[0] != '<')", "if ((l.data()[0] != '<')")
@mut
def c20_u32_wide_store():
    sub("util/integer_to_string.cc", "        _mm_storel_epi64(reinterpret_cast<__m128i*>(buffer), result);\n//        buffer[8] = '\\0';\n        return buffer + 8;", "        _mm_storeu_si128(reinterpret_cast<__m128i*>(buffer), result);\n//        buffer[8] = '\\0';\n        return buffer + 8;")
@mut
def c20_shard_number_0():
    sub("preprocess/shard_main.cc", "  UTIL_THROW_IF2(out.outputs.empty(), \"At least one output is required (--number 0?)\");\n", "")
@mut
def c20_vocab_eof_loop():
    sub("preprocess/vocab_main.cc", "  try { while (true) {\n    util::StringPiece word = in.ReadDelimited(delimiters);", "  { while (true) {\n    util::StringPiece word; try { word = in.ReadDelimited(delimiters); } catch (const util::EndOfFileException &e) { continue; }")
    sub("preprocess/vocab_main.cc", "  } } catch (const util::EndOfFileException &e) {}", "  } }")
@mut
def c20_lut_entry():
    sub("util/integer_to_string.cc", "'9','0','9','1','9','2'", "'9','0','9','1','9','3'")
@mut
def c20_stream_write_off_by_one():
    sub("util/buffered_stream.hh", "      if (UTIL_LIKELY(current_ + length <= end_)) {", "      if (UTIL_LIKELY(current_ + length <= end_ + 1)) {")
@mut
def c20_harmless():
    sub("util/integer_to_string.cc", "char *ToString(int32_t value, char *to) {\n  uint32_t un = static_cast<uint32_t>(value);\n  if (value < 0) {\n    *to++ = '-';\n    un = -un;\n  }\n  return ToString(un, to);", "char *ToString(int32_t value, char *to) {\n  uint32_t magnitude = static_cast<uint32_t>(value);\n  if (value < 0) {\n    *to++ = '-';\n    magnitude = -magnitude;\n  }\n  return ToString(magnitude, to);")
    sub("util/buffered_stream.hh", "std::max<size_t>(8192, kToStringMaxBytes)", "std::max<size_t>(16384, kToStringMaxBytes)")
    sub("util/integer_to_string.hh", "template <> struct ToStringBuf<uint64_t> {\n  enum { kBytes = 20 };", "template <> struct ToStringBuf<uint64_t> {\n  enum { kBytes = 24 };")
    sub("preprocess/idf_main.cc", "  double documents_log = std::log(static_cast<double>(documents));\n  util::FileStream out(1);", "  util::FileStream out(1);\n  double documents_log = std::log(static_cast<double>(documents));")

@mut
def c20_threaded_spill_empty_block():
    sub("util/threaded_buffered_stream.hh", "      if (current_ == lease_.Base()) return;\n", "")
@mut
def c20_threaded_write_loop_offbyone():
    sub("util/threaded_buffered_stream.hh", "      while (UTIL_UNLIKELY(current_ + length > end_)) {", "      while (UTIL_UNLIKELY(current_ + length > end_ + 1)) {")
@mut
def c20_stringstream_ensure_short():
    sub("util/string_stream.hh", "      out_.resize(out_.size() + amount);", "      out_.resize(out_.size() + amount - 1);")

@mut
def c20_launch_uninit_err():
    sub("preprocess/captive_child.cc", "  int count, err = 0;", "  int count, err;")
    sub("preprocess/captive_child.cc", "  UTIL_THROW_IF(count == -1, util::ErrnoException, \"reading the exec status of the child failed\");\n", "")

@mut
def c11_read_or_eof_lies():
    sub("util/file.cc", "    if (!ret) return amount - remaining;", "    if (!ret) return amount;")
@mut
def c11_launch_ignores_exec_failure():
    sub("preprocess/captive_child.cc", "  UTIL_THROW_IF(count != 0, util::Exception, \"child's execvp failed: \" << strerror(err));", "  (void)err;")
@mut
def c11_threaded_writer_swallows():
    sub("util/threaded_buffered_stream.hh", "            writer_.write(lease.Base(), lease.Size());", "            try { writer_.write(lease.Base(), lease.Size()); } catch (...) {}")

if __name__ == "__main__":
    prop, name = sys.argv[1], sys.argv[2]
    subprocess.run(["git", "-C", REPO, "checkout", "--", "."], check=True)
    M[name]()
    try:
        p = subprocess.run([os.path.join(VERIF, "bin/check"), prop, "--tier", "quick"], env=ENV, stdout=subprocess.PIPE, stderr=subprocess.PIPE, timeout=3000)
        out = p.stdout.decode()
        print("== %s: exit %d" % (name, p.returncode))
        for l in out.split("\n"):
            if l.startswith("VIOLATION") or l.startswith("KNOWN") or l.startswith(prop):
                print("   " + l)
                m = re.search(r"replay=(\S+)", l)
                if m:
                    r = json.load(open(m.group(1)))
                    print("      what: " + r["what"][:260])
                    if r.get("broken_obligations"):
                        print("      broken: " + " | ".join(b[:160] for b in r["broken_obligations"][:4]))
    finally:
        subprocess.run(["git", "-C", REPO, "checkout", "--", "."], check=True)
