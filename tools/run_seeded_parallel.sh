#!/bin/sh
# Run every kept seeded change through its property's quick check, in N parallel lanes.
# Each lane has its own copy of /verif (with the built Coq tree), its own worktree of /repo and its
# own build root, so /repo itself is never touched.  Results are merged into seeded/RESULTS_ALL.json.
N=${1:-4}
cd "$(dirname "$0")/.." || exit 2
V=$(pwd)
names=$(ls seeded | grep -E -- "${PATTERN:--[mnpq][0-9]+\$}")
i=0
for n in $names; do
  lane=$((i % N)); i=$((i + 1))
  eval "L$lane=\"\$L$lane $n\""
done
for lane in $(seq 0 $((N - 1))); do
  d=/var/tmp/lane-$lane
  rm -rf $d/verif; mkdir -p $d
  git -C /repo worktree remove --force $d/repo 2>/dev/null
  git -C /repo worktree add -q --detach $d/repo HEAD
  rsync -a --exclude .git --exclude replays $V/ $d/verif/
  eval "ns=\$L$lane"
  ( cd $d/verif && VERIF_REPO=$d/repo VERIF_BUILD=$d/build python3 tools/run_seeded.py $ns > $d/log 2>&1 ) &
done
wait
python3 - <<PY
import json, glob
allp = "$V/seeded/RESULTS_ALL.json"
allr = json.load(open(allp))
for f in sorted(glob.glob("/var/tmp/lane-*/verif/seeded/RESULTS.json")):
    allr.update(json.load(open(f)))
json.dump(allr, open(allp, "w"), indent=1, sort_keys=True)
brk = {k: v for k, v in allr.items() if not (isinstance(v, dict) and v.get("harmless"))}
missed = sorted(k for k, v in brk.items() if not (isinstance(v, dict) and v.get("caught")))
tie = sorted(k for k, v in brk.items() if isinstance(v, dict) and v.get("caught") and not v.get("with_input"))
print("total", len(brk), "missed", missed, "tie-only", tie)
harm = {k: v for k, v in allr.items() if isinstance(v, dict) and v.get("harmless")}
print("harmless", len(harm), "alarm-with-input", sorted(k for k, v in harm.items() if v["exit"] != 0 and v["with_input"]),
      "tie-only-alarm", sorted(k for k, v in harm.items() if v["exit"] != 0 and not v["with_input"]))
PY
for lane in $(seq 0 $((N - 1))); do
  git -C /repo worktree remove --force /var/tmp/lane-$lane/repo 2>/dev/null
  rm -rf /var/tmp/lane-$lane
done
