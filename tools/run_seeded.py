#!/usr/bin/env python3
"""Apply each kept seeded change (seeded/<name>/patch.diff) to /repo, run the quick
check of the property it breaks, undo it, and report caught / missed.  Changes whose meta.json says
"harmless": true are behaviour-preserving edits: for those the check must stay silent.
usage: tools/run_seeded.py [name ...]     (never commits anything to /repo)"""
import json
import os
import subprocess
import sys
import time

VERIF = os.path.dirname(os.path.dirname(os.path.abspath(__file__)))
REPO = os.environ.get("VERIF_REPO", "/repo")


def sh(cmd, **kw):
    return subprocess.run(cmd, stdout=subprocess.PIPE, stderr=subprocess.STDOUT, **kw)


def main():
    names = sys.argv[1:] or sorted(os.listdir(os.path.join(VERIF, "seeded")))
    if sh(["git", "-C", REPO, "diff", "--quiet"]).returncode != 0:
        print("refusing: %s has uncommitted changes" % REPO)
        return 2
    results = {}
    for n in names:
        d = os.path.join(VERIF, "seeded", n)
        patch = os.path.join(d, "patch.diff")
        if not os.path.exists(patch):
            continue
        meta = json.load(open(os.path.join(d, "meta.json")))
        if meta.get("retired"):
            print(n, "retired:", meta["retired"][:100])
            continue
        pid = meta["property"]
        r = sh(["git", "-C", REPO, "apply", patch])
        if r.returncode != 0:
            results[n] = "patch does not apply: " + r.stdout.decode()[-200:]
            print(n, results[n])
            continue
        t0 = time.time()
        ev = os.path.join(VERIF, "evidence", pid + ".json")
        saved = open(ev).read() if os.path.exists(ev) else None
        try:
            r = sh([os.path.join(VERIF, "bin", "check"), pid, "--tier", "quick"], cwd=VERIF, timeout=3600)
            out = r.stdout.decode("utf-8", "replace")
            viol = [l for l in out.split("\n") if l.startswith("VIOLATION")]
            results[n] = {"property": pid, "harmless": bool(meta.get("harmless")), "exit": r.returncode, "caught": r.returncode == 1 and bool(viol),
                          "with_input": any("no-failing-input-found" not in l for l in viol), "wall_s": round(time.time() - t0),
                          "lines": viol[:3], "detail": [l for l in out.split("\n") if l.startswith("  violation") or l.startswith("  broken")][:3]}
        finally:
            sh(["git", "-C", REPO, "checkout", "--", "."])
            if saved is not None:      # evidence must describe runs on the unchanged tree only
                open(ev, "w").write(saved)
            # Gen/Src_*.v were regenerated from the patched tree: regenerate from the clean one
            sh([sys.executable, os.path.join(VERIF, "tools", "gen_src.py"), REPO])
        print(n, json.dumps(results[n]))
        sys.stdout.flush()
    json.dump(results, open(os.path.join(VERIF, "seeded", "RESULTS.json"), "w"), indent=1)
    allp = os.path.join(VERIF, "seeded", "RESULTS_ALL.json")
    allr = json.load(open(allp)) if os.path.exists(allp) else {}
    allr.update(results)
    json.dump(allr, open(allp, "w"), indent=1, sort_keys=True)
    brk = {n: r for n, r in results.items() if not (isinstance(r, dict) and r.get("harmless"))}
    missed = [n for n, r in brk.items() if not (isinstance(r, dict) and r["caught"])]
    print("caught %d / %d; missed: %s" % (len(brk) - len(missed), len(brk), missed))
    harm = {n: r for n, r in results.items() if isinstance(r, dict) and r.get("harmless")}
    if harm:      # behaviour-preserving changes: the check must stay silent
        print("harmless %d: alarms with input %s; tie-only alarms %s" % (
            len(harm), [n for n, r in harm.items() if r["exit"] != 0 and r["with_input"]],
            [n for n, r in harm.items() if r["exit"] != 0 and not r["with_input"]]))
    return 0


if __name__ == "__main__":
    sys.exit(main())
