"""Thorough tier: re-check a property's compiled closure with the independent checker."""
import os
import subprocess
import sys
sys.path.insert(0, os.path.dirname(os.path.abspath(__file__)))
import checklib


def coqchk(prop_id, timeout=1500):
    """Returns (ok, axioms_text)."""
    with checklib.Lock("coq"):
        p = subprocess.run(["coqchk", "-o", "-silent", "-Q", "theories", "PP", "PP.Props.Properties_%s" % prop_id],
                           cwd=checklib.COQ, stdout=subprocess.PIPE, stderr=subprocess.STDOUT, timeout=timeout)
    out = p.stdout.decode("utf-8", "replace")
    i = out.find("CONTEXT SUMMARY")
    return p.returncode == 0, (out[i:] if i >= 0 else out[-2000:])


def thorough_coqchk(check):
    if check.tier != "thorough":
        return
    try:
        ok, txt = coqchk(check.prop)
    except subprocess.TimeoutExpired:
        check.cov["coqchk"] = "timeout"
        return
    check.cov["coqchk"] = " ".join(txt.split())[:1500]
    check.cov["trusted_base"].append("coqchk -o (independent checker) on PP.Props.Properties_%s: %s" % (check.prop, "accepted" if ok else "REJECTED"))
    if not ok:
        check.broken.append("coqchk rejected the compiled closure of Properties_%s: %s" % (check.prop, txt[-400:]))
