#!/usr/bin/env python3
"""Hand-made breaking changes (and harmless rewrites) for C13 / C01 / C18, applied one at a time to the
repo worktree under test (never committed), each followed by the quick check; the worktree is restored
with `git checkout -- .` after every run.
usage: VERIF_REPO=... VERIF_BUILD=... tools/selfvalidate_B.py [C13|C01|C18] [name-substring]
Prints per mutation: CAUGHT (first violation with a concrete input) / TIE-ONLY (reported without a
failing input) / SILENT; and whether that is what is expected for its kind (break / preserving / harmless)."""
import os
import re
import subprocess
import sys

VERIF = os.path.dirname(os.path.dirname(os.path.abspath(__file__)))
REPO = os.environ["VERIF_REPO"]

PHT = "util/probing_hash_table.hh"
M = [
    # (property, name, kind, file, old, new, replace_all)
    ("C13", "skip the parking loop of Double", "break", PHT,
     "for (MutableIterator i = begin_; i != old_end && !equal_(i->GetKey(), invalid_); ++i) {",
     "for (MutableIterator i = begin_; false && i != old_end && !equal_(i->GetKey(), invalid_); ++i) {", False),
    ("C13", "re-insertion without vacating the bucket", "break", PHT,
     "          temp = *i;\n          i->SetKey(invalid_);\n          UncheckedInsert(temp);", "          temp = *i;\n          UncheckedInsert(temp);", False),
    ("C13", "mask_ = mask_ << 1 (no | 1)", "break", PHT, "mask_ = (mask_ << 1) | 1;", "mask_ = (mask_ << 1);", False),
    ("C13", "UncheckedInsert starts at begin_", "break", PHT,
     "      for (MutableIterator i(Ideal(t.GetKey()));; mod_.Next(begin_, end_, i)) {\n        if (equal_(i->GetKey(), invalid_)) { *i = t; return i; }",
     "      for (MutableIterator i(begin_);; mod_.Next(begin_, end_, i)) {\n        if (equal_(i->GetKey(), invalid_)) { *i = t; return i; }", False),
    ("C13", "HugeRealloc does not zero the new bytes", "break", "util/mmap.cc",
     "        if (zero_new && to > mem.size())\n          memset(static_cast<uint8_t*>(new_addr) + mem.size(), 0, to - mem.size());",
     "        if (false && zero_new && to > mem.size())\n          memset(static_cast<uint8_t*>(new_addr) + mem.size(), 0, to - mem.size());", False),
    ("C13", "FindFromIdeal gives up at the last bucket", "break", PHT,
     "        if (equal_(got, key)) return true;\n        if (equal_(got, invalid_)) return false;",
     "        if (equal_(got, key)) return true;\n        if (equal_(got, invalid_) || i + 1 == end_) return false;", False),
    ("C13", "re-insertion loop runs to end_ (behaviour preserving)", "preserving", PHT,
     "      for (MutableIterator i = begin_; i != old_end; ++i) {\n        if (!equal_(i->GetKey(), invalid_)) {",
     "      for (MutableIterator i = begin_; i != end_; ++i) {\n        if (!equal_(i->GetKey(), invalid_)) {", False),
    ("C13", "threshold factor 0.75 -> 1.0 (not property-breaking)", "harmless", PHT,
     "backend_.buckets_ * 0.75)", "backend_.buckets_ * 1.0)", True),
    ("C13", "UnsafeMutableFind as while(true) with renamed locals", "harmless", PHT,
     "      for (MutableIterator i(Ideal(key));; mod_.Next(begin_, end_, i)) {\n        Key got(i->GetKey());\n        if (equal_(got, key)) { out = i; return true; }\n        if (equal_(got, invalid_)) return false;\n      }",
     "      MutableIterator cursor(Ideal(key));\n      while (true) {\n        const Key current(cursor->GetKey());\n        if (equal_(current, key)) { out = cursor; return true; }\n        if (equal_(current, invalid_)) return false;\n        mod_.Next(begin_, end_, cursor);\n      }", False),
    ("C13", "malloc->mmap transition at 64 KiB", "harmless", "util/mmap.cc", "1ULL << 21", "1ULL << 16", True),

    ("C01", "return FindOrInsert without negation", "break", "preprocess/dedupe_main.cc",
     "return !table_.FindOrInsert(entry, it);", "return table_.FindOrInsert(entry, it);", False),
    ("C01", "FieldDedupe hashes the whole line", "break", "preprocess/dedupe_main.cc",
     "RangeFields(line, key_fields_, delim_, hasher);", "hasher(line);", False),
    ("C01", "read loop skips empty lines", "break", "preprocess/parallel.hh",
     "      ++input;\n      if (pass(line)) {", "      ++input;\n      if (line.empty()) continue;\n      if (pass(line)) {", False),
    ("C01", "reserved-key guard removed (regression of the fix)", "break", "preprocess/dedupe_main.cc",
     "if (key == 0) {", "if (false) {", False),
    ("C01", "seeded m2: pass0(line0) && pass0(line1)", "break", "preprocess/parallel.hh",
     "if (pass0(line0) && pass1(line1)) {", "if (pass0(line0) && pass0(line1)) {", False),
    ("C01", "seeded m4: RangeFields slice includes the trailing delimiter", "break", "preprocess/fields.hh",
     "    callback(util::StringPiece(old_begin, begin - old_begin - 1));", "    callback(util::StringPiece(old_begin, begin - old_begin));", False),
    ("C01", "pass0 & pass1 without short-circuit (the four -p claims still hold)", "preserving", "preprocess/parallel.hh",
     "if (pass0(line0) && pass1(line1)) {", "if (pass0(line0) & pass1(line1)) {", False),
    ("C01", "Entry entry = Entry(); entry.SetKey(key)", "harmless", "preprocess/dedupe_main.cc",
     "Entry entry;\n      entry.key = key;", "Entry entry = Entry();\n      entry.SetKey(key);", False),
    ("C01", "counter and write reordered in the read loop", "harmless", "preprocess/parallel.hh",
     "      ++input;\n      if (pass(line)) {\n        out << line << '\\n';\n        ++output;", "      if (pass(line)) {\n        ++output;\n        out << line << '\\n';", False),

    ("C18", "remove_long_lines: < for <=", "break", "preprocess/remove_long_lines_main.cc",
     "if (l.size() <= limit) {", "if (l.size() < limit) {", False),
    ("C18", "subtract_lines: Find -> FindOrInsert in the filter loop", "break", "preprocess/subtract_lines_main.cc",
     "    util::AutoProbing<Entry, util::IdentityHash>::ConstIterator it;\n    if (key == 0 ? !subtract_zero : !table.Find(key, it)) {",
     "    util::AutoProbing<Entry, util::IdentityHash>::MutableIterator it;\n    Entry probe; probe.key = key;\n    if (key == 0 ? !subtract_zero : !table.FindOrInsert(probe, it)) {", False),
    ("C18", "IsValidCodepoint accepts surrogates", "break", "util/utf8.hh",
     "return (static_cast<uint32>(c) < 0xD800) || (c >= 0xE000 && c <= 0x10FFFF);", "return (c <= 0x10FFFF);", False),
    ("C18", "simple_cleaning: character < 31", "break", "preprocess/simple_cleaning_main.cc",
     "if (character < 32 && character", "if (character < 31 && character", False),
    ("C18", "simple_cleaning: run test > for >=", "break", "preprocess/simple_cleaning_main.cc",
     "if (++previous_run >= options_.character_run", "if (++previous_run > options_.character_run", False),
    ("C18", "commoncrawl StripSpaces without the trailing loop", "break", "preprocess/commoncrawl_dedupe_main.cc",
     "  while (ret.size() && util::kSpaces[static_cast<unsigned char>(ret.data()[ret.size() - 1])]) {",
     "  while (false && ret.size() && util::kSpaces[static_cast<unsigned char>(ret.data()[ret.size() - 1])]) {", False),
    ("C18", "base64_decode does not clear its output (context dependence)", "break", "preprocess/base64.cc",
     "void base64_decode(const util::StringPiece &in, std::string &out) {\n\tout.clear();", "void base64_decode(const util::StringPiece &in, std::string &out) {", False),
    ("C18", "comment added in remove_invalid_utf8", "harmless", "preprocess/remove_invalid_utf8_main.cc",
     "  util::StringPiece line;\n  while (in.ReadLineOrEOF(", "  util::StringPiece line;\n  /* refactored */ while (in.ReadLineOrEOF(", False),
]


def main():
    want = sys.argv[1] if len(sys.argv) > 1 else None
    sub = sys.argv[2] if len(sys.argv) > 2 else None
    bad = 0
    for prop, name, kind, path, old, new, allocc in M:
        if (want and prop != want) or (sub and sub not in name):
            continue
        p = os.path.join(REPO, path)
        s = open(p).read()
        if old not in s:
            print("%s  %-70s  PATTERN NOT FOUND in %s" % (prop, name, path))
            bad += 1
            continue
        open(p, "w").write(s.replace(old, new) if allocc else s.replace(old, new, 1))
        try:
            r = subprocess.run(["timeout", "1200", os.path.join(VERIF, "bin", "check"), prop, "--tier", "quick"], cwd=VERIF,
                               stdout=subprocess.PIPE, stderr=subprocess.STDOUT)
            out = r.stdout.decode("utf-8", "replace")
        finally:
            subprocess.run(["git", "-C", REPO, "checkout", "--", "."])
        vio = [l for l in out.split("\n") if l.startswith("VIOLATION")]
        with_input = [l for l in vio if "no-failing-input-found" not in l]
        first = next((l.strip() for l in out.split("\n") if l.strip().startswith("violation:")), "")
        got = "CAUGHT" if with_input else "TIE-ONLY" if vio else "SILENT"
        expected = {"break": "CAUGHT", "preserving": "TIE-ONLY", "harmless": "SILENT"}[kind]
        ok = got == expected
        bad += 0 if ok else 1
        print("%s  %-70s  %-8s %s  %s" % (prop, name[:70], got, "as expected" if ok else "UNEXPECTED (%s wanted)" % expected, first[:160]))
        sys.stdout.flush()
    return 1 if bad else 0


if __name__ == "__main__":
    sys.exit(main())
