#!/usr/bin/env python3
"""Translator: C++ source text of /repo -> coq/theories/Gen/Src_*.v.

Each tools/gen/g_<component>.py exposes generate(repo) -> (basename, coq_text).
A generator that cannot find what it is looking for raises: that is a *broken
tie* and is reported by the check (never a silent pass)."""
import importlib
import os
import sys
import traceback

HERE = os.path.dirname(os.path.abspath(__file__))
sys.path.insert(0, HERE)


def generate_all(repo, outdir, only=None):
    from checklib import write_if_changed
    errs = {}
    gdir = os.path.join(HERE, "gen")
    for f in sorted(os.listdir(gdir)):
        if not (f.startswith("g_") and f.endswith(".py")):
            continue
        comp = f[2:-3]
        if only and comp not in only:
            continue
        try:
            mod = importlib.import_module("gen." + f[:-3])
            importlib.reload(mod)
            name, text = mod.generate(repo)
            write_if_changed(os.path.join(outdir, name), text)
            errs[comp] = ""
        except Exception as e:  # broken tie
            errs[comp] = "%s: %s" % (type(e).__name__, e)
            # leave a file that does not compile so that proofs depending on it break
            write_if_changed(os.path.join(outdir, "Src_%s.v" % comp),
                             "(* translator failed: %s *)\nDefinition translator_failed : True := 0.\n" % str(e).replace("*)", "* )"))
    return errs


if __name__ == "__main__":
    repo = sys.argv[1] if len(sys.argv) > 1 else "/repo"
    out = os.path.join(os.path.dirname(HERE), "coq", "theories", "Gen")
    e = generate_all(repo, out)
    for k, v in e.items():
        print(k, "OK" if not v else "FAILED: " + v)
    sys.exit(1 if any(e.values()) else 0)
