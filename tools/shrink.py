"""Greedy input minimisation (delta debugging flavour) for replays."""


def shrink_bytes(fails, data, max_steps=400):
    """Smallest bytes object (greedy) for which fails(x) is still True."""
    data = bytes(data)
    steps = 0
    n = 2
    while len(data) >= 1 and steps < max_steps:
        chunk = max(1, len(data) // n)
        reduced = False
        i = 0
        while i < len(data) and steps < max_steps:
            cand = data[:i] + data[i + chunk:]
            steps += 1
            if fails(cand):
                data = cand
                reduced = True
            else:
                i += chunk
        if not reduced:
            if chunk == 1:
                break
            n = min(len(data), n * 2) or 1
        else:
            n = max(2, n - 1)
    # simplify byte values
    for i in range(len(data)):
        for repl in (b"a", b"A"):
            if data[i:i + 1] != repl and data[i] not in (10, 13, 0, 9):
                cand = data[:i] + repl + data[i + 1:]
                steps += 1
                if steps < max_steps and fails(cand):
                    data = cand
                    break
    return data


def shrink_list(fails, items, max_steps=300):
    """Smallest sub-list (greedy) for which fails(x) is still True."""
    items = list(items)
    steps = 0
    chunk = max(1, len(items) // 2)
    while chunk >= 1 and steps < max_steps:
        i = 0
        progressed = False
        while i < len(items) and steps < max_steps:
            cand = items[:i] + items[i + chunk:]
            steps += 1
            if fails(cand):
                items = cand
                progressed = True
            else:
                i += chunk
        if chunk == 1 and not progressed:
            break
        chunk = max(1, chunk // 2) if not progressed else chunk
    return items
