#!/bin/sh
# run every registered quick check once, sequentially; summary at the end
cd "$(dirname "$0")/.." || exit 2
tier=${1:-quick}
for p in $(python3 -c "import json; print(' '.join(c['property_id'] for c in json.load(open('MANIFEST.json'))['checks']))"); do
  start=$(date +%s)
  timeout 3600 bin/check $p --tier $tier > /var/tmp/runall_$p.log 2>&1
  rc=$?
  echo "$p rc=$rc $(($(date +%s)-start))s $(grep -c '^VIOLATION' /var/tmp/runall_$p.log) violation-lines | $(tail -1 /var/tmp/runall_$p.log | cut -c1-150)"
done
