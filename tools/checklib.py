"""Common machinery for /verif checks (see DESIGN.md section 2.2).

Every check does, in this order:
  1. build /repo's current working tree + harnesses (incremental ninja graph)
  2. regenerate coq/theories/Gen/Src_*.v from /repo's source text
  3. (re)build the Coq development needed by the property, collect which
     property theorems were accepted by the kernel and their Print Assumptions
  4. build the extracted OCaml model driver
  5. correspondence: model vs implementation on generated cases
  6. direct property oracles on implementation output (the "search")
  7. evidence + VIOLATION / KNOWN-FINDING lines
"""
import fcntl
import hashlib
import json
import os
import random
import re
import shutil
import subprocess
import sys
import time

VERIF = os.path.dirname(os.path.dirname(os.path.abspath(__file__)))
REPO = os.environ.get("VERIF_REPO", "/repo")
COQ = os.path.join(VERIF, "coq")
BUILD_ROOT = os.environ.get("VERIF_BUILD", "/var/tmp/verif-build")
NPROC = str(os.cpu_count() or 4)


def log(*a):
    print(*a, file=sys.stderr, flush=True)


class Lock:
    def __init__(self, name):
        os.makedirs(BUILD_ROOT, exist_ok=True)
        self.path = os.path.join(BUILD_ROOT, name + ".lock")

    def __enter__(self):
        self.f = open(self.path, "w")
        fcntl.flock(self.f, fcntl.LOCK_EX)
        return self

    def __exit__(self, *a):
        fcntl.flock(self.f, fcntl.LOCK_UN)
        self.f.close()


def run(cmd, timeout=None, cwd=None, env=None, input=None, check=False):
    """Run a command in its own process group; on timeout the whole group is killed (make's coqc /
    ninja's compiler children must not survive as orphans) and (124, output so far) is returned."""
    import signal
    p = subprocess.Popen(cmd, cwd=cwd, env=env, stdin=subprocess.PIPE if input is not None else None,
                         stdout=subprocess.PIPE, stderr=subprocess.STDOUT, start_new_session=True)
    try:
        out, _ = p.communicate(input=input, timeout=timeout)
        rc = p.returncode
    except subprocess.TimeoutExpired:
        try:
            os.killpg(p.pid, signal.SIGKILL)
        except OSError:
            pass
        out, _ = p.communicate()
        out = (out or b"") + b"\n[checklib.run: timeout after %d s, process group killed]\n" % int(timeout or 0)
        rc = 124
    if check and rc != 0:
        raise RuntimeError("command failed: %r\n%s" % (cmd, out.decode("utf-8", "replace")[-4000:]))
    return rc, out


# --------------------------------------------------------------------------
# 1. building the code under test

def build_dir(flavour="rel"):
    # one build tree per location of this framework: a copy of /verif elsewhere (e.g. a snapshot)
    # must not reuse a CMake cache configured for another source directory
    if VERIF == "/verif":
        return os.path.join(BUILD_ROOT, flavour)
    return os.path.join(BUILD_ROOT, flavour + "-" + hashlib.sha1(VERIF.encode()).hexdigest()[:8])


FLAVOURS = {
    "rel": ["-DCMAKE_BUILD_TYPE=Release", "-DCMAKE_CXX_FLAGS=-g1"],
    "asan": ["-DCMAKE_BUILD_TYPE=RelWithDebInfo",
             "-DCMAKE_CXX_FLAGS=-O1 -g -fsanitize=address,undefined -fno-sanitize-recover=undefined -fno-omit-frame-pointer",
             "-DCMAKE_C_FLAGS=-O1 -g -fsanitize=address,undefined",
             "-DCMAKE_EXE_LINKER_FLAGS=-fsanitize=address,undefined"],
    # libstdc++ precondition checks (e.g. back() on an empty string aborts): turns
    # some undefined behaviour into a deterministic abort of the real tool
    "assert": ["-DCMAKE_BUILD_TYPE=Release", "-DCMAKE_CXX_FLAGS=-g1 -D_GLIBCXX_ASSERTIONS"],


    # asan + libstdc++ container assertions (back() on an empty string, operator[] out of range ...): C20
    # (the bounds/overflow subset of UBSan only: alignment and shift reports would stop a run before it gets anywhere)
    "hard": ["-DCMAKE_BUILD_TYPE=RelWithDebInfo",
             "-DCMAKE_CXX_FLAGS=-O1 -g -fsanitize=address,bounds,signed-integer-overflow,integer-divide-by-zero,null,pointer-overflow,vla-bound,return,unreachable -fno-sanitize-recover=all -fno-omit-frame-pointer -D_GLIBCXX_ASSERTIONS",
             "-DCMAKE_C_FLAGS=-O1 -g -fsanitize=address",
             "-DCMAKE_EXE_LINKER_FLAGS=-fsanitize=address,undefined"],
    # AddressSanitizer alone (the "asan" flavour also aborts on UBSan's signed-shift report in
    # preprocess/base64.cc, which is C09's modelled 32-bit wrap, before b64filter does anything)
    "asan_only": ["-DCMAKE_BUILD_TYPE=RelWithDebInfo",
                  "-DCMAKE_CXX_FLAGS=-O1 -g -fsanitize=address -fno-omit-frame-pointer",
                  "-DCMAKE_C_FLAGS=-O1 -g -fsanitize=address",
                  "-DCMAKE_EXE_LINKER_FLAGS=-fsanitize=address"],
    "tsan": ["-DCMAKE_BUILD_TYPE=RelWithDebInfo",
             "-DCMAKE_CXX_FLAGS=-O1 -g -fsanitize=thread",
             "-DCMAKE_EXE_LINKER_FLAGS=-fsanitize=thread"],
}


def build_repo(targets, flavour="rel"):
    """Build the given ninja targets (repo executables and hx_* harnesses) from
    /repo's current working tree.  Returns (ok, log_text)."""
    bd = build_dir(flavour)
    with Lock("build-" + flavour):
        os.makedirs(bd, exist_ok=True)
        # always re-run cmake: harness globbing must see new files; it is ~1 s.
        rc, out = run(["cmake", "-G", "Ninja", "-S", os.path.join(VERIF, "harness"), "-B", bd,
                       "-DREPO_DIR=" + REPO] + FLAVOURS[flavour], timeout=600)
        if rc != 0:
            return False, out.decode("utf-8", "replace")
        rc, out2 = run(["ninja", "-C", bd, "-j", NPROC] + list(targets), timeout=1800)
        return rc == 0, (out + out2).decode("utf-8", "replace")


def repo_bin(name, flavour="rel"):
    return os.path.join(build_dir(flavour), "repo", "bin", name)


def hx_bin(name, flavour="rel"):
    return os.path.join(build_dir(flavour), "hx", name)


def repo_state():
    """Identify the working tree the check ran against."""
    rc, head = run(["git", "-C", REPO, "rev-parse", "HEAD"])
    rc, diff = run(["git", "-C", REPO, "diff", "HEAD"])
    return {"head": head.decode().strip(), "dirty_sha": hashlib.sha1(diff).hexdigest()[:12] if diff.strip() else None}


# --------------------------------------------------------------------------
# 2./3. Coq

def write_if_changed(path, text):
    try:
        with open(path) as f:
            if f.read() == text:
                return False
    except FileNotFoundError:
        pass
    os.makedirs(os.path.dirname(path), exist_ok=True)
    with open(path, "w") as f:
        f.write(text)
    return True


def coq_project():
    """(Re)generate _CoqProject and Makefile from the files on disk."""
    files = []
    for root, dirs, fs in os.walk(os.path.join(COQ, "theories")):
        dirs.sort()
        for f in sorted(fs):
            if f.endswith(".v") and not f.startswith("."):
                files.append(os.path.relpath(os.path.join(root, f), COQ))
    text = "-Q theories PP\n-arg -w -arg -notation-overridden,-deprecated-hint-without-locality,-deprecated-syntactic-definition\n" + "\n".join(files) + "\n"
    changed = write_if_changed(os.path.join(COQ, "_CoqProject"), text)
    if changed or not os.path.exists(os.path.join(COQ, "Makefile")):
        run(["coq_makefile", "-f", "_CoqProject", "-o", "Makefile"], cwd=COQ, check=True)


def gen_sources(only=None):
    """Run tools/gen_src.py.  Returns dict component -> error string (empty = fine)."""
    sys.path.insert(0, os.path.join(VERIF, "tools"))
    import gen_src
    return gen_src.generate_all(REPO, os.path.join(COQ, "theories", "Gen"), only=only)


def gen_components_of(prop_id):
    """Names of the Gen/Src_<comp>.v files that Props/Properties_<id>.v (transitively) imports:
    only their translators are part of this property's tie."""
    root = os.path.join(COQ, "theories")
    seen, todo, comps = set(), [os.path.join("Props", "Properties_%s" % prop_id), os.path.join("Extract", "Extract_%s" % prop_id)], set()
    while todo:
        m = todo.pop()
        if m in seen:
            continue
        seen.add(m)
        path = os.path.join(root, m + ".v")
        if not os.path.exists(path):
            continue
        txt = strip_coq_comments(open(path).read())
        for st in re.findall(r"(?:From\s+PP\s+)?Require\s+(?:Import\s+|Export\s+)?([^;]*?)\.(?=\s)", txt, flags=re.S):
            for tok in st.split():
                tok = tok.strip()
                if tok.startswith("PP."):
                    tok = tok[3:]
                if not re.match(r"^[A-Za-z_][\w.]*$", tok):
                    continue
                rel = tok.replace(".", os.sep)
                if os.path.exists(os.path.join(root, rel + ".v")):
                    todo.append(rel)
                    if rel.startswith("Gen" + os.sep + "Src_"):
                        comps.add(rel[len("Gen" + os.sep + "Src_"):])
    return comps


def coq_make(targets, timeout=1500):
    """make -k the given .vo targets (paths relative to coq/).  Returns (ok, log)."""
    with Lock("coq"):
        coq_project()
        env = dict(os.environ)
        rc, out = run(["make", "-k", "-j", NPROC] + list(targets), cwd=COQ, timeout=timeout, env=env)
        return rc == 0, out.decode("utf-8", "replace")


THEOREM_RE = re.compile(r"^\s*(Theorem|Example)\s+([A-Za-z0-9_']+)", re.M)


def check_properties_file(prop_id, timeout=900):
    """Compile Props/Properties_<id>.v from scratch with coqc (its dependencies
    must already be built) and report per-theorem status.

    The file is split at each 'Theorem'/'Example' so that one broken statement
    does not hide the others: we first try the whole file; if that fails we
    locate the failing theorem from coqc's error position.
    Returns dict: {theorems:[names], accepted:[names], failed:[(name, msg)],
                   assumptions:{name: text}, log}
    """
    rel = os.path.join("theories", "Props", "Properties_%s.v" % prop_id)
    path = os.path.join(COQ, rel)
    src = open(path).read()
    names = [(m.group(2), m.start(), m.group(1)) for m in THEOREM_RE.finditer(src)]
    theorems = [n for n, _, k in names if k == "Theorem"]
    res = {"theorems": theorems, "examples": [n for n, _, k in names if k == "Example"],
           "accepted": [], "failed": [], "assumptions": {}, "log": ""}
    forbidden = forbidden_scan()
    if forbidden:
        res["failed"] = [(t, "forbidden construct in development: " + "; ".join(forbidden[:5])) for t in theorems]
        res["log"] = "\n".join(forbidden)
        return res
    with Lock("coq"):
        coq_project()
        t0 = time.time()
        rc, out = run(["make", "-k", "-j", NPROC, rel + "o"], cwd=COQ, timeout=timeout)
        text = out.decode("utf-8", "replace")
        if rc == 0:
            # re-run coqc on the properties file alone to capture Print Assumptions
            rc2, out2 = run(["coqc", "-q", "-Q", "theories", "PP", rel], cwd=COQ, timeout=timeout)
            text2 = out2.decode("utf-8", "replace")
            res["log"] = text[-3000:] + text2
            if rc2 == 0:
                res["accepted"] = theorems + res["examples"]
                res["assumptions"] = parse_assumptions(text2, src)
                return res
            text = text2
        res["log"] = text[-8000:]
        # find which statement broke: error location "File ..Properties_X.v", line N
        m = re.search(r'Properties_%s\.v", line (\d+)' % prop_id, text)
        if m:
            line = int(m.group(1))
            off = sum(len(l) + 1 for l in src.split("\n")[:line - 1])
            broken = None
            for n, start, k in names:
                if start <= off:
                    broken = n
            # everything before the broken one was accepted in this run
            for n, start, k in names:
                if n == broken:
                    break
                res["accepted"].append(n)
            msg = text[m.start():m.start() + 600]
            res["failed"].append((broken or theorems[0], msg))
            # statements after the broken one are unknown -> counted as not discharged
            seen = False
            for n, start, k in names:
                if seen and k == "Theorem":
                    res["failed"].append((n, "not reached (earlier statement failed)"))
                if n == broken:
                    seen = True
        else:
            # a dependency failed to build
            dep = re.search(r'File "\./([^"]+)", line (\d+)[^\n]*\n(Error:[^\n]*(\n[^\n]+){0,6})', text)
            msg = ("dependency failed: " + dep.group(0)[:600]) if dep else ("build failed: " + text[-600:])
            res["failed"] = [(t, msg) for t in theorems]
    return res


def parse_assumptions(out, src):
    """Map each 'Print Assumptions X.' in source order to the block coqc printed."""
    wanted = re.findall(r"Print Assumptions\s+([A-Za-z0-9_'.]+)\s*\.", src)
    blocks = re.split(r"(?m)^(?=Closed under the global context|Axioms:)", out)
    blocks = [b.strip() for b in blocks if b.startswith("Closed under") or b.startswith("Axioms:")]
    res = {}
    for i, w in enumerate(wanted):
        res[w] = blocks[i] if i < len(blocks) else "?"
    return res


FORBIDDEN = re.compile(r"\b(Admitted|admit|Axiom|Axioms|Parameter|Parameters|Conjecture|Conjectures|Admit Obligations)\b|Unset\s+Guard|bypass_check|Unset\s+Positivity|Unset\s+Universe\s+Checking|type-in-type|impredicative-set")


def strip_coq_comments(s):
    out = []
    depth = 0
    i = 0
    while i < len(s):
        if s.startswith("(*", i):
            depth += 1
            i += 2
        elif s.startswith("*)", i) and depth > 0:
            depth -= 1
            i += 2
        else:
            if depth == 0:
                out.append(s[i])
            elif s[i] == "\n":
                out.append("\n")
            i += 1
    return "".join(out)


def forbidden_scan():
    bad = []
    for root, dirs, fs in os.walk(os.path.join(COQ, "theories")):
        for f in fs:
            if not f.endswith(".v"):
                continue
            p = os.path.join(root, f)
            txt = strip_coq_comments(open(p).read())
            for n, line in enumerate(txt.split("\n"), 1):
                if FORBIDDEN.search(line):
                    bad.append("%s:%d: %s" % (os.path.relpath(p, COQ), n, line.strip()[:80]))
    for f in ("_CoqProject",):
        p = os.path.join(COQ, f)
        if os.path.exists(p):
            for n, line in enumerate(open(p).read().split("\n"), 1):
                if re.search(r"type-in-type|impredicative-set|-vos|-vok", line):
                    bad.append("%s:%d: %s" % (f, n, line))
    return bad


# --------------------------------------------------------------------------
# 4. extraction

def build_driver(prop_id, timeout=900):
    """Extract/Extract_<id>.v writes OCaml into coq/extracted/<id>/; compile with
    ocaml/<id>_driver.ml into build/<id>_driver.  Returns (path|None, log)."""
    exdir = os.path.join(COQ, "extracted", prop_id)
    exe = os.path.join(VERIF, "build", prop_id + "_driver")
    with Lock("coq"):
        coq_project()
        os.makedirs(exdir, exist_ok=True)
        os.makedirs(os.path.dirname(exe), exist_ok=True)
        vrel = os.path.join("theories", "Extract", "Extract_%s.v" % prop_id)
        # build dependencies of the extraction file (defs only, no proofs)
        rc, out = run(["make", "-k", "-j", NPROC, vrel + "o"], cwd=COQ, timeout=timeout)
        log_text = out.decode("utf-8", "replace")
        if rc != 0:
            return None, log_text
        stamp = os.path.join(exdir, ".stamp")
        vo = os.path.join(COQ, vrel + "o")
        drv = os.path.join(VERIF, "ocaml", prop_id + "_driver.ml")
        need = (not os.path.exists(exe) or not os.path.exists(stamp)
                or os.path.getmtime(stamp) < os.path.getmtime(vo)
                or os.path.getmtime(exe) < os.path.getmtime(drv))
        if need:
            for f in os.listdir(exdir):
                if f.endswith((".ml", ".mli", ".cmi", ".cmx", ".o")):
                    os.unlink(os.path.join(exdir, f))
            # re-run coqc in exdir so that the .ml files land there
            rc, out = run(["coqc", "-q", "-Q", os.path.join(COQ, "theories"), "PP",
                           "-o", os.path.join(exdir, "Extract_%s.vo" % prop_id), os.path.join(COQ, vrel)], cwd=exdir, timeout=timeout)
            log_text += out.decode("utf-8", "replace")
            if rc != 0:
                return None, log_text
            mls = sorted(f for f in os.listdir(exdir) if f.endswith(".ml"))
            mlis = sorted(f for f in os.listdir(exdir) if f.endswith(".mli"))
            shutil.copy(drv, os.path.join(exdir, "driver_main.ml"))
            # one extracted module expected (Extraction "model.ml" ...)
            cmd = ["ocamlfind", "ocamlopt", "-O3", "-w", "-a", "-package", "str,unix", "-linkpkg"]
            cmd = [c for c in cmd if c != "-O3"]
            shutil.copy(os.path.join(VERIF, "ocaml", "common.ml"), os.path.join(exdir, "common.ml"))
            cmd += ["model.mli", "model.ml", "common.ml", "driver_main.ml", "-o", exe]
            rc, out = run(cmd, cwd=exdir, timeout=timeout)
            log_text += out.decode("utf-8", "replace")
            if rc != 0:
                return None, log_text
            open(stamp, "w").write("ok")
    return exe, log_text


# --------------------------------------------------------------------------
# known findings

def load_known():
    import glob
    out = []
    for p in [os.path.join(VERIF, "known_findings.json")] + sorted(glob.glob(os.path.join(VERIF, "known_findings.d", "*.json"))):
        if os.path.exists(p):
            out += json.load(open(p)).get("findings", [])
    return out


# --------------------------------------------------------------------------
# check context: evidence, violations

class Check:
    def __init__(self, prop_id, argv=None):
        import argparse
        ap = argparse.ArgumentParser()
        ap.add_argument("--tier", default=os.environ.get("VERIF_TIER", "quick"))
        ap.add_argument("--replay", default=None)
        a = ap.parse_args(argv)
        self.prop = prop_id
        self.tier = a.tier if a.tier in ("quick", "thorough") else "quick"
        self.replay = a.replay
        try:
            self.seed = int(os.environ.get("VERIF_SEED", "1"))
        except ValueError:
            self.seed = 1
        self.rng = random.Random(self.seed)
        self.t0 = time.time()
        self.violations = []       # (what, replay_obj, found_input: bool)
        self.known_hits = []
        self.cov = {"evaluations": 0, "distinct_nontrivial": 0, "samples": [], "rule": "",
                    "obligations": 0, "discharged": 0, "checker_cmd": "", "trusted_base": [],
                    "traces_validated_against_impl": 0, "distribution": {}}
        self.assumptions = []
        self.known = [k for k in load_known() if k.get("property") == prop_id and k.get("status") == "open"]
        self.broken = []           # names of theorems / correspondences that no longer check
        self._distinct = set()
        ev = os.path.join(VERIF, "evidence", prop_id + ".json")
        if os.path.exists(ev):
            os.unlink(ev)

    # ---- coverage bookkeeping
    def count(self, case_key, nontrivial=True, bucket=None):
        self.cov["evaluations"] += 1
        if nontrivial:
            h = hashlib.sha1(repr(case_key).encode()).digest()[:8]
            self._distinct.add(h)
        if bucket is not None:
            d = self.cov["distribution"]
            d[bucket] = d.get(bucket, 0) + 1

    def sample(self, obj, limit=6):
        if len(self.cov["samples"]) < limit:
            self.cov["samples"].append(obj)

    # ---- proof side
    def proofs(self, extra_trusted=(), only=None):
        """Regenerate Gen/, compile the property file, record obligations.
        Translator failures count for this property only when the failing component is one its
        theories (transitively) import, or is listed in `only`."""
        mine = gen_components_of(self.prop) | set(only or [])
        errs = gen_sources()
        gen_broken = {k: v for k, v in errs.items() if v and k in mine}
        self.cov["translators_in_tie"] = sorted(mine)
        res = check_properties_file(self.prop)
        self.cov["obligations"] = len(res["theorems"])
        self.cov["discharged"] = len([t for t in res["theorems"] if t in res["accepted"]])
        self.cov["checker_cmd"] = "make -C /verif/coq theories/Props/Properties_%s.vo && coqc -Q theories PP theories/Props/Properties_%s.v (Coq 8.16.1 kernel; vm_compute used, no native_compute)" % (self.prop, self.prop)
        self.cov["theorems"] = res["theorems"]
        self.cov["examples_nonvacuity"] = res["examples"]
        self.cov["print_assumptions"] = res["assumptions"]
        tb = ["Coq 8.16.1 kernel (coqc) incl. vm_compute; no native_compute",
              "tools/gen_src.py (translator source text -> Gen/Src_*.v), itself cross-checked by the harness dumps",
              "extraction: ExtrOcamlBasic only (its Extract Inductive bool/option/unit/list/prod/sumbool/sumor/comparison... mappings); no Extract Constant; N/Z/positive stay Coq datatypes",
              "OCaml 4.13.1 compiler; ocaml/%s_driver.ml; g++ 12.2 + harness/hx_*.cc; tools/checklib.py" % self.prop]
        tb += list(extra_trusted)
        for name, blk in res["assumptions"].items():
            tb.append("Print Assumptions %s: %s" % (name, " ".join(blk.split())[:400]))
        self.cov["trusted_base"] = tb
        for comp, e in gen_broken.items():
            self.broken.append("translator(%s): %s" % (comp, e))
        for name, msg in res["failed"]:
            self.broken.append("theorem %s: %s" % (name, " ".join(msg.split())[:500]))
        self.proof_result = res
        return res

    # ---- violations
    def violation(self, what, replay_obj, found_input=True):
        """Record a violation unless it matches an open known finding."""
        for k in self.known:
            try:
                if self.match_known(k, what, replay_obj):
                    if k["id"] not in [h["id"] for h in self.known_hits]:
                        self.known_hits.append(k)
                    return False
            except Exception:
                pass
        self.violations.append((what, replay_obj, found_input))
        return True

    def match_known(self, k, what, replay_obj):
        """Default matcher: a known finding lists 'match' = dict of key -> regex that
        must match str(replay_obj[key]) (all of them).  Checks may override."""
        m = k.get("match")
        if not m:
            return False
        for key, rx in m.items():
            v = replay_obj.get(key) if isinstance(replay_obj, dict) else None
            if key == "what":
                v = what
            if v is None or not re.search(rx, v if isinstance(v, str) else json.dumps(v)):
                return False
        return True

    def finish(self, level="proof", rule="", assumptions=()):
        self.cov["distinct_nontrivial"] = len(self._distinct)
        self.cov["rule"] = rule
        wall = time.time() - self.t0
        exit_code = 0
        lines = []
        for k in self.known_hits:
            lines.append("KNOWN-FINDING: property=%s %s" % (self.prop, k["what"]))
        # violations with concrete inputs first
        os.makedirs(os.path.join(VERIF, "replays"), exist_ok=True)
        reported = 0
        if self.violations:
            # report at most 5 distinct ones; all are in the replay files
            seen = set()
            for what, obj, found in self.violations:
                key = what.split(":")[0]
                if key in seen:
                    continue
                seen.add(key)
                body = {"property": self.prop, "what": what, "replay": obj, "found_failing_input": found,
                        "repo": repo_state(), "seed": self.seed, "tier": self.tier,
                        "broken_obligations": self.broken}
                h = hashlib.sha1(json.dumps(body, sort_keys=True, default=str).encode()).hexdigest()[:10]
                path = os.path.join(VERIF, "replays", "%s-%s.json" % (self.prop, h))
                json.dump(body, open(path, "w"), indent=1, default=str)
                lines.append("VIOLATION property=%s replay=%s%s" % (self.prop, path, "" if found else " no-failing-input-found"))
                log("  violation: " + what[:300])
                reported += 1
                if reported >= 5:
                    break
            exit_code = 1
        if self.broken and not any(f for _, _, f in self.violations):
            if not self.violations:
                body = {"property": self.prop, "what": "proof obligation / correspondence no longer checks",
                        "broken_obligations": self.broken, "found_failing_input": False,
                        "repo": repo_state(), "seed": self.seed, "tier": self.tier}
                h = hashlib.sha1(json.dumps(body, sort_keys=True, default=str).encode()).hexdigest()[:10]
                path = os.path.join(VERIF, "replays", "%s-%s.json" % (self.prop, h))
                json.dump(body, open(path, "w"), indent=1, default=str)
                lines.append("VIOLATION property=%s replay=%s no-failing-input-found" % (self.prop, path))
                for b in self.broken:
                    log("  broken: " + b[:400])
            exit_code = 1
        elif self.broken:
            for b in self.broken:
                log("  broken: " + b[:400])
            exit_code = 1
        ev = {"property_id": self.prop, "tier": self.tier, "seed": self.seed, "level": level,
              "coverage": self.cov, "assumptions": list(assumptions) + self.assumptions,
              "wall_s": round(wall, 2), "violations": len(self.violations) + (1 if self.broken and not self.violations else 0),
              "known_findings_reproduced": [k["id"] for k in self.known_hits],
              "repo": repo_state()}
        if not self.cov["samples"]:
            self.cov["samples"] = ["(no case generated)"]
        os.makedirs(os.path.join(VERIF, "evidence"), exist_ok=True)
        json.dump(ev, open(os.path.join(VERIF, "evidence", self.prop + ".json"), "w"), indent=1, default=str)
        for l in lines:
            print(l)
        print("%s %s: %s in %.1fs (obligations %d/%d, %d cases, %d distinct)" % (
            self.prop, self.tier, "FAIL" if exit_code else "ok", wall, self.cov["discharged"], self.cov["obligations"],
            self.cov["evaluations"], self.cov["distinct_nontrivial"]))
        sys.stdout.flush()
        return exit_code


def hexs(b):
    return bytes(b).hex()


def run_lines(exe, lines, timeout=600, env=None, args=()):
    """Feed protocol lines to a driver/harness; returns list of output lines."""
    data = ("\n".join(lines) + "\n").encode()
    p = subprocess.run([exe] + list(args), input=data, stdout=subprocess.PIPE, stderr=subprocess.PIPE, timeout=timeout, env=env)
    out = p.stdout.decode("utf-8", "replace").split("\n")
    if out and out[-1] == "":
        out.pop()
    return p.returncode, out, p.stderr.decode("utf-8", "replace")


def run_tool(argv, stdin=b"", timeout=60, env=None, cwd=None):
    """Run a real binary; returns (status, stdout, stderr) with status canonicalised:
    exit code >= 0, or -signal, or 'timeout'."""
    try:
        p = subprocess.run(argv, input=stdin, stdout=subprocess.PIPE, stderr=subprocess.PIPE, timeout=timeout, env=env, cwd=cwd)
        return p.returncode, p.stdout, p.stderr
    except subprocess.TimeoutExpired as e:
        return "timeout", e.stdout or b"", e.stderr or b""


def correspond(check, name, model_exe, impl_exe, lines, describe=None, bucket=None, chunk=20000):
    """Run the same protocol lines through the extracted model and the
    implementation harness; every differing line is a broken correspondence.
    Returns list of (line, model_out, impl_out) disagreements."""
    dis = []
    for i in range(0, len(lines), chunk):
        part = lines[i:i + chunk]
        rc1, o1, e1 = run_lines(model_exe, part)
        rc2, o2, e2 = run_lines(impl_exe, part)
        if len(o1) != len(part) or len(o2) != len(part):
            check.broken.append("correspondence %s: driver/harness produced %d/%d lines for %d cases (rc %s/%s) %s %s" % (
                name, len(o1), len(o2), len(part), rc1, rc2, e1[-300:], e2[-300:]))
            return dis
        for l, a, b in zip(part, o1, o2):
            if a != b:
                dis.append((l, a, b))
    check.cov["traces_validated_against_impl"] += len(lines)
    if dis:
        l, a, b = min(dis, key=lambda d: len(d[0]))
        check.broken.append("correspondence %s: %d disagreement(s); smallest: case %r model=%r impl=%r" % (name, len(dis), l[:200], a[:200], b[:200]))
    return dis


def asan_lines(check, harness, lines, what="", timeout=3000):
    """(added for C10/C12/C14) Run protocol lines through the ASan+UBSan build of a harness.  A sanitizer report or a
    crash is a violation whose replay is the case being processed when it happened.  Returns True when clean."""
    ok, blog = build_repo([harness], flavour="asan")
    if not ok:
        check.broken.append("asan build of %s failed: %s" % (harness, blog[-400:]))
        return False
    env = dict(os.environ, ASAN_OPTIONS="detect_leaks=0:allocator_may_return_null=1", UBSAN_OPTIONS="print_stacktrace=1:halt_on_error=1")
    rc, out, err = run_lines(hx_bin(harness, "asan"), lines, timeout=timeout, env=env)
    if rc != 0 or "AddressSanitizer" in err or "runtime error" in err:
        idx = min(len(out), len(lines) - 1)
        m = re.search(r"(ERROR: AddressSanitizer: [^\n]*|[^\n]*runtime error: [^\n]*)", err)
        check.violation("memory: sanitizer report in %s %s while processing case %s: %s" % (harness, what, lines[idx][:200], m.group(1)[:300] if m else "status %s" % rc),
                        {"op": "asan", "harness": harness, "case": lines[idx], "report": err[-1500:]})
        return False
    check.cov["traces_validated_against_impl"] += len(lines)
    check.cov["distribution"]["asan/" + harness] = check.cov["distribution"].get("asan/" + harness, 0) + len(lines)
    return True


def run_lines_resilient(exe, lines, timeout=900, env=None, max_deaths=5):
    """Like run_lines, but when the harness dies or hangs in the middle it is restarted after
    the case that killed it.  Returns (outputs, deaths): outputs[i] is None for a case that
    killed the harness (or was not reached after max_deaths); deaths = [(index, rc, stderr tail)]."""
    outs = [None] * len(lines)
    deaths = []
    start = 0
    while start < len(lines) and len(deaths) <= max_deaths:
        try:
            rc, o, err = run_lines(exe, lines[start:], timeout=timeout, env=env)
        except subprocess.TimeoutExpired as e:
            o = (e.stdout or b"").decode("utf-8", "replace").split("\n")
            if o and o[-1] == "":
                o.pop()
            elif o:
                o.pop()          # incomplete last line
            rc, err = "timeout", ""
        n = min(len(o), len(lines) - start)
        outs[start:start + n] = o[:n]
        if start + n >= len(lines):
            break
        deaths.append((start + n, rc, err[-300:]))
        start = start + n + 1
    return outs, deaths


def coqchk(check, modules=None, timeout=1800):
    """thorough tier: re-check the compiled closure of the property files with the stand-alone
    checker coqchk; anything other than 'Axioms: <none>' etc. is recorded as broken.
    modules defaults to PP.Props.Properties_<id>."""
    if not isinstance(modules, (list, tuple)):
        if isinstance(modules, (int, float)):
            timeout = modules
        modules = ["PP.Props.Properties_%s" % check.prop]
    with Lock("coq"):
        rc, out = run(["coqchk", "-silent", "-o", "-Q", "theories", "PP"] + list(modules), cwd=COQ, timeout=timeout)
    text = out.decode("utf-8", "replace")
    ok = rc == 0 and "Axioms: <none>" in text and "type-in-type: <none>" in text and "unsafe (co)fixpoints: <none>" in text
    check.cov["coqchk"] = "ok: " + " ".join(text.split())[-300:] if ok else "FAILED: " + text[-600:]
    check.cov["trusted_base"].append("coqchk -o over " + " ".join(modules) + (": Axioms <none>" if ok else ": FAILED"))
    if not ok:
        check.broken.append("coqchk failed on %s: %s" % (" ".join(modules), text[-400:]))
    return ok


def run_lines_robust(exe, lines, timeout=120, env=None, args=(), per_line_timeout=10, max_failures=4):
    """Like run_lines, but a harness that hangs or dies in the middle does not lose the
    other cases: returns a list with one entry per input line; the entry of a line the
    harness hung on is 'TIMEOUT', of one it died on 'CRASH:<status>'.  After max_failures such
    lines the remaining ones are not run ('SKIPPED').  (The harness must flush after every line.)"""
    out_all = []
    rest = list(lines)
    first = True
    failures = 0
    while rest:
        if failures >= max_failures:
            out_all += ["SKIPPED"] * len(rest)
            break
        data = ("\n".join(rest) + "\n").encode()
        t = timeout if first else max(per_line_timeout, timeout // 4)
        try:
            p = subprocess.run([exe] + list(args), input=data, stdout=subprocess.PIPE, stderr=subprocess.PIPE, timeout=t, env=env)
            raw, status = p.stdout, p.returncode
            timed_out = False
        except subprocess.TimeoutExpired as e:
            raw, status, timed_out = e.stdout or b"", None, True
        out = raw.decode("utf-8", "replace").split("\n")
        complete = out[:-1]            # the last element is '' or a partial line
        complete = complete[:len(rest)]
        out_all += complete
        if len(complete) == len(rest):
            break
        # the line after the last complete one is the culprit
        if timed_out:
            # distinguish "slow batch" from "hang on this line": retry the culprit alone
            try:
                p = subprocess.run([exe] + list(args), input=(rest[len(complete)] + "\n").encode(), stdout=subprocess.PIPE,
                                   stderr=subprocess.PIPE, timeout=per_line_timeout, env=env)
                o = p.stdout.decode("utf-8", "replace").split("\n")
                out_all.append(o[0] if len(o) > 1 else "CRASH:%s" % p.returncode)
            except subprocess.TimeoutExpired:
                out_all.append("TIMEOUT")
        else:
            out_all.append("CRASH:%s" % status)
        if timed_out or out_all[-1] == "TIMEOUT" or out_all[-1].startswith("CRASH"):
            failures += 1          # a batch that hung counts even when its culprit line alone does not hang (state-dependent hangs)
        rest = rest[len(complete) + 1:]
        first = False
    return out_all


# --------------------------------------------------------------------------
# resource-limited runs of real code (added for C07/C08/C19: a broken loop in the
# code under test must become a violation with its input, not a hung or
# memory-eating check)

def _limits(mem_mb):
    def f():
        import resource
        os.setsid()
        if mem_mb:
            b = mem_mb * 1024 * 1024
            resource.setrlimit(resource.RLIMIT_AS, (b, b))
    return f


def run_limited(argv, stdin=b"", timeout=20, mem_mb=2048, env=None):
    """Like run_tool, but in its own process group (killed as a whole on timeout) and
    with an address-space limit.  Returns (status, stdout, stderr); status 'timeout'."""
    import signal
    p = subprocess.Popen(argv, stdin=subprocess.PIPE, stdout=subprocess.PIPE, stderr=subprocess.PIPE,
                         env=env, preexec_fn=_limits(mem_mb))
    try:
        out, err = p.communicate(stdin, timeout=timeout)
        return p.returncode, out, err
    except subprocess.TimeoutExpired:
        try:
            os.killpg(p.pid, signal.SIGKILL)
        except Exception:
            p.kill()
        out, err = p.communicate()
        return "timeout", out or b"", err or b""
    finally:
        try:
            os.killpg(p.pid, signal.SIGKILL)     # stray children of the tool (scripted child programs)
        except Exception:
            pass


def run_lines_limited(exe, lines, timeout=120, mem_mb=2048):
    """run_lines with limits.  Returns (status, out_lines, stderr_text)."""
    st, out, err = run_limited([exe], ("\n".join(lines) + "\n").encode(), timeout=timeout, mem_mb=mem_mb)
    o = out.decode("utf-8", "replace").split("\n")
    if o and o[-1] == "":
        o.pop()
    return st, o, err.decode("utf-8", "replace")


def find_culprit(exe, lines, timeout=5, mem_mb=2048):
    """The harness did not answer all lines: find the first line it does not survive
    (answers come one per line, so the number of answers locates it)."""
    lo = 0
    for _ in range(8):
        st, o, err = run_lines_limited(exe, lines[lo:], timeout=timeout if lo else 60, mem_mb=mem_mb)
        if len(o) >= len(lines) - lo:
            return None
        bad = lo + len(o)
        st1, o1, e1 = run_lines_limited(exe, [lines[bad]], timeout=timeout, mem_mb=mem_mb)
        if len(o1) < 1:
            return bad, st1, e1[-300:]
        lo = bad + 1
    return None


def run_staged(argv, parts, pause=1.0, timeout=60, mem_mb=2048, env=None):
    """Run a tool whose stdin arrives in several parts with a pause between them (a slow
    producer): the tool's threads then catch up with each other at the part boundaries.
    stdout/stderr go to temporary files so nothing can block.  Returns (status, stdout, stderr)."""
    import signal
    import tempfile
    with tempfile.TemporaryFile() as fo, tempfile.TemporaryFile() as fe:
        p = subprocess.Popen(argv, stdin=subprocess.PIPE, stdout=fo, stderr=fe, env=env, preexec_fn=_limits(mem_mb))
        status = None
        t_end = time.time() + timeout
        try:
            try:
                for i, part in enumerate(parts):
                    if i:
                        time.sleep(pause)
                    p.stdin.write(part)
                    p.stdin.flush()
                p.stdin.close()
            except (BrokenPipeError, OSError):
                pass                      # the tool died: its status tells
            try:
                status = p.wait(timeout=max(1, t_end - time.time()))
            except subprocess.TimeoutExpired:
                status = "timeout"
        finally:
            try:
                os.killpg(p.pid, signal.SIGKILL)
            except Exception:
                pass
            if status == "timeout":
                p.wait()
        fo.seek(0)
        fe.seek(0)
        return status, fo.read(), fe.read()


# --------------------------------------------------------------------------
# (added for C01/C18) independent MurmurHash64A reference and partial collisions: pairs of distinct lines
# whose 64-bit hashes differ but agree in the low (or high) 32 bits -- a tool that silently truncates the
# hash merges them; only full 64-bit collisions are excused by the properties.

def murmur64a_py(data, seed):
    M64 = (1 << 64) - 1
    m = 0xc6a4a7935bd1e995
    n = len(data)
    h = (seed ^ (n * m)) & M64
    nb = n // 8
    for i in range(nb):
        k = int.from_bytes(data[8 * i:8 * i + 8], "little")
        k = (k * m) & M64
        k ^= k >> 47
        k = (k * m) & M64
        h ^= k
        h = (h * m) & M64
    t = data[8 * nb:]
    if t:
        h ^= int.from_bytes(t, "little")
        h = (h * m) & M64
    h ^= h >> 47
    h = (h * m) & M64
    h ^= h >> 47
    return h


def murmur_partial_collisions(count=250000, seed=1, prefix=b"ref line ", want=3):
    """{'low32': [(a, b), ...], 'high32': [...]} among the lines prefix + decimal index"""
    out = {"low32": [], "high32": []}
    lo, hi = {}, {}
    for i in range(count):
        l = prefix + b"%d" % i
        h = murmur64a_py(l, seed)
        for name, tab, k in (("low32", lo, h & 0xffffffff), ("high32", hi, h >> 32)):
            if k in tab and tab[k][1] != h:
                if len(out[name]) < want:
                    out[name].append((tab[k][0], l))
            else:
                tab[k] = (l, h)
        if len(out["low32"]) >= want and len(out["high32"]) >= want:
            break
    return out
