(* C15 driver: runs the extracted driver model of util/compress.cc with the
   abstract codec instantiated by the codec-call log recorded from the real
   run (libvcodec.so): the model must issue exactly the logged calls (same
   function, flag, avail_in, avail_out, in the same order); the logged results
   are fed back.  Any deviation prints MISMATCH.

   R <streamhex|-> <frags|-> <amounts> <log>
   W <none|gzip|bzip2> <ops|-> <log>
   Z <level> <hex|-> <log>
   log = instance|instance|...   instance = fn:entry;entry;...   (or "-")
   entry = flag,avail_in,avail_out,avail_in',avail_out',rc,outhex|-            *)
open Model
open Common

type entry = { flag : int; ain : int; aout : int; ain2 : int; aout2 : int; rc : int; outb : z list }
type inst = { fn : string; entries : entry list }

let mismatch : string option ref = ref None
let note s = match !mismatch with None -> mismatch := Some s | Some _ -> ()

let parse_entry (s : string) : entry =
  match String.split_on_char ',' s with
  | [f; a; b; c; d; r; o] ->
    { flag = int_of_string f; ain = int_of_string a; aout = int_of_string b; ain2 = int_of_string c;
      aout2 = int_of_string d; rc = int_of_string r; outb = (if o = "-" then [] else zlist_of_hex o) }
  | _ -> failwith ("bad log entry " ^ s)

let parse_log (s : string) : inst list =
  if s = "-" || s = "" then []
  else
    List.map (fun i ->
        match String.index_opt i ':' with
        | None -> { fn = i; entries = [] }
        | Some p ->
          let fn = String.sub i 0 p in
          let rest = String.sub i (p + 1) (String.length i - p - 1) in
          { fn; entries = (if rest = "" then [] else List.map parse_entry (String.split_on_char ';' rest)) })
      (String.split_on_char '|' s)

let sizes_of (s : string) : int list =
  if s = "-" then [] else List.map int_of_string (List.filter (fun x -> x <> "") (String.split_on_char ',' s))

let rec split_frags (bs : z list) (fr : int list) : z list list =
  match bs, fr with
  | [], _ -> []
  | _, [] -> [bs]
  | _, n :: r ->
    if n = 0 then split_frags bs r
    else
      let rec take k l acc = if k = 0 then (List.rev acc, l) else match l with [] -> (List.rev acc, []) | x :: t -> take (k - 1) t (x :: acc) in
      let (a, b) = take n bs [] in
      a :: split_frags b r

let kind_name = function KGz -> "gz" | KBz -> "bz" | KXz -> "xz"
let init_fn_ok k fn = match k with
  | KGz -> fn = "inflateInit2" | KBz -> fn = "bzDecompressInit" | KXz -> fn = "lzma_stream_decoder"
let call_fn k = match k with KGz -> "inflate" | KBz -> "bzDecompress" | KXz -> "lzma_code"

(* the codec as a log replayer: state = remaining entries of this instance *)
let bad_rc = z_of_int 424242
let replay_call (what : string) (st : entry list) (action : z) (inp : z list) (cap : n) : entry list cres =
  match st with
  | [] ->
    note (Printf.sprintf "model issues %s(flag %d, avail_in %d, avail_out %d) but the log of this codec instance is exhausted"
            what (int_of_z action) (List.length inp) (int_of_n cap));
    { c_st = []; c_used = N0; c_out = []; c_rc = bad_rc }
  | e :: rest ->
    if e.flag <> int_of_z action || e.ain <> List.length inp || e.aout <> int_of_n cap then begin
      note (Printf.sprintf "model issues %s(flag %d, avail_in %d, avail_out %d) but the implementation called (flag %d, avail_in %d, avail_out %d)"
              what (int_of_z action) (List.length inp) (int_of_n cap) e.flag e.ain e.aout);
      { c_st = []; c_used = N0; c_out = []; c_rc = bad_rc }
    end else
      { c_st = rest; c_used = n_of_int (e.ain - e.ain2); c_out = e.outb; c_rc = z_of_int e.rc }

let dnew (w : inst list) (k : kind) : entry list * inst list =
  match w with
  | [] -> note ("model creates a " ^ kind_name k ^ " decoder but the implementation did not"); ([], [])
  | i :: r ->
    if not (init_fn_ok k i.fn) then note ("model creates a " ^ kind_name k ^ " decoder, implementation called " ^ i.fn);
    (i.entries, r)

let dcall (k : kind) st action inp cap = replay_call (call_fn k) st action inp cap

let big = nat_of_int 200000

let sizes_str (l : n list) = if l = [] then "-" else String.concat "," (List.map (fun x -> string_of_int (int_of_n x)) l)
let hex_or_dash l = if l = [] then "-" else hex_of_zlist l
let err_name = function EGz -> "GZ" | EBz -> "BZ" | EXz -> "XZ" | ECompressed -> "CE" | EHang -> "HANG"

let leftover_check (what : string) (used_all : bool) =
  if not used_all then note ("the implementation made more " ^ what ^ " calls than the model")

let () =
  iter_lines (fun line ->
      mismatch := None;
      let res =
        try
          match split_ws line with
          | "R" :: stream :: fr :: amounts :: rest ->
            let log = parse_log (match rest with [l] -> l | _ -> "-") in
            let bs = if stream = "-" then [] else zlist_of_hex stream in
            let f = split_frags bs (sizes_of fr) in
            let am = Array.of_list (List.map n_of_int (sizes_of amounts)) in
            let am = if Array.length am = 0 then [| n_of_int 4096 |] else am in
            let amt (i : nat) = let j = int_of_nat i in if j < Array.length am then am.(j) else am.(Array.length am - 1) in
            (* count the decoder calls the model consumes: compare with the log length *)
            let total = List.fold_left (fun a i -> a + List.length i.entries) 0 log in
            let used = ref 0 in
            let dcall' k st action inp cap = incr used; dcall k st action inp cap in
            let r = read_file dnew dcall' big big f log amt in
            if !used <> total then note (Printf.sprintf "model made %d decoder calls, the implementation %d" !used total);
            (match r with
             | AOk (d, z) -> "OK " ^ hex_or_dash d ^ " " ^ sizes_str z
             | AErr (EHang, _, _) -> "HANG"
             | AErr (e, d, z) -> "ERR " ^ err_name e ^ " " ^ hex_or_dash d ^ " " ^ sizes_str z)
          | "W" :: comp :: ops :: rest ->
            let log = parse_log (match rest with [l] -> l | _ -> "-") in
            let ops = if ops = "-" then [] else
                List.map (fun o ->
                    if o = "f" then OpFlush
                    else OpWrite (zlist_of_hex (String.sub o 1 (String.length o - 1))))
                  (String.split_on_char ',' ops) in
            if comp = "none" then "OK " ^ hex_or_dash (write_plain ops)
            else begin
              let k = if comp = "gzip" then KGz else KBz in
              let entries = List.concat (List.map (fun i -> i.entries) log) in
              let total = List.length entries in
              let used = ref 0 in
              let enew w _ = (entries, w) in
              let ereset _ st = st in
              let ecall k st action inp cap = incr used; replay_call (if k = KGz then "deflate" else "bzCompress") st action inp cap in
              let r = write_session enew ereset ecall big k () ops in
              if !used <> total then note (Printf.sprintf "model made %d encoder calls, the implementation %d" !used total);
              match r with
              | FileOk b -> "OK " ^ hex_or_dash b
              | FileErr true -> "HANG"
              | FileErr false -> "ERR " ^ (if k = KGz then "GZ" else "BZ")
            end
          | "Z" :: _level :: data :: rest ->
            let log = parse_log (match rest with [l] -> l | _ -> "-") in
            let entries = List.concat (List.map (fun i -> i.entries) log) in
            let total = List.length entries in
            let used = ref 0 in
            let enew w _ = (entries, w) in
            let ecall _ st action inp cap = incr used; replay_call "deflate" st action inp cap in
            let r = gz_compress enew ecall big () (if data = "-" then [] else zlist_of_hex data) in
            if !used <> total then note (Printf.sprintf "model made %d encoder calls, the implementation %d" !used total);
            (match r with
             | FileOk b -> "OK " ^ hex_or_dash b
             | FileErr true -> "HANG"
             | FileErr false -> "ERR GZ")
          | ["K"] -> "K " ^ string_of_int (int_of_n kMagicSize)
          | _ -> "?"
        with Failure m -> "DRIVER-ERROR " ^ m in
      match !mismatch with
      | Some m -> print_endline ("MISMATCH " ^ m)
      | None -> print_endline res)
