(* C03 driver: same line protocol as harness/hx_sysio.cc (see there). *)
open Model
open Common

let parse_script (s : string) : outcome list =
  if s = "-" then [] else
    List.map (fun t ->
        match t.[0] with
        | 'F' -> Full
        | 'E' -> Eintr
        | 'S' -> Short (nat_of_int (int_of_string (String.sub t 1 (String.length t - 1))))
        | 'X' -> Err (z_of_int (int_of_string (String.sub t 1 (String.length t - 1))))
        | _ -> failwith "bad script") (String.split_on_char ',' s)

let unhex s = if s = "-" then [] else zlist_of_hex s
let hex l = match l with [] -> "-" | _ -> hex_of_zlist l
let nat s = nat_of_int (int_of_string s)

let err_name = function
  | EFuel -> "fuel" | EErrno _ -> "errno" | EEndOfFile -> "eof" | EWriteZero -> "errno" | ECompressed -> "compressed"

let show_trace (t : (nat * z) list) : string =
  String.concat "," (List.rev_map (fun (n, r) -> Printf.sprintf "%d:%d" (int_of_nat n) (int_of_z r)) t)

let data n salt = List.init n (fun i -> z_of_int ((i * 7 + salt * 13 + (i lsr 8)) mod 251))

let out r o sink =
  (match r with Ok l -> "OK " ^ hex l | Fail e -> "FAIL " ^ err_name e)
  ^ " trace=" ^ show_trace (os_trace o) ^ " sink=" ^ (if sink then hex (os_sink o) else "-")

let () =
  iter_lines (fun line ->
      try
        match split_ws line with
        | ["PR"; a; src; sc] -> let (r, o) = partial_read (nat a) (os_init (unhex src) (parse_script sc)) in print_endline (out r o false)
        | ["RE"; a; src; sc] -> let (r, o) = read_or_eof (nat a) (os_init (unhex src) (parse_script sc)) in print_endline (out r o false)
        | ["RT"; a; src; sc] -> let (r, o) = read_or_throw (nat a) (os_init (unhex src) (parse_script sc)) in print_endline (out r o false)
        | ["RC"; a; src; sc] -> let (r, o) = rc_open_read_or_eof (nat a) (os_init (unhex src) (parse_script sc)) in print_endline (out r o false)
        | ["WT"; d; sc] ->
          let (r, o) = write_or_throw (unhex d) (os_init [] (parse_script sc)) in
          print_endline (out (match r with Ok _ -> Ok [] | Fail e -> Fail e) o true)
        | ["EP"; size; off; file; sc] ->
          let (r, o) = ersatz_pread (nat size) (nat off) (unhex file) (os_init [] (parse_script sc)) in print_endline (out r o false)
        | ["EW"; d; off; file; sc] ->
          let (r, o) = ersatz_pwrite (unhex d) (nat off) (unhex file) (os_init [] (parse_script sc)) in print_endline (out r o false)
        | ["BS"; lens; sc] ->
          let ls = if lens = "-" then [] else List.map int_of_string (String.split_on_char ',' lens) in
          let ws = List.mapi (fun i n -> data n i) ls in
          let (r, o) = bs_run ws { bs_buf = []; bs_cap = N.to_nat bs_buffer_size } (os_init [] (parse_script sc)) in
          print_endline (out (match r with Ok _ -> Ok [] | Fail e -> Fail e) o true)
        | ["TB"; lens; sc] ->
          let ls = if lens = "-" then [] else List.map int_of_string (String.split_on_char ',' lens) in
          let ws = List.mapi (fun i n -> data n i) ls in
          let (r, o) = tbs_run ws (N.to_nat tbs_block_size) (os_init [] (parse_script sc)) in
          print_endline (out (match r with Ok _ -> Ok [] | Fail e -> Fail e) o true)
        | _ -> print_endline "?"
      with Failure m -> print_endline ("? " ^ m))
