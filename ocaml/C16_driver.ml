(* C16 driver: same scenario lines and same output as harness/hx_queues.cc, but
   produced by the transition systems extracted from Coq (Queues/*Defs.v). *)
open Model
open Common

type 's ops = {
  step : 's -> int -> 's option;
  tag : 's -> int -> string;
  fin : 's -> int -> bool;
  started : 's -> int -> bool;
  nth : int;
  result : 's -> string;
}

exception Stop

let kv_of_line line =
  List.filter_map (fun tok ->
      match String.index_opt tok '=' with
      | Some i -> Some (String.sub tok 0 i, String.sub tok (i + 1) (String.length tok - i - 1))
      | None -> None) (split_ws line)

let get kv k d = try List.assoc k kv with Not_found -> d
let geti kv k d = try int_of_string (List.assoc k kv) with Not_found -> d
let getl kv k =
  match get kv k "" with
  | "" -> []
  | s -> List.map int_of_string (String.split_on_char ',' s)

let skippable fine tag =
  (not fine) && (match tag.[0] with 'y' | 'L' | 'U' -> true | _ -> false)

(* run thread t through the scheduling points the harness does not stop at *)
let rec settle ops fine s t =
  if ops.started s t && (not (ops.fin s t)) && skippable fine (ops.tag s t) then
    match ops.step s t with
    | Some s' -> settle ops fine s' t
    | None -> s
  else s

let macro ops fine s t =
  match ops.step s t with
  | None -> None
  | Some s' -> Some (settle ops fine s' t)

let enabled_mask ops s =
  let m = ref 0 in
  for t = 0 to ops.nth - 1 do
    if ops.started s t && not (ops.fin s t) && ops.step s t <> None then m := !m lor (1 lsl t)
  done;
  !m

let all_done ops s =
  let r = ref true in
  for t = 0 to ops.nth - 1 do
    if ops.started s t && not (ops.fin s t) then r := false
  done;
  !r

let deadlock_text ops s =
  let b = Buffer.create 32 in
  Buffer.add_string b "DEADLOCK";
  for t = 0 to ops.nth - 1 do
    if ops.started s t && not (ops.fin s t) then Buffer.add_string b (Printf.sprintf " t%d@%s" t (ops.tag s t))
  done;
  Buffer.contents b

let fnv_string ?(h = 0xcbf29ce484222325L) (s : string) : int64 =
  let h = ref h in
  String.iter (fun c ->
      h := Int64.logxor !h (Int64.of_int (Char.code c));
      h := Int64.mul !h 1099511628211L) s;
  !h

let print_exec sched_rev trace_rev result =
  let sched = String.concat "" (List.rev sched_rev) in
  let trace = String.concat " " (List.rev trace_rev) in
  print_string "x "; print_string sched; print_string " | "; print_string trace; print_string " | ";
  print_endline result

let enumerate ops fine limit s0 =
  let count = ref 0 in
  let dead = ref false in
  let rec dfs s sched trace =
    if all_done ops s then begin
      incr count;
      print_exec sched trace (ops.result s);
      if !count >= limit then raise Stop
    end else begin
      let m = enabled_mask ops s in
      if m = 0 then begin
        incr count; dead := true;
        print_exec sched trace (deadlock_text ops s);
        raise Stop
      end;
      for t = 0 to ops.nth - 1 do
        if m land (1 lsl t) <> 0 then
          match macro ops fine s t with
          | Some s' -> dfs s' (string_of_int t :: sched) (Printf.sprintf "%d%s/%x" t (ops.tag s t) m :: trace)
          | None -> ()
      done
    end in
  (try dfs s0 [] [] with Stop -> ());
  Printf.printf "E %d%s\n" !count (if !dead then " DEADLOCK" else "")

(* xorshift64* as in the harness *)
let rng_make seed =
  let x = Int64.add (Int64.mul (Int64.of_int seed) 2654435769L) 88172645463325252L in
  ref (if x = 0L then 1L else x)
let rng_next r =
  let x = !r in
  let x = Int64.logxor x (Int64.shift_right_logical x 12) in
  let x = Int64.logxor x (Int64.shift_left x 25) in
  let x = Int64.logxor x (Int64.shift_right_logical x 27) in
  r := x;
  Int64.mul x 2685821657736338717L

let random_runs ops fine runs seed verbose s0 =
  let count = ref 0 in
  let dead = ref false in
  (try
     for r = 0 to runs - 1 do
       let rng = rng_make (seed * 1000003 + r) in
       let s = ref s0 in
       let steps = ref 0 in
       let h = ref 0xcbf29ce484222325L in
       let first = ref true in
       let sched = ref [] and trace = ref [] in
       let finished = ref false in
       while not !finished do
         if all_done ops !s then begin
           finished := true; incr count;
           if verbose then print_exec !sched !trace (ops.result !s)
           else Printf.printf "x steps=%d trace=%Lu | %s\n" !steps !h (ops.result !s)
         end else begin
           let m = enabled_mask ops !s in
           if m = 0 then begin
             incr count; dead := true;
             if verbose then print_exec !sched !trace (deadlock_text ops !s)
             else Printf.printf "x steps=%d trace=%Lu | %s\n" !steps !h (deadlock_text ops !s);
             raise Stop
           end;
           let n = ref 0 in
           for t = 0 to ops.nth - 1 do if m land (1 lsl t) <> 0 then incr n done;
           let k = ref (Int64.to_int (Int64.rem (Int64.shift_right_logical (rng_next rng) 33) (Int64.of_int !n))) in
           let chosen = ref (-1) in
           for t = 0 to ops.nth - 1 do
             if !chosen < 0 && m land (1 lsl t) <> 0 then begin
               if !k = 0 then chosen := t else decr k
             end
           done;
           let t = !chosen in
           let tok = Printf.sprintf "%d%s/%x" t (ops.tag !s t) m in
           if verbose then begin sched := string_of_int t :: !sched; trace := tok :: !trace end
           else begin
             h := fnv_string ~h:!h (if !first then tok else " " ^ tok);
             first := false
           end;
           incr steps;
           (match macro ops fine !s t with Some s' -> s := s' | None -> failwith "enabled thread cannot step")
         end
       done
     done
   with Stop -> ());
  Printf.printf "E %d%s\n" !count (if !dead then " DEADLOCK" else "")

let ints_text l = String.concat "," (List.map string_of_int l)

(* ---------------------------------------------------------------- usq *)
let usq_tags = [| "ylink"; "ywrite"; "P0"; "W0"; "yswitch"; "yread" |]
let usq_ops page = {
  step = (fun s t -> usq_step page s (nat_of_int t));
  tag = (fun s t -> usq_tags.(int_of_nat (usq_tag s (nat_of_int t))));
  fin = (fun s t -> usq_finished s (nat_of_int t));
  started = (fun _ _ -> true);
  nth = 2;
  result = (fun s ->
      let got = List.rev_map int_of_z s.u_got in
      let e = match s.u_err with
        | None -> ""
        | Some UUseAfterFree -> " ERR=use-after-free"
        | Some UNullNext -> " ERR=null-next"
        | Some UReadUnwritten -> " ERR=read-unwritten" in
      "got=" ^ ints_text got ^ e);
}

let usq_start kv =
  let n = geti kv "n" 0 in
  let want = geti kv "want" n in
  let pre = geti kv "pre" 0 in
  let page = usq_page_size in
  let items = List.init pre (fun i -> z_of_int (1000000 + i)) @ List.init n (fun i -> z_of_int (i + 1)) in
  let s = ref (usq_init usq_valid_init items (nat_of_int (pre + want))) in
  let ops = usq_ops page in
  let note = ref "" in
  for i = 0 to pre - 1 do
    List.iter (fun t -> match ops.step !s t with Some s' -> s := s' | None -> note := " prologue-stuck") [0; 0; 0; 1; 1; 1];
    (match !s.u_got with
     | v :: _ when int_of_z v = 1000000 + i -> ()
     | _ -> note := " prologue-mismatch")
  done;
  let st = !s in
  let st = { st with u_got = [] } in
  (ops, st, !note)

(* ---------------------------------------------------------------- pcq *)
let pcq_tags = [| "W0"; "L0"; "ywrite"; "U0"; "P1"; "W1"; "L1"; "yread"; "U1"; "P0" |]
let pcq_ops cap nthreads = {
  step = (fun s t -> pcq_step cap s (nat_of_int t));
  tag = (fun s t -> let k = int_of_nat (pcq_tag s (nat_of_int t)) in if k < 10 then pcq_tags.(k) else "?");
  fin = (fun s t -> pcq_finished s (nat_of_int t));
  started = (fun _ _ -> true);
  nth = nthreads;
  result = (fun s ->
      let gots = List.filter_map (fun th -> match th with
          | QCons (_, _, got) -> Some (ints_text (List.rev_map int_of_z got))
          | QProd _ -> None) s.q_threads in
      "got=" ^ String.concat ";" gots);
}

let pcq_start kv =
  let cap = geti kv "cap" 1 in
  let prod = getl kv "prod" and cons = getl kv "cons" in
  let threads =
    List.mapi (fun p n -> QProd (QPWait, List.init n (fun i -> z_of_int (p * 1000000 + i + 1)))) prod
    @ List.map (fun n -> QCons (QCWait, nat_of_int n, [])) cons in
  let capn = nat_of_int cap in
  (pcq_ops capn (List.length threads), pcq_init (pcq_empty_init capn) (pcq_used_init capn) threads, "")

(* ---------------------------------------------------------------- ring *)
let ring_tag_text k = match k with
  | 0 -> "W1" | 1 -> "S" | 2 -> "yfill" | 3 -> "yrest" | 4 -> "P0" | 5 -> "J" | 6 -> "P1"
  | 10 -> "b" | 11 -> "W0" | 12 -> "ywrite" | 13 -> "yflush" | 14 -> "e" | _ -> "?"

let pattern w j = (w * 31 + j * 7 + (j lsr 8)) mod 251

let ring_ops k b = {
  step = (fun s t -> ring_step k b s (nat_of_int t));
  tag = (fun s t -> ring_tag_text (int_of_nat (ring_tag s (nat_of_int t))));
  fin = (fun s t -> ring_finished s (nat_of_int t));
  started = (fun s t -> ring_started s (nat_of_int t));
  nth = 2;
  result = (fun s ->
      let bytes = Bytes.create (List.length s.r_file) in
      List.iteri (fun i z -> Bytes.set bytes i (Char.chr ((int_of_z z) land 255))) s.r_file;
      let file = Bytes.to_string bytes in
      Printf.sprintf "file=%d:%Lu flushes=%d joined=%d blocks=%s" (String.length file) (fnv_string file)
        (int_of_nat s.r_flushes) (if ring_finished s O then 1 else 0)
        (ints_text (List.rev_map int_of_nat s.r_wsizes)));
}

(* writes=100,p7,8192 : write() of 100 pattern bytes, operator<<(uint64_t) of a 7-digit number, ... *)
let digits = "1234567890123456789"
let ring_start kv =
  let items = match get kv "writes" "" with "" -> [] | s -> String.split_on_char ',' s in
  let k = ring_blocks and b = ring_block_size in
  let prog = List.mapi (fun w it ->
      if it.[0] = 'p' then
        let n = int_of_string (String.sub it 1 (String.length it - 1)) in
        RPut (ring_put_u64, List.init n (fun j -> z_of_int (Char.code digits.[j])))
      else
        let n = int_of_string it in
        RWrite (List.init n (fun j -> z_of_int (pattern w j)))) items in
  (ring_ops k b, ring_init (ring_output_init k) (ring_trash_init k) b prog, "")

(* fine granularity: one extra scheduling point right after every semaphore post
   (Base/LTS.v py_step, extracted) *)
let with_post_yield (ops : 's ops) : ('s * nat list) ops =
  let is_post s t = (ops.tag s (int_of_nat t)).[0] = 'P' in
  { step = (fun sp t -> py_step (fun s t -> ops.step s (int_of_nat t)) is_post sp (nat_of_int t));
    tag = (fun (s, pend) t -> if py_pending pend (nat_of_int t) then "yposted" else ops.tag s t);
    fin = (fun (s, pend) t -> ops.fin s t && not (py_pending pend (nat_of_int t)));
    started = (fun (s, _) t -> ops.started s t);
    nth = ops.nth;
    result = (fun (s, _) -> ops.result s) }

(* ---------------------------------------------------------------- main *)
let run_generic (ops, s0, note) kv fine =
  let ops = if note = "" then ops else { ops with result = (fun s -> ops.result s ^ note) } in
  let ops = with_post_yield ops in
  let s0 = (s0, []) in
  (* prologue of the harness: every harness thread runs up to its first scheduling point *)
  let s = ref s0 in
  for t = 0 to ops.nth - 1 do s := settle ops fine !s t done;
  match get kv "mode" "enum" with
  | "enum" -> enumerate ops fine (geti kv "limit" 100000) !s
  | "rand" -> random_runs ops fine (geti kv "runs" 1) (geti kv "seed" 1) (geti kv "verbose" 0 <> 0) !s
  | _ -> print_endline "E 0 unsupported-mode"

let () =
  Printf.printf "C page=%d kBlocks=%d kBlockSize=%d\n" (int_of_nat usq_page_size) (int_of_nat ring_blocks) (int_of_nat ring_block_size);
  iter_lines (fun line ->
      if line <> "" then begin
        print_endline ("S " ^ line);
        let kv = kv_of_line line in
        let fine = get kv "gran" "sem" = "fine" in
        (match get kv "kind" "" with
         | "usq" -> run_generic (usq_start kv) kv fine
         | "pcq" -> run_generic (pcq_start kv) kv fine
         | "ring" -> run_generic (ring_start kv) kv fine
         | _ -> print_endline "E 0 unknown-kind");
        flush stdout
      end)
