(* C04 driver: one case per line:  "R <mode> k0:hex0 k1:hex1 ..."  (key id : line bytes in hex)
   mode = u (child answers "<" ^ upper ^ ">") or e (echo).  Prints the lines the model sends to the
   child and the output lines, all in hex:  "sent=h,h,.. out=h,h,.. need=0110.." *)
open Model
open Common

let upper z = let c = int_of_z z in if c >= 97 && c <= 122 then z_of_int (c - 32) else z
let field3 l =
  let rec skip k l = if k = 0 then l else match l with [] -> [] | x :: r -> if int_of_z x = 9 then skip (k - 1) r else skip k r in
  let rec take l = match l with [] -> [] | x :: r -> if int_of_z x = 9 then [] else x :: take r in
  take (skip 2 l)
let ans mode l =
  if mode = "e" then l
  else if mode = "f" then field3 l
  else (z_of_int 60 :: List.map upper l) @ (if mode = "c" then [z_of_int 62; z_of_int 13] else [z_of_int 62])

let () =
  iter_lines (fun line ->
      match split_ws line with
      | "R" :: mode :: items ->
        let ls = List.map (fun it ->
            let i = String.index it ':' in
            (n_of_int (int_of_string (String.sub it 0 i)), zlist_of_hex (String.sub it (i + 1) (String.length it - i - 1)))) items in
        let f = feeder ls [] in
        let s = sent ls [] in
        (* mode n: a stateful child, answer number i (from 0) = decimal i ^ ":" ^ "<" ^ upper ^ ">" *)
        let digits i = List.map (fun ch -> z_of_int (Char.code ch)) (List.init (String.length (string_of_int i)) (String.get (string_of_int i))) in
        let numbering xs = List.mapi (fun i l -> digits i @ [z_of_int 58] @ ans "u" l) xs in
        let out = if mode = "n" then cache_run_gen numbering ls else cache_run (ans mode) ls in
        let need = collector_needs (List.map fst f) [] in
        Printf.printf "sent=%s out=%s need=%s\n"
          (String.concat "," (List.map hex_of_zlist s))
          (String.concat "," (List.map (function Some l -> hex_of_zlist l | None -> "EOF") out))
          (String.concat "" (List.map (fun b -> if b then "1" else "0") need))
      | _ -> print_endline "?")
