(* Shared glue between the extracted Coq model (module Model) and the line
   protocols of the drivers: conversions OCaml int <-> Coq positive/N/Z/nat,
   hex strings <-> list Z.  Numbers stay Coq datatypes inside the model. *)
open Model

let rec pos_of_int (n : int) : positive =
  if n = 1 then XH
  else if n land 1 = 0 then XO (pos_of_int (n lsr 1))
  else XI (pos_of_int (n lsr 1))

let rec int_of_pos (p : positive) : int =
  match p with
  | XH -> 1
  | XO q -> 2 * int_of_pos q
  | XI q -> 2 * int_of_pos q + 1

let z_of_int (n : int) : z =
  if n = 0 then Z0 else if n > 0 then Zpos (pos_of_int n) else Zneg (pos_of_int (- n))

let int_of_z (x : z) : int =
  match x with Z0 -> 0 | Zpos p -> int_of_pos p | Zneg p -> - (int_of_pos p)

let n_of_int (k : int) : n = if k = 0 then N0 else Npos (pos_of_int k)
let int_of_n (x : n) : int = match x with N0 -> 0 | Npos p -> int_of_pos p

let rec nat_of_int (k : int) : nat = if k <= 0 then O else S (nat_of_int (k - 1))
let rec int_of_nat (x : nat) : int = match x with O -> 0 | S y -> 1 + int_of_nat y

(* decimal string of an arbitrary-size N / Z (for 64-bit unsigned values) *)
let rec pos_to_digits (p : positive) : int list =
  (* little-endian base-10 digits *)
  let double ds carry =
    let rec go ds c = match ds with
      | [] -> if c = 0 then [] else [c]
      | d :: r -> let v = 2 * d + c in (v mod 10) :: go r (v / 10) in
    go ds carry in
  match p with
  | XH -> [1]
  | XO q -> double (pos_to_digits q) 0
  | XI q -> double (pos_to_digits q) 1

let string_of_pos p =
  String.concat "" (List.rev_map string_of_int (pos_to_digits p))
let string_of_n = function N0 -> "0" | Npos p -> string_of_pos p
let string_of_z = function Z0 -> "0" | Zpos p -> string_of_pos p | Zneg p -> "-" ^ string_of_pos p

(* parse a decimal string into positive/N/Z without overflow *)
let n_of_string (s : string) : n =
  let acc = ref N0 in
  String.iter (fun ch ->
      let d = Char.code ch - 48 in
      acc := N.add (N.mul !acc (n_of_int 10)) (n_of_int d)) s;
  !acc
let z_of_string (s : string) : z =
  if String.length s > 0 && s.[0] = '-' then
    Z.opp (Z.of_N (n_of_string (String.sub s 1 (String.length s - 1))))
  else Z.of_N (n_of_string s)

let hexval c =
  match c with
  | '0' .. '9' -> Char.code c - 48
  | 'a' .. 'f' -> Char.code c - 87
  | 'A' .. 'F' -> Char.code c - 55
  | _ -> failwith "bad hex"

let zlist_of_hex (s : string) : z list =
  let n = String.length s / 2 in
  List.init n (fun i -> z_of_int (16 * hexval s.[2 * i] + hexval s.[2 * i + 1]))

let nlist_of_hex (s : string) : n list =
  let k = String.length s / 2 in
  List.init k (fun i -> n_of_int (16 * hexval s.[2 * i] + hexval s.[2 * i + 1]))

let hex_of_zlist (l : z list) : string =
  let b = Buffer.create (2 * List.length l + 1) in
  List.iter (fun x -> Buffer.add_string b (Printf.sprintf "%02x" ((int_of_z x) land 255))) l;
  Buffer.contents b

let hex_of_nlist (l : n list) : string =
  let b = Buffer.create (2 * List.length l + 1) in
  List.iter (fun x -> Buffer.add_string b (Printf.sprintf "%02x" ((int_of_n x) land 255))) l;
  Buffer.contents b

let split_ws (s : string) : string list =
  List.filter (fun x -> x <> "") (String.split_on_char ' ' s)

let iter_lines (f : string -> unit) : unit =
  try
    while true do
      f (input_line stdin)
    done
  with End_of_file -> ()
