(* C01 driver: the extracted dedupe model.  The 64-bit key of every record is an input (computed
   by the real hashing code through harness/hx_dedupe.cc; the Murmur model belongs to C14).
     R <hexdata>                          -> records of the stream (hex, '-' for an empty record)
     T <hexdata> k1 k2 ...                -> OK <hex of stdout>       (keys in record order)
     P <hexdata0> <hexdata1> n0 k.. k..   -> <status> <hexout0> <hexout1>   (n0 = number of keys of side 0)
     D k1 k2 ...                          -> keep flags, e.g. 1101 *)
open Model
open Common

let hex_or_dash s = if s = "" then "-" else s
let undash s = if s = "-" then "" else s

(* key function from a table: the i-th call returns the i-th key (lines are visited in order,
   exactly once per side) *)
let key_of_list (ks : n list) : (z list -> n) =
  let rest = ref ks in
  fun _ -> match !rest with k :: r -> rest := r; k | [] -> failwith "not enough keys"

let err_name = function ErrFuel -> "ERR:hang" | ErrBounds -> "ERR:bounds" | ErrFull -> "ERR:full" | Ok _ -> "?"

let () =
  iter_lines (fun line ->
      match split_ws line with
      | ["R"] -> print_endline ""
      | "R" :: [h] ->
        let rs = tool_lines (zlist_of_hex (undash h)) in
        print_endline (String.concat " " (List.map (fun r -> hex_or_dash (hex_of_zlist r)) rs))
      | "T" :: h :: ks ->
        let keys = List.map n_of_string ks in
        let recs = tool_lines (zlist_of_hex (undash h)) in
        if List.length recs <> List.length keys then print_endline "KEYCOUNT"
        else
          (* keys are assigned by position: pair every record with its key first *)
          let paired = List.combine recs keys in
          (match dedupe (fun (p : z list * n) -> snd p) paired with
           | Ok out -> print_endline ("OK " ^ hex_or_dash (hex_of_zlist (unrecords (z_of_int 10) (List.map fst out))))
           | e -> print_endline (err_name e))
      | "P" :: h0 :: h1 :: n0 :: ks ->
        let keys = List.map n_of_string ks in
        let n0 = int_of_string n0 in
        let k0 = List.filteri (fun i _ -> i < n0) keys and k1 = List.filteri (fun i _ -> i >= n0) keys in
        let r0 = tool_lines (zlist_of_hex (undash h0)) in
        let r1 = tool_lines (zlist_of_hex (undash h1)) in
        if List.length r0 <> List.length k0 || List.length r1 <> List.length k1 then print_endline "KEYCOUNT"
        else
          let p0 = List.combine r0 k0 and p1 = List.combine r1 k1 in
          (match dedupe_par (fun (p : z list * n) -> snd p) (fun (p : z list * n) -> snd p) p0 p1 with
           | Ok (st, pairs) ->
             let s = (match st with PDone -> "0" | PUnbalanced -> "2" | PAbort -> "abort") in
             let o0 = unrecords (z_of_int 10) (List.map (fun (a, _) -> fst a) pairs) in
             let o1 = unrecords (z_of_int 10) (List.map (fun (_, b) -> fst b) pairs) in
             if st = PAbort then print_endline "abort - -"
             else print_endline (s ^ " " ^ hex_or_dash (hex_of_zlist o0) ^ " " ^ hex_or_dash (hex_of_zlist o1))
           | e -> print_endline (err_name e))
      | ["TF"; fh; dh; h] ->
        (* the complete tool model: options, Fields + Murmur keys, seen-set, writer *)
        let d = match zlist_of_hex dh with [x] -> x | _ -> z_of_int 9 in
        (match dedupe_tool_real (zlist_of_hex (undash fh)) d (zlist_of_hex (undash h)) with
         | ToolOk out -> print_endline ("OK " ^ hex_or_dash (hex_of_zlist out))
         | ToolBadOptions -> print_endline "BADOPT"
         | ToolKeyError -> print_endline "KEYERR"
         | ToolSetError -> print_endline "SETERR")
      | ["PF"; fh; dh; h0; h1] ->
        let d = match zlist_of_hex dh with [x] -> x | _ -> z_of_int 9 in
        (match dedupe_par_tool_real (zlist_of_hex (undash fh)) d (zlist_of_hex (undash h0)) (zlist_of_hex (undash h1)) with
         | Some ((st, o0), o1) ->
           if st = PAbort then print_endline "abort - -"
           else print_endline ((match st with PDone -> "0" | PUnbalanced -> "2" | PAbort -> "abort") ^ " " ^ hex_or_dash (hex_of_zlist o0) ^ " " ^ hex_or_dash (hex_of_zlist o1))
         | None -> print_endline "ERR")
      | "D" :: ks ->
        let keys = List.map n_of_string ks in
        let idx = List.mapi (fun i k -> (i, k)) keys in
        (match dedupe (fun (p : int * n) -> snd p) idx with
         | Ok out ->
           let kept = List.map fst out in
           print_endline (String.concat "" (List.map (fun (i, _) -> if List.mem i kept then "1" else "0") idx))
         | e -> print_endline (err_name e))
      | _ -> print_endline "?")
