open Model
open Common

(* protocol (byte strings hex, "-" = empty):
   Q <list>                  ParseFields only            -> OK b:e b:e ... | ERR
   P <list>                  ParseFields + Defragment    -> OK b:e ...     | ERR
   R <delim> <list> <line>   P then RangeFields          -> OK piece ...   | ERR | BADLEN | FUEL
   V <delim> <list> <line>   P then IndividualFields     -> OK piece ...   | ERR
   K <seed> <delim> <list> <line>  HashCallback(seed) over RangeFields -> decimal | ERR
   D                         option defaults of the tools *)
let bytes_of s = if s = "-" then [] else zlist_of_hex s
let hx l = if l = [] then "-" else hex_of_zlist l
let show_range (b, e) = string_of_z b ^ ":" ^ (if e = kInfiniteEnd then "inf" else string_of_z e)
let show_ranges rs = String.trim ("OK " ^ String.concat " " (List.map show_range rs))
let show_pieces ps = String.trim ("OK " ^ String.concat " " (List.map hx ps))

let () =
  iter_lines (fun line ->
      match split_ws line with
      | [ "Q"; l ] -> (match parse_fields (bytes_of l) with POk rs -> print_endline (show_ranges rs) | PErr _ -> print_endline "ERR")
      | [ "P"; l ] -> (match parse_key_spec (bytes_of l) with Some rs -> print_endline (show_ranges rs) | None -> print_endline "ERR")
      | [ "R"; d; l; s ] ->
        (match parse_key_spec (bytes_of l) with
         | None -> print_endline "ERR"
         | Some rs ->
           (match range_fields (bytes_of s) rs (z_of_string d) with
            | ROk ps -> print_endline (show_pieces ps)
            | RBadLength -> print_endline "BADLEN"
            | RFuel -> print_endline "FUEL"))
      | [ "V"; d; l; s ] ->
        (match parse_key_spec (bytes_of l) with
         | None -> print_endline "ERR"
         | Some rs ->
           (match individual_fields (bytes_of s) rs (z_of_string d) with
            | IOk ps -> print_endline (show_pieces ps)
            | IFuel -> print_endline "FUEL"))
      | [ "K"; seed; d; l; s ] ->
        (match parse_key_spec (bytes_of l) with
         | None -> print_endline "ERR"
         | Some rs ->
           (match key_of (z_of_string seed) (bytes_of s) rs (z_of_string d) with
            | Some k -> print_endline (string_of_z k)
            | None -> print_endline "FUEL"))
      | [ "C" ] -> print_endline (Printf.sprintf "kInfiniteEnd=%s sizeof_unsigned_long=%d" (string_of_z kInfiniteEnd) (if string_of_z ulong_max = "18446744073709551615" then 8 else 4))
      | [ "D" ] ->
        print_endline (Printf.sprintf "dedupe %s %s shard %s %s cache %s %s" (hx dedupe_default_fields) (string_of_z dedupe_default_delim)
                         (hx shard_default_fields) (string_of_z shard_default_delim) (hx cache_default_key) (string_of_z cache_default_separator))
      | _ -> print_endline "?")
