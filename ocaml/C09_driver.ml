open Model
open Common

let () =
  iter_lines (fun line ->
      match split_ws line with
      | "E" :: rest ->
        let bs = zlist_of_hex (match rest with [h] -> h | _ -> "") in
        (match base64_encode bs with
         | Some o -> print_endline ("OK " ^ hex_of_zlist o)
         | None -> print_endline "FUEL")
      | "D" :: rest ->
        let cs = zlist_of_hex (match rest with [h] -> h | _ -> "") in
        (match base64_decode cs with
         | DOk o -> print_endline ("OK " ^ hex_of_zlist o)
         | DBadChar c -> print_endline "BAD"
         | DLengthError -> print_endline "LEN")
      | "R" :: rest ->
        let bs = zlist_of_hex (match rest with [h] -> h | _ -> "") in
        print_endline ("OK " ^ hex_of_zlist (rfc4648 bs))
      | _ -> print_endline "?")
