open Model
open Common

let parse_indices (s : string) : nat list =
  if s = "-" then [] else List.map (fun x -> nat_of_int (int_of_string x)) (String.split_on_char ',' s)

let show_tres = function
  | TOk o -> "OK " ^ hex_of_zlist o
  | TAbort -> "ABORT"
  | TFuel -> "FUEL"
  | TUsage -> "USAGE"

let () =
  iter_lines (fun line ->
      match split_ws line with
      | "E" :: rest ->
        let bs = zlist_of_hex (match rest with [h] -> h | _ -> "") in
        (match base64_encode bs with
         | Some o -> print_endline ("OK " ^ hex_of_zlist o)
         | None -> print_endline "FUEL")
      | "D" :: rest ->
        let cs = zlist_of_hex (match rest with [h] -> h | _ -> "") in
        (match base64_decode cs with
         | DOk o -> print_endline ("OK " ^ hex_of_zlist o)
         | DBadChar c -> print_endline "BAD"
         | DLengthError -> print_endline "LEN")
      | "D2" :: _ :: second :: [] ->
        (* the model is a function: reusing the caller's string cannot matter *)
        let cs = zlist_of_hex (if second = "-" then "" else second) in
        (match base64_decode cs with
         | DOk o -> print_endline ("OK " ^ hex_of_zlist o)
         | DBadChar c -> print_endline "BAD"
         | DLengthError -> print_endline "LEN")
      | "E2" :: _ :: second :: [] ->
        let bs = zlist_of_hex (if second = "-" then "" else second) in
        (match base64_encode bs with
         | Some o -> print_endline ("OK " ^ hex_of_zlist o)
         | None -> print_endline "FUEL")
      | "P" :: rest ->
        let a = zlist_of_hex (match rest with [h] -> h | _ -> "") in
        (match parse_range a with
         | ArgIndices l -> print_endline ("IDX " ^ String.concat "," (List.map (fun x -> string_of_int (int_of_nat x)) l))
         | ArgFile -> print_endline "FILE"
         | ArgUsage -> print_endline "USAGE"
         | ArgHuge -> print_endline "HUGE")
      | "R" :: rest ->
        let bs = zlist_of_hex (match rest with [h] -> h | _ -> "") in
        print_endline ("OK " ^ hex_of_zlist (rfc4648 bs))
      | "TD" :: delim :: idx :: rest ->
        let inp = zlist_of_hex (match rest with [h] -> h | _ -> "") in
        print_endline (show_tres (decode_tool (z_of_int (int_of_string delim)) (parse_indices idx) inp))
      | "TE" :: delim :: idx :: rest ->
        let inp = zlist_of_hex (match rest with [h] -> h | _ -> "") in
        print_endline (show_tres (encode_tool (z_of_int (int_of_string delim)) (parse_indices idx) inp))
      | _ -> print_endline "?")
