(* C13 driver: runs a whole history through the extracted AutoProbing model
   (V = N, v0 = 0, hash = identity = util::IdentityHash) and prints, after every
   operation, the answer and the complete model state (bucket array or its digest).
   Protocol (same as harness/hx_probing.cc):
     H<16|12><f|d> <init|-> op op ...      ops: F<k>,<v> I<k>,<v> L<k> U<k>,<v>
     S <n>                                 initial bucket count / threshold for initial_size n *)
open Model
open Common

let idh (x : n) : n = x
let p31 = 2147483647

let rec pos_mod (p : positive) (m : int) : int =
  match p with
  | XH -> 1 mod m
  | XO q -> (2 * pos_mod q m) mod m
  | XI q -> (2 * pos_mod q m + 1) mod m
let n_mod (x : n) (m : int) : int = match x with N0 -> 0 | Npos p -> pos_mod p m

let digest (cs : (n * n) list) : int =
  List.fold_left (fun h (k, v) -> (h * 1000003 + (n_mod k p31) * 7 + (n_mod v p31) + 1) mod p31) 0 cs

let dump full (a : n auto) : string =
  let t = a.backend in
  let hd = Printf.sprintf "|%s,%s,%s|" (string_of_n t.nbuckets) (string_of_n t.entries) (string_of_n a.threshold) in
  if full then
    hd ^ String.concat "," (List.map (fun (k, v) -> string_of_n k ^ ":" ^ string_of_n v) t.cells)
  else hd ^ string_of_int (digest t.cells)

let sv = function Some v -> string_of_n v | None -> "?"

let parse_kv s =
  match String.split_on_char ',' s with
  | [k; v] -> (n_of_string k, n_of_string v)
  | _ -> failwith "bad kv"

let parse_op (tok : string) : n op =
  let body = String.sub tok 1 (String.length tok - 1) in
  match tok.[0] with
  | 'F' -> let (k, v) = parse_kv body in OpFindOrInsert (k, v)
  | 'I' -> let (k, v) = parse_kv body in OpInsert (k, v)
  | 'L' -> OpFind (n_of_string body)
  | 'U' -> let (k, v) = parse_kv body in OpUpdate (k, v)
  | _ -> failwith "bad op"

let show_answer = function
  | AFoundOrInserted (f, pos, v) -> Printf.sprintf "F%d@%s=%s" (if f then 1 else 0) (string_of_n pos) (sv v)
  | AInserted pos -> "I@" ^ string_of_n pos
  | AFind None -> "L-"
  | AFind (Some (pos, v)) -> Printf.sprintf "L@%s=%s" (string_of_n pos) (sv v)
  | AUpdate None -> "U-"
  | AUpdate (Some pos) -> "U@" ^ string_of_n pos

let () =
  iter_lines (fun line ->
      match split_ws line with
      | "S" :: [ns] ->
        let nb = initial_buckets (n_of_string ns) in
        print_endline (Printf.sprintf "S %s %s" (string_of_n nb) (string_of_n (threshold_of nb)))
      | mode :: init :: ops when String.length mode = 4 && mode.[0] = 'H' ->
        let full = mode.[3] = 'f' in
        let a0 = if init = "-" then auto_init N0 else auto_init_n N0 (n_of_string init) in
        let b = Buffer.create 1024 in
        Buffer.add_string b ("init" ^ dump full a0);
        let rec go a = function
          | [] -> ()
          | tok :: rest ->
            (match step N0 idh a (parse_op tok) with
             | Ok (ans, a') ->
               Buffer.add_char b ' ';
               Buffer.add_string b (show_answer ans);
               Buffer.add_string b (dump full a');
               go a' rest
             | ErrFuel -> Buffer.add_string b " ERR:hang"
             | ErrBounds -> Buffer.add_string b " ERR:bounds"
             | ErrFull -> Buffer.add_string b " ERR:full") in
        go a0 ops;
        print_endline (Buffer.contents b)
      | _ -> print_endline "?")
