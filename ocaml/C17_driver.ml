(* C17 driver: R <streamhex|-> <frags|->  -> OK <rechex,...|-> | ERR <kind> <rechex,...|-> *)
open Model
open Common

let sizes_of (s : string) : int list =
  if s = "-" then [] else List.map int_of_string (List.filter (fun x -> x <> "") (String.split_on_char ',' s))

let rec split_frags (bs : z list) (fr : int list) : z list list =
  match bs, fr with
  | [], _ -> []
  | _, [] -> [bs]
  | _, n :: r ->
    if n = 0 then split_frags bs r
    else
      let rec take k l acc = if k = 0 then (List.rev acc, l) else match l with [] -> (List.rev acc, []) | x :: t -> take (k - 1) t (x :: acc) in
      let (a, b) = take n bs [] in
      a :: split_frags b r

let big = nat_of_int 300000
let recs_str l = if l = [] then "-" else String.concat "," (List.map (fun r -> if r = [] then "e" else hex_of_zlist r) l)
let kind = function WEof -> "EOF" | WFormat -> "FMT" | WLength -> "LEN" | WReader -> "CE" | WHang -> "HANG"

let () =
  iter_lines (fun line ->
      match split_ws line with
      | "R" :: stream :: rest ->
        let bs = if stream = "-" then [] else zlist_of_hex stream in
        let f = split_frags bs (sizes_of (match rest with fr :: _ -> fr | [] -> "-")) in
        (match warc_file big big f with
         | AllOk l -> print_endline ("OK " ^ recs_str l)
         | AllErr (WHang, _) -> print_endline "HANG"
         | AllErr (e, l) -> print_endline ("ERR " ^ kind e ^ " " ^ recs_str l))
      | _ -> print_endline "?")
