open Model
open Common

let unh s = if s = "-" then [] else zlist_of_hex s
let hx l = match l with [] -> "-" | _ -> hex_of_zlist l

(* ICU behaviour for the strings of this run, as obtained from the real ICU
   through harness/hx_flatten: DEF L/N <utf8 in> <utf8 out>, DEF S <cp> <0|1> *)
let tl : (string, string) Hashtbl.t = Hashtbl.create 1000
let tn : (string, string) Hashtbl.t = Hashtbl.create 1000
let ts : (int, bool) Hashtbl.t = Hashtbl.create 100
exception Missing of string

let via tbl tag (u : z list) : z list =
  let k = hx (to_utf8 u) in
  match Hashtbl.find_opt tbl k with
  | Some o -> (match from_utf8 (unh o) with Some r -> r | None -> raise (Missing (tag ^ " " ^ k)))
  | None -> raise (Missing (tag ^ " " ^ k))
let lower = via tl "L"
let nfkc = via tn "N"
let isspace (c : z) : bool =
  match Hashtbl.find_opt ts (int_of_z c) with
  | Some b -> b
  | None -> raise (Missing ("S " ^ string_of_int (int_of_z c)))

let lang s = List.map (fun ch -> z_of_int (Char.code ch)) (List.init (String.length s) (String.get s))
let flags s = { f_lower = s.[0] = '1'; f_flatten = s.[1] = '1'; f_normalize = s.[2] = '1' }

let () =
  iter_lines (fun line ->
      try
        match split_ws line with
        | ["DEF"; "L"; a; b] -> Hashtbl.replace tl a b; print_endline "OK"
        | ["DEF"; "N"; a; b] -> Hashtbl.replace tn a b; print_endline "OK"
        | ["DEF"; "S"; c; b] -> Hashtbl.replace ts (int_of_string c) (b = "1"); print_endline "OK"
        | ["F"; l; h] ->
          (match flatten_for (lang l), from_utf8 (unh h) with
           | None, _ -> print_endline "NOLANG"
           | _, None -> print_endline "BADUTF8"
           | Some d, Some u ->
             (match flatten_apply isspace d u with
              | Some r -> print_endline ("OK " ^ hx (to_utf8 r))
              | None -> print_endline "FUEL"))
        | ["FS"; l; h] ->     (* the code-point level specification *)
          (match flatten_for (lang l), from_utf8 (unh h) with
           | None, _ -> print_endline "NOLANG"
           | _, None -> print_endline "BADUTF8"
           | Some d, Some u ->
             let cs = cps_of_utf16 u in
             print_endline ("OK " ^ hx (to_utf8 (utf16_of_cps (flatten_spec isspace (nat_of_int (List.length cs + 1)) d cs)))))
        | ["P"; f; l; h] ->
          (match process_unicode lower nfkc isspace (lang l) (flags f) (unh h) with
           | POk o -> print_endline ("OK " ^ hx o)
           | PBadUtf8 -> print_endline "BADUTF8"
           | PNoLanguage -> print_endline "NOLANG"
           | PFuel -> print_endline "FUEL")
        | ["U"; h] ->      (* UTF-16 units of fromUTF8, and the way back *)
          (match from_utf8 (unh h) with
           | None -> print_endline "BADUTF8"
           | Some u -> print_endline (String.concat " " ("OK" :: List.map (fun x -> string_of_int (int_of_z x)) u) ^ " | " ^ hx (to_utf8 u)))
        | ["TABLE"; l] ->    (* the start characters of a language: cp:character:nlonger *)
          (match flatten_for (lang l) with
           | None -> print_endline "NOLANG"
           | Some d -> print_endline (String.concat " " ("OK" :: List.map (fun (k, s) ->
               Printf.sprintf "%d:%s:%d" (int_of_z k) (hx (to_utf8 s.st_char)) (List.length s.st_longer)) d)))
        | ["CONST"] -> print_endline (Printf.sprintf "OK %b %b" flatten_copy_advances_by_length pu_prints_cur)
        | _ -> print_endline "?"
      with Missing m -> print_endline ("MISSING " ^ m))
