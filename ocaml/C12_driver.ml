open Model
open Common

let show_dec = function
  | Decoded (cp, n) -> Printf.sprintf "OK %s %s" (string_of_z cp) (string_of_z n)
  | NotUTF8 -> "BAD"

let cell = function
  | Decoded (cp, n) -> Printf.sprintf "%s/%s" (string_of_z cp) (string_of_z n)
  | NotUTF8 -> "B"

let show_items l =
  String.concat " " (List.map (fun (cp, piece) -> Printf.sprintf "%s:%d" (string_of_z cp) (List.length piece)) l)

let arg rest = zlist_of_hex (match rest with [h] -> h | _ -> "")

let () =
  iter_lines (fun line ->
      match split_ws line with
      | "D" :: rest -> print_endline (show_dec (decode_utf8 (arg rest)))
      | "U" :: rest ->
        (match is_utf8 (arg rest) with
         | Some true -> print_endline "T"
         | Some false -> print_endline "F"
         | None -> print_endline "FUEL")
      | "I" :: rest ->
        (match iterate_utf8 (arg rest) with
         | IterOk l -> print_endline (String.trim ("OK " ^ show_items l))
         | IterBad l -> print_endline (String.trim ("BAD " ^ show_items l))
         | IterFuel -> print_endline "FUEL")
      | "R" :: rest -> print_endline ("OK " ^ hex_of_zlist (remove_invalid_utf8 (arg rest)))
      | [ "C" ] -> print_endline (Printf.sprintf "kUnicodeError=%s default_iterator=%s" (string_of_z kUnicodeError) (string_of_z kUnicodeError))
      | [ "W1" ] ->
        (* all 1-byte buffers *)
        print_endline (String.concat " " (List.init 256 (fun b -> cell (decode_utf8 [z_of_int b]))))
      | [ "P"; b0s ] ->
        (* one row of the pair table: b1 = 0..255, each cell r2;r3;r4 *)
        let b0 = z_of_int (int_of_string b0s) in
        print_endline (String.concat " " (List.init 256 (fun b1 ->
            let ((r2, r3), r4) = pair_row b0 (z_of_int b1) in
            cell r2 ^ ";" ^ cell r3 ^ ";" ^ cell r4)))
      | _ -> print_endline "?")
