(* C18 driver: the extracted models of the six line filters.
     L <limit> <hexdata>                       remove_long_lines
     U <hexdata>                               remove_invalid_utf8
     B <hexdata>                               remove_invalid_utf8_base64   (OK <hex> | ABORT)
     W <hexline>                               wf_utf8 -> 0/1
     X <hexdata>                               the stripped records of a stream (commoncrawl StripSpaces), hex, '-' = empty
     R <hexdata>                               the records of a stream
     KEYS <hexline>=<key> ...                  (re)define the key table used by S and C (64-bit keys from the real hashing code)
     S <hexsub> <hexdata>                      subtract_lines
     C <hexrem> <hexdata>                      commoncrawl_dedupe
     ICU common inherited cp:script:punct:space ...   define the ICU class tables (script -1 = failure/invalid)
     F <min_chars> <run> <sample> <mci> <minpunct> <hexfield>          SimpleCleaningFilter::operator() -> 0/1
     T <min_chars> <run> <sample> <mci> <minpunct> <ranges> <delimhex> <hexdata>     simple_cleaning on a stream
   '-' stands for an empty byte string. *)
open Model
open Common

let undash s = if s = "-" then "" else s
let hx l = let s = hex_of_zlist l in if s = "" then "-" else s
let nl = z_of_int 10

let keytab : (string, n) Hashtbl.t = Hashtbl.create 1024
let key_of (l : z list) : n =
  match Hashtbl.find_opt keytab (hex_of_zlist l) with Some k -> k | None -> failwith ("no key for line " ^ hex_of_zlist l)

(* ICU tables *)
let icu : (int, int * bool * bool) Hashtbl.t = Hashtbl.create 256
let common = ref 0
let inherited = ref 1
let script_of (c : z) : n option =
  match Hashtbl.find_opt icu (int_of_z c) with
  | Some (s, _, _) -> if s < 0 then None else Some (n_of_int s)
  | None -> failwith (Printf.sprintf "no ICU entry for U+%04X" (int_of_z c))
let is_punct c = match Hashtbl.find_opt icu (int_of_z c) with Some (_, p, _) -> p | None -> false
let is_uspace c = match Hashtbl.find_opt icu (int_of_z c) with Some (_, _, s) -> s | None -> false

(* single-precision arithmetic of the C++ threshold tests *)
let f32 (x : float) : float = Int32.float_of_bits (Int32.bits_of_float x)
let too_common mci (ci : n) (chars : n) : bool =
  (* size_t -> float conversions; ci may be a wrapped (huge) size_t *)
  let fl (x : n) = f32 (float_of_string (string_of_n x)) in
  fl ci > f32 (mci *. fl chars)
let little_punct mp (p : n) (chars : n) : bool =
  let fl (x : n) = f32 (float_of_string (string_of_n x)) in
  fl p < f32 (mp *. fl chars)
let script_low_none _ _ = false
(* in_script / after_common_inherited < min_scripts, in single precision; 0/0 = NaN compares false *)
let script_low (codes : int list) ms (counts : n -> n) (chars : n) : bool =
  let fl (x : int) = f32 (float_of_int x) in
  let cnt s = int_of_n (counts (n_of_int s)) in
  let after = int_of_n chars - cnt !inherited - cnt !common in
  let in_script = List.fold_left (fun a s -> a + cnt s) 0 codes in
  f32 (fl in_script /. fl after) < ms
let parse_codes s = if s = "-" then [] else List.map int_of_string (String.split_on_char ',' s)

let err_name = function ErrFuel -> "ERR:hang" | ErrBounds -> "ERR:bounds" | ErrFull -> "ERR:full" | Ok _ -> "?"

let parse_ranges (s : string) : (nat * nat option) list =
  if s = "-" then [] else
  List.map (fun r -> match String.split_on_char ':' r with
      | [b; "inf"] -> (nat_of_int (int_of_string b), None)
      | [b; e] -> (nat_of_int (int_of_string b), Some (nat_of_int (int_of_string e)))
      | _ -> failwith "range") (String.split_on_char ',' s)

let sc_opts mc run sample = { sc_min_chars = n_of_string mc; sc_character_run = n_of_string run;
                              sc_min_punct_sample_size = n_of_string sample; sc_nscripts = O }

let () =
  iter_lines (fun line ->
      try
        match split_ws line with
        | ["L"; lim; h] ->
          print_endline ("OK " ^ hx (bytes_of (remove_long_lines_loop (n_of_string lim) (lines_of (zlist_of_hex (undash h))))))
        | ["U"; h] -> print_endline ("OK " ^ hx (bytes_of (remove_invalid_utf8_loop (lines_of_utf8_tool (zlist_of_hex (undash h))))))
        | ["B"; h] ->
          (match remove_invalid_utf8_base64 (lines_of (zlist_of_hex (undash h))) with
           | Some out -> print_endline ("OK " ^ hx (bytes_of out))
           | None -> print_endline "ABORT")
        | ["W"; h] -> print_endline (if wf_utf8 (zlist_of_hex (undash h)) then "1" else "0")
        | ["X"; h] ->
          print_endline (String.concat " " (List.map (fun l -> hx (strip_spaces l)) (lines_of (zlist_of_hex (undash h)))))
        | ["R"; h] ->
          print_endline (String.concat " " (List.map hx (lines_of (zlist_of_hex (undash h)))))
        | "KEYS" :: kv ->
          Hashtbl.reset keytab;
          List.iter (fun s -> match String.split_on_char '=' s with
              | [h; k] -> Hashtbl.replace keytab (undash h) (n_of_string k)
              | _ -> ()) kv;
          print_endline "ok"
        | ["S"; hs; h] ->
          (match subtract_lines key_of (lines_of (zlist_of_hex (undash hs))) (lines_of (zlist_of_hex (undash h))) with
           | Ok out -> print_endline ("OK " ^ hx (bytes_of out))
           | e -> print_endline (err_name e))
        | ["SR"; hs; h] ->
          (* complete model: keys from the MurmurHash64A model (C14), nothing from the implementation *)
          let k l = Z.to_N (subtract_insert_key l) in
          (match subtract_lines k (lines_of (zlist_of_hex (undash hs))) (lines_of (zlist_of_hex (undash h))) with
           | Ok out -> print_endline ("OK " ^ hx (bytes_of out))
           | e -> print_endline (err_name e))
        | ["CR"; hr; h] ->
          let k l = Z.to_N (commoncrawl_dedupe_key l) in
          (match commoncrawl_dedupe k (lines_of (zlist_of_hex (undash hr))) (lines_of (zlist_of_hex (undash h))) with
           | Ok out -> print_endline ("OK " ^ hx (bytes_of out))
           | e -> print_endline (err_name e))
        | ["C"; hr; h] ->
          (match commoncrawl_dedupe key_of (lines_of (zlist_of_hex (undash hr))) (lines_of (zlist_of_hex (undash h))) with
           | Ok out -> print_endline ("OK " ^ hx (bytes_of out))
           | e -> print_endline (err_name e))
        | "ICU" :: c :: i :: entries ->
          Hashtbl.reset icu;
          common := int_of_string c; inherited := int_of_string i;
          List.iter (fun s -> match String.split_on_char ':' s with
              | [cp; sc; p; sp] -> Hashtbl.replace icu (int_of_string cp) (int_of_string sc, p = "1", sp = "1")
              | _ -> ()) entries;
          print_endline "ok"
        | ["F"; mc; run; sample; mci; mp; h] ->
          let r = sc_filter script_of is_punct is_uspace (n_of_int !common) (n_of_int !inherited)
              (too_common (f32 (float_of_string mci))) (little_punct (f32 (float_of_string mp))) script_low_none
              (sc_opts mc run sample) (zlist_of_hex (undash h)) in
          print_endline (if r then "1" else "0")
        | ["FS"; mc; run; sample; mci; mp; ms; codes; h] ->
          let cs = parse_codes codes in
          let o = { (sc_opts mc run sample) with sc_nscripts = nat_of_int (List.length cs) } in
          let r = sc_filter script_of is_punct is_uspace (n_of_int !common) (n_of_int !inherited)
              (too_common (f32 (float_of_string mci))) (little_punct (f32 (float_of_string mp))) (script_low cs (f32 (float_of_string ms)))
              o (zlist_of_hex (undash h)) in
          print_endline (if r then "1" else "0")
        | ["TS"; mc; run; sample; mci; mp; ms; codes; ranges; dh; h] ->
          let cs = parse_codes codes in
          let o = { (sc_opts mc run sample) with sc_nscripts = nat_of_int (List.length cs) } in
          let d = match zlist_of_hex dh with [x] -> x | _ -> z_of_int 9 in
          let out = simple_cleaning_loop script_of is_punct is_uspace (n_of_int !common) (n_of_int !inherited)
              (too_common (f32 (float_of_string mci))) (little_punct (f32 (float_of_string mp))) (script_low cs (f32 (float_of_string ms)))
              o (parse_ranges ranges) d (lines_of_parallel (zlist_of_hex (undash h))) in
          print_endline ("OK " ^ hx (bytes_of out))
        | ["T"; mc; run; sample; mci; mp; ranges; dh; h] ->
          let d = match zlist_of_hex dh with [x] -> x | _ -> z_of_int 9 in
          let out = simple_cleaning_loop script_of is_punct is_uspace (n_of_int !common) (n_of_int !inherited)
              (too_common (f32 (float_of_string mci))) (little_punct (f32 (float_of_string mp))) script_low_none
              (sc_opts mc run sample) (parse_ranges ranges) d (lines_of_parallel (zlist_of_hex (undash h))) in
          print_endline ("OK " ^ hx (bytes_of out))
        | _ -> print_endline "?"
      with Failure m -> print_endline ("FAIL " ^ m))
