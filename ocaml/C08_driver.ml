open Model
open Common

let unh s = if s = "-" then [] else zlist_of_hex s
let hx l = match l with [] -> "-" | _ -> hex_of_zlist l

let child kind : z list -> z list =
  match kind with
  | "id" | "tee" -> (fun l -> l)
  | "bracket" -> (fun l -> z_of_int 91 :: (l @ [z_of_int 93]))
  | "upper" -> (fun l -> List.map (fun c -> let i = int_of_z c in if i >= 97 && i <= 122 then z_of_int (i - 32) else c) l)
  | "addcr" -> (fun l -> l @ [z_of_int 13])
  | _ -> failwith "child"

(* children that break the line structure, as functions on the whole stream *)
let split_lines (l : z list) : z list list =
  let rec go cur acc = function
    | [] -> List.rev (if cur = [] then acc else List.rev cur :: acc)
    | c :: r -> if int_of_z c = 10 then go [] (List.rev cur :: acc) r else go (c :: cur) acc r in
  go [] [] l
let join_lines (ls : z list list) : z list = List.concat (List.map (fun l -> l @ [z_of_int 10]) ls)
let stream_child kind : z list -> z list =
  match kind with
  | "drop2" -> (fun inp -> join_lines (List.filteri (fun i _ -> i <> 1) (split_lines inp)))
  | "extra" -> (fun inp -> join_lines (split_lines inp) @ [z_of_int 88; z_of_int 10])
  | "number" -> (fun inp -> join_lines (List.mapi (fun i l -> (List.map (fun ch -> z_of_int (Char.code ch)) (List.init (String.length (string_of_int (i + 1))) (String.get (string_of_int (i + 1))))) @ [z_of_int 58] @ l) (split_lines inp)))
  | _ -> failwith "stream child"

let () =
  iter_lines (fun line ->
      match split_ws line with
      | ["B"; kind; inp] ->
        (match b64filter_tool (child kind) (unh inp) with
         | BOk o -> print_endline ("OK " ^ hx o)
         | BBadInput -> print_endline "ABORT bad-input"
         | BUB -> print_endline "UB"
         | BChildShort -> print_endline "ABORT child-short"
         | BSurplus -> print_endline "ABORT surplus"
         | BFuel -> print_endline "FUEL")
      | ["BS"; kind; inp] ->
        (match b64filter_tool_stream (stream_child kind) (unh inp) with
         | BOk o -> print_endline ("OK " ^ hx o)
         | BBadInput -> print_endline "ABORT bad-input"
         | BUB -> print_endline "UB"
         | BChildShort -> print_endline "ABORT child-short"
         | BSurplus -> print_endline "ABORT surplus"
         | BFuel -> print_endline "FUEL")
      | ["S"; inp] ->
        (match b64filter_child_stdin (unh inp) with
         | Some s -> print_endline ("OK " ^ hx s)
         | None -> print_endline "NONE")
      | ["F"; d] ->
        (match feed_doc (unh d) with
         | FOk (s, m) -> print_endline (Printf.sprintf "OK %s %d %d" (hx s) (int_of_nat m.line_cnt) (if m.has_nl then 1 else 0))
         | FUB -> print_endline "UB")
      | ["FLAGS"] ->
        print_endline (Printf.sprintf "OK %b %b %b" b64f_feeder_strip_cr b64f_collector_strip_cr b64f_back_guarded)
      | _ -> print_endline "?")
