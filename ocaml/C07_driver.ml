open Model
open Common

(* "-" = empty *)
let unh s = if s = "-" then [] else zlist_of_hex s
let hx l = match l with [] -> "-" | _ -> hex_of_zlist l
let delims s = if s = "-" then [] else List.map z_of_string (String.split_on_char ',' s)
let opts w k d = { w_width = z_of_string w; w_keep = (k = "1"); w_delims = delims d }

let child kind : z list -> z list =
  match kind with
  | "id" -> (fun l -> l)
  | "bracket" -> (fun l -> z_of_int 91 :: (l @ [z_of_int 93]))
  | "upper" -> (fun l -> List.map (fun c -> let i = int_of_z c in if i >= 97 && i <= 122 then z_of_int (i - 32) else c) l)
  | _ -> failwith "child"

(* children that break the line structure, as functions on the whole stream *)
let split_lines (l : z list) : z list list =
  let rec go cur acc = function
    | [] -> List.rev (if cur = [] then acc else List.rev cur :: acc)
    | c :: r -> if int_of_z c = 10 then go [] (List.rev cur :: acc) r else go (c :: cur) acc r in
  go [] [] l
let join_nl (ls : z list list) : z list = List.concat (List.map (fun l -> l @ [z_of_int 10]) ls)
let stream_child kind : z list -> z list =
  match kind with
  | "drop2" -> (fun inp -> join_nl (List.filteri (fun i _ -> i <> 1) (split_lines inp)))
  | "extra" -> (fun inp -> join_nl (split_lines inp) @ [z_of_int 88; z_of_int 10])
  | "number" -> (fun inp -> join_nl (List.mapi (fun i l -> (List.map (fun ch -> z_of_int (Char.code ch)) (List.init (String.length (string_of_int (i + 1))) (String.get (string_of_int (i + 1))))) @ [z_of_int 58] @ l) (split_lines inp)))
  | k -> line_child (child k)

let rec pairs l = match l with a :: b :: r -> let (p, d) = pairs r in (unh a :: p, unh b :: d) | _ -> ([], [])

let () =
  iter_lines (fun line ->
      match split_ws line with
      | ["W"; w; k; d; l] ->
        (match wrap_lines (unh l) (opts w k d) with
         | WOk (ps, ds) ->
           let n = List.length ps in
           if List.length ds <> n then print_endline "MISMATCH" else
           print_endline (String.concat " " ("OK" :: string_of_int n :: List.concat (List.map2 (fun p d -> [hx p; hx d]) ps ds)))
         | WBadUtf8 -> print_endline "BAD"
         | WFuel -> print_endline "FUEL")
      | ["T"; w; k; d; kind; inp] ->
        (match foldfilter_tool (opts w k d) (child kind) (unh inp) with
         | TOk o -> print_endline ("OK " ^ hx o)
         | TBadUtf8 -> print_endline "BAD"
         | TFuel -> print_endline "FUEL"
         | TChildShort -> print_endline "SHORT")
      | ["TS"; w; k; d; kind; inp] ->
        (match foldfilter_stream (opts w k d) (stream_child kind) fold_feeder_strip_cr fold_collector_strip_cr (unh inp) with
         | TOk o -> print_endline ("OK " ^ hx o)
         | TBadUtf8 -> print_endline "BAD"
         | TFuel -> print_endline "FUEL"
         | TChildShort -> print_endline "SHORT")
      | ["TD"; wstr; k; dstr; kind; inp] ->
        (match foldfilter_cli2 (unh wstr) (k = "1") (unh dstr) (child kind) (unh inp) with
         | CUsage -> print_endline "USAGE"
         | CRun (TOk o) -> print_endline ("OK " ^ hx o)
         | CRun TBadUtf8 -> print_endline "BAD"
         | CRun TFuel -> print_endline "FUEL"
         | CRun TChildShort -> print_endline "SHORT")
      | ["TW"; wstr; k; d; kind; inp] ->
        (match foldfilter_cli (unh wstr) (k = "1") (delims d) (child kind) (unh inp) with
         | CUsage -> print_endline "USAGE"
         | CRun (TOk o) -> print_endline ("OK " ^ hx o)
         | CRun TBadUtf8 -> print_endline "BAD"
         | CRun TFuel -> print_endline "FUEL"
         | CRun TChildShort -> print_endline "SHORT")
      | "C" :: w :: k :: d :: l :: _n :: rest ->
        let (ps, ds) = pairs rest in
        print_endline (if check_wrap (unh l) (opts w k d) ps ds then "1" else "0")
      | ["DEFAULTS"] ->
        print_endline (String.concat " " ["OK"; string_of_z fold_default_width; (if fold_default_keep then "1" else "0");
                                          String.concat "," (List.map string_of_z fold_default_delims);
                                          (if fold_s_sets_keep then "1" else "0")])
      | _ -> print_endline "?")
