(* C05/C04 driver over the wrapper transition system extracted from Coq (Wrap/WrapDefs.v).

   Input lines:
     P                         print the tool parameters the translator read from the source
     X tool=<cache|fold|b64|raw> order=<0|1> pf=<0|1> fp=<0|1> cin=<n> cout=<n> echo=<0|1> k=<n|inf> ilen=<n> alen=<n> recs=<a,b,c>
                               exhaustive exploration of ALL interleavings (unit transfers): prints number of
                               reachable states, number of stuck non-terminal states, a shortest path to one
     T tool=<cache|fold|b64> <event>;<event>;...
                               replay of a real trace (events "F rec 0", "C line 3", ...) as a path of the LTS
                               (hidden components - stream buffer, pipes, child - run eagerly with ample capacity) *)
open Model
open Common

let kv_of_tokens toks =
  List.filter_map (fun tok ->
      match String.index_opt tok '=' with
      | Some i -> Some (String.sub tok 0 i, String.sub tok (i + 1) (String.length tok - i - 1))
      | None -> None) toks
let get kv k d = try List.assoc k kv with Not_found -> d
let geti kv k d = try int_of_string (List.assoc k kv) with Not_found -> d
let getl kv k = match get kv k "" with "" -> [] | s -> List.map int_of_string (String.split_on_char ',' s)

let tool_consts = function
  | "cache" -> (cache_order, cache_poison_first, cache_final_peek, false, false)
  | "fold" -> (fold_order, fold_poison_first, fold_final_peek, fold_mid_peek, fold_peek_eof_ok)
  | "b64" -> (b64_order, b64_poison_first, b64_final_peek, false, false)
  | _ -> (true, true, false, false, false)

let label_text = function
  | LFeed -> "feed" | LSend m -> "send" ^ string_of_int (int_of_nat m) | LFlushStart -> "flush"
  | LPush m -> "push" ^ string_of_int (int_of_nat m) | LChildRead m -> "cread" ^ string_of_int (int_of_nat m)
  | LChildEof -> "ceof" | LChildWrite m -> "cwrite" ^ string_of_int (int_of_nat m)
  | LCollect m -> "collect" ^ string_of_int (int_of_nat m)

(* ------------------------------------------------------------ exploration *)
let explore kv =
  let tool = get kv "tool" "raw" in
  let (o, pf, fp, mid, eofok) = tool_consts tool in
  let b k d = match get kv k "" with "" -> d | "1" -> true | _ -> false in
  let order = if tool = "raw" then b "order" true else o in
  let pfirst = if tool = "raw" then b "pf" true else pf in
  let fpeek = if tool = "raw" then b "fp" false else fp in
  let kpol = match get kv "k" "1" with "inf" -> None | s -> Some (nat_of_int (int_of_string s)) in
  let pr = { p_order = order; p_poison_first = pfirst; p_final_peek = fpeek;
             p_cin = nat_of_int (geti kv "cin" 1); p_cout = nat_of_int (geti kv "cout" 1);
             p_echo = b "echo" false; p_kpol = kpol; p_early = b "early" false;
             p_mid_peek = (if tool = "raw" then b "mid" false else mid);
             p_peek_eof_ok = (if tool = "raw" then b "eofok" false else eofok) } in
  let il = nat_of_int (geti kv "ilen" 1) and al = nat_of_int (geti kv "alen" 1) in
  let ilen = (fun _ -> il) and alen = (fun _ -> if pr.p_echo then il else al) in
  let recs = List.map nat_of_int (getl kv "recs") in
  let s0 = w_init recs in
  let seen = Hashtbl.create 100003 in
  let q = Queue.create () in
  Hashtbl.replace seen s0 None;
  Queue.add s0 q;
  let stuck = ref 0 and terminal = ref 0 and witness = ref None in
  let limit = geti kv "limit" 400000 in
  let labels = [LFeed; LSend (nat_of_int 1); LSend il; LFlushStart; LPush (nat_of_int 1); LChildRead (nat_of_int 1); LChildEof;
                LChildWrite (nat_of_int 1); LCollect (nat_of_int 1)] in
  (try
     while not (Queue.is_empty q) do
       let s = Queue.pop q in
       if wstuck pr ilen alen s then begin
         if wterminal s then incr terminal
         else begin incr stuck; if !witness = None then witness := Some s end
       end;
       List.iter (fun l ->
           match wstep pr ilen alen s l with
           | Some s' ->
             if not (Hashtbl.mem seen s') then begin
               Hashtbl.replace seen s' (Some (s, l));
               if Hashtbl.length seen > limit then raise Exit;
               Queue.add s' q
             end
           | None -> ()) labels
     done
   with Exit -> ());
  let path = match !witness with
    | None -> ""
    | Some s ->
      let rec back s acc = match Hashtbl.find seen s with
        | None -> acc
        | Some (p, l) -> back p (label_text l :: acc) in
      " witness=" ^ String.concat "," (back s []) in
  Printf.printf "states=%d%s terminal=%d stuck=%d%s\n" (Hashtbl.length seen)
    (if Hashtbl.length seen > limit then "(limit)" else "") !terminal !stuck path

(* ------------------------------------------------------------ trace replay *)
exception Reject of string

let replay kv events =
  let tool = get kv "tool" "fold" in
  let (order, pfirst, fpeek, mid, eofok) = tool_consts tool in
  let one = nat_of_int 1 in
  let evs = List.filter (fun e -> e <> "") (List.map String.trim events) in
  let parsed = List.map (fun e -> match split_ws e with
      | [t; name; n] -> (t, name, int_of_string n)
      | _ -> raise (Reject ("unparsable event " ^ e))) evs in
  let recs = List.filter_map (fun (t, name, n) -> if t = "F" && name = "lines" then Some (nat_of_int n) else None) parsed in
  let total = List.fold_left (fun a n -> a + int_of_nat n) 0 recs in
  let pr = { p_order = order; p_poison_first = pfirst; p_final_peek = fpeek;
             p_cin = nat_of_int (total + 1); p_cout = nat_of_int (total + 1); p_echo = false; p_kpol = Some one;
             p_early = true; p_mid_peek = mid; p_peek_eof_ok = eofok } in
  let ilen = (fun _ -> one) and alen = (fun _ -> one) in
  let s = ref (w_init recs) in
  let step what l =
    match wstep pr ilen alen !s l with
    | Some s' -> s := s'
    | None -> raise (Reject (what ^ ": label " ^ label_text l ^ " is not enabled in the model state")) in
  let try_step l = match wstep pr ilen alen !s l with Some s' -> s := s'; true | None -> false in
  (* hidden components run eagerly: everything handed to the stream buffer reaches the child, which answers at once *)
  let closure () =
    let continue = ref true in
    while !continue do
      continue := false;
      let st = !s in
      let pending = int_of_nat st.w_sent - int_of_nat st.w_pushed in
      if pending > 0 then begin
        if not st.w_flushing then ignore (try_step LFlushStart);
        if try_step (LPush (nat_of_int pending)) then continue := true
      end;
      if try_step (LChildRead one) then continue := true;
      let st = !s in
      let out = int_of_nat st.w_crel - int_of_nat st.w_cwritten in
      if out > 0 && try_step (LChildWrite (nat_of_int out)) then continue := true
    done in
  (* a record whose lines were all handed over is finished lazily *)
  let finish_record () =
    (match !s.w_fpc with
     | FSendSecond | FSendFirst -> closure (); ignore (try_step LFeed)
     | _ -> ()) in
  (* the in-loop queue test of foldfilter is not traced when the queue is non-empty: pass it silently *)
  let pass_mid what =
    if !s.w_kpc = KMid && !s.w_queue <> [] then step what (LCollect O) in
  let drive_child_exit () =
    for _ = 1 to 4 do ignore (try_step LFeed); closure () done;
    ignore (try_step LChildEof); ignore (try_step LChildEof) in
  let nrec = ref 0 in
  let idx = ref 0 in
  (try
     List.iter (fun (t, name, n) ->
         incr idx;
         let what = Printf.sprintf "event %d (%s %s %d)" !idx t name n in
         match t, name with
         | "F", "rec" ->
           finish_record ();
           if n <> !nrec then raise (Reject (what ^ ": record index out of sequence"));
           if !s.w_fpc <> FNext then raise (Reject (what ^ ": feeder of the model is not between records"))
         | "F", "lines" ->
           (match !s.w_recs with
            | m :: _ when int_of_nat m = n -> ()
            | _ -> raise (Reject (what ^ ": line count differs from the model's record")))
         | "F", "enq" ->
           (match !s.w_fpc with
            | FNext when pr.p_order -> step what LFeed
            | FSendFirst when not pr.p_order -> closure (); step what LFeed; step what LFeed
            | FNext when not pr.p_order ->
              (* a record without lines: enqueue-after-write degenerates *)
              step what LFeed; step what LFeed; step what LFeed
            | _ -> raise (Reject (what ^ ": the model's feeder (order from the source) does not enqueue at this point")));
           incr nrec
         | "F", "send" ->
           (match !s.w_fpc with
            | FSendSecond when pr.p_order -> ()
            | FNext when not pr.p_order -> step what LFeed
            | _ -> raise (Reject (what ^ ": the model's feeder (order from the source) does not write at this point")));
           let st = !s in
           let target = int_of_nat (cum ilen st.w_sentl) - int_of_nat st.w_sent in
           if target > 0 then step what (LSend (nat_of_int target))
         | "F", "flush" ->
           finish_record ();
           ignore (try_step LFlushStart); closure ()
         | "F", "eof" ->
           finish_record ();
           if !s.w_recs <> [] then raise (Reject (what ^ ": end of input but the model still has records"))
         | "F", "enq-poison" ->
           finish_record ();
           if pr.p_poison_first then begin
             if !s.w_fpc <> FNext then raise (Reject (what ^ ": poison out of place"));
             step what LFeed
           end else begin
             step what LFeed; step what LFeed; closure (); step what LFeed; step what LFeed
           end
         | "F", "flushed" ->
           if !s.w_fpc <> FEofFlush then raise (Reject (what ^ ": final flush out of place"));
           step what LFeed; closure ()
         | "C", "deq" ->
           pass_mid what;
           (match !s.w_kpc, !s.w_queue with
            | KDeq, Some _ :: _ -> step what (LCollect O)
            | KDeq, [] -> raise (Reject (what ^ ": collector dequeued bookkeeping that the model's feeder has not enqueued yet"))
            | _ -> raise (Reject (what ^ ": collector of the model is not at its dequeue")))
         | "C", "need" ->
           if int_of_nat !s.w_kneed <> n then raise (Reject (what ^ Printf.sprintf ": collector needs %d lines, model says %d" n (int_of_nat !s.w_kneed)))
         | "C", "line" ->
           if int_of_nat !s.w_klines <> n then raise (Reject (what ^ ": child line index out of sequence"));
           closure ();
           let st = !s in
           let avail = int_of_nat st.w_cwritten - int_of_nat st.w_kread in
           if avail > 0 && int_of_nat st.w_kread < int_of_nat (cum alen (S st.w_klines)) then step what (LCollect (nat_of_int avail));
           step what (LCollect O);
           if int_of_nat !s.w_klines <> n + 1 then raise (Reject (what ^ ": the collector read an answer to a line the feeder had not written yet"))
         | "C", "emit" ->
           if !s.w_kpc <> KLines || int_of_nat !s.w_kneed <> 0 then raise (Reject (what ^ ": emit before all lines of the record were read"));
           step what (LCollect O)
         | "C", "deq-poison" ->
           pass_mid what;
           (match !s.w_kpc, !s.w_queue with
            | KDeq, None :: _ -> step what (LCollect O)
            | _ -> raise (Reject (what ^ ": poison dequeued but the model's queue head is not the poison")))
         | "C", "child-eof" ->
           (* needs the child to have exited: the feeder must have closed its stdin *)
           ignore (try_step LFeed); closure (); ignore (try_step LFeed);
           ignore (try_step LChildEof); ignore (try_step LChildEof);
           step what (LCollect O)
         | "C", "peek-branch" ->
           (* the real queue was empty; the trace line of an enqueue is written just before the Produce, so the
              model may already see that entry: then the branch is passed as if the test had been false *)
           if !s.w_kpc <> KMid then raise (Reject (what ^ ": in-loop peek but the model's collector is not after an emit"));
           step what (LCollect O)
         | "C", "peek-byte" ->
           if !s.w_kpc = KMidW then begin
             closure ();
             step what (LCollect O);
             if !s.w_kpc <> KMid2 then raise (Reject (what ^ ": peek returned a byte but the model says end-of-file"));
             step what (LCollect O);
             if !s.w_kpc = KErr then raise (Reject (what ^ ": model reaches 'more output than input'"))
           end
         | "C", "peek-eof" ->
           if !s.w_kpc = KMidW then begin
             drive_child_exit ();
             step what (LCollect O);
             if !s.w_kpc = KMid2 then step what (LCollect O);
             if !s.w_kpc = KErr then raise (Reject (what ^ ": model aborts on the child's end-of-file in the in-loop peek"))
           end
         | _ -> raise (Reject (what ^ ": unknown event")))
       parsed;
     (* the rest of the run is not traced: feeder closes, child sees EOF and exits *)
     finish_record ();
     if !s.w_kpc = KMid && !s.w_queue <> [] then ignore (try_step (LCollect O));
     for _ = 1 to 4 do ignore (try_step LFeed); closure () done;
     ignore (try_step LChildEof); ignore (try_step LChildEof);
     ignore (try_step (LCollect O));
     let st = !s in
     let em = List.rev_map (fun (a, b) -> Printf.sprintf "%d+%d" (int_of_nat a) (int_of_nat b)) st.w_emitted in
     let h = Hashtbl.hash (String.concat "," em) in
     Printf.printf "ok terminal=%b records=%d lines=%d pairing=%d\n" (wterminal st) (List.length em) (int_of_nat st.w_klines) h
   with Reject msg -> print_endline ("reject " ^ msg))

let () =
  iter_lines (fun line ->
      match split_ws line with
      | "P" :: _ ->
        Printf.printf "cache order=%b pf=%b fp=%b rate=%d ; fold order=%b pf=%b fp=%b ; b64 order=%b pf=%b fp=%b\n"
          cache_order cache_poison_first cache_final_peek (int_of_nat cache_flush_rate)
          fold_order fold_poison_first fold_final_peek b64_order b64_poison_first b64_final_peek
      | "X" :: rest -> explore (kv_of_tokens rest)
      | "T" :: tool :: _ ->
        let kv = kv_of_tokens [tool] in
        let i = String.index line ' ' in
        let j = String.index_from line (i + 1) ' ' in
        let body = String.sub line (j + 1) (String.length line - j - 1) in
        (try replay kv (String.split_on_char ';' body) with Reject m -> print_endline ("reject " ^ m))
      | _ -> print_endline "?")
