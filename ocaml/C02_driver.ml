(* C02 driver: one case per line, same protocol as harness/hx_filepiece.cc
     R <page> <min_buffer> <delim> <cr> <api> <srchex|-> <script|->          pipe / read() path
     I <page> <min_buffer> <delim> <cr> <api> <srchex|->                     std::istream backing
     M <page> <min_buffer> <delim> <cr> <api> <filehex|-> <off> <script|-> [F0]  regular file (mmap path; F0: the first mmap fails)
   script: comma separated F | S<k> | E | X<errno>
   answer: recs=[hex][hex].. trace=req:ret,.. maps=off:size,.. eof=TT   or   FAIL <kind> *)
open Model
open Common

let parse_script (s : string) : outcome list =
  if s = "-" then [] else
    List.map (fun t ->
        match t.[0] with
        | 'F' -> Full
        | 'E' -> Eintr
        | 'S' -> Short (nat_of_int (int_of_string (String.sub t 1 (String.length t - 1))))
        | 'X' -> Err (z_of_int (int_of_string (String.sub t 1 (String.length t - 1))))
        | _ -> failwith "bad script") (String.split_on_char ',' s)

let unhex s = if s = "-" then [] else zlist_of_hex s

let err_name = function
  | EFuel -> "fuel" | EErrno _ -> "errno" | EEndOfFile -> "eof" | EWriteZero -> "writezero" | ECompressed -> "compressed"

let show_trace (t : (nat * z) list) : string =
  String.concat "," (List.rev_map (fun (n, r) -> Printf.sprintf "%d:%d" (int_of_nat n) (int_of_z r)) t)
let show_maps (t : (nat * nat) list) : string =
  String.concat "," (List.rev_map (fun (a, b) -> Printf.sprintf "%d:%d" (int_of_nat a) (int_of_nat b)) t)

let finish d cr (s : fp) =
  match read_all d cr s with
  | (Fail e, _) -> print_endline ("FAIL " ^ err_name e)
  | (Ok recs, s1) ->
    (* EOF must be sticky: two more calls *)
    let eofc s = match read_line d cr s with
      | (RlEOF, s') -> ("T", s') | (RlLine _, s') -> ("L", s') | (RlFail _, s') -> ("X", s') in
    let (a, s2) = eofc s1 in
    let (b, s3) = eofc s2 in
    let buf = Buffer.create 256 in
    Buffer.add_string buf "recs=";
    List.iter (fun r -> Buffer.add_string buf ("[" ^ hex_of_zlist r ^ "]")) recs;
    print_endline (Buffer.contents buf ^ " trace=" ^ show_trace (os_trace (fp_os s3)) ^ " maps=" ^ show_maps (fp_maps s3)
                   ^ " eof=" ^ a ^ b)

let () =
  iter_lines (fun line ->
      try
        match split_ws line with
        | ["R"; page; minb; d; cr; _api; src; script] ->
          let cap = initial_cap (nat_of_int (int_of_string page)) (nat_of_int (int_of_string minb)) in
          (match fp_open_read cap (os_init (unhex src) (parse_script script)) with
           | Fail e -> print_endline ("FAIL " ^ err_name e)
           | Ok s -> finish (z_of_int (int_of_string d)) (cr = "1") s)
        | ["I"; page; minb; d; cr; _api; src] ->
          let cap = initial_cap (nat_of_int (int_of_string page)) (nat_of_int (int_of_string minb)) in
          finish (z_of_int (int_of_string d)) (cr = "1") (fp_open_istream cap (unhex src))
        | ["M"; page; minb; d; cr; _api; file; off; script] ->
          let p = nat_of_int (int_of_string page) in
          let cap = initial_cap p (nat_of_int (int_of_string minb)) in
          (match fp_open_file p cap (unhex file) (nat_of_int (int_of_string off)) (parse_script script) with
           | Fail e -> print_endline ("FAIL " ^ err_name e)
           | Ok s -> finish (z_of_int (int_of_string d)) (cr = "1") s)
        | ["M"; page; minb; d; cr; _api; file; off; script; "F0"] ->
          let p = nat_of_int (int_of_string page) in
          let cap = initial_cap p (nat_of_int (int_of_string minb)) in
          (match fp_open_file_mmap_fails p cap (unhex file) (nat_of_int (int_of_string off)) (parse_script script) with
           | Fail e -> print_endline ("FAIL " ^ err_name e)
           | Ok s -> finish (z_of_int (int_of_string d)) (cr = "1") s)
        | _ -> print_endline "?"
      with Failure m -> print_endline ("? " ^ m))
