open Model
open Common

let print_fmt (f : fmt) =
  print_endline ("OK " ^ hex_of_zlist f.f_out ^ " " ^ string_of_z f.f_foot)

let digits_of_string (s : string) : z list =
  List.init (String.length s) (fun i -> z_of_int (Char.code s.[i]))

(* decomposition tokens as printed by the harness for DD/FD: "<sign> <digits> <dp>" | inf | -inf | nan *)
let dvalue_of (toks : string list) : dvalue =
  match toks with
  | "inf" :: _ -> DInf false
  | "-inf" :: _ -> DInf true
  | "nan" :: _ -> DNan
  | sign :: digits :: dp :: _ -> DFinite (sign = "1", digits_of_string digits, z_of_string dp)
  | _ -> failwith "bad decomposition"

let checksum (chunks : z list list) : string =
  let a = ref 1 and b = ref 0 in
  List.iter (fun ch -> List.iter (fun x -> a := (!a + (int_of_z x land 255)) mod 65521; b := (!b + !a) mod 65521) ch) chunks;
  string_of_int (!b * 65536 + !a)

let rec repeat_z (c : int) (n : int) (acc : z list) = if n <= 0 then acc else repeat_z c (n - 1) (z_of_int c :: acc)

let sop_of (tok : string) : sop =
  match String.split_on_char ':' tok with
  | ["w"; n] -> SWrite (repeat_z 120 (int_of_string n) [])
  | ["p"] -> SPut (z_of_int 99)
  | ["fl"] -> SFlush
  | ["u64"; v] -> SNumber (kBytes_u64, fmt_u64 (z_of_string v))
  | ["i64"; v] -> SNumber (kBytes_i64, fmt_i64 (z_of_string v))
  | ["u32"; v] -> SNumber (kBytes_u32, fmt_u32 (z_of_string v))
  | ["i32"; v] -> SNumber (kBytes_i32, fmt_i32 (z_of_string v))
  | "d" :: _bits :: rest -> SNumber (kBytes_double, fmt_double (dvalue_of (String.split_on_char ',' (String.concat ":" rest))))
  | "f" :: _bits :: rest -> SNumber (kBytes_float, fmt_double (dvalue_of (String.split_on_char ',' (String.concat ":" rest))))
  | _ -> failwith ("bad stream op " ^ tok)

let () =
  iter_lines (fun line ->
      match split_ws line with
      | ["K"] ->
        Printf.printf "bool=%s u16=%s i16=%s u32=%s i32=%s u64=%s i64=%s ptr=%s double=%s float=%s max=%s stream=%s block=%s blocks=%s\n"
          (string_of_z kBytes_bool) (string_of_z kBytes_u16) (string_of_z kBytes_i16) (string_of_z kBytes_u32) (string_of_z kBytes_i32)
          (string_of_z kBytes_u64) (string_of_z kBytes_i64) (string_of_z kBytes_ptr) (string_of_z kBytes_double) (string_of_z kBytes_float)
          (string_of_z kToStringMaxBytes) (string_of_z stream_cap)
          (string_of_z (if int_of_z block_queue_min > int_of_z kToStringMaxBytes then block_queue_min else kToStringMaxBytes)) (string_of_z kBlocks)
      | ["U32"; v] -> print_fmt (fmt_u32 (z_of_string v))
      | ["U64"; v] -> print_fmt (fmt_u64 (z_of_string v))
      | ["I32"; v] -> print_fmt (fmt_i32 (z_of_string v))
      | ["I64"; v] -> print_fmt (fmt_i64 (z_of_string v))
      | ["U16"; v] -> print_fmt (fmt_u16 (z_of_string v))
      | ["I16"; v] -> print_fmt (fmt_i16 (z_of_string v))
      | ["B"; v] -> print_fmt (fmt_bool (z_of_string v))
      | ["P"; v] -> print_fmt (fmt_ptr (z_of_string v))
      | "DL" :: _kind :: rest -> print_fmt (fmt_double (dvalue_of rest))
      | "ST" :: ops ->
        (match s_run stream_cap [] (List.map sop_of ops @ [SFlush]) with
         | None -> print_endline "OUT-OF-BOUNDS"
         | Some (_, chunks) ->
           print_endline ("OK" ^ String.concat "" (List.map (fun ch -> " " ^ string_of_int (List.length ch)) chunks) ^ " sum=" ^ checksum chunks))
      | "SS" :: ops ->
        (match ss_run [] (List.map sop_of ops) with
         | Some str -> print_endline ("OK " ^ string_of_int (List.length str) ^ " sum=" ^ checksum [str])
         | None -> print_endline "OUT-OF-BOUNDS")
      | "TS" :: ops ->
        (match t_run block_cap [] (List.map sop_of ops) with
         | TOk (b, blocks) ->
           let all = blocks @ t_destroy b in
           print_endline ("OK" ^ String.concat "" (List.map (fun ch -> " " ^ string_of_int (List.length ch)) all) ^ " sum=" ^ checksum all)
         | TOutOfBounds -> print_endline "OUT-OF-BOUNDS"
         | TFuel -> print_endline "FUEL")
      | _ -> print_endline "?")
