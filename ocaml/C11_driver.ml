open Model
open Common

(* outcome tokens:  o:<ret>:<hex>  |  e:<errno> *)
let outcome_of_token (t : string) : outcome =
  match String.split_on_char ':' t with
  | "o" :: n :: rest ->
    let hex = (match rest with h :: _ -> h | [] -> "") in
    let k = int_of_string n in
    let data = if hex = "" then List.init (max k 0) (fun _ -> Z0) else zlist_of_hex hex in
    Ok (z_of_int k, data)
  | "e" :: e :: _ -> Err (z_of_int (int_of_string e))
  | _ -> failwith ("bad outcome token " ^ t)

let zeros k = List.init k (fun _ -> Z0)

(* act tokens: r:fd:req  w:fd:len  f:fd  c:fd  x:fd:len *)
let act_of_token (t : string) : act =
  match String.split_on_char ':' t with
  | ["r"; fd; req] -> ARead (z_of_int (int_of_string fd), z_of_int (int_of_string req))
  | ["w"; fd; len] -> AWrite (z_of_int (int_of_string fd), zeros (int_of_string len))
  | ["f"; fd] -> AFsync (z_of_int (int_of_string fd))
  | ["c"; fd] -> AClose (z_of_int (int_of_string fd))
  | ["x"; fd; len] -> AFlushClose (z_of_int (int_of_string fd), zeros (int_of_string len))
  | _ -> failwith ("bad act token " ^ t)

let string_of_status = function
  | Exited c -> "exit:" ^ string_of_z c
  | Signaled s -> "sig:" ^ string_of_z s
  | StFuel -> "fuel"

let opname = function OpRead -> "read" | OpWrite -> "write" | OpFsync -> "fsync" | OpClose -> "close"

let string_of_event (with_data : bool) (e : event) : string =
  let ret, err = (match e.ev_out with Ok (n, _) -> (string_of_z n, "0") | Err x -> ("-1", string_of_z x)) in
  let base = Printf.sprintf "%s %s %s %s %s" (opname e.ev_op) (string_of_z e.ev_fd) (string_of_z e.ev_req) ret err in
  if with_data then base ^ " " ^ (if e.ev_data = [] then "-" else hex_of_zlist e.ev_data) ^ ";"
  else base ^ ";"

let rec split_bar (l : string list) (acc : string list) : string list * string list =
  match l with
  | [] -> (List.rev acc, [])
  | "|" :: r -> (List.rev acc, r)
  | x :: r -> split_bar r (x :: acc)

let conf_of = function
  | "process_unicode" -> conf_process_unicode
  | "mmhsum" -> conf_mmhsum
  | "gigaword_unwrap" -> conf_gigaword_unwrap
  | "order_independent_hash" -> conf_order_independent_hash
  | s -> failwith ("unknown iostream tool " ^ s)

let term_of (s : string) : term =
  match String.split_on_char ':' s with
  | ["exit"; c] -> TExit (z_of_int (int_of_string c))
  | ["sig"; x] -> TSignal (z_of_int (int_of_string x), false)
  | ["core"; x] -> TSignal (z_of_int (int_of_string x), true)
  | _ -> failwith "bad term"

let () =
  iter_lines (fun line ->
      match split_ws line with
      | "T" :: chunk :: fin :: rest ->
        let _, outs = split_bar rest [] in
        let orc = List.map outcome_of_token outs in
        let finb = if fin = "-" then [] else zlist_of_hex fin in
        let (st, evs) = tool_run (fun s d -> (s, d)) (fun _ -> finb) (z_of_int (int_of_string chunk)) () orc in
        print_endline (string_of_status st ^ " " ^ String.concat "" (List.map (string_of_event true) evs))
      | ("ROE" | "ROT") as which :: amount :: rest ->
        let _, outs = split_bar rest [] in
        let f = if which = "ROE" then readOrEOF else readOrThrow in
        let ((r, evs), _) = f Z0 (z_of_int (int_of_string amount)) (List.map outcome_of_token outs) in
        let st, tail = (match r with
            | Val d -> ("exit:0", " R:" ^ hex_of_zlist d)
            | Exn -> ("sig:" ^ string_of_z sIGABRT, "")
            | Abort -> ("sig:" ^ string_of_z sIGABRT, "")
            | Fuel -> ("fuel", "")) in
        print_endline (st ^ " " ^ String.concat "" (List.map (string_of_event true) evs) ^ tail)
      | "S" :: catches :: rest ->
        let acts, outs = split_bar rest [] in
        let (st, evs) = script_run (catches = "1") (List.map act_of_token acts) (List.map outcome_of_token outs) in
        print_endline (string_of_status st ^ " " ^ String.concat "" (List.map (string_of_event false) evs))
      | "WR" :: wr :: fd :: sent :: recs :: needs :: lines :: term :: rest ->
        (* WR <wrapper> <child stdin fd> <bytes fed> <bytes of output> <needs> <child lines> <term> | feeder outcomes | collector outcomes *)
        let _, r1 = split_bar rest [] in
        let fo, co = split_bar r1 [] in
        let w = (match wr with "cache" -> Cache | "foldfilter" -> Foldfilter | "b64filter" -> B64filter | _ -> failwith "bad wrapper") in
        let nl = if needs = "-" then [] else List.map (fun x -> nat_of_int (int_of_string x)) (String.split_on_char ',' needs) in
        let piece n = if int_of_string n = 0 then [] else [zeros (int_of_string n)] in
        let ((st, evf), evc) = wrapper_io_run w (z_of_int (int_of_string fd)) (piece sent) (piece recs) nl (nat_of_int (int_of_string lines)) (term_of term)
            (List.map outcome_of_token fo) (List.map outcome_of_token co) in
        print_endline (string_of_status st ^ " " ^ String.concat "" (List.map (string_of_event false) evf) ^ " | " ^ String.concat "" (List.map (string_of_event false) evc))
      | "L" :: words :: fd :: rest ->
        (* L <number of command words> <status pipe fd> | outcomes *)
        let _, outs = split_bar rest [] in
        let (st, evs) = launch_status (nat_of_int (int_of_string words)) (z_of_int (int_of_string fd)) (List.map outcome_of_token outs) (Exited Z0) in
        print_endline (string_of_status st ^ " " ^ String.concat "" (List.map (string_of_event false) evs))
      | "F" :: fd :: lens :: rest ->
        (* F <fd> <line lengths, comma or -> | outcomes : one shard output *)
        let _, outs = split_bar rest [] in
        let lines = if lens = "-" then [] else List.map (fun x -> zeros (int_of_string x)) (String.split_on_char ',' lens) in
        let (st, evs) = threaded_file_run (z_of_int (int_of_string fd)) lines (List.map outcome_of_token outs) in
        print_endline (string_of_status st ^ " " ^ String.concat "" (List.map (string_of_event false) evs))
      | "I" :: tool :: rest ->
        (* I <tool> <seg lens early, comma or -> <seg lens late> | outcomes *)
        let segs, outs = split_bar rest [] in
        let lens s = if s = "-" then [] else List.map (fun x -> zeros (int_of_string x)) (String.split_on_char ',' s) in
        let early, late = (match segs with [a; b] -> (lens a, lens b) | _ -> failwith "bad I line") in
        let (st, evs) = iostream_run (conf_of tool) early late (List.map outcome_of_token outs) in
        print_endline (string_of_status st ^ " " ^ String.concat "" (List.map (string_of_event false) evs))
      | "WM" :: wr :: needs :: lines :: tail :: term :: rest ->
        (* WM <wrapper> <child lines needed per input record, csv or -> <complete lines the child wrote> <bytes of an unterminated last line>
              <term> | feeder outcomes | collector outcomes
           the wrapper mains of Sys/WrapperMainDefs.v with the record logic instantiated by the given needs
           (record i: need_i lines sent to the child, need_i lines read back) *)
        let _, r1 = split_bar rest [] in
        let fo, co = split_bar r1 [] in
        let w = (match wr with "cache" -> Cache | "foldfilter" -> Foldfilter | "b64filter" -> B64filter | _ -> failwith "bad wrapper") in
        let nl = if needs = "-" then [] else List.map (fun x -> nat_of_int (int_of_string x)) (String.split_on_char ',' needs) in
        let x = z_of_int 120 and nlc = z_of_int 10 in
        let feed sf _ = (match sf with
            | n :: r -> ((r, n), List.init (int_of_nat n) (fun _ -> [x; nlc]))
            | [] -> (([], O), [])) in
        let emit () _ ls = ((), List.map (fun l -> l @ [nlc]) ls) in
        let input = List.concat (List.map (fun _ -> [x; nlc]) nl) in
        let child_out = List.concat (List.init (int_of_string lines) (fun _ -> [x; nlc])) @ List.init (int_of_string tail) (fun _ -> x) in
        let ((st, evf), evc) = wrapper_main_run feed (fun d -> d) emit w (nat_of_int 4096) nl () (z_of_int 4) (z_of_int 5) input child_out (term_of term)
            (List.map outcome_of_token fo) (List.map outcome_of_token co) in
        print_endline (string_of_status st ^ " " ^ String.concat "" (List.map (string_of_event false) evf) ^ " | " ^ String.concat "" (List.map (string_of_event false) evc))
      | ["WAIT"; term] -> print_endline (string_of_z (wait (wstatus (term_of term))))
      | ["WAITRAW"; w] -> print_endline (string_of_z (wait (z_of_int (int_of_string w))))
      | ["CONST"] ->
        Printf.printf "EINTR=%s EIO=%s EAGAIN=%s EISDIR=%s EINVAL=%s EFBIG=%s ENOSPC=%s EROFS=%s EPIPE=%s ENOTSUP=%s SIGABRT=%s SIGPIPE=%s kBufferSize=%s\n"
          (string_of_z eINTR) (string_of_z eIO) (string_of_z eAGAIN) (string_of_z eISDIR) (string_of_z eINVAL) (string_of_z eFBIG)
          (string_of_z eNOSPC) (string_of_z eROFS) (string_of_z ePIPE) (string_of_z eNOTSUP) (string_of_z sIGABRT) (string_of_z sIGPIPE)
          (string_of_z kBufferSize)
      | _ -> print_endline "?")
