open Model
open Common

(* protocol (all numbers decimal, all byte strings hex; "-" is the empty string):
   H <seed> <hex>            MurmurHash64A
   N <seed> <hex>            MurmurHashNative
   B <seed> <hex>            MurmurHash64B
   A <align> <seed> <hex>    MurmurHash64A and Native on the string placed at a start address = align (mod 16)
   M <seed> <len> <hex>      MurmurHash64A(key, len) with memory longer than len
   F <seed> <hex> ...        HashCallback(seed) over the pieces
   S <n> <hex> ...           shard index of the pieces among n shards
   K <hexlowered> <hexsrc>   case-model key (train side) ; A ... (apply side)
   X <hex>                   mmhsum value ;  O <hex> ... order_independent_hash of the lines
   R <seed> <hex>            the independent reference
   C                         constants *)
let bytes_of s = if s = "-" then [] else zlist_of_hex s

let () =
  iter_lines (fun line ->
      match split_ws line with
      | [ "H"; seed; h ] -> print_endline (string_of_z (murmur64a (bytes_of h) (z_of_string seed)))
      | [ "N"; seed; h ] -> print_endline (string_of_z (murmur_native (bytes_of h) (z_of_string seed)))
      | [ "B"; seed; h ] ->
        (match murmur64b (bytes_of h) (z_of_string seed) with Some v -> print_endline (string_of_z v) | None -> print_endline "FUEL")
      | [ "R"; seed; h ] -> print_endline (string_of_z (murmur_ref (bytes_of h) (z_of_string seed)))
      | [ "A"; _align; seed; h ] -> print_endline (string_of_z (murmur64a (bytes_of h) (z_of_string seed)))
      | [ "M"; seed; len; h ] -> print_endline (string_of_z (murmur64a_mem (bytes_of h) (z_of_string len) (z_of_string seed)))
      | "F" :: seed :: pieces -> print_endline (string_of_z (hash_fold (z_of_string seed) (List.map bytes_of pieces)))
      | "S" :: n :: pieces -> print_endline (string_of_z (shard_index (List.map bytes_of pieces) (z_of_string n)))
      | [ "K"; lo; src ] -> print_endline (string_of_z (case_key_train (bytes_of lo) (bytes_of src) (bytes_of lo)))
      | [ "K"; lo; src; tgt ] -> print_endline (string_of_z (case_key_train (bytes_of lo) (bytes_of src) (bytes_of tgt)))
      | [ "A"; lo; src ] -> print_endline (string_of_z (case_key_apply (bytes_of lo) (bytes_of src)))
      | [ "X"; h ] -> print_endline (string_of_z (mmhsum (bytes_of h)))
      | "O" :: lines -> print_endline (string_of_z (order_independent_hash (List.map bytes_of lines)))
      | [ "C" ] ->
        print_endline (Printf.sprintf "shard_seed=%s native_is_64a=%d default_seed_64a=%s" (string_of_z shard_seed)
                         (if int_of_z native_64b_pointer_size <> 8 then 1 else 0) (string_of_z default_seed_64a))
      | _ -> print_endline "?")
