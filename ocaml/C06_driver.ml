(* C06 driver.
   S <n> <inputhex|-> <hash,hash,...|->   whole tool on an input: the key hash of
        the i-th record is the i-th number (exported from the implementation);
        prints the n shard contents  OK <hex|->,<hex|->,...
   N <prefixhex|-> <number>               names of --prefix/--number  OK <hex>,<hex>,...
   B <len>                                block sizes handed to the writer for len bytes
   T <n> <spechex> <delimhex> <inputhex|->  whole tool, key hash computed by the Coq models (Fields + Murmur) *)
open Model
open Common

let hex_or_dash l = if l = [] then "-" else hex_of_zlist l

let () =
  iter_lines (fun line ->
      match split_ws line with
      | ["S"; n; input; hashes] ->
        let n = n_of_string n in
        let bs = if input = "-" then [] else zlist_of_hex input in
        let hs = if hashes = "-" then [||] else Array.of_list (List.map n_of_string (String.split_on_char ',' hashes)) in
        (* the abstract key hash: looked up by position.  The model calls keyhash
           on the record; records are numbered in input order by a counter that
           follows the model's left-to-right fold. *)
        let recs = records_fast (z_of_int 10) shard_strip_cr bs in
        if List.length recs <> Array.length hs then
          print_endline (Printf.sprintf "MISMATCH model sees %d records, implementation hashed %d" (List.length recs) (Array.length hs))
        else begin
          (* equal records must have equal hashes (function of the line) *)
          let key r = let b = Buffer.create 64 in List.iter (fun x -> Buffer.add_char b (Char.chr ((int_of_z x) land 255))) r; Buffer.contents b in
          let tbl = Hashtbl.create 4096 in
          let ok = ref true in
          List.iteri (fun i r ->
              let k = key r in
              match Hashtbl.find_opt tbl k with
              | Some h -> if h <> hs.(i) then ok := false
              | None -> Hashtbl.add tbl k hs.(i)) recs;
          if not !ok then print_endline "MISMATCH the same line got two different hashes"
          else
            let keyhash r = match Hashtbl.find_opt tbl (key r) with Some h -> h | None -> N0 in
            let outs = shard_tool_fast keyhash n bs in
            print_endline ("OK " ^ String.concat "," (List.map hex_or_dash outs))
        end
      | ["N"; prefix; number] ->
        let p = if prefix = "-" then [] else zlist_of_hex prefix in
        let l = names p (n_of_string number) in
        print_endline ("OK " ^ (if l = [] then "-" else String.concat "," (List.map hex_or_dash l)))
      | ["B"; len] ->
        let k = int_of_string len in
        let bs = List.init k (fun _ -> z_of_int 65) in
        print_endline ("OK " ^ String.concat "," (List.map (fun b -> string_of_int (List.length b)) (blocks bs)))
      | ["T"; n; spec; delim; input] ->
        (* the whole tool with the key computed by the Coq models of RangeFields and Murmur *)
        let bs = if input = "-" then [] else zlist_of_hex input in
        let d = match zlist_of_hex delim with c :: _ -> c | [] -> z_of_int 9 in
        (match shard_tool_fields (zlist_of_hex spec) d (n_of_string n) bs with
         | Some outs -> print_endline ("OK " ^ String.concat "," (List.map hex_or_dash outs))
         | None -> print_endline "BADSPEC")
      | ["A"; fields; prefix; number; outputs; compress] ->
        (* option handling: fields hex, prefix hex | "-" (absent), number | "-" (absent), outputs hex,hex | "-", compress hex *)
        let o = { o_fields = zlist_of_hex fields;
                  o_prefix = (if prefix = "-" then None else Some (if prefix = "e" then [] else zlist_of_hex prefix));
                  o_number = (if number = "-" then None else Some (n_of_string number));
                  o_outputs = (if outputs = "-" then [] else List.map zlist_of_hex (String.split_on_char ',' outputs));
                  o_compress = zlist_of_hex compress } in
        (match shard_parse_args o with
         | None -> print_endline "ERR"
         | Some ((_, outs), c) ->
           print_endline ("OK " ^ String.concat "," (List.map hex_or_dash outs) ^ " " ^ (match c with CNone -> "0" | CGzip -> "1" | CBzip -> "2")))
      | ["K"] -> print_endline ("K " ^ string_of_int (int_of_n kBlockSize))
      | _ -> print_endline "?")
