From Coq Require Import Extraction ExtrOcamlBasic.
From PP Require Import Shard.ShardDefs Shard.ShardConcrete.
Extraction "model.ml" Z.of_N Z.to_N Z.of_nat Z.to_nat N.of_nat N.to_nat N.add N.mul Z.opp
  shard shard_tool shard_tool_fast records_fast shard_bytes names digits_of pad decimal blocks index kBlockSize shard_cb_seed shard_tool_fields shard_parse_args.
