From Coq Require Import Extraction ExtrOcamlBasic.
From PP Require Import Shard.ShardDefs.
Extraction "model.ml" Z.of_N Z.to_N Z.of_nat Z.to_nat N.of_nat N.to_nat N.add N.mul Z.opp
  shard shard_tool shard_bytes names digits_of pad decimal blocks index kBlockSize shard_seed.
