From Coq Require Import Extraction ExtrOcamlBasic.
From PP Require Import Fields.FieldsDefs.
Extraction "model.ml" Z.of_N Z.to_N Z.of_nat Z.to_nat N.of_nat N.to_nat N.add N.mul Z.opp
  parse_fields defragment parse_key_spec range_fields individual_fields key_of shard_key dedupe_key cache_key_of
  split_fields join_fields spec_pieces spec_individual contains_allb kInfiniteEnd ulong_max
  dedupe_default_fields dedupe_default_delim shard_default_fields shard_default_delim cache_default_key cache_default_separator.
