From Coq Require Import Extraction ExtrOcamlBasic.
From PP Require Import Utf8.Utf8Defs.
Extraction "model.ml" Z.of_N Z.to_N Z.of_nat Z.to_nat N.of_nat N.to_nat N.add N.mul Z.opp
  decode_utf8 iterate_utf8 is_utf8 remove_invalid_utf8 pair_row compose3 compose4 table37_len trail37 utf8_encode scalar_of kUnicodeError strip_spaces.
