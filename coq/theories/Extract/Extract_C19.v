From Coq Require Import Extraction ExtrOcamlBasic.
From PP Require Import Unicode.FlattenDefs Unicode.MainDefs.
Extraction "model.ml" Z.of_N Z.to_N Z.of_nat Z.to_nat N.of_nat N.to_nat N.add N.mul Z.opp
  from_utf8 to_utf8 flatten_for flatten_apply flatten_spec cps_of_utf16 utf16_of_cps
  process_unicode line_spec lookup
  flatten_copy_advances_by_length pu_prints_cur pu_default_language flatten_languages.
