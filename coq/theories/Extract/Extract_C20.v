From Coq Require Import Extraction ExtrOcamlBasic.
From PP Require Import ToStr.ToStringDefs.
Extraction "model.ml" Z.of_N Z.to_N Z.of_nat Z.to_nat N.of_nat N.to_nat N.add N.mul Z.opp
  fmt_u32 fmt_u64 fmt_i32 fmt_i64 fmt_u16 fmt_i16 fmt_bool fmt_ptr fmt_double
  dvalue_ok_double dvalue_ok_float s_run stream_cap t_run t_destroy block_cap ss_run
  kBytes_bool kBytes_u16 kBytes_i16 kBytes_u32 kBytes_i32 kBytes_u64 kBytes_i64 kBytes_ptr kBytes_double kBytes_float
  kToStringMaxBytes block_queue_min kBlocks.
