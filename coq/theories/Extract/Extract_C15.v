From Coq Require Import Extraction ExtrOcamlBasic.
From PP Require Import Compress.CompressDefs.
Extraction "model.ml" Z.of_N Z.to_N Z.of_nat Z.to_nat N.of_nat N.to_nat N.add N.mul Z.opp
  read_file write_session gz_compress write_plain detect_magic kMagicSize kInputBuffer.
