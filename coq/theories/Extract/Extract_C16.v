From Coq Require Import Extraction ExtrOcamlBasic.
From PP Require Import Gen.Src_queues Queues.UsqDefs Queues.PcqDefs Queues.RingDefs.
Extraction "model.ml" Z.of_N Z.to_N Z.of_nat Z.to_nat N.of_nat N.to_nat N.add N.mul Z.opp
  py_step py_pending
  usq_page_size usq_valid_init pcq_empty_init pcq_used_init ring_blocks ring_block_size ring_put_u64 ring_output_init ring_trash_init
  usq_init usq_step usq_tag usq_finished
  pcq_init pcq_step pcq_tag pcq_finished
  ring_init ring_step ring_tag ring_finished ring_started.
