From Coq Require Import Extraction ExtrOcamlBasic.
From PP Require Import Fold.FoldDefs.
Extraction "model.ml" Z.of_N Z.to_N Z.of_nat Z.to_nat N.of_nat N.to_nat N.add N.mul Z.opp
  decode_utf8 wrap_lines foldfilter foldfilter_tool foldfilter_cli foldfilter_cli2 parse_delims foldfilter_stream line_child parse_width check_wrap utf8_valid
  fold_feeder_strip_cr fold_collector_strip_cr fold_default_width fold_default_keep fold_default_delims fold_s_sets_keep.
