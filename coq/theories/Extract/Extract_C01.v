From Coq Require Import Extraction ExtrOcamlBasic ZArith NArith.
From PP Require Import Base.Lines Probing.ProbingDefs Tools.DedupeDefs Tools.DedupeFull.
Extraction "model.ml" Z.of_N Z.to_N Z.of_nat Z.to_nat N.of_nat N.to_nat N.add N.mul Z.opp
  records unrecords tool_lines dedupe dedupe_par dedupe_tool dedupe_par_tool first_occ par_spec dedupe_tool_real dedupe_par_tool_real.
