From Coq Require Import Extraction ExtrOcamlBasic.
From PP Require Import Warc.WarcDefs.
Extraction "model.ml" Z.of_N Z.to_N Z.of_nat Z.to_nat N.of_nat N.to_nat N.add N.mul Z.opp
  warc_file strtoll warc_kRead.
