From Coq Require Import Extraction ExtrOcamlBasic ZArith NArith.
From PP Require Import Base.Lines Probing.ProbingDefs Tools.DedupeDefs Tools.FiltersDefs Hash.MurmurDefs.
Extraction "model.ml" Z.of_N Z.to_N Z.of_nat Z.to_nat N.of_nat N.to_nat N.add N.mul Z.opp
  records unrecords lines_of lines_of_utf8_tool lines_of_parallel bytes_of remove_long_lines remove_invalid_utf8 remove_invalid_utf8_base64
  subtract_lines commoncrawl_dedupe strip_spaces wf_utf8 decode1 sc_filter sc_line_keep simple_cleaning
  remove_long_lines_loop remove_invalid_utf8_loop simple_cleaning_loop subtract_spec cc_spec subtract_insert_key subtract_lookup_key commoncrawl_dedupe_key.
