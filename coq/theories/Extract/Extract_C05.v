From Coq Require Import Extraction ExtrOcamlBasic.
From Coq Require Import ZArith.
From PP Require Import Gen.Src_wrappers Wrap.WrapDefs.
Extraction "model.ml" Z.of_N Z.to_N Z.of_nat Z.to_nat N.of_nat N.to_nat N.add N.mul Z.opp
  cache_order cache_poison_first cache_final_peek fold_order fold_poison_first fold_final_peek
  b64_order b64_poison_first b64_final_peek cache_flush_rate fold_mid_peek fold_peek_eof_ok
  w_init wstep wstuck wterminal wlabels cum.
