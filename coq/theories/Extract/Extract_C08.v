From Coq Require Import Extraction ExtrOcamlBasic.
From PP Require Import B64.B64FilterDefs.
Extraction "model.ml" Z.of_N Z.to_N Z.of_nat Z.to_nat N.of_nat N.to_nat N.add N.mul Z.opp
  b64filter b64filter_tool b64filter_tool_stream b64filter_child_stdin feed_doc doc_spec
  b64f_feeder_strip_cr b64f_collector_strip_cr b64f_back_guarded.
