From Coq Require Import Extraction ExtrOcamlBasic.
From PP Require Import B64.Base64Defs Docenc.DocencDefs.
Extraction "model.ml" Z.of_N Z.to_N Z.of_nat Z.to_nat N.of_nat N.to_nat N.add N.mul Z.opp
  base64_encode base64_decode rfc4648 strip_padding decode_tool encode_tool parse_range.
