From Coq Require Import Extraction ExtrOcamlBasic ZArith NArith.
From PP Require Import Probing.ProbingDefs.
Extraction "model.ml" Z.of_N Z.to_N Z.of_nat Z.to_nat N.of_nat N.to_nat N.add N.mul Z.opp
  auto_init auto_init_n initial_buckets threshold_of step run auto_size.
