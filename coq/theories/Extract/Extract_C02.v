From Coq Require Import Extraction ExtrOcamlBasic.
From PP Require Import Reader.FilePieceDefs.
Extraction "model.ml" Z.of_N Z.to_N Z.of_nat Z.to_nat N.of_nat N.to_nat N.add N.mul Z.opp
  os_init initial_cap fp_open_read fp_open_istream fp_open_file fp_open_file_mmap_fails read_line read_all records
  fp_os fp_maps os_trace.
