From Coq Require Import Extraction ExtrOcamlBasic.
From PP Require Import Hash.MurmurDefs.
Extraction "model.ml" Z.of_N Z.to_N Z.of_nat Z.to_nat N.of_nat N.to_nat N.add N.mul Z.opp
  murmur64a murmur64a_mem murmur_native hash_fold shard_hash shard_index dedupe_line_key dedupe_field_key cache_key
  subtract_insert_key subtract_lookup_key commoncrawl_dedupe_key case_key_train case_key_apply
  mmhsum mmhsum_with order_independent_hash murmur_ref murmur64b murmur_native_for
  murmur_m murmur_r murmur_tail_cases shard_seed native_64b_pointer_size default_seed_64a.
