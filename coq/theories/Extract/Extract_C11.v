From Coq Require Import Extraction ExtrOcamlBasic.
From PP Require Import Sys.ExitDefs Sys.ThreadedIODefs Sys.WrapperIODefs Sys.WrapperMainDefs.
Extraction "model.ml" Z.of_N Z.to_N Z.of_nat Z.to_nat N.of_nat N.to_nat N.add N.mul Z.opp
  tool_run ReadOrEOF ReadOrThrow script_run iostream_run threaded_file_run wrapper_io_run launch_status wrapper_main_run Wait wstatus any_failed accepted
  conf_process_unicode conf_mmhsum conf_gigaword_unwrap conf_order_independent_hash
  EINTR EIO EAGAIN EISDIR EINVAL EFBIG ENOSPC EROFS EPIPE ENOTSUP SIGABRT SIGPIPE kBufferSize.
