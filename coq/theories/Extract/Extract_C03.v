From Coq Require Import Extraction ExtrOcamlBasic.
From PP Require Import Reader.FilePieceDefs.
Extraction "model.ml" Z.of_N Z.to_N Z.of_nat Z.to_nat N.of_nat N.to_nat N.add N.mul Z.opp
  os_init partial_read read_or_eof read_or_throw write_or_throw ersatz_pread ersatz_pwrite
  bs_run tbs_run rc_open_read_or_eof os_trace os_sink bs_buffer_size tbs_block_size.
