From Coq Require Import Extraction ExtrOcamlBasic ZArith.
From PP Require Import Wrap.CacheDefs.
Extraction "model.ml" Z.of_N Z.to_N Z.of_nat Z.to_nat N.of_nat N.to_nat N.add N.mul Z.opp
  feeder sent collector collector_needs cache_run cache_run_gen.
