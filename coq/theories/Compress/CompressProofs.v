(* Proofs about the driver model of util/compress.cc (C15). *)
From PP Require Import Compress.CompressDefs.
From Coq Require Import Lia ZifyBool.
Local Open Scope N_scope.

(* ------------------------------------------------------------ list helpers *)
Lemma len_nil {A} : len (@nil A) = 0.
Proof. reflexivity. Qed.

Lemma len_app {A} (a b : list A) : len (a ++ b) = len a + len b.
Proof. unfold len. rewrite app_length. lia. Qed.

Lemma len_zero_nil {A} (l : list A) : len l = 0 -> l = [].
Proof. destruct l; [reflexivity|]. unfold len. simpl. lia. Qed.

Lemma len_pos {A} (l : list A) : l <> [] -> 0 < len l.
Proof. destruct l; [congruence|]. unfold len. simpl. lia. Qed.

Lemma len_length {A} (l : list A) : N.to_nat (len l) = length l.
Proof. unfold len. lia. Qed.

Lemma takeN_dropN {A} n (l : list A) : takeN n l ++ dropN n l = l.
Proof. apply firstn_skipn. Qed.

Lemma len_takeN {A} n (l : list A) : len (takeN n l) = N.min n (len l).
Proof. unfold takeN, len. rewrite firstn_length. lia. Qed.

Lemma len_dropN {A} n (l : list A) : len (dropN n l) = len l - n.
Proof. unfold dropN, len. rewrite skipn_length. lia. Qed.

Lemma takeN_all {A} n (l : list A) : len l <= n -> takeN n l = l.
Proof. intros H. unfold takeN. apply firstn_all2. unfold len in H. lia. Qed.

Lemma dropN_all {A} n (l : list A) : len l <= n -> dropN n l = [].
Proof. intros H. unfold dropN. apply skipn_all2. unfold len in H. lia. Qed.

Lemma dropN_0 {A} (l : list A) : dropN 0 l = l.
Proof. reflexivity. Qed.

Lemma takeN_0 {A} (l : list A) : takeN 0 l = [].
Proof. reflexivity. Qed.

Lemma dropN_app_le {A} n (a b : list A) : n <= len a -> dropN n (a ++ b) = dropN n a ++ b.
Proof.
  intros H. unfold dropN. rewrite skipn_app.
  replace (N.to_nat n - length a)%nat with 0%nat by (unfold len in H; lia). reflexivity.
Qed.

Lemma takeN_app_le {A} n (a b : list A) : n <= len a -> takeN n (a ++ b) = takeN n a.
Proof.
  intros H. unfold takeN. rewrite firstn_app.
  replace (N.to_nat n - length a)%nat with 0%nat by (unfold len in H; lia).
  simpl. apply app_nil_r.
Qed.

Lemma dropN_app_len {A} (a b : list A) : dropN (len a) (a ++ b) = b.
Proof.
  unfold dropN. rewrite len_length. rewrite skipn_app, skipn_all, Nat.sub_diag. reflexivity.
Qed.

Lemma takeN_app_len {A} (a b : list A) : takeN (len a) (a ++ b) = a.
Proof.
  unfold takeN. rewrite len_length. rewrite firstn_app, firstn_all, Nat.sub_diag. simpl. apply app_nil_r.
Qed.

Lemma skipn_skipn_add {A} (y : nat) : forall (x : nat) (l : list A), skipn x (skipn y l) = skipn (y + x) l.
Proof.
  induction y as [|y IH]; intros x l; [reflexivity|].
  destruct l as [|a l]; [simpl; apply skipn_nil|]. simpl. apply IH.
Qed.

Lemma dropN_dropN {A} n m (l : list A) : dropN n (dropN m l) = dropN (m + n) l.
Proof. unfold dropN. rewrite skipn_skipn_add. f_equal. lia. Qed.

(* two decompositions of the same list: one of the left parts is a prefix of the other *)
Lemma app_eq_app_len {A} (a b c d : list A) :
  a ++ b = c ++ d -> len a <= len c -> exists t, c = a ++ t /\ b = t ++ d.
Proof.
  revert c. induction a as [|x a IH]; intros c H L.
  - exists c. split; [reflexivity|exact H].
  - destruct c as [|y c]; [unfold len in L; simpl in L; lia|].
    simpl in H. inversion H; subst.
    destruct (IH c H2) as [t [E1 E2]]; [unfold len in *; simpl in L; lia|].
    exists t. split; [simpl; congruence|exact E2].
Qed.

Definition fbytes (f : frags) : list Z := concat f.

(* ------------------------------------------------------------ the file layer *)
Lemma partial_read_spec f n got f' :
  partial_read f n = (got, f') ->
  fbytes f = got ++ fbytes f' /\ len got <= n /\ (got = [] -> 0 < n -> fbytes f = []).
Proof.
  revert got f'. induction f as [|fr r IH]; intros got f' H; simpl in H.
  - inversion H; subst. repeat split; auto. rewrite len_nil. lia.
  - destruct fr as [|b fr].
    + apply IH in H. exact H.
    + destruct (n <? len (b :: fr)) eqn:E.
      * inversion H; subst. unfold fbytes. simpl concat.
        split; [|split].
        -- rewrite app_assoc, takeN_dropN. reflexivity.
        -- rewrite len_takeN. lia.
        -- intros Hn Hp. exfalso.
           assert (L : len (takeN n (b :: fr)) = 0) by (rewrite Hn; reflexivity).
           rewrite len_takeN in L. lia.
      * inversion H; subst. unfold fbytes. simpl concat.
        split; [reflexivity|split].
        -- apply N.ltb_ge in E. exact E.
        -- intros Hn. discriminate.
Qed.

Lemma read_or_eof_loop_spec fuel : forall f n got f',
  (N.to_nat n <= fuel)%nat ->
  read_or_eof_loop fuel f n = (got, f') ->
  fbytes f = got ++ fbytes f' /\ got = takeN n (fbytes f).
Proof.
  induction fuel as [|k IH]; intros f n got f' Hf H; simpl in H.
  - inversion H; subst. assert (n = 0) by lia. subst. split; reflexivity.
  - destruct (n =? 0) eqn:E0.
    + apply N.eqb_eq in E0. subst. inversion H; subst. split; reflexivity.
    + apply N.eqb_neq in E0.
      destruct (partial_read f n) as [g f1] eqn:EP.
      apply partial_read_spec in EP. destruct EP as [Hb [Hl Hz]].
      destruct g as [|x g].
      * inversion H; subst. assert (Hz' : fbytes f = []) by (apply Hz; [reflexivity|lia]).
        simpl in Hb. split; [exact Hb|].
        rewrite Hz'. unfold takeN. rewrite firstn_nil. reflexivity.
      * destruct (read_or_eof_loop k f1 (n - len (x :: g))) as [more f2] eqn:ER.
        inversion H; subst.
        assert (Lx : 0 < len (x :: g)) by (apply len_pos; discriminate).
        apply IH in ER; [|lia].
        destruct ER as [Hb2 Hm].
        split.
        -- rewrite Hb, Hb2. change (x :: g ++ more) with ((x :: g) ++ more).
           rewrite <- app_assoc. reflexivity.
        -- rewrite Hb. rewrite Hm. change (x :: g ++ takeN (n - len (x :: g)) (fbytes f1))
             with ((x :: g) ++ takeN (n - len (x :: g)) (fbytes f1)).
           remember (x :: g) as xs.
           unfold takeN. replace (N.to_nat n) with (length xs + N.to_nat (n - len xs))%nat
             by (unfold len in *; lia).
           rewrite firstn_app_2. reflexivity.
Qed.

Lemma read_or_eof_spec f n got f' :
  read_or_eof f n = (got, f') ->
  got = takeN n (fbytes f) /\ fbytes f' = dropN n (fbytes f).
Proof.
  intros H. apply read_or_eof_loop_spec in H; [|lia].
  destruct H as [Hb Hg]. split; [exact Hg|].
  pose proof (takeN_dropN n (fbytes f)) as T.
  rewrite Hb in T at 3. rewrite <- Hg in T.
  apply app_inv_head in T. symmetry. exact T.
Qed.

(* ------------------------------------------------------------ magic detection *)
Lemma starts_with_app p : forall l t, starts_with p l = true -> starts_with p (l ++ t) = true.
Proof.
  induction p as [|a p IH]; intros l t H; [reflexivity|].
  destruct l as [|b l]; [discriminate|].
  simpl in *. apply andb_true_iff in H. destruct H as [H1 H2].
  rewrite H1. simpl. apply IH. exact H2.
Qed.

Lemma starts_with_take p : forall l n, starts_with p l = true -> (length p <= n)%nat ->
  starts_with p (firstn n l) = true.
Proof.
  induction p as [|a p IH]; intros l n H L; [reflexivity|].
  destruct l as [|b l]; [discriminate|].
  destruct n as [|n]; [simpl in L; lia|].
  simpl in *. apply andb_true_iff in H. destruct H as [H1 H2].
  rewrite H1. simpl. apply IH; [exact H2|lia].
Qed.

Lemma starts_with_nonempty k l : starts_with (magic_of k) l = true -> l <> [].
Proof. destruct k; destruct l; simpl; congruence. Qed.

Lemma detect_magic_of k h : starts_with (magic_of k) h = true -> detect_magic h = Some k.
Proof.
  intros H. unfold detect_magic. destruct h as [|b h]; [destruct k; discriminate|].
  destruct k; unfold magic_of in H.
  - rewrite H. reflexivity.
  - assert (E1 : starts_with gz_magic (b :: h) = false).
    { unfold gz_magic, bz_magic in *. cbn [starts_with] in *.
      apply andb_true_iff in H. destruct H as [H _].
      destruct (31 =? b)%Z eqn:E; [|reflexivity]. lia. }
    rewrite E1, H. reflexivity.
  - assert (E1 : starts_with gz_magic (b :: h) = false).
    { unfold gz_magic, xz_magic in *. cbn [starts_with] in *.
      apply andb_true_iff in H. destruct H as [H _].
      destruct (31 =? b)%Z eqn:E; [|reflexivity]. lia. }
    assert (E2 : starts_with bz_magic (b :: h) = false).
    { unfold bz_magic, xz_magic in *. cbn [starts_with] in *.
      apply andb_true_iff in H. destruct H as [H _].
      destruct (66 =? b)%Z eqn:E; [|reflexivity]. lia. }
    rewrite E1, E2, H. reflexivity.
Qed.

Lemma magic_len_le k : (length (magic_of k) <= N.to_nat kMagicSize)%nat.
Proof. destruct k; vm_compute; lia. Qed.

(* ------------------------------------------------------------ the codec contract (decoder) *)
Definition rc_end (k : kind) : Z :=
  match k with KGz => Z_STREAM_END | KBz => BZ_STREAM_END | KXz => LZMA_STREAM_END end.
Definition rc_ok (k : kind) : Z :=
  match k with KGz => Z_OK | KBz => BZ_OK | KXz => LZMA_OK end.

(* the input offered to the decoder and the bytes it still expects agree on their common prefix *)
Definition agree (inp pin : list Z) : Prop :=
  (exists t, pin = inp ++ t) \/ (exists t, inp = pin ++ t).

Lemma process_read_end k ni no : process_read k (rc_end k) ni no = PEnd.
Proof. destruct k; reflexivity. Qed.

Lemma process_read_ok k ni no : ni && no = false -> process_read k (rc_ok k) ni no = PContinue.
Proof.
  intros H. destruct k; try reflexivity.
  unfold process_read, rc_ok. change (BZ_OK =? BZ_STREAM_END)%Z with false.
  change (mem BZ_OK bz_fine) with true. cbv iota.
  destruct bz_read_stall_check; [|reflexivity].
  rewrite <- andb_assoc. rewrite H. reflexivity.
Qed.

(* the refill step and the header computation, named *)
Definition refill (k : kind) (inbuf : list Z) (f : frags) (fin : bool) : list Z * frags * bool :=
  match inbuf with
  | [] => let (got, f') := read_or_eof f kInputBuffer in
          (got, f', fin || (match k with KXz => is_nil got | _ => false end))
  | _ => (inbuf, f, fin)
  end.

Lemma refill_spec k inbuf f fin inbuf1 f1 fin1 :
  refill k inbuf f fin = (inbuf1, f1, fin1) ->
  inbuf1 ++ fbytes f1 = inbuf ++ fbytes f /\ (inbuf1 = [] -> fbytes f1 = []).
Proof.
  unfold refill. destruct inbuf as [|b inbuf].
  - destruct (read_or_eof f kInputBuffer) as [got f'] eqn:E. intros H. inversion H; subst.
    apply read_or_eof_spec in E. destruct E as [Eg Ef].
    split.
    + rewrite Eg, Ef. simpl. apply takeN_dropN.
    + intros Hn. rewrite Ef. rewrite Hn in Eg.
      assert (L : len (takeN kInputBuffer (fbytes f)) = 0) by (rewrite <- Eg; reflexivity).
      rewrite len_takeN in L. apply dropN_all.
      assert (0 < kInputBuffer) by (vm_compute; reflexivity). lia.
  - intros H. inversion H; subst. split; [reflexivity|discriminate].
Qed.

Definition fact_header (f : frags) (already : list Z) : list Z * frags :=
  if len already <? kMagicSize
  then let (got, f') := read_or_eof f (kMagicSize - len already) in (already ++ got, f')
  else (already, f).

Lemma fact_header_spec f already header f1 :
  fact_header f already = (header, f1) ->
  header ++ fbytes f1 = already ++ fbytes f /\ (kMagicSize <= len header \/ fbytes f1 = []).
Proof.
  unfold fact_header. destruct (len already <? kMagicSize) eqn:E.
  - destruct (read_or_eof f (kMagicSize - len already)) as [got f'] eqn:ER.
    intros H. inversion H; subst. apply read_or_eof_spec in ER. destruct ER as [Eg Ef].
    split.
    + rewrite <- app_assoc. f_equal. rewrite Eg, Ef. apply takeN_dropN.
    + rewrite len_app. rewrite Eg. rewrite len_takeN. rewrite Ef.
      destruct (N.le_gt_cases (kMagicSize - len already) (len (fbytes f))) as [L|L].
      * left. apply N.ltb_lt in E. lia.
      * right. apply dropN_all. lia.
  - intros H. inversion H; subst. split; [reflexivity|]. left. apply N.ltb_ge in E. exact E.
Qed.

Section ReadProofs.
  Variables world dstate : Type.
  Variable dnew : world -> kind -> dstate * world.
  Variable dcall : kind -> dstate -> Z -> list Z -> N -> cres dstate.

  (* [member k m p]: m is a complete member of codec k and expands to p *)
  Variable member : kind -> list Z -> list Z -> Prop.
  (* [DInv k st pin pout]: decoder state st has still to consume pin and to produce pout *)
  Variable DInv : kind -> dstate -> list Z -> list Z -> Prop.
  (* how many more no-progress calls may still answer OK (liblzma: one) *)
  Variable dstall : dstate -> nat.
  Variable stall_max : nat.

  (* behaviour on avail_in = 0 before the end of the member, nothing buffered *)
  Definition stall_outcome (k : kind) (st : dstate) (r : cres dstate) (pin pout : list Z) : Prop :=
    match k with
    | KGz => c_rc r = Z_BUF_ERROR
    | KBz => c_rc r = BZ_OK /\ DInv KBz (c_st r) pin pout
    | KXz => c_rc r = LZMA_BUF_ERROR \/
             (c_rc r = LZMA_OK /\ DInv KXz (c_st r) pin pout /\ (dstall (c_st r) < dstall st)%nat)
    end.

  Definition dcall_contract : Prop :=
    forall k st act inp cap pin pout,
      DInv k st pin pout -> agree inp pin -> 0 < cap ->
      let r := dcall k st act inp cap in
      c_used r <= len inp /\ c_used r <= len pin /\ len (c_out r) <= cap /\
      (exists pout', pout = c_out r ++ pout') /\
      ((c_rc r = rc_end k /\ c_used r = len pin /\ c_out r = pout) \/
       (c_rc r = rc_ok k /\
        DInv k (c_st r) (dropN (c_used r) pin) (dropN (len (c_out r)) pout) /\
        (0 < c_used r \/ c_out r <> [])) \/
       (inp = [] /\ pin <> [] /\ c_used r = 0 /\ c_out r = [] /\ stall_outcome k st r pin pout)).

  Hypothesis member_magic : forall k m p, member k m p -> starts_with (magic_of k) m = true.
  Hypothesis dnew_inv : forall w k m p, member k m p -> DInv k (fst (dnew w k)) m p.
  Hypothesis dcall_spec : dcall_contract.
  Hypothesis dstall_bound : forall st, (dstall st <= stall_max)%nat.

  Notation rstate := (rstate world dstate).
  Notation rd := (rd world dstate dnew dcall).
  Notation read_factory := (read_factory world dstate dnew).
  Notation read_all := (read_all world dstate dnew dcall).
  Notation read_file := (read_file world dstate dnew dcall).

  (* a sequence of complete members and what it expands to *)
  Inductive mstream : list Z -> list Z -> Prop :=
  | ms_nil : mstream [] []
  | ms_cons k m p raw pay : member k m p -> mstream raw pay -> mstream (m ++ raw) (p ++ pay).

  Lemma member_nonempty k m p : member k m p -> m <> [].
  Proof. intros H. apply member_magic in H. eapply starts_with_nonempty; eauto. Qed.

  (* state invariant for intact streams, with the termination measure *)
  Definition good (s : rstate) (pay : list Z) (mu : nat) : Prop :=
    match r_rd _ _ s with
    | RComplete => fbytes (r_file _ _ s) = [] /\ pay = [] /\ mu = 0%nat
    | RStream k st inbuf fin =>
      exists pin pout raw' pay',
        DInv k st pin pout /\ inbuf ++ fbytes (r_file _ _ s) = pin ++ raw' /\
        mstream raw' pay' /\ pay = pout ++ pay' /\
        mu = (length (inbuf ++ fbytes (r_file _ _ s)) + length raw' + 1)%nat
    | _ => False
    end.

  Lemma read_factory_eq f w already req :
    read_factory f w already req =
    let '(header, f1) := fact_header f already in
    match header with
    | [] => Some (RComplete, f1, w)
    | _ =>
      match detect_magic header with
      | Some k => let (st, w') := dnew w k in Some (RStream k st header false, f1, w')
      | None => if req then None else Some (RHeader header, f1, w)
      end
    end.
  Proof. reflexivity. Qed.

  Lemma factory_good f w already raw pay req :
    already ++ fbytes f = raw -> mstream raw pay ->
    exists rdr f1 w1 mu, read_factory f w already req = Some (rdr, f1, w1) /\
      good (mkr _ _ f1 w1 rdr) pay mu /\ (mu <= 2 * length raw)%nat.
  Proof.
    intros Hraw Hms. rewrite read_factory_eq.
    destruct (fact_header f already) as [header f1] eqn:EH.
    apply fact_header_spec in EH. destruct EH as [Hh Hl]. rewrite Hraw in Hh. clear Hraw.
    destruct Hms as [|k m p raw' pay' Hm Hms'].
    - (* nothing left *)
      apply app_eq_nil in Hh. destruct Hh as [Hh1 Hh2]. subst header.
      exists RComplete, f1, w, 0%nat. split; [reflexivity|]. split; [|lia].
      unfold good. simpl. auto.
    - pose proof (member_magic _ _ _ Hm) as Hmag.
      assert (Hsw : starts_with (magic_of k) header = true).
      { destruct Hl as [Hl|Hl].
        - assert (header = firstn (length header) (m ++ raw')) as ->.
          { rewrite <- Hh. rewrite firstn_app, firstn_all, Nat.sub_diag. simpl. symmetry. apply app_nil_r. }
          apply starts_with_take; [apply starts_with_app; exact Hmag|].
          pose proof (magic_len_le k). unfold len in Hl. lia.
        - rewrite Hl, app_nil_r in Hh. subst header. apply starts_with_app. exact Hmag. }
      pose proof (starts_with_nonempty _ _ Hsw) as Hne.
      rewrite (detect_magic_of _ _ Hsw).
      destruct header as [|hb header]; [congruence|].
      pose proof (dnew_inv w k m p Hm) as HD.
      destruct (dnew w k) as [st w'] eqn:EN. simpl in HD.
      eexists _, f1, w', _. split; [reflexivity|].
      split.
      + unfold good. simpl r_rd. simpl r_file.
        exists m, p, raw', pay'. repeat split; auto.
      + simpl r_file. rewrite Hh. rewrite app_length.
        pose proof (member_nonempty _ _ _ Hm) as Hmn.
        destruct m; [congruence|]. simpl. lia.
  Qed.

  Lemma rd_stream_eq fuel f w k st inbuf fin amount :
    rd (S fuel) (mkr _ _ f w (RStream k st inbuf fin)) amount =
    if amount =? 0 then ROk _ _ [] (mkr _ _ f w (RStream k st inbuf fin))
    else
      let '(inbuf1, f1, fin1) := refill k inbuf f fin in
      let cap := match k with KXz => amount | _ => N.min kSizeMax amount end in
      let r := dcall k st (read_action k fin1) inbuf1 cap in
      let inbuf2 := dropN (c_used r) inbuf1 in
      let out := c_out r in
      match process_read k (c_rc r) (is_nil inbuf1) (is_nil out) with
      | PThrow => RErr _ _ (err_of k)
      | PEnd =>
        match read_factory f1 w inbuf2 true with
        | None => RErr _ _ ECompressed
        | Some (rdr, f2, w2) =>
          let s2 := mkr _ _ f2 w2 rdr in
          match out with
          | [] => rd fuel s2 amount
          | _ => ROk _ _ out s2
          end
        end
      | PContinue =>
        let s1 := mkr _ _ f1 w (RStream k (c_st r) inbuf2 fin1) in
        match out with
        | [] => rd fuel s1 amount
        | _ => ROk _ _ out s1
        end
      end.
  Proof.
    unfold refill. destruct inbuf; cbn [CompressDefs.rd r_rd r_file r_world]; reflexivity.
  Qed.

  Lemma cap_pos k amount : 0 < amount ->
    0 < (match k with KXz => amount | _ => N.min kSizeMax amount end) /\
    (match k with KXz => amount | _ => N.min kSizeMax amount end) <= amount.
  Proof.
    intros H. assert (0 < kSizeMax) by (vm_compute; reflexivity). destruct k; lia.
  Qed.

  Lemma app_agree (inp F pin R : list Z) : inp ++ F = pin ++ R -> agree inp pin.
  Proof.
    intros H. destruct (N.le_gt_cases (len inp) (len pin)) as [L|L].
    - destruct (app_eq_app_len _ _ _ _ H L) as [t [E _]]. left. exists t. exact E.
    - symmetry in H. assert (L' : len pin <= len inp) by lia.
      destruct (app_eq_app_len _ _ _ _ H L') as [t [E _]]. right. exists t. exact E.
  Qed.

  (* dropping the same number of bytes from both decompositions *)
  Lemma drop_both (inp F pin R : list Z) n :
    inp ++ F = pin ++ R -> n <= len inp -> n <= len pin ->
    dropN n inp ++ F = dropN n pin ++ R.
  Proof.
    intros H L1 L2. rewrite <- (dropN_app_le n inp F L1), <- (dropN_app_le n pin R L2). rewrite H. reflexivity.
  Qed.

  Lemma rd_good : forall fuel s pay mu amount,
    good s pay mu -> 0 < amount -> (mu < fuel)%nat ->
    exists out s' pay' mu',
      rd fuel s amount = ROk _ _ out s' /\ pay = out ++ pay' /\ good s' pay' mu' /\
      (mu' <= mu)%nat /\ len out <= amount /\ (out = [] -> pay = []).
  Proof.
    induction fuel as [|fuel IH]; intros s pay mu amount Hg Ha Hf; [lia|].
    destruct s as [f w rdr]. destruct rdr as [| |buf|k st inbuf fin]; unfold good in Hg; simpl in Hg; try contradiction.
    - destruct Hg as [Hf0 [Hp Hm]]. subst.
      exists [], (mkr _ _ f w RComplete), [], 0%nat. simpl.
      repeat split; auto; try lia; try (rewrite len_nil; lia).
    - destruct Hg as [pin [pout [raw' [pay' [HD [Hraw [Hms [Hpay Hmu]]]]]]]].
      rewrite rd_stream_eq.
      destruct (amount =? 0) eqn:E0; [apply N.eqb_eq in E0; lia|].
      destruct (refill k inbuf f fin) as [[inbuf1 f1] fin1] eqn:ER.
      apply refill_spec in ER. destruct ER as [Hre Heof].
      rewrite <- Hre in Hraw.
      destruct (cap_pos k amount Ha) as [Hcap Hcapa].
      remember (match k with KXz => amount | _ => N.min kSizeMax amount end) as cap.
      pose proof (dcall_spec k st (read_action k fin1) inbuf1 cap pin pout HD (app_agree _ _ _ _ Hraw) Hcap) as HC.
      cbv zeta in HC. cbv zeta.
      remember (dcall k st (read_action k fin1) inbuf1 cap) as r.
      destruct HC as [Hu1 [Hu2 [Ho [[pout' Hpo] HC]]]].
      destruct HC as [[Hrc [Hused Hout]]|[[Hrc [HD' Hprog]]|[Hin [Hpin _]]]].
      + (* END *)
        clear Hpo. rewrite Hrc, process_read_end.
        assert (Hrest : dropN (c_used r) inbuf1 ++ fbytes f1 = raw').
        { rewrite (drop_both _ _ _ _ (c_used r) Hraw Hu1 Hu2).
          rewrite Hused. rewrite dropN_all by lia. reflexivity. }
        destruct (factory_good f1 w (dropN (c_used r) inbuf1) raw' pay' true Hrest Hms)
          as [rdr [f2 [w2 [mu2 [HF [Hg2 Hmu2]]]]]].
        rewrite HF.
        assert (Hlt : (mu2 < mu)%nat).
        { rewrite Hmu. rewrite <- Hre. rewrite Hraw. rewrite app_length. lia. }
        destruct (c_out r) as [|ob out] eqn:EO.
        * (* nothing produced: the next reader answers *)
          destruct (IH (mkr _ _ f2 w2 rdr) pay' mu2 amount Hg2 Ha) as [out [s' [pay'' [mu' [HR [Hp [Hg' [Hm' [Hl He]]]]]]]]]; [lia|].
          exists out, s', pay'', mu'. rewrite HR.
          subst pout. simpl in Hpay. repeat split; auto; try lia.
          -- rewrite Hpay. exact Hp.
          -- intros Hn. rewrite Hpay. apply He. exact Hn.
        * exists (ob :: out), (mkr _ _ f2 w2 rdr), pay', mu2.
          repeat split; auto; try lia; try discriminate.
          rewrite Hpay. rewrite <- Hout. reflexivity.
      + (* OK with progress *)
        rewrite Hrc.
        assert (Hnn : is_nil inbuf1 && is_nil (c_out r) = false).
        { destruct inbuf1; [|reflexivity]. simpl. destruct (c_out r); [|reflexivity].
          exfalso. rewrite len_nil in Hu1. destruct Hprog as [Hp|Hp]; [lia|congruence]. }
        rewrite (process_read_ok _ _ _ Hnn).
        assert (Hraw2 : dropN (c_used r) inbuf1 ++ fbytes f1 = dropN (c_used r) pin ++ raw')
          by (apply drop_both; assumption).
        assert (Hpo2 : dropN (len (c_out r)) pout = pout').
        { rewrite Hpo. apply dropN_app_len. }
        set (s1 := mkr _ _ f1 w (RStream k (c_st r) (dropN (c_used r) inbuf1) fin1)).
        assert (Hgood1 : good s1 (pout' ++ pay')
                  (length (dropN (c_used r) inbuf1 ++ fbytes f1) + length raw' + 1)%nat).
        { unfold good, s1. simpl.
          exists (dropN (c_used r) pin), pout', raw', pay'.
          rewrite Hpo2 in HD'. repeat split; auto. }
        assert (Hlen : (length (dropN (c_used r) inbuf1 ++ fbytes f1) + N.to_nat (c_used r)
                        = length (inbuf1 ++ fbytes f1))%nat).
        { rewrite <- (dropN_app_le (c_used r) inbuf1 (fbytes f1) Hu1).
          pose proof (len_dropN (c_used r) (inbuf1 ++ fbytes f1)) as LD.
          pose proof (len_app inbuf1 (fbytes f1)) as LA.
          unfold len in LD, LA, Hu1. lia. }
        destruct (c_out r) as [|ob out] eqn:EO.
        * assert (Hup : 0 < c_used r) by (destruct Hprog as [Hp|Hp]; [exact Hp|congruence]).
          destruct (IH s1 (pout' ++ pay') _ amount Hgood1 Ha) as [out [s' [pay'' [mu' [HR [Hp [Hg' [Hm' [Hl He]]]]]]]]].
          { rewrite Hmu, <- Hre in Hf. lia. }
          exists out, s', pay'', mu'. fold s1. rewrite HR.
          rewrite Hpay, Hpo. simpl.
          repeat split; auto; try lia.
          rewrite Hmu, <- Hre. lia.
        * exists (ob :: out), s1, (pout' ++ pay'), (length (dropN (c_used r) inbuf1 ++ fbytes f1) + length raw' + 1)%nat.
          fold s1. repeat split; auto; try lia; try discriminate.
          -- rewrite Hpay, Hpo. rewrite app_assoc. reflexivity.
          -- rewrite Hmu, <- Hre. lia.
      + (* a stall needs an empty input buffer at end of file while the member is unfinished:
           impossible for an intact stream *)
        exfalso. subst inbuf1. rewrite (Heof eq_refl) in Hraw. simpl in Hraw.
        symmetry in Hraw. apply app_eq_nil in Hraw. destruct Hraw. contradiction.
  Qed.

  Lemma read_all_good : forall n fuel s pay mu amt i,
    good s pay mu -> (forall j, 0 < amt j) -> (mu < fuel)%nat -> (length pay < n)%nat ->
    exists sizes, read_all n fuel s amt i = AOk pay sizes.
  Proof.
    induction n as [|n IHn]; intros fuel s pay mu amt i Hg Hamt Hf Hn; [lia|].
    simpl.
    destruct (rd_good fuel s pay mu (amt i) Hg (Hamt i) Hf)
      as [out [s' [pay' [mu' [HR [Hp [Hg' [Hm [Hl He]]]]]]]]].
    rewrite HR. destruct out as [|b out].
    - rewrite (He eq_refl). exists [0]. reflexivity.
    - destruct (IHn fuel s' pay' mu' amt (S i) Hg' Hamt) as [sizes HS]; [lia| |].
      + subst pay. rewrite app_length in Hn. simpl in Hn. lia.
      + rewrite HS. exists (len (b :: out) :: sizes). subst pay. reflexivity.
  Qed.

  (* reading a concatenation of members of any codecs, delivered in any
     fragments and requested in any positive amounts, yields the concatenation
     of their payloads; the client sees end of file only at the real end *)
  Theorem read_concat_members_proof : forall f w raw pay amt n fuel,
    mstream raw pay -> fbytes f = raw -> (forall j, 0 < amt j) ->
    (length pay < n)%nat -> (2 * length raw < fuel)%nat ->
    exists sizes, read_file n fuel f w amt = AOk pay sizes.
  Proof.
    intros f w raw pay amt n fuel Hms Hf Hamt Hn Hfu.
    unfold CompressDefs.read_file, rc_open.
    destruct (factory_good f w [] raw pay false) as [rdr [f1 [w1 [mu [HF [Hg Hmu]]]]]]; auto.
    rewrite HF. apply read_all_good with (mu := mu); auto. lia.
  Qed.

  (* ---------------------------------------------------------- plain data *)
  Definition pgood (s : rstate) (rest : list Z) : Prop :=
    match r_rd _ _ s with
    | RPlain => fbytes (r_file _ _ s) = rest
    | RHeader buf => buf <> [] /\ buf ++ fbytes (r_file _ _ s) = rest
    | RComplete => fbytes (r_file _ _ s) = [] /\ rest = []
    | RStream _ _ _ _ => False
    end.

  Lemma rd_plain : forall fuel s rest amount,
    pgood s rest -> 0 < amount ->
    exists out s' rest', rd fuel s amount = ROk _ _ out s' /\ rest = out ++ rest' /\
      pgood s' rest' /\ (out = [] -> rest = []) /\ len out <= amount.
  Proof.
    intros fuel s rest amount Hg Ha. destruct s as [f w rdr].
    destruct rdr as [| |buf|k st inbuf fin]; unfold pgood in Hg; simpl in Hg; try contradiction.
    - destruct Hg as [H1 H2]. subst. exists [], (mkr _ _ f w RComplete), [].
      destruct fuel; simpl; repeat split; auto; rewrite len_nil; lia.
    - assert (HR : rd fuel (mkr _ _ f w RPlain) amount =
                   (let (got, f') := partial_read f amount in ROk _ _ got (mkr _ _ f' w RPlain)))
        by (destruct fuel; reflexivity).
      rewrite HR. clear HR.
      destruct (partial_read f amount) as [got2 f2] eqn:E2.
      pose proof (partial_read_spec _ _ _ _ E2) as [Hb2 [Hl2 Hz2]].
      exists got2, (mkr _ _ f2 w RPlain), (fbytes f2). subst rest.
      repeat split; auto.
    - destruct Hg as [Hne Hb].
      assert (HR : rd fuel (mkr _ _ f w (RHeader buf)) amount =
                   (let sending := N.min amount (len buf) in
                    let rest := dropN sending buf in
                    ROk _ _ (takeN sending buf)
                        (mkr _ _ f w (match rest with [] => RPlain | _ => RHeader rest end))))
        by (destruct fuel; reflexivity).
      rewrite HR. clear HR. cbv zeta.
      pose proof (len_pos _ Hne) as Lb.
      set (sending := N.min amount (len buf)).
      exists (takeN sending buf), (mkr _ _ f w (match dropN sending buf with [] => RPlain | _ => RHeader (dropN sending buf) end)),
        (dropN sending buf ++ fbytes f).
      split; [reflexivity|]. split; [|split].
      + rewrite app_assoc, takeN_dropN. symmetry. exact Hb.
      + unfold pgood. simpl. destruct (dropN sending buf) eqn:ED; simpl; [reflexivity|].
        split; [discriminate|reflexivity].
      + split.
        * intros Hn. exfalso.
          assert (L : len (takeN sending buf) = 0) by (rewrite Hn; reflexivity).
          rewrite len_takeN in L. unfold sending in L. lia.
        * rewrite len_takeN. unfold sending. lia.
  Qed.

  Lemma read_all_plain : forall n fuel s rest amt i,
    pgood s rest -> (forall j, 0 < amt j) -> (length rest < n)%nat ->
    exists sizes, read_all n fuel s amt i = AOk rest sizes.
  Proof.
    induction n as [|n IHn]; intros fuel s rest amt i Hg Hamt Hn; [lia|].
    simpl.
    destruct (rd_plain fuel s rest (amt i) Hg (Hamt i)) as [out [s' [rest' [HR [Hp [Hg' [He _]]]]]]].
    rewrite HR. destruct out as [|b out].
    - rewrite (He eq_refl). exists [0]. reflexivity.
    - destruct (IHn fuel s' rest' amt (S i) Hg' Hamt) as [sizes HS].
      + subst rest. rewrite app_length in Hn. simpl in Hn. lia.
      + rewrite HS. exists (len (b :: out) :: sizes). subst rest. reflexivity.
  Qed.

  (* data that does not start with one of the three magic numbers is passed
     through unchanged, whatever its length (shorter than kMagicSize included) *)
  Theorem plain_passthrough_proof : forall f w raw amt n fuel,
    fbytes f = raw -> detect_magic (takeN kMagicSize raw) = None -> (forall j, 0 < amt j) ->
    (length raw < n)%nat ->
    exists sizes, read_file n fuel f w amt = AOk raw sizes.
  Proof.
    intros f w raw amt n fuel Hf Hd Hamt Hn.
    unfold CompressDefs.read_file, rc_open. rewrite read_factory_eq.
    unfold fact_header. change (len (@nil Z) <? kMagicSize) with true. cbv iota.
    change (kMagicSize - len (@nil Z)) with kMagicSize.
    destruct (read_or_eof f kMagicSize) as [got f1] eqn:ER.
    apply read_or_eof_spec in ER. destruct ER as [Eg Ef]. rewrite Hf in Eg, Ef.
    simpl app. rewrite <- Eg in Hd.
    destruct got as [|b got].
    - (* empty file *)
      apply read_all_plain; auto. unfold pgood. simpl.
      assert (L : len (takeN kMagicSize raw) = 0) by (rewrite <- Eg; reflexivity).
      rewrite len_takeN in L.
      assert (raw = []).
      { apply len_zero_nil. assert (0 < kMagicSize) by (vm_compute; reflexivity). lia. }
      split; [|exact H]. rewrite Ef. apply dropN_all. rewrite H, len_nil. lia.
    - rewrite Hd. apply read_all_plain; auto. unfold pgood. simpl.
      split; [discriminate|]. change (b :: got ++ fbytes f1) with ((b :: got) ++ fbytes f1).
      rewrite Eg, Ef. apply takeN_dropN.
  Qed.

  (* ---------------------------------------------------------- truncated streams *)
  (* complete members followed by a non-empty proper prefix of a member;
     second index: everything the stream could expand to *)
  Inductive tstream : list Z -> list Z -> Prop :=
  | ts_cut k m p t u : member k m p -> m = t ++ u -> t <> [] -> u <> [] -> tstream t p
  | ts_cons k m p raw pay : member k m p -> tstream raw pay -> tstream (m ++ raw) (p ++ pay).

  Definition sstall (s : rstate) : nat :=
    match r_rd _ _ s with RStream _ st _ _ => dstall st | _ => 0%nat end.

  Definition tgood (s : rstate) (pay : list Z) (X : nat) : Prop :=
    match r_rd _ _ s with
    | RStream k st inbuf fin =>
      exists pin pout, DInv k st pin pout /\
        ((exists raw' pay', inbuf ++ fbytes (r_file _ _ s) = pin ++ raw' /\ tstream raw' pay' /\
                            pay = pout ++ pay' /\
                            X = (length (inbuf ++ fbytes (r_file _ _ s)) + length raw' + 1)%nat) \/
         (exists u, pin = (inbuf ++ fbytes (r_file _ _ s)) ++ u /\ u <> [] /\ pay = pout /\
                    X = length (inbuf ++ fbytes (r_file _ _ s))))
    | _ => False
    end.

  Lemma tstream_nonempty raw pay : tstream raw pay -> raw <> [].
  Proof.
    intros H. destruct H as [k m p t u Hm E Ht Hu|k m p raw pay Hm Ht]; [exact Ht|].
    pose proof (member_nonempty _ _ _ Hm). destruct m; [congruence|discriminate].
  Qed.

  Lemma magic_first_byte k k' b l l' :
    starts_with (magic_of k) (b :: l) = true -> starts_with (magic_of k') (b :: l') = true -> k = k'.
  Proof.
    intros H1 H2.
    destruct k, k'; try reflexivity; exfalso;
      unfold magic_of, gz_magic, bz_magic, xz_magic in *; cbn [starts_with] in *;
      apply andb_true_iff in H1; apply andb_true_iff in H2; lia.
  Qed.

  Lemma detect_magic_sound h k : detect_magic h = Some k -> starts_with (magic_of k) h = true.
  Proof.
    unfold detect_magic.
    destruct (starts_with gz_magic h) eqn:E1; [intros H; inversion H; exact E1|].
    destruct (starts_with bz_magic h) eqn:E2; [intros H; inversion H; exact E2|].
    destruct (starts_with xz_magic h) eqn:E3; [intros H; inversion H; exact E3|discriminate].
  Qed.

  Lemma factory_trunc f w already raw pay req :
    already ++ fbytes f = raw -> tstream raw pay ->
    req = true \/ (exists k0, starts_with (magic_of k0) raw = true) ->
    (read_factory f w already req = None /\ req = true) \/
    (exists rdr f1 w1 X, read_factory f w already req = Some (rdr, f1, w1) /\
       tgood (mkr _ _ f1 w1 rdr) pay X /\ (X <= 2 * length raw)%nat).
  Proof.
    intros Hraw Hts Hreq. rewrite read_factory_eq.
    destruct (fact_header f already) as [header f1] eqn:EH.
    apply fact_header_spec in EH. destruct EH as [Hh Hl]. rewrite Hraw in Hh. clear Hraw.
    pose proof (tstream_nonempty _ _ Hts) as Hrne.
    assert (Hhne : header <> []).
    { intros E. subst header. destruct Hl as [Hl|Hl].
      - assert (0 < kMagicSize) by (vm_compute; reflexivity). rewrite len_nil in Hl. lia.
      - simpl in Hh. congruence. }
    (* a magic at the beginning of the stream is visible in the header *)
    assert (Hvis : forall k0, starts_with (magic_of k0) raw = true -> starts_with (magic_of k0) header = true).
    { intros k0 Hk0. destruct Hl as [Hl|Hl].
      - assert (header = firstn (length header) raw) as ->.
        { rewrite <- Hh. rewrite firstn_app, firstn_all, Nat.sub_diag. simpl. symmetry. apply app_nil_r. }
        apply starts_with_take; [exact Hk0|].
        pose proof (magic_len_le k0). unfold len in Hl. lia.
      - rewrite Hl, app_nil_r in Hh. subst header. exact Hk0. }
    destruct header as [|hb header]; [congruence|].
    destruct Hts as [k m p t u Hm E Ht Hu|k m p raw' pay' Hm Hts'].
    - (* the cut member itself *)
      destruct (detect_magic (hb :: header)) as [k'|] eqn:ED.
      + pose proof (detect_magic_sound _ _ ED) as Hs'.
        assert (k' = k).
        { pose proof (member_magic _ _ _ Hm) as Hmag. subst m.
          rewrite <- Hh in Hmag. simpl in Hmag.
          eapply magic_first_byte; [exact Hs'|exact Hmag]. }
        subst k'.
        pose proof (dnew_inv w k m p Hm) as HD.
        destruct (dnew w k) as [st w'] eqn:EN. simpl in HD.
        right. eexists _, f1, w', _. split; [reflexivity|]. split.
        * unfold tgood. simpl r_rd. simpl r_file. exists m, p. split; [exact HD|].
          right. exists u. cbn [app] in Hh |- *.
          split; [rewrite E, <- Hh; reflexivity|]. repeat split; auto.
        * simpl r_file. cbn [app] in Hh |- *. rewrite Hh. lia.
      + destruct req.
        * left. split; reflexivity.
        * exfalso. destruct Hreq as [Hq|[k0 Hk0]]; [discriminate|].
          apply Hvis in Hk0. apply detect_magic_of in Hk0. congruence.
    - pose proof (member_magic _ _ _ Hm) as Hmag.
      assert (Hsw : starts_with (magic_of k) (hb :: header) = true)
        by (apply Hvis; apply starts_with_app; exact Hmag).
      rewrite (detect_magic_of _ _ Hsw).
      pose proof (dnew_inv w k m p Hm) as HD.
      destruct (dnew w k) as [st w'] eqn:EN. simpl in HD.
      right. eexists _, f1, w', _. split; [reflexivity|]. split.
      + unfold tgood. simpl r_rd. simpl r_file. exists m, p. split; [exact HD|].
        left. exists raw', pay'. repeat split; auto.
      + simpl r_file. rewrite Hh. rewrite app_length.
        pose proof (member_nonempty _ _ _ Hm) as Hmn.
        destruct m; [congruence|]. simpl. lia.
  Qed.

  Lemma process_read_stall_gz ni no : process_read KGz Z_BUF_ERROR ni no = PThrow.
  Proof. reflexivity. Qed.
  Lemma process_read_stall_bz : process_read KBz BZ_OK true true = PThrow.
  Proof. reflexivity. Qed.
  Lemma process_read_stall_xz ni no : process_read KXz LZMA_BUF_ERROR ni no = PThrow.
  Proof. reflexivity. Qed.
  Lemma process_read_xz_ok ni no : process_read KXz LZMA_OK ni no = PContinue.
  Proof. reflexivity. Qed.

  Lemma rd_trunc : forall fuel s pay X amount,
    tgood s pay X -> 0 < amount -> ((stall_max + 1) * X + sstall s < fuel)%nat ->
    (exists e, rd fuel s amount = RErr _ _ e /\ e <> EHang) \/
    (exists out s' pay' X', rd fuel s amount = ROk _ _ out s' /\ out <> [] /\ pay = out ++ pay' /\
        tgood s' pay' X' /\ (X' <= X)%nat).
  Proof.
    induction fuel as [|fuel IH]; intros s pay X amount Hg Ha Hf; [lia|].
    destruct s as [f w rdr]. destruct rdr as [| |buf|k st inbuf fin]; unfold tgood in Hg; simpl in Hg; try contradiction.
    destruct Hg as [pin [pout [HD Hcase]]].
    unfold sstall in Hf. simpl in Hf.
    rewrite rd_stream_eq.
    destruct (amount =? 0) eqn:E0; [apply N.eqb_eq in E0; lia|].
    destruct (refill k inbuf f fin) as [[inbuf1 f1] fin1] eqn:ER.
    apply refill_spec in ER. destruct ER as [Hre Heof].
    destruct (cap_pos k amount Ha) as [Hcap Hcapa].
    remember (match k with KXz => amount | _ => N.min kSizeMax amount end) as cap.
    assert (Hag : agree inbuf1 pin).
    { destruct Hcase as [[raw' [pay' [Hraw _]]]|[u [Hpin _]]].
      - rewrite <- Hre in Hraw. eapply app_agree; eauto.
      - left. exists (fbytes f1 ++ u). rewrite Hpin, <- Hre. rewrite app_assoc. reflexivity. }
    pose proof (dcall_spec k st (read_action k fin1) inbuf1 cap pin pout HD Hag Hcap) as HC.
    cbv zeta in HC. cbv zeta.
    remember (dcall k st (read_action k fin1) inbuf1 cap) as r.
    destruct HC as [Hu1 [Hu2 [Ho [[pout' Hpo] HC]]]].
    pose proof (dstall_bound (c_st r)) as Hsb.
    assert (Hlen : (length (dropN (c_used r) inbuf1 ++ fbytes f1) + N.to_nat (c_used r)
                    = length (inbuf ++ fbytes f))%nat).
    { rewrite <- Hre. rewrite <- (dropN_app_le (c_used r) inbuf1 (fbytes f1) Hu1).
      pose proof (len_dropN (c_used r) (inbuf1 ++ fbytes f1)) as LD.
      pose proof (len_app inbuf1 (fbytes f1)) as LA.
      unfold len in LD, LA, Hu1. lia. }
    destruct HC as [[Hrc [Hused Hout]]|[[Hrc [HD' Hprog]]|[Hin [Hpin [Hus0 [Hout0 Hst]]]]]].
    - (* END *)
      clear Hpo. rewrite Hrc, process_read_end.
      destruct Hcase as [[raw' [pay' [Hraw [Hts [Hpay HX]]]]]|[u [Hpinu [Hu [Hpay HX]]]]].
      + rewrite <- Hre in Hraw.
        assert (Hrest : dropN (c_used r) inbuf1 ++ fbytes f1 = raw').
        { rewrite (drop_both _ _ _ _ (c_used r) Hraw Hu1 Hu2).
          rewrite Hused. rewrite dropN_all by lia. reflexivity. }
        destruct (factory_trunc f1 w (dropN (c_used r) inbuf1) raw' pay' true Hrest Hts (or_introl eq_refl))
          as [[HF _]|[rdr [f2 [w2 [X2 [HF [Hg2 HX2]]]]]]].
        * rewrite HF. left. exists ECompressed. split; [reflexivity|discriminate].
        * rewrite HF.
          assert (Hlt : (X2 < X)%nat).
          { rewrite HX. rewrite <- Hre. rewrite Hraw. rewrite app_length. lia. }
          destruct (c_out r) as [|ob out] eqn:EO.
          -- destruct (IH (mkr _ _ f2 w2 rdr) pay' X2 amount Hg2 Ha) as [[e [HR He]]|[out [s' [pay'' [X' [HR [Hne [Hp [Hg' HX']]]]]]]]].
             { pose proof (dstall_bound st).
               assert (sstall (mkr _ _ f2 w2 rdr) <= stall_max)%nat.
               { unfold sstall. simpl. destruct rdr; try lia. apply dstall_bound. }
               nia. }
             ++ left. exists e. rewrite HR. auto.
             ++ right. exists out, s', pay'', X'. rewrite HR. subst pout. simpl in Hpay.
                repeat split; auto; try lia. rewrite Hpay. exact Hp.
          -- right. exists (ob :: out), (mkr _ _ f2 w2 rdr), pay', X2.
             repeat split; auto; try lia; try discriminate.
             rewrite Hpay, <- Hout. reflexivity.
      + (* the member is cut: it cannot end *)
        exfalso. rewrite Hpinu, <- Hre in Hused. rewrite !len_app in Hused.
        pose proof (len_pos _ Hu). lia.
    - (* OK with progress *)
      rewrite Hrc.
      assert (Hnn : is_nil inbuf1 && is_nil (c_out r) = false).
      { destruct inbuf1; [|reflexivity]. simpl. destruct (c_out r); [|reflexivity].
        exfalso. rewrite len_nil in Hu1. destruct Hprog as [Hp|Hp]; [lia|congruence]. }
      rewrite (process_read_ok _ _ _ Hnn).
      assert (Hpo2 : dropN (len (c_out r)) pout = pout') by (rewrite Hpo; apply dropN_app_len).
      rewrite Hpo2 in HD'.
      set (s1 := mkr _ _ f1 w (RStream k (c_st r) (dropN (c_used r) inbuf1) fin1)).
      assert (Hgood1 : exists X1, tgood s1 (dropN (len (c_out r)) pay) X1 /\ (X1 + N.to_nat (c_used r) <= X)%nat /\
                 pay = c_out r ++ dropN (len (c_out r)) pay).
      { destruct Hcase as [[raw' [pay' [Hraw [Hts [Hpay HX]]]]]|[u [Hpinu [Hu [Hpay HX]]]]].
        - rewrite <- Hre in Hraw.
          assert (Hd : dropN (len (c_out r)) pay = pout' ++ pay').
          { rewrite Hpay, Hpo. rewrite <- app_assoc. apply dropN_app_len. }
          exists (length (dropN (c_used r) inbuf1 ++ fbytes f1) + length raw' + 1)%nat.
          split; [|split; [lia|]].
          + unfold tgood, s1. simpl. exists (dropN (c_used r) pin), pout'. split; [exact HD'|].
            left. exists raw', pay'. split; [apply drop_both; assumption|].
            split; [exact Hts|]. split; [exact Hd|reflexivity].
          + rewrite Hd. rewrite Hpay, Hpo. rewrite <- app_assoc. reflexivity.
        - assert (Hd : dropN (len (c_out r)) pay = pout').
          { rewrite Hpay, Hpo. apply dropN_app_len. }
          exists (length (dropN (c_used r) inbuf1 ++ fbytes f1)).
          split; [|split; [lia|]].
          + unfold tgood, s1. simpl. exists (dropN (c_used r) pin), pout'. split; [exact HD'|].
            right. exists u. split; [|split; [exact Hu|split; [exact Hd|reflexivity]]].
            rewrite Hpinu, <- Hre.
            rewrite <- app_assoc. rewrite (dropN_app_le _ inbuf1 _ Hu1). rewrite app_assoc. reflexivity.
          + rewrite Hd. rewrite Hpay, Hpo. reflexivity. }
      destruct Hgood1 as [X1 [Hg1 [HX1 Hpayeq]]].
      destruct (c_out r) as [|ob out] eqn:EO.
      + assert (Hup : 0 < c_used r) by (destruct Hprog as [Hp|Hp]; [exact Hp|congruence]).
        destruct (IH s1 _ X1 amount Hg1 Ha) as [[e [HR He]]|[out [s' [pay'' [X' [HR [Hne [Hp [Hg' HX']]]]]]]]].
        { unfold sstall, s1. simpl. pose proof (dstall_bound st). nia. }
        * left. exists e. fold s1. rewrite HR. auto.
        * right. exists out, s', pay'', X'. fold s1. rewrite HR.
          repeat split; auto; try lia; try (rewrite Hpayeq; simpl; exact Hp).
      + right. exists (ob :: out), s1, (dropN (len (ob :: out)) pay), X1.
        fold s1. repeat split; auto; try discriminate; try lia.
    - (* stall: no input, member unfinished, nothing buffered *)
      subst inbuf1. pose proof (Heof eq_refl) as Hf1.
      destruct Hcase as [[raw' [pay' [Hraw [Hts [Hpay HX]]]]]|[u [Hpinu [Hu [Hpay HX]]]]].
      + exfalso. rewrite <- Hre in Hraw. rewrite Hf1 in Hraw. simpl in Hraw.
        symmetry in Hraw. apply app_eq_nil in Hraw. destruct Hraw. contradiction.
      + rewrite Hout0. simpl is_nil.
        destruct k; simpl in Hst.
        * rewrite Hst, process_read_stall_gz. left. exists EGz. split; [reflexivity|discriminate].
        * destruct Hst as [Hst _]. rewrite Hst, process_read_stall_bz. left. exists EBz. split; [reflexivity|discriminate].
        * destruct Hst as [Hst|[Hst [HDs Hlt]]].
          -- rewrite Hst, process_read_stall_xz. left. exists EXz. split; [reflexivity|discriminate].
          -- rewrite Hst, process_read_xz_ok. rewrite Hus0.
             set (s1 := mkr _ _ f1 w (RStream KXz (c_st r) (dropN 0 []) fin1)).
             assert (Hg1 : tgood s1 pay X).
             { unfold tgood, s1. simpl. exists pin, pout. split; [exact HDs|].
               right. exists u. rewrite Hf1. rewrite <- Hre in Hpinu, HX. rewrite Hf1 in Hpinu, HX.
               repeat split; auto. }
             destruct (IH s1 pay X amount Hg1 Ha) as [[e [HR He]]|[out [s' [pay'' [X' [HR [Hne [Hp [Hg' HX']]]]]]]]].
             { unfold sstall, s1. simpl. lia. }
             ++ left. exists e. fold s1. rewrite HR. auto.
             ++ right. exists out, s', pay'', X'. fold s1. rewrite HR. repeat split; auto.
  Qed.

  Lemma sstall_bound s : (sstall s <= stall_max)%nat.
  Proof. unfold sstall. destruct (r_rd _ _ s); try lia. apply dstall_bound. Qed.

  Lemma read_all_trunc : forall n fuel s pay X amt i,
    tgood s pay X -> (forall j, 0 < amt j) ->
    ((stall_max + 1) * X + stall_max < fuel)%nat -> (length pay < n)%nat ->
    exists e d z, read_all n fuel s amt i = AErr e d z /\ e <> EHang /\ exists rest, pay = d ++ rest.
  Proof.
    induction n as [|n IHn]; intros fuel s pay X amt i Hg Hamt Hf Hn; [lia|].
    simpl.
    pose proof (sstall_bound s) as Hsb.
    destruct (rd_trunc fuel s pay X (amt i) Hg (Hamt i)) as [[e [HR He]]|[out [s' [pay' [X' [HR [Hne [Hp [Hg' HX']]]]]]]]]; [lia| |].
    - rewrite HR. exists e, [], []. split; [reflexivity|]. split; [exact He|]. exists pay. reflexivity.
    - rewrite HR. destruct out as [|b out]; [congruence|].
      destruct (IHn fuel s' pay' X' amt (S i) Hg' Hamt) as [e [d [z [HA [He [rest Hr]]]]]].
      + nia.
      + subst pay. rewrite app_length in Hn. simpl in Hn. lia.
      + rewrite HA. exists e, ((b :: out) ++ d), (len (b :: out) :: z).
        split; [reflexivity|]. split; [exact He|]. exists rest. subst pay. rewrite Hr.
        rewrite app_assoc. reflexivity.
  Qed.

  (* a stream that begins with a magic number and ends inside a member is an
     error: never end of file (a shorter success), never fuel exhaustion (a hang);
     what was delivered before the error is a prefix of the real payload *)
  Theorem truncated_is_error_proof : forall f w raw pay k0 amt n fuel,
    tstream raw pay -> starts_with (magic_of k0) raw = true -> fbytes f = raw ->
    (forall j, 0 < amt j) ->
    (length pay < n)%nat -> ((stall_max + 1) * (2 * length raw) + stall_max < fuel)%nat ->
    exists e d z, read_file n fuel f w amt = AErr e d z /\ e <> EHang /\ exists rest, pay = d ++ rest.
  Proof.
    intros f w raw pay k0 amt n fuel Hts Hk0 Hf Hamt Hn Hfu.
    unfold CompressDefs.read_file, rc_open.
    destruct (factory_trunc f w [] raw pay false) as [[HF Hq]|[rdr [f1 [w1 [X [HF [Hg HX]]]]]]]; auto.
    - right. exists k0. exact Hk0.
    - discriminate.
    - rewrite HF. apply read_all_trunc with (X := X); auto. nia.
  Qed.
End ReadProofs.

(* ================================================================ writing *)
Definition rc_run (k : kind) : Z := match k with KGz => Z_OK | _ => BZ_RUN_OK end.
Definition finish_again_rc (k : kind) (rc : Z) : Prop :=
  match k with KGz => rc = Z_OK \/ rc = Z_BUF_ERROR | _ => rc = BZ_FINISH_OK end.

Lemma run_ok_rc_run k : run_ok k (rc_run k) = true.
Proof. destruct k; reflexivity. Qed.
Lemma finish_step_end k : k <> KXz -> finish_step k (rc_end k) = FDone.
Proof. destruct k; try reflexivity. congruence. Qed.
Lemma finish_step_again k rc : finish_again_rc k rc -> finish_step k rc = FAgain.
Proof. destruct k; simpl; intros H; try (subst rc; reflexivity). destruct H; subst rc; reflexivity. Qed.
Lemma min_output_pos k : 0 < min_output k.
Proof. destruct k; vm_compute; reflexivity. Qed.
Lemma min_output_le_buf k : min_output k <= buf_size k.
Proof. unfold buf_size. lia. Qed.

Section WriteProofs.
  Variables world estate : Type.
  Variable enew : world -> kind -> estate * world.
  Variable ereset : kind -> estate -> estate.
  Variable ecall : kind -> estate -> Z -> list Z -> N -> cres estate.

  Variable member : kind -> list Z -> list Z -> Prop.
  (* [EInv k st ci eo]: since its (re)initialisation the encoder has consumed ci and emitted eo *)
  Variable EInv : kind -> estate -> list Z -> list Z -> Prop.
  (* bound on the number of further calls that can produce output without consuming input *)
  Variable epend : estate -> nat.

  Definition ecall_run_contract : Prop :=
    forall k st inp cap ci eo, EInv k st ci eo -> 0 < cap -> inp <> [] ->
      let r := ecall k st (run_flag k) inp cap in
      c_used r <= len inp /\ len (c_out r) <= cap /\ c_rc r = rc_run k /\
      EInv k (c_st r) (ci ++ takeN (c_used r) inp) (eo ++ c_out r) /\
      (c_used r = 0 -> (epend (c_st r) < epend st)%nat).

  Definition ecall_finish_contract : Prop :=
    forall k st inp cap ci eo, EInv k st ci eo -> 0 < cap ->
      let r := ecall k st (finish_flag k) inp cap in
      c_used r <= len inp /\ len (c_out r) <= cap /\
      ((c_rc r = rc_end k /\ c_used r = len inp /\ member k (eo ++ c_out r) (ci ++ inp)) \/
       (finish_again_rc k (c_rc r) /\
        EInv k (c_st r) (ci ++ takeN (c_used r) inp) (eo ++ c_out r) /\
        (c_used r = 0 -> (epend (c_st r) < epend st)%nat))).

  Hypothesis member_magic : forall k m p, member k m p -> starts_with (magic_of k) m = true.
  Hypothesis enew_inv : forall w k, EInv k (fst (enew w k)) [] [].
  Hypothesis ereset_inv : forall k st, EInv k (ereset k st) [] [].
  Hypothesis ecall_run : ecall_run_contract.
  Hypothesis ecall_finish : ecall_finish_contract.

  Notation wstate := (wstate estate).
  Notation write_loop := (write_loop estate ecall).
  Notation flush_loop := (flush_loop estate ecall).
  Notation ws_write := (ws_write estate ecall).
  Notation ws_flush := (ws_flush estate ereset ecall).
  Notation run_ops := (run_ops estate ereset ecall).
  Notation write_session := (write_session world estate enew ereset ecall).

  (* a sequence of complete members of one codec *)
  Inductive kstream (k : kind) : list Z -> list Z -> Prop :=
  | ks_nil : kstream k [] []
  | ks_cons m p raw pay : member k m p -> kstream k raw pay -> kstream k (m ++ raw) (p ++ pay).

  Lemma kstream_snoc k raw pay m p : kstream k raw pay -> member k m p -> kstream k (raw ++ m) (pay ++ p).
  Proof.
    intros H Hm. induction H as [|m0 p0 raw pay Hm0 H IH].
    - simpl. rewrite <- (app_nil_r m), <- (app_nil_r p). constructor; [exact Hm|constructor].
    - rewrite <- !app_assoc. constructor; assumption.
  Qed.

  (* loop invariant: file ++ buffer = finished members ++ what the codec emitted for the open member *)
  Definition wgood (k : kind) (s : wstate) (don : list Z) (ci eo : list Z) : Prop :=
    EInv k (w_est _ s) ci eo /\ w_file _ s ++ w_buf _ s = don ++ eo /\ len (w_buf _ s) <= buf_size k.

  Lemma ensure_output_good k s don ci eo :
    wgood k s don ci eo ->
    let s1 := ensure_output estate k s in
    wgood k s1 don ci eo /\ min_output k <= avail_out estate k s1 /\ w_dirty _ s1 = w_dirty _ s.
  Proof.
    intros [HE [HF HL]]. unfold ensure_output. cbv zeta.
    destruct (avail_out estate k s <? min_output k) eqn:E.
    - unfold wgood, avail_out. simpl. rewrite app_nil_r. rewrite len_nil.
      pose proof (min_output_le_buf k). repeat split; auto; lia.
    - apply N.ltb_ge in E. repeat split; auto.
  Qed.

  Lemma write_loop_nil fuel k s : write_loop fuel k s [] = WOk _ s.
  Proof. destruct fuel; reflexivity. Qed.

  Lemma write_loop_ok k : forall n e inp s don ci eo,
    (length inp <= n)%nat -> (epend (w_est _ s) <= e)%nat -> wgood k s don ci eo ->
    exists f0 s' eo', (forall fuel, (f0 <= fuel)%nat -> write_loop fuel k s inp = WOk _ s') /\
                      wgood k s' don (ci ++ inp) eo' /\ w_dirty _ s' = w_dirty _ s.
  Proof.
    induction n as [|n IHn].
    - intros e inp s don ci eo Hn He Hg. destruct inp; [|simpl in Hn; lia].
      exists 0%nat, s, eo. rewrite app_nil_r. split; [intros; apply write_loop_nil|auto].
    - induction e as [e IHe] using lt_wf_ind; intros inp s don ci eo Hn He Hg.
      destruct inp as [|b inp].
      { exists 0%nat, s, eo. rewrite app_nil_r. split; [intros; apply write_loop_nil|auto]. }
      destruct (ensure_output_good k s don ci eo Hg) as [Hg1 [Hav Hd1]].
      set (s1 := ensure_output estate k s) in *.
      pose proof (min_output_pos k) as Hmp.
      assert (Hcap : 0 < avail_out estate k s1) by lia.
      destruct Hg1 as [HE1 [HF1 HL1]].
      pose proof (ecall_run k (w_est _ s1) (b :: inp) (avail_out estate k s1) ci eo HE1 Hcap ltac:(discriminate)) as HC.
      cbv zeta in HC.
      remember (ecall k (w_est _ s1) (run_flag k) (b :: inp) (avail_out estate k s1)) as r.
      destruct HC as [Hu [Ho [Hrc [HE2 Hpend]]]].
      assert (Hest : w_est _ s1 = w_est _ s) by (unfold s1, ensure_output; destruct (avail_out estate k s <? min_output k); reflexivity).
      set (s2 := mkw _ (w_file _ s1) (w_buf _ s1 ++ c_out r) (c_st r) (w_dirty _ s1)).
      assert (Hg2 : wgood k s2 don (ci ++ takeN (c_used r) (b :: inp)) (eo ++ c_out r)).
      { unfold wgood, s2. simpl. split; [exact HE2|]. split.
        - rewrite app_assoc, HF1. rewrite <- app_assoc. reflexivity.
        - rewrite len_app. unfold avail_out in Ho. lia. }
      assert (Hrec : exists f0 s' eo', (forall fuel, (f0 <= fuel)%nat ->
                   write_loop fuel k s2 (dropN (c_used r) (b :: inp)) = WOk _ s') /\
                   wgood k s' don ((ci ++ takeN (c_used r) (b :: inp)) ++ dropN (c_used r) (b :: inp)) eo' /\
                   w_dirty _ s' = w_dirty _ s2).
      { destruct (N.eq_dec (c_used r) 0) as [Z0|Z0].
        - (* nothing consumed: pending output shrank *)
          pose proof (Hpend Z0) as Hlt. rewrite Hest in Hlt.
          apply (IHe (epend (c_st r))) with (eo := eo ++ c_out r); auto; try lia.
          rewrite Z0. rewrite dropN_0. exact Hn.
        - apply (IHn (epend (c_st r))) with (eo := eo ++ c_out r); auto.
          pose proof (len_dropN (c_used r) (b :: inp)) as LD. unfold len in LD, Hu. simpl length in *. lia. }
      destruct Hrec as [f0 [s' [eo' [HW [Hg' Hd']]]]].
      exists (S f0), s', eo'. split; [|split].
      + intros fuel Hfu. destruct fuel as [|fuel]; [lia|].
        cbn [CompressDefs.write_loop]. fold s1. rewrite <- Heqr. rewrite Hrc, run_ok_rc_run.
        fold s2. apply HW. lia.
      + rewrite <- app_assoc in Hg'. rewrite takeN_dropN in Hg'. exact Hg'.
      + rewrite Hd'. unfold s2. simpl. exact Hd1.
  Qed.

  Lemma takeN_nil {A} n : takeN n (@nil A) = [].
  Proof. unfold takeN. apply firstn_nil. Qed.

  Lemma flush_loop_ok k : k <> KXz -> forall e s don ci eo,
    (epend (w_est _ s) <= e)%nat -> wgood k s don ci eo ->
    exists f0 s' m, (forall fuel, (f0 <= fuel)%nat -> flush_loop fuel k s = WOk _ s') /\
      member k m ci /\ w_file _ s' ++ w_buf _ s' = don ++ m /\ w_dirty _ s' = w_dirty _ s.
  Proof.
    intros Hk. induction e as [e IHe] using lt_wf_ind; intros s don ci eo He Hg.
    destruct (ensure_output_good k s don ci eo Hg) as [Hg1 [Hav Hd1]].
    set (s1 := ensure_output estate k s) in *.
    pose proof (min_output_pos k) as Hmp.
    assert (Hcap : 0 < avail_out estate k s1) by lia.
    destruct Hg1 as [HE1 [HF1 HL1]].
    pose proof (ecall_finish k (w_est _ s1) [] (avail_out estate k s1) ci eo HE1 Hcap) as HC.
    cbv zeta in HC.
    remember (ecall k (w_est _ s1) (finish_flag k) [] (avail_out estate k s1)) as r.
    destruct HC as [Hu [Ho HC]].
    assert (Hest : w_est _ s1 = w_est _ s) by (unfold s1, ensure_output; destruct (avail_out estate k s <? min_output k); reflexivity).
    set (s2 := mkw _ (w_file _ s1) (w_buf _ s1 ++ c_out r) (c_st r) (w_dirty _ s1)).
    assert (HF2 : w_file _ s2 ++ w_buf _ s2 = don ++ eo ++ c_out r).
    { unfold s2. simpl. rewrite app_assoc, HF1. rewrite <- app_assoc. reflexivity. }
    destruct HC as [[Hrc [Hused Hmem]]|[Hrc [HE2 Hpend]]].
    - exists 1%nat, s2, (eo ++ c_out r). split; [|split; [|split]].
      + intros fuel Hfu. destruct fuel as [|fuel]; [lia|].
        cbn [CompressDefs.flush_loop]. fold s1. rewrite <- Heqr. rewrite Hrc, (finish_step_end k Hk). reflexivity.
      + rewrite app_nil_r in Hmem. exact Hmem.
      + exact HF2.
      + unfold s2. simpl. exact Hd1.
    - rewrite len_nil in Hu. assert (Z0 : c_used r = 0) by lia.
      pose proof (Hpend Z0) as Hlt. rewrite Hest in Hlt.
      rewrite takeN_nil, app_nil_r in HE2.
      assert (Hg2 : wgood k s2 don ci (eo ++ c_out r)).
      { unfold wgood. split; [exact HE2|]. split; [exact HF2|].
        unfold s2. simpl. rewrite len_app. unfold avail_out in Ho. lia. }
      destruct (IHe (epend (c_st r)) ltac:(lia) s2 don ci (eo ++ c_out r)) as [f0 [s' [m [HW [Hm [HF' Hd']]]]]]; auto.
      exists (S f0), s', m. split; [|split; [|split]]; auto.
      + intros fuel Hfu. destruct fuel as [|fuel]; [lia|].
        cbn [CompressDefs.flush_loop]. fold s1. rewrite <- Heqr. rewrite (finish_step_again k _ Hrc).
        fold s2. apply HW. lia.
      + rewrite Hd'. unfold s2. simpl. exact Hd1.
  Qed.

  (* invariant between operations: finished members, the open member, and
     what dirty_ = false guarantees *)
  Definition wtop (k : kind) (s : wstate) (pd ci : list Z) : Prop :=
    exists don eo, kstream k don pd /\ wgood k s don ci eo /\
      (w_dirty _ s = false -> ci = [] /\ eo = [] /\ w_buf _ s = [] /\ don <> []).

  Lemma ws_write_ok k s pd ci d : wtop k s pd ci ->
    exists f0 s', (forall fuel, (f0 <= fuel)%nat -> ws_write fuel k s d = WOk _ s') /\ wtop k s' pd (ci ++ d).
  Proof.
    intros [don [eo [Hks [Hg _]]]].
    destruct (write_loop_ok k (length d) (epend (w_est _ s)) d s don ci eo) as [f0 [s' [eo' [HW [Hg' Hd']]]]]; auto.
    exists f0, (mkw _ (w_file _ s') (w_buf _ s') (w_est _ s') true). split.
    - intros fuel Hfu. unfold CompressDefs.ws_write. rewrite (HW fuel Hfu). reflexivity.
    - exists don, eo'. split; [exact Hks|]. split; [exact Hg'|]. simpl. discriminate.
  Qed.

  Lemma ws_write_chunks_eq M c fuel k s data :
    ws_write_chunks estate ecall M c fuel k s data =
    if M <? len data then
      match c with
      | O => WErr _ true
      | S c' => match ws_write fuel k s (takeN M data) with
                | WOk _ s' => ws_write_chunks estate ecall M c' fuel k s' (dropN M data)
                | WErr _ h => WErr _ h
                end
      end
    else ws_write fuel k s data.
  Proof. destruct c; reflexivity. Qed.

  Lemma ws_write_chunks_ok k M : 1 <= M -> forall c s pd ci d, (length d <= c)%nat -> wtop k s pd ci ->
    exists f0 s', (forall fuel, (f0 <= fuel)%nat -> ws_write_chunks estate ecall M c fuel k s d = WOk _ s') /\ wtop k s' pd (ci ++ d).
  Proof.
    intros HM. induction c as [|c IH]; intros s pd ci d Hc Ht.
    - destruct d; [|simpl in Hc; lia].
      destruct (ws_write_ok k s pd ci [] Ht) as [f0 [s' [HW Ht']]].
      exists f0, s'. split; [|exact Ht']. intros fuel Hf. rewrite ws_write_chunks_eq.
      destruct (M <? len (@nil Z)) eqn:E; [apply N.ltb_lt in E; rewrite len_nil in E; lia|].
      apply HW. exact Hf.
    - destruct (M <? len d) eqn:E.
      + assert (E' : M < len d) by (apply N.ltb_lt; exact E).
        destruct (ws_write_ok k s pd ci (takeN M d) Ht) as [f1 [s1 [HW1 Ht1]]].
        assert (Hl : (length (dropN M d) <= c)%nat).
        { pose proof (len_dropN M d) as LD. unfold len in LD, E'. lia. }
        destruct (IH s1 pd (ci ++ takeN M d) (dropN M d) Hl Ht1) as [f2 [s' [HW2 Ht']]].
        exists (Nat.max f1 f2), s'. split.
        * intros fuel Hf. rewrite ws_write_chunks_eq. rewrite E.
          assert (Hf1 : (f1 <= fuel)%nat) by lia. assert (Hf2 : (f2 <= fuel)%nat) by lia.
          rewrite (HW1 fuel Hf1). apply HW2. exact Hf2.
        * rewrite <- app_assoc in Ht'. rewrite takeN_dropN in Ht'. exact Ht'.
      + destruct (ws_write_ok k s pd ci d Ht) as [f0 [s' [HW Ht']]].
        exists f0, s'. split; [|exact Ht']. intros fuel Hf. rewrite ws_write_chunks_eq, E. apply HW. exact Hf.
  Qed.

  Lemma kSizeMax_pos : 1 <= kSizeMax.
  Proof. unfold kSizeMax. discriminate. Qed.

  Lemma ws_flush_ok k s pd ci : k <> KXz -> wtop k s pd ci ->
    exists f0 s', (forall fuel, (f0 <= fuel)%nat -> ws_flush fuel k s = WOk _ s') /\
                  wtop k s' (pd ++ ci) [] /\ w_dirty _ s' = false.
  Proof.
    intros Hk [don [eo [Hks [Hg Hcl]]]].
    destruct (w_dirty _ s) eqn:Ed.
    - destruct (flush_loop_ok k Hk (epend (w_est _ s)) s don ci eo) as [f0 [s2 [m [HW [Hm [HF Hd]]]]]]; auto.
      exists f0, (mkw _ (w_file _ s2 ++ w_buf _ s2) [] (ereset k (w_est _ s2)) false).
      split; [|split; [|reflexivity]].
      + intros fuel Hfu. unfold CompressDefs.ws_flush. rewrite Ed. rewrite (HW fuel Hfu). reflexivity.
      + exists (don ++ m), []. split; [apply kstream_snoc; assumption|]. split.
        * unfold wgood. simpl. split; [apply ereset_inv|]. split.
          -- rewrite !app_nil_r. exact HF.
          -- rewrite len_nil. lia.
        * simpl. intros _. repeat split; auto.
          pose proof (starts_with_nonempty _ _ (member_magic _ _ _ Hm)) as Hne.
          destruct don; destruct m; simpl; congruence.
    - destruct (Hcl eq_refl) as [Hci [Heo [Hb Hdn]]]. subst ci.
      exists 0%nat, s. split; [|split; [|exact Ed]].
      + intros fuel _. unfold CompressDefs.ws_flush. rewrite Ed. reflexivity.
      + rewrite app_nil_r. exists don, eo. auto.
  Qed.

  Lemma run_ops_ok k : k <> KXz -> forall ops s pd ci, wtop k s pd ci ->
    exists f0 s' pd' ci', (forall fuel, (f0 <= fuel)%nat -> run_ops fuel k s ops = WOk _ s') /\
      wtop k s' pd' ci' /\ pd' ++ ci' = (pd ++ ci) ++ write_plain ops.
  Proof.
    intros Hk. induction ops as [|op ops IH]; intros s pd ci Ht.
    - exists 0%nat, s, pd, ci. split; [intros; reflexivity|]. split; [exact Ht|].
      unfold write_plain. simpl. rewrite app_nil_r. reflexivity.
    - destruct op as [d|].
      + destruct (ws_write_chunks_ok k kSizeMax kSizeMax_pos (length d) s pd ci d (le_n _) Ht) as [f1 [s1 [HW1 Ht1]]].
        destruct (IH s1 pd (ci ++ d) Ht1) as [f2 [s' [pd' [ci' [HW2 [Ht' He]]]]]].
        exists (Nat.max f1 f2), s', pd', ci'. split; [|split; [exact Ht'|]].
        * intros fuel Hfu. cbn [CompressDefs.run_ops]. unfold CompressDefs.ws_write_full.
          rewrite (HW1 fuel ltac:(lia)). apply HW2. lia.
        * rewrite He. unfold write_plain. simpl. rewrite !app_assoc. reflexivity.
      + destruct (ws_flush_ok k s pd ci Hk Ht) as [f1 [s1 [HW1 [Ht1 _]]]].
        destruct (IH s1 (pd ++ ci) [] Ht1) as [f2 [s' [pd' [ci' [HW2 [Ht' He]]]]]].
        exists (Nat.max f1 f2), s', pd', ci'. split; [|split; [exact Ht'|]].
        * intros fuel Hfu. cbn [CompressDefs.run_ops]. rewrite (HW1 fuel ltac:(lia)). apply HW2. lia.
        * rewrite He. unfold write_plain. simpl. rewrite app_nil_r. reflexivity.
  Qed.

  (* any sequence of writes and flushes, then destruction: the file is a
     non-empty sequence of complete members that expands to exactly the bytes written *)
  Theorem write_then_decode_proof : forall k w ops, k <> KXz ->
    exists f0 file, (forall fuel, (f0 <= fuel)%nat -> write_session fuel k w ops = FileOk file) /\
      kstream k file (write_plain ops) /\ file <> [].
  Proof.
    intros k w ops Hk.
    pose proof (enew_inv w k) as HE0.
    destruct (enew w k) as [est w'] eqn:EN. simpl in HE0.
    set (s0 := mkw estate [] [] est dirty_initial).
    assert (Ht0 : wtop k s0 [] []).
    { exists [], []. split; [constructor|]. split.
      - unfold wgood, s0. simpl. split; [exact HE0|]. split; [reflexivity|]. rewrite len_nil. lia.
      - unfold s0. simpl. change dirty_initial with true. discriminate. }
    destruct (run_ops_ok k Hk ops s0 [] [] Ht0) as [f1 [s1 [pd [ci [HW1 [Ht1 He]]]]]].
    destruct (ws_flush_ok k s1 pd ci Hk Ht1) as [f2 [s2 [HW2 [[don [eo [Hks [[_ [HF _]] Hcl]]]] Hd2]]]].
    destruct (Hcl Hd2) as [_ [Heo [Hb Hdn]]]. subst eo. rewrite Hb in HF. rewrite !app_nil_r in HF.
    exists (Nat.max f1 f2), (w_file _ s2). split; [|split].
    - intros fuel Hfu. unfold CompressDefs.write_session. rewrite EN. fold s0.
      rewrite (HW1 fuel ltac:(lia)). rewrite (HW2 fuel ltac:(lia)). reflexivity.
    - rewrite HF. simpl in He. rewrite <- He. exact Hks.
    - rewrite HF. exact Hdn.
  Qed.

  (* nothing written at all: exactly one valid member with empty payload *)
  Theorem flush_finishes_member_proof : forall k w, k <> KXz ->
    exists f0 m, (forall fuel, (f0 <= fuel)%nat -> write_session fuel k w [] = FileOk m) /\ member k m [].
  Proof.
    intros k w Hk.
    pose proof (enew_inv w k) as HE0.
    destruct (enew w k) as [est w'] eqn:EN. simpl in HE0.
    set (s0 := mkw estate [] [] est dirty_initial).
    assert (Hg0 : wgood k s0 [] [] []).
    { unfold wgood, s0. simpl. split; [exact HE0|]. split; [reflexivity|]. rewrite len_nil. lia. }
    destruct (flush_loop_ok k Hk (epend est) s0 [] [] [] (le_n _) Hg0) as [f0 [s2 [m [HW [Hm [HF Hd]]]]]].
    exists f0, m. split; [|exact Hm].
    intros fuel Hfu. unfold CompressDefs.write_session. rewrite EN. fold s0. cbn [CompressDefs.run_ops].
    unfold CompressDefs.ws_flush. change (w_dirty estate s0) with dirty_initial. change dirty_initial with true.
    cbv iota. rewrite (HW fuel Hfu). simpl. simpl in HF. rewrite HF. reflexivity.
  Qed.

  (* ---------------------------------------------------------- GZCompress *)
  Notation gzc_finish := (gzc_finish estate ecall).
  Notation gz_compress := (gz_compress world estate enew ecall).

  Lemma gzc_finish_ok : forall n e inp est ci out size,
    (length inp <= n)%nat -> (epend est <= e)%nat -> EInv KGz est ci out -> len out <= size ->
    exists f0 res, (forall fuel, (f0 <= fuel)%nat -> gzc_finish fuel est inp out size = FileOk res) /\
                   member KGz res (ci ++ inp).
  Proof.
    induction n as [n IHn] using lt_wf_ind.
    induction e as [e IHe] using lt_wf_ind; intros inp est ci out size Hn He HE Hs.
    set (size1 := gzc_ensure out size).
    assert (Hs1 : len out < size1).
    { unfold size1, gzc_ensure. destruct (size - len out <? gz_kMinOutput) eqn:E.
      - assert (0 < gzc_increment) by (vm_compute; reflexivity). lia.
      - apply N.ltb_ge in E. assert (0 < gz_kMinOutput) by (vm_compute; reflexivity). lia. }
    set (cap := N.min kSizeMax (size1 - len out)).
    assert (Hcap : 0 < cap) by (unfold cap; assert (0 < kSizeMax) by (vm_compute; reflexivity); lia).
    pose proof (ecall_finish KGz est inp cap ci out HE Hcap) as HC. cbv zeta in HC.
    change (finish_flag KGz) with Z_FINISH in HC.
    remember (ecall KGz est Z_FINISH inp cap) as r.
    destruct HC as [Hu [Ho [[Hrc [Hused Hmem]]|[Hrc [HE2 Hpend]]]]].
    - exists 1%nat, (out ++ c_out r). split; [|exact Hmem].
      intros fuel Hfu. destruct fuel as [|fuel]; [lia|].
      cbn [CompressDefs.gzc_finish]. fold size1. fold cap. rewrite <- Heqr. rewrite Hrc.
      change (finish_step KGz (rc_end KGz)) with FDone. reflexivity.
    - assert (Hs2 : len (out ++ c_out r) <= size1) by (rewrite len_app; unfold cap in Ho; lia).
      assert (Hrec : exists f0 res, (forall fuel, (f0 <= fuel)%nat ->
                 gzc_finish fuel (c_st r) (dropN (c_used r) inp) (out ++ c_out r) size1 = FileOk res) /\
                 member KGz res ((ci ++ takeN (c_used r) inp) ++ dropN (c_used r) inp)).
      { destruct (N.eq_dec (c_used r) 0) as [Z0|Z0].
        - pose proof (Hpend Z0) as Hlt.
          apply (IHe (epend (c_st r))); auto; try lia.
          rewrite Z0, dropN_0. exact Hn.
        - apply (IHn (length (dropN (c_used r) inp))) with (e := epend (c_st r)); auto.
          pose proof (len_dropN (c_used r) inp) as LD. unfold len in LD, Hu. lia. }
      destruct Hrec as [f0 [res [HW Hm]]].
      exists (S f0), res. split.
      + intros fuel Hfu. destruct fuel as [|fuel]; [lia|].
        cbn [CompressDefs.gzc_finish]. fold size1. fold cap. rewrite <- Heqr.
        rewrite (finish_step_again KGz _ Hrc). apply HW. lia.
      + rewrite <- app_assoc in Hm. rewrite takeN_dropN in Hm. exact Hm.
  Qed.

  Notation gzc_feed := (gzc_feed estate ecall).
  Notation gzc_chunks := (gzc_chunks estate ecall).

  Lemma gzc_ensure_room out size : len out <= size ->
    len out <= gzc_ensure out size /\ gz_kMinOutput <= gzc_ensure out size - len out.
  Proof.
    intros H. unfold gzc_ensure. destruct (size - len out <? gz_kMinOutput) eqn:E.
    - assert (gz_kMinOutput <= gzc_increment) by (vm_compute; discriminate). lia.
    - apply N.ltb_ge in E. lia.
  Qed.

  (* feeding one piece of input: everything is consumed, the output only grows *)
  Lemma gzc_feed_ok : forall n e inp est ci out size,
    (length inp <= n)%nat -> (epend est <= e)%nat -> EInv KGz est ci out -> len out <= size ->
    exists f0 est' out' size',
      (forall fuel, (f0 <= fuel)%nat -> gzc_feed fuel est inp out size = Some (Some (est', out', size'))) /\
      EInv KGz est' (ci ++ inp) out' /\ len out' <= size'.
  Proof.
    induction n as [n IHn] using lt_wf_ind.
    induction e as [e IHe] using lt_wf_ind; intros inp est ci out size Hn He HE Hs.
    destruct inp as [|b inp].
    { exists 0%nat, est, out, size. rewrite app_nil_r. split; [intros fuel _; destruct fuel; reflexivity|auto]. }
    destruct (gzc_ensure_room out size Hs) as [Hs1 Hroom].
    set (size1 := gzc_ensure out size) in *.
    set (cap := N.min kSizeMax (size1 - len out)).
    assert (Hcap : 0 < cap).
    { unfold cap. assert (0 < kSizeMax) by (vm_compute; reflexivity).
      assert (0 < gz_kMinOutput) by (vm_compute; reflexivity). lia. }
    pose proof (ecall_run KGz est (b :: inp) cap ci out HE Hcap ltac:(discriminate)) as HC. cbv zeta in HC.
    change (run_flag KGz) with Z_NO_FLUSH in HC.
    remember (ecall KGz est Z_NO_FLUSH (b :: inp) cap) as r.
    destruct HC as [Hu [Ho [Hrc [HE2 Hpend]]]].
    assert (Hs2 : len (out ++ c_out r) <= size1) by (rewrite len_app; unfold cap in Ho; lia).
    assert (Hrec : exists f0 est' out' size',
               (forall fuel, (f0 <= fuel)%nat ->
                  gzc_feed fuel (c_st r) (dropN (c_used r) (b :: inp)) (out ++ c_out r) size1 = Some (Some (est', out', size'))) /\
               EInv KGz est' ((ci ++ takeN (c_used r) (b :: inp)) ++ dropN (c_used r) (b :: inp)) out' /\ len out' <= size').
    { destruct (N.eq_dec (c_used r) 0) as [Z0|Z0].
      - pose proof (Hpend Z0) as Hlt.
        apply (IHe (epend (c_st r))); auto; try lia.
        rewrite Z0, dropN_0. exact Hn.
      - apply (IHn (length (dropN (c_used r) (b :: inp)))) with (e := epend (c_st r)); auto.
        pose proof (len_dropN (c_used r) (b :: inp)) as LD. unfold len in LD, Hu. simpl length in *. lia. }
    destruct Hrec as [f0 [est' [out' [size' [HW [HE' Hs']]]]]].
    exists (S f0), est', out', size'. split; [|split; [|exact Hs']].
    - intros fuel Hfu. destruct fuel as [|fuel]; [lia|].
      cbn [CompressDefs.gzc_feed]. fold size1. fold cap. rewrite <- Heqr. rewrite Hrc.
      change (run_ok KGz (rc_run KGz)) with true. cbv iota. apply HW. lia.
    - rewrite <- app_assoc in HE'. rewrite takeN_dropN in HE'. exact HE'.
  Qed.

  Lemma gzc_chunks_eq M c fuel est data out size :
    gzc_chunks M c fuel est data out size =
    if M <? len data then
      match c with
      | O => None
      | S c' =>
        match gzc_feed fuel est (takeN M data) out size with
        | Some (Some (est', out', size')) => gzc_chunks M c' fuel est' (dropN M data) out' (gzc_ensure out' size')
        | Some None => Some None
        | None => None
        end
      end
    else Some (Some (est, data, out, size)).
  Proof. destruct c; reflexivity. Qed.

  Lemma gzc_chunks_ok M : 1 <= M -> forall c est ci data out size,
    (length data <= c)%nat -> EInv KGz est ci out -> len out <= size -> gz_kMinOutput <= size - len out ->
    exists f0 est' rest out' size',
      (forall fuel, (f0 <= fuel)%nat -> gzc_chunks M c fuel est data out size = Some (Some (est', rest, out', size'))) /\
      (exists done, data = done ++ rest /\ EInv KGz est' (ci ++ done) out') /\
      len out' <= size' /\ gz_kMinOutput <= size' - len out'.
  Proof.
    intros HM. induction c as [|c IH]; intros est ci data out size Hc HE Hs Hroom.
    - destruct data; [|simpl in Hc; lia].
      exists 0%nat, est, [], out, size. split; [|split; [exists []; split; [reflexivity|rewrite app_nil_r; exact HE]|auto]].
      intros fuel _. rewrite gzc_chunks_eq.
      destruct (M <? len (@nil Z)) eqn:E; [apply N.ltb_lt in E; rewrite len_nil in E; lia|reflexivity].
    - destruct (M <? len data) eqn:E.
      + assert (E' : M < len data) by (apply N.ltb_lt; exact E).
        destruct (gzc_feed_ok (length (takeN M data)) (epend est) (takeN M data) est ci out size (le_n _) (le_n _) HE Hs)
          as [f1 [est1 [out1 [size1 [HW1 [HE1 Hs1]]]]]].
        destruct (gzc_ensure_room out1 size1 Hs1) as [Hs1' Hroom1].
        assert (Hl : (length (dropN M data) <= c)%nat).
        { pose proof (len_dropN M data) as LD. unfold len in LD, E'. lia. }
        destruct (IH est1 (ci ++ takeN M data) (dropN M data) out1 (gzc_ensure out1 size1) Hl HE1 Hs1' Hroom1)
          as [f2 [est' [rest [out' [size' [HW2 [[done [Hd HE']] [Hs' Hroom']]]]]]]].
        exists (Nat.max f1 f2), est', rest, out', size'. split; [|split; [|auto]].
        * intros fuel Hf. rewrite gzc_chunks_eq, E.
          assert (Hf1 : (f1 <= fuel)%nat) by lia. assert (Hf2 : (f2 <= fuel)%nat) by lia.
          rewrite (HW1 fuel Hf1). apply HW2. exact Hf2.
        * exists (takeN M data ++ done). split.
          -- rewrite <- app_assoc, <- Hd. symmetry. apply takeN_dropN.
          -- rewrite app_assoc. exact HE'.
      + exists 0%nat, est, data, out, size. split; [|split; [exists []; split; [reflexivity|rewrite app_nil_r; exact HE]|auto]].
        intros fuel _. rewrite gzc_chunks_eq, E. reflexivity.
  Qed.

  Lemma gzc_pre_skip fuel est inp out size : gz_kMinOutput <= size - len out ->
    gzc_pre estate ecall fuel est inp out size = Some (Some (est, inp, out, size)).
  Proof.
    intros H. assert (E : (size - len out <? gz_kMinOutput) = false) by (apply N.ltb_ge; exact H).
    destruct fuel; cbn [CompressDefs.gzc_pre]; rewrite E; reflexivity.
  Qed.

  (* one-shot compression of any record -- of any size, also beyond what zlib takes
     in one call -- yields one complete gzip member for it *)
  Theorem gzcompress_proof : forall w from,
    exists f0 out, (forall fuel, (f0 <= fuel)%nat -> gz_compress fuel w from = FileOk out) /\
                   member KGz out from.
  Proof.
    intros w from.
    pose proof (enew_inv w KGz) as HE0.
    destruct (enew w KGz) as [est w'] eqn:EN. simpl in HE0.
    assert (Hs0 : len (@nil Z) <= gzc_initial) by (rewrite len_nil; lia).
    assert (Hr0 : gz_kMinOutput <= gzc_initial - len (@nil Z)) by (vm_compute; discriminate).
    destruct (gzc_chunks_ok kSizeMax kSizeMax_pos (length from) est [] from [] gzc_initial (le_n _) HE0 Hs0 Hr0)
      as [f1 [est1 [rest [out1 [size1 [HW1 [[done [Hd HE1]] [Hs1 Hroom1]]]]]]]].
    simpl in HE1.
    destruct (gzc_finish_ok (length rest) (epend est1) rest est1 done out1 size1) as [f2 [res [HW2 Hm]]]; auto.
    exists (Nat.max f1 f2), res. split; [|rewrite Hd; exact Hm].
    intros fuel Hfu. unfold CompressDefs.gz_compress. rewrite EN.
    rewrite (HW1 fuel ltac:(lia)). rewrite (gzc_pre_skip fuel est1 rest out1 size1 Hroom1).
    apply HW2. lia.
  Qed.
End WriteProofs.

(* members of one codec are members *)
Lemma kstream_mstream member k raw pay : kstream member k raw pay -> mstream member raw pay.
Proof.
  intros H. induction H as [|m p raw pay Hm H IH]; [constructor|].
  econstructor; eassumption.
Qed.
