(* Executable model of the DRIVER code of util/compress.cc over an abstract
   codec (C15).  zlib / bzip2 / liblzma are environment: they enter as Section
   variables (one raw call = one [dcall]/[ecall]); the loops around them --
   ReadFactory, DetectMagic, UncompressedWithHeader, ReadStream::Read,
   WriteStream::{write,flush}, GZCompress -- are modelled statement by
   statement.  Sizes are N (size_t values never approach 2^64 here; the
   UINT_MAX clamp kSizeMax of SetOutput is kept).  No proofs in this file. *)
From PP Require Export Base.Bytes Gen.Src_compress.
From Coq Require Export NArith.
Local Open Scope N_scope.

Definition len {A} (l : list A) : N := N.of_nat (length l).
Definition takeN {A} (n : N) (l : list A) : list A := firstn (N.to_nat n) l.
Definition dropN {A} (n : N) (l : list A) : list A := skipn (N.to_nat n) l.
Definition is_nil {A} (l : list A) : bool := match l with [] => true | _ => false end.

Inductive kind := KGz | KBz | KXz.

Definition mem (x : Z) (l : list Z) : bool := existsb (Z.eqb x) l.

Fixpoint starts_with (p l : list Z) : bool :=
  match p, l with
  | [], _ => true
  | a :: p', b :: l' => (a =? b)%Z && starts_with p' l'
  | _ :: _, [] => false
  end.

(* DetectMagic: gzip, then bzip2, then xz (the length tests are part of starts_with) *)
Definition detect_magic (h : list Z) : option kind :=
  if starts_with gz_magic h then Some KGz
  else if starts_with bz_magic h then Some KBz
  else if starts_with xz_magic h then Some KXz
  else None.

Definition magic_of (k : kind) : list Z :=
  match k with KGz => gz_magic | KBz => bz_magic | KXz => xz_magic end.

(* ---- the file descriptor: the bytes arrive in fragments; one read(2) returns
   min(request, rest of the current fragment); empty fragments do not exist *)
Definition frags := list (list Z).

Fixpoint partial_read (f : frags) (n : N) : list Z * frags :=
  match f with
  | [] => ([], [])
  | fr :: r =>
    match fr with
    | [] => partial_read r n
    | _ => if n <? len fr then (takeN n fr, dropN n fr :: r) else (fr, r)
    end
  end.

(* util::ReadOrEOF: loop until the request is filled or read returns 0 *)
Fixpoint read_or_eof_loop (fuel : nat) (f : frags) (n : N) : list Z * frags :=
  match fuel with
  | O => ([], f)
  | S k =>
    if n =? 0 then ([], f)
    else
      let (got, f') := partial_read f n in
      match got with
      | [] => ([], f')
      | _ => let (more, f'') := read_or_eof_loop k f' (n - len got) in (got ++ more, f'')
      end
  end.
Definition read_or_eof (f : frags) (n : N) : list Z * frags := read_or_eof_loop (N.to_nat n) f n.

(* result of one raw codec call: new codec state, input bytes consumed, output
   bytes produced, return code (the int the C function returns) *)
Record cres (S : Type) := mkcres { c_st : S; c_used : N; c_out : list Z; c_rc : Z }.
Arguments mkcres {S}.
Arguments c_st {S}.
Arguments c_used {S}.
Arguments c_out {S}.
Arguments c_rc {S}.

Inductive pstep := PContinue | PEnd | PThrow.

(* GZipRead::Process / BZipRead::Process / XZip::Process: what the wrapper does
   with the return code ([no_input]: avail_in was 0 before the call;
   [no_output]: next_out did not move) *)
Definition process_read (k : kind) (rc : Z) (no_input no_output : bool) : pstep :=
  match k with
  | KGz => if mem rc gz_read_continue then PContinue
           else if mem rc gz_read_end then PEnd else PThrow
  | KBz => if (rc =? BZ_STREAM_END)%Z then PEnd
           else if mem rc bz_fine
                then (if bz_read_stall_check && no_input && no_output then PThrow else PContinue)
                else PThrow
  | KXz => if (rc =? LZMA_STREAM_END)%Z then PEnd
           else if mem rc xz_fine then PContinue else PThrow
  end.

(* the flush/action argument of the raw decoder call *)
Definition read_action (k : kind) (fin : bool) : Z :=
  match k with
  | KGz => 0%Z
  | KBz => 0%Z
  | KXz => if fin then LZMA_FINISH else LZMA_RUN
  end.

Inductive rerr := EGz | EBz | EXz | ECompressed | EHang.
Definition err_of (k : kind) : rerr := match k with KGz => EGz | KBz => EBz | KXz => EXz end.

Section Reader.
  Variables world dstate : Type.
  (* a fresh decoder (inflateInit2 / BZ2_bzDecompressInit / lzma_stream_decoder) *)
  Variable dnew : world -> kind -> dstate * world.
  (* inflate / BZ2_bzDecompress / lzma_code: state, action, available input, avail_out *)
  Variable dcall : kind -> dstate -> Z -> list Z -> N -> cres dstate.

  Inductive reader :=
  | RComplete
  | RPlain                                   (* Uncompressed *)
  | RHeader (buf : list Z)                   (* UncompressedWithHeader: bytes not yet handed out *)
  | RStream (k : kind) (st : dstate) (inbuf : list Z) (fin : bool).
      (* ReadStream<k>: unconsumed part of in_buffer_; fin = XZip::action_ is LZMA_FINISH *)

  Record rstate := mkr { r_file : frags; r_world : world; r_rd : reader }.
  Inductive rres := ROk (out : list Z) (s : rstate) | RErr (e : rerr).

  (* ReadFactory; None = CompressedException (plain data after a compressed member) *)
  Definition read_factory (f : frags) (w : world) (already : list Z) (require : bool)
    : option (reader * frags * world) :=
    let '(header, f1) :=
      if len already <? kMagicSize
      then let (got, f') := read_or_eof f (kMagicSize - len already) in (already ++ got, f')
      else (already, f) in
    match header with
    | [] => Some (RComplete, f1, w)
    | _ =>
      match detect_magic header with
      | Some k => let (st, w') := dnew w k in Some (RStream k st header false, f1, w')
      | None => if require then None else Some (RHeader header, f1, w)
      end
    end.

  (* internal_->Read(to, amount, thunk) *)
  Fixpoint rd (fuel : nat) (s : rstate) (amount : N) : rres :=
    match r_rd s with
    | RComplete => ROk [] s
    | RPlain =>
      let (got, f') := partial_read (r_file s) amount in ROk got (mkr f' (r_world s) RPlain)
    | RHeader buf =>
      let sending := N.min amount (len buf) in
      let rest := dropN sending buf in
      ROk (takeN sending buf)
          (mkr (r_file s) (r_world s) (match rest with [] => RPlain | _ => RHeader rest end))
    | RStream k st inbuf fin =>
      if amount =? 0 then ROk [] s
      else
        match fuel with
        | O => RErr EHang
        | S fuel' =>
          (* if (!back_.AvailInput()) ReadInput(thunk); *)
          let '(inbuf1, f1, fin1) :=
            match inbuf with
            | [] => let (got, f') := read_or_eof (r_file s) kInputBuffer in
                    (got, f', fin || (match k with KXz => is_nil got | _ => false end))
            | _ => (inbuf, r_file s, fin)
            end in
          let cap := match k with KXz => amount | _ => N.min kSizeMax amount end in
          let r := dcall k st (read_action k fin1) inbuf1 cap in
          let inbuf2 := dropN (c_used r) inbuf1 in
          let out := c_out r in
          match process_read k (c_rc r) (is_nil inbuf1) (is_nil out) with
          | PThrow => RErr (err_of k)
          | PEnd =>
            match read_factory f1 (r_world s) inbuf2 true with
            | None => RErr ECompressed
            | Some (rdr, f2, w2) =>
              let s2 := mkr f2 w2 rdr in
              match out with
              | [] => rd fuel' s2 amount        (* Current(thunk)->Read(to, amount, thunk) *)
              | _ => ROk out s2
              end
            end
          | PContinue =>
            let s1 := mkr f1 (r_world s) (RStream k (c_st r) inbuf2 fin1) in
            match out with
            | [] => rd fuel' s1 amount          (* while (back_.NextOutput() == to) *)
            | _ => ROk out s1
            end
          end
        end
    end.

  (* ReadCompressed(fd) *)
  Definition rc_open (f : frags) (w : world) : option rstate :=
    match read_factory f w [] false with
    | Some (rdr, f1, w1) => Some (mkr f1 w1 rdr)
    | None => None
    end.

  (* a client that calls Read(amt 0), Read(amt 1), ... until it returns 0 *)
  Inductive allres :=
  | AOk (data : list Z) (sizes : list N)
  | AErr (e : rerr) (data : list Z) (sizes : list N).

  Fixpoint read_all (n fuel : nat) (s : rstate) (amt : nat -> N) (i : nat) : allres :=
    match n with
    | O => AErr EHang [] []
    | S n' =>
      match rd fuel s (amt i) with
      | RErr e => AErr e [] []
      | ROk [] _ => AOk [] [0]
      | ROk out s' =>
        match read_all n' fuel s' amt (S i) with
        | AOk d z => AOk (out ++ d) (len out :: z)
        | AErr e d z => AErr e (out ++ d) (len out :: z)
        end
      end
    end.

  Definition read_file (n fuel : nat) (f : frags) (w : world) (amt : nat -> N) : allres :=
    match rc_open f w with
    | None => AErr ECompressed [] []
    | Some s => read_all n fuel s amt 0
    end.
End Reader.

Arguments RComplete {dstate}.
Arguments RPlain {dstate}.
Arguments RHeader {dstate}.
Arguments RStream {dstate}.

(* ------------------------------------------------------------------ writing *)
Definition min_output (k : kind) : N := match k with KGz => gz_kMinOutput | _ => bz_kMinOutput end.
Definition buf_size (k : kind) : N := N.max (min_output k) compressed_buffer.
Definition run_flag (k : kind) : Z := match k with KGz => Z_NO_FLUSH | _ => BZ_RUN end.
Definition finish_flag (k : kind) : Z := match k with KGz => Z_FINISH | _ => BZ_FINISH end.
(* GZipWrite::Process throws unless Z_OK; BZipWrite::Process = HandleError *)
Definition run_ok (k : kind) (rc : Z) : bool := match k with KGz => (rc =? Z_OK)%Z | _ => mem rc bz_fine end.
Inductive fstep := FDone | FAgain | FThrow.
(* GZipWrite::Finish / BZipWrite::Finish *)
Definition finish_step (k : kind) (rc : Z) : fstep :=
  match k with
  | KGz => if mem rc gz_finish_done then FDone else if mem rc gz_finish_again then FAgain else FThrow
  | _ => if mem rc bz_finish_done then FDone else if mem rc bz_finish_again then FAgain else FThrow
  end.

Inductive wop := OpWrite (d : list Z) | OpFlush.
Definition op_data (o : wop) : list Z := match o with OpWrite d => d | OpFlush => [] end.

Section Writer.
  Variables world estate : Type.
  Variable enew : world -> kind -> estate * world.      (* deflateInit2 / BZ2_bzCompressInit *)
  Variable ereset : kind -> estate -> estate.            (* deflateReset / End + Init *)
  (* deflate / BZ2_bzCompress: state, flush/action, available input, avail_out *)
  Variable ecall : kind -> estate -> Z -> list Z -> N -> cres estate.

  (* WriteStream<k>: bytes already handed to the FileWriter, compressed bytes
     sitting in buf_, the codec, dirty_ *)
  Record wstate := mkw { w_file : list Z; w_buf : list Z; w_est : estate; w_dirty : bool }.
  Inductive wres := WOk (s : wstate) | WErr (hang : bool).

  Definition avail_out (k : kind) (s : wstate) : N := buf_size k - len (w_buf s).

  (* if (!compressor_.EnoughOutput()) { writer_.write(buf_, NextOutput - buf_); SetOutput(buf_, buf_size_); } *)
  Definition ensure_output (k : kind) (s : wstate) : wstate :=
    if avail_out k s <? min_output k
    then mkw (w_file s ++ w_buf s) [] (w_est s) (w_dirty s)
    else s.

  (* while (compressor_.AvailInput()) { ensure; compressor_.Process(); } *)
  Fixpoint write_loop (fuel : nat) (k : kind) (s : wstate) (inp : list Z) : wres :=
    match inp with
    | [] => WOk s
    | _ =>
      match fuel with
      | O => WErr true
      | S f =>
        let s1 := ensure_output k s in
        let r := ecall k (w_est s1) (run_flag k) inp (avail_out k s1) in
        if run_ok k (c_rc r)
        then write_loop f k (mkw (w_file s1) (w_buf s1 ++ c_out r) (c_st r) (w_dirty s1)) (dropN (c_used r) inp)
        else WErr false
      end
    end.

  Definition ws_write (fuel : nat) (k : kind) (s : wstate) (data : list Z) : wres :=
    match write_loop fuel k s data with
    | WOk s' => WOk (mkw (w_file s') (w_buf s') (w_est s') true)
    | e => e
    end.

  (* write(data, amount): for (; amount > kSizeMax; data += kSizeMax, amount -= kSizeMax) write(data, kSizeMax);
     then the loop above on what is left.  [M] = Compressor::kSizeMax, [chunks] bounds the recursion *)
  Fixpoint ws_write_chunks (M : N) (chunks fuel : nat) (k : kind) (s : wstate) (data : list Z) : wres :=
    if M <? len data then
      match chunks with
      | O => WErr true
      | S c =>
        match ws_write fuel k s (takeN M data) with
        | WOk s' => ws_write_chunks M c fuel k s' (dropN M data)
        | e => e
        end
      end
    else ws_write fuel k s data.
  Definition ws_write_full (fuel : nat) (k : kind) (s : wstate) (data : list Z) : wres :=
    ws_write_chunks kSizeMax (length data) fuel k s data.

  (* do { ensure } while (!compressor_.Finish()); *)
  Fixpoint flush_loop (fuel : nat) (k : kind) (s : wstate) : wres :=
    match fuel with
    | O => WErr true
    | S f =>
      let s1 := ensure_output k s in
      let r := ecall k (w_est s1) (finish_flag k) [] (avail_out k s1) in
      let s2 := mkw (w_file s1) (w_buf s1 ++ c_out r) (c_st r) (w_dirty s1) in
      match finish_step k (c_rc r) with
      | FDone => WOk s2
      | FAgain => flush_loop f k s2
      | FThrow => WErr false
      end
    end.

  Definition ws_flush (fuel : nat) (k : kind) (s : wstate) : wres :=
    if w_dirty s
    then match flush_loop fuel k s with
         | WOk s2 => WOk (mkw (w_file s2 ++ w_buf s2) [] (ereset k (w_est s2)) false)
         | e => e
         end
    else WOk s.

  Fixpoint run_ops (fuel : nat) (k : kind) (s : wstate) (ops : list wop) : wres :=
    match ops with
    | [] => WOk s
    | op :: r =>
      match (match op with OpWrite d => ws_write_full fuel k s d | OpFlush => ws_flush fuel k s end) with
      | WOk s' => run_ops fuel k s' r
      | e => e
      end
    end.

  Inductive fileres := FileOk (bytes : list Z) | FileErr (hang : bool).

  (* WriteCompressed(fd, k); the operations; ~WriteCompressed (= flush) *)
  Definition write_session (fuel : nat) (k : kind) (w : world) (ops : list wop) : fileres :=
    let (est, _) := enew w k in
    match run_ops fuel k (mkw [] [] est dirty_initial) ops with
    | WOk s =>
      match ws_flush fuel k s with
      | WOk s' => FileOk (w_file s')
      | WErr h => FileErr h
      end
    | WErr h => FileErr h
    end.

  (* ---- GZCompress(from, to, level): one shot into a growing std::string.
     [out] = bytes produced so far, [size] = to.size() *)
  Definition gzc_ensure (out : list Z) (size : N) : N :=
    if size - len out <? gz_kMinOutput then size + gzc_increment else size.

  (* while (!writer.EnoughOutput()) { EnsureOutput(writer, to); writer.Process(); } *)
  Fixpoint gzc_pre (fuel : nat) (est : estate) (inp out : list Z) (size : N)
    : option (option (estate * list Z * list Z * N)) :=   (* None = hang; Some None = throw *)
    if size - len out <? gz_kMinOutput then
      match fuel with
      | O => None
      | S f =>
        let size1 := gzc_ensure out size in
        let r := ecall KGz est Z_NO_FLUSH inp (N.min kSizeMax (size1 - len out)) in
        if run_ok KGz (c_rc r) then gzc_pre f (c_st r) (dropN (c_used r) inp) (out ++ c_out r) size1
        else Some None
      end
    else Some (Some (est, inp, out, size)).

  (* do { EnsureOutput(writer, to); } while (!writer.Finish()); *)
  Fixpoint gzc_finish (fuel : nat) (est : estate) (inp out : list Z) (size : N) : fileres :=
    match fuel with
    | O => FileErr true
    | S f =>
      let size1 := gzc_ensure out size in
      let r := ecall KGz est Z_FINISH inp (N.min kSizeMax (size1 - len out)) in
      match finish_step KGz (c_rc r) with
      | FDone => FileOk (out ++ c_out r)
      | FAgain => gzc_finish f (c_st r) (dropN (c_used r) inp) (out ++ c_out r) size1
      | FThrow => FileErr false
      end
    end.

  (* SetInput(data, kSizeMax); while (writer.AvailInput()) { EnsureOutput(writer, to); writer.Process(); } *)
  Fixpoint gzc_feed (fuel : nat) (est : estate) (inp out : list Z) (size : N)
    : option (option (estate * list Z * N)) :=             (* None = hang; Some None = throw *)
    match inp with
    | [] => Some (Some (est, out, size))
    | _ =>
      match fuel with
      | O => None
      | S f =>
        let size1 := gzc_ensure out size in
        let r := ecall KGz est Z_NO_FLUSH inp (N.min kSizeMax (size1 - len out)) in
        if run_ok KGz (c_rc r) then gzc_feed f (c_st r) (dropN (c_used r) inp) (out ++ c_out r) size1
        else Some None
      end
    end.

  (* for (; amount > kSizeMax; data += kSizeMax, amount -= kSizeMax) { feed kSizeMax bytes; EnsureOutput; }
     [M] = GZip::kSizeMax; returns the codec, the input that is left, the output so far, to.size() *)
  Fixpoint gzc_chunks (M : N) (chunks fuel : nat) (est : estate) (data out : list Z) (size : N)
    : option (option (estate * list Z * list Z * N)) :=
    if M <? len data then
      match chunks with
      | O => None
      | S c =>
        match gzc_feed fuel est (takeN M data) out size with
        | Some (Some (est', out', size')) => gzc_chunks M c fuel est' (dropN M data) out' (gzc_ensure out' size')
        | Some None => Some None
        | None => None
        end
      end
    else Some (Some (est, data, out, size)).

  Definition gz_compress (fuel : nat) (w : world) (from : list Z) : fileres :=
    let (est, _) := enew w KGz in
    match gzc_chunks kSizeMax (length from) fuel est from [] gzc_initial with
    | None => FileErr true
    | Some None => FileErr false
    | Some (Some (est0, inp0, out0, size0)) =>
      match gzc_pre fuel est0 inp0 out0 size0 with
      | None => FileErr true
      | Some None => FileErr false
      | Some (Some (est1, inp1, out1, size1)) => gzc_finish fuel est1 inp1 out1 size1
      end
    end.
End Writer.

(* WriteUncompressed *)
Definition write_plain (ops : list wop) : list Z := flat_map op_data ops.
