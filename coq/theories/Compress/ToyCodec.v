(* A toy codec that satisfies every premise of the C15 theorems: the codec
   contract is satisfiable (the theorems are not vacuous), and the driver model
   can be run end to end inside Coq.
   Framing: magic of the codec, then [1; b] for every payload byte b, then [0].
   The decoder and the encoder handle at most one byte per call, which exercises
   every loop of the driver (refill, drain, growth, thunk to the next member). *)
From PP Require Import Compress.CompressDefs Compress.CompressProofs.
From Coq Require Import Lia ZifyBool.
Local Open Scope N_scope.

Definition enc (p : list Z) : list Z := flat_map (fun b => [1%Z; b]) p.
Definition tmember (k : kind) (m p : list Z) : Prop := m = magic_of k ++ enc p ++ [0%Z].

Lemma enc_app a b : enc (a ++ b) = enc a ++ enc b.
Proof. unfold enc. apply flat_map_app. Qed.

Lemma starts_with_self_app p : forall x, starts_with p (p ++ x) = true.
Proof. induction p as [|a p IH]; intros x; [reflexivity|]. simpl. rewrite Z.eqb_refl. apply IH. Qed.

Lemma tmember_magic k m p : tmember k m p -> starts_with (magic_of k) m = true.
Proof. intros H. rewrite H. apply starts_with_self_app. Qed.

(* ------------------------------------------------------------ decoder *)
Inductive tdec := THdr (j : nat) | TTag | TVal.

Definition stall_rc (k : kind) : Z :=
  match k with KGz => Z_BUF_ERROR | KBz => BZ_OK | KXz => LZMA_BUF_ERROR end.

Definition tdcall (k : kind) (st : tdec) (act : Z) (inp : list Z) (cap : N) : cres tdec :=
  match inp with
  | [] => mkcres st 0 [] (stall_rc k)
  | b :: _ =>
    match st with
    | THdr (S j) => mkcres (THdr j) 1 [] (rc_ok k)
    | THdr O | TTag => if (b =? 0)%Z then mkcres TTag 1 [] (rc_end k) else mkcres TVal 1 [] (rc_ok k)
    | TVal => mkcres TTag 1 [b] (rc_ok k)
    end
  end.

Definition tdnew (w : unit) (k : kind) : tdec * unit := (THdr (length (magic_of k)), tt).

Definition TDInv (k : kind) (st : tdec) (pin pout : list Z) : Prop :=
  match st with
  | THdr j => exists pre, length pre = j /\ pin = pre ++ enc pout ++ [0%Z]
  | TTag => pin = enc pout ++ [0%Z]
  | TVal => exists b rest, pout = b :: rest /\ pin = b :: enc rest ++ [0%Z]
  end.

Lemma agree_cons b inp pin : agree (b :: inp) pin -> pin <> [] -> exists pin', pin = b :: pin'.
Proof.
  intros [[t H]|[t H]] Hne.
  - exists (inp ++ t). rewrite H. reflexivity.
  - destruct pin as [|c pin]; [congruence|]. simpl in H. inversion H; subst. exists pin. reflexivity.
Qed.

Lemma len1 (x : Z) : len [x] = 1.
Proof. reflexivity. Qed.

Lemma len_cons_pos {A} (x : A) l : 1 <= len (x :: l).
Proof. unfold len. simpl. lia. Qed.

Ltac ll := unfold len in *; simpl length in *; lia.

Lemma toy_dcall_contract : dcall_contract tdec tdcall TDInv (fun _ => 0%nat).
Proof.
  intros k st act inp cap pin pout HD Hag Hcap. cbv zeta.
  assert (Hpne : pin <> []).
  { destruct st as [j| |]; simpl in HD.
    - destruct HD as [pre [_ H]]. rewrite H. destruct pre; [destruct (enc pout)|]; discriminate.
    - rewrite HD. destruct (enc pout); discriminate.
    - destruct HD as [b [rest [_ H]]]. rewrite H. discriminate. }
  destruct inp as [|b inp].
  - (* stall *)
    simpl. repeat split; try ll.
    + exists pout. reflexivity.
    + right. right. repeat split; auto.
      destruct k; simpl; auto.
  - destruct (agree_cons b inp pin Hag Hpne) as [pin' Hpin].
    pose proof (len_cons_pos b inp) as Li.
    assert (Lp : 1 <= len pin) by (rewrite Hpin; apply len_cons_pos).
    destruct st as [[|j]| |]; simpl in HD; simpl.
    + (* header finished: a tag *)
      destruct HD as [pre [Hl H]]. destruct pre; [|discriminate]. simpl in H.
      destruct pout as [|x r]; simpl in H.
      * rewrite H in Hpin. inversion Hpin; subst b pin'.
        simpl. repeat split; try ll.
        -- exists []. reflexivity.
        -- left. rewrite H. repeat split; reflexivity.
      * rewrite H in Hpin. inversion Hpin; subst b pin'.
        simpl. repeat split; try ll.
        -- exists (x :: r). reflexivity.
        -- right. left. split; [reflexivity|]. split; [|left; ll].
           simpl. exists x, r. rewrite H. split; reflexivity.
    + (* skipping a magic byte *)
      destruct HD as [pre [Hl H]]. destruct pre as [|p0 pre]; [discriminate|].
      rewrite H in Hpin. simpl in Hpin. inversion Hpin; subst p0 pin'.
      repeat split; try ll.
      * exists pout. reflexivity.
      * right. left. split; [reflexivity|]. split; [|left; ll].
        simpl. exists pre. split; [simpl in Hl; lia|]. rewrite H. reflexivity.
    + (* a tag *)
      destruct pout as [|x r]; simpl in HD.
      * rewrite HD in Hpin. inversion Hpin; subst b pin'.
        simpl. repeat split; try ll.
        -- exists []. reflexivity.
        -- left. rewrite HD. repeat split; reflexivity.
      * rewrite HD in Hpin. inversion Hpin; subst b pin'.
        simpl. repeat split; try ll.
        -- exists (x :: r). reflexivity.
        -- right. left. split; [reflexivity|]. split; [|left; ll].
           simpl. exists x, r. rewrite HD. split; reflexivity.
    + (* a value *)
      destruct HD as [b0 [rest [Hpo H]]]. rewrite H in Hpin. inversion Hpin; subst b0 pin'.
      repeat split; try ll.
      * exists rest. rewrite Hpo. reflexivity.
      * right. left. split; [reflexivity|]. split; [|left; ll].
        simpl. rewrite Hpo, H. reflexivity.
Qed.

Lemma toy_dnew_inv : forall (w : unit) k m p, tmember k m p -> TDInv k (fst (tdnew w k)) m p.
Proof. intros w k m p H. simpl. exists (magic_of k). split; [reflexivity|exact H]. Qed.

(* ------------------------------------------------------------ encoder *)
Inductive tenc := EHdr (j : nat) | EReady | EVal (b : Z).

Definition again_rc (k : kind) : Z := match k with KGz => Z_OK | _ => BZ_FINISH_OK end.
Definition flag_rc (k : kind) (flag : Z) : Z :=
  if (flag =? finish_flag k)%Z then again_rc k else rc_run k.

Definition tecall (k : kind) (st : tenc) (flag : Z) (inp : list Z) (cap : N) : cres tenc :=
  match st with
  | EHdr j =>
    mkcres (if (S j <? length (magic_of k))%nat then EHdr (S j) else EReady) 0
           [nth j (magic_of k) 0%Z] (flag_rc k flag)
  | EVal b => mkcres EReady 0 [b] (flag_rc k flag)
  | EReady =>
    match inp with
    | b :: _ => mkcres (EVal b) 1 [1%Z] (flag_rc k flag)
    | [] => if (flag =? finish_flag k)%Z then mkcres EReady 0 [0%Z] (rc_end k)
            else mkcres EReady 0 [] (rc_run k)
    end
  end.

Definition tenew (w : unit) (k : kind) : tenc * unit := (EHdr 0, tt).
Definition tereset (k : kind) (st : tenc) : tenc := EHdr 0.

Definition TEInv (k : kind) (st : tenc) (ci eo : list Z) : Prop :=
  match st with
  | EHdr j => ci = [] /\ eo = firstn j (magic_of k) /\ (j < length (magic_of k))%nat
  | EReady => eo = magic_of k ++ enc ci
  | EVal b => exists c0, ci = c0 ++ [b] /\ eo = magic_of k ++ enc c0 ++ [1%Z]
  end.

Definition tepend (st : tenc) : nat :=
  match st with EHdr j => 12 - j | EReady => 1 | EVal _ => 2 end.

Lemma magic_len_bound k : (2 <= length (magic_of k) <= 6)%nat.
Proof. destruct k; simpl; lia. Qed.

Lemma firstn_S_nth {A} (d : A) l : forall j, (j < length l)%nat -> firstn (S j) l = firstn j l ++ [nth j l d].
Proof.
  induction l as [|x l IH]; intros j Hj; [simpl in Hj; lia|].
  destruct j as [|j]; [reflexivity|]. simpl. f_equal. apply IH. simpl in Hj. lia.
Qed.

Lemma run_finish_flags_differ k : (run_flag k =? finish_flag k)%Z = false.
Proof. destruct k; reflexivity. Qed.

(* the step shared by RUN and FINISH when the encoder still has something to do *)
Lemma toy_step k st flag inp cap ci eo :
  TEInv k st ci eo -> 0 < cap -> (inp <> [] \/ st <> EReady) ->
  let r := tecall k st flag inp cap in
  c_used r <= len inp /\ len (c_out r) <= cap /\ c_rc r = flag_rc k flag /\
  TEInv k (c_st r) (ci ++ takeN (c_used r) inp) (eo ++ c_out r) /\
  (c_used r = 0 -> (tepend (c_st r) < tepend st)%nat).
Proof.
  intros HE Hcap Hne. cbv zeta. pose proof (magic_len_bound k) as Hm.
  destruct st as [j| |b]; simpl in HE; cbn [tecall c_used c_out c_rc c_st].
  - destruct HE as [Hci [Heo Hj]]. subst ci eo.
    repeat split; try ll.
    + rewrite (takeN_0 inp). simpl app.
      destruct (S j <? length (magic_of k))%nat eqn:E.
      * apply Nat.ltb_lt in E. rewrite <- (firstn_S_nth 0%Z) by exact Hj.
        unfold TEInv. repeat split; auto.
      * apply Nat.ltb_ge in E. rewrite <- (firstn_S_nth 0%Z) by exact Hj.
        unfold TEInv. rewrite firstn_all2 by lia. simpl. rewrite app_nil_r. reflexivity.
    + intros _. destruct (S j <? length (magic_of k))%nat eqn:E; unfold tepend; [|apply Nat.ltb_ge in E]; lia.
  - destruct inp as [|b inp]; [destruct Hne; congruence|].
    simpl. repeat split; try ll.
    + exists ci. split; [reflexivity|]. rewrite HE. rewrite <- app_assoc. reflexivity.
  - destruct HE as [c0 [Hci Heo]]. simpl. repeat split; try ll.
    rewrite (takeN_0 inp), app_nil_r. rewrite Hci, Heo. rewrite enc_app. simpl.
    rewrite <- !app_assoc. reflexivity.
Qed.

Lemma toy_run_contract : ecall_run_contract tenc tecall TEInv tepend.
Proof.
  intros k st inp cap ci eo HE Hcap Hne. cbv zeta.
  destruct (toy_step k st (run_flag k) inp cap ci eo HE Hcap (or_introl Hne)) as [H1 [H2 [H3 [H4 H5]]]].
  repeat split; auto. rewrite H3. unfold flag_rc. rewrite run_finish_flags_differ. reflexivity.
Qed.

Lemma again_rc_ok k : finish_again_rc k (again_rc k).
Proof. destruct k; simpl; auto. Qed.

Lemma toy_finish_contract : ecall_finish_contract tenc tecall tmember TEInv tepend.
Proof.
  intros k st inp cap ci eo HE Hcap. cbv zeta.
  assert (Hagain : forall st0, TEInv k st0 ci eo -> (inp <> [] \/ st0 <> EReady) ->
            let r := tecall k st0 (finish_flag k) inp cap in
            c_used r <= len inp /\ len (c_out r) <= cap /\
            (c_rc r = rc_end k /\ c_used r = len inp /\ tmember k (eo ++ c_out r) (ci ++ inp) \/
             finish_again_rc k (c_rc r) /\
             TEInv k (c_st r) (ci ++ takeN (c_used r) inp) (eo ++ c_out r) /\
             (c_used r = 0 -> (tepend (c_st r) < tepend st0)%nat))).
  { intros st0 HE0 Hne0. cbv zeta.
    pose proof (toy_step k st0 (finish_flag k) inp cap ci eo HE0 Hcap Hne0) as HH. cbv zeta in HH.
    destruct HH as [H1 [H2 [H3 [H4 H5]]]].
    split; [exact H1|]. split; [exact H2|]. right. rewrite H3. unfold flag_rc. rewrite Z.eqb_refl.
    split; [apply again_rc_ok|]. split; [exact H4|exact H5]. }
  destruct st as [j| |b].
  - apply Hagain; [exact HE|]. right. discriminate.
  - destruct inp as [|b inp].
    + cbn [tecall]. rewrite Z.eqb_refl. cbn [c_used c_out c_rc c_st].
      split; [unfold len; simpl; lia|]. split; [unfold len; simpl; lia|]. left.
      split; [reflexivity|]. split; [reflexivity|].
      unfold TEInv in HE. rewrite HE, app_nil_r. unfold tmember. rewrite <- app_assoc. reflexivity.
    + apply Hagain; [exact HE|]. left. discriminate.
  - apply Hagain; [exact HE|]. right. discriminate.
Qed.

Lemma toy_enew_inv : forall (w : unit) k, TEInv k (fst (tenew w k)) [] [].
Proof. intros w k. simpl. pose proof (magic_len_bound k). repeat split; lia. Qed.

Lemma toy_ereset_inv : forall k st, TEInv k (tereset k st) [] [].
Proof. intros k st. simpl. pose proof (magic_len_bound k). repeat split; lia. Qed.

(* ------------------------------------------------------------ the premises are satisfiable: closed corollaries *)
Notation toy_write := (write_session unit tenc tenew tereset tecall).
Notation toy_read := (read_file unit tdec tdnew tdcall).

(* everything written through the (toy) gzip/bzip2 writer, read back through
   ReadCompressed's model in ANY fragments and request sizes, is what was written *)
Theorem toy_write_read_roundtrip : forall k ops, k <> KXz ->
  exists f0 file,
    (forall fuel, (f0 <= fuel)%nat -> toy_write fuel k tt ops = FileOk file) /\
    forall (f : frags) (amt : nat -> N) (n fuel : nat),
      fbytes f = file -> (forall j, 0 < amt j) ->
      (length (write_plain ops) < n)%nat -> (2 * length file < fuel)%nat ->
      exists sizes, toy_read n fuel f tt amt = AOk (write_plain ops) sizes.
Proof.
  intros k ops Hk.
  destruct (write_then_decode_proof unit tenc tenew tereset tecall tmember TEInv tepend
              tmember_magic toy_enew_inv toy_ereset_inv toy_run_contract toy_finish_contract k tt ops Hk)
    as [f0 [file [HW [Hks Hne]]]].
  exists f0, file. split; [exact HW|].
  intros f amt n fuel Hf Hamt Hn Hfu.
  apply (read_concat_members_proof unit tdec tdnew tdcall tmember TDInv (fun _ => 0%nat)
           tmember_magic toy_dnew_inv toy_dcall_contract f tt file (write_plain ops) amt n fuel); auto.
  eapply kstream_mstream. exact Hks.
Qed.

(* a (toy) member cut anywhere after its magic is an error, for all three codecs *)
Theorem toy_truncated_is_error : forall k p (cut : nat) (f : frags) amt n fuel,
  let m := magic_of k ++ enc p ++ [0%Z] in
  (length (magic_of k) <= cut < length m)%nat ->
  fbytes f = firstn cut m -> (forall j, 0 < amt j) ->
  (length p < n)%nat -> (2 * cut < fuel)%nat ->
  exists e d z, toy_read n fuel f tt amt = AErr e d z /\ e <> EHang /\ exists rest, p = d ++ rest.
Proof.
  intros k p cut f amt n fuel m Hcut Hf Hamt Hn Hfu.
  assert (Hts : tstream tmember (firstn cut m) p).
  { apply (ts_cut tmember k m p (firstn cut m) (skipn cut m)).
    - reflexivity.
    - symmetry. apply firstn_skipn.
    - intros E. assert (L : length (firstn cut m) = 0%nat) by (rewrite E; reflexivity).
      rewrite firstn_length in L. pose proof (magic_len_bound k). lia.
    - intros E. assert (L : length (skipn cut m) = 0%nat) by (rewrite E; reflexivity).
      rewrite skipn_length in L. lia. }
  assert (Hmag : starts_with (magic_of k) (firstn cut m) = true).
  { apply starts_with_take; [apply starts_with_self_app|lia]. }
  destruct (truncated_is_error_proof unit tdec tdnew tdcall tmember TDInv (fun _ => 0%nat) 0%nat
              tmember_magic toy_dnew_inv toy_dcall_contract (fun _ => le_n 0)
              f tt (firstn cut m) p k amt n fuel Hts Hmag Hf Hamt Hn) as [e [d [z H]]].
  - rewrite firstn_length. simpl. lia.
  - exists e, d, z. exact H.
Qed.
