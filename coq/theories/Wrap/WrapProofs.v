(* C05 -- the wrapper transition system (WrapDefs.v) never gets stuck when the
   bookkeeping is enqueued BEFORE the record's lines are written, for all pipe
   capacities >= 1, all line lengths >= 1, all child buffering policies, all
   flush points, all inputs and all interleavings. *)
From PP Require Import Wrap.WrapDefs.
From Coq Require Import Lia.

(* ---- cumulative sums of positive lengths are strictly monotone ---- *)
Section Cum.
  Variable len : nat -> nat.
  Hypothesis Hlen : forall j, 1 <= len j.

  Lemma cum_mono a b : a <= b -> cum len a <= cum len b.
  Proof. induction 1; simpl; lia. Qed.

  Lemma cum_lt a b : a < b -> cum len a < cum len b.
  Proof.
    intros H. assert (G : cum len (S a) <= cum len b) by (apply cum_mono; lia).
    simpl in G. pose proof (Hlen a). lia.
  Qed.

  Lemma cum_le_inv a b : cum len a <= cum len b -> a <= b.
  Proof. intros H. destruct (Nat.le_gt_cases a b) as [|G]; [assumption|]. apply cum_lt in G. lia. Qed.

  Lemma cum_lt_inv a b : cum len a < cum len b -> a < b.
  Proof. intros H. destruct (Nat.le_gt_cases b a) as [G|]; [|assumption]. apply cum_mono in G. lia. Qed.
End Cum.

Lemma cum_ext f g n : (forall j, f j = g j) -> cum f n = cum g n.
Proof. intros H. induction n; simpl; [reflexivity|]. rewrite IHn, H. reflexivity. Qed.

Ltac bprop :=
  repeat match goal with
         | H : _ && _ = true |- _ => apply andb_true_iff in H; destruct H
         | H : _ || _ = true |- _ => apply orb_true_iff in H
         | H : _ || _ = false |- _ => apply orb_false_iff in H; destruct H
         | H : _ && _ = false |- _ => apply andb_false_iff in H
         | H : negb _ = true |- _ => apply negb_true_iff in H
         | H : negb _ = false |- _ => apply negb_false_iff in H
         | H : (_ <=? _) = true |- _ => apply Nat.leb_le in H
         | H : (_ <=? _) = false |- _ => apply Nat.leb_gt in H
         | H : (_ <? _) = true |- _ => apply Nat.ltb_lt in H
         | H : (_ <? _) = false |- _ => apply Nat.ltb_ge in H
         | H : Nat.eqb _ _ = true |- _ => apply Nat.eqb_eq in H
         | H : Nat.eqb _ _ = false |- _ => apply Nat.eqb_neq in H
         end.

Fixpoint qsum (q : list (option nat)) : nat :=
  match q with
  | [] => 0
  | Some n :: r => n + qsum r
  | None :: r => qsum r
  end.

Lemma qsum_app a b : qsum (a ++ b) = qsum a + qsum b.
Proof. induction a as [|[n|] a IH]; simpl; lia. Qed.

Section WrapProofs.
  Variable pr : wparams.
  Variables ilen alen : nat -> nat.
  Hypothesis Hil : forall j, 1 <= ilen j.
  Hypothesis Hal : forall j, 1 <= alen j.
  Hypothesis Hecho : p_echo pr = true -> forall j, alen j = ilen j.
  Hypothesis Hcin : 1 <= p_cin pr.
  Hypothesis Hcout : 1 <= p_cout pr.
  Hypothesis Hord : p_order pr = true.
  (* the in-loop peek (foldfilter) relies on the poison being enqueued before the child's stdin is closed,
     and - since the fix - tolerates the child's end-of-file when the queue is no longer empty *)
  Hypothesis Hmidpf : p_mid_peek pr = true -> p_poison_first pr = true.
  Hypothesis Hmidok : p_mid_peek pr = true -> p_peek_eof_ok pr = true.

  Notation I := (I ilen).
  Notation A := (A alen).
  Notation wstep := (wstep pr ilen alen).
  Notation produced := (produced pr ilen alen).

  Definition poisoned (s : wst) : bool :=
    match w_fpc s with
    | FEofFlush | FEofClose => p_poison_first pr
    | FDone => true
    | _ => false
    end.

  Definition kactive (s : wst) : bool :=
    match w_kpc s with KDeq | KLines | KMid | KMidW | KMid2 => true | _ => false end.

  Definition fclosedpc (s : wst) : bool :=
    match w_fpc s with FDone | FEofPoison => true | _ => false end.

  Record WInv (s : wst) : Prop := {
    i_in : w_cread s <= w_pushed s /\ w_pushed s <= w_sent s /\ w_sent s <= I (w_sentl s);
    i_cin : w_pushed s - w_cread s <= p_cin pr;
    i_cl : I (w_clines s) <= w_cread s /\ w_cread s < I (S (w_clines s));
    i_rel : w_cwritten s <= w_crel s /\ w_crel s <= produced (w_cread s) (w_clines s) /\ w_crell s <= w_clines s;
    i_out : w_kread s <= w_cwritten s /\ w_cwritten s - w_kread s <= p_cout pr;
    i_kl : A (w_klines s) <= w_kread s;
    i_acct : w_klines s + w_kneed s + qsum (w_queue s) = w_enql s;
    i_nz : w_kpc s <> KLines -> w_kneed s = 0;
    i_eq : w_enql s = w_sentl s;
    i_pcsent : w_fpc s <> FSendSecond -> w_sent s = I (w_sentl s);
    i_pcfirst : w_fpc s <> FSendFirst /\ w_fpc s <> FEnqSecond;
    i_closed : w_inclosed s = fclosedpc s;
    i_closed_pushed : w_inclosed s = true -> w_pushed s = w_sent s;
    i_exit : w_cexit s = true ->
             w_inclosed s = true /\ w_cread s = w_pushed s /\ w_cwritten s = w_crel s /\
             w_crel s = produced (w_cread s) (w_clines s);
    i_q : exists ns, w_queue s = map Some ns ++ (if poisoned s && kactive s then [None] else []);
    i_kdone : kactive s = false -> poisoned s = true /\ w_queue s = [];
    i_err : w_kpc s <> KErr;
    i_mid2 : w_kpc s = KMid2 -> A (w_klines s) < w_cwritten s \/ w_cexit s = true;
    i_midp : (w_kpc s = KMid \/ w_kpc s = KMidW \/ w_kpc s = KMid2) -> p_mid_peek pr = true;
    i_eofp : w_fpc s = FEofPoison -> p_poison_first pr = false;
    i_eofclose : w_fpc s = FEofClose -> w_flushing s = true;
  }.

  Lemma A_eq_I : p_echo pr = true -> forall n, A n = I n.
  Proof. intros H n. unfold WrapDefs.A, WrapDefs.I. apply cum_ext. apply Hecho; exact H. Qed.

  (* the child never holds answers for lines that were not sent *)
  Lemma produced_le_sent s : WInv s -> produced (w_cread s) (w_clines s) <= A (w_sentl s) /\ w_clines s <= w_sentl s.
  Proof.
    intros J. pose proof A_eq_I as HAI. destruct J.
    assert (Hc : w_clines s <= w_sentl s).
    { apply (cum_le_inv ilen Hil). unfold WrapDefs.I in *. lia. }
    split; [|exact Hc]. unfold WrapDefs.produced. destruct (p_echo pr) eqn:E.
    - rewrite (HAI eq_refl). lia.
    - apply (cum_mono alen).
      destruct (p_early pr && (I (w_clines s) <? w_cread s)) eqn:Ee; [|lia].
      apply andb_true_iff in Ee. destruct Ee as [_ Ee]. apply Nat.ltb_lt in Ee.
      (* a line has been started: it is one of the lines sent *)
      assert (Hlt : w_clines s < w_sentl s).
      { apply (cum_lt_inv ilen). unfold WrapDefs.I in *. lia. }
      lia.
  Qed.

  Lemma winv_init recs : WInv (w_init recs).
  Proof.
    constructor; simpl; unfold WrapDefs.produced, WrapDefs.I, WrapDefs.A; simpl; try lia; try discriminate; auto.
    - split; discriminate.
    - exists []. reflexivity.
    - intros [H|[H|H]]; discriminate.
  Qed.

  Ltac inv_some H := inversion H; subst; clear H.

  Ltac wsimp := simpl; unfold poisoned, kactive, fclosedpc, set_fpc in *; simpl in *.
  Ltac wauto :=
    solve [ auto
          | lia
          | discriminate
          | congruence
          | split; discriminate
          | rewrite ?qsum_app; simpl; lia
          | intuition (try lia; try congruence; try discriminate) ].

  (* queue shape after appending the poison / a record, or when nothing was appended *)
  Ltac wq_poison Hq Hkd :=
    let ns := fresh "ns" in let E := fresh "E" in
    destruct Hq as [ns E]; exists ns; rewrite E;
    match goal with
    | |- context [w_kpc ?s] => destruct (w_kpc s); simpl in *;
                               try (rewrite app_nil_r; reflexivity);
                               try (let X := fresh in pose proof (Hkd eq_refl) as X; destruct X; discriminate)
    end.
  Ltac wq_same Hq :=
    let ns := fresh "ns" in let E := fresh "E" in
    destruct Hq as [ns E]; exists ns; rewrite E; reflexivity.

  Lemma winv_feed s s' : WInv s -> step_feed pr ilen s = Some s' -> WInv s'.
  Proof.
    intros J H. unfold step_feed in H.
    destruct (negb (feeder_ready s)) eqn:Er; [discriminate|].
    destruct J. destruct i_pcfirst0 as [Hnf Hne].
    destruct (w_fpc s) eqn:Epc; try congruence.
    - (* FNext *)
      assert (Hs : w_sent s = I (w_sentl s)) by (apply i_pcsent0; discriminate).
      destruct (w_recs s) as [|n rest] eqn:Erecs.
      + destruct (p_poison_first pr) eqn:Epf; inv_some H.
        * constructor; wsimp; rewrite ?Epc, ?Epf in *; try wauto.
          wq_poison i_q0 i_kdone0.
        * constructor; wsimp; rewrite ?Epc, ?Epf in *; try wauto.
      + rewrite Hord in H. inv_some H.
        assert (Hm : I (w_sentl s) <= I (w_sentl s + n)) by (apply (cum_mono ilen); lia).
        constructor; wsimp; rewrite ?Epc in *; try wauto.
        destruct i_q0 as [ns Hq]. exists (ns ++ [n]). rewrite Hq. rewrite map_app. simpl. rewrite !app_nil_r. reflexivity.
    - (* FSendSecond *)
      destruct (Nat.eqb (w_sent s) (I (w_sentl s))) eqn:Es; [|discriminate]. bprop. inv_some H.
      constructor; wsimp; rewrite ?Epc in *; try wauto.
    - (* FEofFlush *)
      inv_some H.
      constructor; wsimp; rewrite ?Epc in *; try wauto.
    - (* FEofClose *)
      inv_some H. unfold feeder_ready in Er.
      assert (Hp : w_pushed s = w_sent s).
      { rewrite (i_eofclose0 eq_refl) in Er. simpl in Er. bprop. exact Er. }
      constructor; wsimp; rewrite ?Epc in *; destruct (p_poison_first pr) eqn:Epf; try wauto.
    - (* FEofPoison *)
      inv_some H.
      constructor; wsimp; rewrite ?Epc in *; try wauto.
      wq_poison i_q0 i_kdone0.
  Qed.

  Lemma winv_send s m s' : WInv s -> step_send ilen s m = Some s' -> WInv s'.
  Proof.
    intros J H. unfold step_send in H.
    destruct (negb (feeder_ready s)) eqn:Er; [discriminate|].
    destruct J. destruct i_pcfirst0 as [Hnf Hne].
    destruct (w_fpc s) eqn:Epc; try discriminate; try congruence.
    destruct ((1 <=? m) && (w_sent s + m <=? I (w_sentl s))) eqn:G; [|discriminate]. bprop. inv_some H.
    constructor; wsimp; rewrite ?Epc in *; try wauto.
  Qed.

  Lemma winv_flush_start s s' : WInv s -> step_flush_start s = Some s' -> WInv s'.
  Proof.
    intros J H. unfold step_flush_start in H.
    destruct (w_flushing s) eqn:Ef; [discriminate|].
    destruct (w_pushed s <? w_sent s) eqn:G; [|discriminate]. bprop.
    destruct J. destruct i_pcfirst0 as [Hnf Hne].
    destruct (w_fpc s) eqn:Epc; try discriminate; try congruence; inv_some H;
      constructor; wsimp; rewrite ?Epc in *; try wauto.
  Qed.

  Lemma winv_push s m s' : WInv s -> step_push pr s m = Some s' -> WInv s'.
  Proof.
    intros J H. unfold step_push in H.
    destruct (w_flushing s && (1 <=? m) && (w_pushed s + m <=? w_sent s) && (w_pushed s + m - w_cread s <=? p_cin pr)) eqn:G; [|discriminate].
    bprop. inv_some H.
    destruct J. destruct i_pcfirst0 as [Hnf Hne].
    assert (Hnc : w_inclosed s = false).
    { destruct (w_inclosed s) eqn:Ec; [|reflexivity]. pose proof (i_closed_pushed0 eq_refl). lia. }
    constructor; wsimp; try wauto.
  Qed.

  Lemma winv_child_read s m s' : WInv s -> step_child_read pr ilen alen s m = Some s' -> WInv s'.
  Proof.
    intros J H. unfold step_child_read in H.
    destruct (negb (w_cexit s) && Nat.eqb (w_crel s) (w_cwritten s) && (1 <=? m) && (w_cread s + m <=? w_pushed s)
              && (w_cread s + m <=? I (S (w_clines s)))) eqn:G; [|discriminate].
    bprop.
    pose proof A_eq_I as HAI.
    destruct J. destruct i_pcfirst0 as [Hnf Hne].
    assert (HI2 : I (S (S (w_clines s))) = I (S (w_clines s)) + ilen (S (w_clines s))) by reflexivity.
    assert (HA1 : A (S (w_clines s)) = A (w_clines s) + alen (w_clines s)) by reflexivity.
    pose proof (Hil (S (w_clines s))) as Hl2. pose proof (Hal (w_clines s)) as Ha1.
    unfold WrapDefs.produced in *.
    destruct (Nat.eqb (w_cread s + m) (I (S (w_clines s)))) eqn:Eline; bprop.
    - (* a line was completed *)
      destruct (p_echo pr) eqn:Eecho.
      + inv_some H. constructor; wsimp; unfold WrapDefs.produced in *; rewrite ?Eecho in *; try wauto.
      + destruct (p_early pr) eqn:Eearly; cbn [andb] in *.
        * (* early child: the completed line had been answered when it started *)
          assert (Hn : (I (S (w_clines s)) <? w_cread s + m) = false) by (apply Nat.ltb_ge; lia).
          unfold WrapDefs.produced in H. rewrite ?Eecho, ?Eearly, ?Hn in H. cbn [andb] in H. rewrite Nat.add_0_r in H.
          inv_some H.
          destruct (I (w_clines s) <? w_cread s) eqn:Eold; bprop;
            constructor; wsimp; unfold WrapDefs.produced in *; rewrite ?Eecho, ?Eearly, ?Hn, ?Eold in *; cbn [andb] in *;
            rewrite ?Nat.add_0_r, ?Nat.add_1_r in *; try wauto.
          all: assert (Hn' : (I (S (w_clines s)) <? w_cread s + m) = false) by (apply Nat.ltb_ge; unfold WrapDefs.I in *; simpl in *; lia);
            rewrite Hn', Nat.add_0_r;
            pose proof (eq_refl : A (S (w_clines s)) = A (w_clines s) + alen (w_clines s)) as HA1';
            destruct i_rel0 as (Hr1 & Hr2 & Hr3); rewrite ?Nat.add_0_r, ?Nat.add_1_r in Hr2; lia.
        * rewrite ?Nat.add_0_r in *.
          rewrite Nat.eqb_sym in H. rewrite (proj2 (Nat.eqb_neq _ _) (Nat.neq_succ_diag_r (w_clines s))) in H. simpl in H.
          destruct (release_now pr (S (w_clines s)) (w_crell s)) eqn:Erel; inv_some H;
            constructor; wsimp; unfold WrapDefs.produced in *; rewrite ?Eecho, ?Eearly in *; cbn [andb] in *; rewrite ?Nat.add_0_r in *; try wauto.
    - destruct (p_echo pr) eqn:Eecho.
      + inv_some H. constructor; wsimp; unfold WrapDefs.produced in *; rewrite ?Eecho in *; try wauto.
      + destruct (p_early pr) eqn:Eearly; cbn [andb] in *.
        * assert (Hn : (I (w_clines s) <? w_cread s + m) = true) by (apply Nat.ltb_lt; lia).
          unfold WrapDefs.produced in H. rewrite ?Eecho, ?Eearly, ?Hn in H. cbn [andb] in H. rewrite Nat.add_1_r in H.
          inv_some H.
          destruct (I (w_clines s) <? w_cread s) eqn:Eold; bprop;
            constructor; wsimp; unfold WrapDefs.produced in *; rewrite ?Eecho, ?Eearly, ?Hn, ?Eold in *; cbn [andb] in *;
            rewrite ?Nat.add_0_r, ?Nat.add_1_r in *; try wauto.
          all: assert (Hn' : (I (w_clines s) <? w_cread s + m) = true) by (apply Nat.ltb_lt; lia);
            rewrite Hn', Nat.add_1_r;
            pose proof (eq_refl : A (S (w_clines s)) = A (w_clines s) + alen (w_clines s)) as HA1';
            destruct i_rel0 as (Hr1 & Hr2 & Hr3); rewrite ?Nat.add_0_r, ?Nat.add_1_r in Hr2; lia.
        * rewrite ?Nat.add_0_r in *. rewrite Nat.eqb_refl in H. simpl in H. inv_some H.
          constructor; wsimp; unfold WrapDefs.produced in *; rewrite ?Eecho, ?Eearly in *; cbn [andb] in *; rewrite ?Nat.add_0_r in *; try wauto.
  Qed.

  Lemma winv_child_eof s s' : WInv s -> step_child_eof pr ilen alen s = Some s' -> WInv s'.
  Proof.
    intros J H. unfold step_child_eof in H.
    destruct (negb (w_cexit s) && w_inclosed s && Nat.eqb (w_cread s) (w_pushed s) && Nat.eqb (w_crel s) (w_cwritten s)) eqn:G; [|discriminate].
    bprop. destruct J. destruct i_pcfirst0 as [Hnf Hne].
    destruct (Nat.eqb (w_crel s) (produced (w_cread s) (w_clines s))) eqn:Ep; bprop; inv_some H;
      constructor; wsimp; try wauto.
  Qed.

  Lemma winv_child_write s m s' : WInv s -> step_child_write pr s m = Some s' -> WInv s'.
  Proof.
    intros J H. unfold step_child_write in H.
    destruct (negb (w_cexit s) && (1 <=? m) && (w_cwritten s + m <=? w_crel s) && (w_cwritten s + m - w_kread s <=? p_cout pr)) eqn:G; [|discriminate].
    bprop. destruct J. destruct i_pcfirst0 as [Hnf Hne]. inv_some H.
    constructor; wsimp; try wauto.
  Qed.

  Lemma winv_collect s m s' : WInv s -> step_collect pr alen s m = Some s' -> WInv s'.
  Proof.
    intros J H. unfold step_collect in H.
    pose proof A_eq_I as HAI.
    pose proof (produced_le_sent s J) as [Hps Hcs].
    destruct J. destruct i_pcfirst0 as [Hnf Hne].
    destruct (w_kpc s) eqn:Ek; try discriminate.
    - (* KDeq *)
      pose proof (i_nz0 ltac:(discriminate)) as Hn0.
      destruct (w_queue s) as [|[n|] q] eqn:Eq; [discriminate| |]; inv_some H.
      + constructor; wsimp; rewrite ?Ek in *; try wauto.
        destruct i_q0 as [ns Hq]. rewrite ?andb_true_r in Hq. destruct ns as [|n' ns]; simpl in Hq.
        * destruct (match w_fpc s with FEofFlush | FEofClose => p_poison_first pr | FDone => true | _ => false end); simpl in Hq; discriminate.
        * injection Hq as Hn Hq'. exists ns. rewrite andb_true_r. exact Hq'.
      + destruct i_q0 as [ns Hq]. unfold kactive in Hq. rewrite Ek, andb_true_r in Hq. destruct ns as [|n' ns]; simpl in Hq; [|discriminate].
        destruct (poisoned s) eqn:Epo; simpl in Hq; [|discriminate]. inversion Hq; subst q.
        constructor; wsimp; rewrite ?Ek, ?Epo in *; destruct (p_final_peek pr); try wauto;
          try (exists []; reflexivity).
    - (* KLines *)
      destruct (w_kneed s) as [|need] eqn:En.
      + destruct (p_mid_peek pr) eqn:Emp; inv_some H; constructor; wsimp; rewrite ?Ek in *; try wauto.
      + destruct (A (S (w_klines s)) <=? w_kread s) eqn:Eline; bprop.
        * inv_some H. constructor; wsimp; rewrite ?Ek in *; try wauto.
        * destruct ((1 <=? m) && (w_kread s + m <=? w_cwritten s)) eqn:Erd; bprop.
          -- inv_some H. constructor; wsimp; rewrite ?Ek in *; try wauto.
          -- (* end of file while lines are still needed: impossible *)
             exfalso.
             destruct (w_cexit s && Nat.eqb (w_kread s) (w_cwritten s)) eqn:Eeof; [|discriminate]. bprop.
             destruct (i_exit0 ltac:(assumption)) as (Hc & Hrp & Hwr & Hrel).
             pose proof (i_closed_pushed0 Hc) as Hps2.
             assert (Hfpc : w_sent s = I (w_sentl s)).
             { apply i_pcsent0. rewrite i_closed0 in Hc. unfold fclosedpc in Hc. destruct (w_fpc s); discriminate. }
             (* the child has read every line, so it has produced every answer *)
             assert (Hall : w_clines s = w_sentl s).
             { apply Nat.le_antisymm; [exact Hcs|]. apply Nat.lt_succ_r. apply (cum_lt_inv ilen).
               unfold WrapDefs.I in *. lia. }
             assert (Hprod : produced (w_cread s) (w_clines s) = A (w_sentl s)).
             { unfold WrapDefs.produced. destruct (p_echo pr) eqn:Ee.
               - rewrite (HAI eq_refl). lia.
               - rewrite Hall. replace (I (w_sentl s) <? w_cread s) with false by (symmetry; apply Nat.ltb_ge; lia).
                 rewrite andb_false_r, Nat.add_0_r. reflexivity. }
             assert (Hlt : S (w_klines s) <= w_sentl s) by lia.
             pose proof (cum_mono alen (S (w_klines s)) (w_sentl s) Hlt) as Hm. unfold WrapDefs.A in *. lia.
    - (* KMid: queue.Empty()?  then peek *)
      pose proof (i_nz0 ltac:(discriminate)) as Hn0.
      pose proof (i_midp0 (or_introl eq_refl)) as Hmp.
      destruct (w_queue s) as [|x q] eqn:Eq; inv_some H; constructor; wsimp; rewrite ?Ek in *; try wauto.
    - (* KMidW: inside peek() *)
      pose proof (i_nz0 ltac:(discriminate)) as Hn0.
      pose proof (i_midp0 (or_intror (or_introl eq_refl))) as Hmp.
      destruct (A (w_klines s) <? w_cwritten s) eqn:Eav; bprop.
      + inv_some H. constructor; wsimp; rewrite ?Ek in *; try wauto.
      + destruct (w_cexit s) eqn:Ex; [|discriminate]. rewrite (Hmidok Hmp) in H. inv_some H.
        constructor; wsimp; rewrite ?Ek in *; try wauto.
    - (* KMid2: queue.Empty() again?  then "more output than input" / "stopped early": impossible *)
      pose proof (i_nz0 ltac:(discriminate)) as Hn0.
      pose proof (i_midp0 (or_intror (or_intror eq_refl))) as Hmp.
      destruct (w_queue s) as [|x q] eqn:Eq.
      + exfalso. simpl in i_acct0.
        destruct (i_mid3 eq_refl) as [Hav|Hex].
        * assert (Hm : A (w_sentl s) = A (w_klines s)) by (f_equal; lia). lia.
        * destruct (i_exit0 Hex) as (Hc & _). rewrite i_closed0 in Hc. unfold fclosedpc in Hc.
          destruct i_q0 as [ns Hq]. unfold kactive, poisoned in Hq. rewrite Ek in Hq.
          destruct (w_fpc s) eqn:Efp; try discriminate.
          -- rewrite (i_eofp0 eq_refl) in Hmidpf. specialize (Hmidpf Hmp). discriminate.
          -- simpl in Hq. destruct ns; discriminate.
      + inv_some H. constructor; wsimp; rewrite ?Ek in *; try wauto.
    - (* KPeek *)
      destruct (i_kdone0 ltac:(unfold kactive; rewrite Ek; reflexivity)) as [Hpo Hq].
      pose proof (i_nz0 ltac:(discriminate)) as Hn0.
      destruct (w_kread s <? w_cwritten s) eqn:Ex; bprop.
      + exfalso. rewrite Hq in i_acct0. simpl in i_acct0.
        assert (Hm : A (w_sentl s) = A (w_klines s)) by (f_equal; lia). lia.
      + destruct (w_cexit s) eqn:Ece; [|discriminate]. inv_some H.
        constructor; wsimp; rewrite ?Ek in *; try wauto.
  Qed.

  Lemma winv_step s l s' : WInv s -> wstep s l = Some s' -> WInv s'.
  Proof.
    intros J H. destruct l; simpl in H.
    - eapply winv_feed; eauto.
    - eapply winv_send; eauto.
    - eapply winv_flush_start; eauto.
    - eapply winv_push; eauto.
    - eapply winv_child_read; eauto.
    - eapply winv_child_eof; eauto.
    - eapply winv_child_write; eauto.
    - eapply winv_collect; eauto.
  Qed.

  Lemma winv_reachable recs s : reachable wstep (w_init recs) s -> WInv s.
  Proof.
    apply invariant_reachable.
    - apply winv_init.
    - intros s0 l s1. apply winv_step.
  Qed.

  (* ---- enabledness lemmas ---- *)
  Ltac bfalse G :=
    repeat (apply andb_false_iff in G; destruct G as [G|G]); bprop; try lia; try congruence.

  Lemma en_push s : w_flushing s = true -> w_pushed s < w_sent s -> w_pushed s + 1 - w_cread s <= p_cin pr ->
    step_push pr s 1 <> None.
  Proof.
    intros Hf H1 H2. unfold step_push.
    destruct (w_flushing s && (1 <=? 1) && (w_pushed s + 1 <=? w_sent s) && (w_pushed s + 1 - w_cread s <=? p_cin pr)) eqn:G; [discriminate|].
    exfalso. bfalse G.
  Qed.

  Lemma en_child_read s : w_cexit s = false -> w_crel s = w_cwritten s -> w_cread s < w_pushed s ->
    w_cread s < I (S (w_clines s)) -> step_child_read pr ilen alen s 1 <> None.
  Proof.
    intros Hx H1 H2 H3. unfold step_child_read.
    destruct (negb (w_cexit s) && Nat.eqb (w_crel s) (w_cwritten s) && (1 <=? 1) && (w_cread s + 1 <=? w_pushed s)
              && (w_cread s + 1 <=? I (S (w_clines s)))) eqn:G.
    - destruct (p_echo pr); [discriminate|]. destruct (p_early pr); [discriminate|].
      destruct (negb _ && release_now pr _ _); discriminate.
    - exfalso. bfalse G.
  Qed.

  Lemma en_child_eof s : w_cexit s = false -> w_inclosed s = true -> w_cread s = w_pushed s -> w_crel s = w_cwritten s ->
    step_child_eof pr ilen alen s <> None.
  Proof.
    intros Hx H1 H2 H3. unfold step_child_eof.
    destruct (negb (w_cexit s) && w_inclosed s && Nat.eqb (w_cread s) (w_pushed s) && Nat.eqb (w_crel s) (w_cwritten s)) eqn:G.
    - destruct (Nat.eqb (w_crel s) (produced (w_cread s) (w_clines s))); discriminate.
    - exfalso. bfalse G.
  Qed.

  Lemma en_child_write s : w_cexit s = false -> w_cwritten s < w_crel s -> w_cwritten s + 1 - w_kread s <= p_cout pr ->
    step_child_write pr s 1 <> None.
  Proof.
    intros Hx H1 H2. unfold step_child_write.
    destruct (negb (w_cexit s) && (1 <=? 1) && (w_cwritten s + 1 <=? w_crel s) && (w_cwritten s + 1 - w_kread s <=? p_cout pr)) eqn:G; [discriminate|].
    exfalso. bfalse G.
  Qed.

  Lemma en_feeder s : WInv s -> feeder_ready s = true -> w_inclosed s = false ->
    step_feed pr ilen s <> None \/ step_send ilen s 1 <> None.
  Proof.
    intros J Hr Hc. destruct J. destruct i_pcfirst0 as [Hnf Hne].
    unfold step_feed, step_send. rewrite Hr. simpl.
    rewrite i_closed0 in Hc. unfold fclosedpc in Hc.
    destruct (w_fpc s) eqn:Epc; try congruence; try discriminate.
    - left. destruct (w_recs s); [destruct (p_poison_first pr)|rewrite Hord]; discriminate.
    - destruct (Nat.eqb (w_sent s) (I (w_sentl s))) eqn:E; [left; discriminate|right]. bprop.
      destruct (w_sent s + 1 <=? I (w_sentl s)) eqn:G; [discriminate|]. exfalso. bprop. lia.
    - left; discriminate.
    - left; discriminate.
  Qed.

  (* ---- C05: no reachable stuck state ---- *)
  Lemma wstuck_no_label s : wstuck pr ilen alen s = true ->
    step_feed pr ilen s = None /\ step_send ilen s 1 = None /\ step_flush_start s = None /\ step_push pr s 1 = None /\
    step_child_read pr ilen alen s 1 = None /\ step_child_eof pr ilen alen s = None /\ step_child_write pr s 1 = None /\
    step_collect pr alen s 1 = None.
  Proof.
    unfold wstuck, wlabels. simpl. intros H.
    repeat match type of H with
           | (match ?x with Some _ => false | None => true end) && _ = true =>
             let E := fresh "E" in destruct x eqn:E; [discriminate|]; simpl in H
           end.
    repeat split; auto.
  Qed.

  Lemma no_stuck_inv s : WInv s -> wstuck pr ilen alen s = true -> wterminal s = true.
  Proof.
    intros J Hst. destruct (wstuck_no_label s Hst) as (Hfeed & Hsend & Hfs & Hpush & Hcr & Hce & Hcw & Hk).
    pose proof (produced_le_sent s J) as [Hps Hcs].
    pose proof (en_feeder s J) as Efd.
    pose proof (en_push s) as Epu. pose proof (en_child_read s) as Ecr. pose proof (en_child_eof s) as Ece.
    pose proof (en_child_write s) as Ecw.
    destruct J. destruct i_pcfirst0 as [Hnf Hne].
    (* a child that has not exited and whose output is drained must be waiting for input that is not closed;
       then the feeder can move *)
    assert (Hdrained : w_cexit s = false -> w_crel s = w_cwritten s -> False).
    { intros Hx Hrw.
      assert (Hrp : w_cread s = w_pushed s).
      { destruct (Nat.eq_dec (w_cread s) (w_pushed s)); [assumption|]. exfalso. apply Ecr; auto; lia. }
      assert (Hnc : w_inclosed s = false).
      { destruct (w_inclosed s) eqn:Ec; [|reflexivity]. exfalso. apply Ece; auto. }
      assert (Hready : feeder_ready s = true).
      { unfold feeder_ready. destruct (w_flushing s) eqn:Ef; [|reflexivity]. simpl.
        apply Nat.eqb_eq. destruct (Nat.eq_dec (w_pushed s) (w_sent s)); [assumption|].
        exfalso. apply Epu; auto; lia. }
      destruct (Efd Hready Hnc); congruence. }
    unfold step_collect in Hk. unfold wterminal.
    destruct (w_kpc s) eqn:Ek.
    - (* KDeq: the queue is empty *)
      exfalso.
      destruct (w_queue s) as [|[n|] q] eqn:Eq; try discriminate.
      pose proof (i_nz0 ltac:(discriminate)) as Hn0.
      simpl in i_acct0.
      assert (Hkl : A (w_sentl s) = A (w_klines s)) by (f_equal; lia).
      destruct i_q0 as [ns Hq]. unfold kactive in Hq. rewrite Ek, andb_true_r in Hq.
      assert (Hpo : poisoned s = false).
      { destruct (poisoned s); [|reflexivity]. destruct ns; discriminate. }
      (* the feeder has not finished, so it is blocked in a flush on a full pipe *)
      assert (Hnc : w_inclosed s = false \/ w_fpc s = FEofPoison).
      { rewrite i_closed0. unfold fclosedpc, poisoned in *. destruct (w_fpc s); auto; discriminate. }
      assert (Hnr : feeder_ready s = false).
      { destruct (feeder_ready s) eqn:Er; [|reflexivity]. exfalso. destruct Hnc as [Hnc|Hnc].
        - destruct (Efd eq_refl Hnc); congruence.
        - unfold step_feed in Hfeed. rewrite Er, Hnc in Hfeed. discriminate. }
      unfold feeder_ready in Hnr. bprop. 
      assert (Hfull : w_cread s < w_pushed s).
      { destruct (Nat.le_gt_cases (w_pushed s) (w_cread s)); [|assumption]. exfalso. apply Epu; auto; lia. }
      assert (Hx : w_cexit s = false).
      { destruct (w_cexit s) eqn:Ex; [|reflexivity]. destruct (i_exit0 eq_refl) as (_ & Hrp & _). lia. }
      destruct (Nat.eq_dec (w_crel s) (w_cwritten s)) as [Hrw|Hrw]; [exact (Hdrained Hx Hrw)|].
      (* child blocked writing into a full pipe_out: but every answer it can hold has been consumed *)
      assert (Hpf : p_cout pr < w_cwritten s + 1 - w_kread s).
      { destruct (Nat.le_gt_cases (w_cwritten s + 1 - w_kread s) (p_cout pr)); [|assumption]. exfalso. apply Ecw; auto; lia. }
      lia.
    - (* KLines *)
      exfalso.
      destruct (w_kneed s) as [|need] eqn:En; [discriminate|].
      destruct (A (S (w_klines s)) <=? w_kread s) eqn:E1; [discriminate|].
      destruct ((1 <=? 1) && (w_kread s + 1 <=? w_cwritten s)) eqn:E2; [discriminate|].
      destruct (w_cexit s && Nat.eqb (w_kread s) (w_cwritten s)) eqn:E3; [discriminate|].
      bprop.
      assert (Hrw : w_kread s = w_cwritten s) by (destruct E2 as [E2|E2]; bprop; lia).
      assert (Hx : w_cexit s = false) by (destruct E3 as [E3|E3]; bprop; [assumption|lia]).
      destruct (Nat.eq_dec (w_crel s) (w_cwritten s)) as [Hd|Hd]; [exact (Hdrained Hx Hd)|].
      apply Ecw; auto; lia.
    - (* KMid *)
      exfalso. destruct (w_queue s); discriminate.
    - (* KMidW: blocked in the in-loop peek: no child byte, child alive *)
      exfalso.
      destruct (A (w_klines s) <? w_cwritten s) eqn:E1; [discriminate|].
      destruct (w_cexit s) eqn:Ex; [destruct (p_peek_eof_ok pr); discriminate|]. bprop.
      destruct i_out0 as [Jo1 Jo2].
      destruct (Nat.eq_dec (w_crel s) (w_cwritten s)) as [Hd|Hd]; [exact (Hdrained eq_refl Hd)|].
      apply Ecw; auto; lia.
    - (* KMid2 *)
      exfalso. destruct (w_queue s); discriminate.
    - (* KPeek *)
      exfalso.
      destruct (w_kread s <? w_cwritten s) eqn:E1; [discriminate|].
      destruct (w_cexit s) eqn:Ex; [discriminate|]. bprop.
      destruct (Nat.eq_dec (w_crel s) (w_cwritten s)) as [Hd|Hd]; [exact (Hdrained eq_refl Hd)|].
      apply Ecw; auto; lia.
    - (* KDone *)
      destruct (i_kdone0 ltac:(unfold kactive; rewrite Ek; reflexivity)) as [Hpo Hq].
      pose proof (i_nz0 ltac:(discriminate)) as Hn0.
      rewrite Hq in i_acct0. simpl in i_acct0.
      assert (Hkl : A (w_sentl s) = A (w_klines s)) by (f_equal; lia).
      destruct (w_cexit s) eqn:Ex.
      + destruct (i_exit0 eq_refl) as (Hc & _). rewrite i_closed0 in Hc. unfold fclosedpc, poisoned in *.
        destruct (w_fpc s); try discriminate; reflexivity.
      + exfalso.
        destruct (Nat.eq_dec (w_crel s) (w_cwritten s)) as [Hd|Hd]; [exact (Hdrained eq_refl Hd)|].
        assert (Hpf : p_cout pr < w_cwritten s + 1 - w_kread s).
        { destruct (Nat.le_gt_cases (w_cwritten s + 1 - w_kread s) (p_cout pr)); [|assumption]. exfalso. apply Ecw; auto; lia. }
        lia.
    - exfalso. apply i_err0. reflexivity.
  Qed.

  (* every label with any argument is disabled in a stuck state (the canonical labels cover enabledness) *)
  Lemma wstuck_complete s l : wstuck pr ilen alen s = true -> wstep s l = None.
  Proof.
    clear Hil Hal Hecho Hcin Hcout Hord.
    intros Hst. destruct (wstuck_no_label s Hst) as (Hfeed & Hsend & Hfs & Hpush & Hcr & Hce & Hcw & Hk).
    destruct l as [|m| |m|m| |m|m]; simpl; auto.
    - unfold step_send in *. destruct (negb (feeder_ready s)); [reflexivity|].
      destruct (w_fpc s); auto;
        destruct ((1 <=? m) && (w_sent s + m <=? I (w_sentl s))) eqn:G; auto; exfalso; bprop;
        destruct ((1 <=? 1) && (w_sent s + 1 <=? I (w_sentl s))) eqn:G1; try discriminate; bfalse G1.
    - unfold step_push in *.
      destruct (w_flushing s && (1 <=? m) && (w_pushed s + m <=? w_sent s) && (w_pushed s + m - w_cread s <=? p_cin pr)) eqn:G; auto.
      exfalso. bprop.
      destruct (w_flushing s && (1 <=? 1) && (w_pushed s + 1 <=? w_sent s) && (w_pushed s + 1 - w_cread s <=? p_cin pr)) eqn:G1; [discriminate|].
      bfalse G1.
    - unfold step_child_read in *.
      destruct (negb (w_cexit s) && Nat.eqb (w_crel s) (w_cwritten s) && (1 <=? m) && (w_cread s + m <=? w_pushed s)
                && (w_cread s + m <=? I (S (w_clines s)))) eqn:G; auto.
      exfalso. bprop.
      destruct (negb (w_cexit s) && Nat.eqb (w_crel s) (w_cwritten s) && (1 <=? 1) && (w_cread s + 1 <=? w_pushed s)
                && (w_cread s + 1 <=? I (S (w_clines s)))) eqn:G1.
      + destruct (p_echo pr); [discriminate|]. destruct (p_early pr); [discriminate|]. destruct (negb _ && release_now pr _ _); discriminate.
      + bfalse G1.
    - unfold step_child_write in *.
      destruct (negb (w_cexit s) && (1 <=? m) && (w_cwritten s + m <=? w_crel s) && (w_cwritten s + m - w_kread s <=? p_cout pr)) eqn:G; auto.
      exfalso. bprop.
      destruct (negb (w_cexit s) && (1 <=? 1) && (w_cwritten s + 1 <=? w_crel s) && (w_cwritten s + 1 - w_kread s <=? p_cout pr)) eqn:G1; [discriminate|].
      bfalse G1.
    - unfold step_collect in *. destruct (w_kpc s); auto.
      destruct (w_kneed s); auto.
        destruct (A (S (w_klines s)) <=? w_kread s); auto.
        destruct ((1 <=? 1) && (w_kread s + 1 <=? w_cwritten s)) eqn:G1; [discriminate|].
        destruct ((1 <=? m) && (w_kread s + m <=? w_cwritten s)) eqn:G; [|exact Hk].
        exfalso. bprop. destruct G1 as [G1|G1]; bprop; lia.
  Qed.

  Theorem wrapper_no_stuck recs s :
    reachable wstep (w_init recs) s -> wstuck pr ilen alen s = true -> wterminal s = true.
  Proof. intros Hr. apply no_stuck_inv. eapply winv_reachable; eauto. Qed.

  Theorem wrapper_no_error recs s : reachable wstep (w_init recs) s -> w_kpc s <> KErr.
  Proof. intros Hr. exact (i_err _ (winv_reachable _ _ Hr)). Qed.
End WrapProofs.
