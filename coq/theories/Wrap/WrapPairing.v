(* C04 / C05 -- correctly ordered output under every interleaving: in every reachable state of the wrapper
   transition system (any order of enqueue/write, any capacities, policies, flush points), the records the
   collector has emitted are, in input order, built from exactly the answer lines of the lines the feeder
   sent for them: record i uses lines [sum of the earlier records' line counts, + its own count). *)
From PP Require Import Wrap.WrapDefs.
From Coq Require Import Lia.

Fixpoint pairs (base : nat) (ns : list nat) : list (nat * nat) :=
  match ns with
  | [] => []
  | n :: r => (base, n) :: pairs (base + n) r
  end.

Lemma pairs_app base a b : pairs base (a ++ b) = pairs base a ++ pairs (base + list_sum a) b.
Proof.
  revert base. induction a as [|x a IH]; intros base; simpl.
  - rewrite Nat.add_0_r. reflexivity.
  - rewrite IH. rewrite Nat.add_assoc. reflexivity.
Qed.

Lemma firstn_S_skipn {A} (l : list A) k x r : skipn k l = x :: r -> firstn (S k) l = firstn k l ++ [x] /\ skipn (S k) l = r.
Proof.
  revert k. induction l as [|a l IH]; intros k H.
  - destruct k; discriminate.
  - destruct k as [|k]; simpl in *.
    + inversion H; subst. auto.
    + destruct (IH _ H) as [H1 H2]. rewrite H1. auto.
Qed.

Section Pairing.
  Variable pr : wparams.
  Variables ilen alen : nat -> nat.
  Variable recs0 : list nat.

  Notation wstep := (wstep pr ilen alen).

  Definition kcurrent (s : wst) : nat := match w_kpc s with KLines => 1 | _ => 0 end.
  Definition radj (s : wst) : list nat := match w_fpc s with FSendSecond => tl (w_recs s) | _ => w_recs s end.

  Definition feof (s : wst) : bool :=
    match w_fpc s with FEofFlush | FEofClose => p_poison_first pr | FDone => true | _ => false end.

  Record EInv (s : wst) : Prop := {
    e_em : rev (w_emitted s) = pairs 0 (firstn (length (w_emitted s)) recs0);
    e_q : exists ns tailq, w_queue s = map Some ns ++ tailq /\
                           (tailq = [] \/ (tailq = [None] /\ feof s = true)) /\
                           skipn (length (w_emitted s) + kcurrent s) recs0 = ns ++ radj s;
    e_lines : w_kpc s <> KLines -> w_klines s = list_sum (firstn (length (w_emitted s)) recs0);
    e_cur : w_kpc s = KLines ->
            w_kcur s = list_sum (firstn (length (w_emitted s)) recs0) /\
            exists rn, nth_error recs0 (length (w_emitted s)) = Some rn /\ w_klines s + w_kneed s = w_kcur s + rn;
    e_eofrecs : match w_fpc s with FEofFlush | FEofClose | FEofPoison | FDone => w_recs s = [] | _ => True end;
    e_kdone : (w_kpc s = KPeek \/ w_kpc s = KDone) -> w_queue s = [] /\ feof s = true;
  }.

  Lemma einv_init : EInv (w_init recs0).
  Proof.
    constructor; simpl; auto.
    - exists [], []. simpl. auto.
    - intros H; discriminate.
    - intros [H|H]; discriminate.
  Qed.

  Ltac enew Eeof Ekd :=
    try solve [exact I];
    try solve [simpl; rewrite ?Eeof; auto];
    try solve [let X := fresh in intros [X|X]; discriminate];
    try solve [let X := fresh in let Q := fresh in let F := fresh in
               intros X; destruct (Ekd X) as [Q F]; unfold feof in *; simpl in *;
               first [discriminate | (rewrite ?Q; split; auto; destruct (p_poison_first pr); auto; discriminate)]].

  Ltac esame Eq :=
    let ns := fresh "ns" in let tq := fresh "tq" in let H1 := fresh in let H2 := fresh in let H3 := fresh in
    destruct Eq as (ns & tq & H1 & H2 & H3); exists ns, tq; unfold kcurrent, radj, feof in *; simpl in *; auto.

  Lemma einv_feed s s' : EInv s -> step_feed pr ilen s = Some s' -> EInv s'.
  Proof.
    intros [Eem Eq El Ec Eeof Ekd] H. unfold step_feed in H.
    destruct (negb (feeder_ready s)); [discriminate|].
    destruct Eq as (ns & tailq & Hq & Htail & Hsk). unfold kcurrent, radj, feof in *.
    destruct (w_fpc s) eqn:Epc.
    - (* FNext *)
      assert (Ht0 : tailq = []) by (destruct Htail as [|[_ X]]; [assumption|discriminate]). subst tailq.
      rewrite app_nil_r in Hq.
      destruct (w_recs s) as [|n rest] eqn:Erecs.
      + destruct (p_poison_first pr) eqn:Epf; inversion H; subst s'; clear H; unfold set_fpc; constructor; simpl; auto; rewrite ?Epc, ?Erecs in *; enew Eeof Ekd.
        * exists ns, [None]. rewrite Hq. unfold kcurrent, radj, feof; simpl. rewrite ?Erecs, ?Epf in *. repeat split; auto.
        * exists ns, []. rewrite Hq, app_nil_r. unfold kcurrent, radj, feof; simpl. rewrite ?Erecs in *. repeat split; auto.
      + destruct (p_order pr); inversion H; subst s'; clear H; constructor; simpl; auto; rewrite ?Epc, ?Erecs in *; enew Eeof Ekd.
        * exists (ns ++ [n]), []. rewrite Hq, app_nil_r, map_app. unfold kcurrent, radj, feof; simpl.
          split; [reflexivity|]. split; [auto|]. unfold kcurrent in Hsk. rewrite Hsk, <- app_assoc. reflexivity.
        * exists ns, []. rewrite Hq, app_nil_r. unfold kcurrent, radj, feof; simpl. rewrite ?Erecs in *. repeat split; auto.
    - (* FSendFirst *)
      destruct (Nat.eqb (w_sent s) (I ilen (w_sentl s))); [|discriminate]. inversion H; subst s'; clear H. unfold set_fpc.
      constructor; simpl; auto; rewrite ?Epc in *; enew Eeof Ekd. exists ns, tailq. unfold kcurrent, radj, feof, set_fpc in *; simpl.
      split; [exact Hq|]. split; [|exact Hsk]. destruct Htail as [|[_ X]]; [auto|discriminate].
    - (* FEnqSecond *)
      assert (Ht0 : tailq = []) by (destruct Htail as [|[_ X]]; [assumption|discriminate]). subst tailq.
      rewrite app_nil_r in Hq.
      destruct (w_recs s) as [|n rest] eqn:Erecs; [discriminate|]. inversion H; subst s'; clear H.
      constructor; simpl; auto; rewrite ?Epc in *; enew Eeof Ekd.
      exists (ns ++ [n]), []. rewrite Hq, app_nil_r, map_app. unfold kcurrent, radj, feof; simpl.
      split; [reflexivity|]. split; [auto|]. unfold kcurrent in Hsk. rewrite Hsk, <- app_assoc. reflexivity.
    - (* FSendSecond *)
      destruct (Nat.eqb (w_sent s) (I ilen (w_sentl s))); [|discriminate]. inversion H; subst s'; clear H. unfold set_fpc.
      constructor; simpl; auto; rewrite ?Epc in *; enew Eeof Ekd. exists ns, tailq. unfold kcurrent, radj, feof in *; simpl.
      split; [exact Hq|]. split; [|exact Hsk]. destruct Htail as [|[_ X]]; [auto|discriminate].
    - (* FEofFlush *)
      inversion H; subst s'; clear H. constructor; simpl; auto; rewrite ?Epc in *; enew Eeof Ekd.
      exists ns, tailq. unfold kcurrent, radj, feof in *; simpl. repeat split; auto.
    - (* FEofClose *)
      inversion H; subst s'; clear H.
      destruct (p_poison_first pr) eqn:Epf; constructor; simpl; auto; rewrite ?Epc, ?Epf in *; enew Eeof Ekd.
      + exists ns, tailq. unfold kcurrent, radj, feof in *; simpl. rewrite ?Epf in *.
        split; [exact Hq|]. split; [|exact Hsk]. destruct Htail as [|[Y X]]; auto.
      + exists ns, tailq. unfold kcurrent, radj, feof in *; simpl. rewrite ?Epf in *.
        split; [exact Hq|]. split; [|exact Hsk]. destruct Htail as [|[Y X]]; auto; discriminate.
    - (* FEofPoison *)
      assert (Ht0 : tailq = []) by (destruct Htail as [|[_ X]]; [assumption|discriminate]). subst tailq.
      rewrite app_nil_r in Hq.
      inversion H; subst s'; clear H. constructor; simpl; auto; rewrite ?Epc in *; enew Eeof Ekd.
      exists ns, [None]. rewrite Hq. unfold kcurrent, radj, feof; simpl. rewrite ?Erecs in *. repeat split; auto.
    - discriminate.
  Qed.

  Lemma einv_unchanged s s' :
    w_emitted s' = w_emitted s -> w_queue s' = w_queue s -> w_kpc s' = w_kpc s -> w_fpc s' = w_fpc s ->
    w_recs s' = w_recs s -> w_klines s' = w_klines s -> w_kneed s' = w_kneed s -> w_kcur s' = w_kcur s ->
    EInv s -> EInv s'.
  Proof.
    intros H1 H2 H3 H4 H5 H6 H7 H8 [Eem Eq El Ec Eeof Ekd].
    constructor; unfold kcurrent, radj, feof in *; rewrite ?H1, ?H2, ?H3, ?H4, ?H5, ?H6, ?H7, ?H8; auto.
  Qed.

  Lemma list_sum_app a b : list_sum (a ++ b) = list_sum a + list_sum b.
  Proof. induction a; simpl; lia. Qed.

  (* once the collector has reported a child error nothing is emitted any more *)
  Definition EErr (s : wst) : Prop :=
    w_kpc s = KErr /\ rev (w_emitted s) = pairs 0 (firstn (length (w_emitted s)) recs0).

  (* the collector only changes its program counter among the "between records" points *)
  Lemma einv_setpc s q pc :
    EInv s -> q = w_queue s -> kcurrent s = 0 ->
    (pc = KDeq \/ pc = KMid \/ pc = KMidW \/ pc = KMid2) ->
    EInv (set_coll s q (w_kread s) (w_klines s) pc 0 (w_kcur s) (w_emitted s)).
  Proof.
    intros [Eem Eq El Ec Eeof Ekd] Hq0 Hk Hpc. subst q.
    assert (Hk' : w_kpc s <> KLines) by (unfold kcurrent in Hk; destruct (w_kpc s); try discriminate; lia).
    assert (Hc0 : match pc with KLines => 1 | _ => 0 end = 0) by (destruct Hpc as [->|[->|[->| ->]]]; reflexivity).
    constructor; simpl; unfold kcurrent, radj, feof in *; simpl; auto.
    - rewrite Hc0. rewrite Hk in Eq. exact Eq.
    - intros Hx. destruct Hpc as [->|[->|[->| ->]]]; congruence.
    - intros Hx. destruct Hpc as [->|[->|[->| ->]]]; destruct Hx; discriminate.
  Qed.

  Lemma einv_collect s m s' : EInv s -> step_collect pr alen s m = Some s' -> EInv s' \/ EErr s'.
  Proof.
    intros J H. pose proof J as [Eem Eq El Ec Eeof Ekd]. unfold step_collect in H.
    destruct Eq as (ns & tailq & Hq & Htail & Hsk). unfold kcurrent, radj, feof in *.
    destruct (w_kpc s) eqn:Ek; try discriminate.
    - (* KDeq *)
      left.
      rewrite Nat.add_0_r in Hsk. pose proof (El ltac:(discriminate)) as Hl.
      destruct (w_queue s) as [|[n|] q] eqn:Eqq; [discriminate| |]; inversion H; subst s'; clear H.
      + (* a record *)
        destruct ns as [|n' ns']; simpl in Hq.
        * destruct Htail as [->|[-> _]]; discriminate.
        * injection Hq as Hn Hq'. subst n'.
          simpl in Hsk. destruct (firstn_S_skipn _ _ _ _ Hsk) as [Hf Hs].
          constructor; simpl; unfold kcurrent, radj, feof; simpl; auto; try discriminate; try exact Eeof; try solve [intros [X|X]; discriminate].
          -- exists ns', tailq. split; [exact Hq'|]. split; [exact Htail|].
             replace (length (w_emitted s) + 1) with (S (length (w_emitted s))) by lia. exact Hs.
          -- intros _. split; [exact Hl|]. exists n. split; [|lia].
             clear - Hsk. revert Hsk. generalize (length (w_emitted s)) as k. induction recs0 as [|a l IH]; intros k Hk.
             ++ destruct k; discriminate.
             ++ destruct k as [|k]; simpl in *; [inversion Hk; reflexivity|apply IH; exact Hk].
      + (* the poison *)
        destruct ns as [|n' ns']; simpl in Hq; [|discriminate].
        destruct Htail as [->|[-> Hp]]; [discriminate|]. injection Hq as Hq'. subst q.
        constructor; simpl; unfold kcurrent, radj, feof in *; simpl; auto.
        * exists [], []. simpl. repeat split; auto.
          destruct (p_final_peek pr); simpl; rewrite Nat.add_0_r; exact Hsk.
        * intros Hx. destruct (p_final_peek pr); discriminate.
    - (* KLines *)
      destruct (Ec eq_refl) as (Hcur & rn & Hnth & Hsum).
      destruct (w_kneed s) as [|need] eqn:En.
      + (* emit *)
        left. inversion H; subst s'; clear H.
        assert (Hsk0 : exists rest, skipn (length (w_emitted s)) recs0 = rn :: rest).
        { clear - Hnth. revert Hnth. generalize (length (w_emitted s)) as k. induction recs0 as [|a l IH]; intros k Hk.
          - destruct k; discriminate.
          - destruct k as [|k]; simpl in *; [inversion Hk; eauto|apply IH; exact Hk]. }
        destruct Hsk0 as (rest & Hsk0). destruct (firstn_S_skipn _ _ _ _ Hsk0) as [Hf Hs].
        assert (Hem' : rev (w_emitted s) ++ [(w_kcur s, w_klines s - w_kcur s)] = pairs 0 (firstn (S (length (w_emitted s))) recs0)).
        { rewrite Hf, pairs_app, <- Eem. simpl. repeat f_equal; lia. }
        assert (Hl' : w_klines s = list_sum (firstn (S (length (w_emitted s))) recs0)).
        { rewrite Hf, list_sum_app. simpl. lia. }
        assert (Hsk' : skipn (S (length (w_emitted s)) + 0) recs0 =
                       ns ++ match w_fpc s with FSendSecond => tl (w_recs s) | _ => w_recs s end).
        { rewrite Nat.add_0_r. replace (S (length (w_emitted s))) with (length (w_emitted s) + 1) by lia. exact Hsk. }
        destruct (p_mid_peek pr);
        constructor; simpl; unfold kcurrent, radj, feof; simpl; auto; try discriminate; try exact Eeof; try solve [intros [X|X]; discriminate].
        all: exists ns, tailq; (split; [exact Hq|]; split; [exact Htail|exact Hsk']).
      + destruct (A alen (S (w_klines s)) <=? w_kread s).
        * left. inversion H; subst s'; clear H.
          constructor; simpl; unfold kcurrent, radj, feof; simpl; auto; try discriminate; try exact Eeof; try solve [intros [X|X]; discriminate].
          all: try solve [exists ns, tailq; auto].
          all: try solve [intros X; exfalso; apply X; reflexivity].
          all: try solve [intros _; split; [exact Hcur|]; exists rn; split; [exact Hnth|lia]].
        * destruct ((1 <=? m) && (w_kread s + m <=? w_cwritten s)).
          -- left. inversion H; subst s'; clear H.
             constructor; simpl; unfold kcurrent, radj, feof; simpl; auto; try discriminate; try exact Eeof; try solve [intros [X|X]; discriminate].
             all: try solve [exists ns, tailq; auto].
             all: try solve [intros X; exfalso; apply X; reflexivity].
             all: try solve [intros _; split; [exact Hcur|]; exists rn; split; [exact Hnth|lia]].
          -- destruct (w_cexit s && Nat.eqb (w_kread s) (w_cwritten s)); [|discriminate].
             right. inversion H; subst s'; clear H. split; [reflexivity|exact Eem].
    - (* KMid *)
      assert (Hk0 : kcurrent s = 0) by (unfold kcurrent; rewrite Ek; reflexivity).
      destruct (w_queue s) as [|x q] eqn:Eqq; left; inversion H; subst s'; clear H; apply einv_setpc; auto.
    - (* KMidW *)
      assert (Hk0 : kcurrent s = 0) by (unfold kcurrent; rewrite Ek; reflexivity).
      destruct (A alen (w_klines s) <? w_cwritten s).
      + left. inversion H; subst s'; clear H. apply einv_setpc; auto.
      + destruct (w_cexit s); [|discriminate]. destruct (p_peek_eof_ok pr); inversion H; subst s'; clear H.
        * left. apply einv_setpc; auto.
        * right. split; [reflexivity|exact Eem].
    - (* KMid2 *)
      assert (Hk0 : kcurrent s = 0) by (unfold kcurrent; rewrite Ek; reflexivity).
      destruct (w_queue s) as [|x q] eqn:Eqq; inversion H; subst s'; clear H.
      + right. split; [reflexivity|exact Eem].
      + left. apply einv_setpc; auto.
    - (* KPeek *)
      pose proof (El ltac:(discriminate)) as Hl.
      destruct (w_kread s <? w_cwritten s).
      + right. inversion H; subst s'; clear H. split; [reflexivity|exact Eem].
      + destruct (w_cexit s); [|discriminate]. left. inversion H; subst s'; clear H.
        constructor; simpl; unfold kcurrent, radj, feof; simpl; auto; try discriminate; try exact Eeof; try solve [intros [X|X]; discriminate].
        exists ns, tailq. auto.
  Qed.

  Definition EAll (s : wst) : Prop := EInv s \/ EErr s.

  Lemma eall_step s l s' : EAll s -> wstep s l = Some s' -> EAll s'.
  Proof.
    intros [J|[Hk Hem]] H.
    - destruct l; simpl in H.
      + left. eapply einv_feed; eauto.
      + left. unfold step_send in H. destruct (negb (feeder_ready s)); [discriminate|].
        destruct (w_fpc s) eqn:Epc; try discriminate;
          destruct ((1 <=? m) && (w_sent s + m <=? I ilen (w_sentl s))); try discriminate;
          inversion H; subst s'; apply (einv_unchanged s); simpl; auto.
      + left. unfold step_flush_start in H. destruct (w_flushing s); [discriminate|].
        destruct (w_pushed s <? w_sent s); [|discriminate].
        destruct (w_fpc s) eqn:Epc; try discriminate; inversion H; subst s'; apply (einv_unchanged s); simpl; auto.
      + left. unfold step_push in H.
        destruct (w_flushing s && (1 <=? m) && (w_pushed s + m <=? w_sent s) && (w_pushed s + m - w_cread s <=? p_cin pr)); [|discriminate].
        inversion H; subst s'; apply (einv_unchanged s); simpl; auto.
      + left. unfold step_child_read in H.
        destruct (negb (w_cexit s) && Nat.eqb (w_crel s) (w_cwritten s) && (1 <=? m) && (w_cread s + m <=? w_pushed s)
                  && (w_cread s + m <=? I ilen (S (w_clines s)))); [|discriminate].
        destruct (p_echo pr); [inversion H; subst s'; apply (einv_unchanged s); simpl; auto|].
        destruct (p_early pr); [inversion H; subst s'; apply (einv_unchanged s); simpl; auto|].
        destruct (negb _ && release_now pr _ _); inversion H; subst s'; apply (einv_unchanged s); simpl; auto.
      + left. unfold step_child_eof in H.
        destruct (negb (w_cexit s) && w_inclosed s && Nat.eqb (w_cread s) (w_pushed s) && Nat.eqb (w_crel s) (w_cwritten s)); [|discriminate].
        destruct (Nat.eqb (w_crel s) (produced pr ilen alen (w_cread s) (w_clines s))); inversion H; subst s'; apply (einv_unchanged s); simpl; auto.
      + left. unfold step_child_write in H.
        destruct (negb (w_cexit s) && (1 <=? m) && (w_cwritten s + m <=? w_crel s) && (w_cwritten s + m - w_kread s <=? p_cout pr)); [|discriminate].
        inversion H; subst s'; apply (einv_unchanged s); simpl; auto.
      + eapply einv_collect; eauto.
    - (* after a child error only the other components move; nothing is emitted *)
      right. unfold EErr.
      assert (G : w_kpc s' = w_kpc s /\ w_emitted s' = w_emitted s).
      { destruct l; simpl in H.
        - unfold step_feed in H. destruct (negb (feeder_ready s)); [discriminate|].
          destruct (w_fpc s); try discriminate;
            repeat match type of H with
                   | context [match w_recs s with _ => _ end] => destruct (w_recs s)
                   | context [if ?c then _ else _] => destruct c
                   end; try discriminate; inversion H; subst s'; simpl; auto.
        - unfold step_send in H. destruct (negb (feeder_ready s)); [discriminate|].
          destruct (w_fpc s); try discriminate;
            destruct ((1 <=? m) && (w_sent s + m <=? I ilen (w_sentl s))); try discriminate; inversion H; subst s'; simpl; auto.
        - unfold step_flush_start in H. destruct (w_flushing s); [discriminate|].
          destruct (w_pushed s <? w_sent s); [|discriminate].
          destruct (w_fpc s); try discriminate; inversion H; subst s'; simpl; auto.
        - unfold step_push in H.
          destruct (w_flushing s && (1 <=? m) && (w_pushed s + m <=? w_sent s) && (w_pushed s + m - w_cread s <=? p_cin pr)); [|discriminate].
          inversion H; subst s'; simpl; auto.
        - unfold step_child_read in H.
          destruct (negb (w_cexit s) && Nat.eqb (w_crel s) (w_cwritten s) && (1 <=? m) && (w_cread s + m <=? w_pushed s)
                    && (w_cread s + m <=? I ilen (S (w_clines s)))); [|discriminate].
          destruct (p_echo pr); [inversion H; subst s'; simpl; auto|].
          destruct (p_early pr); [inversion H; subst s'; simpl; auto|].
          destruct (negb _ && release_now pr _ _); inversion H; subst s'; simpl; auto.
        - unfold step_child_eof in H.
          destruct (negb (w_cexit s) && w_inclosed s && Nat.eqb (w_cread s) (w_pushed s) && Nat.eqb (w_crel s) (w_cwritten s)); [|discriminate].
          destruct (Nat.eqb (w_crel s) (produced pr ilen alen (w_cread s) (w_clines s))); inversion H; subst s'; simpl; auto.
        - unfold step_child_write in H.
          destruct (negb (w_cexit s) && (1 <=? m) && (w_cwritten s + m <=? w_crel s) && (w_cwritten s + m - w_kread s <=? p_cout pr)); [|discriminate].
          inversion H; subst s'; simpl; auto.
        - unfold step_collect in H. rewrite Hk in H. discriminate. }
      destruct G as [G1 G2]. rewrite G1, G2. auto.
  Qed.

  (* C04/C05: in every reachable state the records emitted so far are, in input order, the first records of
     the input, each built from exactly its own consecutive range of child answer lines *)
  Theorem emitted_prefix s : reachable wstep (w_init recs0) s ->
    rev (w_emitted s) = pairs 0 (firstn (length (w_emitted s)) recs0).
  Proof.
    intros Hr.
    assert (G : EAll s).
    { revert s Hr. apply invariant_reachable; [left; exact einv_init|]. intros s0 l s1. apply eall_step. }
    destruct G as [[Eem _ _ _ _ _]|[_ Eem]]; exact Eem.
  Qed.


  (* a collector that has finished normally has emitted ALL records, in order, each from its own lines *)
  Theorem emitted_complete s : reachable wstep (w_init recs0) s -> w_kpc s = KDone ->
    rev (w_emitted s) = pairs 0 recs0.
  Proof.
    intros Hr Hk.
    assert (G : EAll s).
    { clear Hk. revert s Hr. apply invariant_reachable; [left; exact einv_init|]. intros s0 l s1. apply eall_step. }
    destruct G as [[Eem Eq El Ec Eeof Ekd]|[Hk' _]]; [|congruence].
    destruct (Ekd (or_intror Hk)) as [Hq0 Hf].
    destruct Eq as (ns & tailq & Hq & Htail & Hsk). unfold kcurrent in Hsk. rewrite Hk, Nat.add_0_r in Hsk.
    rewrite Hq0 in Hq. symmetry in Hq. apply app_eq_nil in Hq. destruct Hq as [Hns _].
    apply map_eq_nil in Hns. subst ns. simpl in Hsk.
    assert (Hr0 : radj s = []).
    { unfold radj, feof in *. destruct (w_fpc s); try discriminate; exact Eeof. }
    rewrite Hr0 in Hsk.
    assert (Hall : firstn (length (w_emitted s)) recs0 = recs0).
    { rewrite <- (firstn_skipn (length (w_emitted s)) recs0) at 2. rewrite Hsk, app_nil_r. reflexivity. }
    rewrite Eem, Hall. reflexivity.
  Qed.
End Pairing.
