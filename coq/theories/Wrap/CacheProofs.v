From PP Require Import Wrap.CacheDefs.
From Coq Require Import Lia.

Lemma mem_true k s : mem k s = true <-> In k s.
Proof.
  unfold mem. rewrite existsb_exists. split.
  - intros (x & Hin & He). apply N.eqb_eq in He. subst. exact Hin.
  - intros H. exists k. split; [exact H|apply N.eqb_refl].
Qed.

Lemma mem_false k s : mem k s = false <-> ~ In k s.
Proof. rewrite <- mem_true. destruct (mem k s); split; congruence. Qed.

Section Cache.
  Variable ans : line -> line.
  Variable F : N -> option line.     (* first line of each key in the whole input *)

  (* in the rest of the input, the first line of a key not seen yet is that key's global first line *)
  Fixpoint fresh_ok (ls : list (N * line)) (seen : list N) : Prop :=
    match ls with
    | [] => True
    | (k, l) :: r => (mem k seen = false -> F k = Some l) /\ (mem k seen = true -> F k <> None) /\ fresh_ok r (if mem k seen then seen else k :: seen)
    end.

  Definition table_ok (table : list (N * line)) (seen : list N) : Prop :=
    forall k, (mem k seen = true -> exists l, F k = Some l /\ lookup k table = Some (ans l)) /\
              (mem k seen = false -> lookup k table = None).

  Lemma collector_spec ls : forall seen table,
    fresh_ok ls seen -> table_ok table seen ->
    collector (map fst (feeder ls seen)) table (map ans (sent ls seen)) =
    map (fun kl => option_map ans (F (fst kl))) ls.
  Proof.
    induction ls as [|[k l] r IH]; intros seen table Hf Ht; [reflexivity|].
    simpl in Hf. destruct Hf as (Hnew & Hold & Hrest).
    simpl. destruct (mem k seen) eqn:Em.
    - (* cached *)
      simpl. destruct (Ht k) as [H1 _]. destruct (H1 Em) as (l0 & HF & Hl).
      rewrite Hl, HF. simpl. f_equal. apply IH; assumption.
    - simpl. destruct (Ht k) as [_ H2]. rewrite (H2 Em). rewrite (Hnew eq_refl). simpl. f_equal.
      apply IH; [exact Hrest|].
      intros k'. split.
      + intros Hm. simpl in Hm. destruct (N.eqb k' k) eqn:Ek.
        * apply N.eqb_eq in Ek. subst k'. exists l. split; [apply Hnew; reflexivity|].
          simpl. rewrite N.eqb_refl. reflexivity.
        * simpl in Hm. destruct (Ht k') as [H1 _]. destruct (H1 Hm) as (l0 & HF & Hl).
          exists l0. split; [exact HF|]. simpl. rewrite Ek. exact Hl.
      + intros Hm. simpl in Hm. destruct (N.eqb k' k) eqn:Ek; [discriminate|].
        simpl in Hm. simpl. rewrite Ek. destruct (Ht k') as [_ H2']. apply H2'. exact Hm.
  Qed.
End Cache.

(* the global first-line function satisfies fresh_ok from the start *)
Lemma fresh_ok_first_line_gen (pre ls : list (N * line)) (seen : list N) :
  (forall k, mem k seen = true <-> first_line k pre <> None) ->
  fresh_ok (fun k => first_line k (pre ++ ls)) ls seen.
Proof.
  revert pre seen. induction ls as [|[k l] r IH]; intros pre seen Hs; [exact I|].
  simpl. split; [|split].
  - intros Hm.
    assert (Hn : first_line k pre = None).
    { destruct (first_line k pre) eqn:E; [|reflexivity]. exfalso.
      assert (mem k seen = true) by (apply Hs; congruence). congruence. }
    clear Hs IH. induction pre as [|[k' l'] pre IHp]; simpl in *.
    + rewrite N.eqb_refl. reflexivity.
    + destruct (N.eqb k k'); [discriminate|]. apply IHp. exact Hn.
  - intros Hm. apply Hs in Hm. clear Hs IH.
    induction pre as [|[k' l'] pre IHp]; simpl in *; [exfalso; apply Hm; reflexivity|].
    destruct (N.eqb k k'); [discriminate|]. apply IHp. exact Hm.
  - replace (pre ++ (k, l) :: r) with ((pre ++ [(k, l)]) ++ r) by (rewrite <- app_assoc; reflexivity).
    apply IH. intros k0.
    assert (Hfl : first_line k0 (pre ++ [(k, l)]) = match first_line k0 pre with Some x => Some x | None => if N.eqb k0 k then Some l else None end).
    { clear. induction pre as [|[k' l'] pre IHp]; simpl; [reflexivity|]. destruct (N.eqb k0 k'); [reflexivity|exact IHp]. }
    rewrite Hfl. destruct (mem k seen) eqn:Em.
    + rewrite Hs. destruct (first_line k0 pre) eqn:E; [split; congruence|].
      destruct (N.eqb k0 k) eqn:Ek; [|split; congruence].
      apply N.eqb_eq in Ek. subst k0. apply Hs in Em. congruence.
    + simpl. destruct (N.eqb k0 k) eqn:Ek.
      * simpl. destruct (first_line k0 pre); split; intros; congruence.
      * simpl. rewrite Hs. destruct (first_line k0 pre); split; congruence.
Qed.

(* C04 at record level: for every input and key assignment, cache prints for line i the child's
   answer to the first line with the same key *)
Theorem cache_run_spec ans ls : cache_run ans ls = cache_spec ans ls.
Proof.
  unfold cache_run, cache_spec.
  apply (collector_spec ans (fun k => first_line k ls)).
  - apply (fresh_ok_first_line_gen [] ls []). intros k. simpl. split; congruence.
  - intros k. split; [discriminate|reflexivity].
Qed.

(* every input line gets an answer (never the "child stopped" error) *)
Lemma first_line_in ls : forall kl, In kl ls -> first_line (fst kl) ls <> None.
Proof.
  induction ls as [|[k l] r IH]; intros [k0 l0] Hin; simpl in *; [contradiction|].
  destruct (N.eqb k0 k) eqn:E; [discriminate|].
  destruct Hin as [Heq|Hin]; [inversion Heq; subst; rewrite N.eqb_refl in E; discriminate|].
  exact (IH _ Hin).
Qed.

Theorem cache_run_total ans ls : Forall (fun o => o <> None) (cache_run ans ls).
Proof.
  rewrite cache_run_spec. unfold cache_spec. apply Forall_forall. intros o Ho.
  apply in_map_iff in Ho. destruct Ho as (kl & Heq & Hin). subst o.
  pose proof (first_line_in ls kl Hin). destruct (first_line (fst kl) ls); [discriminate|congruence].
Qed.

(* ---- the child's input against an independent specification (audit H2) ---- *)
Lemma sent_pairs_snd ls : forall seen, sent ls seen = map snd (sent_pairs ls seen).
Proof. induction ls as [|[k l] r IH]; intros seen; simpl; [reflexivity|]. destruct (mem k seen); simpl; rewrite IH; reflexivity. Qed.

Lemma feeder_flags ls : forall seen, map fst (feeder ls seen) = map fst ls.
Proof. induction ls as [|[k l] r IH]; intros seen; simpl; [reflexivity|]. destruct (mem k seen); simpl; rewrite IH; reflexivity. Qed.

Lemma Subseq_map {A B} (f : A -> B) s l : Subseq s l -> Subseq (map f s) (map f l).
Proof. induction 1; simpl; constructor; assumption. Qed.

Lemma Subseq_In {A} (s l : list A) x : Subseq s l -> In x s -> In x l.
Proof. induction 1 as [|y s l H IH|y s l H IH]; simpl; intros Hin; auto. destruct Hin as [->|Hin]; auto. Qed.

Lemma sent_pairs_subseq ls : forall seen, Subseq (sent_pairs ls seen) ls.
Proof.
  induction ls as [|[k l] r IH]; intros seen; simpl; [constructor|].
  destruct (mem k seen); [apply SubSkip|apply SubTake]; apply IH.
Qed.

Lemma sent_pairs_fresh ls : forall seen k, In k (map fst (sent_pairs ls seen)) -> ~ In k seen.
Proof.
  induction ls as [|[k0 l] r IH]; intros seen k Hin; simpl in Hin; [contradiction|].
  destruct (mem k0 seen) eqn:Em.
  - exact (IH _ _ Hin).
  - simpl in Hin. destruct Hin as [<-|Hin]; [apply mem_false; exact Em|].
    intros Hs. apply (IH _ _ Hin). right. exact Hs.
Qed.

Lemma sent_pairs_nodup ls : forall seen, NoDup (map fst (sent_pairs ls seen)).
Proof.
  induction ls as [|[k l] r IH]; intros seen; simpl; [constructor|].
  destruct (mem k seen); [apply IH|]. simpl. constructor; [|apply IH].
  intros Hin. apply (sent_pairs_fresh _ _ _ Hin). left. reflexivity.
Qed.

Lemma sent_pairs_covers ls : forall seen k, In k (map fst ls) -> In k seen \/ In k (map fst (sent_pairs ls seen)).
Proof.
  induction ls as [|[k0 l] r IH]; intros seen k Hin; simpl in Hin; [contradiction|]. simpl.
  destruct (mem k0 seen) eqn:Em.
  - destruct Hin as [<-|Hin]; [left; apply mem_true; exact Em|apply IH; exact Hin].
  - destruct Hin as [<-|Hin]; [right; left; reflexivity|].
    destruct (IH (k0 :: seen) k Hin) as [[<-|H]|H]; [right; left; reflexivity|left; exact H|right; right; exact H].
Qed.

Lemma mem_ext s1 s2 : (forall k, In k s1 <-> In k s2) -> forall k, mem k s1 = mem k s2.
Proof.
  intros H k. destruct (mem k s1) eqn:E1, (mem k s2) eqn:E2; auto.
  - apply mem_true in E1. apply H in E1. apply mem_true in E1. congruence.
  - apply mem_true in E2. apply H in E2. apply mem_true in E2. congruence.
Qed.

Lemma sent_pairs_ext ls : forall s1 s2, (forall k, In k s1 <-> In k s2) -> sent_pairs ls s1 = sent_pairs ls s2.
Proof.
  induction ls as [|[k l] r IH]; intros s1 s2 H; simpl; [reflexivity|].
  rewrite (mem_ext s1 s2 H k). destruct (mem k s2); [apply IH; exact H|]. f_equal. apply IH.
  intros k0. simpl. rewrite H. reflexivity.
Qed.

Lemma sent_pairs_app a : forall b seen,
  sent_pairs (a ++ b) seen = sent_pairs a seen ++ sent_pairs b (map fst a ++ seen).
Proof.
  induction a as [|[k l] r IH]; intros b seen; simpl; [reflexivity|].
  destruct (mem k seen) eqn:Em.
  - rewrite IH. f_equal. apply sent_pairs_ext. intros k0. apply mem_true in Em. simpl. rewrite !in_app_iff.
    split; [tauto|]. intros [<-|[H|H]]; tauto.
  - simpl. rewrite IH. f_equal. f_equal. apply sent_pairs_ext. intros k0. simpl. rewrite !in_app_iff. simpl. tauto.
Qed.

(* position-wise: the line at ANY position is forwarded iff no earlier line has its key *)
Theorem sent_pairs_position pre k l post :
  sent_pairs (pre ++ (k, l) :: post) [] =
  sent_pairs pre [] ++ (if mem k (map fst pre) then [] else [(k, l)]) ++ sent_pairs post (map fst (pre ++ [(k, l)])).
Proof.
  rewrite sent_pairs_app. f_equal. rewrite app_nil_r. simpl.
  destruct (mem k (map fst pre)) eqn:E; simpl; [|f_equal]; apply sent_pairs_ext; intros k0; rewrite map_app, in_app_iff; simpl.
  - apply mem_true in E. split; [tauto|]. intros [H|[<-|[]]]; assumption.
  - tauto.
Qed.

Lemma sent_pairs_first_line ls : forall seen k l, In (k, l) (sent_pairs ls seen) -> first_line k ls = Some l.
Proof.
  induction ls as [|[k0 l0] r IH]; intros seen k l Hin; simpl in Hin; [contradiction|]. simpl.
  assert (Hk : In k (map fst (sent_pairs ((k0, l0) :: r) seen))).
  { simpl. change k with (fst (k, l)). apply in_map. exact Hin. }
  destruct (mem k0 seen) eqn:Em.
  - destruct (N.eqb k k0) eqn:E.
    + apply N.eqb_eq in E. subst k0. exfalso. apply (sent_pairs_fresh _ _ _ Hk). apply mem_true. exact Em.
    + exact (IH _ _ _ Hin).
  - destruct Hin as [Heq|Hin]; [inversion Heq; subst; rewrite N.eqb_refl; reflexivity|].
    destruct (N.eqb k k0) eqn:E; [|exact (IH _ _ _ Hin)].
    apply N.eqb_eq in E. subst k0. exfalso.
    assert (Hk2 : In k (map fst (sent_pairs r (k :: seen)))) by (change k with (fst (k, l)); apply in_map; exact Hin).
    apply (sent_pairs_fresh _ _ _ Hk2). left. reflexivity.
Qed.

(* ---- any one-line-per-line child, state allowed (audit M6) ---- *)
Lemma lookup_mem (table : list (N * line)) k : mem k (map fst table) = true <-> lookup k table <> None.
Proof.
  induction table as [|[k0 a] t IH]; simpl; [split; [discriminate|congruence]|].
  destruct (N.eqb k k0); simpl; [split; [discriminate|reflexivity]|exact IH].
Qed.

Lemma collector_gen_spec ls : forall table answers,
  length answers = length (sent_pairs ls (map fst table)) ->
  collector (map fst (feeder ls (map fst table))) table answers =
  map (fun kl => match lookup (fst kl) table with
                 | Some a => Some a
                 | None => nth_error answers (index_of (fst kl) (map fst (sent_pairs ls (map fst table))))
                 end) ls.
Proof.
  induction ls as [|[k l] r IH]; intros table answers Hlen; [reflexivity|].
  cbn [feeder sent_pairs] in *. destruct (mem k (map fst table)) eqn:Em.
  - cbn [map fst collector]. apply lookup_mem in Em. destruct (lookup k table) as [a|] eqn:El; [|congruence].
    f_equal. apply IH. exact Hlen.
  - cbn [map fst collector].
    assert (El : lookup k table = None).
    { destruct (lookup k table) eqn:E; [|reflexivity]. assert (mem k (map fst table) = true) by (apply lookup_mem; congruence). congruence. }
    rewrite El. destruct answers as [|a rest]; [discriminate Hlen|].
    cbn [index_of]. rewrite N.eqb_refl. cbn [nth_error]. f_equal.
    specialize (IH ((k, a) :: table) rest). cbn [map fst] in IH. rewrite IH by (simpl in Hlen; injection Hlen; auto).
    apply map_ext. intros [k' l']. cbn [fst lookup index_of]. destruct (N.eqb k' k) eqn:Ek.
    + apply N.eqb_eq in Ek. subst k'. rewrite El. reflexivity.
    + destruct (lookup k' table); reflexivity.
Qed.

Theorem cache_run_gen_spec child ls :
  length (child (sent ls [])) = length (sent ls []) ->
  cache_run_gen child ls = cache_spec_gen child ls.
Proof.
  intros Hlen. unfold cache_run_gen, cache_spec_gen.
  pose proof (collector_gen_spec ls [] (child (sent ls []))) as H. cbn [map lookup] in H. apply H.
  rewrite Hlen, sent_pairs_snd, map_length. reflexivity.
Qed.

Lemma index_of_lt k ks : In k ks -> index_of k ks < length ks.
Proof.
  induction ks as [|k0 r IH]; simpl; [contradiction|]. intros H. destruct (N.eqb k k0) eqn:E; [lia|].
  destruct H as [->|H]; [rewrite N.eqb_refl in E; discriminate|]. specialize (IH H). lia.
Qed.

Theorem cache_run_gen_total child ls :
  length (child (sent ls [])) = length (sent ls []) ->
  Forall (fun o => o <> None) (cache_run_gen child ls).
Proof.
  intros Hlen. rewrite cache_run_gen_spec by exact Hlen. unfold cache_spec_gen. apply Forall_forall. intros o Ho.
  apply in_map_iff in Ho. destruct Ho as ([k l] & <- & Hin). cbn [fst].
  apply nth_error_Some. rewrite Hlen, sent_pairs_snd, map_length, <- (map_length fst).
  apply index_of_lt. destruct (sent_pairs_covers ls [] k) as [[]|H]; [|exact H].
  change k with (fst (k, l)). apply in_map. exact Hin.
Qed.

(* the answer line used for key k is the one the child wrote for the FIRST line with key k *)
Lemma nth_index_of (sp : list (N * line)) k : In k (map fst sp) ->
  exists l, nth_error sp (index_of k (map fst sp)) = Some (k, l).
Proof.
  induction sp as [|[k0 l0] r IH]; simpl; [contradiction|]. intros H.
  destruct (N.eqb k k0) eqn:E.
  - apply N.eqb_eq in E. subst k0. exists l0. reflexivity.
  - destruct H as [->|H]; [rewrite N.eqb_refl in E; discriminate|]. exact (IH H).
Qed.

Theorem sent_at_key_index ls k : In k (map fst ls) ->
  nth_error (sent ls []) (index_of k (map fst (sent_pairs ls []))) = first_line k ls.
Proof.
  intros Hin. destruct (sent_pairs_covers ls [] k Hin) as [[]|H].
  destruct (nth_index_of _ _ H) as (l & Hn).
  rewrite sent_pairs_snd. erewrite map_nth_error by exact Hn. cbn [snd].
  symmetry. apply (sent_pairs_first_line ls []). eapply nth_error_In. exact Hn.
Qed.

(* the stateless child is the special case child = map ans *)
Lemma cache_run_gen_map ans ls : cache_run_gen (map ans) ls = cache_run ans ls.
Proof. reflexivity. Qed.

(* Output() reads a child line exactly for the entries whose line Input() forwarded: the collector's
   `need` equals the feeder's `lines` (the bookkeeping of the wrapper transition system) *)
Theorem cache_need_eq_sent ls : forall seen,
  collector_needs (map fst (feeder ls seen)) seen = map snd (feeder ls seen).
Proof.
  induction ls as [|[k l] r IH]; intros seen; simpl; [reflexivity|].
  destruct (mem k seen) eqn:Em; simpl; rewrite Em; f_equal; apply IH.
Qed.

(* whole-line keys (distinct lines have distinct keys, equal lines equal keys): the output is
   exactly the output of running the child directly *)
Theorem cache_transparent ans ls :
  (forall k1 l1 k2 l2, In (k1, l1) ls -> In (k2, l2) ls -> (k1 = k2 <-> l1 = l2)) ->
  cache_run ans ls = map (fun kl => Some (ans (snd kl))) ls.
Proof.
  intros Hk. rewrite cache_run_spec. unfold cache_spec. apply map_ext_in. intros [k l] Hin. simpl.
  assert (G : forall pre, (forall k' l', In (k', l') pre -> In (k', l') ls) -> In (k, l) pre -> first_line k pre = Some l).
  { induction pre as [|[k' l'] pre IHp]; intros Hsub Hi; [contradiction|]. simpl.
    destruct (N.eqb k k') eqn:E.
    - apply N.eqb_eq in E. subst k'. f_equal. symmetry. apply (Hk k l k l'); auto. apply Hsub. left. reflexivity.
    - destruct Hi as [Heq|Hi]; [inversion Heq; subst; rewrite N.eqb_refl in E; discriminate|].
      apply IHp; auto. intros; apply Hsub; right; assumption. }
  rewrite (G ls); auto.
Qed.
