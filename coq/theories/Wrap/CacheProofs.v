From PP Require Import Wrap.CacheDefs.
From Coq Require Import Lia.

Lemma mem_true k s : mem k s = true <-> In k s.
Proof.
  unfold mem. rewrite existsb_exists. split.
  - intros (x & Hin & He). apply Nat.eqb_eq in He. subst. exact Hin.
  - intros H. exists k. split; [exact H|apply Nat.eqb_refl].
Qed.

Lemma mem_false k s : mem k s = false <-> ~ In k s.
Proof. rewrite <- mem_true. destruct (mem k s); split; congruence. Qed.

Section Cache.
  Variable ans : line -> line.
  Variable F : nat -> option line.     (* first line of each key in the whole input *)

  (* in the rest of the input, the first line of a key not seen yet is that key's global first line *)
  Fixpoint fresh_ok (ls : list (nat * line)) (seen : list nat) : Prop :=
    match ls with
    | [] => True
    | (k, l) :: r => (mem k seen = false -> F k = Some l) /\ (mem k seen = true -> F k <> None) /\ fresh_ok r (if mem k seen then seen else k :: seen)
    end.

  Definition table_ok (table : list (nat * line)) (seen : list nat) : Prop :=
    forall k, (mem k seen = true -> exists l, F k = Some l /\ lookup k table = Some (ans l)) /\
              (mem k seen = false -> lookup k table = None).

  Lemma collector_spec ls : forall seen table,
    fresh_ok ls seen -> table_ok table seen ->
    collector (map fst (feeder ls seen)) table (map ans (sent ls seen)) =
    map (fun kl => option_map ans (F (fst kl))) ls.
  Proof.
    induction ls as [|[k l] r IH]; intros seen table Hf Ht; [reflexivity|].
    simpl in Hf. destruct Hf as (Hnew & Hold & Hrest).
    simpl. destruct (mem k seen) eqn:Em.
    - (* cached *)
      simpl. destruct (Ht k) as [H1 _]. destruct (H1 Em) as (l0 & HF & Hl).
      rewrite Hl, HF. simpl. f_equal. apply IH; assumption.
    - simpl. destruct (Ht k) as [_ H2]. rewrite (H2 Em). rewrite (Hnew eq_refl). simpl. f_equal.
      apply IH; [exact Hrest|].
      intros k'. split.
      + intros Hm. simpl in Hm. destruct (Nat.eqb k' k) eqn:Ek.
        * apply Nat.eqb_eq in Ek. subst k'. exists l. split; [apply Hnew; reflexivity|].
          simpl. rewrite Nat.eqb_refl. reflexivity.
        * simpl in Hm. destruct (Ht k') as [H1 _]. destruct (H1 Hm) as (l0 & HF & Hl).
          exists l0. split; [exact HF|]. simpl. rewrite Ek. exact Hl.
      + intros Hm. simpl in Hm. destruct (Nat.eqb k' k) eqn:Ek; [discriminate|].
        simpl in Hm. simpl. rewrite Ek. destruct (Ht k') as [_ H2']. apply H2'. exact Hm.
  Qed.
End Cache.

(* the global first-line function satisfies fresh_ok from the start *)
Lemma fresh_ok_first_line_gen (pre ls : list (nat * line)) (seen : list nat) :
  (forall k, mem k seen = true <-> first_line k pre <> None) ->
  fresh_ok (fun k => first_line k (pre ++ ls)) ls seen.
Proof.
  revert pre seen. induction ls as [|[k l] r IH]; intros pre seen Hs; [exact I|].
  simpl. split; [|split].
  - intros Hm.
    assert (Hn : first_line k pre = None).
    { destruct (first_line k pre) eqn:E; [|reflexivity]. exfalso.
      assert (mem k seen = true) by (apply Hs; congruence). congruence. }
    clear Hs IH. induction pre as [|[k' l'] pre IHp]; simpl in *.
    + rewrite Nat.eqb_refl. reflexivity.
    + destruct (Nat.eqb k k'); [discriminate|]. apply IHp. exact Hn.
  - intros Hm. apply Hs in Hm. clear Hs IH.
    induction pre as [|[k' l'] pre IHp]; simpl in *; [exfalso; apply Hm; reflexivity|].
    destruct (Nat.eqb k k'); [discriminate|]. apply IHp. exact Hm.
  - replace (pre ++ (k, l) :: r) with ((pre ++ [(k, l)]) ++ r) by (rewrite <- app_assoc; reflexivity).
    apply IH. intros k0.
    assert (Hfl : first_line k0 (pre ++ [(k, l)]) = match first_line k0 pre with Some x => Some x | None => if Nat.eqb k0 k then Some l else None end).
    { clear. induction pre as [|[k' l'] pre IHp]; simpl; [reflexivity|]. destruct (Nat.eqb k0 k'); [reflexivity|exact IHp]. }
    rewrite Hfl. destruct (mem k seen) eqn:Em.
    + rewrite Hs. destruct (first_line k0 pre) eqn:E; [split; congruence|].
      destruct (Nat.eqb k0 k) eqn:Ek; [|split; congruence].
      apply Nat.eqb_eq in Ek. subst k0. apply Hs in Em. congruence.
    + simpl. destruct (Nat.eqb k0 k) eqn:Ek.
      * simpl. destruct (first_line k0 pre); split; intros; congruence.
      * simpl. rewrite Hs. destruct (first_line k0 pre); split; congruence.
Qed.

(* C04 at record level: for every input and key assignment, cache prints for line i the child's
   answer to the first line with the same key *)
Theorem cache_run_spec ans ls : cache_run ans ls = cache_spec ans ls.
Proof.
  unfold cache_run, cache_spec.
  apply (collector_spec ans (fun k => first_line k ls)).
  - apply (fresh_ok_first_line_gen [] ls []). intros k. simpl. split; congruence.
  - intros k. split; [discriminate|reflexivity].
Qed.

(* every input line gets an answer (never the "child stopped" error) *)
Lemma first_line_in ls : forall kl, In kl ls -> first_line (fst kl) ls <> None.
Proof.
  induction ls as [|[k l] r IH]; intros [k0 l0] Hin; simpl in *; [contradiction|].
  destruct (Nat.eqb k0 k) eqn:E; [discriminate|].
  destruct Hin as [Heq|Hin]; [inversion Heq; subst; rewrite Nat.eqb_refl in E; discriminate|].
  exact (IH _ Hin).
Qed.

Theorem cache_run_total ans ls : Forall (fun o => o <> None) (cache_run ans ls).
Proof.
  rewrite cache_run_spec. unfold cache_spec. apply Forall_forall. intros o Ho.
  apply in_map_iff in Ho. destruct Ho as (kl & Heq & Hin). subst o.
  pose proof (first_line_in ls kl Hin). destruct (first_line (fst kl) ls); [discriminate|congruence].
Qed.

(* the child receives exactly the first-occurrence lines, each once, in input order *)
Theorem cache_child_input ls : sent ls [] = first_occurrences ls [].
Proof. generalize (@nil nat). induction ls as [|[k l] r IH]; intros s; simpl; [reflexivity|]. destruct (mem k s); rewrite IH; reflexivity. Qed.

(* Output() reads a child line exactly for the entries whose line Input() forwarded: the collector's
   `need` equals the feeder's `lines` (the bookkeeping of the wrapper transition system) *)
Theorem cache_need_eq_sent ls : forall seen,
  collector_needs (map fst (feeder ls seen)) seen = map snd (feeder ls seen).
Proof.
  induction ls as [|[k l] r IH]; intros seen; simpl; [reflexivity|].
  destruct (mem k seen) eqn:Em; simpl; rewrite Em; f_equal; apply IH.
Qed.

(* whole-line keys (distinct lines have distinct keys, equal lines equal keys): the output is
   exactly the output of running the child directly *)
Theorem cache_transparent ans ls :
  (forall k1 l1 k2 l2, In (k1, l1) ls -> In (k2, l2) ls -> (k1 = k2 <-> l1 = l2)) ->
  cache_run ans ls = map (fun kl => Some (ans (snd kl))) ls.
Proof.
  intros Hk. rewrite cache_run_spec. unfold cache_spec. apply map_ext_in. intros [k l] Hin. simpl.
  assert (G : forall pre, (forall k' l', In (k', l') pre -> In (k', l') ls) -> In (k, l) pre -> first_line k pre = Some l).
  { induction pre as [|[k' l'] pre IHp]; intros Hsub Hi; [contradiction|]. simpl.
    destruct (Nat.eqb k k') eqn:E.
    - apply Nat.eqb_eq in E. subst k'. f_equal. symmetry. apply (Hk k l k l'); auto. apply Hsub. left. reflexivity.
    - destruct Hi as [Heq|Hi]; [inversion Heq; subst; rewrite Nat.eqb_refl in E; discriminate|].
      apply IHp; auto. intros; apply Hsub; right; assumption. }
  rewrite (G ls); auto.
Qed.
