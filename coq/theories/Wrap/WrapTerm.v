(* C05 -- termination: with the enqueue-before-write order every step of the wrapper transition system
   strictly decreases a natural-number measure, so every run (every interleaving, every fragmentation of
   the transfers, every choice of flush points) is finite; together with "no stuck state" every maximal
   run ends in the terminal state. *)
From PP Require Import Wrap.WrapDefs Wrap.WrapProofs.
From Coq Require Import Lia.

Section WrapTerm.
  Variable pr : wparams.
  Variables ilen alen : nat -> nat.
  Hypothesis Hil : forall j, 1 <= ilen j.
  Hypothesis Hal : forall j, 1 <= alen j.
  Hypothesis Hecho : p_echo pr = true -> forall j, alen j = ilen j.
  Hypothesis Hcin : 1 <= p_cin pr.
  Hypothesis Hcout : 1 <= p_cout pr.
  Hypothesis Hord : p_order pr = true.
  Hypothesis Hmidpf : p_mid_peek pr = true -> p_poison_first pr = true.
  Hypothesis Hmidok : p_mid_peek pr = true -> p_peek_eof_ok pr = true.

  Notation I := (I ilen).
  Notation A := (A alen).
  Notation wstep := (wstep pr ilen alen).
  Notation WInv := (WInv pr ilen alen).

  (* lines of the records whose sending has not started *)
  Definition remlines (s : wst) : nat :=
    match w_fpc s with FSendSecond => list_sum (tl (w_recs s)) | _ => list_sum (w_recs s) end.
  Definition TL (s : wst) : nat := w_sentl s + remlines s.

  (* feeder statements still to execute *)
  Definition fw (s : wst) : nat :=
    match w_fpc s with
    | FNext => 2 * length (w_recs s) + 5
    | FSendSecond => 2 * length (w_recs s) + 4
    | FSendFirst | FEnqSecond => 0
    | FEofFlush => 4 | FEofClose => 3 | FEofPoison => 2 | FDone => 0
    end.
  (* bookkeeping entries still to be enqueued *)
  Definition toenq (s : wst) : nat :=
    match w_fpc s with
    | FNext => length (w_recs s) + 1
    | FSendSecond => length (w_recs s)
    | FSendFirst | FEnqSecond => 0
    | FEofFlush | FEofClose => if p_poison_first pr then 0 else 1
    | FEofPoison => 1
    | FDone => 0
    end.
  Definition kw (s : wst) : nat := match w_kpc s with KLines => 4 | KMid => 3 | KMidW => 2 | KMid2 | KPeek => 1 | _ => 0 end.

  Definition wmeasure (s : wst) : nat :=
    3 * fw s + 2 * (I (TL s) - w_sent s) + (if w_flushing s then 0 else 1)
    + (I (TL s) - w_pushed s) + (I (TL s) - w_cread s)
    + 2 * (A (TL s) - w_crel s) + (if w_cexit s then 0 else 1) + (A (TL s) - w_cwritten s)
    + (A (TL s) - w_kread s)
    + 5 * (length (w_queue s) + toenq s) + (w_kneed s + qsum (w_queue s) + remlines s) + kw s.

  (* while the lines of a record are being sent the record is still at the head of the list *)
  Definition SInv (s : wst) : Prop := w_fpc s = FSendSecond -> w_recs s <> [].

  Lemma sinv_step s l s' : SInv s -> wstep s l = Some s' -> SInv s'.
  Proof.
    unfold SInv. intros J H. destruct l; simpl in H.
    - unfold step_feed in H. destruct (negb (feeder_ready s)); [discriminate|].
      destruct (w_fpc s) eqn:Epc; try discriminate;
        repeat match type of H with
               | context [match w_recs s with _ => _ end] => destruct (w_recs s) eqn:Erecs
               | context [if ?c then _ else _] => destruct c
               end; try discriminate; inversion H; subst s'; simpl; try discriminate; unfold set_fpc; simpl; try discriminate.
    - unfold step_send in H. destruct (negb (feeder_ready s)); [discriminate|].
      destruct (w_fpc s) eqn:Epc; try discriminate;
        destruct ((1 <=? m) && (w_sent s + m <=? I (w_sentl s))); try discriminate; inversion H; subst s'; simpl; rewrite ?Epc; auto; discriminate.
    - unfold step_flush_start in H. destruct (w_flushing s); [discriminate|].
      destruct (w_pushed s <? w_sent s); [|discriminate].
      destruct (w_fpc s) eqn:Epc; try discriminate; inversion H; subst s'; simpl; rewrite ?Epc; auto; discriminate.
    - unfold step_push in H.
      destruct (w_flushing s && (1 <=? m) && (w_pushed s + m <=? w_sent s) && (w_pushed s + m - w_cread s <=? p_cin pr)); [|discriminate].
      inversion H; subst s'; simpl; auto.
    - unfold step_child_read in H.
      destruct (negb (w_cexit s) && Nat.eqb (w_crel s) (w_cwritten s) && (1 <=? m) && (w_cread s + m <=? w_pushed s)
                && (w_cread s + m <=? I (S (w_clines s)))); [|discriminate].
      destruct (p_echo pr); [inversion H; subst s'; simpl; auto|].
      destruct (p_early pr); [inversion H; subst s'; simpl; auto|].
      destruct (negb _ && release_now pr _ _); inversion H; subst s'; simpl; auto.
    - unfold step_child_eof in H.
      destruct (negb (w_cexit s) && w_inclosed s && Nat.eqb (w_cread s) (w_pushed s) && Nat.eqb (w_crel s) (w_cwritten s)); [|discriminate].
      destruct (Nat.eqb (w_crel s) (produced pr ilen alen (w_cread s) (w_clines s))); inversion H; subst s'; simpl; auto.
    - unfold step_child_write in H.
      destruct (negb (w_cexit s) && (1 <=? m) && (w_cwritten s + m <=? w_crel s) && (w_cwritten s + m - w_kread s <=? p_cout pr)); [|discriminate].
      inversion H; subst s'; simpl; auto.
    - unfold step_collect in H.
      destruct (w_kpc s); try discriminate;
        repeat match type of H with
               | context [match w_queue s with _ => _ end] => destruct (w_queue s) as [|[?|] ?]
               | context [match w_kneed s with _ => _ end] => destruct (w_kneed s)
               | context [if ?c then _ else _] => destruct c
               end; try discriminate; inversion H; subst s'; simpl; auto.
  Qed.

  Lemma list_sum_cons n r : list_sum (n :: r) = n + list_sum r.
  Proof. reflexivity. Qed.

  Lemma wmeasure_decreases s l s' : WInv s -> SInv s -> wstep s l = Some s' -> wmeasure s' < wmeasure s.
  Proof.
    intros J JS H.
    pose proof (produced_le_sent pr ilen alen Hil Hecho Hcin Hcout s J) as [Hps Hcs].
    pose proof (winv_step pr ilen alen Hil Hal Hecho Hcin Hcout Hord Hmidpf Hmidok s l s' J H) as J'.
    pose proof (produced_le_sent pr ilen alen Hil Hecho Hcin Hcout s' J') as [Hps' Hcs'].
    assert (HIm : forall a b, a <= b -> I a <= I b) by (intros; apply (cum_mono ilen); assumption).
    assert (HAm : forall a b, a <= b -> A a <= A b) by (intros; apply (cum_mono alen); assumption).
    destruct J as [Jin Jcin Jcl Jrel Jout Jkl Jacct Jnz Jeq Jpcsent Jpcfirst Jclosed Jclp Jexit Jq Jkdone Jerr Jmid2 Jmidp Jeofp Jeofc].
    destruct Jpcfirst as [Hnf Hne].
    assert (Hs1 : w_sentl s <= TL s) by (unfold TL; lia).
    pose proof (HIm _ _ Hs1) as HI1. pose proof (HAm _ _ Hs1) as HA1.
    unfold wmeasure.
    destruct l; simpl in H.
    - (* LFeed *)
      unfold step_feed in H. destruct (negb (feeder_ready s)) eqn:Er; [discriminate|].
      unfold feeder_ready in Er.
      destruct (w_fpc s) eqn:Epc; try congruence.
      + destruct (w_recs s) as [|n rest] eqn:Erecs.
        * destruct (p_poison_first pr) eqn:Epf; inversion H; subst s'; clear H;
            unfold TL, remlines, fw, toenq, kw, set_fpc; simpl; rewrite ?Epc, ?Erecs, ?Epf; simpl;
            rewrite ?app_length, ?qsum_app; simpl; destruct (w_flushing s), (w_cexit s); lia.
        * rewrite Hord in H. inversion H; subst s'; clear H.
          unfold TL, remlines, fw, toenq, kw; simpl; rewrite ?Epc, ?Erecs; simpl.
          rewrite ?app_length, ?qsum_app; simpl.
          replace (w_sentl s + n + list_sum rest) with (w_sentl s + (n + list_sum rest)) by lia.
          destruct (w_flushing s), (w_cexit s); lia.
      + destruct (Nat.eqb (w_sent s) (I (w_sentl s))); [|discriminate]. inversion H; subst s'; clear H.
        unfold TL, remlines, fw, toenq, kw; simpl; rewrite ?Epc; simpl.
        destruct (w_recs s) as [|n rest] eqn:Erecs; [exfalso; apply (JS Epc); exact Erecs|].
        simpl; destruct (w_flushing s), (w_cexit s); lia.
      + inversion H; subst s'; clear H.
        unfold TL, remlines, fw, toenq, kw; simpl; rewrite ?Epc; simpl. destruct (w_flushing s), (w_cexit s), (p_poison_first pr); lia.
      + inversion H; subst s'; clear H.
        unfold TL, remlines, fw, toenq, kw; simpl; rewrite ?Epc; simpl.
        destruct (p_poison_first pr); simpl; destruct (w_flushing s), (w_cexit s); lia.
      + inversion H; subst s'; clear H.
        unfold TL, remlines, fw, toenq, kw; simpl; rewrite ?Epc; simpl.
        rewrite ?app_length, ?qsum_app; simpl. destruct (w_flushing s), (w_cexit s); lia.
    - (* LSend *)
      unfold step_send in H. destruct (negb (feeder_ready s)); [discriminate|].
      destruct (w_fpc s) eqn:Epc; try discriminate;
        destruct ((1 <=? m) && (w_sent s + m <=? I (w_sentl s))) eqn:G; try discriminate; bprop;
        inversion H; subst s'; clear H;
        unfold TL, remlines, fw, toenq, kw; simpl; rewrite ?Epc; simpl;
        unfold TL, remlines in *; rewrite ?Epc in *; destruct (w_flushing s), (w_cexit s); lia.
    - (* LFlushStart *)
      unfold step_flush_start in H. destruct (w_flushing s) eqn:Ef; [discriminate|].
      destruct (w_pushed s <? w_sent s); [|discriminate].
      destruct (w_fpc s) eqn:Epc; try discriminate; inversion H; subst s'; clear H;
        unfold TL, remlines, fw, toenq, kw; simpl; rewrite ?Epc; simpl; destruct (w_cexit s); lia.
    - (* LPush *)
      unfold step_push in H.
      destruct (w_flushing s && (1 <=? m) && (w_pushed s + m <=? w_sent s) && (w_pushed s + m - w_cread s <=? p_cin pr)) eqn:G; [|discriminate].
      bprop. inversion H; subst s'; clear H.
      unfold TL, remlines, fw, toenq, kw in *; simpl. destruct (w_fpc s), (w_cexit s); simpl in *; lia.
    - (* LChildRead *)
      unfold step_child_read in H.
      destruct (negb (w_cexit s) && Nat.eqb (w_crel s) (w_cwritten s) && (1 <=? m) && (w_cread s + m <=? w_pushed s)
                && (w_cread s + m <=? I (S (w_clines s)))) eqn:G; [|discriminate].
      bprop.
      assert (Hsame : TL s' = TL s /\ w_sent s' = w_sent s /\ w_flushing s' = w_flushing s /\ w_pushed s' = w_pushed s /\
                      w_cread s' = w_cread s + m /\ w_cexit s' = false /\ w_cwritten s' = w_cwritten s /\ w_kread s' = w_kread s /\
                      w_queue s' = w_queue s /\ w_kneed s' = w_kneed s /\ w_fpc s' = w_fpc s /\ w_recs s' = w_recs s /\ w_kpc s' = w_kpc s).
      { destruct (p_echo pr); [inversion H; subst s'; unfold TL, remlines; simpl; repeat split; auto|].
        destruct (p_early pr); [inversion H; subst s'; unfold TL, remlines; simpl; repeat split; auto|].
        destruct (negb _ && release_now pr _ _); inversion H; subst s'; unfold TL, remlines; simpl; repeat split; auto. }
      destruct Hsame as (E1 & E2 & E3 & E4 & E5 & E6 & E7 & E8 & E9 & E10 & E11 & E12 & E13).
      assert (Hcrel : w_crel s <= w_crel s').
      { destruct J' as [_ _ _ [Hr' _] _ _ _ _ _ _ _ _ _ _ _ _ _ _ _ _ _]. rewrite E7 in Hr'. lia. }
      unfold fw, toenq, kw, remlines. rewrite E1, E2, E3, E4, E5, E6, E7, E8, E9, E10, E11, E12, E13.
      destruct (w_cexit s); [discriminate|]. lia.
    - (* LChildEof *)
      unfold step_child_eof in H.
      destruct (negb (w_cexit s) && w_inclosed s && Nat.eqb (w_cread s) (w_pushed s) && Nat.eqb (w_crel s) (w_cwritten s)) eqn:G; [|discriminate].
      bprop.
      destruct (Nat.eqb (w_crel s) (produced pr ilen alen (w_cread s) (w_clines s))) eqn:Ep; bprop; inversion H; subst s'; clear H;
        unfold TL, remlines, fw, toenq, kw in *; simpl.
      + destruct (w_cexit s); [discriminate|]. lia.
      + destruct (w_cexit s); [discriminate|]. destruct Jrel as [_ [Hr _]]. destruct (w_fpc s); simpl in *; lia.
    - (* LChildWrite *)
      unfold step_child_write in H.
      destruct (negb (w_cexit s) && (1 <=? m) && (w_cwritten s + m <=? w_crel s) && (w_cwritten s + m - w_kread s <=? p_cout pr)) eqn:G; [|discriminate].
      bprop. inversion H; subst s'; clear H.
      unfold TL, remlines, fw, toenq, kw in *; simpl. destruct Jrel as [_ [Hr _]].
      destruct (w_cexit s); [discriminate|]. destruct (w_fpc s); simpl in *; lia.
    - (* LCollect *)
      unfold step_collect in H. destruct Jout as [Jo1 Jo2]. destruct Jrel as [Jr1 [Jr2 _]].
      destruct (w_kpc s) eqn:Ek; try discriminate.
      + pose proof (Jnz ltac:(discriminate)) as Hn0.
        destruct (w_queue s) as [|[n|] q] eqn:Eq; [discriminate| |]; inversion H; subst s'; clear H;
          unfold TL, remlines, fw, toenq, kw; simpl; rewrite ?Ek; simpl.
        * lia.
        * destruct (p_final_peek pr); simpl; lia.
      + destruct (w_kneed s) as [|need] eqn:En.
        * destruct (p_mid_peek pr); inversion H; subst s'; clear H; unfold TL, remlines, fw, toenq, kw; simpl; rewrite ?Ek; simpl; lia.
        * destruct (A (S (w_klines s)) <=? w_kread s).
          -- inversion H; subst s'; clear H. unfold TL, remlines, fw, toenq, kw; simpl; rewrite ?Ek; simpl. lia.
          -- destruct ((1 <=? m) && (w_kread s + m <=? w_cwritten s)) eqn:G; bprop.
             ++ inversion H; subst s'; clear H. unfold TL, remlines, fw, toenq, kw in *; simpl; rewrite ?Ek; simpl.
                destruct (w_fpc s); simpl in *; lia.
             ++ destruct (w_cexit s && Nat.eqb (w_kread s) (w_cwritten s)); [|discriminate].
                inversion H; subst s'; clear H. unfold TL, remlines, fw, toenq, kw; simpl; rewrite ?Ek; simpl. lia.
      + (* KMid *)
        destruct (w_queue s) as [|x q] eqn:Eq; inversion H; subst s'; clear H; unfold TL, remlines, fw, toenq, kw; simpl; rewrite ?Ek; simpl; lia.
      + (* KMidW *)
        destruct (A (w_klines s) <? w_cwritten s).
        * inversion H; subst s'; clear H. unfold TL, remlines, fw, toenq, kw; simpl; rewrite ?Ek; simpl. lia.
        * destruct (w_cexit s) eqn:Ex; [|discriminate].
          destruct (p_peek_eof_ok pr); inversion H; subst s'; clear H; unfold TL, remlines, fw, toenq, kw;
            cbn [w_fpc w_recs w_sentl w_sent w_flushing w_pushed w_cread w_crel w_cexit w_cwritten w_kread w_queue w_kneed w_kpc set_coll];
            rewrite Ek, ?Ex; lia.
      + (* KMid2 *)
        destruct (w_queue s) as [|x q] eqn:Eq; inversion H; subst s'; clear H; unfold TL, remlines, fw, toenq, kw; simpl; rewrite ?Ek; simpl; lia.
      + destruct (w_kread s <? w_cwritten s).
        * inversion H; subst s'; clear H. unfold TL, remlines, fw, toenq, kw; simpl; rewrite ?Ek; simpl. lia.
        * destruct (w_cexit s) eqn:Ex; [|discriminate].
          inversion H; subst s'; clear H. unfold TL, remlines, fw, toenq, kw.
          cbn [w_fpc w_recs w_sentl w_sent w_flushing w_pushed w_cread w_crel w_cexit w_cwritten w_kread w_queue w_kneed w_kpc set_coll].
          rewrite Ek, ?Ex. lia.
  Qed.

  Lemma run_measure ls : forall s s', WInv s -> SInv s -> run wstep s ls = Some s' -> length ls + wmeasure s' <= wmeasure s.
  Proof.
    induction ls as [|l r IH]; intros s s0 J JS H; simpl in H.
    - inversion H; subst; simpl; lia.
    - destruct (wstep s l) as [s1|] eqn:E; [|discriminate].
      pose proof (wmeasure_decreases _ _ _ J JS E).
      pose proof (IH _ _ (winv_step pr ilen alen Hil Hal Hecho Hcin Hcout Hord Hmidpf Hmidok _ _ _ J E) (sinv_step _ _ _ JS E) H). simpl. lia.
  Qed.

  (* every run from the initial state is finite: its length is bounded by the initial measure *)
  Theorem wrapper_runs_bounded recs ls s : run wstep (w_init recs) ls = Some s -> length ls <= wmeasure (w_init recs).
  Proof.
    intros H.
    assert (JS : SInv (w_init recs)) by (intros X; discriminate).
    pose proof (run_measure ls _ _ (winv_init pr ilen alen Hil Hcin Hcout recs) JS H). lia.
  Qed.
End WrapTerm.
