(* C04 -- cache (preprocess/cache_main.cc) at record level: what Input() sends to the
   child and enqueues, and what Output() prints given the child's answer lines.
   Keys are the 64-bit hashes of the selected fields (as numbers); lines and
   answers are byte strings.  The hand-off between the two threads (queue,
   pipes, buffering, all interleavings) is the wrapper transition system of
   WrapDefs.v: it delivers the queue entries in order and the child's answer
   lines in order, which is all this level needs. *)
From Coq Require Export List ZArith Arith Bool.
Export ListNotations.

Definition line := list Z.

Fixpoint lookup {V} (k : nat) (t : list (nat * V)) : option V :=
  match t with
  | [] => None
  | (k', v) :: r => if Nat.eqb k k' then Some v else lookup k r
  end.

Definition mem (k : nat) (s : list nat) : bool := existsb (Nat.eqb k) s.

(* Input(): `cache.insert(entry)`; forward the line iff newly inserted; enqueue a pointer to the entry.
   Result: per input line (key, forwarded?) *)
Fixpoint feeder (ls : list (nat * line)) (seen : list nat) : list (nat * bool) :=
  match ls with
  | [] => []
  | (k, _) :: r => if mem k seen then (k, false) :: feeder r seen else (k, true) :: feeder r (k :: seen)
  end.

(* the child's stdin: the forwarded lines, in order *)
Fixpoint sent (ls : list (nat * line)) (seen : list nat) : list line :=
  match ls with
  | [] => []
  | (k, l) :: r => if mem k seen then sent r seen else l :: sent r (k :: seen)
  end.

(* Output(): for each queue entry: if the entry has no value yet, read one line from the child and
   store it; print the entry's value.  None = the child stopped early (EndOfFileException). *)
Fixpoint collector (q : list nat) (table : list (nat * line)) (answers : list line) : list (option line) :=
  match q with
  | [] => []
  | k :: r =>
    match lookup k table with
    | Some a => Some a :: collector r table answers
    | None =>
      match answers with
      | a :: rest => Some a :: collector r ((k, a) :: table) rest
      | [] => None :: collector r table []
      end
    end
  end.

(* does Output() read a child line for this entry?  (the bookkeeping `need` of the wrapper system) *)
Fixpoint collector_needs (q : list nat) (table : list nat) : list bool :=
  match q with
  | [] => []
  | k :: r => if mem k table then false :: collector_needs r table else true :: collector_needs r (k :: table)
  end.

(* the whole tool with a child that answers [ans l] to line l *)
Definition cache_run (ans : line -> line) (ls : list (nat * line)) : list (option line) :=
  collector (map fst (feeder ls [])) [] (map ans (sent ls [])).

(* specification: the answer to the first line with the same key *)
Fixpoint first_line (k : nat) (ls : list (nat * line)) : option line :=
  match ls with
  | [] => None
  | (k', l) :: r => if Nat.eqb k k' then Some l else first_line k r
  end.

Definition cache_spec (ans : line -> line) (ls : list (nat * line)) : list (option line) :=
  map (fun kl => option_map ans (first_line (fst kl) ls)) ls.

(* first occurrences, each once, in input order *)
Fixpoint first_occurrences (ls : list (nat * line)) (seen : list nat) : list line :=
  match ls with
  | [] => []
  | (k, l) :: r => if mem k seen then first_occurrences r seen else l :: first_occurrences r (k :: seen)
  end.
