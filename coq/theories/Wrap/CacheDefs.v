(* C04 -- cache (preprocess/cache_main.cc) at record level: what Input() sends to the
   child and enqueues, and what Output() prints given the child's answer lines.
   Keys are the 64-bit hashes of the selected fields (as numbers); lines and
   answers are byte strings.  The hand-off between the two threads (queue,
   pipes, buffering, all interleavings) is the wrapper transition system of
   WrapDefs.v: it delivers the queue entries in order and the child's answer
   lines in order, which is all this level needs. *)
From Coq Require Export List ZArith NArith Arith Bool.
Export ListNotations.

Definition line := list Z.

Fixpoint lookup {V} (k : N) (t : list (N * V)) : option V :=
  match t with
  | [] => None
  | (k', v) :: r => if N.eqb k k' then Some v else lookup k r
  end.

Definition mem (k : N) (s : list N) : bool := existsb (N.eqb k) s.

(* Input(): `cache.insert(entry)`; forward the line iff newly inserted; enqueue a pointer to the entry.
   Result: per input line (key, forwarded?) *)
Fixpoint feeder (ls : list (N * line)) (seen : list N) : list (N * bool) :=
  match ls with
  | [] => []
  | (k, _) :: r => if mem k seen then (k, false) :: feeder r seen else (k, true) :: feeder r (k :: seen)
  end.

(* the child's stdin: the forwarded lines, in order *)
Fixpoint sent (ls : list (N * line)) (seen : list N) : list line :=
  match ls with
  | [] => []
  | (k, l) :: r => if mem k seen then sent r seen else l :: sent r (k :: seen)
  end.

(* Output(): for each queue entry: if the entry has no value yet, read one line from the child and
   store it; print the entry's value.  None = the child stopped early (EndOfFileException). *)
Fixpoint collector (q : list N) (table : list (N * line)) (answers : list line) : list (option line) :=
  match q with
  | [] => []
  | k :: r =>
    match lookup k table with
    | Some a => Some a :: collector r table answers
    | None =>
      match answers with
      | a :: rest => Some a :: collector r ((k, a) :: table) rest
      | [] => None :: collector r table []
      end
    end
  end.

(* does Output() read a child line for this entry?  (the bookkeeping `need` of the wrapper system) *)
Fixpoint collector_needs (q : list N) (table : list N) : list bool :=
  match q with
  | [] => []
  | k :: r => if mem k table then false :: collector_needs r table else true :: collector_needs r (k :: table)
  end.

(* the whole tool with a child that answers [ans l] to line l *)
Definition cache_run (ans : line -> line) (ls : list (N * line)) : list (option line) :=
  collector (map fst (feeder ls [])) [] (map ans (sent ls [])).

(* specification: the answer to the first line with the same key *)
Fixpoint first_line (k : N) (ls : list (N * line)) : option line :=
  match ls with
  | [] => None
  | (k', l) :: r => if N.eqb k k' then Some l else first_line k r
  end.

Definition cache_spec (ans : line -> line) (ls : list (N * line)) : list (option line) :=
  map (fun kl => option_map ans (first_line (fst kl) ls)) ls.

(* ---- independent vocabulary for "the child receives precisely the first-occurrence lines" ---- *)
(* the forwarded lines together with their keys (sent = map snd sent_pairs, lemma sent_pairs_snd) *)
Fixpoint sent_pairs (ls : list (N * line)) (seen : list N) : list (N * line) :=
  match ls with
  | [] => []
  | (k, l) :: r => if mem k seen then sent_pairs r seen else (k, l) :: sent_pairs r (k :: seen)
  end.

(* order-preserving sub-list (same definition as C01 uses for dedupe's output) *)
Inductive Subseq {A : Type} : list A -> list A -> Prop :=
| SubNil : Subseq [] []
| SubSkip x s l : Subseq s l -> Subseq s (x :: l)
| SubTake x s l : Subseq s l -> Subseq (x :: s) (x :: l).

(* ---- any child that writes one line per line read, state allowed: a function from the list of lines
   it is given to the list of its answer lines, of the same length ---- *)
Definition cache_run_gen (child : list line -> list line) (ls : list (N * line)) : list (option line) :=
  collector (map fst (feeder ls [])) [] (child (sent ls [])).

(* position of a key in a list of keys *)
Fixpoint index_of (k : N) (ks : list N) : nat :=
  match ks with
  | [] => 0
  | k' :: r => if N.eqb k k' then 0 else S (index_of k r)
  end.

(* specification for such a child: input line i gets the answer line the child wrote for the first line
   with the same key, i.e. answer number (position of the key among the keys of the forwarded lines) of
   the child's output *)
Definition cache_spec_gen (child : list line -> list line) (ls : list (N * line)) : list (option line) :=
  map (fun kl => nth_error (child (sent ls [])) (index_of (fst kl) (map fst (sent_pairs ls [])))) ls.

(* ---- bytes: Output() writes every value followed by a newline; None = the tool aborted (child stopped early) ---- *)
Fixpoint all_some {A} (l : list (option A)) : option (list A) :=
  match l with
  | [] => Some []
  | Some x :: r => option_map (cons x) (all_some r)
  | None :: _ => None
  end.
