(* C05 / C04 -- one transition system for the three child-process wrappers
   (preprocess/cache_main.cc, foldfilter_main.cc, b64filter_main.cc with
   captive_child.cc):

     feeder thread --(unbounded queue of bookkeeping)--> collector thread
        |  stream buffer                                        ^
        v                                                       |
     pipe_in (bounded) --> child process --> pipe_out (bounded) -

   Byte pipes are FIFO, so every channel is described by COUNTERS into the two
   byte streams (the child's input stream and its answer stream); a "unit" is
   one byte (or any finer/coarser fragment: only ilen/alen >= 1 is used).
   Input line j occupies units [I j, I (j+1)), its answer [A j, A (j+1)), where
   I/A are cumulative sums of the line lengths ilen/alen.

   Parameters (wparams):
     p_order        true  = bookkeeping is enqueued BEFORE the record's lines are written (foldfilter, b64filter)
                    false = AFTER (cache as found)
     p_poison_first true  = at end of input: enqueue poison, flush, close (foldfilter, b64filter)
                    false = flush, close, enqueue poison (cache)
     p_final_peek   collector waits for the child's end-of-file after the poison (b64filter)
     p_cin p_cout   pipe capacities in units
     p_echo         child copies bytes as they come (cat); otherwise it answers whole lines
     p_kpol         line child: Some k = answers released in blocks of k lines, None = only at end of input
     p_early        line child that answers a line as soon as its first unit arrives (and writes eagerly)
     p_mid_peek     the collector, after each record, peeks at the child's output when the queue is empty
                    (foldfilter); KMid = the first queue test, KMidW = inside the blocking peek(), KMid2 = the second queue test
     p_peek_eof_ok  end-of-file in that peek is tolerated when the queue is no longer empty
   The stream buffer (size, flush rate) is abstracted by nondeterminism: the
   feeder may start a blocking flush at any time and must at end of input, so
   theorems hold for every buffer size and flush rate. *)
From PP Require Export Base.LTS.

Record wparams := mkP {
  p_order : bool;
  p_poison_first : bool;
  p_final_peek : bool;
  p_cin : nat;
  p_cout : nat;
  p_echo : bool;
  p_kpol : option nat;
  p_early : bool;          (* line child that writes its answer to a line as soon as the line's FIRST unit arrives *)
  p_mid_peek : bool;       (* collector: after emitting a record, `if (queue.Empty()) { peek(); if (queue.Empty()) throw }` (foldfilter) *)
  p_peek_eof_ok : bool }.  (* ... and an end-of-file seen by that peek is only an error if the queue is still empty *)

Inductive fpc := FNext | FSendFirst | FEnqSecond | FSendSecond | FEofFlush | FEofClose | FEofPoison | FDone.
Inductive kpc := KDeq | KLines | KMid | KMidW | KMid2 | KPeek | KDone | KErr.

Record wst := mkW {
  (* feeder *)
  w_fpc : fpc;
  w_recs : list nat;       (* records not finished: number of lines each one sends *)
  w_sentl : nat;           (* lines whose sending has been started *)
  w_sent : nat;            (* units handed to the stream buffer *)
  w_flushing : bool;       (* a blocking flush is in progress *)
  w_pushed : nat;          (* units written into pipe_in *)
  w_inclosed : bool;       (* child's stdin closed by the feeder *)
  (* queue *)
  w_queue : list (option nat);   (* Some n = record needing n answer lines; None = poison *)
  w_enql : nat;            (* total lines covered by the enqueued bookkeeping *)
  (* child *)
  w_cread : nat;           (* units read from pipe_in *)
  w_clines : nat;          (* complete lines read *)
  w_crell : nat;           (* lines whose answers have been released (line child) *)
  w_crel : nat;            (* answer units released to be written *)
  w_cwritten : nat;        (* answer units written into pipe_out *)
  w_cexit : bool;          (* child exited (stdout closed) *)
  (* collector *)
  w_kread : nat;           (* units read from pipe_out *)
  w_klines : nat;          (* answer lines consumed *)
  w_kpc : kpc;
  w_kneed : nat;           (* lines still needed for the current record *)
  w_kcur : nat;            (* first line of the current record *)
  w_emitted : list (nat * nat)   (* per emitted record (first line, number of lines), newest first *)
}.

Inductive wlabel :=
| LFeed                (* next statement of the feeder program *)
| LSend (m : nat)      (* feeder appends m more units of the current record to the stream buffer *)
| LFlushStart          (* stream buffer starts a blocking write *)
| LPush (m : nat)      (* m units go from the stream buffer into pipe_in *)
| LChildRead (m : nat)
| LChildEof
| LChildWrite (m : nat)
| LCollect (m : nat).  (* next statement of the collector; m = units read from pipe_out when it reads *)

Fixpoint cum (len : nat -> nat) (n : nat) : nat :=
  match n with 0 => 0 | S k => cum len k + len k end.

Definition w_init (recs : list nat) : wst :=
  mkW FNext recs 0 0 false 0 false [] 0 0 0 0 0 0 false 0 0 KDeq 0 0 [].

Section Wrap.
  Variable pr : wparams.
  Variables ilen alen : nat -> nat.

  Definition I := cum ilen.
  Definition A := cum alen.

  Definition set_feeder (s : wst) (pc : fpc) (recs : list nat) (sentl sent : nat) (fl : bool) (pushed : nat)
             (closed : bool) (q : list (option nat)) (enql : nat) : wst :=
    mkW pc recs sentl sent fl pushed closed q enql (w_cread s) (w_clines s) (w_crell s) (w_crel s) (w_cwritten s) (w_cexit s)
        (w_kread s) (w_klines s) (w_kpc s) (w_kneed s) (w_kcur s) (w_emitted s).

  Definition set_fpc (s : wst) (pc : fpc) : wst :=
    set_feeder s pc (w_recs s) (w_sentl s) (w_sent s) false (w_pushed s) (w_inclosed s) (w_queue s) (w_enql s).

  Definition feeder_ready (s : wst) : bool := negb (w_flushing s) || Nat.eqb (w_pushed s) (w_sent s).

  (* the feeder program; a statement can run only when no blocking flush is pending *)
  Definition step_feed (s : wst) : option wst :=
    if negb (feeder_ready s) then None else
    match w_fpc s with
    | FNext =>
      match w_recs s with
      | [] =>
        if p_poison_first pr then
          Some (set_feeder s FEofFlush [] (w_sentl s) (w_sent s) false (w_pushed s) (w_inclosed s)
                           (w_queue s ++ [None]) (w_enql s))
        else Some (set_fpc s FEofFlush)
      | n :: _ =>
        if p_order pr then
          Some (set_feeder s FSendSecond (w_recs s) (w_sentl s + n) (w_sent s) false (w_pushed s) (w_inclosed s)
                           (w_queue s ++ [Some n]) (w_enql s + n))
        else
          Some (set_feeder s FSendFirst (w_recs s) (w_sentl s + n) (w_sent s) false (w_pushed s) (w_inclosed s)
                           (w_queue s) (w_enql s))
      end
    | FSendFirst =>      (* all units of the record handed over? then enqueue *)
      if Nat.eqb (w_sent s) (I (w_sentl s)) then Some (set_fpc s FEnqSecond) else None
    | FEnqSecond =>
      match w_recs s with
      | n :: rest =>
        Some (set_feeder s FNext rest (w_sentl s) (w_sent s) false (w_pushed s) (w_inclosed s)
                         (w_queue s ++ [Some n]) (w_enql s + n))
      | [] => None
      end
    | FSendSecond =>
      if Nat.eqb (w_sent s) (I (w_sentl s)) then
        Some (set_feeder s FNext (tl (w_recs s)) (w_sentl s) (w_sent s) false (w_pushed s) (w_inclosed s) (w_queue s) (w_enql s))
      else None
    | FEofFlush =>       (* flush(): blocking write of whatever is buffered *)
      Some (set_feeder s FEofClose (w_recs s) (w_sentl s) (w_sent s) true (w_pushed s) (w_inclosed s) (w_queue s) (w_enql s))
    | FEofClose =>       (* reached only when the flush completed (feeder_ready) *)
      Some (set_feeder s (if p_poison_first pr then FDone else FEofPoison) (w_recs s) (w_sentl s) (w_sent s) false
                       (w_pushed s) true (w_queue s) (w_enql s))
    | FEofPoison =>
      Some (set_feeder s FDone (w_recs s) (w_sentl s) (w_sent s) false (w_pushed s) (w_inclosed s)
                       (w_queue s ++ [None]) (w_enql s))
    | FDone => None
    end.

  Definition step_send (s : wst) (m : nat) : option wst :=
    if negb (feeder_ready s) then None else
    match w_fpc s with
    | FSendFirst | FSendSecond =>
      if (1 <=? m) && (w_sent s + m <=? I (w_sentl s)) then
        Some (set_feeder s (w_fpc s) (w_recs s) (w_sentl s) (w_sent s + m) false (w_pushed s) (w_inclosed s) (w_queue s) (w_enql s))
      else None
    | _ => None
    end.

  Definition step_flush_start (s : wst) : option wst :=
    if w_flushing s then None
    else if w_pushed s <? w_sent s then
      match w_fpc s with
      | FDone | FEofClose | FEofPoison => None
      | _ => Some (set_feeder s (w_fpc s) (w_recs s) (w_sentl s) (w_sent s) true (w_pushed s) (w_inclosed s) (w_queue s) (w_enql s))
      end
    else None.

  Definition step_push (s : wst) (m : nat) : option wst :=
    if w_flushing s && (1 <=? m) && (w_pushed s + m <=? w_sent s) && (w_pushed s + m - w_cread s <=? p_cin pr) then
      Some (set_feeder s (w_fpc s) (w_recs s) (w_sentl s) (w_sent s) true (w_pushed s + m) (w_inclosed s) (w_queue s) (w_enql s))
    else None.

  Definition set_child (s : wst) (cread clines crell crel cwritten : nat) (cexit : bool) : wst :=
    mkW (w_fpc s) (w_recs s) (w_sentl s) (w_sent s) (w_flushing s) (w_pushed s) (w_inclosed s) (w_queue s) (w_enql s)
        cread clines crell crel cwritten cexit
        (w_kread s) (w_klines s) (w_kpc s) (w_kneed s) (w_kcur s) (w_emitted s).

  (* answer units the child has computed so far *)
  Definition produced (cread clines : nat) : nat :=
    if p_echo pr then cread
    else A (clines + (if p_early pr && (I clines <? cread) then 1 else 0)).

  Definition release_now (clines crell : nat) : bool :=
    match p_kpol pr with
    | Some k => k <=? clines - crell
    | None => false
    end.

  (* the child reads only when it is not in the middle of a (blocking) write, and at most to the end of the current line *)
  Definition step_child_read (s : wst) (m : nat) : option wst :=
    if negb (w_cexit s) && Nat.eqb (w_crel s) (w_cwritten s) && (1 <=? m) && (w_cread s + m <=? w_pushed s)
       && (w_cread s + m <=? I (S (w_clines s))) then
      let cread := w_cread s + m in
      let clines := if Nat.eqb cread (I (S (w_clines s))) then S (w_clines s) else w_clines s in
      if p_echo pr then Some (set_child s cread clines clines cread (w_cwritten s) false)
      else if p_early pr then Some (set_child s cread clines clines (produced cread clines) (w_cwritten s) false)
      else if negb (Nat.eqb clines (w_clines s)) && release_now clines (w_crell s) then
             Some (set_child s cread clines clines (A clines) (w_cwritten s) false)
           else Some (set_child s cread clines (w_crell s) (w_crel s) (w_cwritten s) false)
    else None.

  (* end of file on stdin: release everything held; once it is written, exit *)
  Definition step_child_eof (s : wst) : option wst :=
    if negb (w_cexit s) && w_inclosed s && Nat.eqb (w_cread s) (w_pushed s) && Nat.eqb (w_crel s) (w_cwritten s) then
      if Nat.eqb (w_crel s) (produced (w_cread s) (w_clines s)) then
        Some (set_child s (w_cread s) (w_clines s) (w_crell s) (w_crel s) (w_cwritten s) true)
      else Some (set_child s (w_cread s) (w_clines s) (w_clines s) (produced (w_cread s) (w_clines s)) (w_cwritten s) false)
    else None.

  Definition step_child_write (s : wst) (m : nat) : option wst :=
    if negb (w_cexit s) && (1 <=? m) && (w_cwritten s + m <=? w_crel s) && (w_cwritten s + m - w_kread s <=? p_cout pr) then
      Some (set_child s (w_cread s) (w_clines s) (w_crell s) (w_crel s) (w_cwritten s + m) false)
    else None.

  Definition set_coll (s : wst) (q : list (option nat)) (kread klines : nat) (pc : kpc) (need cur : nat) (em : list (nat * nat)) : wst :=
    mkW (w_fpc s) (w_recs s) (w_sentl s) (w_sent s) (w_flushing s) (w_pushed s) (w_inclosed s) q (w_enql s)
        (w_cread s) (w_clines s) (w_crell s) (w_crel s) (w_cwritten s) (w_cexit s)
        kread klines pc need cur em.

  Definition step_collect (s : wst) (m : nat) : option wst :=
    match w_kpc s with
    | KDeq =>
      match w_queue s with
      | [] => None
      | Some n :: q => Some (set_coll s q (w_kread s) (w_klines s) KLines n (w_klines s) (w_emitted s))
      | None :: q => Some (set_coll s q (w_kread s) (w_klines s) (if p_final_peek pr then KPeek else KDone) 0 (w_klines s) (w_emitted s))
      end
    | KLines =>
      match w_kneed s with
      | 0 => Some (set_coll s (w_queue s) (w_kread s) (w_klines s) (if p_mid_peek pr then KMid else KDeq) 0 (w_klines s)
                            ((w_kcur s, w_klines s - w_kcur s) :: w_emitted s))
      | S need =>
        if A (S (w_klines s)) <=? w_kread s then      (* a complete line is buffered: take it *)
          Some (set_coll s (w_queue s) (w_kread s) (S (w_klines s)) KLines need (w_kcur s) (w_emitted s))
        else if (1 <=? m) && (w_kread s + m <=? w_cwritten s) then   (* read(): whatever is available *)
          Some (set_coll s (w_queue s) (w_kread s + m) (w_klines s) KLines (w_kneed s) (w_kcur s) (w_emitted s))
        else if w_cexit s && Nat.eqb (w_kread s) (w_cwritten s) then   (* end of file: "child stopped producing" *)
          Some (set_coll s (w_queue s) (w_kread s) (w_klines s) KErr (w_kneed s) (w_kcur s) (w_emitted s))
        else None
      end
    | KMid =>       (* if (queue.Empty()) ... *)
      match w_queue s with
      | _ :: _ => Some (set_coll s (w_queue s) (w_kread s) (w_klines s) KDeq 0 (w_kcur s) (w_emitted s))
      | [] => Some (set_coll s (w_queue s) (w_kread s) (w_klines s) KMidW 0 (w_kcur s) (w_emitted s))
      end
    | KMidW =>      (* ... peek(): blocks until a byte of child output or the child's end-of-file, whatever the queue does meanwhile *)
      if A (w_klines s) <? w_cwritten s then
        Some (set_coll s (w_queue s) (w_kread s) (w_klines s) KMid2 0 (w_kcur s) (w_emitted s))
      else if w_cexit s then
        Some (set_coll s (w_queue s) (w_kread s) (w_klines s) (if p_peek_eof_ok pr then KMid2 else KErr) 0 (w_kcur s) (w_emitted s))
      else None
    | KMid2 =>      (* if (queue.Empty()) throw *)
      match w_queue s with
      | [] => Some (set_coll s (w_queue s) (w_kread s) (w_klines s) KErr 0 (w_kcur s) (w_emitted s))
      | _ :: _ => Some (set_coll s (w_queue s) (w_kread s) (w_klines s) KDeq 0 (w_kcur s) (w_emitted s))
      end
    | KPeek =>
      if w_kread s <? w_cwritten s then
        Some (set_coll s (w_queue s) (w_kread s) (w_klines s) KErr 0 (w_kcur s) (w_emitted s))   (* "more output than input" *)
      else if w_cexit s then Some (set_coll s (w_queue s) (w_kread s) (w_klines s) KDone 0 (w_kcur s) (w_emitted s))
      else None
    | KDone | KErr => None
    end.

  Definition wstep (s : wst) (l : wlabel) : option wst :=
    match l with
    | LFeed => step_feed s
    | LSend m => step_send s m
    | LFlushStart => step_flush_start s
    | LPush m => step_push s m
    | LChildRead m => step_child_read s m
    | LChildEof => step_child_eof s
    | LChildWrite m => step_child_write s m
    | LCollect m => step_collect s m
    end.

  (* everything has finished: both threads returned and the child exited *)
  Definition wterminal (s : wst) : bool :=
    match w_fpc s, w_kpc s with
    | FDone, KDone => w_cexit s
    | FDone, KErr => w_cexit s
    | _, _ => false
    end.

  (* a canonical finite set of labels that covers enabledness: if any label is enabled, one of these is *)
  Definition wlabels (s : wst) : list wlabel :=
    [LFeed; LSend 1; LFlushStart; LPush 1; LChildRead 1; LChildEof; LChildWrite 1; LCollect 1].

  Definition wstuck (s : wst) : bool :=
    forallb (fun l => match wstep s l with None => true | Some _ => false end) (wlabels s).
End Wrap.
