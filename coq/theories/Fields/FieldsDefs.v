(* Executable model of preprocess/fields.cc (ConsumeInt, ParseFields,
   DefragmentFields) and preprocess/fields.hh (RangeFields, IndividualFields,
   HashCallback on top), loop for loop, plus the independent specification:
   cut semantics (a line with n delimiters has n+1 fields; select; join).
   Pointers into the line are modelled as suffixes of the byte list.
   Field indices are `unsigned int`: Z with explicit bounds from Gen/Src_fields.v.
   No proofs here. *)
From PP Require Export Base.Bytes Gen.Src_fields Hash.MurmurDefs.
Local Open Scope Z_scope.

(* [begin, end) ; end = kInfiniteEnd means "to the end of the line" *)
Definition range := (Z * Z)%type.

(* ------------------------------------------------------------ ParseFields *)
Definition is_digit (c : Z) : bool := (48 <=? c) && (c <=? 57).

(* strtoul(arg, &end, 10) on a string that starts with a digit: all consecutive
   digits, saturating at ULONG_MAX *)
Fixpoint digits_value (acc : Z) (s : list Z) : Z * list Z :=
  match s with
  | c :: r => if is_digit c then digits_value (acc * 10 + (c - 48)) r else (acc, s)
  | [] => (acc, [])
  end.

Inductive perr := PNotNumber | POutOfRange | PEmptyRange | PBadSeparator | PEmptyList | PTrailingComma | PFuel.
Inductive pres (A : Type) := POk (a : A) | PErr (e : perr).
Arguments POk {A}. Arguments PErr {A}.

(* unsigned int ConsumeInt(const char *&arg) *)
Definition consume_int (s : list Z) : pres (Z * list Z) :=
  match s with
  | c :: _ =>
    if is_digit c then
      let (v, rest) := digits_value 0 s in
      let ret := Z.min v ulong_max in
      if (ret =? 0) || (kInfiniteEnd <=? ret) then PErr POutOfRange else POk (ret, rest)
    else PErr PNotNumber
  | [] => PErr PNotNumber
  end.

Definition comma : Z := 44.
Definition dash : Z := 45.
Definition head0 (s : list Z) : Z := match s with c :: _ => c | [] => 0 end.   (* arg[0], NUL at the end *)

(* one iteration of `while (arg[0])`: returns the range pushed and the new arg *)
Definition parse_one (s : list Z) : pres (range * list Z) :=
  (* if (arg[0] == '-') add.begin = 0; else add.begin = ConsumeInt(arg) - 1; *)
  match (if head0 s =? dash then POk (0, s) else
           match consume_int s with POk (v, r) => POk (v - 1, r) | PErr e => PErr e end) with
  | PErr e => PErr e
  | POk (b, s1) =>
    (* switch (arg[0]) *)
    match (if (head0 s1 =? comma) || (head0 s1 =? 0) then POk (b + 1, s1)
           else if head0 s1 =? dash then
             let s2 := tl s1 in
             if (head0 s2 =? 0) || (head0 s2 =? comma) then POk (kInfiniteEnd, s2)
             else match consume_int s2 with
                  | POk (e, s3) => if e <=? b then PErr PEmptyRange else POk (e, s3)
                  | PErr er => PErr er
                  end
           else PErr PBadSeparator) with
    | PErr e => PErr e
    | POk (e, s2) =>
      (* after a complete range only ',' or the end of the string may follow *)
      if negb (head0 s2 =? 0) && negb (head0 s2 =? comma) then PErr PBadSeparator
      else if head0 s2 =? comma then
        (if head0 (tl s2) =? 0 then PErr PTrailingComma else POk ((b, e), tl s2))
      else POk ((b, e), s2)
    end
  end.

Fixpoint parse_loop (fuel : nat) (s : list Z) : pres (list range) :=
  if head0 s =? 0 then POk []
  else match fuel with
       | O => PErr PFuel
       | S f =>
         match parse_one s with
         | PErr e => PErr e
         | POk (r, s') =>
           match parse_loop f s' with
           | POk rs => POk (r :: rs)
           | PErr e => PErr e
           end
         end
       end.

(* void ParseFields(const char* arg, std::vector<FieldRange> &indices); the
   argument is the C string up to its terminating NUL (no 0 in the list) *)
Definition parse_fields (s : list Z) : pres (list range) :=
  if head0 s =? 0 then PErr PEmptyList else parse_loop (length s) s.

(* ------------------------------------------------------- DefragmentFields *)
(* std::sort with operator< on begin (any order of equal begins gives the same
   outcome below: equal begins always overlap) *)
Fixpoint insert_range (r : range) (l : list range) : list range :=
  match l with
  | [] => [r]
  | x :: t => if fst r <? fst x then r :: l else x :: insert_range r t
  end.
Definition sort_ranges (l : list range) : list range := fold_right insert_range [] l.

(* the loop `for (i = 1; i < size;)` seen from indices[i-1] = prev *)
Fixpoint defrag_loop (prev : range) (rest : list range) : option (list range) :=
  match rest with
  | [] => Some [prev]
  | r :: rest' =>
    if fst r <? snd prev then None                                   (* "Overlapping index ranges" *)
    else if snd prev =? fst r then defrag_loop (fst prev, snd r) rest'
    else match defrag_loop r rest' with Some l => Some (prev :: l) | None => None end
  end.
Definition defragment (l : list range) : option (list range) :=
  match sort_ranges l with
  | [] => Some []
  | r :: rest => defrag_loop r rest
  end.

(* what every tool does with -f LIST *)
Definition parse_key_spec (s : list Z) : option (list range) :=
  match parse_fields s with
  | POk rs => defragment rs
  | PErr _ => None
  end.

(* ------------------------------------------------------------ RangeFields *)
(* std::find(begin, end, delim): bytes before the delimiter, and the suffix
   after it (None: found == end) *)
Fixpoint find_delim (d : Z) (s : list Z) : list Z * option (list Z) :=
  match s with
  | [] => ([], None)
  | c :: r => if c =? d then ([], Some r)
              else let (f, x) := find_delim d r in (c :: f, x)
  end.

(* for (; index < f.begin; ++index) { found = find(begin,end,delim); if (found == end) return; begin = found + 1; } *)
Inductive skipres := SkipAt (index : Z) (s : list Z) | SkipReturn | SkipFuel.
Fixpoint skip_fields (fuel : nat) (d index fbegin : Z) (s : list Z) : skipres :=
  if index <? fbegin then
    match fuel with
    | O => SkipFuel
    | S f => match find_delim d s with
             | (_, None) => SkipReturn
             | (_, Some r) => skip_fields f d (index + 1) fbegin r
             end
    end
  else SkipAt index s.

(* for (; index < f.end; ++index) { found = find(...); if (found == end) { callback(old_begin, end - old_begin); return; } begin = found + 1; }
   callback(old_begin, begin - old_begin - 1);
   acc = the bytes [old_begin, begin) *)
Inductive takeres := TakeEnd (piece : list Z) | TakeUpTo (index : Z) (s : list Z) (piece : list Z) | TakeBadLength | TakeFuel.
Fixpoint take_fields (fuel : nat) (d index fend : Z) (s acc : list Z) : takeres :=
  if index <? fend then
    match fuel with
    | O => TakeFuel
    | S f => match find_delim d s with
             | (fld, None) => TakeEnd (acc ++ fld)
             | (fld, Some r) => take_fields f d (index + 1) fend r (acc ++ fld ++ [d])
             end
    end
  else match acc with
       | [] => TakeBadLength                 (* begin - old_begin - 1 = -1 as size_t *)
       | _ => TakeUpTo index s (removelast acc)
       end.

Inductive rres := ROk (pieces : list (list Z)) | RBadLength | RFuel.
Definition rcons (p : list Z) (r : rres) : rres :=
  match r with ROk l => ROk (p :: l) | e => e end.

Fixpoint range_fields_loop (fuel : nat) (d : Z) (ranges : list range) (index : Z) (s : list Z) : rres :=
  match ranges with
  | [] => ROk []
  | (fb, fe) :: rest =>
    match skip_fields fuel d index fb s with
    | SkipFuel => RFuel
    | SkipReturn => ROk []
    | SkipAt index1 s1 =>
      if fe =? kInfiniteEnd then ROk [s1]          (* callback(begin, end - begin); return *)
      else match take_fields fuel d index1 fe s1 [] with
           | TakeFuel => RFuel
           | TakeBadLength => RBadLength
           | TakeEnd p => ROk [p]
           | TakeUpTo index2 s2 p => rcons p (range_fields_loop fuel d rest index2 s2)
           end
    end
  end.

(* RangeFields(str, indices, delim, callback): the callback arguments in order *)
Definition range_fields (line : list Z) (ranges : list range) (d : Z) : rres :=
  range_fields_loop (S (length line)) d ranges 0 line.

(* ------------------------------------------------------- IndividualFields *)
Inductive ires := IOk (pieces : list (list Z)) | IFuel.
Definition icons (p : list Z) (r : ires) : ires := match r with IOk l => IOk (p :: l) | e => e end.

(* second loop: every field of the range gets its own callback *)
Inductive eachres := EachEnd (pieces : list (list Z)) | EachUpTo (index : Z) (s : list Z) (pieces : list (list Z)) | EachFuel.
Fixpoint each_field (fuel : nat) (d index fend : Z) (s : list Z) : eachres :=
  if index <? fend then
    match fuel with
    | O => EachFuel
    | S f => match find_delim d s with
             | (fld, None) => EachEnd [fld]
             | (fld, Some r) =>
               match each_field f d (index + 1) fend r with
               | EachEnd ps => EachEnd (fld :: ps)
               | EachUpTo i s' ps => EachUpTo i s' (fld :: ps)
               | EachFuel => EachFuel
               end
             end
    end
  else EachUpTo index s [].

Fixpoint individual_fields_loop (fuel : nat) (d : Z) (ranges : list range) (index : Z) (s : list Z) : ires :=
  match ranges with
  | [] => IOk []
  | (fb, fe) :: rest =>
    match skip_fields fuel d index fb s with
    | SkipFuel => IFuel
    | SkipReturn => IOk []
    | SkipAt index1 s1 =>
      match each_field fuel d index1 fe s1 with
      | EachFuel => IFuel
      | EachEnd ps => IOk ps
      | EachUpTo index2 s2 ps =>
        match individual_fields_loop fuel d rest index2 s2 with
        | IOk l => IOk (ps ++ l)
        | IFuel => IFuel
        end
      end
    end
  end.
(* with a callback that always returns true *)
Definition individual_fields (line : list Z) (ranges : list range) (d : Z) : ires :=
  individual_fields_loop (S (length line)) d ranges 0 line.

(* --------------------------------------------------------- keys on top *)
Definition key_of (seed : Z) (line : list Z) (ranges : list range) (d : Z) : option Z :=
  match range_fields line ranges d with
  | ROk pieces => Some (hash_fold seed pieces)
  | _ => None
  end.
Definition shard_key (line : list Z) (ranges : list range) (d : Z) : option Z := key_of shard_seed line ranges d.
Definition dedupe_key (line : list Z) (ranges : list range) (d : Z) : option Z :=
  (* dedupe_main.cc: a single range [0, inf) hashes the whole line directly *)
  match ranges with
  | [(0, e)] => if e =? kInfiniteEnd then Some (dedupe_line_key line) else key_of dedupe_field_seed line ranges d
  | _ => key_of dedupe_field_seed line ranges d
  end.
Definition cache_key_of (line : list Z) (ranges : list range) (d : Z) : option Z := key_of cache_seed line ranges d.

(* ------------------------------------------------ specification: cut semantics *)
(* a line with n delimiters has n+1 fields (possibly empty) *)
Fixpoint split_fields (d : Z) (l : list Z) : list (list Z) :=
  match l with
  | [] => [[]]
  | c :: r =>
    if c =? d then [] :: split_fields d r
    else match split_fields d r with
         | f :: fs => (c :: f) :: fs
         | [] => [[c]]                       (* unreachable: split_fields is never empty *)
         end
  end.

Fixpoint join_fields (d : Z) (fs : list (list Z)) : list Z :=
  match fs with
  | [] => []
  | [f] => f
  | f :: rest => f ++ d :: join_fields d rest
  end.

(* the fields with 0-based index in [b, e) of a field list whose first element has
   index off; e = kInfiniteEnd selects everything from b on *)
Definition select_from (fs : list (list Z)) (off : Z) (r : range) : list (list Z) :=
  let rest := skipn (Z.to_nat (fst r - off)) fs in
  if snd r =? kInfiniteEnd then rest else firstn (Z.to_nat (snd r - fst r)) rest.
Definition select_range (fs : list (list Z)) (r : range) : list (list Z) := select_from fs 0 r.
Definition select (fs : list (list Z)) (rs : list range) : list (list (list Z)) :=
  map (select_range fs) rs.

(* what RangeFields must hand to the callback: one piece per range that selects
   at least one existing field: those fields joined by the delimiter *)
Definition spec_pieces (d : Z) (line : list Z) (rs : list range) : list (list Z) :=
  map (join_fields d) (filter (fun sel => match sel with [] => false | _ => true end) (select (split_fields d line) rs)).
(* IndividualFields: every selected existing field by itself *)
Definition spec_individual (d : Z) (line : list Z) (rs : list range) : list (list Z) :=
  concat (select (split_fields d line) rs).

(* the line contains every selected field: finite ranges end inside the line,
   an open range starts inside it *)
Definition contains_all (nfields : Z) (rs : list range) : Prop :=
  Forall (fun r : range => if snd r =? kInfiniteEnd then fst r < nfields else snd r <= nfields) rs.
Definition contains_allb (nfields : Z) (rs : list range) : bool :=
  forallb (fun r : range => if snd r =? kInfiniteEnd then fst r <? nfields else snd r <=? nfields) rs.

(* ranges as DefragmentFields leaves them: non-empty, increasing, with a gap *)
Fixpoint canonical_from (lo : Z) (rs : list range) : Prop :=
  match rs with
  | [] => True
  | (b, e) :: rest => lo <= b /\ b < e /\ e <= kInfiniteEnd /\ canonical_from (e + 1) rest
  end.
Definition canonical (rs : list range) : Prop := canonical_from 0 rs.

(* ------------------------------------------------ specification: the cut LIST grammar
     LIST  ::= range (',' range)*
     range ::= N | N '-' M | N '-' | '-' M | '-'       N, M decimal, 1 <= N <= M < kInfiniteEnd
   and the half-open 0-based range each form denotes *)
Definition dec_value (ds : list Z) : Z := fold_left (fun a c => a * 10 + (c - 48)) ds 0.
Definition is_number (ds : list Z) (n : Z) : Prop :=
  ds <> [] /\ forallb is_digit ds = true /\ dec_value ds = n /\ 1 <= n < kInfiniteEnd.
Inductive range_item : list Z -> range -> Prop :=
| RI_single ds n : is_number ds n -> range_item ds (n - 1, n)
| RI_closed ds1 n ds2 m : is_number ds1 n -> is_number ds2 m -> n <= m -> range_item (ds1 ++ dash :: ds2) (n - 1, m)
| RI_from ds n : is_number ds n -> range_item (ds ++ [dash]) (n - 1, kInfiniteEnd)
| RI_to ds m : is_number ds m -> range_item (dash :: ds) (0, m)
| RI_all : range_item [dash] (0, kInfiniteEnd).
Inductive field_list : list Z -> list range -> Prop :=
| FL_one s r : range_item s r -> field_list s [r]
| FL_cons s r rest rs : range_item s r -> field_list rest rs -> field_list (s ++ comma :: rest) (r :: rs).
