(* The concrete key functions of dedupe -f / shard -f / cache -k, in the form the tool models of
   other properties take as an abstract parameter (C01 Tools/DedupeDefs.v [key : A -> N],
   C06 Shard/ShardDefs.v [keyhash : list Z -> N], C04 cache [keyf]), and the facts those models
   need about them.  The only assumption beyond C10/C14 is the explicit [no_collision] one:
   on the set of lines considered, equal 64-bit keys come from equal key pieces. *)
From Coq Require Import List ZArith NArith Bool Lia.
From PP Require Import Fields.FieldsDefs Fields.FieldsProofs Probing.ProbingDefs Tools.DedupeDefs Tools.DedupeProofs Shard.ShardDefs.
Import ListNotations.

Definition keyN (o : option Z) : N := match o with Some k => Z.to_N k | None => 0%N end.

(* the key of a line as the tools compute it (accepted list [rs], delimiter [d]) *)
Definition dedupe_keyN (rs : list range) (d : Z) (line : list Z) : N := keyN (dedupe_key line rs d).
Definition shard_keyN (rs : list range) (d : Z) (line : list Z) : N := keyN (shard_key line rs d).
Definition cache_keyN (rs : list range) (d : Z) (line : list Z) : N := keyN (cache_key_of line rs d).

(* what cut -f selects from a line *)
Definition selection (rs : list range) (d : Z) (line : list Z) : list (list (list Z)) :=
  select (split_fields d line) rs.

(* the explicit no-collision assumption for a key function [kf] on a set of lines *)
Definition no_collision (kf : list Z -> N) (rs : list range) (d : Z) (S : list (list Z)) : Prop :=
  forall l1 l2, In l1 S -> In l2 S -> kf l1 = kf l2 -> spec_pieces d l1 rs = spec_pieces d l2 rs.

Lemma same_selection_same_pieces rs d l1 l2 :
  selection rs d l1 = selection rs d l2 -> spec_pieces d l1 rs = spec_pieces d l2 rs.
Proof. unfold selection, spec_pieces. intros ->. reflexivity. Qed.

(* equal selected fields give equal keys in all three tools -- no assumption *)
Theorem same_selection_same_keyN rs d l1 l2 : canonical rs ->
  selection rs d l1 = selection rs d l2 ->
  dedupe_keyN rs d l1 = dedupe_keyN rs d l2 /\ shard_keyN rs d l1 = shard_keyN rs d l2 /\ cache_keyN rs d l1 = cache_keyN rs d l2.
Proof.
  intros C S. pose proof (same_selection_same_pieces rs d l1 l2 S) as P.
  assert (forall seed, key_of seed l1 rs d = key_of seed l2 rs d) as K.
  { intros seed. rewrite !key_of_spec_proof by exact C. rewrite P. reflexivity. }
  unfold dedupe_keyN, shard_keyN, cache_keyN, shard_key, cache_key_of. rewrite !K. repeat split.
  unfold dedupe_key. destruct rs as [|[b e] [|r2 rest]]; try (rewrite K; reflexivity); destruct b; try (rewrite K; reflexivity).
  destruct (Z.eqb e kInfiniteEnd) eqn:E; [|rewrite K; reflexivity].
  apply Z.eqb_eq in E. subst e.
  pose proof (proj1 (dedupe_shortcut_consistent_proof l1 d)) as S1. pose proof (proj1 (dedupe_shortcut_consistent_proof l2 d)) as S2.
  unfold dedupe_key in S1, S2. rewrite Z.eqb_refl in S1, S2. rewrite S1, S2, K. reflexivity.
Qed.

(* with the no-collision assumption, and for lines containing all selected fields, the converse *)
Theorem keyN_eq_iff_selection kf rs d S l1 l2 : canonical rs ->
  (kf = dedupe_keyN rs d \/ kf = shard_keyN rs d \/ kf = cache_keyN rs d) ->
  no_collision kf rs d S -> In l1 S -> In l2 S ->
  contains_all (Z.of_nat (length (split_fields d l1))) rs ->
  contains_all (Z.of_nat (length (split_fields d l2))) rs ->
  (kf l1 = kf l2 <-> selection rs d l1 = selection rs d l2).
Proof.
  intros C KF NC I1 I2 A1 A2. split.
  - intros E. pose proof (NC l1 l2 I1 I2 E) as P.
    apply (proj1 (key_iff_selected_proof d l1 l2 rs C A1 A2)).
    rewrite !range_fields_spec_proof by exact C. rewrite P. reflexivity.
  - intros S0. destruct (same_selection_same_keyN rs d l1 l2 C S0) as (E1 & E2 & E3).
    destruct KF as [-> | [-> | ->]]; assumption.
Qed.

(* ---- C01: dedupe -f writes a line exactly when no earlier line has the same selected fields *)
Theorem dedupe_seen_iff_selection_seen rs d pre l : canonical rs ->
  no_collision (dedupe_keyN rs d) rs d (l :: pre) ->
  (forall x, In x (l :: pre) -> contains_all (Z.of_nat (length (split_fields d x))) rs) ->
  (mem (dedupe_keyN rs d l) (map (dedupe_keyN rs d) pre) = true <->
   exists l', In l' pre /\ selection rs d l' = selection rs d l).
Proof.
  intros C NC CA. unfold mem. rewrite existsb_exists. split.
  - intros (k & Hin & E). apply N.eqb_eq in E. apply in_map_iff in Hin. destruct Hin as (l' & <- & Hl').
    exists l'. split; [exact Hl'|].
    apply (proj1 (keyN_eq_iff_selection (dedupe_keyN rs d) rs d (l :: pre) l' l C (or_introl eq_refl) NC
                    (or_intror Hl') (or_introl eq_refl) (CA l' (or_intror Hl')) (CA l (or_introl eq_refl)))).
    symmetry. exact E.
  - intros (l' & Hl' & S0). exists (dedupe_keyN rs d l'). split; [apply in_map; exact Hl'|].
    apply N.eqb_eq. destruct (same_selection_same_keyN rs d l' l C S0) as (E1 & _). symmetry. exact E1.
Qed.

(* the C01 model instantiated with the real key function: dedupe -f LIST -d D never fails and writes the line at any
   position exactly when no earlier line has the same selected fields (first_occ_position of Tools/DedupeProofs.v) *)
Theorem dedupe_fields_line_kept_iff_selection_new rs d pre l post : canonical rs ->
  no_collision (dedupe_keyN rs d) rs d (l :: pre) ->
  (forall x, In x (l :: pre) -> contains_all (Z.of_nat (length (split_fields d x))) rs) ->
  exists kept_before kept_after,
    dedupe (list Z) (dedupe_keyN rs d) (pre ++ l :: post) = Ok (kept_before ++ kept_after) /\
    dedupe (list Z) (dedupe_keyN rs d) pre = Ok kept_before /\
    (((exists l', In l' pre /\ selection rs d l' = selection rs d l) /\
      kept_after = first_occ_from (list Z) (dedupe_keyN rs d) (map (dedupe_keyN rs d) (pre ++ [l])) post) \/
     ((~ exists l', In l' pre /\ selection rs d l' = selection rs d l) /\
      kept_after = l :: first_occ_from (list Z) (dedupe_keyN rs d) (map (dedupe_keyN rs d) (pre ++ [l])) post)).
Proof.
  intros C NC CA. pose proof (dedupe_seen_iff_selection_seen rs d pre l C NC CA) as M.
  rewrite !dedupe_first_occ. rewrite first_occ_position.
  destruct (mem (dedupe_keyN rs d l) (map (dedupe_keyN rs d) pre)) eqn:E.
  - eexists _, _. split; [reflexivity|]. split; [reflexivity|]. left. split; [apply M; reflexivity|reflexivity].
  - eexists _, _. split; [reflexivity|]. split; [reflexivity|]. right. split; [|reflexivity].
    intros X. apply M in X. congruence.
Qed.

(* ---- C06: the shard of a line is the seeded fold over its selected pieces modulo n, and lines with the same
        selected fields are co-located (the hypothesis of the C06 dedupe/shard commutation theorem) *)
Theorem shard_index_instance rs d n line : canonical rs ->
  index (shard_keyN rs d) n line = (Z.to_N (hash_fold PP.Gen.Src_murmur.shard_seed (spec_pieces d line rs)) mod n)%N.
Proof.
  intros C. unfold index, shard_keyN, shard_key. rewrite key_of_spec_proof by exact C. reflexivity.
Qed.

Theorem same_selection_same_shard rs d n l1 l2 : canonical rs ->
  selection rs d l1 = selection rs d l2 -> index (shard_keyN rs d) n l1 = index (shard_keyN rs d) n l2.
Proof.
  intros C S. unfold index. destruct (same_selection_same_keyN rs d l1 l2 C S) as (_ & E & _). rewrite E. reflexivity.
Qed.

(* ---- C04: with the default key "-" (whole line) and no collision among the lines considered,
        equal key <-> equal line: the hypothesis of the cache transparency theorem, restricted to those lines *)
Theorem cache_whole_line_key_injective d S l1 l2 :
  no_collision (cache_keyN [(0%Z, kInfiniteEnd)] d) [(0%Z, kInfiniteEnd)] d S -> In l1 S -> In l2 S ->
  (cache_keyN [(0%Z, kInfiniteEnd)] d l1 = cache_keyN [(0%Z, kInfiniteEnd)] d l2 <-> l1 = l2).
Proof.
  intros NC I1 I2. split; [|intros ->; reflexivity]. intros E.
  pose proof (NC l1 l2 I1 I2 E) as P.
  assert (forall l, spec_pieces d l [(0%Z, kInfiniteEnd)] = [l]) as SP.
  { intros l. unfold spec_pieces, select, select_range, select_from. cbn [map fst snd]. rewrite Z.eqb_refl.
    change (Z.to_nat (0 - 0)) with 0%nat. cbn [skipn].
    pose proof (split_fields_nonempty d l) as NE. destruct (split_fields d l) eqn:S0; [contradiction|].
    cbn [filter map]. rewrite <- S0, join_split. reflexivity. }
  rewrite !SP in P. injection P. auto.
Qed.
