(* Proofs about the field-selection model. *)
From PP Require Import Fields.FieldsDefs.
From Coq Require Import ZifyBool.
Local Open Scope Z_scope.
Ltac Zify.zify_post_hook ::= Z.div_mod_to_equations.

Lemma split_fields_nonempty d l : split_fields d l <> [].
Proof.
  induction l as [|c r IH]; simpl; [discriminate|].
  destruct (c =? d); [discriminate|]. destruct (split_fields d r); [contradiction|discriminate].
Qed.

(* cut semantics lose nothing: joining the fields gives the line back *)
Lemma join_split d l : join_fields d (split_fields d l) = l.
Proof.
  induction l as [|c r IH]; [reflexivity|].
  simpl. destruct (c =? d) eqn:E.
  - apply Z.eqb_eq in E. subst c.
    pose proof (split_fields_nonempty d r) as NE.
    destruct (split_fields d r) as [|f fs] eqn:S; [contradiction|].
    simpl. simpl in IH. rewrite IH. reflexivity.
  - pose proof (split_fields_nonempty d r) as NE.
    destruct (split_fields d r) as [|f fs] eqn:S; [contradiction|].
    simpl in *. destruct fs; simpl in *; rewrite <- IH; reflexivity.
Qed.
