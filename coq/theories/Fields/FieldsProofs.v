(* Proofs about the field-selection model: RangeFields = cut semantics
   (split / select / join), keys equal iff selected fields equal, IndividualFields,
   DefragmentFields, ParseFields = the cut grammar. *)
From PP Require Import Fields.FieldsDefs.
From Coq Require Import ZifyBool.
Local Open Scope Z_scope.
Ltac Zify.zify_post_hook ::= Z.div_mod_to_equations.

(* ------------------------------------------------------------ split / join *)
Lemma split_fields_nonempty d l : split_fields d l <> [].
Proof.
  induction l as [|c r IH]; simpl; [discriminate|].
  destruct (c =? d); [discriminate|]. destruct (split_fields d r); [contradiction|discriminate].
Qed.

Lemma join_split d l : join_fields d (split_fields d l) = l.
Proof.
  induction l as [|c r IH]; [reflexivity|].
  simpl. destruct (c =? d) eqn:E.
  - apply Z.eqb_eq in E. subst c.
    pose proof (split_fields_nonempty d r) as NE.
    destruct (split_fields d r) as [|f fs] eqn:S; [contradiction|].
    simpl. simpl in IH. rewrite IH. reflexivity.
  - pose proof (split_fields_nonempty d r) as NE.
    destruct (split_fields d r) as [|f fs] eqn:S; [contradiction|].
    simpl in *. destruct fs; simpl in *; rewrite <- IH; reflexivity.
Qed.

Definition dfree (d : Z) (f : list Z) : Prop := Forall (fun c => c <> d) f.

Lemma split_fields_dfree d l : Forall (dfree d) (split_fields d l).
Proof.
  induction l as [|c r IH]; simpl; [repeat constructor|].
  destruct (c =? d) eqn:E; [constructor; [constructor|exact IH]|].
  apply Z.eqb_neq in E. pose proof (split_fields_nonempty d r) as NE.
  destruct (split_fields d r) as [|f fs]; [contradiction|].
  inversion IH; subst. constructor; [constructor; assumption|assumption].
Qed.

Lemma split_dfree d f : dfree d f -> split_fields d f = [f].
Proof.
  induction f as [|c r IH]; intros H; [reflexivity|]. inversion H; subst.
  simpl. destruct (c =? d) eqn:E; [apply Z.eqb_eq in E; contradiction|]. rewrite IH by assumption. reflexivity.
Qed.

Lemma split_app_delim d f r : dfree d f -> split_fields d (f ++ d :: r) = f :: split_fields d r.
Proof.
  induction f as [|c f IH]; intros H; simpl.
  - rewrite Z.eqb_refl. reflexivity.
  - inversion H; subst. destruct (c =? d) eqn:E; [apply Z.eqb_eq in E; contradiction|].
    rewrite IH by assumption. reflexivity.
Qed.

(* splitting a join of delimiter-free fields gives the fields back *)
Lemma split_join d fs : fs <> [] -> Forall (dfree d) fs -> split_fields d (join_fields d fs) = fs.
Proof.
  induction fs as [|f rest IH]; intros NE HF; [contradiction|].
  inversion HF; subst. destruct rest as [|g rest'].
  - simpl. apply split_dfree. assumption.
  - change (join_fields d (f :: g :: rest')) with (f ++ d :: join_fields d (g :: rest')).
    rewrite split_app_delim by assumption. rewrite IH; [reflexivity|discriminate|assumption].
Qed.

Lemma join_inj d fs gs : fs <> [] -> gs <> [] -> Forall (dfree d) fs -> Forall (dfree d) gs ->
  join_fields d fs = join_fields d gs -> fs = gs.
Proof.
  intros N1 N2 F1 F2 E. rewrite <- (split_join d fs N1 F1), <- (split_join d gs N2 F2), E. reflexivity.
Qed.

(* ------------------------------------------------------------ std::find *)
Lemma find_delim_split d s :
  match find_delim d s with
  | (f, None) => split_fields d s = [f]
  | (f, Some r) => split_fields d s = f :: split_fields d r /\ (length r < length s)%nat
  end.
Proof.
  induction s as [|c r IH]; [reflexivity|].
  simpl. destruct (c =? d) eqn:E.
  - split; [reflexivity|simpl; lia].
  - destruct (find_delim d r) as [f [r'|]].
    + destruct IH as [IH L]. rewrite IH. split; [reflexivity|simpl; lia].
    + rewrite IH. reflexivity.
Qed.

(* ------------------------------------------------------------ the skipping loop *)
Lemma skip_spec d : forall n fuel s index fb, fb - index = Z.of_nat n -> (length s < fuel)%nat ->
  match skip_fields fuel d index fb s with
  | SkipAt i s' => i = fb /\ (n < length (split_fields d s))%nat /\
                   split_fields d s' = skipn n (split_fields d s) /\ (length s' <= length s)%nat
  | SkipReturn => (length (split_fields d s) <= n)%nat
  | SkipFuel => False
  end.
Proof.
  induction n as [|n IH]; intros fuel s index fb E L.
  - destruct fuel as [|f]; [lia|]. cbn [skip_fields].
    destruct (index <? fb) eqn:C; [lia|].
    pose proof (split_fields_nonempty d s) as NE. destruct (split_fields d s) eqn:S; [contradiction|].
    repeat split; [lia|simpl; lia|lia].
  - destruct fuel as [|f]; [lia|]. cbn [skip_fields].
    destruct (index <? fb) eqn:C; [|lia].
    pose proof (find_delim_split d s) as FS. destruct (find_delim d s) as [fld [r|]].
    + destruct FS as [FS Lr]. specialize (IH f r (index + 1) fb ltac:(lia) ltac:(lia)).
      destruct (skip_fields f d (index + 1) fb r) as [i s'| |]; [|rewrite FS; simpl; lia|exact IH].
      destruct IH as (A & B & C' & D). rewrite FS. repeat split; [exact A|simpl; lia|exact C'|lia].
    + rewrite FS. simpl. lia.
Qed.

(* ------------------------------------------------------------ the collecting loop *)
Definition with_delims (d : Z) (fs : list (list Z)) : list Z := flat_map (fun f => f ++ [d]) fs.

Lemma with_delims_join d fs : fs <> [] -> with_delims d fs = join_fields d fs ++ [d].
Proof.
  induction fs as [|f rest IH]; intros NE; [contradiction|].
  destruct rest as [|g rest']; [simpl; rewrite app_nil_r; reflexivity|].
  change (with_delims d (f :: g :: rest')) with ((f ++ [d]) ++ with_delims d (g :: rest')).
  rewrite IH by discriminate.
  change (join_fields d (f :: g :: rest')) with (f ++ d :: join_fields d (g :: rest')).
  rewrite <- !app_assoc. reflexivity.
Qed.

Lemma take_spec d : forall n fuel s index fe acc, fe - index = Z.of_nat n -> (length s < fuel)%nat ->
  (acc = [] \/ exists a', acc = a' ++ [d]) ->
  match take_fields fuel d index fe s acc with
  | TakeEnd p => (length (split_fields d s) <= n)%nat /\ p = acc ++ join_fields d (split_fields d s)
  | TakeUpTo i s' p => i = fe /\ (n < length (split_fields d s))%nat /\
                       split_fields d s' = skipn n (split_fields d s) /\ (length s' <= length s)%nat /\
                       p ++ [d] = acc ++ with_delims d (firstn n (split_fields d s)) /\ (acc ++ with_delims d (firstn n (split_fields d s))) <> []
  | TakeBadLength => n = 0%nat /\ acc = []
  | TakeFuel => False
  end.
Proof.
  induction n as [|n IH]; intros fuel s index fe acc E L HA.
  - destruct fuel as [|f]; [lia|]. cbn [take_fields].
    destruct (index <? fe) eqn:C; [lia|].
    destruct acc as [|a acc']; [split; reflexivity|].
    destruct HA as [HA|[a' HA]]; [discriminate|].
    pose proof (split_fields_nonempty d s) as NE. destruct (split_fields d s) eqn:S; [contradiction|].
    repeat split; [lia|simpl; lia|lia| |].
    + simpl with_delims. rewrite app_nil_r. rewrite HA, removelast_last. reflexivity.
    + simpl. discriminate.
  - destruct fuel as [|f]; [lia|]. cbn [take_fields].
    destruct (index <? fe) eqn:C; [|lia].
    pose proof (find_delim_split d s) as FS. destruct (find_delim d s) as [fld [r|]].
    + destruct FS as [FS Lr].
      specialize (IH f r (index + 1) fe (acc ++ fld ++ [d]) ltac:(lia) ltac:(lia)
                     ltac:(right; exists (acc ++ fld); rewrite <- app_assoc; reflexivity)).
      destruct (take_fields f d (index + 1) fe r (acc ++ fld ++ [d])) as [p|i s' p| |].
      * destruct IH as [A B]. rewrite FS. split; [simpl; lia|]. rewrite B.
        pose proof (split_fields_nonempty d r) as NE. destruct (split_fields d r) as [|g gs] eqn:Sr; [contradiction|].
        change (join_fields d (fld :: g :: gs)) with (fld ++ d :: join_fields d (g :: gs)).
        rewrite <- !app_assoc. reflexivity.
      * destruct IH as (A & B & C' & D & P & Q). rewrite FS. repeat split; [exact A|simpl; lia|exact C'|lia| |].
        -- rewrite P. cbn [firstn with_delims flat_map]. rewrite <- !app_assoc. reflexivity.
        -- cbn [firstn with_delims flat_map]. destruct acc; [destruct fld; discriminate|discriminate].
      * destruct IH as [_ IH]. destruct acc; [destruct fld; discriminate|discriminate].
      * exact IH.
    + rewrite FS. split; [simpl; lia|reflexivity].
Qed.

(* ------------------------------------------------------------ RangeFields = cut semantics *)
Definition nonemptyb {A} (l : list A) : bool := match l with [] => false | _ => true end.
Definition spec_from (d : Z) (fs : list (list Z)) (off : Z) (rs : list range) : list (list Z) :=
  map (join_fields d) (filter nonemptyb (map (select_from fs off) rs)).

Lemma spec_pieces_from d line rs : spec_pieces d line rs = spec_from d (split_fields d line) 0 rs.
Proof. reflexivity. Qed.

Lemma canonical_from_weaken rs : forall lo lo', lo' <= lo -> canonical_from lo rs -> canonical_from lo' rs.
Proof. destruct rs as [|[b e] rest]; intros lo lo' L C; [exact I|]. simpl in *. intuition lia. Qed.

Lemma select_from_empty fs off r : 0 <= fst r - off -> (length fs <= Z.to_nat (fst r - off))%nat -> select_from fs off r = [].
Proof.
  intros P L. unfold select_from. rewrite (skipn_all2 fs L). destruct (snd r =? kInfiniteEnd); [reflexivity|apply firstn_nil].
Qed.

Lemma spec_from_all_empty d fs off : forall rs lo, canonical_from lo rs -> 0 <= lo - off ->
  (length fs <= Z.to_nat (lo - off))%nat -> spec_from d fs off rs = [].
Proof.
  induction rs as [|[b e] rest IH]; intros lo C P L; [reflexivity|].
  simpl in C. destruct C as (C1 & C2 & C3 & C4).
  unfold spec_from. cbn [map]. rewrite select_from_empty by (simpl; lia). cbn [filter nonemptyb].
  apply (IH (e + 1)); [exact C4|lia|lia].
Qed.

Lemma skipn_skipn {A} : forall (x y : nat) (l : list A), skipn x (skipn y l) = skipn (x + y) l.
Proof.
  intros x y. revert x. induction y as [|y IH]; intros x l.
  - rewrite Nat.add_0_r. reflexivity.
  - destruct l as [|a l]; [rewrite !skipn_nil; reflexivity|].
    rewrite Nat.add_succ_r. simpl. apply IH.
Qed.

Lemma select_from_shift fs off k r : 0 <= k -> off + k <= fst r -> 0 <= off ->
  select_from (skipn (Z.to_nat k) fs) (off + k) r = select_from fs off r.
Proof.
  intros K L O. unfold select_from. rewrite skipn_skipn.
  replace (Z.to_nat (fst r - (off + k)) + Z.to_nat k)%nat with (Z.to_nat (fst r - off)) by lia. reflexivity.
Qed.

Lemma spec_from_shift d fs off k : forall rs lo, canonical_from lo rs -> 0 <= k -> off + k <= lo -> 0 <= off ->
  spec_from d (skipn (Z.to_nat k) fs) (off + k) rs = spec_from d fs off rs.
Proof.
  induction rs as [|[b e] rest IH]; intros lo C K L O; [reflexivity|].
  simpl in C. destruct C as (C1 & C2 & C3 & C4).
  unfold spec_from in *. cbn [map]. rewrite select_from_shift by (simpl; lia).
  destruct (nonemptyb (select_from fs off (b, e))) eqn:N; cbn [filter]; rewrite N; cbn [map];
    rewrite (IH (e + 1)) by (assumption || lia); reflexivity.
Qed.

Lemma canonical_after_inf rs : canonical_from (kInfiniteEnd + 1) rs -> rs = [].
Proof. destruct rs as [|[b e] rest]; [reflexivity|]. cbn [canonical_from]. intros (A & B & C & _). lia. Qed.

Lemma loop_spec d : forall rs index s fuel, canonical_from index rs -> 0 <= index -> (length s < fuel)%nat ->
  range_fields_loop fuel d rs index s = ROk (spec_from d (split_fields d s) index rs).
Proof.
  induction rs as [|[fb fe] rest IH]; intros index s fuel C P L; [reflexivity|].
  pose proof C as C0. simpl in C. destruct C as (C1 & C2 & C3 & C4).
  cbn [range_fields_loop].
  pose proof (skip_spec d (Z.to_nat (fb - index)) fuel s index fb ltac:(lia) L) as SK.
  assert (canonical_from fb ((fb, fe) :: rest)) as Cfb by (cbn [canonical_from]; repeat split; (lia || assumption)).
  destruct (skip_fields fuel d index fb s) as [i s1| |]; [|
    rewrite (spec_from_all_empty d _ index _ fb Cfb) by lia; reflexivity | contradiction].
  destruct SK as (-> & SK1 & SK2 & SK3).
  set (fs := split_fields d s) in *. set (n := Z.to_nat (fb - index)) in *.
  assert (skipn n fs <> []) as NE1.
  { intros E. pose proof (f_equal (@length _) E) as E'. rewrite skipn_length in E'. simpl in E'. lia. }
  destruct (fe =? kInfiniteEnd) eqn:INF.
  - (* open range: the rest of the line *)
    apply Z.eqb_eq in INF. subst fe. rewrite (canonical_after_inf rest C4).
    unfold spec_from. cbn [map]. unfold select_from at 1. cbn [fst snd]. rewrite Z.eqb_refl. fold n.
    destruct (skipn n fs) as [|g gs] eqn:S1; [contradiction|]. cbn [filter nonemptyb map].
    rewrite <- SK2, join_split. reflexivity.
  - apply Z.eqb_neq in INF.
    pose proof (take_spec d (Z.to_nat (fe - fb)) fuel s1 fb fe [] ltac:(lia) ltac:(lia) (or_introl eq_refl)) as TK.
    set (m := Z.to_nat (fe - fb)) in *.
    assert (select_from fs index (fb, fe) = firstn m (skipn n fs)) as SEL.
    { unfold select_from. cbn [fst snd]. destruct (fe =? kInfiniteEnd) eqn:X; [lia|]. reflexivity. }
    destruct (take_fields fuel d fb fe s1 []) as [p|i s2 p| |].
    + (* the line ends inside the range *)
      destruct TK as [T1 T2]. rewrite SK2 in T1, T2. cbn [app] in T2.
      unfold spec_from. cbn [map]. rewrite SEL. rewrite firstn_all2 by exact T1.
      destruct (skipn n fs) as [|g gs] eqn:S1; [contradiction|]. cbn [filter nonemptyb map]. rewrite <- T2.
      assert (filter nonemptyb (map (select_from fs index) rest) = []) as RE.
      { assert (spec_from d fs index rest = []) as Z0.
        { apply (spec_from_all_empty d fs index rest (fe + 1) C4); [lia|].
          rewrite <- S1 in T1. rewrite skipn_length in T1. lia. }
        unfold spec_from in Z0. apply map_eq_nil in Z0. exact Z0. }
      rewrite RE. reflexivity.
    + (* the range ends inside the line *)
      destruct TK as (-> & T1 & T2 & T3 & T4 & T5). rewrite SK2 in T1, T2, T4. cbn [app] in T4.
      assert (firstn m (skipn n fs) <> []) as NE2.
      { intros E. pose proof (f_equal (@length _) E) as E'. rewrite firstn_length in E'. simpl in E'. lia. }
      rewrite with_delims_join in T4 by exact NE2. apply app_inj_tail in T4. destruct T4 as [T4 _].
      unfold rcons. rewrite (IH fe s2 fuel (canonical_from_weaken rest (fe + 1) fe ltac:(lia) C4) ltac:(lia) ltac:(lia)).
      f_equal. unfold spec_from at 2. cbn [map]. rewrite SEL.
      destruct (firstn m (skipn n fs)) as [|g gs] eqn:S1; [contradiction|]. cbn [filter nonemptyb map]. rewrite <- T4.
      f_equal. rewrite T2, skipn_skipn.
      replace (m + n)%nat with (Z.to_nat (fe - index)) by lia.
      pose proof (spec_from_shift d fs index (fe - index) rest (fe + 1) C4 ltac:(lia) ltac:(lia) P) as SH.
      replace (index + (fe - index)) with fe in SH by lia. exact SH.
    + destruct TK as [T1 _]. lia.
    + contradiction.
Qed.

Theorem range_fields_spec_proof line rs d : canonical rs ->
  range_fields line rs d = ROk (spec_pieces d line rs).
Proof.
  intros C. unfold range_fields. rewrite spec_pieces_from. apply loop_spec; [exact C|lia|lia].
Qed.

(* ------------------------------------------------------------ keys depend exactly on the selected fields *)
Lemma canonical_from_valid : forall rs lo, 0 <= lo -> canonical_from lo rs -> Forall (fun r : range => 0 <= fst r < snd r) rs.
Proof.
  induction rs as [|[b e] rest IH]; intros lo P C; [constructor|].
  simpl in C. destruct C as (C1 & C2 & C3 & C4). constructor; [simpl; lia|]. apply (IH (e + 1)); [lia|exact C4].
Qed.

Lemma Forall_skipn {A} (P : A -> Prop) n l : Forall P l -> Forall P (skipn n l).
Proof. revert l. induction n as [|n IH]; intros l H; [exact H|]. destruct l; [constructor|]. inversion H; subst. apply IH. assumption. Qed.
Lemma Forall_firstn {A} (P : A -> Prop) n l : Forall P l -> Forall P (firstn n l).
Proof. revert l. induction n as [|n IH]; intros l H; [constructor|]. destruct l; [constructor|]. inversion H; subst. constructor; [assumption|]. apply IH. assumption. Qed.

Lemma select_range_dfree d l r : Forall (dfree d) (select_range (split_fields d l) r).
Proof.
  unfold select_range, select_from. pose proof (split_fields_dfree d l) as F.
  destruct (snd r =? kInfiniteEnd); [apply Forall_skipn; exact F|apply Forall_firstn, Forall_skipn; exact F].
Qed.

Lemma select_range_nonempty fs r : 0 <= fst r < snd r ->
  (if snd r =? kInfiniteEnd then fst r < Z.of_nat (length fs) else snd r <= Z.of_nat (length fs)) ->
  select_range fs r <> [].
Proof.
  intros V C E. pose proof (f_equal (@length _) E) as E'. unfold select_range, select_from in E'.
  rewrite Z.sub_0_r in E'. destruct (snd r =? kInfiniteEnd).
  - rewrite skipn_length in E'. simpl in E'. lia.
  - rewrite firstn_length, skipn_length in E'. simpl in E'. lia.
Qed.

Lemma filter_nonempty_id {A} (ls : list (list A)) : Forall (fun l => l <> []) ls -> filter nonemptyb ls = ls.
Proof.
  induction ls as [|l ls IH]; intros H; [reflexivity|]. inversion H; subst.
  simpl. destruct l; [contradiction|]. simpl. rewrite IH by assumption. reflexivity.
Qed.

Lemma map_join_inj d : forall xs ys,
  Forall (fun l => l <> [] /\ Forall (dfree d) l) xs -> Forall (fun l => l <> [] /\ Forall (dfree d) l) ys ->
  map (join_fields d) xs = map (join_fields d) ys -> xs = ys.
Proof.
  induction xs as [|x xs IH]; intros ys HX HY E; destruct ys as [|y ys]; try discriminate; [reflexivity|].
  inversion HX; subst. inversion HY; subst. simpl in E. injection E as E1 E2.
  f_equal; [|apply IH; assumption].
  destruct H1, H3. apply (join_inj d); assumption.
Qed.

Lemma contains_all_select d l rs : canonical rs -> contains_all (Z.of_nat (length (split_fields d l))) rs ->
  Forall (fun sel => sel <> [] /\ Forall (dfree d) sel) (select (split_fields d l) rs).
Proof.
  intros C CA. pose proof (canonical_from_valid rs 0 ltac:(lia) C) as V.
  unfold select. apply Forall_map. unfold contains_all in CA.
  rewrite Forall_forall in *. intros r Hin. split.
  - apply select_range_nonempty; [apply V; exact Hin|apply CA; exact Hin].
  - apply select_range_dfree.
Qed.

Theorem key_iff_selected_proof d l1 l2 rs : canonical rs ->
  contains_all (Z.of_nat (length (split_fields d l1))) rs ->
  contains_all (Z.of_nat (length (split_fields d l2))) rs ->
  (range_fields l1 rs d = range_fields l2 rs d <->
   select (split_fields d l1) rs = select (split_fields d l2) rs).
Proof.
  intros C A1 A2. rewrite !range_fields_spec_proof by exact C. unfold spec_pieces.
  pose proof (contains_all_select d l1 rs C A1) as F1. pose proof (contains_all_select d l2 rs C A2) as F2.
  change (fun sel : list (list Z) => match sel with [] => false | _ :: _ => true end) with (@nonemptyb (list Z)).
  rewrite !filter_nonempty_id by (eapply Forall_impl; [|eassumption]; cbv beta; tauto).
  split.
  - intros E. injection E as E. apply (map_join_inj d); assumption.
  - intros ->. reflexivity.
Qed.

(* the key every tool derives is the hash fold over exactly those pieces *)
Theorem key_of_spec_proof seed line rs d : canonical rs ->
  key_of seed line rs d = Some (hash_fold seed (spec_pieces d line rs)).
Proof. intros C. unfold key_of. rewrite range_fields_spec_proof by exact C. reflexivity. Qed.

(* ------------------------------------------------------------ DefragmentFields *)
Definition valid_range (r : range) : Prop := 0 <= fst r < snd r /\ snd r <= kInfiniteEnd.
Definition coversb (i : Z) (r : range) : bool := (fst r <=? i) && (i <? snd r).
Definition cnt (i : Z) (l : list range) : nat := length (filter (coversb i) l).
Definition covered (i : Z) (l : list range) : Prop := Exists (fun r => coversb i r = true) l.

Fixpoint sorted_b (l : list range) : Prop :=
  match l with
  | [] => True
  | x :: t => Forall (fun y => fst x <= fst y) t /\ sorted_b t
  end.

Lemma cnt_cons i r l : cnt i (r :: l) = ((if coversb i r then 1 else 0) + cnt i l)%nat.
Proof. unfold cnt. simpl. destruct (coversb i r); reflexivity. Qed.

Lemma insert_cnt i r : forall l, cnt i (insert_range r l) = cnt i (r :: l).
Proof.
  induction l as [|x t IH]; [reflexivity|]. simpl. destruct (fst r <? fst x); [reflexivity|].
  rewrite cnt_cons, IH, !cnt_cons. lia.
Qed.

Lemma insert_in r : forall l x, In x (insert_range r l) <-> x = r \/ In x l.
Proof.
  induction l as [|y t IH]; intros x; simpl; [intuition|].
  destruct (fst r <? fst y); simpl; [intuition|]. rewrite IH. intuition.
Qed.

Lemma insert_sorted r : forall l, sorted_b l -> sorted_b (insert_range r l).
Proof.
  induction l as [|x t IH]; intros S; [simpl; auto|].
  simpl in *. destruct S as [S1 S2]. destruct (fst r <? fst x) eqn:E.
  - simpl. split; [|split; assumption]. constructor; [lia|].
    rewrite Forall_forall in *. intros y Hy. specialize (S1 y Hy). lia.
  - simpl. split; [|apply IH; exact S2].
    rewrite Forall_forall in *. intros y Hy. apply insert_in in Hy. destruct Hy as [->|Hy]; [lia|apply S1; exact Hy].
Qed.

Lemma sort_sorted l : sorted_b (sort_ranges l).
Proof. induction l as [|r l IH]; [exact I|]. simpl. apply insert_sorted. exact IH. Qed.
Lemma sort_cnt i l : cnt i (sort_ranges l) = cnt i l.
Proof. induction l as [|r l IH]; [reflexivity|]. simpl. rewrite insert_cnt, !cnt_cons, IH. reflexivity. Qed.
Lemma sort_in l x : In x (sort_ranges l) <-> In x l.
Proof. induction l as [|r l IH]; [reflexivity|]. simpl. rewrite insert_in, IH. intuition. Qed.

Lemma cnt_zero_before i l lo : Forall (fun y : range => lo <= fst y) l -> i < lo -> cnt i l = 0%nat.
Proof.
  induction l as [|x t IH]; intros F L; [reflexivity|]. inversion F; subst.
  rewrite cnt_cons, IH by assumption. unfold coversb. destruct (fst x <=? i) eqn:E; [lia|reflexivity].
Qed.

Lemma defrag_loop_spec : forall rest prev, valid_range prev -> Forall valid_range rest -> sorted_b (prev :: rest) ->
  match defrag_loop prev rest with
  | Some l' => canonical_from (fst prev) l' /\ (forall i, cnt i l' = cnt i (prev :: rest)) /\ (forall i, (cnt i (prev :: rest) <= 1)%nat)
  | None => exists i, (2 <= cnt i (prev :: rest))%nat
  end.
Proof.
  induction rest as [|r rest IH]; intros prev VP VR S.
  - cbn [defrag_loop]. unfold valid_range in VP. split; [|split].
    + destruct prev as [pb pe]. simpl in *. repeat split; lia.
    + reflexivity.
    + intros i. rewrite cnt_cons. unfold cnt. simpl. destruct (coversb i prev); lia.
  - inversion VR as [|? ? Vr VR']; subst. simpl in S. destruct S as [S1 [S2 S3]]. inversion S1 as [|? ? S1r S1']; subst.
    unfold valid_range in VP, Vr. cbn [defrag_loop].
    destruct (fst r <? snd prev) eqn:OV.
    + exists (fst r). rewrite !cnt_cons. unfold coversb at 1 2.
      replace ((fst prev <=? fst r) && (fst r <? snd prev)) with true by lia.
      replace ((fst r <=? fst r) && (fst r <? snd r)) with true by lia. lia.
    + destruct (snd prev =? fst r) eqn:ADJ.
      * assert (valid_range (fst prev, snd r)) as VM by (unfold valid_range; simpl; lia).
        assert (sorted_b ((fst prev, snd r) :: rest)) as SM by (simpl; split; assumption).
        specialize (IH (fst prev, snd r) VM VR' SM).
        assert (forall i, cnt i ((fst prev, snd r) :: rest) = cnt i (prev :: r :: rest)) as EQ.
        { intros i. rewrite !cnt_cons. unfold coversb. simpl.
          destruct ((fst prev <=? i) && (i <? snd r)) eqn:A; destruct ((fst prev <=? i) && (i <? snd prev)) eqn:B;
            destruct ((fst r <=? i) && (i <? snd r)) eqn:C; lia. }
        destruct (defrag_loop (fst prev, snd r) rest) as [l'|].
        -- destruct IH as (I1 & I2 & I3). simpl in I1. split; [exact I1|]. split; intros i; rewrite <- EQ; auto.
        -- destruct IH as [i Hi]. exists i. rewrite <- EQ. exact Hi.
      * assert (sorted_b (r :: rest)) as SR by (simpl; split; assumption).
        specialize (IH r ltac:(unfold valid_range; lia) VR' SR).
        destruct (defrag_loop r rest) as [l'|].
        -- destruct IH as (I1 & I2 & I3). split; [|split].
           ++ cbn [canonical_from]. destruct prev as [pb pe]. simpl in *. repeat split; try lia.
              apply (canonical_from_weaken l' (fst r)); [lia|exact I1].
           ++ intros i. rewrite !(cnt_cons i prev). rewrite I2. reflexivity.
           ++ intros i. rewrite (cnt_cons i prev). destruct (coversb i prev) eqn:CP; [|apply I3].
              rewrite (cnt_zero_before i (r :: rest) (fst r)); [lia| |unfold coversb in CP; lia].
              constructor; [lia|exact S2].
        -- destruct IH as [i Hi]. exists i. rewrite (cnt_cons i prev). lia.
Qed.

Theorem defragment_spec_proof l : Forall valid_range l ->
  match defragment l with
  | Some l' => canonical l' /\ (forall i, cnt i l' = cnt i l) /\ (forall i, (cnt i l <= 1)%nat)
  | None => exists i, (2 <= cnt i l)%nat
  end.
Proof.
  intros V. unfold defragment.
  pose proof (sort_sorted l) as S.
  assert (Forall valid_range (sort_ranges l)) as VS.
  { rewrite Forall_forall in *. intros x Hx. apply V. apply sort_in. exact Hx. }
  destruct (sort_ranges l) as [|r rest] eqn:E.
  - split; [exact I|]. split; intros i; rewrite <- (sort_cnt i l), E; auto.
  - inversion VS as [|? ? Vr VR]; subst.
    pose proof (defrag_loop_spec rest r Vr VR S) as D.
    destruct (defrag_loop r rest) as [l'|].
    + destruct D as (D1 & D2 & D3). split; [|split].
      * unfold canonical. apply (canonical_from_weaken l' (fst r)); [unfold valid_range in Vr; lia|exact D1].
      * intros i. rewrite D2, <- E. apply sort_cnt.
      * intros i. rewrite <- (sort_cnt i l), E. apply D3.
    + destruct D as [i Hi]. exists i. rewrite <- (sort_cnt i l), E. exact Hi.
Qed.

(* ------------------------------------------------------------ ParseFields = the cut grammar *)
Definition starts_nondigit (s : list Z) : Prop := match s with [] => True | c :: _ => is_digit c = false end.
Definition dstep (a c : Z) : Z := a * 10 + (c - 48).

Lemma digits_value_app : forall ds acc rest, forallb is_digit ds = true -> starts_nondigit rest ->
  digits_value acc (ds ++ rest) = (fold_left dstep ds acc, rest).
Proof.
  induction ds as [|c ds IH]; intros acc rest D N.
  - simpl. destruct rest as [|c r]; [reflexivity|]. simpl in N. simpl. rewrite N. reflexivity.
  - simpl in D. apply andb_true_iff in D. destruct D as [Dc Dd]. simpl. rewrite Dc. apply IH; assumption.
Qed.

Lemma digits_value_inv : forall s acc v rest, digits_value acc s = (v, rest) ->
  exists ds, s = ds ++ rest /\ forallb is_digit ds = true /\ starts_nondigit rest /\ v = fold_left dstep ds acc.
Proof.
  induction s as [|c s IH]; intros acc v rest E.
  - simpl in E. injection E as <- <-. exists []. simpl. auto.
  - simpl in E. destruct (is_digit c) eqn:Dc.
    + destruct (IH _ _ _ E) as (ds & E1 & E2 & E3 & E4). exists (c :: ds). simpl. rewrite Dc, E2. subst. auto.
    + injection E as <- <-. exists []. simpl. auto.
Qed.

Lemma fold_dstep_nonneg ds : forallb is_digit ds = true -> forall acc, 0 <= acc -> acc <= fold_left dstep ds acc.
Proof.
  induction ds as [|c ds IH]; intros D acc P; [simpl; lia|].
  simpl in D. apply andb_true_iff in D. destruct D as [Dc Dd]. simpl.
  unfold is_digit in Dc. specialize (IH Dd (dstep acc c)). unfold dstep in *. lia.
Qed.

Lemma consume_int_complete ds n rest : is_number ds n -> starts_nondigit rest ->
  consume_int (ds ++ rest) = POk (n, rest).
Proof.
  intros (NE & D & V & R) N. destruct ds as [|c ds']; [contradiction|].
  unfold consume_int. cbn [app]. pose proof D as D0. simpl in D. apply andb_true_iff in D. destruct D as [Dc Dd]. rewrite Dc.
  change (c :: ds' ++ rest) with ((c :: ds') ++ rest). rewrite (digits_value_app (c :: ds') 0 rest D0 N).
  fold (dec_value (c :: ds')) in *. unfold dec_value in V. change (fun a c0 : Z => a * 10 + (c0 - 48)) with dstep in V. rewrite V.
  unfold ulong_max, kInfiniteEnd in *. rewrite Z.min_l by lia.
  destruct ((n =? 0) || (4294967295 <=? n)) eqn:X; [lia|reflexivity].
Qed.

Lemma consume_int_sound s v rest : consume_int s = POk (v, rest) ->
  exists ds, s = ds ++ rest /\ is_number ds v /\ starts_nondigit rest.
Proof.
  unfold consume_int. destruct s as [|c s']; [discriminate|]. destruct (is_digit c) eqn:Dc; [|discriminate].
  destruct (digits_value 0 (c :: s')) as [v0 rest0] eqn:DV.
  destruct ((Z.min v0 ulong_max =? 0) || (kInfiniteEnd <=? Z.min v0 ulong_max)) eqn:X; [discriminate|].
  intros E. injection E as <- <-.
  destruct (digits_value_inv _ _ _ _ DV) as (ds & E1 & E2 & E3 & E4).
  exists ds. split; [exact E1|]. split; [|exact E3].
  unfold ulong_max, kInfiniteEnd in *.
  assert (ds <> []) as NE.
  { intros ->. simpl in E1. subst rest0. simpl in E3. congruence. }
  unfold is_number. split; [exact NE|]. split; [exact E2|]. unfold dec_value.
  change (fun a c0 : Z => a * 10 + (c0 - 48)) with dstep. rewrite <- E4.
  pose proof (fold_dstep_nonneg ds E2 0 ltac:(lia)) as P0. rewrite <- E4 in P0. unfold kInfiniteEnd. lia.
Qed.

Definition nonul (s : list Z) : Prop := Forall (fun c => c <> 0) s.
Lemma head0_zero_iff s : nonul s -> (head0 s =? 0) = true <-> s = [].
Proof.
  intros N. destruct s as [|c r]; [simpl; tauto|]. inversion N; subst. simpl. split; [lia|discriminate].
Qed.
Lemma nonul_app_r a b : nonul (a ++ b) -> nonul b.
Proof. unfold nonul. intros H. apply Forall_app in H. tauto. Qed.
Lemma nonul_tl s : nonul s -> nonul (tl s).
Proof. destruct s; [auto|]. intros H. inversion H; assumption. Qed.

Lemma is_number_head ds n : is_number ds n -> exists c r, ds = c :: r /\ is_digit c = true.
Proof.
  intros (NE & D & _). destruct ds as [|c r]; [contradiction|]. simpl in D. apply andb_true_iff in D. exists c, r. tauto.
Qed.

Definition item_end (rest : list Z) : Prop := rest = [] \/ exists rest', rest = comma :: rest' /\ rest' <> [] /\ head0 rest' <> 0.
Definition after_item (rest : list Z) : list Z := match rest with [] => [] | _ :: r => r end.

Lemma item_end_nondigit rest : item_end rest -> starts_nondigit rest.
Proof. intros [->|(r & -> & _)]; [exact I|reflexivity]. Qed.

(* one range followed by the end of the string or by ",<more>" is consumed as exactly that range *)
Lemma parse_one_complete item r rest : range_item item r -> item_end rest ->
  parse_one (item ++ rest) = POk (r, after_item rest).
Proof.
  intros RI IE. pose proof (item_end_nondigit rest IE) as ND.
  assert (forall b e, (if negb (head0 rest =? 0) && negb (head0 rest =? comma)
                       then @PErr (range * list Z) PBadSeparator
                       else if head0 rest =? comma
                            then (if head0 (tl rest) =? 0 then PErr PTrailingComma else POk (b, e, tl rest))
                            else POk (b, e, rest)) = POk ((b, e), after_item rest)) as TAIL.
  { intros b e. destruct IE as [->|(r' & -> & NE & H0)]; [reflexivity|]. simpl.
    destruct (head0 r' =? 0) eqn:X; [lia|reflexivity]. }
  assert (((head0 rest =? comma) || (head0 rest =? 0)) = true) as HR.
  { destruct IE as [->|(r' & -> & _)]; reflexivity. }
  destruct RI as [ds n N|ds1 n ds2 m N1 N2 LE|ds n N|ds m N|]; unfold parse_one.
  - destruct (is_number_head ds n N) as (c & r0 & -> & Dc).
    assert ((head0 ((c :: r0) ++ rest) =? dash) = false) as ND0 by (simpl; unfold is_digit, dash in *; lia).
    rewrite ND0. rewrite (consume_int_complete _ n rest N ND). rewrite HR. replace (n - 1 + 1) with n by lia. apply TAIL.
  - destruct (is_number_head ds1 n N1) as (c & r0 & -> & Dc).
    assert ((head0 ((c :: r0) ++ dash :: ds2 ++ rest) =? dash) = false) as ND0 by (simpl; unfold is_digit, dash in *; lia).
    rewrite <- app_assoc. cbn [app]. change (c :: r0 ++ dash :: ds2 ++ rest) with ((c :: r0) ++ dash :: ds2 ++ rest).
    rewrite ND0. rewrite (consume_int_complete (c :: r0) n (dash :: ds2 ++ rest) N1 eq_refl).
    cbn [head0 tl]. change ((dash =? comma) || (dash =? 0)) with false. cbv iota. rewrite Z.eqb_refl.
    destruct (is_number_head ds2 m N2) as (c2 & r2 & -> & Dc2).
    assert (((head0 ((c2 :: r2) ++ rest) =? 0) || (head0 ((c2 :: r2) ++ rest) =? comma)) = false) as X
      by (simpl; unfold is_digit, comma in *; lia).
    rewrite X. rewrite (consume_int_complete _ m rest N2 ND).
    destruct (m <=? n - 1) eqn:Y; [lia|]. apply TAIL.
  - destruct (is_number_head ds n N) as (c & r0 & -> & Dc).
    assert ((head0 ((c :: r0) ++ [dash] ++ rest) =? dash) = false) as ND0 by (simpl; unfold is_digit, dash in *; lia).
    rewrite <- app_assoc. rewrite ND0. rewrite (consume_int_complete (c :: r0) n ([dash] ++ rest) N eq_refl).
    cbn [head0 tl app]. change ((dash =? comma) || (dash =? 0)) with false. cbv iota. rewrite Z.eqb_refl.
    rewrite orb_comm in HR. rewrite HR. apply TAIL.
  - cbn [app head0]. rewrite Z.eqb_refl. cbn [head0]. change ((dash =? comma) || (dash =? 0)) with false. cbv iota.
    rewrite Z.eqb_refl. cbn [tl].
    destruct (is_number_head ds m N) as (c2 & r2 & -> & Dc2).
    assert (((head0 ((c2 :: r2) ++ rest) =? 0) || (head0 ((c2 :: r2) ++ rest) =? comma)) = false) as X
      by (simpl; unfold is_digit, comma in *; lia).
    rewrite X. rewrite (consume_int_complete _ m rest N ND).
    destruct N as (_ & _ & _ & R). destruct (m <=? 0) eqn:Y; [lia|]. apply TAIL.
  - cbn [app head0]. rewrite Z.eqb_refl. cbn [head0]. change ((dash =? comma) || (dash =? 0)) with false. cbv iota.
    rewrite Z.eqb_refl. cbn [tl]. rewrite orb_comm in HR. rewrite HR. apply TAIL.
Qed.

Lemma is_number_nonul ds n : is_number ds n -> nonul ds.
Proof.
  intros (_ & D & _). unfold nonul. rewrite forallb_forall in D. rewrite Forall_forall. intros c Hc.
  specialize (D c Hc). unfold is_digit in D. lia.
Qed.

Lemma range_item_shape item r : range_item item r -> item <> [] /\ nonul item.
Proof.
  intros RI. destruct RI as [ds n N|ds1 n ds2 m N1 N2 LE|ds n N|ds m N|].
  - destruct (is_number_head ds n N) as (c & r0 & -> & _). split; [discriminate|apply (is_number_nonul _ _ N)].
  - destruct (is_number_head ds1 n N1) as (c & r0 & -> & _). split; [discriminate|].
    apply Forall_app. split; [apply (is_number_nonul _ _ N1)|constructor; [discriminate|apply (is_number_nonul _ _ N2)]].
  - destruct (is_number_head ds n N) as (c & r0 & -> & _). split; [discriminate|].
    apply Forall_app. split; [apply (is_number_nonul _ _ N)|constructor; [discriminate|constructor]].
  - split; [discriminate|constructor; [discriminate|apply (is_number_nonul _ _ N)]].
  - split; [discriminate|constructor; [discriminate|constructor]].
Qed.

Lemma field_list_shape s rs : field_list s rs -> s <> [] /\ nonul s.
Proof.
  induction 1 as [s r RI|s r rest rs RI FL IH].
  - apply (range_item_shape s r RI).
  - destruct (range_item_shape s r RI) as [NE NN]. destruct IH as [NE' NN']. split.
    + destruct s; [contradiction|discriminate].
    + apply Forall_app. split; [exact NN|constructor; [discriminate|exact NN']].
Qed.

Lemma nonul_head0 s : s <> [] -> nonul s -> head0 s <> 0.
Proof. destruct s as [|c r]; [contradiction|]. intros _ N. inversion N; subst. simpl. assumption. Qed.

Lemma parse_loop_complete : forall s rs, field_list s rs -> forall fuel, (length s <= fuel)%nat -> parse_loop fuel s = POk rs.
Proof.
  induction 1 as [s r RI|s r rest rs RI FL IH]; intros fuel L.
  - destruct (range_item_shape s r RI) as [NE NN]. pose proof (nonul_head0 s NE NN) as H0.
    destruct fuel as [|f]; [destruct s; [contradiction|simpl in L; lia]|].
    cbn [parse_loop]. destruct (head0 s =? 0) eqn:X; [lia|].
    pose proof (parse_one_complete s r [] RI (or_introl eq_refl)) as P1. rewrite app_nil_r in P1. rewrite P1.
    cbn [after_item]. destruct f; reflexivity.
  - destruct (range_item_shape s r RI) as [NE NN]. destruct (field_list_shape rest rs FL) as [NE' NN'].
    assert (head0 (s ++ comma :: rest) <> 0) as H0.
    { apply nonul_head0; [destruct s; [contradiction|discriminate]|].
      apply Forall_app. split; [exact NN|constructor; [discriminate|exact NN']]. }
    rewrite app_length in L. cbn [length] in L.
    destruct fuel as [|f]; [lia|].
    cbn [parse_loop]. destruct (head0 (s ++ comma :: rest) =? 0) eqn:X; [lia|].
    assert (item_end (comma :: rest)) as IE.
    { right. exists rest. split; [reflexivity|]. split; [exact NE'|apply nonul_head0; assumption]. }
    rewrite (parse_one_complete s r (comma :: rest) RI IE). cbn [after_item].
    rewrite (IH f ltac:(lia)). reflexivity.
Qed.

Lemma tail_check_sound s2 (b e : Z) r s' : nonul s2 ->
  (if negb (head0 s2 =? 0) && negb (head0 s2 =? comma) then @PErr (range * list Z) PBadSeparator
   else if head0 s2 =? comma then (if head0 (tl s2) =? 0 then PErr PTrailingComma else POk (b, e, tl s2))
        else POk (b, e, s2)) = POk (r, s') ->
  r = (b, e) /\ ((s2 = [] /\ s' = []) \/ (s2 = comma :: s' /\ s' <> [])).
Proof.
  intros N. destruct s2 as [|c t].
  - simpl. intros E. injection E as <- <-. auto.
  - inversion N as [|? ? Hc Nt]; subst. cbn [head0 tl].
    destruct (c =? 0) eqn:C0; [lia|]. destruct (c =? comma) eqn:CC; cbn [negb andb]; [|discriminate].
    apply Z.eqb_eq in CC. subst c.
    destruct (head0 t =? 0) eqn:T0; [discriminate|]. intros E. injection E as <- <-.
    split; [reflexivity|]. right. split; [reflexivity|]. intros ->. simpl in T0. discriminate.
Qed.

Lemma head0_dash s : (head0 s =? dash) = true -> exists t, s = dash :: t.
Proof. destruct s as [|c t]; [discriminate|]. simpl. intros E. apply Z.eqb_eq in E. subst. eauto. Qed.

Lemma parse_one_sound s r s' : nonul s -> parse_one s = POk (r, s') ->
  exists item, range_item item r /\ ((s = item /\ s' = []) \/ (s = item ++ comma :: s' /\ s' <> [])).
Proof.
  intros N. unfold parse_one.
  (* what the dash part of the switch does, given the begin value b and the string after the dash *)
  assert (forall (b : Z) (pre t : list Z) (mk1 : range_item (pre ++ [dash]) (b, kInfiniteEnd))
                 (mk2 : forall ds m, is_number ds m -> b < m -> range_item (pre ++ dash :: ds) (b, m)),
             nonul t ->
             match (if (head0 t =? 0) || (head0 t =? comma) then POk (kInfiniteEnd, t)
                    else match consume_int t with
                         | POk (e, s3) => if e <=? b then PErr PEmptyRange else POk (e, s3)
                         | PErr er => PErr er
                         end) with
             | PErr e => PErr e
             | POk (e, s2) =>
               if negb (head0 s2 =? 0) && negb (head0 s2 =? comma) then PErr PBadSeparator
               else if head0 s2 =? comma then (if head0 (tl s2) =? 0 then PErr PTrailingComma else POk (b, e, tl s2))
                    else POk (b, e, s2)
             end = POk (r, s') ->
             exists item, range_item item r /\
                          ((pre ++ dash :: t = item /\ s' = []) \/ (pre ++ dash :: t = item ++ comma :: s' /\ s' <> []))) as DASH.
  { intros b pre t mk1 mk2 Nt.
    destruct ((head0 t =? 0) || (head0 t =? comma)) eqn:X.
    - intros E. destruct (tail_check_sound t b kInfiniteEnd r s' Nt E) as [-> [[-> ->]|[-> NE]]].
      + exists (pre ++ [dash]). split; [exact mk1|]. left. auto.
      + exists (pre ++ [dash]). split; [exact mk1|]. right. rewrite <- app_assoc. auto.
    - destruct (consume_int t) as [[e s3]|er] eqn:CI; [|discriminate].
      destruct (e <=? b) eqn:LE; [discriminate|].
      destruct (consume_int_sound t e s3 CI) as (ds & -> & Nn & _).
      intros E. destruct (tail_check_sound s3 b e r s' (nonul_app_r _ _ Nt) E) as [-> [[-> ->]|[-> NE]]].
      + exists (pre ++ dash :: ds). split; [apply mk2; [exact Nn|lia]|]. left. rewrite app_nil_r. auto.
      + exists (pre ++ dash :: ds). split; [apply mk2; [exact Nn|lia]|]. right.
        rewrite <- app_assoc. cbn [app]. auto. }
  destruct (head0 s =? dash) eqn:HD.
  - destruct (head0_dash s HD) as [t ->]. cbn [head0 tl].
    change ((dash =? comma) || (dash =? 0)) with false. cbv iota. rewrite Z.eqb_refl.
    intros E. apply (DASH 0 [] t); [apply RI_all| |inversion N; assumption|exact E].
    intros ds m Nm Lm. apply RI_to. exact Nm.
  - destruct (consume_int s) as [[v r1]|er] eqn:CI; [|discriminate].
    destruct (consume_int_sound s v r1 CI) as (ds & -> & Nv & ND).
    pose proof (nonul_app_r _ _ N) as N1.
    destruct ((head0 r1 =? comma) || (head0 r1 =? 0)) eqn:X.
    + intros E. destruct (tail_check_sound r1 (v - 1) (v - 1 + 1) r s' N1 E) as [-> [[-> ->]|[-> NE]]];
        replace (v - 1 + 1) with v by lia; exists ds; (split; [apply RI_single; exact Nv|]).
      * left. rewrite app_nil_r. auto.
      * right. auto.
    + destruct (head0 r1 =? dash) eqn:HD1; [|discriminate].
      destruct (head0_dash r1 HD1) as [t ->]. cbn [tl].
      intros E. apply (DASH (v - 1) ds t); [apply RI_from; exact Nv| |inversion N1; assumption|exact E].
      intros ds2 m Nm Lm. apply RI_closed; [exact Nv|exact Nm|lia].
Qed.

Lemma parse_loop_sound : forall fuel s rs, nonul s -> s <> [] -> parse_loop fuel s = POk rs -> field_list s rs.
Proof.
  induction fuel as [|f IH]; intros s rs N NE E.
  - simpl in E. pose proof (nonul_head0 s NE N). destruct (head0 s =? 0) eqn:X; [lia|discriminate].
  - cbn [parse_loop] in E. pose proof (nonul_head0 s NE N). destruct (head0 s =? 0) eqn:X; [lia|].
    destruct (parse_one s) as [[r s']|er] eqn:P1; [|discriminate].
    destruct (parse_loop f s') as [rs'|er] eqn:PL; [|discriminate]. injection E as <-.
    destruct (parse_one_sound s r s' N P1) as (item & RI & [[-> ->]|[-> NE']]).
    + destruct f; simpl in PL; injection PL as <-; apply FL_one; exact RI.
    + apply FL_cons; [exact RI|]. apply (IH s' rs'); [|exact NE'|exact PL].
      apply nonul_app_r in N. inversion N; assumption.
Qed.

Theorem parse_iff_grammar_proof s rs : nonul s -> (parse_fields s = POk rs <-> field_list s rs).
Proof.
  intros N. unfold parse_fields. split.
  - destruct (head0 s =? 0) eqn:X; [discriminate|]. intros E.
    apply (parse_loop_sound (length s) s rs N); [intros ->; discriminate|exact E].
  - intros FL. destruct (field_list_shape s rs FL) as [NE NN]. pose proof (nonul_head0 s NE NN).
    destruct (head0 s =? 0) eqn:X; [lia|]. apply parse_loop_complete; [exact FL|lia].
Qed.

(* every range the grammar denotes is well-formed, so DefragmentFields' result is canonical *)
Lemma range_item_valid item r : range_item item r -> valid_range r.
Proof.
  intros RI. destruct RI as [ds n (_ & _ & _ & R)|ds1 n ds2 m (_ & _ & _ & R1) (_ & _ & _ & R2) LE|ds n (_ & _ & _ & R)|ds m (_ & _ & _ & R)|];
    unfold valid_range, kInfiniteEnd in *; simpl; lia.
Qed.
Lemma field_list_valid s rs : field_list s rs -> Forall valid_range rs.
Proof. induction 1; constructor; eauto using range_item_valid. Qed.

Theorem parse_key_spec_proof s rs : nonul s -> parse_key_spec s = Some rs ->
  exists rs0, field_list s rs0 /\ defragment rs0 = Some rs /\ canonical rs /\
              (forall i, cnt i rs = cnt i rs0) /\ (forall i, (cnt i rs0 <= 1)%nat).
Proof.
  intros N. unfold parse_key_spec. destruct (parse_fields s) as [rs0|e] eqn:P; [|discriminate].
  apply (parse_iff_grammar_proof s rs0 N) in P. intros D. exists rs0. split; [exact P|]. split; [exact D|].
  pose proof (defragment_spec_proof rs0 (field_list_valid s rs0 P)) as DS. rewrite D in DS. exact DS.
Qed.

Theorem list_rejected_iff_proof s : nonul s ->
  (parse_key_spec s = None <->
   (~ exists rs, field_list s rs) \/ (exists rs i, field_list s rs /\ (2 <= cnt i rs)%nat)).
Proof.
  intros N. unfold parse_key_spec. split.
  - destruct (parse_fields s) as [rs0|e] eqn:P.
    + apply (parse_iff_grammar_proof s rs0 N) in P. intros D. right.
      pose proof (defragment_spec_proof rs0 (field_list_valid s rs0 P)) as DS. rewrite D in DS.
      destruct DS as [i Hi]. exists rs0, i. auto.
    + intros _. left. intros [rs FL]. apply (parse_iff_grammar_proof s rs N) in FL. congruence.
  - intros [NO|(rs & i & FL & C)].
    + destruct (parse_fields s) as [rs0|e] eqn:P; [|reflexivity].
      exfalso. apply NO. exists rs0. apply (parse_iff_grammar_proof s rs0 N). exact P.
    + pose proof FL as FL0. apply (parse_iff_grammar_proof s rs N) in FL. rewrite FL.
      pose proof (defragment_spec_proof rs (field_list_valid s rs FL0)) as DS.
      destruct (defragment rs) as [l'|]; [|reflexivity].
      destruct DS as (_ & _ & D3). specialize (D3 i). lia.
Qed.

(* ------------------------------------------------------------ IndividualFields *)
Lemma each_spec d : forall n fuel s index fe, fe - index = Z.of_nat n -> (length s < fuel)%nat ->
  match each_field fuel d index fe s with
  | EachEnd ps => (length (split_fields d s) <= n)%nat /\ ps = split_fields d s
  | EachUpTo i s' ps => i = fe /\ (n < length (split_fields d s))%nat /\
                        split_fields d s' = skipn n (split_fields d s) /\ (length s' <= length s)%nat /\
                        ps = firstn n (split_fields d s)
  | EachFuel => False
  end.
Proof.
  induction n as [|n IH]; intros fuel s index fe E L.
  - destruct fuel as [|f]; [lia|]. cbn [each_field]. destruct (index <? fe) eqn:C; [lia|].
    pose proof (split_fields_nonempty d s) as NE. destruct (split_fields d s) eqn:S; [contradiction|].
    repeat split; [lia|simpl; lia|lia].
  - destruct fuel as [|f]; [lia|]. cbn [each_field]. destruct (index <? fe) eqn:C; [|lia].
    pose proof (find_delim_split d s) as FS. destruct (find_delim d s) as [fld [r|]].
    + destruct FS as [FS Lr]. specialize (IH f r (index + 1) fe ltac:(lia) ltac:(lia)).
      destruct (each_field f d (index + 1) fe r) as [ps|i s' ps|].
      * destruct IH as [A B]. rewrite FS. split; [simpl; lia|]. rewrite B. reflexivity.
      * destruct IH as (A & B & C' & D & P). rewrite FS. repeat split; [exact A|simpl; lia|exact C'|lia|].
        rewrite P. reflexivity.
      * exact IH.
    + rewrite FS. split; [simpl; lia|reflexivity].
Qed.

Definition indiv_from (fs : list (list Z)) (off : Z) (rs : list range) : list (list Z) :=
  concat (map (select_from fs off) rs).

Lemma indiv_from_all_empty fs off : forall rs lo, canonical_from lo rs -> 0 <= lo - off ->
  (length fs <= Z.to_nat (lo - off))%nat -> indiv_from fs off rs = [].
Proof.
  induction rs as [|[b e] rest IH]; intros lo C P L; [reflexivity|].
  simpl in C. destruct C as (C1 & C2 & C3 & C4).
  unfold indiv_from. cbn [map concat]. rewrite select_from_empty by (simpl; lia). cbn [app].
  apply (IH (e + 1)); [exact C4|lia|lia].
Qed.

Lemma indiv_from_shift fs off k : forall rs lo, canonical_from lo rs -> 0 <= k -> off + k <= lo -> 0 <= off ->
  indiv_from (skipn (Z.to_nat k) fs) (off + k) rs = indiv_from fs off rs.
Proof.
  induction rs as [|[b e] rest IH]; intros lo C K L O; [reflexivity|].
  simpl in C. destruct C as (C1 & C2 & C3 & C4).
  unfold indiv_from in *. cbn [map concat]. rewrite select_from_shift by (simpl; lia).
  rewrite (IH (e + 1)) by (assumption || lia). reflexivity.
Qed.

Lemma indiv_loop_spec d : forall rs index s fuel, canonical_from index rs -> 0 <= index -> (length s < fuel)%nat ->
  Z.of_nat (length (split_fields d s)) + index <= kInfiniteEnd ->
  individual_fields_loop fuel d rs index s = IOk (indiv_from (split_fields d s) index rs).
Proof.
  induction rs as [|[fb fe] rest IH]; intros index s fuel C P L SMALL; [reflexivity|].
  pose proof C as C0. simpl in C. destruct C as (C1 & C2 & C3 & C4).
  cbn [individual_fields_loop].
  pose proof (skip_spec d (Z.to_nat (fb - index)) fuel s index fb ltac:(lia) L) as SK.
  assert (canonical_from fb ((fb, fe) :: rest)) as Cfb by (cbn [canonical_from]; repeat split; (lia || assumption)).
  destruct (skip_fields fuel d index fb s) as [i s1| |]; [|
    rewrite (indiv_from_all_empty _ index _ fb Cfb) by lia; reflexivity | contradiction].
  destruct SK as (-> & SK1 & SK2 & SK3).
  set (fs := split_fields d s) in *. set (n := Z.to_nat (fb - index)) in *.
  pose proof (each_spec d (Z.to_nat (fe - fb)) fuel s1 fb fe ltac:(lia) ltac:(lia)) as EK.
  set (m := Z.to_nat (fe - fb)) in *.
  assert (select_from fs index (fb, fe) = firstn m (skipn n fs)) as SEL.
  { unfold select_from. cbn [fst snd]. fold n. destruct (fe =? kInfiniteEnd) eqn:X; [|reflexivity].
    apply Z.eqb_eq in X. rewrite firstn_all2; [reflexivity|]. rewrite skipn_length. lia. }
  destruct (each_field fuel d fb fe s1) as [ps|i s2 ps|].
  - destruct EK as [E1 E2]. rewrite SK2 in E1, E2.
    unfold indiv_from. cbn [map concat]. rewrite SEL, firstn_all2 by exact E1. rewrite <- E2.
    assert (indiv_from fs index rest = []) as Z0.
    { apply (indiv_from_all_empty fs index rest (fe + 1) C4); [lia|]. rewrite skipn_length in E1. lia. }
    unfold indiv_from in Z0. rewrite Z0, app_nil_r. reflexivity.
  - destruct EK as (-> & E1 & E2 & E3 & E4). rewrite SK2 in E1, E2, E4.
    assert (Z.of_nat (length (split_fields d s2)) + fe <= kInfiniteEnd) as SM2.
    { rewrite E2, !skipn_length. lia. }
    rewrite (IH fe s2 fuel (canonical_from_weaken rest (fe + 1) fe ltac:(lia) C4) ltac:(lia) ltac:(lia) SM2).
    f_equal. unfold indiv_from at 2. cbn [map concat]. rewrite SEL, <- E4. f_equal.
    rewrite E2, skipn_skipn. replace (m + n)%nat with (Z.to_nat (fe - index)) by lia.
    pose proof (indiv_from_shift fs index (fe - index) rest (fe + 1) C4 ltac:(lia) ltac:(lia) P) as SH.
    replace (index + (fe - index)) with fe in SH by lia. exact SH.
  - contradiction.
Qed.

(* every selected existing field is handed to the callback by itself, in order
   (a line with 2^32-1 or more fields, i.e. of at least 4 GiB, is outside: `index` is an unsigned int) *)
Theorem individual_fields_spec_proof line rs d : canonical rs ->
  Z.of_nat (length (split_fields d line)) <= kInfiniteEnd ->
  individual_fields line rs d = IOk (spec_individual d line rs).
Proof.
  intros C S. unfold individual_fields, spec_individual, select, select_range.
  apply (indiv_loop_spec d rs 0 line); [exact C|lia|lia|lia].
Qed.

(* ------------------------------------------------------------ the tools on top *)
(* dedupe's whole-line shortcut (key_fields = [0, inf)) computes the same key as the field path *)
Theorem dedupe_shortcut_consistent_proof line d :
  dedupe_key line [(0, kInfiniteEnd)] d = key_of dedupe_field_seed line [(0, kInfiniteEnd)] d /\
  dedupe_key line [(0, kInfiniteEnd)] d = Some (murmur64a line 1).
Proof.
  assert (canonical [(0, kInfiniteEnd)]) as C by (unfold canonical; cbn [canonical_from]; unfold kInfiniteEnd; lia).
  rewrite (key_of_spec_proof dedupe_field_seed line _ d C).
  unfold dedupe_key. rewrite Z.eqb_refl. unfold dedupe_line_key.
  assert (spec_pieces d line [(0, kInfiniteEnd)] = [line]) as SP.
  { unfold spec_pieces, select, select_range, select_from. cbn [map fst snd]. rewrite Z.eqb_refl.
    change (Z.to_nat (0 - 0)) with 0%nat. cbn [skipn].
    pose proof (split_fields_nonempty d line) as NE. destruct (split_fields d line) eqn:S; [contradiction|].
    cbn [filter map]. rewrite <- S, join_split. reflexivity. }
  rewrite SP. split; reflexivity.
Qed.

(* the default -f / -k of the tools select the whole line *)
Theorem default_key_specs_proof :
  parse_key_spec dedupe_default_fields = Some [(0, kInfiniteEnd)] /\
  parse_key_spec shard_default_fields = Some [(0, kInfiniteEnd)] /\
  parse_key_spec cache_default_key = Some [(0, kInfiniteEnd)] /\
  dedupe_default_delim = 9 /\ shard_default_delim = 9 /\ cache_default_separator = 9.
Proof. vm_compute. repeat split. Qed.

(* -f LIST end to end: an accepted list gives keys that agree exactly on the selected fields *)
Theorem tool_key_depends_only_on_selected_proof s rs seed d l1 l2 : nonul s -> parse_key_spec s = Some rs ->
  contains_all (Z.of_nat (length (split_fields d l1))) rs ->
  contains_all (Z.of_nat (length (split_fields d l2))) rs ->
  exists p1 p2, key_of seed l1 rs d = Some (hash_fold seed p1) /\ key_of seed l2 rs d = Some (hash_fold seed p2) /\
                (p1 = p2 <-> select (split_fields d l1) rs = select (split_fields d l2) rs).
Proof.
  intros N PK A1 A2. destruct (parse_key_spec_proof s rs N PK) as (rs0 & _ & _ & C & _).
  exists (spec_pieces d l1 rs), (spec_pieces d l2 rs).
  split; [apply key_of_spec_proof; exact C|]. split; [apply key_of_spec_proof; exact C|].
  pose proof (key_iff_selected_proof d l1 l2 rs C A1 A2) as K.
  rewrite !range_fields_spec_proof in K by exact C. rewrite <- K. split; [intros ->; reflexivity|intros E; injection E; auto].
Qed.

(* shard -f / dedupe -f / cache -k: lines with identical selected fields get the same key, hence the same shard,
   the same dedupe decision and the same cache entry *)
Theorem same_selected_same_key_proof s rs d l1 l2 n : nonul s -> parse_key_spec s = Some rs ->
  contains_all (Z.of_nat (length (split_fields d l1))) rs ->
  contains_all (Z.of_nat (length (split_fields d l2))) rs ->
  select (split_fields d l1) rs = select (split_fields d l2) rs ->
  shard_key l1 rs d = shard_key l2 rs d /\ dedupe_key l1 rs d = dedupe_key l2 rs d /\ cache_key_of l1 rs d = cache_key_of l2 rs d /\
  (forall k1 k2, shard_key l1 rs d = Some k1 -> shard_key l2 rs d = Some k2 -> k1 mod n = k2 mod n).
Proof.
  intros N PK A1 A2 SEL. destruct (parse_key_spec_proof s rs N PK) as (rs0 & _ & _ & C & _).
  pose proof (proj2 (key_iff_selected_proof d l1 l2 rs C A1 A2) SEL) as RF.
  assert (forall seed, key_of seed l1 rs d = key_of seed l2 rs d) as K by (intros seed; unfold key_of; rewrite RF; reflexivity).
  assert (dedupe_key l1 rs d = dedupe_key l2 rs d) as DK.
  { unfold dedupe_key. destruct rs as [|[b e] [|r2 rest]]; try apply K; destruct b; try apply K.
    destruct (e =? kInfiniteEnd) eqn:E; [|apply K].
    (* whole-line shortcut: both equal the field-path key, which agree *)
    apply Z.eqb_eq in E. subst e.
    pose proof (proj1 (dedupe_shortcut_consistent_proof l1 d)) as S1. pose proof (proj1 (dedupe_shortcut_consistent_proof l2 d)) as S2.
    unfold dedupe_key in S1, S2. rewrite Z.eqb_refl in S1, S2. rewrite S1, S2. apply K. }
  unfold shard_key, cache_key_of. repeat split; try apply K; [exact DK|].
  intros k1 k2 E1 E2. rewrite (K shard_seed) in E1. congruence.
Qed.
