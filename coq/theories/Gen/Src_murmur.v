(* translator failed: expected two MurmurHashNative(line, seed) call sites in subtract_lines_main.cc, found 1 (and the numeric literals of the anchored code changed: constants cannot be kept) *)
Definition translator_failed : True := 0.
