(* translator failed: pattern for apply_case key = 64A(lowered, 64A(source)) not found in preprocess/apply_case_main.cc (and the numeric literals of the anchored code changed: constants cannot be kept) *)
Definition translator_failed : True := 0.
