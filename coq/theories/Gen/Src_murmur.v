(* translator failed: unexpected statement in the tail switch of MurmurHash64A: 'case 7: h ^= uint64_t((signed char)data2[6]) << 48;\n  case 6' *)
Definition translator_failed : True := 0.
