(* translator failed: pattern for RangeFields loops not found in fields.hh (and the numeric literals of the anchored code changed: constants cannot be kept) *)
Definition translator_failed : True := 0.
