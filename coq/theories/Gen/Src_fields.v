(* translator failed: pattern for RangeFields loops not found in fields.hh *)
Definition translator_failed : True := 0.
