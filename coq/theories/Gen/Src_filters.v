(* translator failed: pattern for remove_invalid_utf8 loop not found *)
Definition translator_failed : True := 0.
