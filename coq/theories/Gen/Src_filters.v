(* translator failed: pattern for subtract_lines load key not found *)
Definition translator_failed : True := 0.
