(* translator failed: pattern for AutoProbing::FindOrInsert = DoubleIfNeeded; backend.FindOrInsert not found in probing_hash_table.hh *)
Definition translator_failed : True := 0.
