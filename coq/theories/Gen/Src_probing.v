(* translator failed: pattern for Power2Mod::Double not found in probing_hash_table.hh *)
Definition translator_failed : True := 0.
