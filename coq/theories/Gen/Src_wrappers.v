(* translator failed: feeder loop of cache Input not found *)
Definition translator_failed : True := 0.
