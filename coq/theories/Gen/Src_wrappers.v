(* translator failed: feeder loop of foldfilter feeder not found *)
Definition translator_failed : True := 0.
