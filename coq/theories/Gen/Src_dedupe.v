(* translator failed: the ReadLine calls of parallel.hh do not all use the same strip_cr argument: ['', 'false'] *)
Definition translator_failed : True := 0.
