(* translator failed: pattern for 4-file loop: if (pass0(line0) && pass1(line1)) { out0 << line0; out1 << line1; } not found *)
Definition translator_failed : True := 0.
