(* translator failed: uint32 formatter: expected exactly one 8-byte vector store, found ['u_si128'] *)
Definition translator_failed : True := 0.
