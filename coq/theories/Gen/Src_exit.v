(* translator failed: pattern for cache reads the child's answer with ReadLine (throws at EOF) not found *)
Definition translator_failed : True := 0.
