(* translator failed: pattern for BufferedStream::write slow path not found *)
Definition translator_failed : True := 0.
