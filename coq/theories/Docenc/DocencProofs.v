(* Proofs about the docenc model: `docenc -d | docenc` reproduces documents
   (both separators) and index lists select exactly the listed documents. *)
From PP Require Import Docenc.DocencDefs B64.Base64Proofs.
From Coq Require Import ZifyBool Sorting.Sorted.
Local Open Scope Z_scope.
Ltac Zify.zify_post_hook ::= Z.div_mod_to_equations.

(* ---------- shape of base64 text ---------- *)
Definition b64char (c : Z) : bool := is_alpha c || (c =? 61).

Lemma rfc_tbl_chars bs : bytes_okb bs = true -> forallb b64char (rfc_tbl bs) = true.
Proof.
  induction bs as [| a | a b | a b c r IH] using list_ind3; intros Hok.
  - reflexivity.
  - apply bytes_okb_cons in Hok. destruct Hok as [Ha _].
    simpl. unfold b64char.
    destruct (sextet_ok (a / 4)) as (_ & _ & _ & _ & A1 & _); [lia|].
    destruct (sextet_ok ((a mod 4) * 16)) as (_ & _ & _ & _ & A2 & _); [lia|].
    rewrite A1, A2. reflexivity.
  - apply bytes_okb_cons in Hok. destruct Hok as [Ha Hok]. apply bytes_okb_cons in Hok. destruct Hok as [Hb _].
    simpl. unfold b64char.
    destruct (sextet_ok (a / 4)) as (_ & _ & _ & _ & A1 & _); [lia|].
    destruct (sextet_ok ((a mod 4) * 16 + b / 16)) as (_ & _ & _ & _ & A2 & _); [lia|].
    destruct (sextet_ok ((b mod 16) * 4)) as (_ & _ & _ & _ & A3 & _); [lia|].
    rewrite A1, A2, A3. reflexivity.
  - apply bytes_okb_cons in Hok. destruct Hok as [Ha Hok].
    apply bytes_okb_cons in Hok. destruct Hok as [Hb Hok].
    apply bytes_okb_cons in Hok. destruct Hok as [Hc Hok].
    change (rfc_tbl (a :: b :: c :: r)) with (group3 a b c ++ rfc_tbl r).
    rewrite forallb_app, (IH Hok), andb_true_r.
    pose proof (s_ranges a b c Ha Hb Hc) as (R0 & R1 & R2 & R3).
    unfold group3. simpl. unfold b64char.
    destruct (sextet_ok _ R0) as (_ & _ & _ & _ & A0 & _).
    destruct (sextet_ok _ R1) as (_ & _ & _ & _ & A1 & _).
    destruct (sextet_ok _ R2) as (_ & _ & _ & _ & A2 & _).
    destruct (sextet_ok _ R3) as (_ & _ & _ & _ & A3 & _).
    rewrite A0, A1, A2, A3. reflexivity.
Qed.

Lemma b64char_not_nl_cr c : b64char c = true -> (c =? 10) = false /\ (c =? 13) = false.
Proof.
  unfold b64char. intros H. destruct (c =? 10) eqn:E10.
  - apply Z.eqb_eq in E10. subst c. vm_compute in H. discriminate.
  - destruct (c =? 13) eqn:E13; [|tauto]. apply Z.eqb_eq in E13. subst c. vm_compute in H. discriminate.
Qed.

Lemma rfc4648_no_nl bs : bytes_okb bs = true -> no_delim 10 (rfc4648 bs) = true.
Proof.
  intros H. rewrite <- rfc_tbl_rfc4648. pose proof (rfc_tbl_chars bs H) as C.
  unfold no_delim. rewrite forallb_forall in *. intros c Hc.
  destruct (b64char_not_nl_cr c (C c Hc)) as [E _]. rewrite E. reflexivity.
Qed.

Lemma rfc4648_no_cr bs : bytes_okb bs = true -> forallb (fun c => negb (c =? 13)) (rfc4648 bs) = true.
Proof.
  intros H. rewrite <- rfc_tbl_rfc4648. pose proof (rfc_tbl_chars bs H) as C.
  rewrite forallb_forall in *. intros c Hc.
  destruct (b64char_not_nl_cr c (C c Hc)) as [_ E]. rewrite E. reflexivity.
Qed.

(* ---------- records of well-formed text ---------- *)
Lemma strip_cr_id l : forallb (fun c => negb (c =? 13)) l = true -> strip_cr l = l.
Proof.
  intros H. unfold strip_cr. destruct (rev l) as [|c r] eqn:E; [reflexivity|].
  assert (In c l) as Hin by (apply in_rev; rewrite E; left; reflexivity).
  rewrite forallb_forall in H. specialize (H c Hin).
  destruct (Z.eq_dec c 13) as [->|Hn]; [discriminate H|].
  destruct c as [|p|p]; try reflexivity.
  repeat (destruct p as [p|p|]; try reflexivity). exfalso; apply Hn; reflexivity.
Qed.

Lemma records_unrecords_cr d rs :
  forallb (no_delim d) rs = true -> forallb (fun r => forallb (fun c => negb (c =? 13)) r) rs = true ->
  records d true (unrecords d rs) = rs.
Proof.
  intros H1 H2. unfold records. rewrite split_at_unrecords by exact H1. rewrite app_nil_r.
  induction rs as [|r rs IH]; [reflexivity|]. simpl in *.
  apply andb_true_iff in H1. apply andb_true_iff in H2.
  rewrite strip_cr_id by tauto. f_equal. apply IH; tauto.
Qed.

Lemma unrecords_app d a b : unrecords d (a ++ b) = unrecords d a ++ unrecords d b.
Proof. unfold unrecords. apply flat_map_app. Qed.

(* ---------- decode side ---------- *)
Lemma dec_docs_all delim texts : forallb bytes_okb texts = true -> forall i,
  dec_docs false delim (map rfc4648 texts) i [] = TOk (unrecords delim texts).
Proof.
  induction texts as [|t ts IH]; intros Hok i; [reflexivity|].
  simpl in Hok. apply andb_true_iff in Hok. destruct Hok as [Ht Hts].
  simpl map. cbn [dec_docs].
  rewrite (decode_any_padding_proof t (rfc4648 t) 0 Ht) by (simpl; rewrite app_nil_r; reflexivity).
  rewrite (IH Hts). unfold unrecords. simpl. rewrite <- app_assoc. reflexivity.
Qed.

Lemma b64_file_records texts : forallb bytes_okb texts = true ->
  records 10 docenc_decode_strip_cr (b64_file texts) = map rfc4648 texts.
Proof.
  intros H. change docenc_decode_strip_cr with true. unfold b64_file.
  apply records_unrecords_cr.
  - rewrite forallb_forall in *. intros r Hr. apply in_map_iff in Hr. destruct Hr as [t [<- Ht]].
    apply rfc4648_no_nl. apply H. exact Ht.
  - rewrite forallb_forall in *. intros r Hr. apply in_map_iff in Hr. destruct Hr as [t [<- Ht]].
    apply rfc4648_no_cr. apply H. exact Ht.
Qed.

Lemma decode_tool_all delim texts : forallb bytes_okb texts = true ->
  decode_tool delim [] (b64_file texts) = TOk (decoded_stream delim texts).
Proof.
  intros H. unfold decode_tool. rewrite andb_false_r. rewrite b64_file_records by exact H.
  apply dec_docs_all. exact H.
Qed.

(* ---------- encode side, NUL separator: one record = one document ---------- *)
Lemma enc_docs_nul texts : forallb bytes_okb texts = true -> forall fuel i,
  (length texts < fuel)%nat ->
  enc_docs fuel false false texts i [] = TOk (unrecords 10 (map rfc4648 texts)).
Proof.
  induction texts as [|t ts IH]; intros Hok fuel i Hf.
  - destruct fuel; [simpl in Hf; lia|]. reflexivity.
  - simpl in Hok. apply andb_true_iff in Hok. destruct Hok as [Ht Hts].
    destruct fuel; [simpl in Hf; lia|]. simpl in Hf.
    cbn [enc_docs take_doc app andb].
    rewrite (encode_is_rfc4648_proof t Ht).
    rewrite (IH Hts) by lia. unfold unrecords. simpl. rewrite <- app_assoc. reflexivity.
Qed.

Lemma encode_tool_nul texts :
  forallb bytes_okb texts = true -> forallb (no_delim 0) texts = true ->
  encode_tool 0 [] (decoded_stream 0 texts) = TOk (b64_file texts).
Proof.
  intros Hok Hnd. unfold encode_tool, decoded_stream. rewrite andb_false_r.
  change docenc_encode_strip_cr with false.
  rewrite records_unrecords by exact Hnd.
  change (0 =? 10) with false. apply enc_docs_nul; [exact Hok | lia].
Qed.

(* ---------- encode side, blank-line separator ---------- *)
Definition line_ok (l : list Z) : bool := negb (is_nil l) && no_delim 10 l.
Definition doc_ok (d : list (list Z)) : bool := forallb line_ok d.

Lemma take_doc_nl d rest : doc_ok d = true -> forall acc,
  take_doc true (d ++ [] :: rest) acc = (acc ++ doc_text d, rest, false).
Proof.
  induction d as [|l d IH]; intros Hd acc.
  - simpl. rewrite app_nil_r. reflexivity.
  - simpl in Hd. apply andb_true_iff in Hd. destruct Hd as [Hl Hd].
    unfold line_ok in Hl. apply andb_true_iff in Hl. destruct Hl as [Hne _].
    simpl app. cbn [take_doc]. destruct l as [|c l']; [discriminate Hne|]. cbn [is_nil].
    rewrite (IH Hd). unfold doc_text, unrecords. simpl. repeat (rewrite <- app_assoc; simpl). reflexivity.
Qed.

Definition doc_records (docs : list (list (list Z))) : list (list Z) := flat_map (fun d => d ++ [[]]) docs.

Lemma enc_docs_nl docs :
  forallb doc_ok docs = true -> forallb (fun d => bytes_okb (doc_text d)) docs = true ->
  forall fuel i, (length docs < fuel)%nat ->
  enc_docs fuel true false (doc_records docs) i [] = TOk (unrecords 10 (map (fun d => rfc4648 (doc_text d)) docs)).
Proof.
  induction docs as [|d ds IH]; intros Hd Hb fuel i Hf.
  - destruct fuel; [simpl in Hf; lia|]. reflexivity.
  - simpl in Hd, Hb. apply andb_true_iff in Hd. destruct Hd as [Hd Hds].
    apply andb_true_iff in Hb. destruct Hb as [Hb Hbs].
    destruct fuel; [simpl in Hf; lia|]. simpl in Hf.
    unfold doc_records. simpl flat_map. rewrite <- app_assoc. simpl app.
    cbn [enc_docs]. rewrite (take_doc_nl d _ Hd). simpl app. cbn [andb].
    rewrite (encode_is_rfc4648_proof _ Hb).
    fold (doc_records ds). rewrite (IH Hds Hbs) by lia.
    unfold unrecords. simpl. rewrite <- app_assoc. reflexivity.
Qed.

Lemma decoded_stream_nl docs :
  decoded_stream 10 (map doc_text docs) = unrecords 10 (doc_records docs).
Proof.
  unfold decoded_stream, doc_records. induction docs as [|d ds IH]; [reflexivity|].
  simpl map. simpl flat_map. rewrite unrecords_app, <- IH.
  unfold unrecords at 1. simpl flat_map. unfold doc_text.
  rewrite unrecords_app. unfold unrecords at 3. simpl. rewrite <- !app_assoc. reflexivity.
Qed.

Lemma doc_records_no_delim docs : forallb doc_ok docs = true -> forallb (no_delim 10) (doc_records docs) = true.
Proof.
  induction docs as [|d ds IH]; intros H; [reflexivity|].
  simpl in H. apply andb_true_iff in H. destruct H as [Hd Hds].
  unfold doc_records. simpl flat_map. rewrite !forallb_app. fold (doc_records ds).
  rewrite (IH Hds). simpl. rewrite !andb_true_r.
  unfold doc_ok in Hd. rewrite forallb_forall in *. intros l Hl. specialize (Hd l Hl).
  unfold line_ok in Hd. apply andb_true_iff in Hd. tauto.
Qed.

Lemma doc_records_length docs : (length docs <= length (doc_records docs))%nat.
Proof.
  induction docs as [|d ds IH]; [simpl; lia|].
  unfold doc_records. simpl flat_map. rewrite !app_length. fold (doc_records ds). simpl. lia.
Qed.

Lemma encode_tool_nl docs :
  forallb doc_ok docs = true -> forallb (fun d => bytes_okb (doc_text d)) docs = true ->
  encode_tool 10 [] (decoded_stream 10 (map doc_text docs)) = TOk (b64_file (map doc_text docs)).
Proof.
  intros Hd Hb. unfold encode_tool. rewrite andb_false_r.
  change docenc_encode_strip_cr with false.
  rewrite decoded_stream_nl, records_unrecords by (apply doc_records_no_delim; exact Hd).
  change (10 =? 10) with true. unfold b64_file. rewrite map_map.
  apply enc_docs_nl; [exact Hd | exact Hb |]. pose proof (doc_records_length docs). lia.
Qed.

Theorem docenc_roundtrip_newline_proof docs :
  forallb doc_ok docs = true -> forallb (fun d => bytes_okb (doc_text d)) docs = true ->
  decode_tool 10 [] (b64_file (map doc_text docs)) = TOk (decoded_stream 10 (map doc_text docs)) /\
  encode_tool 10 [] (decoded_stream 10 (map doc_text docs)) = TOk (b64_file (map doc_text docs)).
Proof.
  intros Hd Hb. split.
  - apply decode_tool_all. rewrite forallb_forall in *. intros t Ht.
    apply in_map_iff in Ht. destruct Ht as [d [<- Hin]]. apply Hb. exact Hin.
  - apply encode_tool_nl; assumption.
Qed.

Theorem docenc_roundtrip_nul_proof texts :
  forallb bytes_okb texts = true -> forallb (no_delim 0) texts = true ->
  decode_tool 0 [] (b64_file texts) = TOk (decoded_stream 0 texts) /\
  encode_tool 0 [] (decoded_stream 0 texts) = TOk (b64_file texts).
Proof.
  intros Hok Hnd. split; [apply decode_tool_all; exact Hok | apply encode_tool_nul; assumption].
Qed.

(* ---------- index selection ---------- *)
(* idx strictly increasing and every element > i *)
Fixpoint incr_from (i : nat) (idx : list nat) : bool :=
  match idx with
  | [] => true
  | x :: r => Nat.ltb i x && incr_from x r
  end.

Lemma dec_docs_select delim texts : forallb bytes_okb texts = true ->
  forall idx i, idx <> [] -> incr_from i idx = true ->
  dec_docs true delim (map rfc4648 texts) i idx = TOk (unrecords delim (select_docs idx i texts)).
Proof.
  induction texts as [|t ts IH]; intros Hok idx i Hne Hinc; [reflexivity|].
  simpl in Hok. apply andb_true_iff in Hok. destruct Hok as [Ht Hts].
  destruct idx as [|x rem]; [congruence|].
  simpl in Hinc. apply andb_true_iff in Hinc. destruct Hinc as [Hix Hrem]. apply Nat.ltb_lt in Hix.
  simpl map. cbn [dec_docs select_docs].
  destruct (Nat.eqb x (S i)) eqn:E.
  - apply Nat.eqb_eq in E. subst x.
    rewrite (decode_any_padding_proof t (rfc4648 t) 0 Ht) by (simpl; rewrite app_nil_r; reflexivity).
    destruct rem as [|y rem'].
    + cbn [is_nil]. destruct ts; unfold unrecords; simpl; rewrite ?app_nil_r; reflexivity.
    + cbn [is_nil]. rewrite (IH Hts (y :: rem') (S i)) by (congruence || exact Hrem).
      unfold unrecords. simpl. rewrite <- app_assoc. reflexivity.
  - apply Nat.eqb_neq in E. apply IH; [exact Hts | congruence |].
    simpl. apply andb_true_iff. split; [apply Nat.ltb_lt; lia | exact Hrem].
Qed.

(* select_docs picks exactly the documents whose 1-based position is listed *)
Lemma select_docs_spec {A} (docs : list A) : forall idx i, incr_from i idx = true ->
  select_docs idx i docs =
  map snd (filter (fun pd => existsb (Nat.eqb (fst pd)) idx) (combine (seq (S i) (length docs)) docs)).
Proof.
  induction docs as [|d ds IH]; intros idx i Hinc; [reflexivity|].
  simpl length. simpl seq. simpl combine. cbn [select_docs filter fst].
  destruct idx as [|x rem]; [simpl; clear; induction (combine _ ds) as [|p l IHl]; [reflexivity | simpl; exact IHl]|].
  simpl in Hinc. apply andb_true_iff in Hinc. destruct Hinc as [Hix Hrem]. apply Nat.ltb_lt in Hix.
  cbn [existsb]. rewrite (Nat.eqb_sym (S i) x).
  destruct (Nat.eqb x (S i)) eqn:E.
  - apply Nat.eqb_eq in E. subst x. cbn [orb map snd]. f_equal.
    rewrite (IH rem (S i) Hrem).
    f_equal. apply filter_ext_in. intros [p q] Hin. apply in_combine_l in Hin. apply in_seq in Hin.
    cbn [fst existsb]. destruct (Nat.eqb p (S i)) eqn:E2; [apply Nat.eqb_eq in E2; lia | reflexivity].
  - apply Nat.eqb_neq in E. cbn [orb].
    assert (existsb (Nat.eqb (S i)) rem = false) as Hnot.
    { clear -Hrem Hix E. revert x Hrem Hix E. induction rem as [|y r IHr]; intros x Hrem Hix E; [reflexivity|].
      simpl in Hrem. apply andb_true_iff in Hrem. destruct Hrem as [Hxy Hr]. apply Nat.ltb_lt in Hxy.
      cbn [existsb]. destruct (Nat.eqb (S i) y) eqn:E3; [apply Nat.eqb_eq in E3; lia|]. cbn [orb].
      apply (IHr y Hr); lia. }
    rewrite Hnot. apply (IH (x :: rem) (S i)).
    simpl. apply andb_true_iff. split; [apply Nat.ltb_lt; lia | exact Hrem].
Qed.

(* encode mode with an index list *)
Lemma enc_docs_select_nl docs :
  forallb doc_ok docs = true -> forallb (fun d => bytes_okb (doc_text d)) docs = true ->
  forall idx i fuel, idx <> [] -> incr_from i idx = true -> (length docs < fuel)%nat ->
  enc_docs fuel true true (doc_records docs) i idx =
    TOk (unrecords 10 (map (fun d => rfc4648 (doc_text d)) (select_docs idx i docs))).
Proof.
  induction docs as [|d ds IH]; intros Hd Hb idx i fuel Hne Hinc Hf.
  - destruct fuel; [simpl in Hf; lia|]. reflexivity.
  - simpl in Hd, Hb. apply andb_true_iff in Hd. destruct Hd as [Hd Hds].
    apply andb_true_iff in Hb. destruct Hb as [Hb Hbs].
    destruct fuel; [simpl in Hf; lia|]. simpl in Hf.
    destruct idx as [|x rem]; [congruence|].
    simpl in Hinc. apply andb_true_iff in Hinc. destruct Hinc as [Hix Hrem]. apply Nat.ltb_lt in Hix.
    unfold doc_records. simpl flat_map. rewrite <- app_assoc. simpl app.
    cbn [enc_docs]. rewrite (take_doc_nl d _ Hd). simpl app. cbn [andb select_docs].
    fold (doc_records ds).
    destruct (Nat.eqb x (S i)) eqn:E.
    + apply Nat.eqb_eq in E. subst x. rewrite (encode_is_rfc4648_proof _ Hb). cbn [orb].
      destruct rem as [|y rem'].
      * cbn [is_nil]. destruct ds; unfold unrecords; simpl; rewrite ?app_nil_r; reflexivity.
      * cbn [is_nil]. rewrite (IH Hds Hbs (y :: rem') (S i) fuel) by (congruence || exact Hrem || lia).
        unfold unrecords. simpl. rewrite <- app_assoc. reflexivity.
    + apply Nat.eqb_neq in E. apply IH; try assumption; try congruence; try lia.
      simpl. apply andb_true_iff. split; [apply Nat.ltb_lt; lia | exact Hrem].
Qed.

Lemma enc_docs_select_nul texts : forallb bytes_okb texts = true ->
  forall idx i fuel, idx <> [] -> incr_from i idx = true -> (length texts < fuel)%nat ->
  enc_docs fuel false true texts i idx = TOk (unrecords 10 (map rfc4648 (select_docs idx i texts))).
Proof.
  induction texts as [|t ts IH]; intros Hok idx i fuel Hne Hinc Hf.
  - destruct fuel; [simpl in Hf; lia|]. reflexivity.
  - simpl in Hok. apply andb_true_iff in Hok. destruct Hok as [Ht Hts].
    destruct fuel; [simpl in Hf; lia|]. simpl in Hf.
    destruct idx as [|x rem]; [congruence|].
    simpl in Hinc. apply andb_true_iff in Hinc. destruct Hinc as [Hix Hrem]. apply Nat.ltb_lt in Hix.
    cbn [enc_docs take_doc app andb select_docs].
    destruct (Nat.eqb x (S i)) eqn:E.
    + apply Nat.eqb_eq in E. subst x. rewrite (encode_is_rfc4648_proof _ Ht). cbn [orb].
      destruct rem as [|y rem'].
      * cbn [is_nil]. destruct ts; unfold unrecords; simpl; rewrite ?app_nil_r; reflexivity.
      * cbn [is_nil]. rewrite (IH Hts (y :: rem') (S i) fuel) by (congruence || exact Hrem || lia).
        unfold unrecords. simpl. rewrite <- app_assoc. reflexivity.
    + apply Nat.eqb_neq in E. apply IH; try assumption; try congruence; try lia.
      simpl. apply andb_true_iff. split; [apply Nat.ltb_lt; lia | exact Hrem].
Qed.

(* main()'s normalisation of the index list: sorted, duplicates removed, same elements *)
Lemma insert_sorted_in a l x : In x (insert_sorted a l) <-> x = a \/ In x l.
Proof.
  induction l as [|y r IH]; simpl; [intuition|].
  destruct (Nat.leb a y); simpl; [intuition|]. rewrite IH. intuition.
Qed.

Lemma sort_nat_in l x : In x (sort_nat l) <-> In x l.
Proof.
  induction l as [|a r IH]; simpl; [tauto|]. rewrite insert_sorted_in, IH. intuition.
Qed.

Fixpoint sorted_le (l : list nat) : bool :=
  match l with
  | x :: ((y :: _) as r) => Nat.leb x y && sorted_le r
  | _ => true
  end.

Lemma sorted_le_cons x l : sorted_le (x :: l) = true <-> (forall y, In y l -> (x <= y)%nat) /\ sorted_le l = true.
Proof.
  revert x. induction l as [|y r IH]; intros x.
  - simpl. intuition.
  - change (sorted_le (x :: y :: r)) with (Nat.leb x y && sorted_le (y :: r)).
    rewrite andb_true_iff, Nat.leb_le. split.
    + intros [Hxy Hs]. split; [|exact Hs]. intros z [->|Hz]; [exact Hxy|].
      apply IH in Hs. destruct Hs as [Hs _]. specialize (Hs z Hz). lia.
    + intros [Hall Hs]. split; [apply Hall; left; reflexivity | exact Hs].
Qed.

Lemma insert_sorted_sorted a l : sorted_le l = true -> sorted_le (insert_sorted a l) = true.
Proof.
  induction l as [|y r IH]; intros Hs; [reflexivity|].
  simpl. destruct (Nat.leb a y) eqn:E.
  - apply Nat.leb_le in E. apply sorted_le_cons. split; [|exact Hs].
    intros z [->|Hz]; [exact E|]. apply sorted_le_cons in Hs. destruct Hs as [Hs _]. specialize (Hs z Hz). lia.
  - apply Nat.leb_gt in E. apply sorted_le_cons in Hs. destruct Hs as [Hall Hs].
    apply sorted_le_cons. split; [|apply IH; exact Hs].
    intros z Hz. apply insert_sorted_in in Hz. destruct Hz as [->|Hz]; [lia | apply Hall; exact Hz].
Qed.

Lemma sort_nat_sorted l : sorted_le (sort_nat l) = true.
Proof. induction l as [|a r IH]; [reflexivity|]. simpl. apply insert_sorted_sorted. exact IH. Qed.

Lemma uniq_adjacent_cons2 a b r :
  uniq_adjacent (a :: b :: r) = if Nat.eqb a b then uniq_adjacent (b :: r) else a :: uniq_adjacent (b :: r).
Proof. reflexivity. Qed.

Lemma uniq_adjacent_in l x : In x (uniq_adjacent l) <-> In x l.
Proof.
  revert x. induction l as [|a l IH]; intros x; [simpl; tauto|].
  destruct l as [|b r]; [simpl; tauto|].
  rewrite uniq_adjacent_cons2. destruct (Nat.eqb a b) eqn:E.
  - apply Nat.eqb_eq in E. subst b. rewrite IH. simpl. intuition.
  - simpl In at 1. rewrite IH. simpl. intuition.
Qed.

Lemma uniq_adjacent_incr l : sorted_le l = true -> forall i, (forall x, In x l -> (i < x)%nat) ->
  incr_from i (uniq_adjacent l) = true.
Proof.
  induction l as [|a l IH]; intros Hs i Hlow; [reflexivity|].
  destruct l as [|b r].
  - simpl. rewrite andb_true_r. apply Nat.ltb_lt. apply Hlow. left; reflexivity.
  - rewrite uniq_adjacent_cons2. apply sorted_le_cons in Hs. destruct Hs as [Hall Hs].
    destruct (Nat.eqb a b) eqn:E.
    + apply IH; [exact Hs|]. intros x Hx. apply Hlow. right; exact Hx.
    + apply Nat.eqb_neq in E. cbn [incr_from]. apply andb_true_iff. split.
      * apply Nat.ltb_lt. apply Hlow. left; reflexivity.
      * apply IH; [exact Hs|]. intros x Hx.
        assert (a <= b)%nat as Hab by (apply Hall; left; reflexivity).
        destruct Hx as [<-|Hx]; [lia|].
        apply sorted_le_cons in Hs. destruct Hs as [Hb _]. specialize (Hb x Hx). lia.
Qed.

Theorem docenc_index_select_proof delim texts idx :
  forallb bytes_okb texts = true -> idx <> [] -> (forall x, In x idx -> (1 <= x)%nat) ->
  decode_tool delim idx (b64_file texts) =
    TOk (decoded_stream delim
      (map snd (filter (fun pd => existsb (Nat.eqb (fst pd)) idx) (combine (seq 1 (length texts)) texts)))).
Proof.
  intros Hok Hne Hpos. unfold decode_tool.
  assert (existsb (Nat.eqb 0) idx = false) as Hz.
  { destruct (existsb (Nat.eqb 0) idx) eqn:E; [|reflexivity]. exfalso.
    apply existsb_exists in E. destruct E as [x [Hin Hx]]. apply Nat.eqb_eq in Hx. subst x.
    specialize (Hpos _ Hin). lia. }
  rewrite Hz, andb_false_r. rewrite b64_file_records by exact Hok.
  assert (forall x, In x (norm_indices idx) <-> In x idx) as Hin.
  { intros x. unfold norm_indices. change docenc_indices_unique with true. cbv iota.
    rewrite uniq_adjacent_in, sort_nat_in. tauto. }
  assert (incr_from 0 (norm_indices idx) = true) as Hinc.
  { unfold norm_indices. change docenc_indices_unique with true. cbv iota.
    apply uniq_adjacent_incr; [apply sort_nat_sorted|].
    intros x Hx. apply (proj1 (sort_nat_in _ _)) in Hx. specialize (Hpos x Hx). lia. }
  assert (norm_indices idx <> []) as Hnn.
  { destruct idx as [|a r]; [congruence|]. intros Hnil.
    assert (In a (norm_indices (a :: r))) as Ha by (apply Hin; left; reflexivity).
    rewrite Hnil in Ha. destruct Ha. }
  destruct idx as [|a idx']; [congruence|]. cbn [is_nil negb].
  rewrite (dec_docs_select delim texts Hok (norm_indices (a :: idx')) 0 Hnn Hinc).
  unfold decoded_stream. rewrite (select_docs_spec texts _ 0 Hinc). f_equal. f_equal. f_equal.
  apply filter_ext. intros [p d]. cbn [fst].
  destruct (existsb (Nat.eqb p) (norm_indices (a :: idx'))) eqn:E1.
  - apply existsb_exists in E1. destruct E1 as [x [Hx Hpx]]. apply Hin in Hx.
    symmetry. apply existsb_exists. exists x. tauto.
  - destruct (existsb (Nat.eqb p) (a :: idx')) eqn:E2; [|reflexivity].
    apply existsb_exists in E2. destruct E2 as [x [Hx Hpx]]. apply Hin in Hx.
    assert (existsb (Nat.eqb p) (norm_indices (a :: idx')) = true) as C by (apply existsb_exists; exists x; tauto).
    congruence.
Qed.

Lemma norm_indices_facts idx : idx <> [] -> (forall x, In x idx -> (1 <= x)%nat) ->
  (forall x, In x (norm_indices idx) <-> In x idx) /\ incr_from 0 (norm_indices idx) = true /\ norm_indices idx <> [].
Proof.
  intros Hne Hpos.
  assert (forall x, In x (norm_indices idx) <-> In x idx) as Hin.
  { intros x. unfold norm_indices. change docenc_indices_unique with true. cbv iota.
    rewrite uniq_adjacent_in, sort_nat_in. tauto. }
  split; [exact Hin|]. split.
  - unfold norm_indices. change docenc_indices_unique with true. cbv iota.
    apply uniq_adjacent_incr; [apply sort_nat_sorted|].
    intros x Hx. apply (proj1 (sort_nat_in _ _)) in Hx. specialize (Hpos x Hx). lia.
  - destruct idx as [|a r]; [congruence|]. intros Hnil.
    assert (In a (norm_indices (a :: r))) as Ha by (apply Hin; left; reflexivity).
    rewrite Hnil in Ha. destruct Ha.
Qed.

Lemma filter_idx_ext {A} (idx idx' : list nat) (l : list (nat * A)) :
  (forall x, In x idx' <-> In x idx) ->
  filter (fun pd => existsb (Nat.eqb (fst pd)) idx') l = filter (fun pd => existsb (Nat.eqb (fst pd)) idx) l.
Proof.
  intros Hin. apply filter_ext. intros [p d]. cbn [fst].
  destruct (existsb (Nat.eqb p) idx') eqn:E1.
  - apply existsb_exists in E1. destruct E1 as [x [Hx Hpx]]. apply Hin in Hx.
    symmetry. apply existsb_exists. exists x. tauto.
  - destruct (existsb (Nat.eqb p) idx) eqn:E2; [|reflexivity].
    apply existsb_exists in E2. destruct E2 as [x [Hx Hpx]]. apply Hin in Hx.
    assert (existsb (Nat.eqb p) idx' = true) as C by (apply existsb_exists; exists x; tauto).
    congruence.
Qed.

Lemma no_zero idx : (forall x, In x idx -> (1 <= x)%nat) -> existsb (Nat.eqb 0) idx = false.
Proof.
  intros Hpos. destruct (existsb (Nat.eqb 0) idx) eqn:E; [|reflexivity]. exfalso.
  apply existsb_exists in E. destruct E as [x [Hin Hx]]. apply Nat.eqb_eq in Hx. subst x.
  specialize (Hpos _ Hin). lia.
Qed.

Theorem docenc_index_select_encode_newline_proof docs idx :
  forallb doc_ok docs = true -> forallb (fun d => bytes_okb (doc_text d)) docs = true ->
  idx <> [] -> (forall x, In x idx -> (1 <= x)%nat) ->
  encode_tool 10 idx (decoded_stream 10 (map doc_text docs)) =
    TOk (b64_file (map doc_text
      (map snd (filter (fun pd => existsb (Nat.eqb (fst pd)) idx) (combine (seq 1 (length docs)) docs))))).
Proof.
  intros Hd Hb Hne Hpos. destruct (norm_indices_facts idx Hne Hpos) as (Hin & Hinc & Hnn).
  unfold encode_tool. rewrite (no_zero idx Hpos), andb_false_r.
  change docenc_encode_strip_cr with false.
  rewrite decoded_stream_nl, records_unrecords by (apply doc_records_no_delim; exact Hd).
  change (10 =? 10) with true.
  destruct idx as [|a idx']; [congruence|]. cbn [is_nil negb].
  rewrite (enc_docs_select_nl docs Hd Hb (norm_indices (a :: idx')) 0 _ Hnn Hinc)
    by (pose proof (doc_records_length docs); lia).
  rewrite (select_docs_spec docs _ 0 Hinc). unfold b64_file.
  rewrite (filter_idx_ext (a :: idx') (norm_indices (a :: idx')) _ Hin). rewrite !map_map. reflexivity.
Qed.

Theorem docenc_index_select_encode_nul_proof texts idx :
  forallb bytes_okb texts = true -> forallb (no_delim 0) texts = true ->
  idx <> [] -> (forall x, In x idx -> (1 <= x)%nat) ->
  encode_tool 0 idx (decoded_stream 0 texts) =
    TOk (b64_file (map snd (filter (fun pd => existsb (Nat.eqb (fst pd)) idx) (combine (seq 1 (length texts)) texts)))).
Proof.
  intros Hok Hnd Hne Hpos. destruct (norm_indices_facts idx Hne Hpos) as (Hin & Hinc & Hnn).
  unfold encode_tool, decoded_stream. rewrite (no_zero idx Hpos), andb_false_r.
  change docenc_encode_strip_cr with false.
  rewrite records_unrecords by exact Hnd.
  change (0 =? 10) with false.
  destruct idx as [|a idx']; [congruence|]. cbn [is_nil negb].
  rewrite (enc_docs_select_nul texts Hok (norm_indices (a :: idx')) 0 _ Hnn Hinc) by lia.
  rewrite (select_docs_spec texts _ 0 Hinc). unfold b64_file.
  rewrite (filter_idx_ext (a :: idx') (norm_indices (a :: idx')) _ Hin). reflexivity.
Qed.

(* ---------- command-line index arguments ---------- *)
Definition digits_value (ds : list Z) (acc : Z) : Z := fold_left (fun a c => a * 10 + (c - 48)) ds acc.

Lemma digits_value_mono ds : forallb is_digit ds = true -> forall acc, 0 <= acc -> acc <= digits_value ds acc.
Proof.
  induction ds as [|c r IH]; intros Hd acc Ha; simpl; [lia|].
  simpl in Hd. apply andb_true_iff in Hd. destruct Hd as [Hc Hr].
  unfold is_digit in Hc. apply andb_true_iff in Hc. destruct Hc as [H1 H2].
  apply Z.leb_le in H1. apply Z.leb_le in H2.
  specialize (IH Hr (acc * 10 + (c - 48))). unfold digits_value in *. lia.
Qed.

Lemma read_digits_all ds : forallb is_digit ds = true -> forall acc seen,
  0 <= acc -> digits_value ds acc < two64 -> (seen = true \/ ds <> []) ->
  read_digits ds acc seen false = Some (Some (digits_value ds acc), []).
Proof.
  induction ds as [|c r IH]; intros Hd acc seen Ha Hv Hs.
  - simpl. destruct Hs as [->|Hs]; [reflexivity | congruence].
  - simpl in Hd. apply andb_true_iff in Hd. destruct Hd as [Hc Hr].
    cbn [read_digits]. rewrite Hc.
    assert (0 <= acc * 10 + (c - 48)) as Hp.
    { unfold is_digit in Hc. apply andb_true_iff in Hc. destruct Hc as [H1 H2].
      apply Z.leb_le in H1. apply Z.leb_le in H2. lia. }
    pose proof (digits_value_mono r Hr (acc * 10 + (c - 48)) Hp) as Hm.
    change (digits_value (c :: r) acc) with (digits_value r (acc * 10 + (c - 48))) in *.
    assert (acc * 10 + (c - 48) <? two64 = true) as Hlt by (apply Z.ltb_lt; lia).
    rewrite Hlt. cbn [negb orb]. apply IH; auto.
Qed.

Lemma digit_not_ws_sign c : is_digit c = true -> is_ws c = false /\ c <> 43 /\ c <> 45.
Proof.
  unfold is_digit, is_ws. intros H. apply andb_true_iff in H. destruct H as [H1 H2].
  apply Z.leb_le in H1. apply Z.leb_le in H2.
  destruct (c =? 32) eqn:E; [apply Z.eqb_eq in E; lia|].
  destruct ((9 <=? c) && (c <=? 13)) eqn:E2; [apply andb_true_iff in E2; destruct E2 as [_ E3]; apply Z.leb_le in E3; lia|].
  simpl. repeat split; lia.
Qed.

Lemma read_size_t_digits ds rest : ds <> [] -> forallb is_digit ds = true -> digits_value ds 0 < two64 ->
  (match rest with [] => True | c :: _ => is_digit c = false end) ->
  read_size_t (ds ++ rest) = Some (Some (digits_value ds 0), rest).
Proof.
  intros Hne Hd Hv Hrest. destruct ds as [|c r]; [congruence|].
  simpl in Hd. apply andb_true_iff in Hd. destruct Hd as [Hc Hr].
  destruct (digit_not_ws_sign c Hc) as (Hws & H43 & H45).
  unfold read_size_t. simpl app. cbn [skip_ws]. rewrite Hws.
  assert (forall ds acc seen, forallb is_digit ds = true -> 0 <= acc -> digits_value ds acc < two64 ->
          (seen = true \/ ds <> []) ->
          read_digits (ds ++ rest) acc seen false = Some (Some (digits_value ds acc), rest)) as G.
  { clear -Hrest. induction ds as [|d q IH]; intros acc seen Hd Ha Hv Hs.
    - simpl. destruct Hs as [->|Hs]; [|congruence].
      destruct rest as [|x xs]; [reflexivity|]. cbn [read_digits]. rewrite Hrest. reflexivity.
    - simpl in Hd. apply andb_true_iff in Hd. destruct Hd as [Hc Hr].
      simpl app. cbn [read_digits]. rewrite Hc.
      assert (0 <= acc * 10 + (d - 48)) as Hp.
      { unfold is_digit in Hc. apply andb_true_iff in Hc. destruct Hc as [H1 H2].
        apply Z.leb_le in H1. apply Z.leb_le in H2. lia. }
      pose proof (digits_value_mono q Hr (acc * 10 + (d - 48)) Hp) as Hm.
      change (digits_value (d :: q) acc) with (digits_value q (acc * 10 + (d - 48))) in *.
      assert (acc * 10 + (d - 48) <? two64 = true) as Hlt by (apply Z.ltb_lt; lia).
      rewrite Hlt. cbn [negb orb]. apply IH; auto. }
  destruct c as [|p|p]; try (exfalso; unfold is_digit in Hc; simpl in Hc; discriminate).
  assert (Zpos p <> 43 /\ Zpos p <> 45) as [A B] by tauto.
  destruct (Pos.eq_dec p 43) as [->|N1]; [congruence|].
  destruct (Pos.eq_dec p 45) as [->|N2]; [congruence|].
  transitivity (read_digits ((Zpos p :: r) ++ rest) 0 false false).
  - simpl app. repeat (destruct p as [p|p|]; try reflexivity); congruence.
  - apply G; [simpl; rewrite Hc, Hr; reflexivity | lia | exact Hv | right; congruence].
Qed.

(* "N": a non-empty string of decimal digits denoting 1 <= n < 2^16 selects exactly document n *)
Theorem parse_single_index_proof ds :
  ds <> [] -> forallb is_digit ds = true -> 1 <= digits_value ds 0 < 65536 ->
  parse_range ds = ArgIndices [Z.to_nat (digits_value ds 0)].
Proof.
  intros Hne Hd Hv. unfold parse_range.
  rewrite <- (app_nil_r ds) at 1. rewrite (read_size_t_digits ds [] Hne Hd) by (unfold two64; lia || exact I).
  destruct (digits_value ds 0 =? 0) eqn:E0; [apply Z.eqb_eq in E0; lia|]. rewrite andb_false_r.
  destruct (digits_value ds 0 <? 65536) eqn:E; [reflexivity | apply Z.ltb_ge in E; lia].
Qed.

(* "M-N" with 1 <= M <= N < 2^16 expands to M, M+1, ..., N *)
Theorem parse_index_range_proof ds1 ds2 :
  ds1 <> [] -> ds2 <> [] -> forallb is_digit ds1 = true -> forallb is_digit ds2 = true ->
  1 <= digits_value ds1 0 <= digits_value ds2 0 -> digits_value ds2 0 < 65536 ->
  parse_range (ds1 ++ 45 :: ds2) =
    ArgIndices (seq (Z.to_nat (digits_value ds1 0)) (Z.to_nat (digits_value ds2 0 - digits_value ds1 0 + 1))).
Proof.
  intros N1 N2 D1 D2 Hv Hb. unfold parse_range.
  rewrite (read_size_t_digits ds1 (45 :: ds2) N1 D1) by (unfold two64; lia || reflexivity).
  destruct (digits_value ds1 0 =? 0) eqn:E0; [apply Z.eqb_eq in E0; lia|]. rewrite andb_false_r.
  rewrite <- (app_nil_r ds2) at 1. rewrite (read_size_t_digits ds2 [] N2 D2) by (unfold two64; lia || exact I).
  destruct (digits_value ds2 0 <? digits_value ds1 0) eqn:E1; [apply Z.ltb_lt in E1; lia|].
  destruct (digits_value ds2 0 - digits_value ds1 0 <? 65536) eqn:E2; [|apply Z.ltb_ge in E2; lia].
  destruct (digits_value ds2 0 <? 1048576) eqn:E3; [|apply Z.ltb_ge in E3; lia]. reflexivity.
Qed.
