(* Executable model of preprocess/docenc_main.cc for one input stream:
   decode() / encode() loops with the index iterator, on top of the record
   specification of the line reader (Base/Lines.v, property C02) and the
   base64 model.  Flags come from the regenerated Gen/Src_docenc.v. *)
From PP Require Export Base.Lines B64.Base64Defs Gen.Src_docenc.
Local Open Scope Z_scope.

Inductive tres := TOk (out : list Z) | TAbort | TFuel | TUsage.

(* main(): std::sort(indices) [+ erase(unique)] ; insertion sort on nat *)
Fixpoint insert_sorted (x : nat) (l : list nat) : list nat :=
  match l with
  | [] => [x]
  | y :: r => if Nat.leb x y then x :: l else y :: insert_sorted x r
  end.
Definition sort_nat (l : list nat) : list nat := fold_right insert_sorted [] l.
Fixpoint uniq_adjacent (l : list nat) : list nat :=
  match l with
  | x :: ((y :: _) as r) => if Nat.eqb x y then uniq_adjacent r else x :: uniq_adjacent r
  | _ => l
  end.
Definition norm_indices (l : list nat) : list nat :=
  if docenc_indices_unique then uniq_adjacent (sort_nat l) else sort_nat l.

Definition is_nil {A} (l : list A) : bool := match l with [] => true | _ => false end.

(* ---- decode(): for (line : in) ... ---- *)
Fixpoint dec_docs (use_idx : bool) (delim : Z) (lines : list (list Z)) (i : nat) (rem : list nat) : tres :=
  match lines with
  | [] => TOk []
  | l :: ls =>
    let i' := S i in
    let emit (rem' : list nat) (stop : bool) :=
      match base64_decode l with
      | DOk d =>
        if stop then TOk (d ++ [delim])
        else match dec_docs use_idx delim ls i' rem' with
             | TOk o => TOk (d ++ delim :: o)
             | e => e
             end
      | _ => TAbort
      end in
    if use_idx then
      match rem with
      | [] => TOk []
      | x :: rem' =>
        if Nat.eqb x i' then emit rem' (is_nil rem')
        else dec_docs use_idx delim ls i' rem
      end
    else emit rem false
  end.

Definition decode_tool (delim : Z) (indices : list nat) (input : list Z) : tres :=
  if docenc_rejects_index_zero && existsb (Nat.eqb 0) indices then TUsage else
  dec_docs (negb (is_nil indices)) delim (records 10 docenc_decode_strip_cr input) 0 (norm_indices indices).

(* ---- encode() ---- *)
(* inner while(true): accumulate one document; returns (document, remaining records, is_eof) *)
Fixpoint take_doc (nl : bool) (recs : list (list Z)) (acc : list Z) : list Z * list (list Z) * bool :=
  match recs with
  | [] => (acc, [], true)
  | l :: r =>
    if nl then (if is_nil l then (acc, r, false) else take_doc nl r (acc ++ l ++ [10]))
    else (acc ++ l, r, false)
  end.

Fixpoint enc_docs (fuel : nat) (nl use_idx : bool) (recs : list (list Z)) (i : nat) (rem : list nat) : tres :=
  match fuel with
  | O => TFuel
  | S f =>
    match take_doc nl recs [] with
    | (doc, rest, eof) =>
      if eof && is_nil doc then TOk [] else
      let i' := S i in
      let emit (rem' : list nat) (stop : bool) :=
        match base64_encode doc with
        | None => TFuel
        | Some e =>
          if stop then TOk (e ++ [10])
          else match enc_docs f nl use_idx rest i' rem' with
               | TOk o => TOk (e ++ 10 :: o)
               | x => x
               end
        end in
      if use_idx then
        match rem with
        | [] => TOk []
        | x :: rem' =>
          if Nat.eqb x i' then emit rem' (eof || is_nil rem')
          else if eof then TOk [] else enc_docs f nl use_idx rest i' rem
        end
      else emit rem eof
    end
  end.

Definition encode_tool (delim : Z) (indices : list nat) (input : list Z) : tres :=
  if docenc_rejects_index_zero && existsb (Nat.eqb 0) indices then TUsage else
  let recs := records delim docenc_encode_strip_cr input in
  enc_docs (S (length recs)) (delim =? 10) (negb (is_nil indices)) recs 0 (norm_indices indices).

(* ---- specification side ---- *)
Definition doc_text (d : list (list Z)) : list Z := unrecords 10 d.
(* what `docenc -d` prints for documents given as texts *)
Definition decoded_stream (delim : Z) (texts : list (list Z)) : list Z := unrecords delim texts.
(* the base64 file: one RFC 4648 line per document *)
Definition b64_file (texts : list (list Z)) : list Z := unrecords 10 (map rfc4648 texts).
(* documents selected by a strictly increasing list of 1-based indices *)
Fixpoint select_docs {A} (idx : list nat) (i : nat) (docs : list A) : list A :=
  match docs with
  | [] => []
  | d :: ds =>
    match idx with
    | [] => []
    | x :: idx' => if Nat.eqb x (S i) then d :: select_docs idx' (S i) ds else select_docs idx (S i) ds
    end
  end.

(* ---- command-line index arguments: parse_range(arg) ----
   std::stringstream >> size_t as libstdc++ implements it: leading white space skipped, optional
   sign ('-' negates modulo 2^64), decimal digits, overflow fails.  Then: end of string -> N;
   '-' and a second number followed by end of string -> M-N; anything else -> not an index (the
   argument is taken as a file name).  Index 0 and M > N are usage errors (exit 1).
   Ranges longer than 2^16 are not expanded by the model (ArgHuge; the tool allocates them). *)
Inductive arg_res := ArgIndices (l : list nat) | ArgFile | ArgUsage | ArgHuge.

Definition is_ws (c : Z) : bool := (c =? 32) || ((9 <=? c) && (c <=? 13)).
Definition is_digit (c : Z) : bool := (48 <=? c) && (c <=? 57).
Definition two64 : Z := 18446744073709551616.

Fixpoint skip_ws (cs : list Z) : list Z :=
  match cs with c :: r => if is_ws c then skip_ws r else cs | [] => [] end.

(* digits -> (value or overflow, rest); None = no digit at all *)
Fixpoint read_digits (cs : list Z) (acc : Z) (seen ovf : bool) : option (option Z * list Z) :=
  match cs with
  | c :: r =>
    if is_digit c then
      let acc' := acc * 10 + (c - 48) in
      read_digits r (if acc' <? two64 then acc' else 0) true (ovf || negb (acc' <? two64))
    else if seen then Some (if ovf then None else Some acc, cs) else None
  | [] => if seen then Some (if ovf then None else Some acc, []) else None
  end.

(* operator>>(size_t&): Some (Some v, rest) ok; Some (None, rest) overflow (failbit); None = no number *)
Definition read_size_t (cs : list Z) : option (option Z * list Z) :=
  let cs1 := skip_ws cs in
  match cs1 with
  | 43 :: r => read_digits r 0 false false
  | 45 :: r =>
    match read_digits r 0 false false with
    | Some (Some v, rest) => Some (Some ((two64 - v) mod two64), rest)
    | x => x
    end
  | _ => read_digits cs1 0 false false
  end.

Definition parse_range (arg : list Z) : arg_res :=
  match read_size_t arg with
  | Some (Some start, rest) =>
    if docenc_rejects_index_zero && (start =? 0) then ArgUsage else
    match rest with
    | [] => if start <? 65536 then ArgIndices [Z.to_nat start] else ArgHuge
    | 45 :: rest2 =>
      match read_size_t rest2 with
      | Some (Some e, rest3) =>
        (* the start > end test comes before the end-of-string test *)
        if e <? start then ArgUsage
        else match rest3 with
             | [] => if (e - start <? 65536) && (e <? 1048576)
                     then ArgIndices (seq (Z.to_nat start) (Z.to_nat (e - start + 1))) else ArgHuge
             | _ => ArgFile
             end
      | _ => ArgFile
      end
    | _ => ArgFile
    end
  | _ => ArgFile
  end.

(* all index arguments of one command line (file arguments are not modelled: stdin only) *)
Fixpoint parse_args (args : list (list Z)) : option (list nat) :=
  match args with
  | [] => Some []
  | a :: r =>
    match parse_range a, parse_args r with
    | ArgIndices l, Some l' => Some (l ++ l')
    | _, _ => None
    end
  end.
