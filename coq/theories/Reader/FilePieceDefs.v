(* Executable model of util::FilePiece's line reader (util/file_piece.cc/.hh) on top of
   the uncompressed part of util::ReadCompressed (util/compress.cc) and of the
   scripted OS of Sys/SysIODefs.v.  One Coq function per C++ function, same
   variables:

     fp_buf      the bytes [data_.begin(), position_end_)
     fp_pos      position_ - data_.begin()
     fp_cap      default_map_size_
     fp_at_end   at_end_
     fp_moff     mapped_offset_
     fp_fallback fallback_to_read_
     fp_mapped   position_ != NULL  (tested by MMapShift's `&& position_`)
     fp_rc       which ReadBase fell_back_ currently points to
     fp_os       the descriptor (read side): remaining bytes, outcome script, syscall trace
     fp_file     the whole regular file (mmap path); total_size_ = length fp_file
     fp_page     kPageSize
     fp_maps     trace of mmap(offset, size) calls, newest first

   Constants (growth factors, CR byte, magic numbers, initial window formula) come
   from the regenerated Gen/Src_filepiece.v.  No proofs here. *)
From PP Require Export Base.Lines Sys.SysIODefs.
Local Open Scope Z_scope.

(* ---- ReadCompressed, uncompressed readers only ---- *)
Inductive rcstate :=
| RcHeader (h : list Z)   (* UncompressedWithHeader: bytes already taken from the fd by ReadFactory *)
| RcFd                    (* Uncompressed: PartialRead on the fd *)
| RcComplete              (* Complete: always 0 *)
| RcIStream.              (* IStreamReader: std::istream::read, always full until EOF, no syscall of ours *)

Fixpoint is_prefix (p l : list Z) : bool :=
  match p, l with
  | [], _ => true
  | a :: p', b :: l' => (a =? b) && is_prefix p' l'
  | _ :: _, [] => false
  end.

(* DetectMagic(header, length) != UTIL_UNKNOWN *)
Definition detect_magic (h : list Z) : bool :=
  is_prefix rc_magic_gz h || is_prefix rc_magic_bz h || is_prefix rc_magic_xz h.

(* ReadFactory(fd, raw_amount, NULL, 0, false): ReadOrEOF of kMagicSize bytes, then dispatch *)
Definition read_factory (o : os) : res rcstate * os :=
  match read_or_eof rc_magic_size o with
  | (Fail e, o') => (Fail e, o')
  | (Ok [], o') => (Ok RcComplete, o')
  | (Ok h, o') => if detect_magic h then (Fail ECompressed, o') else (Ok (RcHeader h), o')
  end.

(* ReadCompressed::Read(to, amount) *)
Definition rc_read (amount : nat) (rc : rcstate) (o : os) : res (list Z) * rcstate * os :=
  match rc with
  | RcComplete => (Ok [], RcComplete, o)
  | RcHeader h =>
    (* sending = min(amount, end_ - remain_); if (remain_ == end_) ReplaceThis(new Uncompressed) *)
    let l := firstn amount h in
    (Ok l, match skipn amount h with [] => RcFd | r => RcHeader r end, o)
  | RcFd => let (r, o') := partial_read amount o in (r, RcFd, o')
  | RcIStream =>
    (Ok (firstn amount (os_src o)), RcIStream, mkOs (skipn amount (os_src o)) (os_script o) (os_trace o) (os_sink o))
  end.

(* ---- FilePiece ---- *)
Record fp := mkFp {
  fp_buf : list Z; fp_pos : nat; fp_cap : nat; fp_at_end : bool; fp_moff : nat;
  fp_fallback : bool; fp_mapped : bool; fp_rc : rcstate; fp_os : os;
  fp_file : list Z; fp_page : nat; fp_maps : list (nat * nat)
}.

Definition set_pos (s : fp) (p : nat) : fp :=
  mkFp (fp_buf s) p (fp_cap s) (fp_at_end s) (fp_moff s) (fp_fallback s) (fp_mapped s) (fp_rc s) (fp_os s)
       (fp_file s) (fp_page s) (fp_maps s).

(* default_map_size_ = kPageSize * max(min_buffer / kPageSize + 1, 2) *)
Definition initial_cap (page min_buffer : nat) : nat :=
  (page * Nat.max (min_buffer / page + fp_init_add) fp_init_min_pages)%nat.

(* void FilePiece::ReadShift() *)
Definition read_shift (s : fp) : res fp :=
  (* if (position_ == position_end_) { mapped_offset_ += position_end_ - begin; position_ = position_end_ = begin; } *)
  let '(buf1, pos1, moff1) :=
    if (fp_pos s =? length (fp_buf s))%nat then ([], O, (fp_moff s + length (fp_buf s))%nat)
    else (fp_buf s, fp_pos s, fp_moff s) in
  (* already_read = position_end_ - begin *)
  let already := length buf1 in
  let '(buf2, pos2, cap2) :=
    if (already =? fp_cap s)%nat then
      if (pos1 =? 0)%nat then (buf1, pos1, (fp_cap s * fp_read_grow)%nat)     (* HugeRealloc to twice the size *)
      else (skipn pos1 buf1, O, fp_cap s)                                      (* memmove to the front *)
    else (buf1, pos1, fp_cap s) in
  (* read_return = fell_back_.Read(begin + already_read, default_map_size_ - already_read) *)
  match rc_read (cap2 - length buf2) (fp_rc s) (fp_os s) with
  | (Fail e, _, _) => Fail e
  | (Ok l, rc', o') =>
    (* if (read_return == 0) at_end_ = true;  position_end_ += read_return; *)
    Ok (mkFp (buf2 ++ l) pos2 cap2 (if (length l =? fp_eof_read_return)%nat then true else fp_at_end s) moff1
             (fp_fallback s) (fp_mapped s) rc' o' (fp_file s) (fp_page s) (fp_maps s))
  end.

(* void FilePiece::TransitionToRead(): fresh buffer of default_map_size_, fell_back_.Reset(fd) *)
Definition transition_to_read (s : fp) : res fp :=
  match read_factory (fp_os s) with
  | (Fail e, _) => Fail e
  | (Ok rc, o') =>
    Ok (mkFp [] O (fp_cap s) (fp_at_end s) (fp_moff s) true (fp_mapped s) rc o' (fp_file s) (fp_page s) (fp_maps s))
  end.

(* void FilePiece::MMapShift(uint64_t desired_begin).  mmap of length 0 fails (EINVAL):
   the catch block seeks the descriptor to desired_begin and falls back to read(). *)
Definition mmap_shift (s : fp) : res fp :=
  let desired_begin := (fp_pos s + fp_moff s)%nat in
  let ignore := (desired_begin mod fp_page s)%nat in
  let cap' := if (fp_pos s =? ignore)%nat && fp_mapped s then (fp_cap s * fp_mmap_grow)%nat else fp_cap s in
  let mapped_offset := (desired_begin - ignore)%nat in
  let total := length (fp_file s) in
  let '(at_end', mapped_size) :=
    if (total - mapped_offset <=? cap')%nat then (true, (total - mapped_offset)%nat) else (fp_at_end s, cap') in
  if (mapped_size =? 0)%nat then
    let o := fp_os s in
    let o1 := if (desired_begin =? 0)%nat then o
              else mkOs (skipn desired_begin (fp_file s)) (os_script o) (os_trace o) (os_sink o) in
    transition_to_read (mkFp [] O cap' false (fp_moff s) false (fp_mapped s) (fp_rc s) o1 (fp_file s) (fp_page s)
                             ((mapped_offset, mapped_size) :: fp_maps s))
  else
    Ok (mkFp (firstn mapped_size (skipn mapped_offset (fp_file s))) ignore cap' at_end' mapped_offset
             false true (fp_rc s) (fp_os s) (fp_file s) (fp_page s) ((mapped_offset, mapped_size) :: fp_maps s)).

(* MMapShift when MapRead throws for any reason (ENOMEM, ENODEV on special files, EINVAL for /proc files
   whose st_size is 0): the catch block -- seek the descriptor to desired_begin (unless it is 0),
   at_end_ = false, TransitionToRead().  Nothing of the old window survives; read() takes over at the byte
   the caller was going to look at next. *)
Definition mmap_shift_failing (s : fp) : res fp :=
  let desired_begin := (fp_pos s + fp_moff s)%nat in
  let ignore := (desired_begin mod fp_page s)%nat in
  let cap' := if (fp_pos s =? ignore)%nat && fp_mapped s then (fp_cap s * fp_mmap_grow)%nat else fp_cap s in
  let mapped_offset := (desired_begin - ignore)%nat in
  let total := length (fp_file s) in
  let mapped_size := if (total - mapped_offset <=? cap')%nat then (total - mapped_offset)%nat else cap' in
  let o := fp_os s in
  let o1 := if (desired_begin =? 0)%nat then o
            else mkOs (skipn desired_begin (fp_file s)) (os_script o) (os_trace o) (os_sink o) in
  transition_to_read (mkFp [] O cap' false (fp_moff s) false (fp_mapped s) (fp_rc s) o1 (fp_file s) (fp_page s)
                           ((mapped_offset, mapped_size) :: fp_maps s)).

(* void FilePiece::Shift() *)
Definition shift (s : fp) : res fp :=
  if fp_at_end s then Fail EEndOfFile
  else
    match (if fp_fallback s then Ok s else mmap_shift s) with
    | Fail e => Fail e
    | Ok s1 => if fp_fallback s1 then read_shift s1 else Ok s1
    end.

(* FilePiece(int fd, ...) on a descriptor that cannot be sized or seeked (pipe):
   InitializeNoRead; TransitionToRead; Shift  *)
Definition fp_open_read (cap : nat) (o : os) : res fp :=
  match transition_to_read (mkFp [] O cap false O false false RcFd o [] 1%nat []) with
  | Fail e => Fail e
  | Ok s => shift s
  end.

(* FilePiece(std::istream &, ...): InitializeNoRead; buffer; fell_back_.Reset(stream); no Shift *)
Definition fp_open_istream (cap : nat) (src : list Z) : fp :=
  mkFp [] O cap false O true false RcIStream (os_init src []) [] 1%nat [].

(* What TransitionToRead leaves behind when ReadFactory installed a decompressing reader
   (gz / bz2 / xz, possibly several members): an empty buffer and a reader whose Read(to, amount)
   returns between 1 and amount of the next PLAIN bytes and 0 only at the end -- that is the
   contract property C15 establishes for ReadStream.  Such a reader is exactly RcFd over the
   plain bytes with some outcome script (the script is the chunking). *)
Definition fp_open_stream (cap : nat) (plain : list Z) (chunking : list outcome) : fp :=
  mkFp [] O cap false O true false RcFd (os_init plain chunking) [] 1%nat [].

(* FilePiece(fd/name) on a regular file of contents `file` whose descriptor stands at
   offset off: mapped_offset_ = off; Shift; magic test on the first window *)
Definition fp_open_file (page cap : nat) (file : list Z) (off : nat) (script : list outcome) : res fp :=
  match shift (mkFp [] O cap false off false false RcFd (os_init (skipn off file) script) file page []) with
  | Fail e => Fail e
  | Ok s =>
    if negb (fp_fallback s) && (rc_magic_size <=? length (fp_buf s) - fp_pos s)%nat
       && detect_magic (firstn rc_magic_size (skipn (fp_pos s) (fp_buf s)))
    then Fail ECompressed else Ok s
  end.

(* the same constructor when the FIRST mmap fails: Shift = MMapShift (catch block), then ReadShift;
   the magic test of Initialize does nothing in read mode (ReadFactory has already looked) *)
Definition fp_open_file_mmap_fails (page cap : nat) (file : list Z) (off : nat) (script : list outcome) : res fp :=
  match mmap_shift_failing (mkFp [] O cap false off false false RcFd (os_init (skipn off file) script) file page []) with
  | Fail e => Fail e
  | Ok s => read_shift s
  end.

(* std::find(first, last, delim) - first *)
Fixpoint find_idx (d : Z) (l : list Z) : option nat :=
  match l with
  | [] => None
  | b :: r => if b =? d then Some O else option_map S (find_idx d r)
  end.

Inductive rl := RlLine (l : list Z) | RlEOF | RlFail (e : ioerr).

(* StringPiece FilePiece::ReadLine(char delim, bool strip_cr): the while(true) loop;
   RlEOF = EndOfFileException (what ReadLineOrEOF turns into `false`) *)
Fixpoint read_line_loop (fuel : nat) (d : Z) (cr : bool) (skip : nat) (s : fp) : rl * fp :=
  match fuel with
  | O => (RlFail EFuel, s)
  | S f =>
    match find_idx d (skipn (fp_pos s + skip) (fp_buf s)) with
    | Some j =>
      let i := (fp_pos s + skip + j)%nat in
      let subtract_cr :=
        if cr && (fp_pos s <? i)%nat && (nth (i - 1) (fp_buf s) 0 =? fp_cr_byte) then fp_cr_subtract else fp_cr_else in
      (RlLine (firstn (i - fp_pos s - subtract_cr) (skipn (fp_pos s) (fp_buf s))), set_pos s (S i))
    | None =>
      if fp_at_end s then
        if (fp_pos s =? length (fp_buf s))%nat then (RlEOF, s)     (* Shift() throws EndOfFileException *)
        else (RlLine (skipn (fp_pos s) (fp_buf s)), set_pos s (length (fp_buf s)))   (* Consume(position_end_) *)
      else
        match shift s with
        | Fail e => (RlFail e, s)
        | Ok s' => read_line_loop f d cr (length (fp_buf s) - fp_pos s) s'
        end
    end
  end.

(* bytes that can still arrive: bounds the number of Shift calls of one ReadLine *)
Definition pending (s : fp) : nat :=
  ((match fp_rc s with RcHeader h => length h | _ => O end) + length (os_src (fp_os s)) + length (fp_file s))%nat.
Definition line_fuel (s : fp) : nat := (pending s + rc_magic_size + 4)%nat.

Definition read_line (d : Z) (cr : bool) (s : fp) : rl * fp := read_line_loop (line_fuel s) d cr O s.

(* repeated ReadLineOrEOF until it returns false: the records the caller sees *)
Fixpoint read_all_loop (n : nat) (d : Z) (cr : bool) (s : fp) : res (list (list Z)) * fp :=
  match n with
  | O => (Fail EFuel, s)
  | S n' =>
    match read_line d cr s with
    | (RlLine l, s') =>
      match read_all_loop n' d cr s' with
      | (Ok ls, s'') => (Ok (l :: ls), s'')
      | r => r
      end
    | (RlEOF, s') => (Ok [], s')
    | (RlFail e, s') => (Fail e, s')
    end
  end.

Definition read_all (d : Z) (cr : bool) (s : fp) : res (list (list Z)) * fp :=
  read_all_loop (pending s + length (fp_buf s) + 2)%nat d cr s.

(* ---- other loops over ReadCompressed::Read (property C03) ---- *)

(* std::size_t ReadCompressed::ReadOrEOF(void *to, std::size_t amount):
     while (amount) { got = Read(to, amount); if (!got) break; to += got; amount -= got; } *)
Fixpoint rc_read_or_eof_loop (fuel amount : nat) (acc : list Z) (rc : rcstate) (o : os) : res (list Z) * rcstate * os :=
  match amount with
  | O => (Ok acc, rc, o)
  | S _ =>
    match fuel with
    | O => (Fail EFuel, rc, o)
    | S f =>
      match rc_read amount rc o with
      | (Fail e, rc', o') => (Fail e, rc', o')
      | (Ok [], rc', o') => (Ok acc, rc', o')
      | (Ok l, rc', o') => rc_read_or_eof_loop f (amount - length l) (acc ++ l) rc' o'
      end
    end
  end.
Definition rc_read_or_eof (amount : nat) (rc : rcstate) (o : os) : res (list Z) * rcstate * os :=
  rc_read_or_eof_loop (S amount) amount [] rc o.

(* ReadCompressed rc(fd); rc.ReadOrEOF(to, amount) *)
Definition rc_open_read_or_eof (amount : nat) (o : os) : res (list Z) * os :=
  match read_factory o with
  | (Fail e, o') => (Fail e, o')
  | (Ok rc, o') => let '(r, _, o'') := rc_read_or_eof amount rc o' in (r, o'')
  end.

(* the body loop of WARCReader::Read (preprocess/warc.cc):
     while (start != out.size()) { got = reader_.Read(&out[start], out.size() - start);
                                   UTIL_THROW_IF(!got, EndOfFileException, ...); start += got; } *)
Fixpoint warc_body_loop (fuel missing : nat) (acc : list Z) (rc : rcstate) (o : os) : res (list Z) * rcstate * os :=
  match missing with
  | O => (Ok acc, rc, o)
  | S _ =>
    match fuel with
    | O => (Fail EFuel, rc, o)
    | S f =>
      match rc_read missing rc o with
      | (Fail e, rc', o') => (Fail e, rc', o')
      | (Ok [], rc', o') => (Fail EEndOfFile, rc', o')
      | (Ok l, rc', o') => warc_body_loop f (missing - length l) (acc ++ l) rc' o'
      end
    end
  end.
Definition warc_body (missing : nat) (rc : rcstate) (o : os) : res (list Z) * rcstate * os :=
  warc_body_loop (S missing) missing [] rc o.

(* ReadStream<Codec>::ReadInput (util/compress.cc): each refill of the decompressor's input is
   ReadOrEOF(file, in_buffer, kInputBuffer).  [refills] = the successive buffers the codec is
   given until a refill comes back empty (end of the compressed file). *)
Fixpoint read_stream_refills (fuel : nat) (bufsize : nat) (o : os) : res (list (list Z)) * os :=
  match fuel with
  | O => (Fail EFuel, o)
  | S f =>
    match read_or_eof bufsize o with
    | (Fail e, o') => (Fail e, o')
    | (Ok [], o') => (Ok [], o')
    | (Ok l, o') =>
      match read_stream_refills f bufsize o' with
      | (Ok ls, o'') => (Ok (l :: ls), o'')
      | r => r
      end
    end
  end.

(* a whole line-filter tool (remove_long_lines, and the shape of every FilePiece -> FileStream tool):
   read all records under one outcome script, write the kept ones, each followed by '\n'
   (operator<<(StringPiece) then operator<<(char)), through a FileStream under another script *)
Definition line_filter_tool (keep : list Z -> bool) (cap bcap : nat) (src : list Z) (rscript wscript : list outcome) : res (list Z) :=
  match fp_open_read cap (os_init src rscript) with
  | Fail e => Fail e
  | Ok s =>
    match read_all 10%Z true s with
    | (Fail e, _) => Fail e
    | (Ok recs, _) =>
      match bs_run (flat_map (fun r => [r; [10%Z]]) (filter keep recs)) (mkBs [] bcap) (os_init [] wscript) with
      | (Ok _, o) => Ok (os_sink o)
      | (Fail e, _) => Fail e
      end
    end
  end.

