(* Proofs for the FilePiece model (property C02): repeated ReadLineOrEOF returns exactly
   [records delim strip_cr input], for every outcome script of the OS (read path), every
   window size, every page size and start offset (mmap path); EOF is sticky; the fuel
   error is unreachable. *)
From PP Require Import Reader.FilePieceDefs Sys.SysIOProofs.
From Coq Require Import Lia Arith ZifyBool.
Ltac Zify.zify_post_hook ::= Z.div_mod_to_equations.
Local Open Scope nat_scope.

(* ------------------------------------------------------------------ lists *)
Lemma skipn_skipn' {A} (a b : nat) (l : list A) : skipn (a + b) l = skipn b (skipn a l).
Proof.
  revert l. induction a as [|a IH]; intros l; [reflexivity|].
  destruct l as [|x l]; simpl; [destruct b; reflexivity|apply IH].
Qed.

Lemma nth_skipn' (p k : nat) (l : list Z) : nth (p + k) l 0%Z = nth k (skipn p l) 0%Z.
Proof.
  revert l. induction p as [|p IH]; intros l; [reflexivity|].
  destruct l as [|b l]; [destruct k; reflexivity|]. simpl. apply IH.
Qed.

Lemma firstn_snoc_nth (j : nat) (w : list Z) : j < length w -> firstn (S j) w = firstn j w ++ [nth j w 0%Z].
Proof.
  revert w. induction j as [|j IH]; intros w H; destruct w as [|b w]; simpl in *; try lia; [reflexivity|].
  f_equal. apply IH. lia.
Qed.

(* ------------------------------------------------------------------ find / records *)
Lemma find_idx_none d l : find_idx d l = None <-> no_delim d l = true.
Proof.
  induction l as [|b l IH]; simpl; [tauto|].
  destruct (Z.eqb b d); simpl.
  - split; discriminate.
  - destruct (find_idx d l); simpl in *; split; intros H; try discriminate; try (apply IH; exact H).
    + apply IH in H. discriminate.
Qed.

Lemma find_idx_some d l j : find_idx d l = Some j ->
  j < length l /\ no_delim d (firstn j l) = true /\ l = firstn j l ++ d :: skipn (S j) l.
Proof.
  revert j. induction l as [|b l IH]; intros j H; simpl in H; [discriminate|].
  destruct (Z.eqb_spec b d) as [->|Hne].
  - inversion H; subst. simpl. repeat split; auto. lia.
  - destruct (find_idx d l) as [k|]; simpl in H; [|discriminate]. inversion H; subst j.
    destruct (IH k eq_refl) as (H1 & H2 & H3). simpl. repeat split.
    + lia.
    + apply Z.eqb_neq in Hne. rewrite Hne. simpl. exact H2.
    + f_equal. exact H3.
Qed.

Lemma find_idx_app_nodelim d a b : no_delim d a = true ->
  find_idx d (a ++ b) = option_map (fun j => length a + j) (find_idx d b).
Proof.
  induction a as [|x a IH]; intros H; simpl.
  - destruct (find_idx d b); reflexivity.
  - simpl in H. apply andb_true_iff in H. destruct H as [Hx Ha].
    destruct (Z.eqb x d); [discriminate|]. rewrite IH by exact Ha.
    destruct (find_idx d b); reflexivity.
Qed.

Lemma find_idx_app_some d a b j : find_idx d a = Some j -> find_idx d (a ++ b) = Some j.
Proof.
  revert j. induction a as [|x a IH]; intros j H; simpl in *; [discriminate|].
  destruct (Z.eqb x d); [exact H|].
  destruct (find_idx d a) as [k|]; [|discriminate]. rewrite (IH k eq_refl). exact H.
Qed.

Lemma no_delim_app d a b : no_delim d (a ++ b) = no_delim d a && no_delim d b.
Proof. unfold no_delim. apply forallb_app. Qed.

Definition crstrip (cr : bool) (l : list Z) : list Z := if cr then strip_cr l else l.

Lemma records_cons d cr l rest : no_delim d l = true ->
  records d cr (l ++ d :: rest) = crstrip cr l :: records d cr rest.
Proof.
  intros H. unfold records. rewrite split_at_app_nodelim by exact H. simpl.
  rewrite Z.eqb_refl. destruct (split_at d rest []) as [rs t]. simpl.
  rewrite app_nil_r, rev_involutive. unfold crstrip. destruct cr; reflexivity.
Qed.

Lemma records_nodelim d cr l : no_delim d l = true ->
  records d cr l = match l with [] => [] | _ => [l] end.
Proof.
  intros H. unfold records. rewrite <- (app_nil_r l) at 1. rewrite split_at_app_nodelim by exact H.
  simpl. rewrite app_nil_r, rev_involutive. reflexivity.
Qed.

Lemma strip_cr_snoc l x : strip_cr (l ++ [x]) = if Z.eqb x 13 then l else l ++ [x].
Proof.
  unfold strip_cr. rewrite rev_app_distr. simpl.
  destruct (Z.eqb_spec x 13) as [->|Hne].
  - apply rev_involutive.
  - destruct x as [|p|p]; try reflexivity.
    do 4 (destruct p as [p|p|]; try reflexivity). congruence.
Qed.

(* the record ReadLine cuts out of the window: CR test on the byte before the delimiter *)
Lemma cut_record (cr : bool) (buf : list Z) (pos j : nat) :
  pos + j < length buf ->
  let w := skipn pos buf in
  let i := pos + j in
  firstn (i - pos - (if cr && (pos <? i) && Z.eqb (nth (i - 1) buf 0%Z) fp_cr_byte then fp_cr_subtract else fp_cr_else)) w
  = crstrip cr (firstn j w).
Proof.
  intros Hlt w i. unfold fp_cr_byte, fp_cr_subtract, fp_cr_else, i.
  assert (Hw : length w = length buf - pos) by (unfold w; apply skipn_length).
  replace (pos + j - pos) with j by lia.
  destruct j as [|j].
  - replace (pos <? pos + 0) with false by (symmetry; apply Nat.ltb_ge; lia).
    rewrite andb_false_r. simpl. unfold crstrip, strip_cr. destruct cr; reflexivity.
  - replace (pos <? pos + S j) with true by (symmetry; apply Nat.ltb_lt; lia).
    replace (pos + S j - 1) with (pos + j) by lia.
    rewrite nth_skipn'. fold w. rewrite andb_true_r.
    rewrite (firstn_snoc_nth j w) by lia.
    unfold crstrip. destruct cr; simpl andb.
    + rewrite strip_cr_snoc. destruct (Z.eqb (nth j w 0%Z) 13).
      * f_equal. lia.
      * replace (S j - 0) with (S j) by lia. apply firstn_snoc_nth. lia.
    + replace (S j - 0) with (S j) by lia. apply firstn_snoc_nth. lia.
Qed.

(* ------------------------------------------------------------------ the ReadLine loop, for any back end *)
Definition window (s : fp) : list Z := skipn (fp_pos s) (fp_buf s).

Section ReadLineGeneric.
  Variable I : fp -> Prop.            (* invariant of the back end *)
  Variable up : fp -> list Z.         (* bytes that will still arrive after the window *)
  Definition mu (s : fp) : nat := length (up s) + (if fp_at_end s then 0 else 1).

  Hypothesis I_pos : forall s, I s -> fp_pos s <= length (fp_buf s).
  Hypothesis I_end : forall s, I s -> fp_at_end s = true -> up s = [].
  Hypothesis I_setpos : forall s p, I s -> fp_pos s <= p <= length (fp_buf s) -> I (set_pos s p).
  Hypothesis up_setpos : forall s p, up (set_pos s p) = up s.
  Hypothesis I_shift : forall s, I s -> fp_at_end s = false ->
    exists s' l, shift s = Ok s' /\ I s' /\ window s' = window s ++ l /\ up s = l ++ up s' /\ mu s' < mu s.

  Definition rest (s : fp) : list Z := window s ++ up s.

  (* what one ReadLine call does, in terms of the bytes from the read position on *)
  Definition line_post (d : Z) (cr : bool) (r : list Z) (out : rl * fp) : Prop :=
    let (res, s') := out in
    I s' /\
    match find_idx d r with
    | Some j => res = RlLine (crstrip cr (firstn j r)) /\ rest s' = skipn (S j) r
    | None =>
      match r with
      | [] => res = RlEOF /\ rest s' = [] /\ fp_at_end s' = true
      | _ => res = RlLine r /\ rest s' = [] /\ fp_at_end s' = true
      end
    end.

  Lemma read_line_loop_spec : forall fuel d cr skip s,
    I s -> skip <= length (window s) -> no_delim d (firstn skip (window s)) = true -> mu s < fuel ->
    line_post d cr (rest s) (read_line_loop fuel d cr skip s).
  Proof.
    induction fuel as [|f IH]; intros d cr skip s HI Hskip Hnd Hmu; [lia|].
    pose proof (I_pos s HI) as Hpos.
    assert (Hwl : length (window s) = length (fp_buf s) - fp_pos s) by (unfold window; apply skipn_length).
    cbn [read_line_loop]. rewrite skipn_skipn'. fold (window s).
    assert (Hsplit : window s = firstn skip (window s) ++ skipn skip (window s)) by (symmetry; apply firstn_skipn).
    assert (Hfl : length (firstn skip (window s)) = skip) by (rewrite firstn_length; lia).
    destruct (find_idx d (skipn skip (window s))) as [j'|] eqn:Ef.
    - (* delimiter inside the window *)
      assert (Efw : find_idx d (window s) = Some (skip + j')).
      { rewrite Hsplit at 1. rewrite find_idx_app_nodelim by exact Hnd. rewrite Ef. simpl. rewrite Hfl. reflexivity. }
      destruct (find_idx_some _ _ _ Efw) as (Hj & _ & _).
      unfold line_post. split.
      + apply I_setpos; [exact HI|lia].
      + unfold rest at 1. rewrite (find_idx_app_some _ _ _ _ Efw).
        split.
        * f_equal. replace (fp_pos s + skip + j') with (fp_pos s + (skip + j')) by lia.
          pose proof (cut_record cr (fp_buf s) (fp_pos s) (skip + j')) as Hcut.
          cbv zeta in Hcut. fold (window s) in Hcut. rewrite Hcut by lia.
          f_equal. unfold rest. rewrite firstn_app.
          replace (skip + j' - length (window s)) with 0 by lia. simpl. rewrite app_nil_r. reflexivity.
        * unfold rest. rewrite up_setpos. unfold window at 1. cbn [set_pos fp_pos fp_buf].
          replace (S (fp_pos s + skip + j')) with (fp_pos s + S (skip + j')) by lia.
          rewrite skipn_skipn'. fold (window s). rewrite skipn_app.
          replace (S (skip + j') - length (window s)) with 0 by lia. reflexivity.
    - (* no delimiter in the window *)
      apply find_idx_none in Ef.
      assert (Hndw : no_delim d (window s) = true).
      { rewrite Hsplit, no_delim_app, Hnd, Ef. reflexivity. }
      destruct (fp_at_end s) eqn:Eend.
      + (* at_end_: whatever is left is the last record *)
        pose proof (I_end s HI Eend) as Hup.
        assert (Hr : rest s = window s) by (unfold rest; rewrite Hup; apply app_nil_r).
        destruct (Nat.eqb_spec (fp_pos s) (length (fp_buf s))) as [Heq|Hne].
        * assert (Hw0 : window s = []) by (apply length_zero_iff_nil; lia).
          unfold line_post. split; [exact HI|]. rewrite Hr, Hw0. simpl. repeat split; auto;
          unfold rest; rewrite Hw0, Hup; reflexivity.
        * unfold line_post. split; [apply I_setpos; [exact HI|lia]|].
          rewrite Hr. apply find_idx_none in Hndw. rewrite Hndw.
          assert (Hwne : window s <> []) by (intros Hc; rewrite Hc in Hwl; simpl in Hwl; lia).
          destruct (window s) as [|b w] eqn:Ew; [congruence|].
          repeat split; auto.
          unfold rest. rewrite up_setpos, Hup. unfold window. cbn [set_pos fp_pos fp_buf].
          rewrite skipn_all. reflexivity.
      + (* Shift() and look again, skipping what was already searched *)
        destruct (I_shift s HI Eend) as (s' & l & Es & HI' & Hw' & Hup' & Hmu').
        rewrite Es.
        assert (Hrest : rest s' = rest s).
        { unfold rest. rewrite Hw', Hup', app_assoc. reflexivity. }
        rewrite <- Hrest. rewrite <- Hwl. apply IH.
        * exact HI'.
        * rewrite Hw', app_length. lia.
        * rewrite Hw', firstn_app, Nat.sub_diag, firstn_all. simpl. rewrite app_nil_r. exact Hndw.
        * lia.
  Qed.

  (* EOF is sticky: at the end ReadLine reports EOF and leaves the state as it is *)
  Lemma read_line_at_eof d cr fuel s : I s -> rest s = [] -> fp_at_end s = true ->
    read_line_loop (S fuel) d cr 0 s = (RlEOF, s).
  Proof.
    intros HI Hr He. pose proof (I_pos s HI) as Hpos.
    unfold rest in Hr. apply app_eq_nil in Hr. destruct Hr as [Hw Hu].
    cbn [read_line_loop]. rewrite Nat.add_0_r. fold (window s). rewrite Hw. simpl. rewrite He.
    assert (length (window s) = length (fp_buf s) - fp_pos s) by (unfold window; apply skipn_length).
    rewrite Hw in H. simpl in H.
    destruct (Nat.eqb_spec (fp_pos s) (length (fp_buf s))); [reflexivity|lia].
  Qed.

  (* all records, by repeated ReadLineOrEOF *)
  Hypothesis fuel_ok : forall s, I s -> mu s < line_fuel s.

  Lemma read_all_loop_spec : forall n d cr s,
    I s -> length (rest s) < n ->
    exists s', read_all_loop n d cr s = (Ok (records d cr (rest s)), s') /\ I s' /\ rest s' = [] /\ fp_at_end s' = true.
  Proof.
    induction n as [|n IH]; intros d cr s HI Hn; [lia|].
    cbn [read_all_loop]. unfold read_line.
    pose proof (read_line_loop_spec (line_fuel s) d cr 0 s HI (Nat.le_0_l _) eq_refl (fuel_ok s HI)) as Hpost.
    destruct (read_line_loop (line_fuel s) d cr 0 s) as [res s1]. unfold line_post in Hpost.
    destruct Hpost as [HI1 Hpost].
    destruct (find_idx d (rest s)) as [j|] eqn:Ef.
    - destruct Hpost as [-> Hr1].
      destruct (find_idx_some _ _ _ Ef) as (Hj & Hnd & Hdec).
      destruct (IH d cr s1 HI1) as (s2 & E2 & HI2 & Hr2 & He2).
      { rewrite Hr1, skipn_length. lia. }
      rewrite E2. exists s2. split; [|auto].
      f_equal. f_equal. rewrite Hdec at 2. rewrite records_cons by exact Hnd. rewrite Hr1. reflexivity.
    - apply find_idx_none in Ef. rewrite (records_nodelim d cr _ Ef).
      destruct (rest s) as [|b r] eqn:Er.
      + destruct Hpost as (-> & Hr1 & He1). exists s1. auto.
      + destruct Hpost as (-> & Hr1 & He1).
        destruct (IH d cr s1 HI1) as (s2 & E2 & HI2 & Hr2 & He2).
        { rewrite Hr1. simpl in *. lia. }
        rewrite E2. rewrite Hr1. simpl. exists s2. auto.
  Qed.
End ReadLineGeneric.

(* ------------------------------------------------------------------ the read() back end *)
Definition rc_pending (rc : rcstate) : list Z := match rc with RcHeader h => h | _ => [] end.
Definition up_r (s : fp) : list Z := rc_pending (fp_rc s) ++ os_src (fp_os s).

Definition rc_wf (rc : rcstate) (o : os) : Prop :=
  match rc with
  | RcHeader h => h <> []
  | RcComplete => os_src o = []
  | _ => True
  end.

Definition RInv (s : fp) : Prop :=
  fp_fallback s = true /\ fp_pos s <= length (fp_buf s) /\ length (fp_buf s) <= fp_cap s /\ 1 <= fp_cap s /\
  rc_wf (fp_rc s) (fp_os s) /\ (fp_at_end s = true -> up_r s = []) /\ no_err (os_script (fp_os s)) = true.

Lemma rc_read_spec amount rc o :
  1 <= amount -> rc_wf rc o -> no_err (os_script o) = true ->
  exists l rc' o', rc_read amount rc o = (Ok l, rc', o') /\
    rc_pending rc ++ os_src o = l ++ rc_pending rc' ++ os_src o' /\ length l <= amount /\
    (l = [] -> rc_pending rc' ++ os_src o' = []) /\ rc_wf rc' o' /\ no_err (os_script o') = true.
Proof.
  intros Ha Hwf Hne. destruct rc as [h| | |]; simpl in *.
  - exists (firstn amount h).
    destruct (skipn amount h) as [|b r] eqn:Es.
    + exists RcFd, o. simpl. repeat split; auto.
      * rewrite <- (firstn_skipn amount h) at 1. rewrite Es, app_nil_r. reflexivity.
      * rewrite firstn_length. lia.
      * intros Hc. apply firstn_nil_inv in Hc; [congruence|exact Ha].
    + exists (RcHeader (b :: r)), o. simpl. repeat split; auto.
      * rewrite <- (firstn_skipn amount h) at 1. rewrite Es, <- app_assoc. reflexivity.
      * rewrite firstn_length. lia.
      * intros Hc. apply firstn_nil_inv in Hc; [congruence|exact Ha].
      * discriminate.
  - destruct (partial_read_ok amount o Hne) as (l & o' & E & H1 & H2 & H3 & H4 & H5 & H6).
    rewrite E. exists l, RcFd, o'. simpl. repeat split; auto.
    intros Hl. specialize (H3 Ha Hl). rewrite H3 in H1. subst l. simpl in H1. auto.
  - exists [], RcComplete, o. simpl. rewrite Hwf. repeat split; auto. lia.
  - exists (firstn amount (os_src o)), RcIStream, (mkOs (skipn amount (os_src o)) (os_script o) (os_trace o) (os_sink o)).
    simpl. repeat split; auto.
    + symmetry. apply firstn_skipn.
    + rewrite firstn_length. lia.
    + intros Hc. apply firstn_nil_inv in Hc; [|exact Ha]. rewrite Hc. destruct amount; reflexivity.
Qed.

Lemma read_shift_spec s : RInv s -> fp_at_end s = false ->
  exists s' l, read_shift s = Ok s' /\ RInv s' /\ window s' = window s ++ l /\ up_r s = l ++ up_r s' /\
    mu up_r s' < mu up_r s.
Proof.
  intros (Hfb & Hpos & Hcap & Hc1 & Hwf & Hend & Hne) Hae.
  unfold read_shift.
  (* the three layouts of the buffer before the read *)
  set (b1 := if fp_pos s =? length (fp_buf s) then ([], 0, fp_moff s + length (fp_buf s)) else (fp_buf s, fp_pos s, fp_moff s)).
  assert (Hb1 : exists buf1 pos1 moff1, b1 = (buf1, pos1, moff1) /\ pos1 <= length buf1 /\ length buf1 <= fp_cap s /\
                 skipn pos1 buf1 = window s /\ (pos1 = length buf1 -> buf1 = [])).
  { unfold b1. destruct (Nat.eqb_spec (fp_pos s) (length (fp_buf s))) as [He|Hn].
    - exists [], 0, (fp_moff s + length (fp_buf s)). repeat split; simpl; auto; try lia.
      unfold window. rewrite He, skipn_all. reflexivity.
    - exists (fp_buf s), (fp_pos s), (fp_moff s). repeat split; auto. intros; lia. }
  destruct Hb1 as (buf1 & pos1 & moff1 & -> & Hp1 & Hl1 & Hw1 & He1).
  set (b2 := if length buf1 =? fp_cap s then
               if pos1 =? 0 then (buf1, pos1, fp_cap s * fp_read_grow) else (skipn pos1 buf1, 0, fp_cap s)
             else (buf1, pos1, fp_cap s)).
  assert (Hb2 : exists buf2 pos2 cap2, b2 = (buf2, pos2, cap2) /\ pos2 <= length buf2 /\ length buf2 < cap2 /\
                 skipn pos2 buf2 = window s).
  { unfold b2, fp_read_grow. destruct (Nat.eqb_spec (length buf1) (fp_cap s)) as [He|Hn].
    - destruct (Nat.eqb_spec pos1 0) as [Hz|Hnz].
      + exists buf1, pos1, (fp_cap s * 2). repeat split; auto. lia.
      + exists (skipn pos1 buf1), 0, (fp_cap s). repeat split; simpl; auto; try lia.
        rewrite skipn_length. lia.
    - exists buf1, pos1, (fp_cap s). repeat split; auto. lia. }
  destruct Hb2 as (buf2 & pos2 & cap2 & -> & Hp2 & Hl2 & Hw2).
  destruct (rc_read_spec (cap2 - length buf2) (fp_rc s) (fp_os s)) as (l & rc' & o' & E & Hdec & Hll & Hnil & Hwf' & Hne'); auto; [lia|].
  rewrite E.
  eexists _, l. split; [reflexivity|].
  assert (Hwin : window (mkFp (buf2 ++ l) pos2 cap2 (if length l =? fp_eof_read_return then true else fp_at_end s) moff1
                              (fp_fallback s) (fp_mapped s) rc' o' (fp_file s) (fp_page s) (fp_maps s)) = window s ++ l).
  { unfold window at 1. cbn [fp_pos fp_buf]. rewrite skipn_app.
    replace (pos2 - length buf2) with 0 by lia. simpl. rewrite Hw2. reflexivity. }
  unfold fp_eof_read_return.
  split; [|split; [exact Hwin|split]].
  - unfold RInv. cbn [fp_fallback fp_pos fp_buf fp_cap fp_rc fp_os fp_at_end].
    repeat split; auto; try (rewrite app_length; lia); try lia.
    unfold up_r. cbn [fp_rc fp_os]. rewrite Hae.
    destruct (Nat.eqb_spec (length l) 0) as [Hz|Hnz]; [|discriminate].
    intros _. apply Hnil. apply length_zero_iff_nil. exact Hz.
  - unfold up_r. cbn [fp_rc fp_os]. exact Hdec.
  - unfold mu, up_r. cbn [fp_rc fp_os fp_at_end]. rewrite Hae.
    unfold up_r in Hdec. rewrite Hdec, !app_length.
    destruct (Nat.eqb_spec (length l) 0) as [Hz|Hnz]; lia.
Qed.

Lemma RInv_shift s : RInv s -> fp_at_end s = false ->
  exists s' l, shift s = Ok s' /\ RInv s' /\ window s' = window s ++ l /\ up_r s = l ++ up_r s' /\
    mu up_r s' < mu up_r s.
Proof.
  intros HI Hae. destruct (read_shift_spec s HI Hae) as (s' & l & E & R).
  exists s', l. split; [|exact R].
  unfold shift. rewrite Hae. destruct HI as (Hfb & _). rewrite Hfb. rewrite Hfb. exact E.
Qed.

Lemma RInv_pos s : RInv s -> fp_pos s <= length (fp_buf s).
Proof. intros H. apply H. Qed.
Lemma RInv_end s : RInv s -> fp_at_end s = true -> up_r s = [].
Proof. intros H. apply H. Qed.
Lemma RInv_setpos s p : RInv s -> fp_pos s <= p <= length (fp_buf s) -> RInv (set_pos s p).
Proof. intros (H1 & H2 & H3 & H4 & H5 & H6 & H7) Hp. unfold RInv, set_pos, up_r in *. simpl. repeat split; auto; lia. Qed.
Lemma up_r_setpos s p : up_r (set_pos s p) = up_r s.
Proof. reflexivity. Qed.

Lemma RInv_fuel s : RInv s -> mu up_r s < line_fuel s.
Proof.
  intros _. unfold mu, line_fuel, pending, up_r, rc_pending, rc_magic_size. rewrite app_length.
  destruct (fp_rc s), (fp_at_end s); simpl; lia.
Qed.

Local Arguments rc_magic_size : simpl never.

(* opening a pipe: ReadFactory takes the first kMagicSize bytes, then the first Shift *)
Lemma is_prefix_firstn p l n : length p <= n -> is_prefix p (firstn n l) = is_prefix p l.
Proof.
  revert l n. induction p as [|a p IH]; intros l n H; [reflexivity|].
  destruct n as [|n]; [simpl in H; lia|]. destruct l as [|b l]; [reflexivity|].
  simpl. rewrite IH by (simpl in H; lia). reflexivity.
Qed.

Lemma detect_magic_firstn l : detect_magic (firstn rc_magic_size l) = detect_magic l.
Proof.
  unfold detect_magic, rc_magic_size, rc_magic_gz, rc_magic_bz, rc_magic_xz.
  rewrite !is_prefix_firstn by (simpl; lia). reflexivity.
Qed.

Lemma read_factory_spec o : no_err (os_script o) = true -> detect_magic (os_src o) = false ->
  exists rc o', read_factory o = (Ok rc, o') /\ rc_pending rc ++ os_src o' = os_src o /\ rc_wf rc o' /\
    no_err (os_script o') = true.
Proof.
  intros Hne Hm. unfold read_factory.
  destruct (read_or_eof_exact rc_magic_size o Hne) as (o' & E & Hs & Hne' & _).
  rewrite E. destruct (firstn rc_magic_size (os_src o)) as [|b h] eqn:Eh.
  - exists RcComplete, o'. simpl. repeat split; auto.
    + rewrite Hs. rewrite <- (firstn_skipn rc_magic_size (os_src o)) at 2. rewrite Eh. reflexivity.
    + apply firstn_nil_inv in Eh; [|unfold rc_magic_size; lia]. rewrite Hs, Eh. reflexivity.
  - rewrite <- Eh, detect_magic_firstn, Hm.
    exists (RcHeader (firstn rc_magic_size (os_src o))), o'. cbn [rc_pending rc_wf]. repeat split; auto.
    + rewrite Hs. apply firstn_skipn.
    + rewrite Eh. discriminate.
Qed.

Lemma fp_open_read_spec cap src script :
  1 <= cap -> no_err script = true -> detect_magic src = false ->
  exists s, fp_open_read cap (os_init src script) = Ok s /\ RInv s /\ rest up_r s = src.
Proof.
  intros Hc Hne Hm. unfold fp_open_read, transition_to_read. cbn [fp_os].
  destruct (read_factory_spec (os_init src script)) as (rc & o' & E & Hp & Hwf & Hne'); auto.
  rewrite E. cbn [fp_cap fp_at_end fp_moff fp_mapped fp_file fp_page fp_maps].
  set (s0 := mkFp [] 0 cap false 0 true false rc o' [] 1 []).
  assert (HI0 : RInv s0).
  { unfold RInv, s0. simpl. repeat split; auto; try lia; try discriminate. }
  destruct (RInv_shift s0 HI0 eq_refl) as (s' & l & Es & HI' & Hw & Hup & _).
  exists s'. split; [exact Es|]. split; [exact HI'|].
  unfold rest. rewrite Hw. unfold window at 1, s0 at 1 2. simpl skipn. simpl app.
  rewrite <- Hup. unfold up_r, s0. simpl. exact Hp.
Qed.

(* the main theorem of the read() path *)
Theorem read_path_records cap src script d cr :
  1 <= cap -> no_err script = true -> detect_magic src = false ->
  exists s sf, fp_open_read cap (os_init src script) = Ok s /\
    read_all d cr s = (Ok (records d cr src), sf) /\
    (forall d' cr', read_line d' cr' sf = (RlEOF, sf)).
Proof.
  intros Hc Hne Hm.
  destruct (fp_open_read_spec cap src script Hc Hne Hm) as (s & E & HI & Hr).
  exists s.
  destruct (read_all_loop_spec RInv up_r RInv_pos RInv_end RInv_setpos up_r_setpos RInv_shift RInv_fuel
              (pending s + length (fp_buf s) + 2) d cr s HI) as (sf & Ea & HIf & Hrf & Hef).
  { unfold rest, window, pending, up_r, rc_pending. rewrite !app_length, skipn_length.
    destruct (fp_rc s); simpl; lia. }
  exists sf. split; [exact E|]. split.
  - unfold read_all. rewrite Ea, Hr. reflexivity.
  - intros d' cr'. unfold read_line, line_fuel. rewrite Nat.add_succ_r.
    apply (read_line_at_eof RInv up_r RInv_pos RInv_end RInv_setpos up_r_setpos RInv_shift); assumption.
Qed.

(* std::istream backing: same buffer code, IStreamReader always delivers full reads *)
Theorem istream_records cap src d cr :
  1 <= cap ->
  exists sf, read_all d cr (fp_open_istream cap src) = (Ok (records d cr src), sf) /\
    (forall d' cr', read_line d' cr' sf = (RlEOF, sf)).
Proof.
  intros Hc. set (s := fp_open_istream cap src).
  assert (HI : RInv s).
  { unfold RInv, s, fp_open_istream. simpl. repeat split; auto; try lia; try discriminate. }
  destruct (read_all_loop_spec RInv up_r RInv_pos RInv_end RInv_setpos up_r_setpos RInv_shift RInv_fuel
              (pending s + length (fp_buf s) + 2) d cr s HI) as (sf & Ea & HIf & Hrf & Hef).
  { unfold rest, window, pending, up_r, s, fp_open_istream. simpl. lia. }
  exists sf. split.
  - unfold read_all. rewrite Ea. reflexivity.
  - intros d' cr'. unfold read_line, line_fuel. rewrite Nat.add_succ_r.
    apply (read_line_at_eof RInv up_r RInv_pos RInv_end RInv_setpos up_r_setpos RInv_shift); assumption.
Qed.
