(* Proofs for the FilePiece model (property C02): repeated ReadLineOrEOF returns exactly
   [records delim strip_cr input], for every outcome script of the OS (read path), every
   window size, every page size and start offset (mmap path); EOF is sticky; the fuel
   error is unreachable. *)
From PP Require Import Reader.FilePieceDefs Sys.SysIOProofs.
From Coq Require Import Lia Arith ZifyBool.
Ltac Zify.zify_post_hook ::= Z.div_mod_to_equations.
Local Open Scope nat_scope.

(* ------------------------------------------------------------------ lists *)
Lemma skipn_skipn' {A} (a b : nat) (l : list A) : skipn (a + b) l = skipn b (skipn a l).
Proof.
  revert l. induction a as [|a IH]; intros l; [reflexivity|].
  destruct l as [|x l]; simpl; [destruct b; reflexivity|apply IH].
Qed.

Lemma nth_skipn' (p k : nat) (l : list Z) : nth (p + k) l 0%Z = nth k (skipn p l) 0%Z.
Proof.
  revert l. induction p as [|p IH]; intros l; [reflexivity|].
  destruct l as [|b l]; [destruct k; reflexivity|]. simpl. apply IH.
Qed.

Lemma firstn_snoc_nth (j : nat) (w : list Z) : j < length w -> firstn (S j) w = firstn j w ++ [nth j w 0%Z].
Proof.
  revert w. induction j as [|j IH]; intros w H; destruct w as [|b w]; simpl in *; try lia; [reflexivity|].
  f_equal. apply IH. lia.
Qed.

(* ------------------------------------------------------------------ find / records *)
Lemma find_idx_none d l : find_idx d l = None <-> no_delim d l = true.
Proof.
  induction l as [|b l IH]; simpl; [tauto|].
  destruct (Z.eqb b d); simpl.
  - split; discriminate.
  - destruct (find_idx d l); simpl in *; split; intros H; try discriminate; try (apply IH; exact H).
    + apply IH in H. discriminate.
Qed.

Lemma find_idx_some d l j : find_idx d l = Some j ->
  j < length l /\ no_delim d (firstn j l) = true /\ l = firstn j l ++ d :: skipn (S j) l.
Proof.
  revert j. induction l as [|b l IH]; intros j H; simpl in H; [discriminate|].
  destruct (Z.eqb_spec b d) as [->|Hne].
  - inversion H; subst. simpl. repeat split; auto. lia.
  - destruct (find_idx d l) as [k|]; simpl in H; [|discriminate]. inversion H; subst j.
    destruct (IH k eq_refl) as (H1 & H2 & H3). simpl. repeat split.
    + lia.
    + apply Z.eqb_neq in Hne. rewrite Hne. simpl. exact H2.
    + f_equal. exact H3.
Qed.

Lemma find_idx_app_nodelim d a b : no_delim d a = true ->
  find_idx d (a ++ b) = option_map (fun j => length a + j) (find_idx d b).
Proof.
  induction a as [|x a IH]; intros H; simpl.
  - destruct (find_idx d b); reflexivity.
  - simpl in H. apply andb_true_iff in H. destruct H as [Hx Ha].
    destruct (Z.eqb x d); [discriminate|]. rewrite IH by exact Ha.
    destruct (find_idx d b); reflexivity.
Qed.

Lemma find_idx_app_some d a b j : find_idx d a = Some j -> find_idx d (a ++ b) = Some j.
Proof.
  revert j. induction a as [|x a IH]; intros j H; simpl in *; [discriminate|].
  destruct (Z.eqb x d); [exact H|].
  destruct (find_idx d a) as [k|]; [|discriminate]. rewrite (IH k eq_refl). exact H.
Qed.

Lemma no_delim_app d a b : no_delim d (a ++ b) = no_delim d a && no_delim d b.
Proof. unfold no_delim. apply forallb_app. Qed.

Definition crstrip (cr : bool) (l : list Z) : list Z := if cr then strip_cr l else l.

Lemma records_cons d cr l rest : no_delim d l = true ->
  records d cr (l ++ d :: rest) = crstrip cr l :: records d cr rest.
Proof.
  intros H. unfold records. rewrite split_at_app_nodelim by exact H. simpl.
  rewrite Z.eqb_refl. destruct (split_at d rest []) as [rs t]. simpl.
  rewrite app_nil_r, rev_involutive. unfold crstrip. destruct cr; reflexivity.
Qed.

Lemma records_nodelim d cr l : no_delim d l = true ->
  records d cr l = match l with [] => [] | _ => [l] end.
Proof.
  intros H. unfold records. rewrite <- (app_nil_r l) at 1. rewrite split_at_app_nodelim by exact H.
  simpl. rewrite app_nil_r, rev_involutive. reflexivity.
Qed.

Lemma strip_cr_snoc l x : strip_cr (l ++ [x]) = if Z.eqb x 13 then l else l ++ [x].
Proof.
  unfold strip_cr. rewrite rev_app_distr. simpl.
  destruct (Z.eqb_spec x 13) as [->|Hne].
  - apply rev_involutive.
  - destruct x as [|p|p]; try reflexivity.
    do 4 (destruct p as [p|p|]; try reflexivity). congruence.
Qed.

(* the record ReadLine cuts out of the window: CR test on the byte before the delimiter *)
Lemma cut_record (cr : bool) (buf : list Z) (pos j : nat) :
  pos + j < length buf ->
  let w := skipn pos buf in
  let i := pos + j in
  firstn (i - pos - (if cr && (pos <? i) && Z.eqb (nth (i - 1) buf 0%Z) fp_cr_byte then fp_cr_subtract else fp_cr_else)) w
  = crstrip cr (firstn j w).
Proof.
  intros Hlt w i. unfold fp_cr_byte, fp_cr_subtract, fp_cr_else, i.
  assert (Hw : length w = length buf - pos) by (unfold w; apply skipn_length).
  replace (pos + j - pos) with j by lia.
  destruct j as [|j].
  - replace (pos <? pos + 0) with false by (symmetry; apply Nat.ltb_ge; lia).
    rewrite andb_false_r. simpl. unfold crstrip, strip_cr. destruct cr; reflexivity.
  - replace (pos <? pos + S j) with true by (symmetry; apply Nat.ltb_lt; lia).
    replace (pos + S j - 1) with (pos + j) by lia.
    rewrite nth_skipn'. fold w. rewrite andb_true_r.
    rewrite (firstn_snoc_nth j w) by lia.
    unfold crstrip. destruct cr; simpl andb.
    + rewrite strip_cr_snoc. destruct (Z.eqb (nth j w 0%Z) 13).
      * f_equal. lia.
      * replace (S j - 0) with (S j) by lia. apply firstn_snoc_nth. lia.
    + replace (S j - 0) with (S j) by lia. apply firstn_snoc_nth. lia.
Qed.

(* ------------------------------------------------------------------ the ReadLine loop, for any back end *)
Definition window (s : fp) : list Z := skipn (fp_pos s) (fp_buf s).

Section ReadLineGeneric.
  Variable I : fp -> Prop.            (* invariant of the back end *)
  Variable up : fp -> list Z.         (* bytes that will still arrive after the window *)
  Definition mu (s : fp) : nat := length (up s) + (if fp_at_end s then 0 else 1).

  Hypothesis I_pos : forall s, I s -> fp_pos s <= length (fp_buf s).
  Hypothesis I_end : forall s, I s -> fp_at_end s = true -> up s = [].
  Hypothesis I_setpos : forall s p, I s -> fp_pos s <= p <= length (fp_buf s) -> I (set_pos s p).
  Hypothesis up_setpos : forall s p, up (set_pos s p) = up s.
  Hypothesis I_shift : forall s, I s -> fp_at_end s = false ->
    exists s' l, shift s = Ok s' /\ I s' /\ window s' = window s ++ l /\ up s = l ++ up s' /\ mu s' < mu s.

  Definition rest (s : fp) : list Z := window s ++ up s.

  (* what one ReadLine call does, in terms of the bytes from the read position on *)
  Definition line_post (d : Z) (cr : bool) (r : list Z) (out : rl * fp) : Prop :=
    let (res, s') := out in
    I s' /\
    match find_idx d r with
    | Some j => res = RlLine (crstrip cr (firstn j r)) /\ rest s' = skipn (S j) r
    | None =>
      match r with
      | [] => res = RlEOF /\ rest s' = [] /\ fp_at_end s' = true
      | _ => res = RlLine r /\ rest s' = [] /\ fp_at_end s' = true
      end
    end.

  Lemma read_line_loop_spec : forall fuel d cr skip s,
    I s -> skip <= length (window s) -> no_delim d (firstn skip (window s)) = true -> mu s < fuel ->
    line_post d cr (rest s) (read_line_loop fuel d cr skip s).
  Proof.
    induction fuel as [|f IH]; intros d cr skip s HI Hskip Hnd Hmu; [lia|].
    pose proof (I_pos s HI) as Hpos.
    assert (Hwl : length (window s) = length (fp_buf s) - fp_pos s) by (unfold window; apply skipn_length).
    cbn [read_line_loop]. rewrite skipn_skipn'. fold (window s).
    assert (Hsplit : window s = firstn skip (window s) ++ skipn skip (window s)) by (symmetry; apply firstn_skipn).
    assert (Hfl : length (firstn skip (window s)) = skip) by (rewrite firstn_length; lia).
    destruct (find_idx d (skipn skip (window s))) as [j'|] eqn:Ef.
    - (* delimiter inside the window *)
      assert (Efw : find_idx d (window s) = Some (skip + j')).
      { rewrite Hsplit at 1. rewrite find_idx_app_nodelim by exact Hnd. rewrite Ef. simpl. rewrite Hfl. reflexivity. }
      destruct (find_idx_some _ _ _ Efw) as (Hj & _ & _).
      unfold line_post. split.
      + apply I_setpos; [exact HI|lia].
      + unfold rest at 1. rewrite (find_idx_app_some _ _ _ _ Efw).
        split.
        * f_equal. replace (fp_pos s + skip + j') with (fp_pos s + (skip + j')) by lia.
          pose proof (cut_record cr (fp_buf s) (fp_pos s) (skip + j')) as Hcut.
          cbv zeta in Hcut. fold (window s) in Hcut. rewrite Hcut by lia.
          f_equal. unfold rest. rewrite firstn_app.
          replace (skip + j' - length (window s)) with 0 by lia. simpl. rewrite app_nil_r. reflexivity.
        * unfold rest. rewrite up_setpos. unfold window at 1. cbn [set_pos fp_pos fp_buf].
          replace (S (fp_pos s + skip + j')) with (fp_pos s + S (skip + j')) by lia.
          rewrite skipn_skipn'. fold (window s). rewrite skipn_app.
          replace (S (skip + j') - length (window s)) with 0 by lia. reflexivity.
    - (* no delimiter in the window *)
      apply find_idx_none in Ef.
      assert (Hndw : no_delim d (window s) = true).
      { rewrite Hsplit, no_delim_app, Hnd, Ef. reflexivity. }
      destruct (fp_at_end s) eqn:Eend.
      + (* at_end_: whatever is left is the last record *)
        pose proof (I_end s HI Eend) as Hup.
        assert (Hr : rest s = window s) by (unfold rest; rewrite Hup; apply app_nil_r).
        destruct (Nat.eqb_spec (fp_pos s) (length (fp_buf s))) as [Heq|Hne].
        * assert (Hw0 : window s = []) by (apply length_zero_iff_nil; lia).
          unfold line_post. split; [exact HI|]. rewrite Hr, Hw0. simpl. repeat split; auto;
          unfold rest; rewrite Hw0, Hup; reflexivity.
        * unfold line_post. split; [apply I_setpos; [exact HI|lia]|].
          rewrite Hr. apply find_idx_none in Hndw. rewrite Hndw.
          assert (Hwne : window s <> []) by (intros Hc; rewrite Hc in Hwl; simpl in Hwl; lia).
          destruct (window s) as [|b w] eqn:Ew; [congruence|].
          repeat split; auto.
          unfold rest. rewrite up_setpos, Hup. unfold window. cbn [set_pos fp_pos fp_buf].
          rewrite skipn_all. reflexivity.
      + (* Shift() and look again, skipping what was already searched *)
        destruct (I_shift s HI Eend) as (s' & l & Es & HI' & Hw' & Hup' & Hmu').
        rewrite Es.
        assert (Hrest : rest s' = rest s).
        { unfold rest. rewrite Hw', Hup', app_assoc. reflexivity. }
        rewrite <- Hrest. rewrite <- Hwl. apply IH.
        * exact HI'.
        * rewrite Hw', app_length. lia.
        * rewrite Hw', firstn_app, Nat.sub_diag, firstn_all. simpl. rewrite app_nil_r. exact Hndw.
        * lia.
  Qed.

  (* EOF is sticky: at the end ReadLine reports EOF and leaves the state as it is *)
  Lemma read_line_at_eof d cr fuel s : I s -> rest s = [] -> fp_at_end s = true ->
    read_line_loop (S fuel) d cr 0 s = (RlEOF, s).
  Proof.
    intros HI Hr He. pose proof (I_pos s HI) as Hpos.
    unfold rest in Hr. apply app_eq_nil in Hr. destruct Hr as [Hw Hu].
    cbn [read_line_loop]. rewrite Nat.add_0_r. fold (window s). rewrite Hw. simpl. rewrite He.
    assert (length (window s) = length (fp_buf s) - fp_pos s) by (unfold window; apply skipn_length).
    rewrite Hw in H. simpl in H.
    destruct (Nat.eqb_spec (fp_pos s) (length (fp_buf s))); [reflexivity|lia].
  Qed.

  (* all records, by repeated ReadLineOrEOF *)
  Hypothesis fuel_ok : forall s, I s -> mu s < line_fuel s.

  Lemma read_all_loop_spec : forall n d cr s,
    I s -> length (rest s) < n ->
    exists s', read_all_loop n d cr s = (Ok (records d cr (rest s)), s') /\ I s' /\ rest s' = [] /\ fp_at_end s' = true.
  Proof.
    induction n as [|n IH]; intros d cr s HI Hn; [lia|].
    cbn [read_all_loop]. unfold read_line.
    pose proof (read_line_loop_spec (line_fuel s) d cr 0 s HI (Nat.le_0_l _) eq_refl (fuel_ok s HI)) as Hpost.
    destruct (read_line_loop (line_fuel s) d cr 0 s) as [res s1]. unfold line_post in Hpost.
    destruct Hpost as [HI1 Hpost].
    destruct (find_idx d (rest s)) as [j|] eqn:Ef.
    - destruct Hpost as [-> Hr1].
      destruct (find_idx_some _ _ _ Ef) as (Hj & Hnd & Hdec).
      destruct (IH d cr s1 HI1) as (s2 & E2 & HI2 & Hr2 & He2).
      { rewrite Hr1, skipn_length. lia. }
      rewrite E2. exists s2. split; [|auto].
      f_equal. f_equal. rewrite Hdec at 2. rewrite records_cons by exact Hnd. rewrite Hr1. reflexivity.
    - apply find_idx_none in Ef. rewrite (records_nodelim d cr _ Ef).
      destruct (rest s) as [|b r] eqn:Er.
      + destruct Hpost as (-> & Hr1 & He1). exists s1. auto.
      + destruct Hpost as (-> & Hr1 & He1).
        destruct (IH d cr s1 HI1) as (s2 & E2 & HI2 & Hr2 & He2).
        { rewrite Hr1. simpl in *. lia. }
        rewrite E2. rewrite Hr1. simpl. exists s2. auto.
  Qed.
End ReadLineGeneric.

(* ------------------------------------------------------------------ the read() back end *)
Definition rc_pending (rc : rcstate) : list Z := match rc with RcHeader h => h | _ => [] end.
Definition up_r (s : fp) : list Z := rc_pending (fp_rc s) ++ os_src (fp_os s).

Definition rc_wf (rc : rcstate) (o : os) : Prop :=
  match rc with
  | RcHeader h => h <> []
  | RcComplete => os_src o = []
  | _ => True
  end.

Definition RInv (s : fp) : Prop :=
  fp_fallback s = true /\ fp_pos s <= length (fp_buf s) /\ length (fp_buf s) <= fp_cap s /\ 1 <= fp_cap s /\
  rc_wf (fp_rc s) (fp_os s) /\ (fp_at_end s = true -> up_r s = []) /\ no_err (os_script (fp_os s)) = true.

Lemma rc_read_spec amount rc o :
  1 <= amount -> rc_wf rc o -> no_err (os_script o) = true ->
  exists l rc' o', rc_read amount rc o = (Ok l, rc', o') /\
    rc_pending rc ++ os_src o = l ++ rc_pending rc' ++ os_src o' /\ length l <= amount /\
    (l = [] -> rc_pending rc' ++ os_src o' = []) /\ rc_wf rc' o' /\ no_err (os_script o') = true.
Proof.
  intros Ha Hwf Hne. destruct rc as [h| | |]; simpl in *.
  - exists (firstn amount h).
    destruct (skipn amount h) as [|b r] eqn:Es.
    + exists RcFd, o. simpl. repeat split; auto.
      * rewrite <- (firstn_skipn amount h) at 1. rewrite Es, app_nil_r. reflexivity.
      * rewrite firstn_length. lia.
      * intros Hc. apply firstn_nil_inv in Hc; [congruence|exact Ha].
    + exists (RcHeader (b :: r)), o. simpl. repeat split; auto.
      * rewrite <- (firstn_skipn amount h) at 1. rewrite Es, <- app_assoc. reflexivity.
      * rewrite firstn_length. lia.
      * intros Hc. apply firstn_nil_inv in Hc; [congruence|exact Ha].
      * discriminate.
  - destruct (partial_read_ok amount o Hne) as (l & o' & E & H1 & H2 & H3 & H4 & H5 & H6).
    rewrite E. exists l, RcFd, o'. simpl. repeat split; auto.
    intros Hl. specialize (H3 Ha Hl). rewrite H3 in H1. subst l. simpl in H1. auto.
  - exists [], RcComplete, o. simpl. rewrite Hwf. repeat split; auto. lia.
  - exists (firstn amount (os_src o)), RcIStream, (mkOs (skipn amount (os_src o)) (os_script o) (os_trace o) (os_sink o)).
    simpl. repeat split; auto.
    + symmetry. apply firstn_skipn.
    + rewrite firstn_length. lia.
    + intros Hc. apply firstn_nil_inv in Hc; [|exact Ha]. rewrite Hc. destruct amount; reflexivity.
Qed.

Lemma read_shift_spec s : RInv s -> fp_at_end s = false ->
  exists s' l, read_shift s = Ok s' /\ RInv s' /\ window s' = window s ++ l /\ up_r s = l ++ up_r s' /\
    mu up_r s' < mu up_r s.
Proof.
  intros (Hfb & Hpos & Hcap & Hc1 & Hwf & Hend & Hne) Hae.
  unfold read_shift.
  (* the three layouts of the buffer before the read *)
  set (b1 := if fp_pos s =? length (fp_buf s) then ([], 0, fp_moff s + length (fp_buf s)) else (fp_buf s, fp_pos s, fp_moff s)).
  assert (Hb1 : exists buf1 pos1 moff1, b1 = (buf1, pos1, moff1) /\ pos1 <= length buf1 /\ length buf1 <= fp_cap s /\
                 skipn pos1 buf1 = window s /\ (pos1 = length buf1 -> buf1 = [])).
  { unfold b1. destruct (Nat.eqb_spec (fp_pos s) (length (fp_buf s))) as [He|Hn].
    - exists [], 0, (fp_moff s + length (fp_buf s)). repeat split; simpl; auto; try lia.
      unfold window. rewrite He, skipn_all. reflexivity.
    - exists (fp_buf s), (fp_pos s), (fp_moff s). repeat split; auto. intros; lia. }
  destruct Hb1 as (buf1 & pos1 & moff1 & -> & Hp1 & Hl1 & Hw1 & He1).
  set (b2 := if length buf1 =? fp_cap s then
               if pos1 =? 0 then (buf1, pos1, fp_cap s * fp_read_grow) else (skipn pos1 buf1, 0, fp_cap s)
             else (buf1, pos1, fp_cap s)).
  assert (Hb2 : exists buf2 pos2 cap2, b2 = (buf2, pos2, cap2) /\ pos2 <= length buf2 /\ length buf2 < cap2 /\
                 skipn pos2 buf2 = window s).
  { unfold b2, fp_read_grow. destruct (Nat.eqb_spec (length buf1) (fp_cap s)) as [He|Hn].
    - destruct (Nat.eqb_spec pos1 0) as [Hz|Hnz].
      + exists buf1, pos1, (fp_cap s * 2). repeat split; auto. lia.
      + exists (skipn pos1 buf1), 0, (fp_cap s). repeat split; simpl; auto; try lia.
        rewrite skipn_length. lia.
    - exists buf1, pos1, (fp_cap s). repeat split; auto. lia. }
  destruct Hb2 as (buf2 & pos2 & cap2 & -> & Hp2 & Hl2 & Hw2).
  destruct (rc_read_spec (cap2 - length buf2) (fp_rc s) (fp_os s)) as (l & rc' & o' & E & Hdec & Hll & Hnil & Hwf' & Hne'); auto; [lia|].
  rewrite E.
  eexists _, l. split; [reflexivity|].
  assert (Hwin : window (mkFp (buf2 ++ l) pos2 cap2 (if length l =? fp_eof_read_return then true else fp_at_end s) moff1
                              (fp_fallback s) (fp_mapped s) rc' o' (fp_file s) (fp_page s) (fp_maps s)) = window s ++ l).
  { unfold window at 1. cbn [fp_pos fp_buf]. rewrite skipn_app.
    replace (pos2 - length buf2) with 0 by lia. simpl. rewrite Hw2. reflexivity. }
  unfold fp_eof_read_return.
  split; [|split; [exact Hwin|split]].
  - unfold RInv. cbn [fp_fallback fp_pos fp_buf fp_cap fp_rc fp_os fp_at_end].
    repeat split; auto; try (rewrite app_length; lia); try lia.
    unfold up_r. cbn [fp_rc fp_os]. rewrite Hae.
    destruct (Nat.eqb_spec (length l) 0) as [Hz|Hnz]; [|discriminate].
    intros _. apply Hnil. apply length_zero_iff_nil. exact Hz.
  - unfold up_r. cbn [fp_rc fp_os]. exact Hdec.
  - unfold mu, up_r. cbn [fp_rc fp_os fp_at_end]. rewrite Hae.
    unfold up_r in Hdec. rewrite Hdec, !app_length.
    destruct (Nat.eqb_spec (length l) 0) as [Hz|Hnz]; lia.
Qed.

Lemma RInv_shift s : RInv s -> fp_at_end s = false ->
  exists s' l, shift s = Ok s' /\ RInv s' /\ window s' = window s ++ l /\ up_r s = l ++ up_r s' /\
    mu up_r s' < mu up_r s.
Proof.
  intros HI Hae. destruct (read_shift_spec s HI Hae) as (s' & l & E & R).
  exists s', l. split; [|exact R].
  unfold shift. rewrite Hae. destruct HI as (Hfb & _). rewrite Hfb. rewrite Hfb. exact E.
Qed.

Lemma RInv_pos s : RInv s -> fp_pos s <= length (fp_buf s).
Proof. intros H. apply H. Qed.
Lemma RInv_end s : RInv s -> fp_at_end s = true -> up_r s = [].
Proof. intros H. apply H. Qed.
Lemma RInv_setpos s p : RInv s -> fp_pos s <= p <= length (fp_buf s) -> RInv (set_pos s p).
Proof. intros (H1 & H2 & H3 & H4 & H5 & H6 & H7) Hp. unfold RInv, set_pos, up_r in *. simpl. repeat split; auto; lia. Qed.
Lemma up_r_setpos s p : up_r (set_pos s p) = up_r s.
Proof. reflexivity. Qed.

Lemma RInv_fuel s : RInv s -> mu up_r s < line_fuel s.
Proof.
  intros _. unfold mu, line_fuel, pending, up_r, rc_pending, rc_magic_size. rewrite app_length.
  destruct (fp_rc s), (fp_at_end s); simpl; lia.
Qed.

Local Arguments rc_magic_size : simpl never.

(* opening a pipe: ReadFactory takes the first kMagicSize bytes, then the first Shift *)
Lemma is_prefix_firstn p l n : length p <= n -> is_prefix p (firstn n l) = is_prefix p l.
Proof.
  revert l n. induction p as [|a p IH]; intros l n H; [reflexivity|].
  destruct n as [|n]; [simpl in H; lia|]. destruct l as [|b l]; [reflexivity|].
  simpl. rewrite IH by (simpl in H; lia). reflexivity.
Qed.

Lemma detect_magic_firstn l : detect_magic (firstn rc_magic_size l) = detect_magic l.
Proof.
  unfold detect_magic, rc_magic_size, rc_magic_gz, rc_magic_bz, rc_magic_xz.
  rewrite !is_prefix_firstn by (simpl; lia). reflexivity.
Qed.

Lemma read_factory_spec o : no_err (os_script o) = true -> detect_magic (os_src o) = false ->
  exists rc o', read_factory o = (Ok rc, o') /\ rc_pending rc ++ os_src o' = os_src o /\ rc_wf rc o' /\
    no_err (os_script o') = true.
Proof.
  intros Hne Hm. unfold read_factory.
  destruct (read_or_eof_exact rc_magic_size o Hne) as (o' & E & Hs & Hne' & _).
  rewrite E. destruct (firstn rc_magic_size (os_src o)) as [|b h] eqn:Eh.
  - exists RcComplete, o'. simpl. repeat split; auto.
    + rewrite Hs. rewrite <- (firstn_skipn rc_magic_size (os_src o)) at 2. rewrite Eh. reflexivity.
    + apply firstn_nil_inv in Eh; [|unfold rc_magic_size; lia]. rewrite Hs, Eh. reflexivity.
  - rewrite <- Eh, detect_magic_firstn, Hm.
    exists (RcHeader (firstn rc_magic_size (os_src o))), o'. cbn [rc_pending rc_wf]. repeat split; auto.
    + rewrite Hs. apply firstn_skipn.
    + rewrite Eh. discriminate.
Qed.

Lemma fp_open_read_spec cap src script :
  1 <= cap -> no_err script = true -> detect_magic src = false ->
  exists s, fp_open_read cap (os_init src script) = Ok s /\ RInv s /\ rest up_r s = src.
Proof.
  intros Hc Hne Hm. unfold fp_open_read, transition_to_read. cbn [fp_os].
  destruct (read_factory_spec (os_init src script)) as (rc & o' & E & Hp & Hwf & Hne'); auto.
  rewrite E. cbn [fp_cap fp_at_end fp_moff fp_mapped fp_file fp_page fp_maps].
  set (s0 := mkFp [] 0 cap false 0 true false rc o' [] 1 []).
  assert (HI0 : RInv s0).
  { unfold RInv, s0. simpl. repeat split; auto; try lia; try discriminate. }
  destruct (RInv_shift s0 HI0 eq_refl) as (s' & l & Es & HI' & Hw & Hup & _).
  exists s'. split; [exact Es|]. split; [exact HI'|].
  unfold rest. rewrite Hw. unfold window at 1, s0 at 1 2. simpl skipn. simpl app.
  rewrite <- Hup. unfold up_r, s0. simpl. exact Hp.
Qed.

(* the main theorem of the read() path *)
Theorem read_path_records cap src script d cr :
  1 <= cap -> no_err script = true -> detect_magic src = false ->
  exists s sf, fp_open_read cap (os_init src script) = Ok s /\
    read_all d cr s = (Ok (records d cr src), sf) /\
    (forall d' cr', read_line d' cr' sf = (RlEOF, sf)).
Proof.
  intros Hc Hne Hm.
  destruct (fp_open_read_spec cap src script Hc Hne Hm) as (s & E & HI & Hr).
  exists s.
  destruct (read_all_loop_spec RInv up_r RInv_pos RInv_end RInv_setpos up_r_setpos RInv_shift RInv_fuel
              (pending s + length (fp_buf s) + 2) d cr s HI) as (sf & Ea & HIf & Hrf & Hef).
  { unfold rest, window, pending, up_r, rc_pending. rewrite !app_length, skipn_length.
    destruct (fp_rc s); simpl; lia. }
  exists sf. split; [exact E|]. split.
  - unfold read_all. rewrite Ea, Hr. reflexivity.
  - intros d' cr'. unfold read_line, line_fuel. rewrite Nat.add_succ_r.
    apply (read_line_at_eof RInv up_r RInv_pos RInv_end RInv_setpos up_r_setpos RInv_shift); assumption.
Qed.

(* std::istream backing: same buffer code, IStreamReader always delivers full reads *)
Theorem istream_records cap src d cr :
  1 <= cap ->
  exists sf, read_all d cr (fp_open_istream cap src) = (Ok (records d cr src), sf) /\
    (forall d' cr', read_line d' cr' sf = (RlEOF, sf)).
Proof.
  intros Hc. set (s := fp_open_istream cap src).
  assert (HI : RInv s).
  { unfold RInv, s, fp_open_istream. simpl. repeat split; auto; try lia; try discriminate. }
  destruct (read_all_loop_spec RInv up_r RInv_pos RInv_end RInv_setpos up_r_setpos RInv_shift RInv_fuel
              (pending s + length (fp_buf s) + 2) d cr s HI) as (sf & Ea & HIf & Hrf & Hef).
  { unfold rest, window, pending, up_r, s, fp_open_istream. simpl. lia. }
  exists sf. split.
  - unfold read_all. rewrite Ea. reflexivity.
  - intros d' cr'. unfold read_line, line_fuel. rewrite Nat.add_succ_r.
    apply (read_line_at_eof RInv up_r RInv_pos RInv_end RInv_setpos up_r_setpos RInv_shift); assumption.
Qed.

(* any reader that delivers the plain bytes in some chunking (decompressors) *)
Theorem stream_reader_records cap plain chunking d cr :
  1 <= cap -> no_err chunking = true ->
  exists sf, read_all d cr (fp_open_stream cap plain chunking) = (Ok (records d cr plain), sf) /\
    (forall d' cr', read_line d' cr' sf = (RlEOF, sf)).
Proof.
  intros Hc Hne. set (s := fp_open_stream cap plain chunking).
  assert (HI : RInv s).
  { unfold RInv, s, fp_open_stream. simpl. repeat split; auto; try lia; try discriminate. }
  destruct (read_all_loop_spec RInv up_r RInv_pos RInv_end RInv_setpos up_r_setpos RInv_shift RInv_fuel
              (pending s + length (fp_buf s) + 2) d cr s HI) as (sf & Ea & HIf & Hrf & Hef).
  { unfold rest, window, pending, up_r, s, fp_open_stream. simpl. lia. }
  exists sf. split.
  - unfold read_all. rewrite Ea. reflexivity.
  - intros d' cr'. unfold read_line, line_fuel. rewrite Nat.add_succ_r.
    apply (read_line_at_eof RInv up_r RInv_pos RInv_end RInv_setpos up_r_setpos RInv_shift); assumption.
Qed.

(* ------------------------------------------------------------------ the mmap back end *)
(* segment [a, b) of the file *)
Definition seg (X : list Z) (a b : nat) : list Z := firstn (b - a) (skipn a X).

Lemma seg_length X a b : a <= b -> b <= length X -> length (seg X a b) = b - a.
Proof. intros H1 H2. unfold seg. rewrite firstn_length, skipn_length. lia. Qed.

Lemma seg_to_end X a : seg X a (length X) = skipn a X.
Proof. unfold seg. apply firstn_all2. rewrite skipn_length. lia. Qed.

Lemma skipn_seg X a b k : skipn k (seg X a b) = seg X (a + k) b.
Proof.
  unfold seg. rewrite skipn_firstn_comm. rewrite <- skipn_skipn'. f_equal. lia.
Qed.

Lemma seg_app X a b c : a <= b -> b <= c -> c <= length X -> seg X a c = seg X a b ++ seg X b c.
Proof.
  intros H1 H2 H3. unfold seg.
  rewrite <- (firstn_skipn (b - a) (skipn a X)) at 1.
  rewrite firstn_app. rewrite firstn_length, skipn_length.
  replace (Nat.min (b - a) (length X - a)) with (b - a) by lia.
  rewrite firstn_firstn. replace (Nat.min (c - a) (b - a)) with (b - a) by lia.
  f_equal. rewrite <- skipn_skipn'. replace (a + (b - a)) with b by lia. f_equal. lia.
Qed.

Lemma firstn_seg X a b n : n <= b - a -> firstn n (seg X a b) = firstn n (skipn a X).
Proof. intros H. unfold seg. rewrite firstn_firstn. f_equal. lia. Qed.

Lemma align_facts page moff pos : 1 <= page -> moff mod page = 0 ->
  let ig := (pos + moff) mod page in
  ig < page /\ ig <= pos /\ (pos + moff - ig) mod page = 0 /\ (pos <> ig -> moff + page <= pos + moff - ig).
Proof.
  intros Hp Hm ig.
  assert (Hq : moff = (moff / page) * page).
  { pose proof (Nat.div_mod moff page). lia. }
  assert (Hig : ig = pos mod page).
  { unfold ig. rewrite Hq. apply Nat.mod_add. lia. }
  pose proof (Nat.mod_upper_bound pos page) as Hub.
  pose proof (Nat.div_mod pos page) as Hdm.
  assert (Hle : pos mod page <= pos) by (apply Nat.mod_le; lia).
  rewrite Hig. repeat split; try lia.
  - replace (pos + moff - pos mod page) with ((pos / page + moff / page) * page) by nia.
    apply Nat.mod_mul. lia.
  - intros Hne. assert (1 <= pos / page).
    { destruct (pos / page) eqn:E; [|lia]. exfalso. apply Hne. lia. }
    nia.
Qed.

Definition up_m (s : fp) : list Z := skipn (fp_moff s + length (fp_buf s)) (fp_file s).

Definition MInv (s : fp) : Prop :=
  fp_fallback s = false /\ fp_mapped s = true /\ 1 <= fp_page s /\ fp_page s <= fp_cap s /\
  fp_moff s mod fp_page s = 0 /\
  fp_buf s = seg (fp_file s) (fp_moff s) (fp_moff s + length (fp_buf s)) /\
  fp_moff s + length (fp_buf s) <= length (fp_file s) /\
  fp_pos s <= length (fp_buf s) /\
  (fp_at_end s = true -> fp_moff s + length (fp_buf s) = length (fp_file s)) /\
  (fp_at_end s = false -> length (fp_buf s) = fp_cap s /\ fp_moff s + fp_cap s < length (fp_file s)).

(* what a window [mo, mo+ms) looks like from desired_begin = db on, given the old window [moff, e) *)
Lemma remap_window X moff e pos mo ms :
  moff + pos <= e -> e <= mo + ms -> mo + ms <= length X -> mo <= moff + pos ->
  let db := moff + pos in
  skipn (db - mo) (firstn ms (skipn mo X)) = skipn pos (seg X moff e) ++ seg X e (mo + ms) /\
  skipn e X = seg X e (mo + ms) ++ skipn (mo + ms) X.
Proof.
  intros H1 H2 H3 H4 db.
  replace (firstn ms (skipn mo X)) with (seg X mo (mo + ms)) by (unfold seg; f_equal; lia).
  rewrite !skipn_seg. replace (mo + (db - mo)) with db by (unfold db; lia). fold db.
  split.
  - apply seg_app; unfold db; lia.
  - rewrite <- (seg_to_end X e), <- (seg_to_end X (mo + ms)). apply seg_app; lia.
Qed.

Lemma mmap_shift_spec s : MInv s -> fp_at_end s = false ->
  exists s' l, mmap_shift s = Ok s' /\ MInv s' /\ window s' = window s ++ l /\ up_m s = l ++ up_m s' /\
    mu up_m s' < mu up_m s.
Proof.
  intros (Hfb & Hmp & Hp1 & Hpc & Hal & Hbuf & Hle & Hpos & Hend & Hnend) Hae.
  destruct (Hnend Hae) as [Hlen Hlt]. clear Hend Hnend.
  destruct (align_facts (fp_page s) (fp_moff s) (fp_pos s) Hp1 Hal) as (Hig & Higp & Hal' & Hadv).
  unfold mmap_shift. rewrite Hmp, andb_true_r. unfold fp_mmap_grow.
  set (ig := (fp_pos s + fp_moff s) mod fp_page s) in *.
  set (cap' := if fp_pos s =? ig then fp_cap s * 2 else fp_cap s).
  set (mo := fp_pos s + fp_moff s - ig) in *.
  set (X := fp_file s) in *.
  assert (Hcap' : fp_cap s <= cap') by (unfold cap'; destruct (fp_pos s =? ig); lia).
  assert (Hmo : fp_moff s <= mo /\ mo <= fp_moff s + fp_pos s) by (unfold mo; lia).
  (* the window end strictly advances unless the end of the file is reached *)
  assert (Hprog : fp_moff s + fp_cap s < mo + cap').
  { unfold cap'. destruct (Nat.eqb_spec (fp_pos s) ig) as [He|Hn].
    - unfold mo. lia.
    - specialize (Hadv Hn). unfold mo. lia. }
  set (ms := if length X - mo <=? cap' then length X - mo else cap').
  set (ae := if length X - mo <=? cap' then true else fp_at_end s).
  assert (Hms : 1 <= ms /\ mo + ms <= length X /\ fp_moff s + fp_cap s <= mo + ms /\
                (ae = true -> mo + ms = length X) /\ (ae = false -> ms = cap' /\ mo + cap' < length X) /\
                (ae = false -> fp_moff s + fp_cap s < mo + ms)).
  { unfold ms, ae. destruct (Nat.leb_spec (length X - mo) cap'); rewrite ?Hae; repeat split; try lia; try discriminate. }
  destruct Hms as (Hms1 & Hms2 & Hms3 & Hms4 & Hms5 & Hms6).
  replace (let '(at_end', mapped_size) := if length X - mo <=? cap' then (true, length X - mo) else (fp_at_end s, cap') in
           if mapped_size =? 0 then _ else _) with
    (Ok (mkFp (firstn ms (skipn mo X)) ig cap' ae mo false true (fp_rc s) (fp_os s) X (fp_page s) ((mo, ms) :: fp_maps s)) : res fp).
  2:{ unfold ms, ae. destruct (Nat.leb_spec (length X - mo) cap').
      - destruct (Nat.eqb_spec (length X - mo) 0); [lia|reflexivity].
      - destruct (Nat.eqb_spec cap' 0); [lia|reflexivity]. }
  destruct (remap_window X (fp_moff s) (fp_moff s + fp_cap s) (fp_pos s) mo ms) as [Hw Hu]; try lia.
  replace (fp_moff s + fp_pos s - mo) with ig in Hw by (unfold mo; lia).
  assert (Hblen : length (firstn ms (skipn mo X)) = ms) by (rewrite firstn_length, skipn_length; lia).
  eexists _, (seg X (fp_moff s + fp_cap s) (mo + ms)). split; [reflexivity|].
  split; [|split; [|split]].
  - unfold MInv. cbn [fp_fallback fp_mapped fp_page fp_cap fp_moff fp_buf fp_file fp_pos fp_at_end].
    rewrite Hblen. repeat split; auto; try lia.
    unfold seg. f_equal. lia.
  - unfold window. cbn [fp_pos fp_buf]. rewrite Hw. f_equal. rewrite Hbuf at 1. rewrite Hlen. reflexivity.
  - unfold up_m. cbn [fp_moff fp_buf fp_file]. rewrite Hblen, Hlen. exact Hu.
  - unfold mu, up_m. cbn [fp_moff fp_buf fp_file fp_at_end]. rewrite Hblen, Hlen, Hae.
    rewrite !skipn_length. fold X. destruct ae eqn:Eae.
    + specialize (Hms4 eq_refl). lia.
    + specialize (Hms6 eq_refl). lia.
Qed.

Lemma MInv_shift s : MInv s -> fp_at_end s = false ->
  exists s' l, shift s = Ok s' /\ MInv s' /\ window s' = window s ++ l /\ up_m s = l ++ up_m s' /\
    mu up_m s' < mu up_m s.
Proof.
  intros HI Hae. destruct (mmap_shift_spec s HI Hae) as (s' & l & E & HI' & R).
  exists s', l. split; [|split; [exact HI'|exact R]].
  unfold shift. rewrite Hae. destruct HI as (Hfb & _). rewrite Hfb, E.
  destruct HI' as (Hfb' & _). rewrite Hfb'. reflexivity.
Qed.

Lemma MInv_pos s : MInv s -> fp_pos s <= length (fp_buf s).
Proof. intros H. apply H. Qed.
Lemma MInv_end s : MInv s -> fp_at_end s = true -> up_m s = [].
Proof.
  intros (_ & _ & _ & _ & _ & _ & _ & _ & He & _) Hae. unfold up_m. rewrite (He Hae). apply skipn_all.
Qed.
Lemma MInv_setpos s p : MInv s -> fp_pos s <= p <= length (fp_buf s) -> MInv (set_pos s p).
Proof. intros H Hp. unfold MInv, set_pos in *. simpl. intuition lia. Qed.
Lemma up_m_setpos s p : up_m (set_pos s p) = up_m s.
Proof. reflexivity. Qed.
Lemma MInv_fuel s : MInv s -> mu up_m s < line_fuel s.
Proof.
  intros _. unfold mu, line_fuel, pending, up_m, rc_magic_size. rewrite skipn_length.
  destruct (fp_rc s), (fp_at_end s); simpl; lia.
Qed.

(* rest of an mmap state = the file from the read position on *)
Lemma MInv_rest s : MInv s -> rest up_m s = skipn (fp_moff s + fp_pos s) (fp_file s).
Proof.
  intros (_ & _ & _ & _ & _ & Hbuf & Hle & Hpos & _). unfold rest, window, up_m.
  rewrite Hbuf at 1. rewrite skipn_seg.
  rewrite <- (seg_to_end (fp_file s) (fp_moff s + length (fp_buf s))), <- (seg_to_end (fp_file s) (fp_moff s + fp_pos s)).
  symmetry. apply seg_app; lia.
Qed.

(* Either back end: the invariant a FilePiece on a regular file can be in *)
Definition FInv (s : fp) : Prop := MInv s \/ RInv s.
Definition up_f (s : fp) : list Z := if fp_fallback s then up_r s else up_m s.

Lemma FInv_pos s : FInv s -> fp_pos s <= length (fp_buf s).
Proof. intros [H|H]; apply H. Qed.
Lemma FInv_end s : FInv s -> fp_at_end s = true -> up_f s = [].
Proof.
  intros [H|H] Hae; unfold up_f.
  - destruct H as (Hfb & R). rewrite Hfb. apply MInv_end; [|exact Hae]. split; assumption.
  - destruct H as (Hfb & R). rewrite Hfb. apply RInv_end; [|exact Hae]. split; assumption.
Qed.
Lemma FInv_setpos s p : FInv s -> fp_pos s <= p <= length (fp_buf s) -> FInv (set_pos s p).
Proof. intros [H|H] Hp; [left; apply MInv_setpos|right; apply RInv_setpos]; assumption. Qed.
Lemma up_f_setpos s p : up_f (set_pos s p) = up_f s.
Proof. reflexivity. Qed.
Lemma FInv_shift s : FInv s -> fp_at_end s = false ->
  exists s' l, shift s = Ok s' /\ FInv s' /\ window s' = window s ++ l /\ up_f s = l ++ up_f s' /\
    mu up_f s' < mu up_f s.
Proof.
  intros [H|H] Hae.
  - destruct (MInv_shift s H Hae) as (s' & l & E & HI' & Hw & Hu & Hm).
    exists s', l. unfold mu, up_f in *. destruct H as (Hfb & _). pose proof HI' as (Hfb' & _).
    rewrite Hfb, Hfb'. repeat split; auto. left. exact HI'.
  - destruct (RInv_shift s H Hae) as (s' & l & E & HI' & Hw & Hu & Hm).
    exists s', l. unfold mu, up_f in *. destruct H as (Hfb & _). pose proof HI' as (Hfb' & _).
    rewrite Hfb, Hfb'. repeat split; auto. right. exact HI'.
Qed.
Lemma FInv_fuel s : FInv s -> mu up_f s < line_fuel s.
Proof.
  intros [H|H]; unfold mu, up_f.
  - pose proof (MInv_fuel s H) as F. destruct H as (Hfb & _). rewrite Hfb. exact F.
  - pose proof (RInv_fuel s H) as F. destruct H as (Hfb & _). rewrite Hfb. exact F.
Qed.

(* opening a regular file whose descriptor stands at offset off *)
Lemma fp_open_file_spec page cap file off script :
  1 <= page -> page <= cap -> off <= length file -> no_err script = true ->
  detect_magic (skipn off file) = false ->
  exists s, fp_open_file page cap file off script = Ok s /\ FInv s /\ rest up_f s = skipn off file.
Proof.
  intros Hp Hpc Hoff Hne Hm. unfold fp_open_file, shift. cbn [fp_at_end fp_fallback].
  unfold mmap_shift. cbn [fp_pos fp_moff fp_page fp_mapped fp_cap fp_file fp_at_end fp_os fp_rc fp_maps].
  rewrite andb_false_r. rewrite Nat.add_0_l.
  set (ig := off mod page). set (mo := off - ig).
  assert (Hig : ig < page) by (apply Nat.mod_upper_bound; lia).
  assert (Higo : ig <= off) by (apply Nat.mod_le; lia).
  assert (Hmoal : mo mod page = 0).
  { unfold mo, ig. pose proof (Nat.div_mod off page).
    replace (off - off mod page) with ((off / page) * page) by lia. apply Nat.mod_mul. lia. }
  destruct (Nat.leb_spec (length file - mo) cap) as [Hsmall|Hbig].
  - destruct (Nat.eqb_spec (length file - mo) 0) as [Hz|Hnz].
    + (* mmap of 0 bytes fails: nothing is left, fall back to read() *)
      assert (Hoffl : off = length file) by (unfold mo in *; lia).
      assert (Hsrc : forall o1, o1 = (if off =? 0 then os_init (skipn off file) script
                                    else mkOs (skipn off file) (os_script (os_init (skipn off file) script))
                                              (os_trace (os_init (skipn off file) script)) (os_sink (os_init (skipn off file) script))) ->
                     os_src o1 = [] /\ no_err (os_script o1) = true).
      { intros o1 ->. destruct (off =? 0); simpl; rewrite Hoffl, skipn_all; auto. }
      match goal with |- context [transition_to_read ?st] => set (st0 := st) end.
      unfold transition_to_read. cbn [fp_os st0].
      match goal with |- context [read_factory ?o] => destruct (Hsrc o eq_refl) as [Hs0 Hn0]; set (o1 := o) in * end.
      destruct (read_factory_spec o1 Hn0) as (rc & o' & E & Hpd & Hwf & Hne').
      { rewrite Hs0. reflexivity. }
      rewrite E. cbn [fp_cap fp_at_end fp_moff fp_mapped fp_file fp_page fp_maps fp_fallback].
      match goal with |- context [read_shift ?st] => set (s1 := st) end.
      assert (HI1 : RInv s1).
      { unfold RInv, s1. simpl. repeat split; auto; try lia; try discriminate. }
      destruct (read_shift_spec s1 HI1 eq_refl) as (s' & l & Es & HI' & Hw & Hup & _).
      rewrite Es. pose proof HI' as (Hfb' & _). rewrite Hfb'. simpl negb. cbn [andb].
      exists s'. split; [reflexivity|]. split; [right; exact HI'|].
      unfold rest, up_f. rewrite Hfb', Hw. unfold window at 1, s1 at 1 2. simpl skipn. simpl app.
      rewrite <- Hup. unfold up_r, s1. cbn [fp_rc fp_os]. rewrite Hpd, Hs0, Hoffl, skipn_all. reflexivity.
    + (* the first window reaches the end of the file *)
      set (s1 := mkFp (firstn (length file - mo) (skipn mo file)) ig cap true mo false true RcFd
                      (os_init (skipn off file) script) file page [(mo, length file - mo)]).
      assert (Hbl : length (fp_buf s1) = length file - mo).
      { unfold s1. cbn [fp_buf]. rewrite firstn_length, skipn_length. lia. }
      assert (HI1 : MInv s1).
      { unfold MInv. rewrite Hbl. unfold s1. cbn [fp_fallback fp_mapped fp_page fp_cap fp_moff fp_buf fp_file fp_pos fp_at_end].
        repeat split; auto; try lia; try discriminate; try (unfold seg; f_equal; lia); try (unfold mo; lia). }
      fold s1. change (fp_fallback s1) with false. cbv iota. simpl negb. rewrite andb_true_l.
      assert (Hrest : rest up_m s1 = skipn off file).
      { rewrite (MInv_rest s1 HI1). unfold s1. cbn [fp_moff fp_pos fp_file]. f_equal. unfold mo. lia. }
      assert (Hwin : window s1 = skipn off file).
      { rewrite <- Hrest. unfold rest. rewrite (MInv_end s1 HI1 eq_refl). symmetry. apply app_nil_r. }
      change (skipn (fp_pos s1) (fp_buf s1)) with (window s1). rewrite Hwin.
      rewrite detect_magic_firstn, Hm, andb_false_r.
      exists s1. split; [reflexivity|]. split; [left; exact HI1|].
      unfold up_f. exact Hrest.
  - destruct (Nat.eqb_spec cap 0) as [Hz|Hnz]; [lia|].
    set (s1 := mkFp (firstn cap (skipn mo file)) ig cap false mo false true RcFd
                    (os_init (skipn off file) script) file page [(mo, cap)]).
    assert (Hbl : length (fp_buf s1) = cap).
    { unfold s1. cbn [fp_buf]. rewrite firstn_length, skipn_length. lia. }
    assert (HI1 : MInv s1).
    { unfold MInv. rewrite Hbl. unfold s1. cbn [fp_fallback fp_mapped fp_page fp_cap fp_moff fp_buf fp_file fp_pos fp_at_end].
      repeat split; auto; try lia; try discriminate; try (unfold seg; f_equal; lia); try (unfold mo; lia). }
    fold s1. change (fp_fallback s1) with false. cbv iota.
    assert (Hrest : rest up_m s1 = skipn off file).
    { rewrite (MInv_rest s1 HI1). unfold s1. cbn [fp_moff fp_pos fp_file]. f_equal. unfold mo. lia. }
    assert (Hmagic : (rc_magic_size <=? length (fp_buf s1) - fp_pos s1) &&
                     detect_magic (firstn rc_magic_size (skipn (fp_pos s1) (fp_buf s1))) = false).
    { destruct (Nat.leb_spec rc_magic_size (length (fp_buf s1) - fp_pos s1)) as [Hge|Hlt]; [|reflexivity].
      rewrite andb_true_l. change (skipn (fp_pos s1) (fp_buf s1)) with (window s1).
      assert (Hpre : firstn rc_magic_size (window s1) = firstn rc_magic_size (skipn off file)).
      { rewrite <- Hrest. unfold rest. rewrite firstn_app.
        assert (length (window s1) = length (fp_buf s1) - fp_pos s1) by (unfold window; apply skipn_length).
        replace (rc_magic_size - length (window s1)) with 0 by lia. simpl. rewrite app_nil_r. reflexivity. }
      rewrite Hpre, detect_magic_firstn. exact Hm. }
    simpl negb. rewrite andb_true_l. rewrite Hmagic.
    exists s1. split; [reflexivity|]. split; [left; exact HI1|]. unfold up_f. exact Hrest.
Qed.

(* the main theorem of the mmap path (with the fall back to read() when mmap refuses) *)
Theorem file_path_records page cap file off script d cr :
  1 <= page -> page <= cap -> off <= length file -> no_err script = true ->
  detect_magic (skipn off file) = false ->
  exists s sf, fp_open_file page cap file off script = Ok s /\
    read_all d cr s = (Ok (records d cr (skipn off file)), sf) /\
    (forall d' cr', read_line d' cr' sf = (RlEOF, sf)).
Proof.
  intros Hp Hpc Hoff Hne Hm.
  destruct (fp_open_file_spec page cap file off script Hp Hpc Hoff Hne Hm) as (s & E & HI & Hr).
  exists s.
  destruct (read_all_loop_spec FInv up_f FInv_pos FInv_end FInv_setpos up_f_setpos FInv_shift FInv_fuel
              (pending s + length (fp_buf s) + 2) d cr s HI) as (sf & Ea & HIf & Hrf & Hef).
  { destruct HI as [HI|HI].
    - pose proof HI as (Hfb & _).
      assert (Hrm : rest up_f s = rest up_m s) by (unfold rest, up_f; rewrite Hfb; reflexivity).
      rewrite Hrm, (MInv_rest s HI).
      unfold pending. rewrite skipn_length. lia.
    - pose proof HI as (Hfb & _).
      assert (Hrm : rest up_f s = rest up_r s) by (unfold rest, up_f; rewrite Hfb; reflexivity).
      rewrite Hrm.
      unfold rest, window, pending, up_r, rc_pending. rewrite !app_length, skipn_length.
      destruct (fp_rc s); simpl; lia. }
  exists sf. split; [exact E|]. split.
  - unfold read_all. rewrite Ea, Hr. reflexivity.
  - intros d' cr'. unfold read_line, line_fuel. rewrite Nat.add_succ_r.
    apply (read_line_at_eof FInv up_f FInv_pos FInv_end FInv_setpos up_f_setpos FInv_shift); assumption.
Qed.

(* the first mmap fails: read() takes over at the descriptor's offset, nothing before it is delivered *)
Theorem file_mmap_failure_records page cap file off script d cr :
  1 <= cap -> off <= length file -> no_err script = true -> detect_magic (skipn off file) = false ->
  exists s sf, fp_open_file_mmap_fails page cap file off script = Ok s /\
    read_all d cr s = (Ok (records d cr (skipn off file)), sf) /\
    (forall d' cr', read_line d' cr' sf = (RlEOF, sf)).
Proof.
  intros Hc Hoff Hne Hm. unfold fp_open_file_mmap_fails, mmap_shift_failing.
  cbn [fp_pos fp_moff fp_page fp_mapped fp_cap fp_file fp_os fp_rc fp_maps].
  rewrite andb_false_r. rewrite Nat.add_0_l.
  match goal with |- context [transition_to_read ?st] => set (st0 := st) end.
  assert (Hsrc : os_src (fp_os st0) = skipn off file /\ no_err (os_script (fp_os st0)) = true).
  { unfold st0. cbn [fp_os]. destruct (off =? 0) eqn:E; simpl; auto. }
  destruct Hsrc as [Hs0 Hn0].
  unfold transition_to_read.
  destruct (read_factory_spec (fp_os st0) Hn0) as (rc & o' & E & Hpd & Hwf & Hne'); [rewrite Hs0; exact Hm|].
  rewrite E.
  match goal with |- context [read_shift ?st] => set (s1 := st) end.
  assert (HI1 : RInv s1).
  { unfold RInv, s1, st0. simpl. repeat split; auto; try lia; try discriminate. }
  destruct (read_shift_spec s1 HI1 eq_refl) as (s & l & Es & HI & Hw & Hup & _).
  exists s.
  assert (Hr : rest up_r s = skipn off file).
  { unfold rest. rewrite Hw. unfold window at 1, s1 at 1 2. simpl skipn. simpl app.
    rewrite <- Hup. unfold up_r, s1. cbn [fp_rc fp_os]. rewrite Hpd. exact Hs0. }
  destruct (read_all_loop_spec RInv up_r RInv_pos RInv_end RInv_setpos up_r_setpos RInv_shift RInv_fuel
              (pending s + length (fp_buf s) + 2) d cr s HI) as (sf & Ea & HIf & Hrf & Hef).
  { unfold rest, window, pending, up_r, rc_pending. rewrite !app_length, skipn_length.
    destruct (fp_rc s); simpl; lia. }
  exists sf. split; [exact Es|]. split.
  - unfold read_all. rewrite Ea, Hr. reflexivity.
  - intros d' cr'. unfold read_line, line_fuel. rewrite Nat.add_succ_r.
    apply (read_line_at_eof RInv up_r RInv_pos RInv_end RInv_setpos up_r_setpos RInv_shift); assumption.
Qed.

(* the window the constructor computes is always admissible *)
Lemma initial_cap_ok page min_buffer : 1 <= page -> page <= initial_cap page min_buffer /\ 1 <= initial_cap page min_buffer.
Proof. intros H. unfold initial_cap, fp_init_add, fp_init_min_pages. nia. Qed.

(* ------------------------------------------------------------------ other loops over ReadCompressed::Read (C03) *)
Lemma rc_read_or_eof_loop_ok : forall fuel amount acc rc o,
  rc_wf rc o -> no_err (os_script o) = true -> amount < fuel ->
  exists l rc' o', rc_read_or_eof_loop fuel amount acc rc o = (Ok (acc ++ l), rc', o') /\
    rc_pending rc ++ os_src o = l ++ rc_pending rc' ++ os_src o' /\ length l <= amount /\
    (length l < amount -> rc_pending rc' ++ os_src o' = []) /\ rc_wf rc' o' /\ no_err (os_script o') = true.
Proof.
  induction fuel as [|f IH]; intros amount acc rc o Hwf Hne Hf; [lia|].
  destruct amount as [|r].
  - exists [], rc, o. simpl. rewrite app_nil_r. repeat split; auto; lia.
  - cbn [rc_read_or_eof_loop].
    destruct (rc_read_spec (S r) rc o) as (l & rc1 & o1 & E & Hd & Hl & Hnil & Hwf1 & Hne1); auto; [lia|].
    rewrite E. destruct l as [|b l].
    + exists [], rc1, o1. rewrite app_nil_r. simpl in *. repeat split; auto; lia.
    + destruct (IH (S r - length (b :: l)) (acc ++ b :: l) rc1 o1 Hwf1 Hne1) as (l2 & rc2 & o2 & E2 & Hd2 & Hl2 & Hn2 & Hwf2 & Hne2).
      { simpl in *. lia. }
      exists ((b :: l) ++ l2), rc2, o2. rewrite E2, <- app_assoc. split; [reflexivity|].
      repeat split; auto.
      * rewrite Hd, Hd2, <- app_assoc. reflexivity.
      * rewrite app_length. simpl in *. lia.
      * intros HH. apply Hn2. rewrite app_length in HH. simpl in *. lia.
Qed.

Lemma prefix_firstn {A} (l r : list A) n : length l <= n -> (length l < n -> r = []) -> l = firstn n (l ++ r).
Proof.
  intros H1 H2. destruct (Nat.eq_dec (length l) n) as [<-|Hne].
  - rewrite firstn_app, Nat.sub_diag, firstn_all. simpl. rewrite app_nil_r. reflexivity.
  - rewrite H2 by lia. rewrite app_nil_r. rewrite firstn_all2 by lia. reflexivity.
Qed.

(* ReadCompressed(fd).ReadOrEOF(to, amount) returns exactly the first min(amount, |src|) bytes *)
Theorem rc_open_read_or_eof_exact amount src script :
  no_err script = true -> detect_magic src = false ->
  exists o', rc_open_read_or_eof amount (os_init src script) = (Ok (firstn amount src), o').
Proof.
  intros Hne Hm. unfold rc_open_read_or_eof.
  destruct (read_factory_spec (os_init src script) Hne Hm) as (rc & o1 & E & Hp & Hwf & Hne1). rewrite E.
  unfold rc_read_or_eof.
  destruct (rc_read_or_eof_loop_ok (S amount) amount [] rc o1 Hwf Hne1) as (l & rc2 & o2 & E2 & Hd & Hl & Hn & _); [lia|].
  rewrite E2. exists o2. simpl. f_equal. f_equal.
  simpl in Hp. rewrite <- Hp, Hd. apply prefix_firstn; assumption.
Qed.

(* WARC body loop: exactly the missing bytes, whatever the fragmentation *)
Lemma warc_body_loop_ok : forall fuel missing acc rc o,
  rc_wf rc o -> no_err (os_script o) = true -> missing < fuel -> missing <= length (rc_pending rc ++ os_src o) ->
  exists rc' o', warc_body_loop fuel missing acc rc o = (Ok (acc ++ firstn missing (rc_pending rc ++ os_src o)), rc', o') /\
    rc_pending rc' ++ os_src o' = skipn missing (rc_pending rc ++ os_src o) /\ rc_wf rc' o' /\ no_err (os_script o') = true.
Proof.
  induction fuel as [|f IH]; intros missing acc rc o Hwf Hne Hf Hlen; [lia|].
  destruct missing as [|r].
  - exists rc, o. simpl. rewrite app_nil_r. auto.
  - cbn [warc_body_loop].
    destruct (rc_read_spec (S r) rc o) as (l & rc1 & o1 & E & Hd & Hl & Hnil & Hwf1 & Hne1); auto; [lia|].
    rewrite E. destruct l as [|b l0] eqn:El.
    + exfalso. rewrite Hd, (Hnil eq_refl) in Hlen. simpl in Hlen. lia.
    + assert (Hpos : 1 <= length l) by (rewrite El; simpl; lia).
      rewrite <- El in *. clear El.
      destruct (IH (S r - length l) (acc ++ l) rc1 o1 Hwf1 Hne1) as (rc2 & o2 & E2 & Hd2 & Hwf2 & Hne2).
      { lia. }
      { rewrite Hd, app_length in Hlen. lia. }
      exists rc2, o2. rewrite E2. split; [|split; [|auto]].
      * f_equal. f_equal. rewrite <- app_assoc. f_equal. rewrite Hd.
        rewrite (firstn_app_le l (rc_pending rc1 ++ os_src o1) (S r) Hl). reflexivity.
      * rewrite Hd2, Hd. rewrite (skipn_app_le l (rc_pending rc1 ++ os_src o1) (S r) Hl). reflexivity.
Qed.

(* ReadStream::ReadInput refills: the codec is handed the compressed file, in order, once *)
Lemma read_stream_refills_ok : forall fuel bufsize o,
  1 <= bufsize -> no_err (os_script o) = true -> length (os_src o) < fuel ->
  exists ls o', read_stream_refills fuel bufsize o = (Ok ls, o') /\ concat ls = os_src o /\
    Forall (fun l => 1 <= length l <= bufsize) ls /\ os_src o' = [].
Proof.
  induction fuel as [|f IH]; intros bufsize o Hb Hne Hf; [lia|].
  cbn [read_stream_refills].
  destruct (read_or_eof_ok bufsize o Hne) as (l & o1 & E & Hd & Hl & Hshort & Hne1 & _). rewrite E.
  destruct l as [|b l].
  - exists [], o1. simpl in *. repeat split; auto. rewrite Hd. symmetry. apply Hshort. lia.
  - destruct (IH bufsize o1 Hb Hne1) as (ls & o2 & E2 & Hc & Hall & Hs).
    { rewrite Hd, app_length in Hf. simpl in *. lia. }
    rewrite E2. exists ((b :: l) :: ls), o2. repeat split; auto.
    + simpl. rewrite Hc. simpl in Hd. rewrite Hd. reflexivity.
    + constructor; [simpl in *; lia|exact Hall].
Qed.
