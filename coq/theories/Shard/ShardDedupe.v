(* C06 and C01 together: shard's "deduplicate every shard" statement with C01's own
   specification [first_occ] and the concrete keys of the two tools
   (dedupe -f/-d: Fields.KeyInstances.dedupe_keyN; shard -f/-d: field_keyhash, C10 + C14). *)
From PP Require Import Shard.ShardDefs Shard.ShardProofs Shard.ShardConcrete Shard.ShardConcreteProofs.
From PP Require Import Fields.FieldsDefs Fields.FieldsProofs Fields.KeyInstances Tools.DedupeDefs.
From Coq Require Import Permutation.
Local Open Scope N_scope.

(* the specification used in Shard/ShardProofs.v IS C01's first_occ (keys in N, N.eqb) *)
Lemma dedupe_aux_first_occ (kf : list Z -> N) : forall ls seen,
  ShardProofs.dedupe_aux N kf N.eqb seen ls = first_occ_from (list Z) kf seen ls.
Proof.
  induction ls as [|l ls IH]; intros seen; [reflexivity|]. simpl. unfold mem.
  destruct (existsb (N.eqb (kf l)) seen); rewrite IH; reflexivity.
Qed.

Theorem dedupe_is_first_occ (kf : list Z -> N) ls : ShardProofs.dedupe N kf N.eqb ls = first_occ (list Z) kf ls.
Proof. apply dedupe_aux_first_occ. Qed.

(* dedupe -f F -d D of every shard of shard -f F -d D: as a multiset the deduplicated input.
   Both keys are the concrete ones.  The only assumption: among the lines of THIS input no
   two different key selections have the same 64-bit dedupe key (Fields.KeyInstances.no_collision). *)
Theorem dedupe_commutes_concrete rs d n ls : 0 < n -> canonical rs ->
  no_collision (dedupe_keyN rs d) rs d ls ->
  Permutation (concat (map (first_occ (list Z) (dedupe_keyN rs d)) (shard (field_keyhash rs d) n ls)))
              (first_occ (list Z) (dedupe_keyN rs d) ls).
Proof.
  intros Hn C NC.
  rewrite <- dedupe_is_first_occ.
  erewrite map_ext; [|intros a; symmetry; apply dedupe_is_first_occ].
  apply (dedupe_commutes_on N (dedupe_keyN rs d) N.eqb N.eqb_eq); [exact Hn|].
  intros l1 l2 H1 H2 E. apply index_depends_on_pieces.
  rewrite !range_fields_spec_proof by exact C. rewrite (NC l1 l2 H1 H2 E). reflexivity.
Qed.
