(* Proofs about the shard model (C06). *)
From PP Require Import Shard.ShardDefs.
From Coq Require Import Lia Permutation PeanoNat.
Local Open Scope N_scope.

(* ------------------------------------------------------------ update / nth *)
Lemma update_length {A} (l : list A) i f : length (update l i f) = length l.
Proof. revert i. induction l as [|x l IH]; intros [|i]; simpl; auto. Qed.

Lemma nth_update {A} (l : list A) (d : A) f : forall i j, (j < length l)%nat ->
  nth i (update l j f) d = if Nat.eqb i j then f (nth i l d) else nth i l d.
Proof.
  induction l as [|x l IH]; intros i j Hj; [simpl in Hj; lia|].
  destruct j as [|j]; destruct i as [|i]; simpl; auto.
  apply IH. simpl in Hj. lia.
Qed.

Section ShardProofs.
  Variable keyhash : list Z -> N.
  Notation index := (index keyhash).
  Notation shard := (shard keyhash).
  Notation shard_step := (shard_step keyhash).

  Definition idx (n : N) (l : list Z) : nat := N.to_nat (index n l).

  Lemma idx_lt n l : 0 < n -> (idx n l < N.to_nat n)%nat.
  Proof. intros H. unfold idx, ShardDefs.index. pose proof (N.mod_lt (keyhash l) n). lia. Qed.

  Lemma fold_shard n (Hn : 0 < n) : forall ls outs, length outs = N.to_nat n ->
    length (fold_left (shard_step n) ls outs) = N.to_nat n /\
    forall i, (i < N.to_nat n)%nat ->
      nth i (fold_left (shard_step n) ls outs) [] = nth i outs [] ++ filter (fun l => Nat.eqb (idx n l) i) ls.
  Proof.
    induction ls as [|l ls IH]; intros outs Hl.
    - simpl. split; [exact Hl|]. intros i _. rewrite app_nil_r. reflexivity.
    - simpl fold_left.
      assert (Hl' : length (shard_step n outs l) = N.to_nat n) by (unfold ShardDefs.shard_step; rewrite update_length; exact Hl).
      destruct (IH _ Hl') as [H1 H2]. split; [exact H1|].
      intros i Hi. rewrite (H2 i Hi). unfold ShardDefs.shard_step.
      rewrite nth_update by (rewrite Hl; apply idx_lt; exact Hn).
      fold (idx n l). simpl filter.
      rewrite (Nat.eqb_sym (idx n l) i).
      destruct (Nat.eqb i (idx n l)); [rewrite <- app_assoc; reflexivity|reflexivity].
  Qed.

  (* shard i receives exactly the input lines whose index is i, in input order *)
  Theorem shard_is_filter n ls i : 0 < n -> (i < N.to_nat n)%nat ->
    nth i (shard n ls) [] = filter (fun l => Nat.eqb (idx n l) i) ls.
  Proof.
    intros Hn Hi. unfold ShardDefs.shard.
    destruct (fold_shard n Hn ls (repeat [] (N.to_nat n)) (repeat_length _ _)) as [_ H].
    rewrite (H i Hi). rewrite nth_repeat. reflexivity.
  Qed.

  Lemma shard_length n ls : 0 < n -> length (shard n ls) = N.to_nat n.
  Proof.
    intros Hn. unfold ShardDefs.shard.
    apply (fold_shard n Hn ls (repeat [] (N.to_nat n)) (repeat_length _ _)).
  Qed.

  Lemma shard_eq_map n ls : 0 < n ->
    shard n ls = map (fun i => filter (fun l => Nat.eqb (idx n l) i) ls) (seq 0 (N.to_nat n)).
  Proof.
    intros Hn. apply nth_ext with (d := []) (d' := []).
    - rewrite shard_length by exact Hn. rewrite map_length, seq_length. reflexivity.
    - intros i Hi. rewrite shard_length in Hi by exact Hn.
      rewrite shard_is_filter by assumption.
      rewrite (nth_indep _ [] (filter (fun l => Nat.eqb (idx n l) 0) ls)) by (rewrite map_length, seq_length; exact Hi).
      rewrite (map_nth (fun i => filter (fun l => Nat.eqb (idx n l) i) ls) (seq 0 (N.to_nat n)) 0%nat i).
      rewrite seq_nth by exact Hi. reflexivity.
  Qed.
End ShardProofs.

(* ------------------------------------------------------------ partition *)
Lemma concat_map_app {A B} (g h : B -> list A) (l : list B) :
  Permutation (concat (map (fun i => g i ++ h i) l)) (concat (map g l) ++ concat (map h l)).
Proof.
  induction l as [|x l IH]; simpl; [constructor|].
  rewrite <- !app_assoc. apply Permutation_app_head.
  eapply Permutation_trans; [apply Permutation_app_head; exact IH|].
  rewrite !app_assoc. apply Permutation_app_tail. apply Permutation_app_comm.
Qed.

Lemma concat_none {A} (a : A) (k : nat) : forall m t, (k < t)%nat ->
  concat (map (fun i => if Nat.eqb k i then [a] else []) (seq t m)) = [].
Proof.
  induction m as [|m IHm]; intros t Ht; [reflexivity|]. simpl.
  destruct (Nat.eqb k t) eqn:E; [apply Nat.eqb_eq in E; lia|]. simpl. apply IHm. lia.
Qed.

Lemma concat_single {A} (a : A) (k : nat) : forall n s, (s <= k < s + n)%nat ->
  concat (map (fun i => if Nat.eqb k i then [a] else []) (seq s n)) = [a].
Proof.
  induction n as [|n IH]; intros s H; [lia|].
  simpl. destruct (Nat.eqb k s) eqn:E.
  - apply Nat.eqb_eq in E. subst. simpl. f_equal. apply concat_none. lia.
  - simpl. apply IH. apply Nat.eqb_neq in E. lia.
Qed.

(* splitting a list by a function into [0,n) and concatenating the classes permutes it *)
Lemma classes_permutation {A} (f : A -> nat) (n : nat) : forall ls,
  (forall l, In l ls -> (f l < n)%nat) ->
  Permutation (concat (map (fun i => filter (fun l => Nat.eqb (f l) i) ls) (seq 0 n))) ls.
Proof.
  induction ls as [|a ls IH]; intros H.
  - simpl. induction (seq 0 n); simpl; auto.
  - assert (E : map (fun i => filter (fun l => Nat.eqb (f l) i) (a :: ls)) (seq 0 n) =
                map (fun i => (if Nat.eqb (f a) i then [a] else []) ++ filter (fun l => Nat.eqb (f l) i) ls) (seq 0 n)).
    { apply map_ext. intros i. simpl. destruct (Nat.eqb (f a) i); reflexivity. }
    rewrite E.
    eapply Permutation_trans; [apply concat_map_app|].
    rewrite concat_single by (pose proof (H a (or_introl eq_refl)); lia).
    simpl. constructor. apply IH. intros l Hl. apply H. right. exact Hl.
Qed.

(* C06 partition: the shards together are a permutation of the input lines *)
Theorem shard_partition keyhash n ls : 0 < n -> Permutation (concat (shard keyhash n ls)) ls.
Proof.
  intros Hn. rewrite shard_eq_map by exact Hn.
  apply classes_permutation. intros l _. apply idx_lt. exact Hn.
Qed.

(* a line is in shard i iff it is an input line with index i: all lines with
   the same key hash are in the same file, and in no other *)
Theorem shard_colocated keyhash n ls i l : 0 < n -> (i < N.to_nat n)%nat ->
  (In l (nth i (shard keyhash n ls) []) <-> In l ls /\ index keyhash n l = N.of_nat i).
Proof.
  intros Hn Hi. rewrite shard_is_filter by assumption. rewrite filter_In.
  unfold idx. rewrite Nat.eqb_eq. split; intros [H1 H2]; (split; [exact H1|lia]).
Qed.
