(* Proofs about the shard model (C06). *)
From PP Require Import Shard.ShardDefs.
From Coq Require Import Lia Permutation PeanoNat.
Local Open Scope N_scope.

(* ------------------------------------------------------------ update / nth *)
Lemma update_length {A} (l : list A) i f : length (update l i f) = length l.
Proof. revert i. induction l as [|x l IH]; intros [|i]; simpl; auto. Qed.

Lemma nth_update {A} (l : list A) (d : A) f : forall i j, (j < length l)%nat ->
  nth i (update l j f) d = if Nat.eqb i j then f (nth i l d) else nth i l d.
Proof.
  induction l as [|x l IH]; intros i j Hj; [simpl in Hj; lia|].
  destruct j as [|j]; destruct i as [|i]; simpl; auto.
  apply IH. simpl in Hj. lia.
Qed.

(* ------------------------------------------------------------ the fast record splitter is the specification *)
Lemma split_at_fast_eq d : forall bs cur, split_at_fast d bs cur = split_at d bs cur.
Proof.
  induction bs as [|b bs IH]; intros cur; simpl.
  - rewrite <- rev_alt. reflexivity.
  - destruct (b =? d)%Z.
    + rewrite IH. rewrite <- rev_alt. reflexivity.
    + apply IH.
Qed.

Lemma strip_cr_fast_eq l : strip_cr_fast l = strip_cr l.
Proof. unfold strip_cr_fast, strip_cr. rewrite <- rev_alt. destruct (rev l) as [|x r]; [reflexivity|]. rewrite <- rev_alt. reflexivity. Qed.

Lemma records_fast_eq d cr bs : records_fast d cr bs = records d cr bs.
Proof.
  unfold records_fast, records. rewrite split_at_fast_eq. destruct (split_at d bs []) as [rs t].
  f_equal. destruct cr; [|reflexivity]. apply map_ext. apply strip_cr_fast_eq.
Qed.

Lemma shard_tool_fast_eq keyhash n input : shard_tool_fast keyhash n input = shard_tool keyhash n input.
Proof. unfold shard_tool_fast, shard_tool. rewrite records_fast_eq. reflexivity. Qed.

Section ShardProofs.
  Variable keyhash : list Z -> N.
  Notation index := (index keyhash).
  Notation shard := (shard keyhash).
  Notation shard_step := (shard_step keyhash).

  Definition idx (n : N) (l : list Z) : nat := N.to_nat (index n l).

  Lemma idx_lt n l : 0 < n -> (idx n l < N.to_nat n)%nat.
  Proof. intros H. unfold idx, ShardDefs.index. pose proof (N.mod_lt (keyhash l) n). lia. Qed.

  Lemma fold_shard n (Hn : 0 < n) : forall ls outs, length outs = N.to_nat n ->
    length (fold_left (shard_step n) ls outs) = N.to_nat n /\
    forall i, (i < N.to_nat n)%nat ->
      nth i (fold_left (shard_step n) ls outs) [] = nth i outs [] ++ filter (fun l => Nat.eqb (idx n l) i) ls.
  Proof.
    induction ls as [|l ls IH]; intros outs Hl.
    - simpl. split; [exact Hl|]. intros i _. rewrite app_nil_r. reflexivity.
    - simpl fold_left.
      assert (Hl' : length (shard_step n outs l) = N.to_nat n) by (unfold ShardDefs.shard_step; rewrite update_length; exact Hl).
      destruct (IH _ Hl') as [H1 H2]. split; [exact H1|].
      intros i Hi. rewrite (H2 i Hi). unfold ShardDefs.shard_step.
      rewrite nth_update by (rewrite Hl; apply idx_lt; exact Hn).
      fold (idx n l). simpl filter.
      rewrite (Nat.eqb_sym (idx n l) i).
      destruct (Nat.eqb i (idx n l)); [rewrite <- app_assoc; reflexivity|reflexivity].
  Qed.

  (* shard i receives exactly the input lines whose index is i, in input order *)
  Theorem shard_is_filter n ls i : 0 < n -> (i < N.to_nat n)%nat ->
    nth i (shard n ls) [] = filter (fun l => Nat.eqb (idx n l) i) ls.
  Proof.
    intros Hn Hi. unfold ShardDefs.shard.
    destruct (fold_shard n Hn ls (repeat [] (N.to_nat n)) (repeat_length _ _)) as [_ H].
    rewrite (H i Hi). rewrite nth_repeat. reflexivity.
  Qed.

  Lemma shard_length n ls : 0 < n -> length (shard n ls) = N.to_nat n.
  Proof.
    intros Hn. unfold ShardDefs.shard.
    apply (fold_shard n Hn ls (repeat [] (N.to_nat n)) (repeat_length _ _)).
  Qed.

  Lemma shard_eq_map n ls : 0 < n ->
    shard n ls = map (fun i => filter (fun l => Nat.eqb (idx n l) i) ls) (seq 0 (N.to_nat n)).
  Proof.
    intros Hn. apply nth_ext with (d := []) (d' := []).
    - rewrite shard_length by exact Hn. rewrite map_length, seq_length. reflexivity.
    - intros i Hi. rewrite shard_length in Hi by exact Hn.
      rewrite shard_is_filter by assumption.
      rewrite (nth_indep _ [] (filter (fun l => Nat.eqb (idx n l) 0) ls)) by (rewrite map_length, seq_length; exact Hi).
      rewrite (map_nth (fun i => filter (fun l => Nat.eqb (idx n l) i) ls) (seq 0 (N.to_nat n)) 0%nat i).
      rewrite seq_nth by exact Hi. reflexivity.
  Qed.
End ShardProofs.

(* ------------------------------------------------------------ partition *)
Lemma concat_map_app {A B} (g h : B -> list A) (l : list B) :
  Permutation (concat (map (fun i => g i ++ h i) l)) (concat (map g l) ++ concat (map h l)).
Proof.
  induction l as [|x l IH]; simpl; [constructor|].
  rewrite <- !app_assoc. apply Permutation_app_head.
  eapply Permutation_trans; [apply Permutation_app_head; exact IH|].
  rewrite !app_assoc. apply Permutation_app_tail. apply Permutation_app_comm.
Qed.

Lemma concat_none {A} (a : A) (k : nat) : forall m t, (k < t)%nat ->
  concat (map (fun i => if Nat.eqb k i then [a] else []) (seq t m)) = [].
Proof.
  induction m as [|m IHm]; intros t Ht; [reflexivity|]. simpl.
  destruct (Nat.eqb k t) eqn:E; [apply Nat.eqb_eq in E; lia|]. simpl. apply IHm. lia.
Qed.

Lemma concat_single {A} (a : A) (k : nat) : forall n s, (s <= k < s + n)%nat ->
  concat (map (fun i => if Nat.eqb k i then [a] else []) (seq s n)) = [a].
Proof.
  induction n as [|n IH]; intros s H; [lia|].
  simpl. destruct (Nat.eqb k s) eqn:E.
  - apply Nat.eqb_eq in E. subst. simpl. f_equal. apply concat_none. lia.
  - simpl. apply IH. apply Nat.eqb_neq in E. lia.
Qed.

(* splitting a list by a function into [0,n) and concatenating the classes permutes it *)
Lemma classes_permutation {A} (f : A -> nat) (n : nat) : forall ls,
  (forall l, In l ls -> (f l < n)%nat) ->
  Permutation (concat (map (fun i => filter (fun l => Nat.eqb (f l) i) ls) (seq 0 n))) ls.
Proof.
  induction ls as [|a ls IH]; intros H.
  - simpl. induction (seq 0 n); simpl; auto.
  - assert (E : map (fun i => filter (fun l => Nat.eqb (f l) i) (a :: ls)) (seq 0 n) =
                map (fun i => (if Nat.eqb (f a) i then [a] else []) ++ filter (fun l => Nat.eqb (f l) i) ls) (seq 0 n)).
    { apply map_ext. intros i. simpl. destruct (Nat.eqb (f a) i); reflexivity. }
    rewrite E.
    eapply Permutation_trans; [apply concat_map_app|].
    rewrite concat_single by (pose proof (H a (or_introl eq_refl)); lia).
    simpl. constructor. apply IH. intros l Hl. apply H. right. exact Hl.
Qed.

(* C06 partition: the shards together are a permutation of the input lines *)
Theorem shard_partition keyhash n ls : 0 < n -> Permutation (concat (shard keyhash n ls)) ls.
Proof.
  intros Hn. rewrite shard_eq_map by exact Hn.
  apply classes_permutation. intros l _. apply idx_lt. exact Hn.
Qed.

(* a line is in shard i iff it is an input line with index i: all lines with
   the same key hash are in the same file, and in no other *)
Theorem shard_colocated keyhash n ls i l : 0 < n -> (i < N.to_nat n)%nat ->
  (In l (nth i (shard keyhash n ls) []) <-> In l ls /\ index keyhash n l = N.of_nat i).
Proof.
  intros Hn Hi. rewrite shard_is_filter by assumption. rewrite filter_In.
  unfold idx. rewrite Nat.eqb_eq. split; intros [H1 H2]; (split; [exact H1|lia]).
Qed.

(* ------------------------------------------------------------ dedupe commutes with sharding *)
Section Dedupe.
  Variable K : Type.
  Variable kf : list Z -> K.               (* the dedupe key of a line *)
  Variable keq : K -> K -> bool.
  Hypothesis keq_spec : forall a b, keq a b = true <-> a = b.

  (* C01's specification: keep the first line of every key *)
  Fixpoint dedupe_aux (seen : list K) (ls : list (list Z)) : list (list Z) :=
    match ls with
    | [] => []
    | l :: r => if existsb (keq (kf l)) seen then dedupe_aux seen r
                else l :: dedupe_aux (kf l :: seen) r
    end.
  Definition dedupe (ls : list (list Z)) : list (list Z) := dedupe_aux [] ls.

  (* [U]: the lines under consideration; the key only has to decide P on them *)
  Lemma dedupe_filter_on (U : list (list Z)) (P : list Z -> bool) :
    (forall l1 l2, In l1 U -> In l2 U -> kf l1 = kf l2 -> P l1 = P l2) ->
    forall ls seenP seenAll, incl ls U ->
      (forall l, In l ls -> P l = true -> existsb (keq (kf l)) seenP = existsb (keq (kf l)) seenAll) ->
      dedupe_aux seenP (filter P ls) = filter P (dedupe_aux seenAll ls).
  Proof.
    intros HP. induction ls as [|l ls IH]; intros seenP seenAll Hincl Hinv; [reflexivity|].
    assert (HlU : In l U) by (apply Hincl; left; reflexivity).
    assert (Hincl' : incl ls U) by (intros x Hx; apply Hincl; right; exact Hx).
    simpl. destruct (P l) eqn:EP.
    - simpl. rewrite (Hinv l (or_introl eq_refl) EP).
      destruct (existsb (keq (kf l)) seenAll) eqn:ES.
      + apply IH; [exact Hincl'|]. intros l' Hl'. apply Hinv. right. exact Hl'.
      + simpl. rewrite EP. f_equal. apply IH; [exact Hincl'|].
        intros l' Hl' HP'. simpl. rewrite (Hinv l' (or_intror Hl') HP'). reflexivity.
    - destruct (existsb (keq (kf l)) seenAll) eqn:ES.
      + apply IH; [exact Hincl'|]. intros l' Hl'. apply Hinv. right. exact Hl'.
      + simpl. rewrite EP. apply IH; [exact Hincl'|].
        intros l' Hl' HP'. simpl. rewrite (Hinv l' (or_intror Hl') HP').
        destruct (keq (kf l') (kf l)) eqn:EK; [|reflexivity].
        apply keq_spec in EK. rewrite (HP l' l (Hincl' l' Hl') HlU EK) in HP'. congruence.
  Qed.

  Lemma dedupe_filter (P : list Z -> bool) :
    (forall l1 l2, kf l1 = kf l2 -> P l1 = P l2) ->
    forall ls seenP seenAll,
      (forall l, P l = true -> existsb (keq (kf l)) seenP = existsb (keq (kf l)) seenAll) ->
      dedupe_aux seenP (filter P ls) = filter P (dedupe_aux seenAll ls).
  Proof.
    intros HP ls seenP seenAll Hinv. apply (dedupe_filter_on ls P).
    - intros l1 l2 _ _. apply HP.
    - apply incl_refl.
    - intros l _. apply Hinv.
  Qed.

  (* lines OF THE INPUT with equal dedupe key go to the same shard (same -f/-d for both
     tools, no hash collision between different keys among these lines) => deduplicating
     every shard gives, as a multiset, the deduplicated input.  The hypothesis speaks
     about the input lines only: it is satisfiable for a 64-bit hash. *)
  Theorem dedupe_commutes_on keyhash n ls : 0 < n ->
    (forall l1 l2, In l1 ls -> In l2 ls -> kf l1 = kf l2 -> index keyhash n l1 = index keyhash n l2) ->
    Permutation (concat (map dedupe (shard keyhash n ls))) (dedupe ls).
  Proof.
    intros Hn Hk. rewrite shard_eq_map by exact Hn. rewrite map_map.
    assert (E : map (fun i => dedupe (filter (fun l => Nat.eqb (idx keyhash n l) i) ls)) (seq 0 (N.to_nat n)) =
                map (fun i => filter (fun l => Nat.eqb (idx keyhash n l) i) (dedupe ls)) (seq 0 (N.to_nat n))).
    { apply map_ext. intros i. unfold dedupe. apply (dedupe_filter_on ls).
      - intros l1 l2 H1 H2 H. unfold idx. rewrite (Hk l1 l2 H1 H2 H). reflexivity.
      - apply incl_refl.
      - intros l _ _. reflexivity. }
    rewrite E. apply classes_permutation. intros l _. apply idx_lt. exact Hn.
  Qed.

  Theorem dedupe_commutes keyhash n ls : 0 < n ->
    (forall l1 l2, kf l1 = kf l2 -> index keyhash n l1 = index keyhash n l2) ->
    Permutation (concat (map dedupe (shard keyhash n ls))) (dedupe ls).
  Proof. intros Hn Hk. apply dedupe_commutes_on; [exact Hn|]. intros l1 l2 _ _. apply Hk. Qed.
End Dedupe.

(* ------------------------------------------------------------ blocks handed to the writer *)
Lemma chunks_concat size : (0 < size)%nat -> forall fuel bs, (length bs < fuel)%nat ->
  concat (chunks fuel size bs) = bs.
Proof.
  intros Hs. induction fuel as [|fuel IH]; intros bs Hf; [lia|].
  destruct bs as [|b bs]; [reflexivity|].
  cbn [chunks]. cbn [concat]. rewrite IH.
  - apply firstn_skipn.
  - rewrite skipn_length. simpl length in *. lia.
Qed.

Lemma blocks_concat bs : concat (blocks bs) = bs.
Proof.
  unfold blocks. apply chunks_concat; [|lia].
  assert (0 < kBlockSize) by (vm_compute; reflexivity). lia.
Qed.

(* ------------------------------------------------------------ output names *)
Definition dvalN (l : list Z) : Z := fold_left (fun a b => a * 10 + (b - 48))%Z l 0%Z.

Lemma dvalN_app a b : dvalN (a ++ b) = fold_left (fun x y => x * 10 + (y - 48))%Z b (dvalN a).
Proof. unfold dvalN. apply fold_left_app. Qed.

Lemma dvalN_zeros k : forall l, dvalN (repeat 48%Z k ++ l) = dvalN l.
Proof.
  intros l. rewrite dvalN_app.
  assert (Hz : dvalN (repeat 48%Z k) = 0%Z).
  { unfold dvalN. induction k as [|k IH]; [reflexivity|]. simpl. exact IH. }
  rewrite Hz. reflexivity.
Qed.

Lemma dec_loop_spec : forall fuel x acc, x < 10 ^ N.of_nat fuel ->
  exists ds, dec_loop fuel x acc = ds ++ acc /\ dvalN ds = Z.of_N x.
Proof.
  induction fuel as [|fuel IH]; intros x acc Hx.
  - simpl in Hx. assert (x = 0) by lia. subst. exists []. split; reflexivity.
  - cbn [dec_loop].
    assert (Hpow : 10 ^ N.of_nat (S fuel) = 10 * 10 ^ N.of_nat fuel).
    { rewrite Nat2N.inj_succ. rewrite N.pow_succ_r'. reflexivity. }
    destruct (x / 10 =? 0) eqn:E.
    + exists [(48 + Z.of_N (x mod 10))%Z]. split; [reflexivity|].
      unfold dvalN. cbn [fold_left]. apply N.eqb_eq in E.
      pose proof (N.div_mod x 10 ltac:(lia)). lia.
    + apply N.eqb_neq in E.
      destruct (IH (x / 10) ((48 + Z.of_N (x mod 10))%Z :: acc)) as [ds [H1 H2]].
      { rewrite Hpow in Hx. apply N.div_lt_upper_bound; lia. }
      exists (ds ++ [(48 + Z.of_N (x mod 10))%Z]). split.
      * rewrite H1. rewrite <- app_assoc. reflexivity.
      * rewrite dvalN_app. cbn [fold_left]. rewrite H2.
        pose proof (N.div_mod x 10 ltac:(lia)). lia.
Qed.

Lemma pad_value w i : i < 10 ^ 40 -> dvalN (pad w i) = Z.of_N i.
Proof.
  intros Hi. unfold pad. rewrite dvalN_zeros. unfold decimal.
  destruct (dec_loop_spec 40 i [] Hi) as [ds [H1 H2]]. rewrite H1, app_nil_r. exact H2.
Qed.

Lemma NoDup_map_inj_in {A B} (f : A -> B) (l : list A) :
  (forall x y, In x l -> In y l -> f x = f y -> x = y) -> NoDup l -> NoDup (map f l).
Proof.
  intros Hinj H. induction H as [|a l Hnin H IH]; [constructor|].
  simpl. constructor.
  - intros Hin. apply in_map_iff in Hin. destruct Hin as [y [Hy Hyl]].
    assert (y = a) by (apply Hinj; [right; exact Hyl|left; reflexivity|exact Hy]).
    subst. contradiction.
  - apply IH. intros x y Hx Hy. apply Hinj; right; assumption.
Qed.

(* the names of --prefix p --number n are pairwise different *)
Theorem names_distinct prefix number : number < 10 ^ 40 -> NoDup (names prefix number).
Proof.
  intros Hn. unfold names. apply NoDup_map_inj_in.
  - intros i j Hi Hj H. apply in_seq in Hi. apply in_seq in Hj.
    apply app_inv_head in H.
    assert (E : dvalN (pad (digits_of number) (N.of_nat i)) = dvalN (pad (digits_of number) (N.of_nat j))) by (rewrite H; reflexivity).
    rewrite !pad_value in E by lia. lia.
  - apply seq_NoDup.
Qed.

(* ------------------------------------------------------------ every output file is valid *)
From PP Require Import Compress.CompressDefs Compress.CompressProofs.

Lemma write_plain_blocks bs : write_plain (map OpWrite (blocks bs)) = bs.
Proof.
  unfold write_plain. rewrite flat_map_concat_map, map_map. simpl.
  rewrite map_id. apply blocks_concat.
Qed.

(* the writer thread of shard i hands the shard's bytes to WriteCompressed in
   kBlockSize pieces and flushes once at the end (also when there is nothing):
   by C15 the file is a non-empty sequence of complete members expanding to
   exactly the shard's lines *)
Theorem shard_files_valid :
  forall (world estate : Type) (enew : world -> kind -> estate * world)
         (ereset : kind -> estate -> estate)
         (ecall : kind -> estate -> Z -> list Z -> N -> cres estate)
         (member : kind -> list Z -> list Z -> Prop)
         (EInv : kind -> estate -> list Z -> list Z -> Prop) (epend : estate -> nat),
    (forall k m p, member k m p -> starts_with (magic_of k) m = true) ->
    (forall w k, EInv k (fst (enew w k)) [] []) ->
    (forall k st, EInv k (ereset k st) [] []) ->
    ecall_run_contract estate ecall EInv epend ->
    ecall_finish_contract estate ecall member EInv epend ->
    forall (keyhash : list Z -> N) (n : N) (input : list Z) (k : kind) (w : world) (i : nat),
      k <> KXz ->
      let content := nth i (shard_tool keyhash n input) [] in
      exists f0 file,
        (forall fuel, (f0 <= fuel)%nat ->
           write_session world estate enew ereset ecall fuel k w (map OpWrite (blocks content)) = FileOk file) /\
        kstream member k file content /\ file <> [].
Proof.
  intros world estate enew ereset ecall member EInv epend Hm He Hr Hrun Hfin keyhash n input k w i Hk content.
  destruct (write_then_decode_proof world estate enew ereset ecall member EInv epend Hm He Hr Hrun Hfin
              k w (map OpWrite (blocks content)) Hk) as [f0 [file [HW [Hks Hne]]]].
  exists f0, file. rewrite write_plain_blocks in Hks. auto.
Qed.

(* names in index order are strictly increasing as byte strings: boolean checker,
   used for the bounded evidence below (the general proof is not done) *)
Fixpoint lex_ltb (a b : list Z) : bool :=
  match a, b with
  | [], [] => false
  | [], _ :: _ => true
  | _ :: _, [] => false
  | x :: a', y :: b' => (x <? y)%Z || ((x =? y)%Z && lex_ltb a' b')
  end.
Fixpoint sortedb (l : list (list Z)) : bool :=
  match l with
  | a :: ((b :: _) as r) => lex_ltb a b && sortedb r
  | _ => true
  end.

(* ------------------------------------------------------------ the names are sorted *)
Ltac Zify.zify_post_hook ::= Z.div_mod_to_equations.
Definition isdig (b : Z) : Prop := (48 <= b <= 57)%Z.

Lemma lex_ltb_prefix p : forall x y, lex_ltb (p ++ x) (p ++ y) = lex_ltb x y.
Proof.
  induction p as [|a p IH]; intros x y; [reflexivity|].
  simpl. rewrite Z.ltb_irrefl, Z.eqb_refl. simpl. apply IH.
Qed.

Lemma sortedb_map_seq (f : nat -> list Z) : forall n s,
  (forall i, (s <= i)%nat -> (S i < s + n)%nat -> lex_ltb (f i) (f (S i)) = true) ->
  sortedb (map f (seq s n)) = true.
Proof.
  induction n as [|n IH]; intros s H; [reflexivity|].
  destruct n as [|n]; [reflexivity|].
  change (sortedb (f s :: f (S s) :: map f (seq (S (S s)) n)) = true).
  cbn [sortedb]. rewrite (H s) by lia. simpl andb.
  change (sortedb (map f (seq (S s) (S n))) = true). apply IH. intros i H1 H2. apply H; lia.
Qed.

Lemma fold_dval_acc l : forall acc,
  fold_left (fun a b => a * 10 + (b - 48))%Z l acc = (acc * 10 ^ Z.of_nat (length l) + dvalN l)%Z.
Proof.
  induction l as [|b l IH]; intros acc.
  - simpl. unfold dvalN. simpl. lia.
  - cbn [fold_left]. rewrite IH. unfold dvalN. cbn [fold_left]. rewrite (IH (0 * 10 + (b - 48))%Z).
    cbn [length]. rewrite Nat2Z.inj_succ. rewrite Z.pow_succ_r by lia. unfold dvalN. lia.
Qed.

Lemma dvalN_cons b l : dvalN (b :: l) = ((b - 48) * 10 ^ Z.of_nat (length l) + dvalN l)%Z.
Proof. unfold dvalN at 1. cbn [fold_left]. rewrite fold_dval_acc. lia. Qed.

Lemma dvalN_bound l : Forall isdig l -> (0 <= dvalN l < 10 ^ Z.of_nat (length l))%Z.
Proof.
  intros H. induction H as [|b l Hb H IH].
  - unfold dvalN. simpl. lia.
  - rewrite dvalN_cons. cbn [length]. rewrite Nat2Z.inj_succ, Z.pow_succ_r by lia.
    unfold isdig in Hb. nia.
Qed.

Lemma lex_digits : forall a b, length a = length b -> Forall isdig a -> Forall isdig b ->
  (dvalN a < dvalN b)%Z -> lex_ltb a b = true.
Proof.
  induction a as [|x a IH]; intros [|y b] Hl Ha Hb Hlt; simpl in Hl; try discriminate.
  inversion Ha as [|? ? Hx Ha']; subst. inversion Hb as [|? ? Hy Hb']; subst.
  { rewrite !dvalN_cons in Hlt.
    assert (Hl' : length a = length b) by lia. rewrite Hl' in Hlt.
    pose proof (dvalN_bound a Ha') as Ba. pose proof (dvalN_bound b Hb') as Bb. rewrite Hl' in Ba.
    cbn [lex_ltb].
    destruct (x <? y)%Z eqn:E1; [reflexivity|].
    destruct (x =? y)%Z eqn:E2.
    + simpl. apply IH; auto. apply Z.eqb_eq in E2. subst. lia.
    + exfalso. apply Z.ltb_ge in E1. apply Z.eqb_neq in E2.
      assert (y + 1 <= x)%Z by lia. nia. }
Qed.

Lemma dec_loop_digits : forall fuel x acc, Forall isdig acc -> Forall isdig (dec_loop fuel x acc).
Proof.
  induction fuel as [|fuel IH]; intros x acc H; [exact H|].
  cbn [dec_loop].
  assert (Hd : isdig (48 + Z.of_N (x mod 10))%Z).
  { unfold isdig. rewrite N2Z.inj_mod. pose proof (Z.mod_pos_bound (Z.of_N x) (Z.of_N 10) ltac:(lia)) as Hb.
    change (Z.of_N 10) with 10%Z in *. lia. }
  destruct (x / 10 =? 0); [constructor; assumption|]. apply IH. constructor; assumption.
Qed.

Lemma digits_loop_ge : forall fuel c acc, acc <= digits_loop fuel c acc.
Proof.
  induction fuel as [|fuel IH]; intros c acc; simpl.
  - destruct (c =? 0); lia.
  - destruct (c =? 0); [lia|]. specialize (IH (c / 10) (acc + 1)). lia.
Qed.

Lemma dec_len_le_digits : forall fuel x m a dacc, x <= m -> 0 < m -> m < 10 ^ N.of_nat fuel ->
  (length (dec_loop fuel x a) - length a <= N.to_nat (digits_loop fuel m dacc) - N.to_nat dacc)%nat.
Proof.
  induction fuel as [|fuel IH]; intros x m a dacc Hx Hm Hb.
  - simpl in Hb. lia.
  - cbn [dec_loop digits_loop].
    destruct (m =? 0) eqn:Em; [apply N.eqb_eq in Em; lia|].
    assert (Hpow : 10 ^ N.of_nat (S fuel) = 10 * 10 ^ N.of_nat fuel).
    { rewrite Nat2N.inj_succ. rewrite N.pow_succ_r'. reflexivity. }
    pose proof (digits_loop_ge fuel (m / 10) (dacc + 1)) as Hge.
    destruct (x / 10 =? 0) eqn:Ex.
    + simpl length. lia.
    + apply N.eqb_neq in Ex.
      assert (Hx10 : x / 10 <= m / 10) by (apply N.div_le_mono; lia).
      assert (Hm10 : 0 < m / 10) by lia.
      assert (Hb10 : m / 10 < 10 ^ N.of_nat fuel) by (rewrite Hpow in Hb; apply N.div_lt_upper_bound; lia).
      specialize (IH (x / 10) (m / 10) ((48 + Z.of_N (x mod 10))%Z :: a) (dacc + 1) Hx10 Hm10 Hb10).
      cbn [length] in IH. lia.
Qed.

Lemma pad_facts number x : 2 <= number -> number < 4294967296 -> x < number ->
  length (pad (digits_of number) x) = N.to_nat (digits_of number) /\
  Forall isdig (pad (digits_of number) x) /\ dvalN (pad (digits_of number) x) = Z.of_N x.
Proof.
  intros H2 Hn Hx.
  assert (Hu : u32N (Z.of_N number - 1) = number - 1).
  { unfold u32N. rewrite Z.mod_small by lia. lia. }
  assert (Hlen : (length (decimal x) <= N.to_nat (digits_of number))%nat).
  { unfold decimal, digits_of. rewrite Hu.
    assert (Hb40 : number - 1 < 10 ^ N.of_nat 40).
    { change (10 ^ N.of_nat 40) with 10000000000000000000000000000000000000000. lia. }
    pose proof (dec_len_le_digits 40 x (number - 1) [] 0 ltac:(lia) ltac:(lia) Hb40) as H.
    change (length (@nil Z)) with 0%nat in H. change (N.to_nat 0) with 0%nat in H. lia. }
  assert (Hdig : Forall isdig (decimal x)) by (apply dec_loop_digits; constructor).
  split; [|split].
  - unfold pad. rewrite app_length, repeat_length. lia.
  - unfold pad. apply Forall_app. split; [|exact Hdig].
    apply Forall_forall. intros b Hb. apply repeat_spec in Hb. subst. unfold isdig. lia.
  - apply pad_value. change (10 ^ 40) with 10000000000000000000000000000000000000000. lia.
Qed.

(* --prefix p --number n: in index order the names are strictly increasing byte strings *)
Theorem names_sorted prefix number : number < 4294967296 -> sortedb (names prefix number) = true.
Proof.
  intros Hn. unfold names.
  destruct (N.lt_ge_cases number 2) as [Hs|Hs].
  - (* at most one name *)
    assert (N.to_nat number = 0%nat \/ N.to_nat number = 1%nat) as [E|E] by lia; rewrite E; reflexivity.
  - apply sortedb_map_seq. intros i H1 H2. rewrite lex_ltb_prefix.
    destruct (pad_facts number (N.of_nat i) Hs Hn ltac:(lia)) as [L1 [D1 V1]].
    destruct (pad_facts number (N.of_nat (S i)) Hs Hn ltac:(lia)) as [L2 [D2 V2]].
    apply lex_digits; auto; [lia|]. rewrite V1, V2. lia.
Qed.

(* ------------------------------------------------------------ CR before LF
   (kept from the time shard read with strip_cr = true: stripping is the identity on
   inputs without a CR directly before a LF) *)
Fixpoint no_crlf (l : list Z) : bool :=
  match l with
  | [] => true
  | b :: r => match r with
              | c :: _ => negb ((b =? 13)%Z && (c =? 10)%Z) && no_crlf r
              | [] => true
              end
  end.

Lemma no_crlf_tail b r : no_crlf (b :: r) = true -> no_crlf r = true.
Proof.
  intros H. destruct r as [|c r]; [reflexivity|].
  change (negb ((b =? 13)%Z && (c =? 10)%Z) && no_crlf (c :: r) = true) in H.
  apply andb_true_iff in H. tauto.
Qed.

Lemma no_crlf_head b c r : no_crlf (b :: c :: r) = true -> ~ (b = 13%Z /\ c = 10%Z).
Proof.
  intros H. change (negb ((b =? 13)%Z && (c =? 10)%Z) && no_crlf (c :: r) = true) in H.
  apply andb_true_iff in H. destruct H as [H _]. apply negb_true_iff in H.
  intros [E1 E2]. subst. discriminate.
Qed.

Lemma strip_cr_id_head cur : hd 0%Z cur <> 13%Z -> strip_cr (rev cur) = rev cur.
Proof.
  intros H. unfold strip_cr. rewrite rev_involutive.
  destruct cur as [|x cur]; [reflexivity|]. simpl in H.
  destruct x as [|p|p]; try reflexivity.
  destruct p as [p|p|]; try reflexivity; destruct p as [p|p|]; try reflexivity;
    destruct p as [p|p|]; try reflexivity; destruct p as [p|p|]; try reflexivity.
  congruence.
Qed.

Lemma split_at_no_crlf : forall bs cur,
  ~ (hd 0%Z cur = 13%Z /\ hd 0%Z bs = 10%Z) -> no_crlf bs = true ->
  let (rs, t) := split_at 10%Z bs cur in map strip_cr rs = rs.
Proof.
  induction bs as [|b bs IH]; intros cur Hc Hn.
  - simpl. reflexivity.
  - simpl. pose proof (no_crlf_tail _ _ Hn) as Hn'.
    destruct (b =? 10)%Z eqn:Eb.
    + apply Z.eqb_eq in Eb. subst b.
      assert (H0 : ~ (hd 0%Z (@nil Z) = 13%Z /\ hd 0%Z bs = 10%Z)) by (simpl; intros [E _]; discriminate).
      specialize (IH [] H0 Hn').
      destruct (split_at 10%Z bs []) as [rs t]. simpl. rewrite IH. f_equal.
      apply strip_cr_id_head. intros E. apply Hc. split; [exact E|reflexivity].
    + apply IH; [|exact Hn'].
      simpl. intros [E1 E2]. subst b.
      destruct bs as [|c bs]; [simpl in E2; discriminate|]. simpl in E2. subst c.
      exact (no_crlf_head _ _ _ Hn (conj eq_refl eq_refl)).
Qed.

Lemma records_no_crlf input : no_crlf input = true -> records 10%Z true input = records 10%Z false input.
Proof.
  intros H. unfold records.
  assert (H0 : ~ (hd 0%Z (@nil Z) = 13%Z /\ hd 0%Z input = 10%Z)) by (simpl; intros [E _]; discriminate).
  pose proof (split_at_no_crlf input [] H0 H) as HS.
  destruct (split_at 10%Z input []) as [rs t]. rewrite HS. rewrite map_id. reflexivity.
Qed.

(* the tool reads its lines with strip_cr = false (regenerated flag): the output lines are
   the input lines byte for byte, a CR before the LF included *)
Theorem shard_lines_bytewise keyhash n input : 0 < n ->
  Permutation (concat (shard keyhash n (records 10%Z shard_strip_cr input))) (records 10%Z false input).
Proof.
  intros Hn. change shard_strip_cr with false. apply shard_partition. exact Hn.
Qed.
