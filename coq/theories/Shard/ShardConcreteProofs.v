From PP Require Import Shard.ShardDefs Shard.ShardConcrete Shard.ShardProofs Fields.FieldsDefs.
From Coq Require Import Permutation.
Local Open Scope N_scope.

(* with the key of C10/C14: the file index is a function of the pieces RangeFields
   hands to the hash (the selected key bytes) and of n -- nothing else of the line *)
Lemma index_depends_on_pieces ranges d n l1 l2 :
  range_fields l1 ranges d = range_fields l2 ranges d ->
  index (field_keyhash ranges d) n l1 = index (field_keyhash ranges d) n l2.
Proof.
  intros H. unfold index, field_keyhash, FieldsDefs.shard_key, key_of. rewrite H. reflexivity.
Qed.

(* the seed read by this property's translator is the one the Murmur translator read *)
Lemma seeds_agree : Z.of_N shard_cb_seed = Src_murmur.shard_seed.
Proof. reflexivity. Qed.

(* all general theorems hold for the concrete tool model *)
Lemma concrete_partition spec d n input outs : 0 < n ->
  shard_tool_fields spec d n input = Some outs ->
  exists ranges, parse_key_spec spec = Some ranges /\
    Permutation (concat (shard (field_keyhash ranges d) n (records 10%Z shard_strip_cr input)))
                (records 10%Z shard_strip_cr input) /\
    outs = map shard_bytes (shard (field_keyhash ranges d) n (records 10%Z shard_strip_cr input)).
Proof.
  intros Hn H. unfold shard_tool_fields in H.
  destruct (parse_key_spec spec) as [ranges|]; [|discriminate].
  inversion H; subst. exists ranges. split; [reflexivity|]. split; [apply shard_partition; exact Hn|].
  rewrite shard_tool_fast_eq. reflexivity.
Qed.
