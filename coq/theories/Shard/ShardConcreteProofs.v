From PP Require Import Shard.ShardDefs Shard.ShardConcrete Shard.ShardProofs Fields.FieldsDefs.
From Coq Require Import Permutation.
Local Open Scope N_scope.

(* with the key of C10/C14: the file index is a function of the pieces RangeFields
   hands to the hash (the selected key bytes) and of n -- nothing else of the line *)
Lemma index_depends_on_pieces ranges d n l1 l2 :
  range_fields l1 ranges d = range_fields l2 ranges d ->
  index (field_keyhash ranges d) n l1 = index (field_keyhash ranges d) n l2.
Proof.
  intros H. unfold index, field_keyhash, FieldsDefs.shard_key, key_of. rewrite H. reflexivity.
Qed.

(* the seed read by this property's translator is the one the Murmur translator read *)
Lemma seeds_agree : Z.of_N shard_cb_seed = Src_murmur.shard_seed.
Proof. reflexivity. Qed.

(* all general theorems hold for the concrete tool model *)
Lemma concrete_partition spec d n input outs : 0 < n ->
  shard_tool_fields spec d n input = Some outs ->
  exists ranges, parse_key_spec spec = Some ranges /\
    Permutation (concat (shard (field_keyhash ranges d) n (records 10%Z shard_strip_cr input)))
                (records 10%Z shard_strip_cr input) /\
    outs = map shard_bytes (shard (field_keyhash ranges d) n (records 10%Z shard_strip_cr input)).
Proof.
  intros Hn H. unfold shard_tool_fields in H.
  destruct (parse_key_spec spec) as [ranges|]; [|discriminate].
  inversion H; subst. exists ranges. split; [reflexivity|]. split; [apply shard_partition; exact Hn|].
  rewrite shard_tool_fast_eq. reflexivity.
Qed.

(* accepted arguments always give at least one output file: the modulus of the
   shard index is never 0 *)
Lemma parse_args_nonempty o ranges outs c :
  shard_parse_args o = Some (ranges, outs, c) -> outs <> [].
Proof.
  unfold shard_parse_args. destruct (parse_key_spec (o_fields o)); [|discriminate].
  match goal with |- context [match ?X with Some _ => _ | None => _ end = _] => destruct X as [[|x0 l0]|] end; try discriminate.
  destruct (parse_compression (o_compress o)); [|discriminate].
  intros H. inversion H; subst. discriminate.
Qed.

(* with --prefix/--number the accepted names are the n distinct, sorted names *)
Lemma parse_args_prefix_names o ranges outs c p n :
  o_outputs o = [] -> o_prefix o = Some p -> o_number o = Some n ->
  shard_parse_args o = Some (ranges, outs, c) -> outs = names p n /\ 0 < n.
Proof.
  intros H1 H2 H3. unfold shard_parse_args. rewrite H1, H2, H3.
  destruct (parse_key_spec (o_fields o)); [|discriminate].
  destruct (names p n) as [|x0 l0] eqn:E; [discriminate|].
  destruct (parse_compression (o_compress o)); [|discriminate].
  intros H. inversion H; subst. split; [reflexivity|].
  destruct (N.eq_dec n 0) as [Z0|Z0]; [|lia]. subst. unfold names in E. simpl in E. discriminate.
Qed.
