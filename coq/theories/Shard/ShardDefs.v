(* Executable model of preprocess/shard_main.cc (C06).
   The key hash HashCallback(RangeFields(line, -f, -d)) is an abstract function
   [keyhash] of the line (Murmur and field cutting are C14/C10); the model is
   the loop of main(), the output naming of ParseArgs, and the hand-off of each
   shard's bytes to its writer in BlockQueue::kBlockSize pieces.  No proofs here. *)
From PP Require Export Base.Bytes Base.Lines Gen.Src_shard.
From Coq Require Export NArith.
Local Open Scope N_scope.

(* Base/Lines.records with rev_append instead of rev *)
Fixpoint split_at_fast (d : Z) (bs : list Z) (cur : list Z) : list (list Z) * list Z :=
  match bs with
  | [] => ([], rev_append cur [])
  | b :: r =>
    if (b =? d)%Z then let (rs, t) := split_at_fast d r [] in (rev_append cur [] :: rs, t)
    else split_at_fast d r (b :: cur)
  end.
Definition strip_cr_fast (l : list Z) : list Z :=
  match rev_append l [] with
  | 13%Z :: r => rev_append r []
  | _ => l
  end.
Definition records_fast (d : Z) (cr : bool) (bs : list Z) : list (list Z) :=
  let (rs, t) := split_at_fast d bs [] in
  map (if cr then strip_cr_fast else (fun x => x)) rs ++ (match t with [] => [] | _ => [t] end).

(* ---- main(): out[cb.Hash() % shard_count] << line << '\n' *)
Section Shard.
  Variable keyhash : list Z -> N.

  Definition index (n : N) (line : list Z) : N := keyhash line mod n.

  Fixpoint update {A} (l : list A) (i : nat) (f : A -> A) : list A :=
    match l, i with
    | [], _ => []
    | x :: r, O => f x :: r
    | x :: r, S j => x :: update r j f
    end.

  (* state: what each shard has received so far (lines, newest last) *)
  Definition shard_step (n : N) (outs : list (list (list Z))) (line : list Z) : list (list (list Z)) :=
    update outs (N.to_nat (index n line)) (fun o => o ++ [line]).

  Definition shard (n : N) (ls : list (list Z)) : list (list (list Z)) :=
    fold_left (shard_step n) ls (repeat [] (N.to_nat n)).

  (* the bytes handed to writer i: every line followed by '\n' *)
  Definition shard_bytes (lines : list (list Z)) : list Z := unrecords 10%Z lines.

  (* whole tool on an input byte string: FilePiece records (one trailing CR
     stripped: ReadLineOrEOF's default), sharded, rendered *)
  Definition shard_tool (n : N) (input : list Z) : list (list Z) :=
    map shard_bytes (shard n (records 10%Z shard_strip_cr input)).
  (* the same with linear-time list reversal (the stdlib [rev] is quadratic, which
     matters for the extracted model on long lines); proved equal in ShardProofs.v *)
  Definition shard_tool_fast (n : N) (input : list Z) : list (list Z) :=
    map shard_bytes (shard n (records_fast 10%Z shard_strip_cr input)).
End Shard.

(* ---- ThreadedBufferedStream: the bytes reach the writer in blocks of
   kBlockSize (the last one shorter, none if there is nothing), then flush *)
Fixpoint chunks (fuel : nat) (size : nat) (bs : list Z) : list (list Z) :=
  match fuel with
  | O => []
  | S f => match bs with
           | [] => []
           | _ => firstn size bs :: chunks f size (skipn size bs)
           end
  end.
Definition blocks (bs : list Z) : list (list Z) := chunks (S (length bs)) (N.to_nat kBlockSize) bs.

(* ---- ParseArgs: --prefix p --number n naming *)
(* for (unsigned int compare = number - 1; compare; ++digits, compare /= 10) {} *)
Fixpoint digits_loop (fuel : nat) (compare : N) (digits : N) : N :=
  if compare =? 0 then digits
  else match fuel with
       | O => digits
       | S f => digits_loop f (compare / 10) (digits + 1)
       end.
Definition u32N (x : Z) : N := Z.to_N (x mod 4294967296)%Z.
Definition digits_of (number : N) : N := digits_loop 40 (u32N (Z.of_N number - 1)) 0.

(* operator<< of an unsigned int: decimal digits, most significant first *)
Fixpoint dec_loop (fuel : nat) (x : N) (acc : list Z) : list Z :=
  match fuel with
  | O => acc
  | S f => let acc' := (48 + Z.of_N (x mod 10))%Z :: acc in
           if x / 10 =? 0 then acc' else dec_loop f (x / 10) acc'
  end.
Definition decimal (x : N) : list Z := dec_loop 40 x [].

(* setfill('0') << setw(digits) << i *)
Definition pad (width : N) (i : N) : list Z :=
  let d := decimal i in
  repeat 48%Z (N.to_nat width - length d) ++ d.

Definition names (prefix : list Z) (number : N) : list (list Z) :=
  map (fun i => prefix ++ pad (digits_of number) (N.of_nat i)) (seq 0 (N.to_nat number)).
