(* C06 with the key hash instantiated by the models of the other properties:
   HashCallback(RangeFields(line, -f, -d)) = Fields.FieldsDefs.shard_key
   (RangeFields of C10 over MurmurHash64A of C14).  No proofs here. *)
From PP Require Import Shard.ShardDefs Fields.FieldsDefs.
Local Open Scope N_scope.

Definition field_keyhash (ranges : list range) (d : Z) (line : list Z) : N :=
  match FieldsDefs.shard_key line ranges d with
  | Some h => Z.to_N h
  | None => 0
  end.

(* shard -f spec -d delim with n outputs on an input byte string; None = ParseFields rejects the spec *)
Definition shard_tool_fields (spec : list Z) (d : Z) (n : N) (input : list Z) : option (list (list Z)) :=
  match parse_key_spec spec with
  | Some ranges => Some (shard_tool_fast (field_keyhash ranges d) n input)
  | None => None
  end.

(* ---- ParseArgs after boost::program_options: which argument combinations are
   accepted, the output names and the compression.  (fields: ParseFields +
   DefragmentFields of C10.) *)
Inductive comp := CNone | CGzip | CBzip.
Record sopts := mkopts {
  o_fields : list Z;                 (* -f, default "1-" *)
  o_prefix : option (list Z);        (* --prefix given? *)
  o_number : option N;               (* --number given? (unsigned int) *)
  o_outputs : list (list Z);         (* positional / -o names *)
  o_compress : list Z                (* -c, default "none" *)
}.

Definition str_none : list Z := [110; 111; 110; 101]%Z.
Definition str_gzip : list Z := [103; 122; 105; 112]%Z.
Definition str_bzip2 : list Z := [98; 122; 105; 112; 50]%Z.

Fixpoint zlist_eqb (a b : list Z) : bool :=
  match a, b with
  | [], [] => true
  | x :: a', y :: b' => (x =? y)%Z && zlist_eqb a' b'
  | _, _ => false
  end.

Definition parse_compression (s : list Z) : option comp :=
  if zlist_eqb s str_none then Some CNone
  else if zlist_eqb s str_gzip then Some CGzip
  else if zlist_eqb s str_bzip2 then Some CBzip
  else None.

(* None = an exception (usage error) *)
Definition shard_parse_args (o : sopts) : option (list range * list (list Z) * comp) :=
  match parse_key_spec (o_fields o) with
  | None => None
  | Some ranges =>
    let outs :=
      match o_outputs o with
      | [] =>
        match o_prefix o, o_number o with
        | Some p, Some n => Some (names p n)
        | _, _ => None
        end
      | l =>
        match o_prefix o with
        | Some _ => None
        | None =>
          match o_number o with
          | Some n => if (n =? N.of_nat (length l)) then Some l else None
          | None => Some l
          end
        end
      end in
    match outs with
    | None => None
    | Some [] => None                       (* "At least one output is required" *)
    | Some l =>
      match parse_compression (o_compress o) with
      | Some c => Some (ranges, l, c)
      | None => None
      end
    end
  end.
