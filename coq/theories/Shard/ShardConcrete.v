(* C06 with the key hash instantiated by the models of the other properties:
   HashCallback(RangeFields(line, -f, -d)) = Fields.FieldsDefs.shard_key
   (RangeFields of C10 over MurmurHash64A of C14).  No proofs here. *)
From PP Require Import Shard.ShardDefs Fields.FieldsDefs.
Local Open Scope N_scope.

Definition field_keyhash (ranges : list range) (d : Z) (line : list Z) : N :=
  match FieldsDefs.shard_key line ranges d with
  | Some h => Z.to_N h
  | None => 0
  end.

(* shard -f spec -d delim with n outputs on an input byte string; None = ParseFields rejects the spec *)
Definition shard_tool_fields (spec : list Z) (d : Z) (n : N) (input : list Z) : option (list (list Z)) :=
  match parse_key_spec spec with
  | Some ranges => Some (shard_tool_fast (field_keyhash ranges d) n input)
  | None => None
  end.
