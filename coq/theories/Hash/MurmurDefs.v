(* Executable model of util/murmur_hash.cc MurmurHash64A (x86-64 branch) over
   Z mod 2^64, statement for statement, with m, r, the tail switch and all
   seeds taken from the regenerated Gen/Src_murmur.v; the field fold of
   preprocess/fields.hh HashCallback; the per-tool key definitions; and an
   independently written reference (Appleby's MurmurHash64A as a fold over
   8-byte little-endian blocks plus tail, in div/mod arithmetic).
   Other properties import [murmur64a] and [hash_fold] from here.  No proofs. *)
From PP Require Export Base.Bytes Gen.Src_murmur.
Local Open Scope Z_scope.

(* ------------------------------------------------------------------ model *)
Definition mask64 : Z := 18446744073709551615.
Definition w64 (x : Z) : Z := Z.land x mask64.          (* uint64_t wrap *)
Definition mul64 (a b : Z) : Z := w64 (a * b).

Definition word_bytes : nat := 8.                        (* sizeof(uint64_t) *)

(* uint64_t k = *data  on a little-endian machine.  Reads past the end of the
   list give 0; theorem C14_reads_only_input shows they never happen. *)
Fixpoint load_le (n : nat) (mem : list Z) : Z :=
  match n with
  | O => 0
  | S n' => match mem with
            | [] => 0
            | b :: r => Z.lor b (Z.shiftl (load_le n' r) 8)
            end
  end.

(* k *= m; k ^= k >> r; k *= m; *)
Definition mix_k (k : Z) : Z :=
  let k1 := mul64 k murmur_m in
  let k2 := Z.lxor k1 (Z.shiftr k1 murmur_r) in
  mul64 k2 murmur_m.

(* while (data != end) { k = *data++; mix; h ^= k; h *= m; }  -> (h, data) *)
Fixpoint mm_body (nblocks : nat) (data : list Z) (h : Z) : Z * list Z :=
  match nblocks with
  | O => (h, data)
  | S n => mm_body n (skipn word_bytes data) (mul64 (Z.lxor h (mix_k (load_le word_bytes data))) murmur_m)
  end.

(* switch (len & 7) with fall-through: entering at case t runs every case whose
   label is <= t, in source order; the case labelled murmur_tail_mul_case also
   does h *= m *)
Definition tail_case (t : Z) (data2 : list Z) (h : Z) (c : Z * nat * Z) : Z :=
  let '(label, idx, sh) := c in
  if label <=? t then
    let h1 := Z.lxor h (w64 (Z.shiftl (nth idx data2 0) sh)) in
    if label =? murmur_tail_mul_case then mul64 h1 murmur_m else h1
  else h.
Definition mm_tail (t : Z) (data2 : list Z) (h : Z) : Z :=
  fold_left (tail_case t data2) murmur_tail_cases h.

(* MurmurHash64A(key, len, seed) reading from memory [mem] (which may extend
   beyond len) *)
Definition murmur64a_mem (mem : list Z) (len seed : Z) : Z :=
  let h0 := Z.lxor seed (mul64 len murmur_m) in
  let '(h1, data) := mm_body (Z.to_nat (len / murmur_block)) mem h0 in
  let h2 := mm_tail (Z.land len murmur_tail_mask) data h1 in
  let h3 := Z.lxor h2 (Z.shiftr h2 murmur_r) in
  let h4 := mul64 h3 murmur_m in
  Z.lxor h4 (Z.shiftr h4 murmur_r).

Definition murmur64a (bs : list Z) (seed : Z) : Z := murmur64a_mem bs (Z.of_nat (length bs)) seed.

(* ------------------------------------------------ MurmurHash64B ("64-bit hash for 32-bit platforms") *)
Definition mask32 : Z := 4294967295.
Definition w32 (x : Z) : Z := Z.land x mask32.          (* unsigned int wrap *)
Definition mul32 (a b : Z) : Z := w32 (a * b).
Definition half_bytes : nat := 4.                        (* sizeof(unsigned int) *)

(* k *= m; k ^= k >> r; k *= m;  then  h *= m; h ^= k; *)
Definition step32 (h k : Z) : Z :=
  let k1 := mul32 k m64b_m in
  let k2 := Z.lxor k1 (Z.shiftr k1 m64b_r) in
  Z.lxor (mul32 h m64b_m) (mul32 k2 m64b_m).

Inductive b_state := BState (data : list Z) (len h1 h2 : Z) | BFuel.

(* while (len >= 8) { k1 = load; k2 = load; mix into h1 / h2; len -= 4 twice } *)
Fixpoint b_body (fuel : nat) (data : list Z) (len h1 h2 : Z) : b_state :=
  if m64b_loop_min <=? len then
    match fuel with
    | O => BFuel
    | S f =>
      let k1 := load_le half_bytes data in
      let k2 := load_le half_bytes (skipn half_bytes data) in
      b_body f (skipn half_bytes (skipn half_bytes data)) (len - m64b_loop_dec1 - m64b_loop_dec2) (step32 h1 k1) (step32 h2 k2)
    end
  else BState data len h1 h2.

Definition murmur64b_mem (mem : list Z) (len seed : Z) : option Z :=
  match b_body (S (Z.to_nat len)) mem len (w32 (Z.lxor seed len)) m64b_h2_init with
  | BFuel => None
  | BState data len1 h1 h2 =>
    (* if (len >= 4) { one more word into h1 } *)
    let '(data2, len2, h1a) :=
      if m64b_half_min <=? len1 then (skipn half_bytes data, len1 - m64b_half_dec, step32 h1 (load_le half_bytes data))
      else (data, len1, h1) in
    (* switch (len) { case 3: .. << 16; case 2: .. << 8; case 1: ..; h2 *= m; } *)
    let h2a := if 3 <=? len2 then Z.lxor h2 (w32 (Z.shiftl (nth 2 data2 0) m64b_tail_sh2)) else h2 in
    let h2b := if 2 <=? len2 then Z.lxor h2a (w32 (Z.shiftl (nth 1 data2 0) m64b_tail_sh1)) else h2a in
    let h2c := if 1 <=? len2 then mul32 (Z.lxor h2b (nth 0 data2 0)) m64b_m else h2b in
    let g1 := mul32 (Z.lxor h1a (Z.shiftr h2c m64b_fin1)) m64b_m in
    let g2 := mul32 (Z.lxor h2c (Z.shiftr g1 m64b_fin2)) m64b_m in
    let g3 := mul32 (Z.lxor g1 (Z.shiftr g2 m64b_fin3)) m64b_m in
    let g4 := mul32 (Z.lxor g2 (Z.shiftr g3 m64b_fin4)) m64b_m in
    Some (Z.lor (w64 (Z.shiftl g3 m64b_join_shift)) g4)
  end.
Definition murmur64b (bs : list Z) (seed : Z) : option Z := murmur64b_mem bs (Z.of_nat (length bs)) seed.

(* MurmurHashNativeBackend for the pointer size: 64B when the pointer size is native_64b_pointer_size, else 64A *)
Definition murmur_native_for (pointer_size : Z) (bs : list Z) (seed : Z) : option Z :=
  if pointer_size =? native_64b_pointer_size then murmur64b bs seed else Some (murmur64a bs seed).

(* MurmurHashNative(key, len, seed) on this platform: the dispatch of MurmurHashNativeBackend on the pointer size
   (platform assumption: 8-byte pointers), reading from memory that may extend beyond len *)
Definition platform_pointer_size : Z := 8.
Definition murmur_native_mem (mem : list Z) (len seed : Z) : Z :=
  if platform_pointer_size =? native_64b_pointer_size
  then match murmur64b_mem mem len seed with Some v => v | None => 0 end
  else murmur64a_mem mem len seed.
Definition murmur_native (bs : list Z) (seed : Z) : Z := murmur_native_mem bs (Z.of_nat (length bs)) seed.

(* ---- interpretation of the key shapes that the translator extracts from each tool's source (Gen/Src_murmur.v):
   KHash f d l s  =  f(env d .data(), env l .size(), value of s);  KPrev = the running value of a fold *)
Fixpoint eval_key (env : krole -> list Z) (prev : Z) (e : kexpr) : Z :=
  match e with
  | KConst z => z
  | KPrev => prev
  | KHash f d l s =>
    let sd := eval_key env prev s in
    match f with
    | F64A => murmur64a_mem (env d) (Z.of_nat (length (env l))) sd
    | FNative => murmur_native_mem (env d) (Z.of_nat (length (env l))) sd
    end
  end.

(* HashCallback: for each piece in turn, hash_ = <the step of fields.hh HashCallback::operator()> *)
Definition hash_fold (seed : Z) (pieces : list (list Z)) : Z :=
  fold_left (fun h p => eval_key (fun _ => p) h hashcallback_step_shape) pieces seed.
(* cache's own HashWithSeed *)
Definition cache_fold (seed : Z) (pieces : list (list Z)) : Z :=
  fold_left (fun h p => eval_key (fun _ => p) h cache_step_shape) pieces seed.

(* ---- the keys the tools compute *)
Definition callback_seed (ctor : option Z) : Z := match ctor with Some z => z | None => shard_seed end.
Definition shard_hash (pieces : list (list Z)) : Z := hash_fold (callback_seed shard_callback_ctor_seed) pieces.
Definition shard_index (pieces : list (list Z)) (nshards : Z) : Z := shard_hash pieces mod nshards.
Definition dedupe_line_key (line : list Z) : Z := eval_key (fun _ => line) 0 dedupe_line_key_shape.
Definition dedupe_field_key (pieces : list (list Z)) : Z := hash_fold (callback_seed dedupe_callback_ctor_seed) pieces.
Definition cache_key (pieces : list (list Z)) : Z := cache_fold cache_seed pieces.
Definition subtract_insert_key (line : list Z) : Z := eval_key (fun _ => line) 0 subtract_insert_key_shape.
Definition subtract_lookup_key (line : list Z) : Z := eval_key (fun _ => line) 0 subtract_lookup_key_shape.
Definition commoncrawl_dedupe_key (line : list Z) : Z := eval_key (fun _ => line) 0 commoncrawl_dedupe_key_shape.
(* train_case Recorder::Add(source, target) with lowered_ = ToLower(target); apply_case with lowered = ToLower(target word) *)
Definition case_env (lowered source target : list Z) (r : krole) : list Z :=
  match r with RLowered => lowered | RSource => source | RTarget => target | _ => [] end.
Definition case_key_train (lowered source target : list Z) : Z := eval_key (case_env lowered source target) 0 train_case_key_shape.
Definition case_key_apply (lowered source : list Z) : Z := eval_key (case_env lowered source []) 0 apply_case_key_shape.

(* ---- independent specification of "the left fold of the hash with the previous value as seed":
   the value after the pieces p1 .. pn is  H(pn, H(p(n-1), ... H(p1, seed))) -- written on the reversed list *)
Fixpoint chain_rev (rev_pieces : list (list Z)) (seed : Z) : Z :=
  match rev_pieces with
  | [] => seed
  | p :: earlier => murmur64a p (chain_rev earlier seed)
  end.
Definition fold_spec (seed : Z) (pieces : list (list Z)) : Z := chain_rev (rev pieces) seed.

(* the first n cells (n counted in Z: buffer sizes are large) and the rest *)
Fixpoint split_z (n : Z) (bs : list Z) : list Z * list Z :=
  match bs with
  | [] => ([], [])
  | b :: r => if n <=? 0 then ([], bs) else let (a, rest) := split_z (n - 1) r in (b :: a, rest)
  end.
Fixpoint chunks_of_fuel (fuel : nat) (n : Z) (bs : list Z) : list (list Z) :=
  match bs with
  | [] => []
  | _ :: _ => match fuel with
              | O => []
              | S f => let (a, rest) := split_z n bs in a :: chunks_of_fuel f n rest
              end
  end.
(* mmhsum: std::cin.read fills the buffer completely except at end of input *)
Definition mmhsum_with (buf : Z) (bs : list Z) : Z :=
  hash_fold mmhsum_seed (chunks_of_fuel (length bs) buf bs).
Definition mmhsum (bs : list Z) : Z := mmhsum_with mmhsum_buffer bs.
(* order_independent_hash: uint64_t sum of the line hashes *)
Definition order_independent_hash (lines : list (list Z)) : Z :=
  fold_left (fun s l => w64 (s + murmur64a l default_seed_64a)) lines order_independent_init.

(* ------------------------------------------------ independent reference
   MurmurHash64A as published (Appleby, MurmurHash2 64-bit "A"), written with
   its own constants over non-negative integers with div / mod:
     h = seed xor (len * M);  for each complete 8-byte block k (little endian):
     k = k*M; k ^= k >> R; k = k*M; h ^= k; h = h*M;  then if 1..7 bytes remain
     h ^= (their little-endian value); h = h*M;  finally h ^= h>>R; h*=M; h ^= h>>R. *)
Definition REF_M : Z := 0xc6a4a7935bd1e995.
Definition REF_R : Z := 47.
Definition two64 : Z := 2 ^ 64.

Fixpoint le_value (bs : list Z) : Z :=
  match bs with
  | [] => 0
  | b :: r => b + 256 * le_value r
  end.

Fixpoint blocks8 (bs : list Z) : list (list Z) * list Z :=
  match bs with
  | b0 :: b1 :: b2 :: b3 :: b4 :: b5 :: b6 :: b7 :: r =>
    let (bl, t) := blocks8 r in ([b0; b1; b2; b3; b4; b5; b6; b7] :: bl, t)
  | _ => ([], bs)
  end.

Definition ref_block (h : Z) (blk : list Z) : Z :=
  let k1 := (le_value blk * REF_M) mod two64 in
  let k2 := Z.lxor k1 (k1 / 2 ^ REF_R) in
  let k3 := (k2 * REF_M) mod two64 in
  (Z.lxor h k3 * REF_M) mod two64.

Definition ref_fmix (h : Z) : Z :=
  let h1 := Z.lxor h (h / 2 ^ REF_R) in
  let h2 := (h1 * REF_M) mod two64 in
  Z.lxor h2 (h2 / 2 ^ REF_R).

Definition murmur_ref (bs : list Z) (seed : Z) : Z :=
  let (blocks, tl) := blocks8 bs in
  let h0 := Z.lxor seed ((Z.of_nat (length bs) * REF_M) mod two64) in
  let h1 := fold_left ref_block blocks h0 in
  let h2 := match tl with
            | [] => h1
            | _ => (Z.lxor h1 (le_value tl) * REF_M) mod two64
            end in
  ref_fmix h2.
