(* Proofs about the MurmurHash64A model: it equals the independently written
   reference for all byte strings and seeds, reads nothing outside the string,
   stays in [0, 2^64); the field fold is a left fold; shard index; case keys. *)
From PP Require Import Base.BitsZ Hash.MurmurDefs.
From Coq Require Import ZifyBool.
Local Open Scope Z_scope.
Ltac Zify.zify_post_hook ::= Z.div_mod_to_equations.

Definition byte (b : Z) : Prop := 0 <= b < 256.
Lemma bytes_okb_Forall bs : bytes_okb bs = true <-> Forall byte bs.
Proof.
  unfold bytes_okb. rewrite forallb_forall, Forall_forall. split; intros H x Hx.
  - apply byte_okb_iff. auto.
  - apply byte_okb_iff. apply H. exact Hx.
Qed.

(* ---------- the regenerated constants are Appleby's ---------- *)
Lemma m_is_ref : murmur_m = REF_M. Proof. reflexivity. Qed.
Lemma r_is_ref : murmur_r = REF_R. Proof. reflexivity. Qed.

Lemma w64_mod x : w64 x = x mod two64.
Proof. unfold w64, mask64, two64. apply (land_ones_mod x 64). lia. Qed.
Lemma mul64_mod a b : mul64 a b = (a * b) mod two64.
Proof. unfold mul64. apply w64_mod. Qed.

Lemma shiftr_r x : Z.shiftr x murmur_r = x / 2 ^ REF_R.
Proof. rewrite r_is_ref. apply shiftr_div. unfold REF_R. lia. Qed.

Lemma mix_k_ref k : mix_k k =
  (let k1 := (k * REF_M) mod two64 in let k2 := Z.lxor k1 (k1 / 2 ^ REF_R) in (k2 * REF_M) mod two64).
Proof. unfold mix_k. rewrite !mul64_mod, shiftr_r, m_is_ref. reflexivity. Qed.

(* ---------- little-endian load ---------- *)
Lemma load_le_value : forall n mem, Forall byte mem -> load_le n mem = le_value (firstn n mem).
Proof.
  induction n as [|n IH]; intros mem HB; [reflexivity|].
  destruct mem as [|b r]; [reflexivity|]. inversion HB as [|? ? Hb Hr]; subst.
  cbn [load_le firstn le_value]. rewrite (IH r Hr). rewrite (shiftl_mul _ 8) by lia.
  unfold byte in Hb. rewrite (lor_small_mul_pow2_add (le_value (firstn n r)) b 8) by lia. change (2 ^ 8) with 256. lia.
Qed.

Lemma le_value_range bs : Forall byte bs -> 0 <= le_value bs < 256 ^ Z.of_nat (length bs).
Proof.
  induction bs as [|b r IH]; intros HB; [simpl; lia|].
  inversion HB as [|? ? Hb Hr]; subst. specialize (IH Hr). unfold byte in Hb.
  cbn [le_value length]. rewrite Nat2Z.inj_succ, Z.pow_succ_r by lia. lia.
Qed.

(* ---------- the block loop ---------- *)
Lemma blocks8_short bs : (length bs < 8)%nat -> blocks8 bs = ([], bs).
Proof.
  intros L. do 8 (destruct bs as [|? bs]; [reflexivity|]). simpl in L. lia.
Qed.

Lemma ref_block_eq h blk : Forall byte blk -> length blk = 8%nat ->
  mul64 (Z.lxor h (mix_k (load_le word_bytes blk))) murmur_m = ref_block h blk.
Proof.
  intros HB L. rewrite (load_le_value _ _ HB). unfold word_bytes. rewrite <- L, firstn_all.
  unfold ref_block. rewrite mix_k_ref, mul64_mod, m_is_ref. reflexivity.
Qed.

Lemma mm_body_blocks : forall n bs h, Forall byte bs -> (length bs / 8)%nat = n ->
  mm_body n bs h = (fold_left ref_block (fst (blocks8 bs)) h, snd (blocks8 bs)).
Proof.
  induction n as [|n IH]; intros bs h HB L.
  - assert (length bs < 8)%nat as S.
    { destruct (Nat.lt_ge_cases (length bs) 8) as [|G]; [assumption|].
      pose proof (Nat.div_le_mono 8 (length bs) 8 ltac:(lia) G) as D. rewrite Nat.div_same in D by lia. lia. }
    rewrite (blocks8_short bs S). reflexivity.
  - assert (8 <= length bs)%nat as G.
    { destruct (Nat.lt_ge_cases (length bs) 8) as [S|]; [|assumption]. rewrite Nat.div_small in L by exact S. lia. }
    destruct bs as [|b0 [|b1 [|b2 [|b3 [|b4 [|b5 [|b6 [|b7 r]]]]]]]]; try (simpl in G; lia).
    assert (Forall byte [b0; b1; b2; b3; b4; b5; b6; b7] /\ Forall byte r) as [HB8 HBr].
    { change (b0 :: b1 :: b2 :: b3 :: b4 :: b5 :: b6 :: b7 :: r) with ([b0; b1; b2; b3; b4; b5; b6; b7] ++ r) in HB.
      apply Forall_app in HB. exact HB. }
    assert ((length r / 8)%nat = n) as Lr.
    { change (length (b0 :: b1 :: b2 :: b3 :: b4 :: b5 :: b6 :: b7 :: r)) with (8 + length r)%nat in L.
      replace (8 + length r)%nat with (length r + 1 * 8)%nat in L by lia. rewrite Nat.div_add in L by lia. lia. }
    cbn [mm_body]. change (skipn word_bytes (b0 :: b1 :: b2 :: b3 :: b4 :: b5 :: b6 :: b7 :: r)) with r.
    assert (load_le word_bytes (b0 :: b1 :: b2 :: b3 :: b4 :: b5 :: b6 :: b7 :: r) = load_le word_bytes [b0; b1; b2; b3; b4; b5; b6; b7]) as EL.
    { rewrite !load_le_value by assumption. reflexivity. }
    rewrite EL, (ref_block_eq h _ HB8 eq_refl). rewrite (IH r _ HBr Lr).
    cbn [blocks8]. destruct (blocks8 r) as [bl t]. reflexivity.
Qed.

(* induction in steps of one 8-byte block *)
Lemma blocks8_ind (P : list Z -> Prop) :
  (forall bs, (length bs < 8)%nat -> P bs) ->
  (forall b0 b1 b2 b3 b4 b5 b6 b7 r, P r -> P (b0 :: b1 :: b2 :: b3 :: b4 :: b5 :: b6 :: b7 :: r)) ->
  forall bs, P bs.
Proof.
  intros Hs Hb bs. remember (length bs) as n eqn:En. revert bs En.
  induction n as [n IH] using lt_wf_ind. intros bs En.
  destruct (Nat.lt_ge_cases (length bs) 8) as [S|G]; [apply Hs; exact S|].
  destruct bs as [|b0 [|b1 [|b2 [|b3 [|b4 [|b5 [|b6 [|b7 r]]]]]]]]; try (simpl in G; lia).
  apply Hb. apply (IH (length r)); [subst n; simpl; lia|reflexivity].
Qed.

Lemma blocks8_tail bs :
  (length (snd (blocks8 bs)) < 8)%nat /\ length (snd (blocks8 bs)) = (length bs mod 8)%nat /\
  (Forall byte bs -> Forall byte (snd (blocks8 bs))) /\
  bs = concat (fst (blocks8 bs)) ++ snd (blocks8 bs).
Proof.
  induction bs as [bs S|b0 b1 b2 b3 b4 b5 b6 b7 r IH] using blocks8_ind.
  - rewrite (blocks8_short bs S). cbn [fst snd concat app]. split; [exact S|]. split; [rewrite Nat.mod_small by exact S; reflexivity|]. split; auto.
  - cbn [blocks8]. destruct (blocks8 r) as [bl t]. simpl fst in *. simpl snd in *.
    destruct IH as (A & B & C & D). repeat split.
    + exact A.
    + rewrite B. change (length (b0 :: b1 :: b2 :: b3 :: b4 :: b5 :: b6 :: b7 :: r)) with (8 + length r)%nat.
      replace (8 + length r)%nat with (length r + 1 * 8)%nat by lia. rewrite Nat.mod_add by lia. reflexivity.
    + intros HB. apply C.
      change (b0 :: b1 :: b2 :: b3 :: b4 :: b5 :: b6 :: b7 :: r) with ([b0; b1; b2; b3; b4; b5; b6; b7] ++ r) in HB.
      apply Forall_app in HB. tauto.
    + simpl. rewrite <- D. reflexivity.
Qed.

(* ---------- the tail switch ---------- *)
Lemma w64_shiftl_byte b sh : byte b -> 0 <= sh <= 56 -> w64 (Z.shiftl b sh) = b * 2 ^ sh.
Proof.
  unfold byte. intros Hb Hs. rewrite w64_mod, shiftl_mul by lia. apply Z.mod_small. unfold two64.
  assert (2 ^ sh <= 2 ^ 56) by (apply Z.pow_le_mono_r; lia).
  assert (0 < 2 ^ sh) by (apply Z.pow_pos_nonneg; lia). nia.
Qed.

Lemma peel h S b k : 0 <= k -> byte b -> (2 ^ (k + 8) | S) ->
  Z.lxor h (S + b * 2 ^ k) = Z.lxor (Z.lxor h S) (b * 2 ^ k).
Proof.
  unfold byte. intros Hk Hb [q ->].
  assert (0 < 2 ^ k) by (apply Z.pow_pos_nonneg; lia).
  rewrite <- (lxor_mul_pow2_add q (b * 2 ^ k) (k + 8)).
  - symmetry. apply Z.lxor_assoc.
  - lia.
  - rewrite Z.pow_add_r by lia. change (2 ^ 8) with 256. nia.
Qed.

Ltac eval_closed_tests :=
  repeat match goal with
         | |- context [?a <=? ?b] => let v := eval vm_compute in (a <=? b) in
                                    match v with true => change (a <=? b) with true | false => change (a <=? b) with false end
         | |- context [?a =? ?b] => let v := eval vm_compute in (a =? b) in
                                   match v with true => change (a =? b) with true | false => change (a =? b) with false end
         end; cbv iota.

Ltac div_pow := repeat apply Z.divide_add_r; apply Z.divide_mul_r;
                match goal with |- (?a | ?b) => exists (b / a); reflexivity end.

Lemma mm_tail_ref tl h : Forall byte tl -> (length tl < 8)%nat ->
  mm_tail (Z.of_nat (length tl)) tl h =
  match tl with [] => h | _ :: _ => (Z.lxor h (le_value tl) * REF_M) mod two64 end.
Proof.
  intros HB L.
  destruct tl as [|b0 [|b1 [|b2 [|b3 [|b4 [|b5 [|b6 [|b7 r]]]]]]]]; try (simpl in L; lia); clear L;
    unfold mm_tail, murmur_tail_cases; cbn [fold_left length Z.of_nat Pos.of_succ_nat Pos.succ]; unfold tail_case;
    eval_closed_tests; cbn [nth]; [reflexivity|..];
    repeat match goal with H : Forall byte (_ :: _) |- _ => inversion H; clear H; subst end;
    rewrite mul64_mod, m_is_ref; do 2 f_equal; rewrite ?w64_shiftl_byte by (assumption || lia);
    cbn [le_value].
  - change (2 ^ 0) with 1. f_equal. lia.
  - replace (b0 + 256 * (b1 + 256 * 0)) with (b1 * 2 ^ 8 + b0 * 2 ^ 0) by lia.
    rewrite (peel h _ b0 0) by (try lia; try assumption; div_pow). reflexivity.
  - replace (b0 + 256 * (b1 + 256 * (b2 + 256 * 0))) with (b2 * 2 ^ 16 + b1 * 2 ^ 8 + b0 * 2 ^ 0) by lia.
    rewrite (peel h _ b0 0), (peel h _ b1 8) by (try lia; try assumption; div_pow). reflexivity.
  - replace (b0 + 256 * (b1 + 256 * (b2 + 256 * (b3 + 256 * 0)))) with (b3 * 2 ^ 24 + b2 * 2 ^ 16 + b1 * 2 ^ 8 + b0 * 2 ^ 0) by lia.
    rewrite (peel h _ b0 0), (peel h _ b1 8), (peel h _ b2 16) by (try lia; try assumption; div_pow). reflexivity.
  - replace (b0 + 256 * (b1 + 256 * (b2 + 256 * (b3 + 256 * (b4 + 256 * 0)))))
      with (b4 * 2 ^ 32 + b3 * 2 ^ 24 + b2 * 2 ^ 16 + b1 * 2 ^ 8 + b0 * 2 ^ 0) by lia.
    rewrite (peel h _ b0 0), (peel h _ b1 8), (peel h _ b2 16), (peel h _ b3 24) by (try lia; try assumption; div_pow). reflexivity.
  - replace (b0 + 256 * (b1 + 256 * (b2 + 256 * (b3 + 256 * (b4 + 256 * (b5 + 256 * 0))))))
      with (b5 * 2 ^ 40 + b4 * 2 ^ 32 + b3 * 2 ^ 24 + b2 * 2 ^ 16 + b1 * 2 ^ 8 + b0 * 2 ^ 0) by lia.
    rewrite (peel h _ b0 0), (peel h _ b1 8), (peel h _ b2 16), (peel h _ b3 24), (peel h _ b4 32) by (try lia; try assumption; div_pow).
    reflexivity.
  - replace (b0 + 256 * (b1 + 256 * (b2 + 256 * (b3 + 256 * (b4 + 256 * (b5 + 256 * (b6 + 256 * 0)))))))
      with (b6 * 2 ^ 48 + b5 * 2 ^ 40 + b4 * 2 ^ 32 + b3 * 2 ^ 24 + b2 * 2 ^ 16 + b1 * 2 ^ 8 + b0 * 2 ^ 0) by lia.
    rewrite (peel h _ b0 0), (peel h _ b1 8), (peel h _ b2 16), (peel h _ b3 24), (peel h _ b4 32), (peel h _ b5 40)
      by (try lia; try assumption; div_pow).
    reflexivity.
Qed.

(* ---------- the model is the reference ---------- *)
Theorem murmur_eq_reference_proof bs seed : bytes_okb bs = true -> murmur64a bs seed = murmur_ref bs seed.
Proof.
  intros HB. apply bytes_okb_Forall in HB.
  unfold murmur64a, murmur64a_mem, murmur_ref.
  assert (Z.to_nat (Z.of_nat (length bs) / murmur_block) = (length bs / 8)%nat) as EN.
  { unfold murmur_block. change 8 with (Z.of_nat 8). rewrite <- Nat2Z.inj_div. apply Nat2Z.id. }
  rewrite EN. rewrite (mm_body_blocks (length bs / 8) bs _ HB eq_refl).
  destruct (blocks8_tail bs) as (TL & TM & TB & _).
  assert (Z.land (Z.of_nat (length bs)) murmur_tail_mask = Z.of_nat (length (snd (blocks8 bs)))) as ET.
  { unfold murmur_tail_mask. rewrite (land_ones_mod _ 3) by lia. change (2 ^ 3) with (Z.of_nat 8).
    rewrite <- Nat2Z.inj_mod. rewrite TM. reflexivity. }
  rewrite ET. rewrite (mm_tail_ref _ _ (TB HB) TL).
  destruct (blocks8 bs) as [blocks tl]. cbn [fst snd].
  rewrite !shiftr_r, !mul64_mod, m_is_ref. unfold ref_fmix.
  destruct tl; reflexivity.
Qed.

(* ---------- result range ---------- *)
Lemma lxor_lt_two64 a b : 0 <= a < two64 -> 0 <= b < two64 -> 0 <= Z.lxor a b < two64.
Proof.
  intros Ha Hb. split; [apply Z.lxor_nonneg; lia|].
  destruct (Z.eq_dec (Z.lxor a b) 0) as [->|NZ]; [reflexivity|].
  assert (0 < Z.lxor a b) as P by (pose proof (proj2 (Z.lxor_nonneg a b) ltac:(lia)); lia).
  unfold two64. apply Z.log2_lt_pow2; [exact P|].
  pose proof (Z.log2_lxor a b ltac:(lia) ltac:(lia)) as M.
  assert (Z.log2 a < 64) as La.
  { destruct (Z.eq_dec a 0) as [->|]; [reflexivity|]. apply Z.log2_lt_pow2; unfold two64 in *; lia. }
  assert (Z.log2 b < 64) as Lb.
  { destruct (Z.eq_dec b 0) as [->|]; [reflexivity|]. apply Z.log2_lt_pow2; unfold two64 in *; lia. }
  lia.
Qed.

Theorem murmur_range_proof bs seed : bytes_okb bs = true -> 0 <= murmur64a bs seed < two64.
Proof.
  intros HB. rewrite (murmur_eq_reference_proof bs seed HB). unfold murmur_ref.
  destruct (blocks8 bs) as [blocks tl].
  match goal with |- 0 <= ref_fmix ?x < _ => generalize x end. intros h. unfold ref_fmix.
  assert (0 < two64) as TP by reflexivity.
  pose proof (Z.mod_pos_bound (Z.lxor h (h / 2 ^ REF_R) * REF_M) two64 TP) as R.
  apply lxor_lt_two64; [exact R|].
  assert (0 < 2 ^ REF_R) by reflexivity.
  split; [apply Z.div_pos; lia|]. apply Z.div_lt_upper_bound; [lia|]. nia.
Qed.

(* ---------- reads only the input ---------- *)
Lemma mm_body_app : forall bs extra h,
  mm_body (length bs / 8) (bs ++ extra) h =
  (fst (mm_body (length bs / 8) bs h), snd (mm_body (length bs / 8) bs h) ++ extra).
Proof.
  induction bs as [bs S|b0 b1 b2 b3 b4 b5 b6 b7 r IH] using blocks8_ind; intros extra h.
  - rewrite Nat.div_small by exact S. reflexivity.
  - change (length (b0 :: b1 :: b2 :: b3 :: b4 :: b5 :: b6 :: b7 :: r)) with (8 + length r)%nat.
    replace (8 + length r)%nat with (length r + 1 * 8)%nat by lia. rewrite Nat.div_add by lia.
    replace (length r / 8 + 1)%nat with (S (length r / 8)) by lia.
    cbn [mm_body app]. change (skipn word_bytes (b0 :: b1 :: b2 :: b3 :: b4 :: b5 :: b6 :: b7 :: r ++ extra)) with (r ++ extra).
    change (skipn word_bytes (b0 :: b1 :: b2 :: b3 :: b4 :: b5 :: b6 :: b7 :: r)) with r.
    change (load_le word_bytes (b0 :: b1 :: b2 :: b3 :: b4 :: b5 :: b6 :: b7 :: r ++ extra))
      with (load_le word_bytes (b0 :: b1 :: b2 :: b3 :: b4 :: b5 :: b6 :: b7 :: r)).
    apply IH.
Qed.

Lemma mm_tail_app tl extra h : (length tl < 8)%nat ->
  mm_tail (Z.of_nat (length tl)) (tl ++ extra) h = mm_tail (Z.of_nat (length tl)) tl h.
Proof.
  intros L.
  destruct tl as [|b0 [|b1 [|b2 [|b3 [|b4 [|b5 [|b6 [|b7 r]]]]]]]]; try (simpl in L; lia); clear L;
    unfold mm_tail, murmur_tail_cases; cbn [fold_left length Z.of_nat Pos.of_succ_nat Pos.succ app]; unfold tail_case;
    eval_closed_tests; cbn [nth]; reflexivity.
Qed.

Lemma mm_body_snd bs h : Forall byte bs -> snd (mm_body (length bs / 8) bs h) = snd (blocks8 bs).
Proof. intros HB. rewrite (mm_body_blocks _ bs h HB eq_refl). reflexivity. Qed.

Theorem murmur_reads_only_input_proof bs extra seed : bytes_okb bs = true ->
  murmur64a_mem (bs ++ extra) (Z.of_nat (length bs)) seed = murmur64a bs seed.
Proof.
  intros HB. apply bytes_okb_Forall in HB. unfold murmur64a, murmur64a_mem.
  assert (Z.to_nat (Z.of_nat (length bs) / murmur_block) = (length bs / 8)%nat) as EN.
  { unfold murmur_block. change 8 with (Z.of_nat 8). rewrite <- Nat2Z.inj_div. apply Nat2Z.id. }
  rewrite EN. rewrite mm_body_app.
  destruct (blocks8_tail bs) as (TL & TM & _ & _).
  assert (Z.land (Z.of_nat (length bs)) murmur_tail_mask = Z.of_nat (length (snd (blocks8 bs)))) as ET.
  { unfold murmur_tail_mask. rewrite (land_ones_mod _ 3) by lia. change (2 ^ 3) with (Z.of_nat 8).
    rewrite <- Nat2Z.inj_mod. rewrite TM. reflexivity. }
  rewrite ET.
  pose proof (mm_body_snd bs (Z.lxor seed (mul64 (Z.of_nat (length bs)) murmur_m)) HB) as ES.
  destruct (mm_body (length bs / 8) bs (Z.lxor seed (mul64 (Z.of_nat (length bs)) murmur_m))) as [h1 data].
  cbn [fst snd] in *. subst data. rewrite (mm_tail_app _ extra h1 TL). reflexivity.
Qed.

(* ---------- the native dispatch and the generated fold step ---------- *)
Lemma native_mem_is_64a mem len seed : murmur_native_mem mem len seed = murmur64a_mem mem len seed.
Proof. reflexivity. Qed.
Lemma native_is_64a bs seed : murmur_native bs seed = murmur64a bs seed.
Proof. reflexivity. Qed.

(* what fields.hh's HashCallback::operator() does with one piece, as extracted: MurmurHashNative(piece, piece.size(), previous value) *)
Lemma hashcallback_step p h : eval_key (fun _ => p) h hashcallback_step_shape = murmur64a p h.
Proof. reflexivity. Qed.

(* ---------- the fold of HashCallback is the specified left fold ---------- *)
Lemma hash_fold_nil seed : hash_fold seed [] = seed.
Proof. reflexivity. Qed.
Lemma hash_fold_app seed ps qs : hash_fold seed (ps ++ qs) = hash_fold (hash_fold seed ps) qs.
Proof. unfold hash_fold. apply fold_left_app. Qed.
Lemma hash_fold_snoc seed ps p : hash_fold seed (ps ++ [p]) = murmur_native p (hash_fold seed ps).
Proof. rewrite hash_fold_app. unfold hash_fold at 1. cbn [fold_left]. rewrite hashcallback_step. reflexivity. Qed.

Lemma fold_spec_snoc seed ps p : fold_spec seed (ps ++ [p]) = murmur64a p (fold_spec seed ps).
Proof. unfold fold_spec. rewrite rev_app_distr. reflexivity. Qed.

Theorem hash_fold_is_fold_spec seed ps : hash_fold seed ps = fold_spec seed ps.
Proof.
  induction ps as [|p ps IH] using rev_ind; [reflexivity|].
  rewrite hash_fold_snoc, fold_spec_snoc, IH. reflexivity.
Qed.

Theorem fold_is_left_fold_proof seed ps p :
  hash_fold seed ps = fold_spec seed ps /\
  fold_spec seed [] = seed /\ fold_spec seed (ps ++ [p]) = murmur64a p (fold_spec seed ps).
Proof. split; [apply hash_fold_is_fold_spec|]. split; [reflexivity|apply fold_spec_snoc]. Qed.

Lemma hash_fold_range seed ps : 0 <= seed < two64 -> Forall (fun p => bytes_okb p = true) ps -> 0 <= hash_fold seed ps < two64.
Proof.
  intros Hs HB. rewrite hash_fold_is_fold_spec. unfold fold_spec.
  assert (Forall (fun p => bytes_okb p = true) (rev ps)) as HR by (apply Forall_rev; exact HB).
  induction HR as [|p r Hp HR IH]; [exact Hs|]. cbn [chain_rev]. apply murmur_range_proof. exact Hp.
Qed.

(* ---------- tools ---------- *)
(* shard: default-constructed HashCallback (seed from fields.hh), the fold, modulo the shard count *)
Theorem shard_index_proof pieces n : 0 < n ->
  shard_index pieces n = fold_spec 47849374332489 pieces mod n /\ 0 <= shard_index pieces n < n.
Proof.
  intros Hn. split; [|unfold shard_index; apply Z.mod_pos_bound; exact Hn].
  unfold shard_index, shard_hash. rewrite hash_fold_is_fold_spec. reflexivity.
Qed.

(* train_case and apply_case: the shapes extracted from the two sources are the same shape, namely
   64A(lowered target with ITS OWN length, seed = 64A(source with its own length, seed 0)) *)
Lemma case_shapes_agree :
  train_case_key_shape = apply_case_key_shape /\
  apply_case_key_shape = KHash F64A RLowered RLowered (KHash F64A RSource RSource (KConst 0)).
Proof. split; reflexivity. Qed.

Theorem case_keys_agree_proof lowered source target :
  case_key_train lowered source target = case_key_apply lowered source /\
  case_key_apply lowered source = murmur64a lowered (murmur64a source 0).
Proof.
  unfold case_key_train, case_key_apply. destruct case_shapes_agree as [E1 E2]. rewrite E1, E2. split; reflexivity.
Qed.

Theorem seeds_proof :
  shard_seed = 47849374332489 /\ dedupe_line_seed = 1 /\ dedupe_field_seed = 1 /\ cache_seed = 0 /\
  subtract_insert_seed = subtract_lookup_seed /\ subtract_lookup_seed = 1 /\ commoncrawl_dedupe_seed = 1 /\
  default_seed_64a = 0 /\ mmhsum_seed = 0 /\ native_64b_pointer_size <> 8.
Proof. repeat split; try reflexivity. discriminate. Qed.

(* mmhsum over an input that fits the buffer is the plain hash; the empty input prints the seed *)
Lemma split_z_all : forall bs n, Z.of_nat (length bs) <= n -> split_z n bs = (bs, []).
Proof.
  induction bs as [|b r IH]; intros n L; [reflexivity|].
  cbn [split_z]. cbn [length] in L. rewrite Nat2Z.inj_succ in L.
  destruct (n <=? 0) eqn:E; [lia|]. rewrite (IH (n - 1)) by lia. reflexivity.
Qed.

Theorem mmhsum_single_chunk_proof bs : bs <> [] -> Z.of_nat (length bs) <= mmhsum_buffer ->
  mmhsum bs = murmur64a bs 0 /\ mmhsum [] = 0.
Proof.
  intros NE L. split; [|reflexivity]. unfold mmhsum, mmhsum_with.
  destruct bs as [|b r]; [congruence|]. cbn [length chunks_of_fuel].
  rewrite (split_z_all (b :: r) mmhsum_buffer L). destruct (length r); reflexivity.
Qed.

(* ---------- order_independent_hash really is order independent ---------- *)
From Coq Require Import Permutation.

Definition line_hash_sum (lines : list (list Z)) : Z := fold_right (fun l acc => murmur64a l default_seed_64a + acc) 0 lines.

Lemma oih_fold : forall lines s, 
  fold_left (fun s l => w64 (s + murmur64a l default_seed_64a)) lines s mod two64 = (s + line_hash_sum lines) mod two64.
Proof.
  induction lines as [|l ls IH]; intros s; [simpl; rewrite Z.add_0_r; reflexivity|].
  cbn [fold_left]. change (line_hash_sum (l :: ls)) with (murmur64a l default_seed_64a + line_hash_sum ls).
  rewrite IH. rewrite w64_mod.
  rewrite Z.add_mod_idemp_l by (unfold two64; lia). f_equal. lia.
Qed.

Lemma fold_w64_in_range : forall lines s, 0 <= s < two64 ->
  0 <= fold_left (fun s l => w64 (s + murmur64a l default_seed_64a)) lines s < two64.
Proof.
  induction lines as [|l ls IH]; intros s R; [exact R|].
  cbn [fold_left]. apply IH. rewrite w64_mod. apply Z.mod_pos_bound. reflexivity.
Qed.

Lemma order_independent_hash_sum lines : order_independent_hash lines = line_hash_sum lines mod two64.
Proof.
  unfold order_independent_hash.
  pose proof (fold_w64_in_range lines order_independent_init ltac:(unfold order_independent_init, two64; lia)) as R.
  rewrite <- (Z.mod_small _ _ R). rewrite oih_fold. reflexivity.
Qed.

Lemma line_hash_sum_perm l1 l2 : Permutation l1 l2 -> line_hash_sum l1 = line_hash_sum l2.
Proof.
  induction 1 as [|x l l' P IH|x y l|l l' l'' P1 IH1 P2 IH2]; [reflexivity| | |congruence].
  - change (line_hash_sum (x :: l)) with (murmur64a x default_seed_64a + line_hash_sum l).
    change (line_hash_sum (x :: l')) with (murmur64a x default_seed_64a + line_hash_sum l'). lia.
  - change (line_hash_sum (y :: x :: l)) with (murmur64a y default_seed_64a + (murmur64a x default_seed_64a + line_hash_sum l)).
    change (line_hash_sum (x :: y :: l)) with (murmur64a x default_seed_64a + (murmur64a y default_seed_64a + line_hash_sum l)). lia.
Qed.

Theorem order_independent_proof l1 l2 : Permutation l1 l2 -> order_independent_hash l1 = order_independent_hash l2.
Proof. intros P. rewrite !order_independent_hash_sum, (line_hash_sum_perm l1 l2 P). reflexivity. Qed.

(* ---------- mmhsum chains over buffer-sized chunks ---------- *)
Lemma split_z_spec : forall bs n, 0 <= n ->
  split_z n bs = (firstn (Z.to_nat n) bs, skipn (Z.to_nat n) bs).
Proof.
  induction bs as [|b r IH]; intros n P.
  - simpl. rewrite firstn_nil, skipn_nil. reflexivity.
  - cbn [split_z]. destruct (n <=? 0) eqn:E.
    + replace n with 0 by lia. reflexivity.
    + rewrite (IH (n - 1)) by lia. replace (Z.to_nat n) with (S (Z.to_nat (n - 1))) by lia. reflexivity.
Qed.

Lemma chunks_concat : forall fuel n bs, 1 <= n -> (length bs <= fuel)%nat ->
  concat (chunks_of_fuel fuel n bs) = bs /\
  Forall (fun ch => ch <> [] /\ Z.of_nat (length ch) <= n) (chunks_of_fuel fuel n bs) /\
  Forall (fun ch => Z.of_nat (length ch) = n) (removelast (chunks_of_fuel fuel n bs)).
Proof.
  induction fuel as [|f IH]; intros n bs P L.
  - destruct bs; [simpl; auto|simpl in L; lia].
  - destruct bs as [|b r]; [simpl; auto|].
    cbn [chunks_of_fuel]. rewrite split_z_spec by lia.
    set (k := Z.to_nat n). assert (1 <= k)%nat as K by lia.
    assert (length (skipn k (b :: r)) <= f)%nat as L'. { rewrite skipn_length. cbn [length] in *. lia. }
    destruct (IH n (skipn k (b :: r)) P L') as (C & F & R).
    split; [|split].
    + cbn [concat]. rewrite C. apply firstn_skipn.
    + constructor; [|exact F]. split.
      * destruct k; [lia|]. simpl. discriminate.
      * rewrite firstn_length. lia.
    + destruct (chunks_of_fuel f n (skipn k (b :: r))) as [|c cs] eqn:CH; [constructor|].
      change (removelast (firstn k (b :: r) :: c :: cs)) with (firstn k (b :: r) :: removelast (c :: cs)).
      constructor; [|exact R].
      (* there is a following chunk, so this one is full *)
      assert (skipn k (b :: r) <> []) as NE.
      { intros E. rewrite E in CH. destruct f; simpl in CH; discriminate. }
      rewrite firstn_length. destruct (Nat.le_gt_cases k (length (b :: r))) as [LE|GT]; [lia|].
      exfalso. apply NE. apply skipn_all2. lia.
Qed.

Theorem mmhsum_chain_proof bs : 
  exists chunks, concat chunks = bs /\
    Forall (fun ch => ch <> [] /\ Z.of_nat (length ch) <= mmhsum_buffer) chunks /\
    Forall (fun ch => Z.of_nat (length ch) = mmhsum_buffer) (removelast chunks) /\
    mmhsum bs = fold_left (fun h ch => murmur64a ch h) chunks 0.
Proof.
  exists (chunks_of_fuel (length bs) mmhsum_buffer bs).
  destruct (chunks_concat (length bs) mmhsum_buffer bs ltac:(unfold mmhsum_buffer; lia) (Nat.le_refl _)) as (C & F & R).
  repeat split; assumption || reflexivity.
Qed.

(* ---------- MurmurHash64B: termination, range, reads only the input, native dispatch ---------- *)
Lemma b_body_no_fuel_error : forall fuel data len h1 h2, len < 8 * Z.of_nat fuel -> b_body fuel data len h1 h2 <> BFuel.
Proof.
  induction fuel as [|f IH]; intros data len h1 h2 L; cbn [b_body]; unfold m64b_loop_min, m64b_loop_dec1, m64b_loop_dec2.
  - destruct (8 <=? len) eqn:E; [lia|discriminate].
  - destruct (8 <=? len) eqn:E; [|discriminate]. apply IH. lia.
Qed.

Lemma load_le_app_enough : forall n d extra, (n <= length d)%nat -> load_le n (d ++ extra) = load_le n d.
Proof.
  induction n as [|n IH]; intros d extra L; [reflexivity|].
  destruct d as [|b r]; [simpl in L; lia|]. cbn [app load_le]. rewrite IH by (simpl in L; lia). reflexivity.
Qed.

Lemma skipn_app_enough {A} : forall n (d extra : list A), (n <= length d)%nat -> skipn n (d ++ extra) = skipn n d ++ extra.
Proof.
  induction n as [|n IH]; intros d extra L; [reflexivity|].
  destruct d as [|b r]; [simpl in L; lia|]. cbn [app skipn]. apply IH. simpl in L. lia.
Qed.

(* the block loop: with len = the number of bytes of the string still ahead, memory behind the string is not looked at *)
Lemma b_body_app : forall fuel d extra h1 h2,
  match b_body fuel d (Z.of_nat (length d)) h1 h2 with
  | BFuel => b_body fuel (d ++ extra) (Z.of_nat (length d)) h1 h2 = BFuel
  | BState d' len' g1 g2 =>
    b_body fuel (d ++ extra) (Z.of_nat (length d)) h1 h2 = BState (d' ++ extra) len' g1 g2 /\ len' = Z.of_nat (length d') /\ len' < 8
  end.
Proof.
  induction fuel as [|f IH]; intros d extra h1 h2; cbn [b_body]; unfold m64b_loop_min, m64b_loop_dec1, m64b_loop_dec2.
  - destruct (8 <=? Z.of_nat (length d)) eqn:E; [reflexivity|]. repeat split; lia.
  - destruct (8 <=? Z.of_nat (length d)) eqn:E; [|repeat split; lia].
    assert (8 <= length d)%nat as L8 by lia.
    unfold half_bytes.
    rewrite (load_le_app_enough 4 d extra) by lia.
    rewrite (skipn_app_enough 4 d extra) by lia.
    rewrite (load_le_app_enough 4 (skipn 4 d) extra) by (rewrite skipn_length; lia).
    rewrite (skipn_app_enough 4 (skipn 4 d) extra) by (rewrite skipn_length; lia).
    replace (Z.of_nat (length d) - 4 - 4) with (Z.of_nat (length (skipn 4 (skipn 4 d)))) by (rewrite !skipn_length; lia).
    apply IH.
Qed.

Theorem murmur64b_reads_only_input_proof bs extra seed :
  murmur64b_mem (bs ++ extra) (Z.of_nat (length bs)) seed = murmur64b bs seed /\ murmur64b bs seed <> None.
Proof.
  unfold murmur64b, murmur64b_mem. rewrite Nat2Z.id.
  pose proof (b_body_app (S (length bs)) bs extra (w32 (Z.lxor seed (Z.of_nat (length bs)))) m64b_h2_init) as A.
  pose proof (b_body_no_fuel_error (S (length bs)) bs (Z.of_nat (length bs)) (w32 (Z.lxor seed (Z.of_nat (length bs)))) m64b_h2_init ltac:(lia)) as NF.
  destruct (b_body (S (length bs)) bs (Z.of_nat (length bs)) (w32 (Z.lxor seed (Z.of_nat (length bs)))) m64b_h2_init) as [d' len' g1 g2|]; [|contradiction].
  destruct A as (A & Ld & L8). rewrite A. subst len'. unfold m64b_half_min, m64b_half_dec, half_bytes.
  destruct (4 <=? Z.of_nat (length d')) eqn:E4.
  - rewrite (load_le_app_enough 4 d' extra) by lia. rewrite (skipn_app_enough 4 d' extra) by lia.
    set (t := skipn 4 d'). assert (length t = length d' - 4)%nat as Lt by (unfold t; apply skipn_length).
    assert (Z.of_nat (length d') - 4 = Z.of_nat (length t)) as -> by lia.
    assert (length t < 4)%nat as T4 by lia.
    split; [|discriminate].
    destruct t as [|t0 [|t1 [|t2 [|t3 r]]]]; try (simpl in T4; lia); reflexivity.
  - assert (length d' < 4)%nat as T4 by lia.
    split; [|discriminate].
    destruct d' as [|t0 [|t1 [|t2 [|t3 r]]]]; try (simpl in T4; lia); reflexivity.
Qed.

Lemma lor_lt_two64 a b : 0 <= a < two64 -> 0 <= b < two64 -> 0 <= Z.lor a b < two64.
Proof.
  intros Ha Hb. split; [apply Z.lor_nonneg; lia|].
  destruct (Z.eq_dec (Z.lor a b) 0) as [->|NZ]; [reflexivity|].
  assert (0 < Z.lor a b) as P by (pose proof (proj2 (Z.lor_nonneg a b) ltac:(lia)); lia).
  unfold two64. apply Z.log2_lt_pow2; [exact P|].
  rewrite Z.log2_lor by lia.
  assert (Z.log2 a < 64) as La.
  { destruct (Z.eq_dec a 0) as [->|]; [reflexivity|]. apply Z.log2_lt_pow2; unfold two64 in *; lia. }
  assert (Z.log2 b < 64) as Lb.
  { destruct (Z.eq_dec b 0) as [->|]; [reflexivity|]. apply Z.log2_lt_pow2; unfold two64 in *; lia. }
  lia.
Qed.

Lemma w32_range x : 0 <= w32 x < 4294967296.
Proof.
  unfold w32, mask32. pose proof (land_ones_mod x 32 ltac:(lia)) as E. change (2 ^ 32 - 1) with 4294967295 in E.
  rewrite E. apply Z.mod_pos_bound. reflexivity.
Qed.

Theorem murmur64b_range_proof bs seed v : murmur64b bs seed = Some v -> 0 <= v < two64.
Proof.
  unfold murmur64b, murmur64b_mem.
  destruct (b_body _ _ _ _ _) as [d' len' g1 g2|]; [|discriminate].
  destruct (m64b_half_min <=? len'); cbv zeta; intros E; injection E as <-;
    (apply lor_lt_two64; [rewrite w64_mod; apply Z.mod_pos_bound; reflexivity|]);
    unfold mul32; match goal with |- 0 <= w32 ?x < _ => pose proof (w32_range x) as R; unfold two64; lia end.
Qed.

Theorem native_dispatch_proof bs seed :
  murmur_native_for 8 bs seed = Some (murmur64a bs seed) /\ murmur_native_for 4 bs seed = murmur64b bs seed /\
  (platform_pointer_size = 8 -> murmur_native bs seed = murmur64a bs seed).
Proof. repeat split; reflexivity. Qed.

(* the other whole-line keys, each from its own source: MurmurHashNative(line, line.size(), 1) *)
Theorem line_keys_proof line :
  dedupe_line_key line = murmur64a line 1 /\ subtract_insert_key line = murmur64a line 1 /\
  subtract_lookup_key line = murmur64a line 1 /\ commoncrawl_dedupe_key line = murmur64a line 1 /\
  (forall pieces, dedupe_field_key pieces = fold_spec 1 pieces) /\ (forall pieces, cache_key pieces = fold_spec 0 pieces).
Proof.
  repeat split; try reflexivity.
  - intros pieces. unfold dedupe_field_key. rewrite hash_fold_is_fold_spec. reflexivity.
  - intros pieces. rewrite <- (hash_fold_is_fold_spec 0 pieces). reflexivity.
Qed.
