(* Proofs about the MurmurHash64A model and the field fold. *)
From PP Require Import Hash.MurmurDefs.
From Coq Require Import ZifyBool.
Local Open Scope Z_scope.
Ltac Zify.zify_post_hook ::= Z.div_mod_to_equations.

(* ---------- the fold of HashCallback is a left fold ---------- *)
Lemma hash_fold_nil seed : hash_fold seed [] = seed.
Proof. reflexivity. Qed.

Lemma hash_fold_cons seed p ps : hash_fold seed (p :: ps) = hash_fold (murmur_native p seed) ps.
Proof. reflexivity. Qed.

Lemma hash_fold_app seed ps qs : hash_fold seed (ps ++ qs) = hash_fold (hash_fold seed ps) qs.
Proof. unfold hash_fold. apply fold_left_app. Qed.

Lemma hash_fold_snoc seed ps p : hash_fold seed (ps ++ [p]) = murmur_native p (hash_fold seed ps).
Proof. rewrite hash_fold_app. reflexivity. Qed.

Lemma case_keys_agree_proof lowered source : case_key_train lowered source = case_key_apply lowered source.
Proof. reflexivity. Qed.
