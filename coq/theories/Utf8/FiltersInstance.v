(* Cross-property link C12 <-> C18: the well-formedness test [wf_utf8] that the line-filter models of
   Tools/FiltersDefs.v use (a direct boolean reading of Unicode Table 3-7) is, on byte strings, the same
   function as the model of the real util::IsUTF8 ([is_utf8b], tied to util/utf8.hh by the C12 check),
   and both decide [WellFormed].  Also the whole-line key those filters hash with. *)
From Coq Require Import List ZArith NArith Bool Lia.
From PP Require Import Utf8.Utf8Defs Utf8.Utf8Proofs Hash.MurmurDefs Tools.FiltersDefs.
From Coq Require Import ZifyBool.
Import ListNotations.
Local Open Scope Z_scope.

(* decide every comparison atom of the goal that the hypotheses determine (each by a small lia call) *)
Ltac decide_atom v :=
  first [ replace v with true by lia | replace v with false by lia ].
Ltac decide_atoms :=
  repeat match goal with
         | |- context [Z.leb ?a ?b] => let v := constr:(Z.leb a b) in progress (decide_atom v)
         | |- context [Z.ltb ?a ?b] => let v := constr:(Z.ltb a b) in progress (decide_atom v)
         | |- context [Z.eqb ?a ?b] => let v := constr:(Z.eqb a b) in progress (decide_atom v)
         end; cbn [andb orb negb].

Lemma decode1_complete s r : WF_seq s -> decode1 (s ++ r) = Some (scalar_of s, r).
Proof.
  intros W. destruct W; unfold rng in *; cbn [app decode1 scalar_of]; unfold trail; try subst b0;
    decide_atoms; try reflexivity.
Qed.

Lemma decode1_sound bs c r : Forall byte bs -> decode1 bs = Some (c, r) ->
  exists s, bs = s ++ r /\ WF_seq s /\ scalar_of s = c.
Proof.
  intros HB. unfold decode1, trail.
  destruct bs as [|b0 r0]; [discriminate|]. inversion HB as [|? ? H0 HB0]; subst. unfold byte in H0.
  destruct (b0 <? 128) eqn:E0.
  { intros E. injection E as <- <-. exists [b0]. split; [reflexivity|]. split; [apply WF_1; unfold rng; lia|reflexivity]. }
  destruct r0 as [|b1 r1]; [discriminate|]. inversion HB0 as [|? ? H1 HB1]; subst. unfold byte in H1.
  destruct ((194 <=? b0) && (b0 <=? 223) && ((128 <=? b1) && (b1 <=? 191))) eqn:E2.
  { intros E. injection E as <- <-. exists [b0; b1]. split; [reflexivity|]. split; [apply WF_2; unfold rng; lia|reflexivity]. }
  destruct r1 as [|b2 r2]; [discriminate|]. inversion HB1 as [|? ? H2 HB2]; subst. unfold byte in H2.
  match goal with |- (if ?c then _ else _) = _ -> _ => destruct c eqn:E3 end.
  { intros E. injection E as <- <-. exists [b0; b1; b2]. split; [reflexivity|]. split; [|reflexivity].
    assert ((b0 = 224 /\ 160 <= b1 <= 191) \/ (225 <= b0 <= 236 /\ 128 <= b1 <= 191) \/ (b0 = 237 /\ 128 <= b1 <= 159) \/
            (238 <= b0 <= 239 /\ 128 <= b1 <= 191)) as [K|[K|[K|K]]] by lia.
    - apply WF_3a; unfold rng; lia.
    - apply WF_3b; unfold rng; lia.
    - apply WF_3c; unfold rng; lia.
    - apply WF_3d; unfold rng; lia. }
  destruct r2 as [|b3 r3]; [discriminate|]. inversion HB2 as [|? ? H3 HB3]; subst. unfold byte in H3.
  match goal with |- (if ?c then _ else _) = _ -> _ => destruct c eqn:E4 end; [|discriminate].
  intros E. injection E as <- <-. exists [b0; b1; b2; b3]. split; [reflexivity|]. split; [|reflexivity].
  assert ((b0 = 240 /\ 144 <= b1 <= 191) \/ (241 <= b0 <= 243 /\ 128 <= b1 <= 191) \/ (b0 = 244 /\ 128 <= b1 <= 143)) as [K|[K|K]] by lia.
  - apply WF_4a; unfold rng; lia.
  - apply WF_4b; unfold rng; lia.
  - apply WF_4c; unfold rng; lia.
Qed.

Lemma wf_utf8_fuel_iff : forall fuel bs, (length bs <= fuel)%nat -> Forall byte bs ->
  (wf_utf8_fuel fuel bs = true <-> WellFormed bs).
Proof.
  induction fuel as [|f IH]; intros bs L HB.
  - destruct bs; [|simpl in L; lia]. simpl. split; [intros; constructor|reflexivity].
  - destruct bs as [|b0 l]; [simpl; split; [intros; constructor|reflexivity]|].
    cbn [wf_utf8_fuel]. remember (b0 :: l) as bs eqn:Ebs.
    destruct (decode1 bs) as [[c r]|] eqn:D.
    + destruct (decode1_sound bs c r HB D) as (s & Es & W & _).
      pose proof (WF_seq_nonempty s W) as NE.
      assert (length r <= f)%nat as Lr by (rewrite Es, app_length in L; lia).
      assert (Forall byte r) as HBr by (rewrite Es in HB; apply Forall_app in HB; tauto).
      rewrite (IH r Lr HBr). rewrite Es. split.
      * intros Wr. apply WFS_app; assumption.
      * intros Wsr. inversion Wsr as [E0|s' r' W' Wr' E'].
        { destruct s; [simpl in NE; lia|discriminate]. }
        destruct (WF_seq_prefix_unique s' r' s r W' W E') as [_ Er]. rewrite <- Er. exact Wr'.
    + split; [discriminate|]. intros Wbs. exfalso. rewrite Ebs in Wbs.
      inversion Wbs as [|s r W Wr E]. rewrite <- Ebs in E.
      rewrite <- E, (decode1_complete s r W) in D. discriminate.
Qed.

(* the filters' well-formedness test decides WellFormed ... *)
Theorem wf_utf8_iff_wellformed bs : bytes_okb bs = true -> (wf_utf8 bs = true <-> WellFormed bs).
Proof. intros HB. apply wf_utf8_fuel_iff; [apply Nat.le_refl|apply bytes_okb_Forall; exact HB]. Qed.

(* ... hence is the same function as the model of the real util::IsUTF8 *)
Theorem wf_utf8_is_model_is_utf8 bs : bytes_okb bs = true -> wf_utf8 bs = is_utf8b bs.
Proof.
  intros HB. pose proof (wf_utf8_iff_wellformed bs HB) as A. pose proof (is_utf8b_iff bs HB) as B.
  destruct (wf_utf8 bs), (is_utf8b bs); try reflexivity.
  - symmetry. apply B, A. reflexivity.
  - apply A, B. reflexivity.
Qed.

(* the C18 model of remove_invalid_utf8 and the C12 one agree on lists of byte lines *)
Theorem remove_invalid_models_agree ls : Forall (fun l => bytes_okb l = true) ls ->
  Tools.FiltersDefs.remove_invalid_utf8 ls = filter is_utf8b ls.
Proof.
  intros F. unfold Tools.FiltersDefs.remove_invalid_utf8. induction F as [|l ls Hl F IH]; [reflexivity|].
  simpl. rewrite (wf_utf8_is_model_is_utf8 l Hl), IH. reflexivity.
Qed.

(* the whole-line key of subtract_lines / commoncrawl_dedupe / dedupe, as the [key : line -> N] those models take *)
Definition line_keyN (l : list Z) : N := Z.to_N (murmur64a l 1).
Theorem line_keyN_is_tool_key l :
  line_keyN l = Z.to_N (subtract_insert_key l) /\ line_keyN l = Z.to_N (subtract_lookup_key l) /\
  line_keyN l = Z.to_N (commoncrawl_dedupe_key l) /\ line_keyN l = Z.to_N (dedupe_line_key l).
Proof. repeat split; reflexivity. Qed.
