(* Proofs about the UTF-8 model. *)
From PP Require Import Utf8.Utf8Defs.
From Coq Require Import ZifyBool.
Local Open Scope Z_scope.
Ltac Zify.zify_post_hook ::= Z.div_mod_to_equations.

Definition all_bytes : list Z := map Z.of_nat (List.seq 0 256).
Lemma in_all_bytes c : 0 <= c < 256 -> In c all_bytes.
Proof.
  intros H. unfold all_bytes. apply in_map_iff. exists (Z.to_nat c). split; [lia|].
  apply in_seq. lia.
Qed.

Definition row_len (r : decres) : Z := match r with Decoded _ n => n | NotUTF8 => 0 end.
Definition row_cp (r : decres) : Z := match r with Decoded c _ => c | NotUTF8 => -1 end.

(* the (b0,b1) sweep: the model run on b0 b1 80 80 picks the Table 3-7 length
   and the Table 3-6 scalar value of the sequence it accepts *)
Definition pair_okb (b0 b1 : Z) : bool :=
  let r := decode_utf8 [b0; b1; 128; 128] in
  (row_len r =? table37_len b0 b1) &&
  match table37_len b0 b1 with
  | 1 => row_cp r =? scalar_of [b0]
  | 2 => row_cp r =? scalar_of [b0; b1]
  | 3 => row_cp r =? scalar_of [b0; b1; 128]
  | 4 => row_cp r =? scalar_of [b0; b1; 128; 128]
  | _ => true
  end.

Lemma pair_sweep : forallb (fun b0 => forallb (pair_okb b0) all_bytes) all_bytes = true.
Proof. vm_compute. reflexivity. Qed.

Lemma pair_ok b0 b1 : 0 <= b0 < 256 -> 0 <= b1 < 256 -> pair_okb b0 b1 = true.
Proof.
  intros H0 H1.
  pose proof (proj1 (forallb_forall _ _) pair_sweep b0 (in_all_bytes b0 H0)) as E.
  exact (proj1 (forallb_forall _ _) E b1 (in_all_bytes b1 H1)).
Qed.
