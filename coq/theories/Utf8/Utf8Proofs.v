(* Proofs about the UTF-8 model: DecodeUTF8 is sound and complete for Table 3-7,
   IsUTF8 <-> WellFormed, the iterator partitions the string, window
   composition (what the native sweeps of the harness rely on), Table 3-6
   encode/decode, and remove_invalid_utf8. *)
From PP Require Import Base.BitsZ Utf8.Utf8Defs.
From Coq Require Import ZifyBool.
Local Open Scope Z_scope.
Ltac Zify.zify_post_hook ::= Z.div_mod_to_equations.

Ltac ugen := unfold trail_bound, sur_lo, sur_hi, cp_max, ascii_bound, mblen1, len2, lead2_mask, lead2_val,
  pay2_mask, sh2_0, tr2_1_mask, min2, mblen2, len3, lead3_mask, lead3_val, pay3_mask, sh3_0, tr3_1_mask, sh3_1,
  tr3_2_mask, min3, mblen3, len4, lead4_mask, lead4_val, pay4_mask, sh4_0, tr4_1_mask, sh4_1, tr4_2_mask, sh4_2,
  tr4_3_mask, min4, mblen4 in *.

Definition byte (b : Z) : Prop := 0 <= b < 256.

Definition all_bytes : list Z := map Z.of_nat (List.seq 0 256).
Lemma in_all_bytes c : byte c -> In c all_bytes.
Proof.
  intros H. unfold all_bytes. apply in_map_iff. exists (Z.to_nat c). unfold byte in H. split; [lia|].
  apply in_seq. lia.
Qed.

Lemma bytes_okb_Forall bs : bytes_okb bs = true <-> Forall byte bs.
Proof.
  unfold bytes_okb. rewrite forallb_forall, Forall_forall. split; intros H x Hx.
  - apply byte_okb_iff. auto.
  - apply byte_okb_iff. apply H. exact Hx.
Qed.

(* ------------------------------------------------------------ arithmetic form of the code point expressions *)
Lemma land63 b : Z.land b 63 = b mod 64.
Proof. apply (land_ones_mod b 6). lia. Qed.
Lemma land31 b : Z.land b 31 = b mod 32.
Proof. apply (land_ones_mod b 5). lia. Qed.
Lemma land15 b : Z.land b 15 = b mod 16.
Proof. apply (land_ones_mod b 4). lia. Qed.
Lemma land7 b : Z.land b 7 = b mod 8.
Proof. apply (land_ones_mod b 3). lia. Qed.

Lemma lor_add_64 q y : 0 <= y < 64 -> Z.lor (q * 64) y = q * 64 + y.
Proof. intros. apply (lor_mul_pow2_add q y 6); lia. Qed.
Lemma lor_add_4096 q y : 0 <= y < 4096 -> Z.lor (q * 4096) y = q * 4096 + y.
Proof. intros. apply (lor_mul_pow2_add q y 12); lia. Qed.
Lemma lor_add_262144 q y : 0 <= y < 262144 -> Z.lor (q * 262144) y = q * 262144 + y.
Proof. intros. apply (lor_mul_pow2_add q y 18); lia. Qed.

Lemma cp2_arith b0 b1 : cp2 b0 b1 = (b0 mod 32) * 64 + b1 mod 64.
Proof.
  unfold cp2. ugen. rewrite land31, land63. rewrite (shiftl_mul _ 6) by lia. change (2 ^ 6) with 64.
  apply lor_add_64. lia.
Qed.

Lemma cp3_arith b0 b1 b2 : cp3 b0 b1 b2 = (b0 mod 16) * 4096 + (b1 mod 64) * 64 + b2 mod 64.
Proof.
  unfold cp3. ugen. rewrite land15, !land63. rewrite (shiftl_mul _ 12), (shiftl_mul _ 6) by lia.
  change (2 ^ 12) with 4096. change (2 ^ 6) with 64.
  rewrite lor_add_4096 by lia.
  replace (b0 mod 16 * 4096 + b1 mod 64 * 64) with ((b0 mod 16 * 64 + b1 mod 64) * 64) by lia.
  rewrite lor_add_64 by lia. lia.
Qed.

Lemma cp4_arith b0 b1 b2 b3 :
  cp4 b0 b1 b2 b3 = (b0 mod 8) * 262144 + (b1 mod 64) * 4096 + (b2 mod 64) * 64 + b3 mod 64.
Proof.
  unfold cp4. ugen. rewrite land7, !land63. rewrite (shiftl_mul _ 18), (shiftl_mul _ 12), (shiftl_mul _ 6) by lia.
  change (2 ^ 18) with 262144. change (2 ^ 12) with 4096. change (2 ^ 6) with 64.
  rewrite lor_add_262144 by lia.
  replace (b0 mod 8 * 262144 + b1 mod 64 * 4096) with ((b0 mod 8 * 64 + b1 mod 64) * 4096) by lia.
  rewrite lor_add_4096 by lia.
  replace ((b0 mod 8 * 64 + b1 mod 64) * 4096 + b2 mod 64 * 64) with (((b0 mod 8 * 64 + b1 mod 64) * 64 + b2 mod 64) * 64) by lia.
  rewrite lor_add_64 by lia. lia.
Qed.

Lemma is_trail_trail37 b : byte b -> is_trail b = trail37 b.
Proof.
  unfold byte, is_trail, trail37, signed_char, in_rng. ugen. intros H.
  destruct (b <? 128) eqn:E; lia.
Qed.

(* ------------------------------------------------------------ window composition *)
Ltac eval_len_ge :=
  repeat match goal with
         | |- context [len_ge ?k ?l] =>
           let v := eval vm_compute in (len_ge k l) in change (len_ge k l) with v
         end.

(* the range tests of the 3-byte branch do not look at the low 6 bits *)
Lemma tests3_indep b0 b1 b2 : trail37 b2 = true ->
  cp3 b0 b1 b2 = cp3 b0 b1 128 + (b2 - 128) /\
  (min3 <=? cp3 b0 b1 b2) = (min3 <=? cp3 b0 b1 128) /\
  is_valid_cp (cp3 b0 b1 b2) = is_valid_cp (cp3 b0 b1 128).
Proof.
  unfold trail37, in_rng. intros T. rewrite !cp3_arith. unfold is_valid_cp. ugen.
  split; [|split]; lia.
Qed.

(* 4-byte branch: 0xD800 is not a multiple of 4096, but together with the minimum
   0x10000 the tests do not look at the low 12 bits *)
Lemma tests4_indep b0 b1 b2 b3 : trail37 b2 = true -> trail37 b3 = true ->
  cp4 b0 b1 b2 b3 = cp4 b0 b1 128 128 + (b2 - 128) * 64 + (b3 - 128) /\
  (min4 <=? cp4 b0 b1 b2 b3) && is_valid_cp (cp4 b0 b1 b2 b3) =
  (min4 <=? cp4 b0 b1 128 128) && is_valid_cp (cp4 b0 b1 128 128).
Proof.
  unfold trail37, in_rng. intros T2 T3. rewrite !cp4_arith. unfold is_valid_cp. ugen.
  assert (b2 mod 64 = b2 - 128) as -> by lia.
  assert (b3 mod 64 = b3 - 128) as -> by lia.
  change (128 mod 64) with 0.
  assert (exists k, b0 mod 8 * 262144 + b1 mod 64 * 4096 = k * 4096) as [k Hk] by (exists (b0 mod 8 * 64 + b1 mod 64); lia).
  rewrite Hk. clear Hk.
  split; lia.
Qed.

Lemma trail37_128 : trail37 128 = true. Proof. reflexivity. Qed.
Lemma is_trail_128 : is_trail 128 = true. Proof. reflexivity. Qed.

Lemma decode3_compose b0 b1 b2 : byte b0 -> byte b1 -> byte b2 ->
  decode_utf8 [b0; b1; b2] = compose3 (decode_utf8 [b0; b1; 128]) b2.
Proof.
  intros H0 H1 H2. unfold decode_utf8. eval_len_ge. cbn [byte_at nth andb].
  destruct (b0 <? ascii_bound); [reflexivity|].
  destruct (Z.land b0 lead2_mask =? lead2_val).
  { destruct (is_trail b1 && (min2 <=? cp2 b0 b1) && is_valid_cp (cp2 b0 b1)); reflexivity. }
  destruct (Z.land b0 lead3_mask =? lead3_val); [|reflexivity].
  rewrite is_trail_128, (is_trail_trail37 b2 H2).
  destruct (trail37 b2) eqn:T.
  - destruct (tests3_indep b0 b1 b2 T) as (Ecp & Emin & Eval). rewrite Emin, Eval.
    rewrite !andb_true_r.
    destruct (is_trail b1 && (min3 <=? cp3 b0 b1 128) && is_valid_cp (cp3 b0 b1 128)); [|reflexivity].
    unfold compose3. change (mblen3 =? 3) with true. cbv iota. rewrite T, Ecp. reflexivity.
  - rewrite andb_false_r. cbn [andb]. rewrite !andb_true_r.
    destruct (is_trail b1 && (min3 <=? cp3 b0 b1 128) && is_valid_cp (cp3 b0 b1 128)); [|reflexivity].
    unfold compose3. change (mblen3 =? 3) with true. cbv iota. rewrite T. reflexivity.
Qed.

Lemma decode4_compose b0 b1 b2 b3 : byte b0 -> byte b1 -> byte b2 -> byte b3 ->
  decode_utf8 [b0; b1; b2; b3] = compose4 (decode_utf8 [b0; b1; 128; 128]) b2 b3.
Proof.
  intros H0 H1 H2 H3. unfold decode_utf8. eval_len_ge. cbn [byte_at nth andb].
  destruct (b0 <? ascii_bound); [reflexivity|].
  destruct (Z.land b0 lead2_mask =? lead2_val).
  { destruct (is_trail b1 && (min2 <=? cp2 b0 b1) && is_valid_cp (cp2 b0 b1)); reflexivity. }
  destruct (Z.land b0 lead3_mask =? lead3_val).
  { rewrite is_trail_128, (is_trail_trail37 b2 H2).
    destruct (trail37 b2) eqn:T.
    - destruct (tests3_indep b0 b1 b2 T) as (Ecp & Emin & Eval). rewrite Emin, Eval.
      rewrite !andb_true_r.
      destruct (is_trail b1 && (min3 <=? cp3 b0 b1 128) && is_valid_cp (cp3 b0 b1 128)); [|reflexivity].
      unfold compose4. change (mblen3 =? 4) with false. change (mblen3 =? 3) with true. cbv iota. rewrite T, Ecp. reflexivity.
    - rewrite andb_false_r. cbn [andb]. rewrite !andb_true_r.
      destruct (is_trail b1 && (min3 <=? cp3 b0 b1 128) && is_valid_cp (cp3 b0 b1 128)); [|reflexivity].
      unfold compose4. change (mblen3 =? 4) with false. change (mblen3 =? 3) with true. cbv iota. rewrite T. reflexivity. }
  destruct (Z.land b0 lead4_mask =? lead4_val); [|reflexivity].
  rewrite !is_trail_128, (is_trail_trail37 b2 H2), (is_trail_trail37 b3 H3).
  rewrite <- !(andb_assoc _ (min4 <=? _) (is_valid_cp _)).
  destruct (trail37 b2 && trail37 b3) eqn:T.
  - apply andb_true_iff in T. destruct T as [T2 T3].
    destruct (tests4_indep b0 b1 b2 b3 T2 T3) as (Ecp & Etests). rewrite Etests, T2, T3.
    rewrite !andb_true_r.
    destruct (is_trail b1 && ((min4 <=? cp4 b0 b1 128 128) && is_valid_cp (cp4 b0 b1 128 128))); [|reflexivity].
    unfold compose4. change (mblen4 =? 4) with true. cbv iota. rewrite T2, T3, Ecp. reflexivity.
  - rewrite !andb_true_r.
    assert (is_trail b1 && trail37 b2 && trail37 b3 = false) as F.
    { rewrite <- andb_assoc, T. apply andb_false_r. }
    rewrite F. cbn [andb].
    destruct (is_trail b1 && ((min4 <=? cp4 b0 b1 128 128) && is_valid_cp (cp4 b0 b1 128 128))); [|reflexivity].
    unfold compose4. change (mblen4 =? 4) with true. cbv iota. rewrite T. reflexivity.
Qed.

(* bytes behind the fourth are never looked at *)
Lemma decode_first4 b0 b1 b2 b3 rest :
  decode_utf8 (b0 :: b1 :: b2 :: b3 :: rest) = decode_utf8 [b0; b1; b2; b3].
Proof. unfold decode_utf8. unfold len_ge, len2, len3, len4. reflexivity. Qed.

(* ------------------------------------------------------------ finite sweeps over the regenerated constants *)
Definition decres_eqb (x y : decres) : bool :=
  match x, y with
  | Decoded c n, Decoded c' n' => (c =? c') && (n =? n')
  | NotUTF8, NotUTF8 => true
  | _, _ => false
  end.
Lemma decres_eqb_eq x y : decres_eqb x y = true -> x = y.
Proof.
  destruct x, y; simpl; intros H; try discriminate; [|reflexivity].
  apply andb_true_iff in H. destruct H as [A B]. apply Z.eqb_eq in A, B. subst. reflexivity.
Qed.

(* what a buffer of n bytes  b0 b1 80 80  must decode to, by Table 3-7 / 3-6 *)
Definition expect_row (n b0 b1 : Z) : decres :=
  let k := table37_len b0 b1 in
  if (k =? 0) || (n <? k) then NotUTF8
  else Decoded (scalar_of (firstn (Z.to_nat k) [b0; b1; 128; 128])) k.

Definition pair_rows_okb (b0 b1 : Z) : bool :=
  let '(r2, r3, r4) := pair_row b0 b1 in
  decres_eqb r2 (expect_row 2 b0 b1) && decres_eqb r3 (expect_row 3 b0 b1) && decres_eqb r4 (expect_row 4 b0 b1).

Lemma pair_rows_sweep : forallb (fun b0 => forallb (pair_rows_okb b0) all_bytes) all_bytes = true.
Proof. vm_compute. reflexivity. Qed.

Lemma pair_rows_ok b0 b1 : byte b0 -> byte b1 ->
  decode_utf8 [b0; b1] = expect_row 2 b0 b1 /\
  decode_utf8 [b0; b1; 128] = expect_row 3 b0 b1 /\
  decode_utf8 [b0; b1; 128; 128] = expect_row 4 b0 b1.
Proof.
  intros H0 H1.
  pose proof (proj1 (forallb_forall _ _) pair_rows_sweep b0 (in_all_bytes b0 H0)) as E.
  pose proof (proj1 (forallb_forall _ _) E b1 (in_all_bytes b1 H1)) as E1.
  unfold pair_rows_okb, pair_row in E1. rewrite !andb_true_iff in E1. destruct E1 as [[A B] C].
  repeat split; apply decres_eqb_eq; assumption.
Qed.

Definition one_okb (b0 : Z) : bool :=
  decres_eqb (decode_utf8 [b0]) (if table37_len b0 0 =? 1 then Decoded b0 1 else NotUTF8).
Lemma one_sweep : forallb one_okb all_bytes = true.
Proof. vm_compute. reflexivity. Qed.
Lemma one_ok b0 : byte b0 -> decode_utf8 [b0] = if table37_len b0 0 =? 1 then Decoded b0 1 else NotUTF8.
Proof.
  intros H. apply decres_eqb_eq. exact (proj1 (forallb_forall _ _) one_sweep b0 (in_all_bytes b0 H)).
Qed.

(* ------------------------------------------------------------ DecodeUTF8 = the table-driven specification *)
Definition wf_prefix_len (bs : list Z) : Z :=
  match bs with
  | [] => 0
  | [b0] => if table37_len b0 0 =? 1 then 1 else 0
  | b0 :: b1 :: r2 =>
    let k := table37_len b0 b1 in
    if k =? 3 then match r2 with b2 :: _ => if trail37 b2 then 3 else 0 | [] => 0 end
    else if k =? 4 then match r2 with b2 :: b3 :: _ => if trail37 b2 && trail37 b3 then 4 else 0 | _ => 0 end
    else k
  end.
Definition spec_decode (bs : list Z) : decres :=
  let n := wf_prefix_len bs in
  if n =? 0 then NotUTF8 else Decoded (scalar_of (firstn (Z.to_nat n) bs)) n.

Lemma table37_len_cases b0 b1 :
  let k := table37_len b0 b1 in k = 0 \/ k = 1 \/ k = 2 \/ k = 3 \/ k = 4.
Proof.
  unfold table37_len.
  repeat match goal with |- context [if ?c then _ else _] => destruct c end; cbv zeta; auto 6.
Qed.

Local Opaque Z.mul Z.add Z.sub trail37.
Lemma decode_is_spec_aux bs : Forall byte bs -> decode_utf8 bs = spec_decode bs.
Proof.
  intros HB.
  destruct bs as [|b0 [|b1 [|b2 [|b3 rest]]]].
  - reflexivity.
  - inversion HB; subst. rewrite one_ok by assumption. unfold spec_decode, wf_prefix_len.
    destruct (table37_len b0 0 =? 1); reflexivity.
  - inversion HB as [|? ? H0 HB1]; subst. inversion HB1 as [|? ? H1 _]; subst.
    destruct (pair_rows_ok b0 b1 H0 H1) as (R2 & _ & _). rewrite R2.
    unfold expect_row, spec_decode, wf_prefix_len.
    destruct (table37_len_cases b0 b1) as [K|[K|[K|[K|K]]]]; cbv zeta in K; rewrite K; reflexivity.
  - inversion HB as [|? ? H0 HB1]; subst. inversion HB1 as [|? ? H1 HB2]; subst. inversion HB2 as [|? ? H2 _]; subst.
    rewrite decode3_compose by assumption.
    destruct (pair_rows_ok b0 b1 H0 H1) as (_ & R3 & _). rewrite R3.
    unfold expect_row, spec_decode, wf_prefix_len.
    destruct (table37_len_cases b0 b1) as [K|[K|[K|[K|K]]]]; cbv zeta in K; rewrite K; try reflexivity.
    simpl. unfold compose3. simpl.
    destruct (trail37 b2); simpl; [|reflexivity]. f_equal. lia.
  - inversion HB as [|? ? H0 HB1]; subst. inversion HB1 as [|? ? H1 HB2]; subst.
    inversion HB2 as [|? ? H2 HB3]; subst. inversion HB3 as [|? ? H3 _]; subst.
    rewrite decode_first4, decode4_compose by assumption.
    destruct (pair_rows_ok b0 b1 H0 H1) as (_ & _ & R4). rewrite R4.
    unfold expect_row, spec_decode, wf_prefix_len.
    destruct (table37_len_cases b0 b1) as [K|[K|[K|[K|K]]]]; cbv zeta in K; rewrite K; try reflexivity.
    + simpl. unfold compose4. simpl.
      destruct (trail37 b2); simpl; [|reflexivity]. f_equal. lia.
    + simpl. unfold compose4. simpl.
      destruct (trail37 b2 && trail37 b3); simpl; [|reflexivity]. f_equal. lia.
Qed.
Local Transparent Z.mul Z.add Z.sub trail37.
Lemma decode_is_spec bs : Forall byte bs -> decode_utf8 bs = spec_decode bs.
Proof. exact (decode_is_spec_aux bs). Qed.

(* ------------------------------------------------------------ Table 3-7 (inductive) vs its boolean form *)
Ltac destr_ifs :=
  repeat match goal with
         | |- context [if ?c then _ else _] => let E := fresh "E" in destruct c eqn:E
         end.

Lemma table37_len_1 b0 b1 : table37_len b0 b1 = 1 <-> rng 0x00 0x7F b0.
Proof. unfold table37_len, in_rng, rng. destr_ifs; lia. Qed.

Lemma table37_len_2 b0 b1 : table37_len b0 b1 = 2 <-> rng 0xC2 0xDF b0 /\ rng 0x80 0xBF b1.
Proof. unfold table37_len, in_rng, rng. destr_ifs; lia. Qed.

Lemma table37_len_3 b0 b1 : table37_len b0 b1 = 3 <->
  (b0 = 0xE0 /\ rng 0xA0 0xBF b1) \/ (rng 0xE1 0xEC b0 /\ rng 0x80 0xBF b1) \/
  (b0 = 0xED /\ rng 0x80 0x9F b1) \/ (rng 0xEE 0xEF b0 /\ rng 0x80 0xBF b1).
Proof. unfold table37_len, in_rng, rng. destr_ifs; lia. Qed.

Lemma table37_len_4 b0 b1 : table37_len b0 b1 = 4 <->
  (b0 = 0xF0 /\ rng 0x90 0xBF b1) \/ (rng 0xF1 0xF3 b0 /\ rng 0x80 0xBF b1) \/ (b0 = 0xF4 /\ rng 0x80 0x8F b1).
Proof. unfold table37_len, in_rng, rng. destr_ifs; lia. Qed.

Lemma trail37_rng b : trail37 b = true <-> rng 0x80 0xBF b.
Proof. unfold trail37, in_rng, rng. lia. Qed.

Lemma firstn_len_app {A} (s r : list A) : firstn (length s) (s ++ r) = s.
Proof. induction s as [|x s IH]; simpl; [reflexivity|]. rewrite IH. reflexivity. Qed.
Lemma skipn_len_app {A} (s r : list A) : skipn (length s) (s ++ r) = r.
Proof. induction s as [|x s IH]; simpl; [reflexivity|]. exact IH. Qed.

Lemma WF_seq_nonempty s : WF_seq s -> (0 < length s)%nat.
Proof. intros W. inversion W; simpl; lia. Qed.

(* a string that starts with a Table 3-7 sequence: the table-driven length finds exactly it *)
Lemma wf_seq_prefix_len s r : WF_seq s -> wf_prefix_len (s ++ r) = Z.of_nat (length s).
Proof.
  intros W. inversion W as [b0 H0|b0 b1 H0 H1|b0 b1 b2 H0 H1 H2|b0 b1 b2 H0 H1 H2|b0 b1 b2 H0 H1 H2|b0 b1 b2 H0 H1 H2
                           |b0 b1 b2 b3 H0 H1 H2 H3|b0 b1 b2 b3 H0 H1 H2 H3|b0 b1 b2 b3 H0 H1 H2 H3]; subst; simpl app.
  - destruct r as [|b1 r].
    + unfold wf_prefix_len. rewrite (proj2 (table37_len_1 b0 0) H0). reflexivity.
    + unfold wf_prefix_len. rewrite (proj2 (table37_len_1 b0 b1) H0). reflexivity.
  - unfold wf_prefix_len. rewrite (proj2 (table37_len_2 b0 b1) (conj H0 H1)). reflexivity.
  - unfold wf_prefix_len. rewrite (proj2 (table37_len_3 _ b1)) by (left; split; [reflexivity|assumption]).
    simpl. rewrite (proj2 (trail37_rng b2) H2). reflexivity.
  - unfold wf_prefix_len. rewrite (proj2 (table37_len_3 b0 b1)) by (right; left; split; assumption).
    simpl. rewrite (proj2 (trail37_rng b2) H2). reflexivity.
  - unfold wf_prefix_len. rewrite (proj2 (table37_len_3 _ b1)) by (right; right; left; split; [reflexivity|assumption]).
    simpl. rewrite (proj2 (trail37_rng b2) H2). reflexivity.
  - unfold wf_prefix_len. rewrite (proj2 (table37_len_3 b0 b1)) by (right; right; right; split; assumption).
    simpl. rewrite (proj2 (trail37_rng b2) H2). reflexivity.
  - unfold wf_prefix_len. rewrite (proj2 (table37_len_4 _ b1)) by (left; split; [reflexivity|assumption]).
    simpl. rewrite (proj2 (trail37_rng b2) H2), (proj2 (trail37_rng b3) H3). reflexivity.
  - unfold wf_prefix_len. rewrite (proj2 (table37_len_4 b0 b1)) by (right; left; split; assumption).
    simpl. rewrite (proj2 (trail37_rng b2) H2), (proj2 (trail37_rng b3) H3). reflexivity.
  - unfold wf_prefix_len. rewrite (proj2 (table37_len_4 _ b1)) by (right; right; split; [reflexivity|assumption]).
    simpl. rewrite (proj2 (trail37_rng b2) H2), (proj2 (trail37_rng b3) H3). reflexivity.
Qed.

(* ... and whatever it finds is a Table 3-7 sequence *)
Lemma wf_prefix_len_sound bs n : wf_prefix_len bs = n -> n <> 0 ->
  exists s r, bs = s ++ r /\ WF_seq s /\ Z.of_nat (length s) = n.
Proof.
  intros E NZ. destruct bs as [|b0 [|b1 r2]].
  - simpl in E. congruence.
  - unfold wf_prefix_len in E. destruct (table37_len b0 0 =? 1) eqn:K; [|congruence].
    apply Z.eqb_eq in K. exists [b0], []. split; [reflexivity|]. split; [|simpl; lia].
    apply WF_1. apply (table37_len_1 b0 0). exact K.
  - unfold wf_prefix_len in E.
    destruct (table37_len_cases b0 b1) as [K|[K|[K|[K|K]]]]; cbv zeta in K; rewrite K in E; simpl in E.
    + congruence.
    + exists [b0], (b1 :: r2). split; [reflexivity|]. split; [|simpl; lia].
      apply WF_1. apply (table37_len_1 b0 b1). exact K.
    + exists [b0; b1], r2. split; [reflexivity|]. split; [|simpl; lia].
      apply table37_len_2 in K. destruct K. apply WF_2; assumption.
    + destruct r2 as [|b2 r3]; [congruence|]. destruct (trail37 b2) eqn:T2; [|congruence].
      apply trail37_rng in T2.
      exists [b0; b1; b2], r3. split; [reflexivity|]. split; [|simpl; lia].
      apply table37_len_3 in K. destruct K as [[A B]|[[A B]|[[A B]|[A B]]]].
      * apply WF_3a; assumption.
      * apply WF_3b; assumption.
      * apply WF_3c; assumption.
      * apply WF_3d; assumption.
    + destruct r2 as [|b2 [|b3 r4]]; [congruence|congruence|].
      destruct (trail37 b2) eqn:T2; [|simpl in E; congruence].
      destruct (trail37 b3) eqn:T3; [|simpl in E; congruence].
      apply trail37_rng in T2, T3. simpl in E.
      exists [b0; b1; b2; b3], r4. split; [reflexivity|]. split; [|simpl; lia].
      apply table37_len_4 in K. destruct K as [[A B]|[[A B]|[A B]]].
      * apply WF_4a; assumption.
      * apply WF_4b; assumption.
      * apply WF_4c; assumption.
Qed.

Theorem decode_sound_complete_proof bs c n : bytes_okb bs = true ->
  (decode_utf8 bs = Decoded c n <->
   exists s r, bs = s ++ r /\ WF_seq s /\ scalar_of s = c /\ Z.of_nat (length s) = n).
Proof.
  intros HB. apply bytes_okb_Forall in HB. rewrite (decode_is_spec bs HB). unfold spec_decode. split.
  - destruct (wf_prefix_len bs =? 0) eqn:Z0; [discriminate|]. apply Z.eqb_neq in Z0.
    intros E. injection E as Ec En.
    destruct (wf_prefix_len_sound bs _ eq_refl Z0) as (s & r & Ebs & W & L).
    exists s, r. rewrite <- L, Nat2Z.id, Ebs, firstn_len_app in Ec. rewrite <- En. auto.
  - intros (s & r & Ebs & W & Ec & En). subst bs.
    rewrite (wf_seq_prefix_len s r W). pose proof (WF_seq_nonempty s W) as NE.
    destruct (Z.of_nat (length s) =? 0) eqn:Z0; [lia|].
    rewrite Nat2Z.id, firstn_len_app. congruence.
Qed.

(* rejection: exactly when the buffer does not start with a well-formed sequence *)
Lemma decode_reject_iff bs : bytes_okb bs = true ->
  (decode_utf8 bs = NotUTF8 <-> forall s r, bs = s ++ r -> ~ WF_seq s).
Proof.
  intros HB. split.
  - intros E s r Ebs W.
    assert (decode_utf8 bs = Decoded (scalar_of s) (Z.of_nat (length s))) as D.
    { apply decode_sound_complete_proof; [exact HB|]. exists s, r. auto. }
    congruence.
  - intros N. destruct (decode_utf8 bs) as [c n|] eqn:D; [|reflexivity].
    apply decode_sound_complete_proof in D; [|exact HB]. destruct D as (s & r & Ebs & W & _).
    exfalso. exact (N s r Ebs W).
Qed.

(* ------------------------------------------------------------ IsUTF8 <-> WellFormed *)
(* Table 3-7 is a prefix code *)
Lemma WF_seq_prefix_unique s r s' r' : WF_seq s -> WF_seq s' -> s ++ r = s' ++ r' -> s = s' /\ r = r'.
Proof.
  intros W W' E.
  pose proof (wf_seq_prefix_len s r W) as L. pose proof (wf_seq_prefix_len s' r' W') as L'.
  rewrite E in L. rewrite L in L'. apply Nat2Z.inj in L'.
  pose proof (firstn_len_app s r) as F. pose proof (skipn_len_app s r) as S.
  rewrite E, L' in F. rewrite E, L' in S. rewrite firstn_len_app in F. rewrite skipn_len_app in S.
  split; congruence.
Qed.

Lemma Forall_app_r {A} (P : A -> Prop) l1 l2 : Forall P (l1 ++ l2) -> Forall P l2.
Proof. intros H. apply Forall_app in H. tauto. Qed.

Lemma is_utf8_fuel_correct : forall fuel bs, (length bs <= fuel)%nat -> Forall byte bs ->
  exists b, is_utf8_fuel fuel bs = Some b /\ (b = true <-> WellFormed bs).
Proof.
  induction fuel as [|f IH]; intros bs L HB.
  - destruct bs; [|simpl in L; lia]. exists true. split; [reflexivity|]. split; [intros; constructor|reflexivity].
  - destruct bs as [|b0 l].
    { exists true. split; [reflexivity|]. split; [intros; constructor|reflexivity]. }
    cbn [is_utf8_fuel]. remember (b0 :: l) as bs eqn:Ebs.
    assert (bytes_okb bs = true) as HBb by (apply bytes_okb_Forall; exact HB).
    destruct (decode_utf8 bs) as [c n|] eqn:D.
    + apply decode_sound_complete_proof in D; [|exact HBb].
      destruct D as (s & r & Es & W & _ & Ln).
      rewrite <- Ln, Nat2Z.id, Es, skipn_len_app.
      pose proof (WF_seq_nonempty s W) as NE.
      assert (length r <= f)%nat as Lr.
      { rewrite Es, app_length in L. lia. }
      assert (Forall byte r) as HBr by (rewrite Es in HB; exact (Forall_app_r _ _ _ HB)).
      destruct (IH r Lr HBr) as (b & Eb & Iff). exists b. split; [exact Eb|].
      rewrite Iff. split.
      * intros Wr. apply WFS_app; assumption.
      * intros Wsr. inversion Wsr as [E0|s' r' W' Wr' E'].
        { destruct s; [simpl in NE; lia|discriminate]. }
        destruct (WF_seq_prefix_unique s' r' s r W' W E') as [_ Er]. rewrite <- Er. exact Wr'.
    + exists false. split; [reflexivity|]. split; [discriminate|].
      intros Wbs. exfalso. rewrite Ebs in Wbs.
      inversion Wbs as [|s r W Wr E]. rewrite <- Ebs in E.
      apply (proj1 (decode_reject_iff bs HBb) D s r (eq_sym E) W).
Qed.

Theorem is_utf8_iff_proof bs : bytes_okb bs = true ->
  is_utf8 bs <> None /\ (is_utf8 bs = Some true <-> WellFormed bs).
Proof.
  intros HB. apply bytes_okb_Forall in HB.
  destruct (is_utf8_fuel_correct (length bs) bs (Nat.le_refl _) HB) as (b & Eb & Iff).
  unfold is_utf8. rewrite Eb. split; [discriminate|].
  rewrite <- Iff. split; [intros E; congruence|intros ->; reflexivity].
Qed.

Lemma is_utf8b_iff bs : bytes_okb bs = true -> (is_utf8b bs = true <-> WellFormed bs).
Proof.
  intros HB. destruct (is_utf8_iff_proof bs HB) as [NN Iff]. unfold is_utf8b.
  destruct (is_utf8 bs) as [[|]|]; rewrite <- Iff; split; intros; try congruence; discriminate.
Qed.

(* ------------------------------------------------------------ the iterator *)
Definition item_ok (it : Z * list Z) : Prop := WF_seq (snd it) /\ scalar_of (snd it) = fst it.

Lemma iter_is_utf8 : forall fuel bs,
  is_utf8_fuel fuel bs = match iter_utf8 fuel bs with IterOk _ => Some true | IterBad _ => Some false | IterFuel => None end.
Proof.
  induction fuel as [|f IH]; intros bs; destruct bs as [|b0 l]; try reflexivity.
  cbn [is_utf8_fuel iter_utf8]. destruct (decode_utf8 (b0 :: l)) as [c n|]; [|reflexivity].
  rewrite IH. destruct (iter_utf8 f (skipn (Z.to_nat n) (b0 :: l))); reflexivity.
Qed.

Lemma iter_utf8_correct : forall fuel bs, (length bs <= fuel)%nat -> Forall byte bs ->
  match iter_utf8 fuel bs with
  | IterOk items => concat (map snd items) = bs /\ Forall item_ok items
  | IterBad items => exists rest, bs = concat (map snd items) ++ rest /\ Forall item_ok items /\
                                  rest <> [] /\ forall s r, rest = s ++ r -> ~ WF_seq s
  | IterFuel => False
  end.
Proof.
  induction fuel as [|f IH]; intros bs L HB.
  - destruct bs; [|simpl in L; lia]. simpl. auto.
  - destruct bs as [|b0 l]; [simpl; auto|].
    cbn [iter_utf8]. remember (b0 :: l) as bs eqn:Ebs.
    assert (bytes_okb bs = true) as HBb by (apply bytes_okb_Forall; exact HB).
    destruct (decode_utf8 bs) as [c n|] eqn:D.
    + apply decode_sound_complete_proof in D; [|exact HBb].
      destruct D as (s & r & Es & W & Ec & Ln).
      rewrite <- Ln, Nat2Z.id, Es, skipn_len_app, firstn_len_app.
      pose proof (WF_seq_nonempty s W) as NE.
      assert (length r <= f)%nat as Lr by (rewrite Es, app_length in L; lia).
      assert (Forall byte r) as HBr by (rewrite Es in HB; exact (Forall_app_r _ _ _ HB)).
      specialize (IH r Lr HBr). destruct (iter_utf8 f r) as [items|items|].
      * destruct IH as [C F]. split; [simpl; rewrite C; reflexivity|].
        constructor; [split; assumption|exact F].
      * destruct IH as (rest & C & F & NE' & Bad). exists rest. split; [simpl; rewrite <- app_assoc, <- C; reflexivity|].
        split; [constructor; [split; assumption|exact F]|]. split; assumption.
      * exact IH.
    + exists bs. split; [reflexivity|]. split; [constructor|]. split; [rewrite Ebs; discriminate|].
      intros s r E W. exact (proj1 (decode_reject_iff bs HBb) D s r E W).
Qed.

Theorem iterator_partition_proof bs : bytes_okb bs = true ->
  match iterate_utf8 bs with
  | IterOk items => concat (map snd items) = bs /\ Forall item_ok items
  | IterBad items => exists rest, bs = concat (map snd items) ++ rest /\ Forall item_ok items /\
                                  rest <> [] /\ forall s r, rest = s ++ r -> ~ WF_seq s
  | IterFuel => False
  end.
Proof. intros HB. apply iter_utf8_correct; [apply Nat.le_refl|apply bytes_okb_Forall; exact HB]. Qed.

Lemma iterate_ok_iff bs : bytes_okb bs = true -> ((exists items, iterate_utf8 bs = IterOk items) <-> WellFormed bs).
Proof.
  intros HB. rewrite <- (proj2 (is_utf8_iff_proof bs HB)). unfold is_utf8, iterate_utf8. rewrite iter_is_utf8.
  destruct (iter_utf8 (length bs) bs); split; intros H; try discriminate; try (destruct H; discriminate); eauto.
Qed.

(* ------------------------------------------------------------ Table 3-6: the encoding form *)
Lemma encode_wf c : is_scalar c -> WF_seq (utf8_encode c) /\ scalar_of (utf8_encode c) = c.
Proof.
  unfold is_scalar, utf8_encode. intros S.
  destruct (c <? 128) eqn:E1.
  { split; [apply WF_1; unfold rng; lia|reflexivity]. }
  destruct (c <? 2048) eqn:E2.
  { split; [apply WF_2; unfold rng; lia|unfold scalar_of; lia]. }
  destruct (c <? 65536) eqn:E3.
  { split; [|unfold scalar_of; lia].
    assert (c / 4096 = 0 \/ 1 <= c / 4096 <= 12 \/ c / 4096 = 13 \/ 14 <= c / 4096 <= 15) as [K|[K|[K|K]]] by lia.
    - apply WF_3a; unfold rng; lia.
    - apply WF_3b; unfold rng; lia.
    - apply WF_3c; unfold rng; lia.
    - apply WF_3d; unfold rng; lia. }
  split; [|unfold scalar_of; lia].
  assert (c / 262144 = 0 \/ 1 <= c / 262144 <= 3 \/ c / 262144 = 4) as [K|[K|K]] by lia.
  - apply WF_4a; unfold rng; lia.
  - apply WF_4b; unfold rng; lia.
  - apply WF_4c; unfold rng; lia.
Qed.

Lemma wf_encode s : WF_seq s -> is_scalar (scalar_of s) /\ utf8_encode (scalar_of s) = s.
Proof.
  intros W. unfold is_scalar, utf8_encode.
  inversion W; subst; unfold rng in *; unfold scalar_of.
  - split; [lia|]. destruct (b0 <? 128) eqn:E; [reflexivity|lia].
  - split; [lia|].
    destruct ((b0 - 192) * 64 + (b1 - 128) <? 128) eqn:E1; [lia|].
    destruct ((b0 - 192) * 64 + (b1 - 128) <? 2048) eqn:E2; [|lia].
    f_equal; [lia|]. f_equal. lia.
  - split; [lia|].
    destruct ((224 - 224) * 4096 + (b1 - 128) * 64 + (b2 - 128) <? 128) eqn:E1; [lia|].
    destruct ((224 - 224) * 4096 + (b1 - 128) * 64 + (b2 - 128) <? 2048) eqn:E2; [lia|].
    destruct ((224 - 224) * 4096 + (b1 - 128) * 64 + (b2 - 128) <? 65536) eqn:E3; [|lia].
    f_equal; [lia|]. f_equal; [lia|]. f_equal. lia.
  - split; [lia|].
    destruct ((b0 - 224) * 4096 + (b1 - 128) * 64 + (b2 - 128) <? 128) eqn:E1; [lia|].
    destruct ((b0 - 224) * 4096 + (b1 - 128) * 64 + (b2 - 128) <? 2048) eqn:E2; [lia|].
    destruct ((b0 - 224) * 4096 + (b1 - 128) * 64 + (b2 - 128) <? 65536) eqn:E3; [|lia].
    f_equal; [lia|]. f_equal; [lia|]. f_equal. lia.
  - split; [lia|].
    destruct ((237 - 224) * 4096 + (b1 - 128) * 64 + (b2 - 128) <? 128) eqn:E1; [lia|].
    destruct ((237 - 224) * 4096 + (b1 - 128) * 64 + (b2 - 128) <? 2048) eqn:E2; [lia|].
    destruct ((237 - 224) * 4096 + (b1 - 128) * 64 + (b2 - 128) <? 65536) eqn:E3; [|lia].
    f_equal; [lia|]. f_equal; [lia|]. f_equal. lia.
  - split; [lia|].
    destruct ((b0 - 224) * 4096 + (b1 - 128) * 64 + (b2 - 128) <? 128) eqn:E1; [lia|].
    destruct ((b0 - 224) * 4096 + (b1 - 128) * 64 + (b2 - 128) <? 2048) eqn:E2; [lia|].
    destruct ((b0 - 224) * 4096 + (b1 - 128) * 64 + (b2 - 128) <? 65536) eqn:E3; [|lia].
    f_equal; [lia|]. f_equal; [lia|]. f_equal. lia.
  - split; [lia|].
    destruct ((240 - 240) * 262144 + (b1 - 128) * 4096 + (b2 - 128) * 64 + (b3 - 128) <? 128) eqn:E1; [lia|].
    destruct ((240 - 240) * 262144 + (b1 - 128) * 4096 + (b2 - 128) * 64 + (b3 - 128) <? 2048) eqn:E2; [lia|].
    destruct ((240 - 240) * 262144 + (b1 - 128) * 4096 + (b2 - 128) * 64 + (b3 - 128) <? 65536) eqn:E3; [lia|].
    f_equal; [lia|]. f_equal; [lia|]. f_equal; [lia|]. f_equal. lia.
  - split; [lia|].
    destruct ((b0 - 240) * 262144 + (b1 - 128) * 4096 + (b2 - 128) * 64 + (b3 - 128) <? 128) eqn:E1; [lia|].
    destruct ((b0 - 240) * 262144 + (b1 - 128) * 4096 + (b2 - 128) * 64 + (b3 - 128) <? 2048) eqn:E2; [lia|].
    destruct ((b0 - 240) * 262144 + (b1 - 128) * 4096 + (b2 - 128) * 64 + (b3 - 128) <? 65536) eqn:E3; [lia|].
    f_equal; [lia|]. f_equal; [lia|]. f_equal; [lia|]. f_equal. lia.
  - split; [lia|].
    destruct ((244 - 240) * 262144 + (b1 - 128) * 4096 + (b2 - 128) * 64 + (b3 - 128) <? 128) eqn:E1; [lia|].
    destruct ((244 - 240) * 262144 + (b1 - 128) * 4096 + (b2 - 128) * 64 + (b3 - 128) <? 2048) eqn:E2; [lia|].
    destruct ((244 - 240) * 262144 + (b1 - 128) * 4096 + (b2 - 128) * 64 + (b3 - 128) <? 65536) eqn:E3; [lia|].
    f_equal; [lia|]. f_equal; [lia|]. f_equal; [lia|]. f_equal. lia.
Qed.

Lemma WF_seq_bytes s : WF_seq s -> Forall byte s.
Proof. intros W. inversion W; subst; unfold rng in *; repeat constructor; unfold byte; lia. Qed.

Theorem decode_encode_proof c rest : is_scalar c -> bytes_okb rest = true ->
  decode_utf8 (utf8_encode c ++ rest) = Decoded c (Z.of_nat (length (utf8_encode c))).
Proof.
  intros S HB. destruct (encode_wf c S) as [W E].
  apply decode_sound_complete_proof.
  - rewrite bytes_okb_app, HB, andb_true_r. apply bytes_okb_Forall. apply WF_seq_bytes. exact W.
  - exists (utf8_encode c), rest. auto.
Qed.

(* every value DecodeUTF8 returns is a Unicode scalar value, encoded in its shortest form *)
Theorem decode_scalar_proof bs c n : bytes_okb bs = true -> decode_utf8 bs = Decoded c n ->
  is_scalar c /\ firstn (Z.to_nat n) bs = utf8_encode c.
Proof.
  intros HB D. apply decode_sound_complete_proof in D; [|exact HB].
  destruct D as (s & r & Es & W & Ec & Ln). destruct (wf_encode s W) as [S E].
  rewrite <- Ec. split; [exact S|]. rewrite <- Ln, Nat2Z.id, Es, firstn_len_app. symmetry. exact E.
Qed.

(* ------------------------------------------------------------ remove_invalid_utf8 *)
Lemma split_at_bytes d : forall bs cur, Forall byte bs -> Forall byte cur ->
  Forall (Forall byte) (fst (split_at d bs cur)) /\ Forall byte (snd (split_at d bs cur)).
Proof.
  induction bs as [|b r IH]; intros cur HB HC.
  - simpl. split; [constructor|]. apply Forall_rev. exact HC.
  - inversion HB as [|? ? Hb Hr]; subst. simpl. destruct (b =? d).
    + destruct (IH [] Hr (Forall_nil _)) as [A B]. destruct (split_at d r []) as [rs t]. simpl in *.
      split; [constructor; [apply Forall_rev; exact HC|exact A]|exact B].
    + apply IH; [exact Hr|constructor; assumption].
Qed.

Lemma records_nocr_bytes d bs : Forall byte bs -> Forall (Forall byte) (records d false bs).
Proof.
  intros HB. unfold records. pose proof (split_at_bytes d bs [] HB (Forall_nil _)) as [A B].
  destruct (split_at d bs []) as [rs t]. simpl in *. rewrite map_id. apply Forall_app. split; [exact A|].
  destruct t; [constructor|]. constructor; [exact B|constructor].
Qed.

Theorem remove_invalid_utf8_proof input : bytes_okb input = true ->
  remove_invalid_utf8 input = unrecords 10 (filter is_utf8b (records 10 false input)) /\
  forall l, In l (records 10 false input) -> (is_utf8b l = true <-> WellFormed l).
Proof.
  intros HB. split; [reflexivity|]. intros l Hin.
  apply is_utf8b_iff. apply bytes_okb_Forall.
  apply bytes_okb_Forall in HB. pose proof (records_nocr_bytes 10 input HB) as F.
  rewrite Forall_forall in F. exact (F l Hin).
Qed.

Theorem window_composite_proof b0 b1 b2 b3 rest : byte b0 -> byte b1 -> byte b2 -> byte b3 ->
  decode_utf8 [b0; b1; b2] = compose3 (decode_utf8 [b0; b1; 128]) b2 /\
  decode_utf8 [b0; b1; b2; b3] = compose4 (decode_utf8 [b0; b1; 128; 128]) b2 b3 /\
  decode_utf8 (b0 :: b1 :: b2 :: b3 :: rest) = decode_utf8 [b0; b1; b2; b3].
Proof.
  intros. split; [apply decode3_compose; assumption|]. split; [apply decode4_compose; assumption|apply decode_first4].
Qed.

(* ------------------------------------------------------------ well-formed = encodings of scalar-value sequences *)
Theorem wellformed_iff_scalar_sequence_proof bs :
  WellFormed bs <-> exists cps, Forall is_scalar cps /\ bs = concat (map utf8_encode cps).
Proof.
  split.
  - induction 1 as [|s r W Wr IH].
    + exists []. split; [constructor|reflexivity].
    + destruct IH as (cps & F & E). destruct (wf_encode s W) as [S Es].
      exists (scalar_of s :: cps). split; [constructor; assumption|]. simpl. rewrite Es, <- E. reflexivity.
  - intros (cps & F & ->). induction F as [|c cps Sc F IH]; [constructor|].
    simpl. apply WFS_app; [apply encode_wf; exact Sc|exact IH].
Qed.

(* ------------------------------------------------------------ what remove_invalid_utf8 writes, read back *)
Lemma split_at_nodelim d : forall bs cur, no_delim d cur = true ->
  forallb (no_delim d) (fst (split_at d bs cur)) = true /\ no_delim d (snd (split_at d bs cur)) = true.
Proof.
  induction bs as [|b r IH]; intros cur HC.
  - simpl. split; [reflexivity|]. unfold no_delim in *. rewrite forallb_forall in *. intros x Hx. apply HC. apply in_rev. exact Hx.
  - simpl. destruct (b =? d) eqn:E.
    + destruct (IH [] eq_refl) as [A B]. destruct (split_at d r []) as [rs t]. simpl in *. split; [|exact B].
      rewrite A, andb_true_r. unfold no_delim in *. rewrite forallb_forall in *. intros x Hx. apply HC. apply in_rev. exact Hx.
    + apply IH. unfold no_delim in *. simpl. rewrite E, HC. reflexivity.
Qed.

Lemma records_nocr_nodelim d bs : forallb (no_delim d) (records d false bs) = true.
Proof.
  unfold records. destruct (split_at_nodelim d bs [] eq_refl) as [A B].
  destruct (split_at d bs []) as [rs t]. simpl in *. rewrite map_id, forallb_app, A.
  destruct t; [reflexivity|]. cbn [forallb andb]. rewrite B. reflexivity.
Qed.

Lemma forallb_filter {A} (p q : A -> bool) l : forallb p l = true -> forallb p (filter q l) = true.
Proof.
  induction l as [|x l IH]; intros H; [reflexivity|]. simpl in H. apply andb_true_iff in H. destruct H as [Hx Hl].
  simpl. destruct (q x); [simpl; rewrite Hx; apply IH; exact Hl|apply IH; exact Hl].
Qed.

Theorem remove_invalid_output_wellformed_proof input : bytes_okb input = true ->
  records 10 false (remove_invalid_utf8 input) = filter is_utf8b (records 10 false input) /\
  Forall WellFormed (records 10 false (remove_invalid_utf8 input)).
Proof.
  intros HB. destruct (remove_invalid_utf8_proof input HB) as [E Iff].
  assert (records 10 false (remove_invalid_utf8 input) = filter is_utf8b (records 10 false input)) as R.
  { rewrite E. apply records_unrecords. apply forallb_filter. apply records_nocr_nodelim. }
  split; [exact R|]. rewrite R. rewrite Forall_forall. intros l Hl. apply filter_In in Hl. destruct Hl as [Hin Hu].
  apply (Iff l Hin). exact Hu.
Qed.

(* ------------------------------------------------------------ stripping space bytes keeps a line well-formed *)
(* every byte util/spaces.cc calls a space is ASCII: it can never be part of a multi-byte sequence *)
Lemma space_bytes_ascii : forallb (fun b => (0 <=? b) && (b <? 128)) space_bytes = true.
Proof. vm_compute. reflexivity. Qed.

Lemma is_space_byte_ascii b : is_space_byte b = true -> 0 <= b < 128.
Proof.
  unfold is_space_byte. rewrite existsb_exists. intros (x & Hin & E). apply Z.eqb_eq in E. subst x.
  pose proof (proj1 (forallb_forall _ _) space_bytes_ascii b Hin) as A. lia.
Qed.

Lemma WF_seq_single_or_trail s : WF_seq s -> (exists b0, s = [b0]) \/ 128 <= last s 0.
Proof. intros W. destruct W; unfold rng in *; [left; eauto|right; cbn [last]; lia ..]. Qed.

Lemma WF_seq_last_ascii s b l : WF_seq s -> s = l ++ [b] -> b < 128 -> l = [].
Proof.
  intros W E Hb. destruct (WF_seq_single_or_trail s W) as [[b0 E0]|L].
  - rewrite E0 in E. destruct l as [|x l]; [reflexivity|]. destruct l; discriminate.
  - rewrite E, last_last in L. lia.
Qed.

Lemma wellformed_drop_first b r : WellFormed (b :: r) -> b < 128 -> WellFormed r.
Proof.
  intros W Hb. inversion W as [|s r' Ws Wr E].
  destruct Ws; unfold rng in *; simpl in E; injection E; intros; subst; try lia. exact Wr.
Qed.

Lemma wellformed_drop_last : forall x, WellFormed x -> forall l b, x = l ++ [b] -> b < 128 -> WellFormed l.
Proof.
  induction 1 as [|s r Ws Wr IH]; intros l b E Hb.
  - destruct l; discriminate.
  - destruct r as [|r0 rr] using rev_ind.
    + rewrite app_nil_r in E. rewrite (WF_seq_last_ascii s b l Ws E Hb). constructor.
    + clear IHrr. rewrite app_assoc in E. apply app_inj_tail in E. destruct E as [E1 E2]. subst.
      apply WFS_app; [exact Ws|]. apply (IH rr b eq_refl Hb).
Qed.

Lemma drop_spaces_wellformed l : WellFormed l -> WellFormed (drop_spaces l).
Proof.
  induction l as [|b r IH]; intros W; [exact W|]. cbn [drop_spaces].
  destruct (is_space_byte b) eqn:S; [|exact W].
  apply IH. apply (wellformed_drop_first b r W). apply is_space_byte_ascii in S. lia.
Qed.

Lemma drop_spaces_rev_wellformed : forall m, WellFormed (rev m) -> WellFormed (rev (drop_spaces m)).
Proof.
  induction m as [|b r IH]; intros W; [exact W|]. cbn [drop_spaces].
  destruct (is_space_byte b) eqn:S; [|exact W].
  apply IH. cbn [rev] in W. apply (wellformed_drop_last _ W (rev r) b eq_refl). apply is_space_byte_ascii in S. lia.
Qed.

Theorem strip_spaces_wellformed_proof l : WellFormed l -> WellFormed (strip_spaces l).
Proof.
  intros W. unfold strip_spaces. apply drop_spaces_rev_wellformed. rewrite rev_involutive. apply drop_spaces_wellformed. exact W.
Qed.
