(* Executable model of util/utf8.hh (IsTrailByte, IsValidCodepoint, DecodeUTF8,
   DecodeUTF8Iterator) and util/utf8.cc (IsUTF8), branch for branch, with every
   mask, shift, bound and returned length taken from the regenerated
   Gen/Src_utf8.v; plus the model of preprocess/remove_invalid_utf8_main.cc and
   the independent specification: Table 3-7 of the Unicode Standard
   ("Well-Formed UTF-8 Byte Sequences") and Table 3-6 (bit distribution).
   No proofs here. *)
From PP Require Export Base.Bytes Base.Lines Gen.Src_utf8.
Local Open Scope Z_scope.

(* ---------------------------------------------------------------- model *)

(* static_cast<signed char>(x) for a byte value *)
Definition signed_char (b : Z) : Z := if b <? 128 then b else b - 256.

(* inline bool IsTrailByte(char x) { return static_cast<signed char>(x) < -0x40; } *)
Definition is_trail (b : Z) : bool := signed_char b <? trail_bound.

(* (static_cast<uint32>(c) < 0xD800) || (c >= 0xE000 && c <= 0x10FFFF) *)
Definition is_valid_cp (c : Z) : bool := (c <? sur_lo) || ((sur_hi <=? c) && (c <=? cp_max)).

(* begin[i] ; only evaluated under a guard len >= i+1 *)
Definition byte_at (i : nat) (bs : list Z) : Z := nth i bs 0.

(* len >= k, looking at no more than k cells *)
Fixpoint has_len (k : nat) (bs : list Z) : bool :=
  match k with
  | O => true
  | S k' => match bs with [] => false | _ :: r => has_len k' r end
  end.
Definition len_ge (k : Z) (bs : list Z) : bool := has_len (Z.to_nat k) bs.

Definition cp2 (b0 b1 : Z) : Z :=
  Z.lor (Z.shiftl (Z.land b0 pay2_mask) sh2_0) (Z.land b1 tr2_1_mask).
Definition cp3 (b0 b1 b2 : Z) : Z :=
  Z.lor (Z.lor (Z.shiftl (Z.land b0 pay3_mask) sh3_0) (Z.shiftl (Z.land b1 tr3_1_mask) sh3_1))
        (Z.land b2 tr3_2_mask).
Definition cp4 (b0 b1 b2 b3 : Z) : Z :=
  Z.lor (Z.lor (Z.lor (Z.shiftl (Z.land b0 pay4_mask) sh4_0) (Z.shiftl (Z.land b1 tr4_1_mask) sh4_1))
               (Z.shiftl (Z.land b2 tr4_2_mask) sh4_2))
        (Z.land b3 tr4_3_mask).

Inductive decres := Decoded (cp : Z) (mblen : Z) | NotUTF8.

(* char32 DecodeUTF8(const char *begin, const char *end, size_t *mblen); the C++
   presumes end > begin, the empty buffer is given the exception here. *)
Definition decode_utf8 (bs : list Z) : decres :=
  match bs with
  | [] => NotUTF8
  | b0 :: _ =>
    let b1 := byte_at 1 bs in
    let b2 := byte_at 2 bs in
    let b3 := byte_at 3 bs in
    if b0 <? ascii_bound then Decoded b0 mblen1
    else if len_ge len2 bs && (Z.land b0 lead2_mask =? lead2_val) then
      let cp := cp2 b0 b1 in
      if is_trail b1 && (min2 <=? cp) && is_valid_cp cp then Decoded cp mblen2 else NotUTF8
    else if len_ge len3 bs && (Z.land b0 lead3_mask =? lead3_val) then
      let cp := cp3 b0 b1 b2 in
      if is_trail b1 && is_trail b2 && (min3 <=? cp) && is_valid_cp cp then Decoded cp mblen3 else NotUTF8
    else if len_ge len4 bs && (Z.land b0 lead4_mask =? lead4_val) then
      let cp := cp4 b0 b1 b2 b3 in
      if is_trail b1 && is_trail b2 && is_trail b3 && (min4 <=? cp) && is_valid_cp cp then Decoded cp mblen4 else NotUTF8
    else NotUTF8
  end.

(* DecodeUTF8Iterator driven to the end (range-for over DecodeUTF8Range): the
   list of (code point, UTF8() piece) visited; IterBad = NotUTF8Exception after
   the listed items; IterFuel is the distinguished out-of-fuel result. *)
Inductive iterres := IterOk (items : list (Z * list Z)) | IterBad (items : list (Z * list Z)) | IterFuel.

Fixpoint iter_utf8 (fuel : nat) (bs : list Z) : iterres :=
  match bs with
  | [] => IterOk []
  | _ :: _ =>
    match fuel with
    | O => IterFuel
    | S f =>
      match decode_utf8 bs with
      | NotUTF8 => IterBad []
      | Decoded cp n =>
        let k := Z.to_nat n in
        match iter_utf8 f (skipn k bs) with
        | IterOk l => IterOk ((cp, firstn k bs) :: l)
        | IterBad l => IterBad ((cp, firstn k bs) :: l)
        | IterFuel => IterFuel
        end
      end
    end
  end.
Definition iterate_utf8 (bs : list Z) : iterres := iter_utf8 (length bs) bs.

(* bool IsUTF8(const StringPiece &): the same walk, discarding the characters.
   None = out of fuel (proved unreachable). *)
Fixpoint is_utf8_fuel (fuel : nat) (bs : list Z) : option bool :=
  match bs with
  | [] => Some true
  | _ :: _ =>
    match fuel with
    | O => None
    | S f =>
      match decode_utf8 bs with
      | NotUTF8 => Some false
      | Decoded _ n => is_utf8_fuel f (skipn (Z.to_nat n) bs)
      end
    end
  end.
Definition is_utf8 (bs : list Z) : option bool := is_utf8_fuel (length bs) bs.
Definition is_utf8b (bs : list Z) : bool := match is_utf8 bs with Some true => true | _ => false end.

(* preprocess/remove_invalid_utf8_main.cc:
     while (in.ReadLineOrEOF(line)) if (util::IsUTF8(line)) out << line << '\n';
   The reader is the C02 specification function [records] with the delimiter
   and CR flag this tool passes (regenerated: Src_utf8.v riu_delim / riu_strip_cr). *)
Definition remove_invalid_utf8 (input : list Z) : list Z :=
  unrecords riu_delim (filter is_utf8b (records riu_delim riu_strip_cr input)).

(* commoncrawl_dedupe's StripSpaces: bytes with kSpaces[b] (regenerated from util/spaces.cc) are removed from both ends *)
Definition is_space_byte (b : Z) : bool := existsb (Z.eqb b) space_bytes.
Fixpoint drop_spaces (l : list Z) : list Z :=
  match l with
  | b :: r => if is_space_byte b then drop_spaces r else l
  | [] => []
  end.
Definition strip_spaces (l : list Z) : list Z := rev (drop_spaces (rev (drop_spaces l))).

(* -------------------------------------------------- independent specification *)

(* Unicode 15, Table 3-7.  Well-Formed UTF-8 Byte Sequences (one row each) *)
Definition rng (lo hi b : Z) : Prop := lo <= b <= hi.
Inductive WF_seq : list Z -> Prop :=
| WF_1  b0          : rng 0x00 0x7F b0 -> WF_seq [b0]
| WF_2  b0 b1       : rng 0xC2 0xDF b0 -> rng 0x80 0xBF b1 -> WF_seq [b0; b1]
| WF_3a b0 b1 b2    : b0 = 0xE0 -> rng 0xA0 0xBF b1 -> rng 0x80 0xBF b2 -> WF_seq [b0; b1; b2]
| WF_3b b0 b1 b2    : rng 0xE1 0xEC b0 -> rng 0x80 0xBF b1 -> rng 0x80 0xBF b2 -> WF_seq [b0; b1; b2]
| WF_3c b0 b1 b2    : b0 = 0xED -> rng 0x80 0x9F b1 -> rng 0x80 0xBF b2 -> WF_seq [b0; b1; b2]
| WF_3d b0 b1 b2    : rng 0xEE 0xEF b0 -> rng 0x80 0xBF b1 -> rng 0x80 0xBF b2 -> WF_seq [b0; b1; b2]
| WF_4a b0 b1 b2 b3 : b0 = 0xF0 -> rng 0x90 0xBF b1 -> rng 0x80 0xBF b2 -> rng 0x80 0xBF b3 -> WF_seq [b0; b1; b2; b3]
| WF_4b b0 b1 b2 b3 : rng 0xF1 0xF3 b0 -> rng 0x80 0xBF b1 -> rng 0x80 0xBF b2 -> rng 0x80 0xBF b3 -> WF_seq [b0; b1; b2; b3]
| WF_4c b0 b1 b2 b3 : b0 = 0xF4 -> rng 0x80 0x8F b1 -> rng 0x80 0xBF b2 -> rng 0x80 0xBF b3 -> WF_seq [b0; b1; b2; b3].

(* a well-formed string is a concatenation of such sequences *)
Inductive WellFormed : list Z -> Prop :=
| WFS_nil : WellFormed []
| WFS_app s r : WF_seq s -> WellFormed r -> WellFormed (s ++ r).

(* the scalar value a sequence stands for (Table 3-6, arithmetic form) *)
Definition scalar_of (s : list Z) : Z :=
  match s with
  | [b0] => b0
  | [b0; b1] => (b0 - 0xC0) * 64 + (b1 - 0x80)
  | [b0; b1; b2] => (b0 - 0xE0) * 4096 + (b1 - 0x80) * 64 + (b2 - 0x80)
  | [b0; b1; b2; b3] => (b0 - 0xF0) * 262144 + (b1 - 0x80) * 4096 + (b2 - 0x80) * 64 + (b3 - 0x80)
  | _ => -1
  end.

(* Unicode scalar values (D76) and the encoding form UTF-8 (D92 / Table 3-6) *)
Definition is_scalar (c : Z) : Prop := 0 <= c <= 0xD7FF \/ 0xE000 <= c <= 0x10FFFF.
Definition utf8_encode (c : Z) : list Z :=
  if c <? 0x80 then [c]
  else if c <? 0x800 then [0xC0 + c / 64; 0x80 + c mod 64]
  else if c <? 0x10000 then [0xE0 + c / 4096; 0x80 + (c / 64) mod 64; 0x80 + c mod 64]
  else [0xF0 + c / 262144; 0x80 + (c / 4096) mod 64; 0x80 + (c / 64) mod 64; 0x80 + c mod 64].

(* boolean form of Table 3-7 on the first two bytes: which sequence length the
   pair (b0,b1) can start (0 = none); used by the finite sweep and by the
   native window sweep of the harness *)
Definition in_rng (lo hi b : Z) : bool := (lo <=? b) && (b <=? hi).
Definition table37_len (b0 b1 : Z) : Z :=
  if in_rng 0x00 0x7F b0 then 1
  else if in_rng 0xC2 0xDF b0 && in_rng 0x80 0xBF b1 then 2
  else if ((b0 =? 0xE0) && in_rng 0xA0 0xBF b1) || (in_rng 0xE1 0xEC b0 && in_rng 0x80 0xBF b1)
       || ((b0 =? 0xED) && in_rng 0x80 0x9F b1) || (in_rng 0xEE 0xEF b0 && in_rng 0x80 0xBF b1) then 3
  else if ((b0 =? 0xF0) && in_rng 0x90 0xBF b1) || (in_rng 0xF1 0xF3 b0 && in_rng 0x80 0xBF b1)
       || ((b0 =? 0xF4) && in_rng 0x80 0x8F b1) then 4
  else 0.
Definition trail37 (b : Z) : bool := in_rng 0x80 0xBF b.

(* ------------------------------------------------ window composition (harness)
   The answer for a window b0 b1 b2 b3 ... is determined by the answer for
   b0 b1 0x80 0x80 (one row of a 65,536-entry table) and the trail tests on
   b2, b3 (theorem C12_window_composite).  [pair_row] is what the driver prints
   for the native exhaustive sweeps of harness/hx_utf8. *)
Definition pair_row (b0 b1 : Z) : decres * decres * decres :=
  (decode_utf8 [b0; b1], decode_utf8 [b0; b1; 128], decode_utf8 [b0; b1; 128; 128]).

Definition compose3 (row3 : decres) (b2 : Z) : decres :=
  match row3 with
  | Decoded cp n => if n =? 3 then (if trail37 b2 then Decoded (cp + (b2 - 128)) n else NotUTF8) else row3
  | NotUTF8 => NotUTF8
  end.
Definition compose4 (row4 : decres) (b2 b3 : Z) : decres :=
  match row4 with
  | Decoded cp n =>
    if n =? 4 then (if trail37 b2 && trail37 b3 then Decoded (cp + (b2 - 128) * 64 + (b3 - 128)) n else NotUTF8)
    else if n =? 3 then (if trail37 b2 then Decoded (cp + (b2 - 128)) n else NotUTF8)
    else row4
  | NotUTF8 => NotUTF8
  end.
