(* Labelled transition systems with an executable step function.
   [step s l = None] means label l is not enabled in s. *)
From Coq Require Export List Arith Lia Bool.
Export ListNotations.

Section LTS.
  Variables (S L : Type).
  Variable step : S -> L -> option S.

  Inductive reachable (init : S) : S -> Prop :=
  | reach_init : reachable init init
  | reach_step : forall s l s', reachable init s -> step s l = Some s' -> reachable init s'.

  Fixpoint run (s : S) (ls : list L) : option S :=
    match ls with
    | [] => Some s
    | l :: r => match step s l with Some s' => run s' r | None => None end
    end.

  Lemma run_app s a b : run s (a ++ b) = match run s a with Some s' => run s' b | None => None end.
  Proof.
    revert s; induction a as [|l a IH]; intros s; simpl; [reflexivity|].
    destruct (step s l); [apply IH|reflexivity].
  Qed.

  Lemma reachable_run init s ls s' : reachable init s -> run s ls = Some s' -> reachable init s'.
  Proof.
    revert s; induction ls as [|l r IH]; intros s Hr H; simpl in H.
    - inversion H; subst; exact Hr.
    - destruct (step s l) as [s1|] eqn:E; [|discriminate].
      eapply IH; [|exact H]. eapply reach_step; eauto.
  Qed.

  Lemma reachable_iff_run init s : reachable init s <-> exists ls, run init ls = Some s.
  Proof.
    split.
    - induction 1 as [|s l s' Hr [ls IH] Hs].
      + exists []; reflexivity.
      + exists (ls ++ [l]). rewrite run_app, IH. simpl. rewrite Hs. reflexivity.
    - intros [ls H]. eapply reachable_run; [apply reach_init|exact H].
  Qed.

  (* invariant rule *)
  Lemma invariant_reachable (I : S -> Prop) init :
    I init -> (forall s l s', I s -> step s l = Some s' -> I s') ->
    forall s, reachable init s -> I s.
  Proof. intros H0 Hs s Hr; induction Hr; eauto. Qed.

  (* a nat measure that strictly decreases on every step bounds every run *)
  Lemma measure_bounds_run (m : S -> nat) :
    (forall s l s', step s l = Some s' -> m s' < m s) ->
    forall ls s s', run s ls = Some s' -> length ls + m s' <= m s.
  Proof.
    intros Hm; induction ls as [|l r IH]; intros s s' H; simpl in H.
    - inversion H; subst; simpl; lia.
    - destruct (step s l) as [s1|] eqn:E; [|discriminate].
      specialize (IH _ _ H). specialize (Hm _ _ _ E). simpl. lia.
  Qed.
End LTS.

(* Post-yield transformer: after a step flagged by [is_post] (a semaphore post)
   the thread has to take one extra no-op step before its next real step -- the
   scheduling point the hook PREPROCESS_VERIF_SEM_POSTED provides right after
   sem_post.  It only adds stuttering: every state reachable in the transformed
   system projects to a state reachable in the original one, so invariants of
   [step] carry over. *)
Section PostYield.
  Variable S : Type.
  Variable step : S -> nat -> option S.
  Variable is_post : S -> nat -> bool.

  Definition py_pending (pend : list nat) (tid : nat) : bool := existsb (Nat.eqb tid) pend.

  Definition py_step (sp : S * list nat) (tid : nat) : option (S * list nat) :=
    let (s, pend) := sp in
    if py_pending pend tid then Some (s, filter (fun t => negb (Nat.eqb tid t)) pend)
    else match step s tid with
         | Some s' => Some (s', if is_post s tid then tid :: pend else pend)
         | None => None
         end.

  Lemma py_reachable_project init sp :
    reachable (S * list nat) nat py_step (init, []) sp -> reachable S nat step init (fst sp).
  Proof.
    intros H. remember (init, @nil nat) as i0. induction H as [|[s pend] tid [s' pend'] Hr IH Hs]; subst.
    - apply reach_init.
    - simpl in *.
      destruct (py_pending pend tid).
      + inversion Hs; subst. exact IH.
      + destruct (step s tid) as [s1|] eqn:E; [|discriminate].
        inversion Hs; subst. eapply reach_step; eauto.
  Qed.
End PostYield.

Arguments py_step {S} step is_post sp tid.
Arguments py_pending pend tid.
Arguments reachable {S L} step init _.
Arguments run {S L} step s ls.

(* function update on nat-indexed maps *)
Definition upd {A} (f : nat -> A) (k : nat) (v : A) : nat -> A :=
  fun x => if Nat.eqb x k then v else f x.

Lemma upd_same {A} (f : nat -> A) k v : upd f k v k = v.
Proof. unfold upd. rewrite Nat.eqb_refl. reflexivity. Qed.

Lemma upd_other {A} (f : nat -> A) k v x : x <> k -> upd f k v x = f x.
Proof. unfold upd. intros H. apply Nat.eqb_neq in H. rewrite H. reflexivity. Qed.
