(* Bytes are Z in [0,256); strings are list Z.  Machine-integer wrap helpers. *)
From Coq Require Export List ZArith Lia Bool.
Export ListNotations.
Local Open Scope Z_scope.

Definition byte_okb (b : Z) : bool := (0 <=? b) && (b <? 256).
Definition bytes_okb (bs : list Z) : bool := forallb byte_okb bs.

Lemma byte_okb_iff b : byte_okb b = true <-> 0 <= b < 256.
Proof. unfold byte_okb. rewrite andb_true_iff, Z.leb_le, Z.ltb_lt. tauto. Qed.

Lemma bytes_okb_cons b bs : bytes_okb (b :: bs) = true <-> (0 <= b < 256) /\ bytes_okb bs = true.
Proof. unfold bytes_okb; simpl. rewrite andb_true_iff, byte_okb_iff. tauto. Qed.

Lemma bytes_okb_app a b : bytes_okb (a ++ b) = bytes_okb a && bytes_okb b.
Proof. unfold bytes_okb. apply forallb_app. Qed.

(* two's-complement wrap of a C `int` (32 bit) as g++ implements it *)
Definition wrap32 (z : Z) : Z := (z + 2147483648) mod 4294967296 - 2147483648.
(* unsigned wraps *)
Definition u32 (z : Z) : Z := z mod 4294967296.
Definition u64 (z : Z) : Z := z mod 18446744073709551616.

Lemma wrap32_range z : -2147483648 <= wrap32 z < 2147483648.
Proof. unfold wrap32. pose proof (Z.mod_pos_bound (z + 2147483648) 4294967296). lia. Qed.

Lemma wrap32_congr z : exists k, wrap32 z = z + k * 4294967296.
Proof.
  unfold wrap32. exists (- ((z + 2147483648) / 4294967296)).
  pose proof (Z.div_mod (z + 2147483648) 4294967296). lia.
Qed.

Lemma wrap32_small z : -2147483648 <= z < 2147483648 -> wrap32 z = z.
Proof. intros H. unfold wrap32. rewrite Z.mod_small; lia. Qed.
