(* Specification-level view of "the records of a byte stream" (property C02):
   the input split at the delimiter; delimiter-terminated records lose one
   trailing CR when strip_cr is set; empty records are kept; a non-empty
   unterminated tail is a final record (never CR-stripped).  Every tool model
   is phrased over [records]; FilePiece is proved/tested to deliver exactly this. *)
From PP Require Export Base.Bytes.
Local Open Scope Z_scope.

Fixpoint split_at (d : Z) (bs : list Z) (cur : list Z) : list (list Z) * list Z :=
  match bs with
  | [] => ([], rev cur)
  | b :: r =>
    if b =? d then let (rs, t) := split_at d r [] in (rev cur :: rs, t)
    else split_at d r (b :: cur)
  end.

Definition strip_cr (l : list Z) : list Z :=
  match rev l with
  | 13 :: r => rev r
  | _ => l
  end.

Definition records (d : Z) (cr : bool) (bs : list Z) : list (list Z) :=
  let (rs, t) := split_at d bs [] in
  map (if cr then strip_cr else (fun x => x)) rs ++ (match t with [] => [] | _ => [t] end).

(* join records, each followed by the delimiter *)
Definition unrecords (d : Z) (rs : list (list Z)) : list Z :=
  flat_map (fun r => r ++ [d]) rs.

Definition no_delim (d : Z) (l : list Z) : bool := forallb (fun b => negb (b =? d)) l.

Lemma split_at_app_nodelim d l : no_delim d l = true ->
  forall cur rest, split_at d (l ++ rest) cur = split_at d rest (rev l ++ cur).
Proof.
  induction l as [|b l IH]; intros H cur rest; [reflexivity|].
  simpl in H. apply andb_true_iff in H. destruct H as [Hb Hl].
  simpl. destruct (b =? d) eqn:E; [discriminate|].
  rewrite IH by exact Hl. rewrite <- app_assoc. reflexivity.
Qed.

Lemma split_at_unrecords d rs : forallb (no_delim d) rs = true ->
  split_at d (unrecords d rs) [] = (rs, []).
Proof.
  induction rs as [|r rs IH]; intros H; [reflexivity|].
  simpl in H. apply andb_true_iff in H. destruct H as [Hr Hrs].
  unfold unrecords. simpl flat_map. rewrite <- app_assoc.
  rewrite split_at_app_nodelim by exact Hr. simpl.
  rewrite Z.eqb_refl. fold (unrecords d rs). rewrite IH by exact Hrs.
  rewrite app_nil_r, rev_involutive. reflexivity.
Qed.

(* records of a well-formed text (no record contains the delimiter), no CR stripping *)
Lemma records_unrecords d rs : forallb (no_delim d) rs = true ->
  records d false (unrecords d rs) = rs.
Proof.
  intros H. unfold records. rewrite split_at_unrecords by exact H.
  rewrite map_id, app_nil_r. reflexivity.
Qed.

(* (added for C07/C08) consecutive segments of a list with the given lengths *)
Fixpoint chunks {A} (ns : list nat) (l : list A) : list (list A) :=
  match ns with
  | [] => []
  | n :: r => firstn n l :: chunks r (skipn n l)
  end.
