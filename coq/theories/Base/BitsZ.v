(* Bit-level helpers over Z shared by the UTF-8 (C12) and Murmur (C14) proofs:
   `lor`/`lxor` of bit-disjoint numbers is `+`, masks are `mod`. *)
From Coq Require Import ZArith Lia Bool.
Local Open Scope Z_scope.

Lemma land_mul_pow2_small q y k : 0 <= k -> 0 <= y < 2 ^ k -> Z.land (q * 2 ^ k) y = 0.
Proof.
  intros Hk Hy. apply Z.bits_inj'. intros n Hn. rewrite Z.land_spec, Z.bits_0.
  destruct (Z.ltb_spec n k) as [L|L].
  - rewrite Z.mul_pow2_bits_low by lia. reflexivity.
  - destruct (Z.eq_dec y 0) as [->|NZ]; [rewrite Z.bits_0; apply andb_false_r|].
    rewrite (Z.bits_above_log2 y n); [apply andb_false_r|lia|].
    apply Z.log2_lt_pow2; [lia|]. eapply Z.lt_le_trans; [apply Hy|].
    apply Z.pow_le_mono_r; lia.
Qed.

Lemma lor_mul_pow2_add q y k : 0 <= k -> 0 <= y < 2 ^ k -> Z.lor (q * 2 ^ k) y = q * 2 ^ k + y.
Proof.
  intros Hk Hy. pose proof (land_mul_pow2_small q y k Hk Hy) as D.
  rewrite <- (Z.lxor_lor _ _ D). symmetry. apply Z.add_nocarry_lxor. exact D.
Qed.

Lemma lxor_mul_pow2_add q y k : 0 <= k -> 0 <= y < 2 ^ k -> Z.lxor (q * 2 ^ k) y = q * 2 ^ k + y.
Proof.
  intros Hk Hy. symmetry. apply Z.add_nocarry_lxor. apply land_mul_pow2_small; assumption.
Qed.

Lemma lor_small_mul_pow2_add q y k : 0 <= k -> 0 <= y < 2 ^ k -> Z.lor y (q * 2 ^ k) = y + q * 2 ^ k.
Proof. intros. rewrite Z.lor_comm, lor_mul_pow2_add by assumption. lia. Qed.

Lemma land_ones_mod a k : 0 <= k -> Z.land a (2 ^ k - 1) = a mod 2 ^ k.
Proof. intros Hk. rewrite <- Z.land_ones by exact Hk. f_equal. rewrite Z.ones_equiv. lia. Qed.

Lemma shiftl_mul a k : 0 <= k -> Z.shiftl a k = a * 2 ^ k.
Proof. intros. apply Z.shiftl_mul_pow2. assumption. Qed.

Lemma shiftr_div a k : 0 <= k -> Z.shiftr a k = a / 2 ^ k.
Proof. intros. apply Z.shiftr_div_pow2. assumption. Qed.
