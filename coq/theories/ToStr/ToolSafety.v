(* C20 -- the notion over which the FULL property is stated, and the part of it that is proved.

   Full property: every one of the 24 executables, on every invocation (option vector, bytes on
   standard input, contents of the files named on the command line), ends with exit status 0 or
   with a diagnosed error, performs no load or store outside a live object, uses no freed or
   uninitialised memory, and terminates; and the helper routines never write beyond the space
   they reserved.

   The first half needs a faithful model of each executable as a function from invocations to
   observable runs ([package_model]).  NO SUCH MODEL EXISTS in this development: the tool-level
   half is not proved for any model, it is sampled (sanitizers, valgrind, fault injection, see
   checks/C20.py).  The second half ([helper_half]) is proved below from the theorems of
   ToStringProofs.v; it is about the formatters and stream classes as modelled in ToStringDefs.v
   (x86-64/SSE2 branch of integer_to_string.cc only). *)
From PP Require Import ToStr.ToStringDefs ToStr.ToStringProofs.
Local Open Scope Z_scope.

Inductive executable :=
  | X_apply_case | X_b64filter | X_base64_number | X_cache | X_commoncrawl_dedupe | X_dedupe | X_docenc | X_foldfilter
  | X_gigaword_unwrap | X_idf | X_mmhsum | X_order_independent_hash | X_process_unicode | X_remove_invalid_utf8
  | X_remove_invalid_utf8_base64 | X_remove_long_lines | X_shard | X_simple_cleaning | X_substitute | X_subtract_lines
  | X_train_case | X_truecase | X_vocab | X_warc_parallel.

Record invocation := mkInv { i_args : list (list Z); i_stdin : list Z; i_files : list (list Z * list Z) }.

(* what an instrumented run can show *)
Inductive mem_event := OutOfBounds | UseAfterFree | UninitialisedUse.
Inductive run_end :=
  | EndOk                         (* exit status 0 *)
  | EndDiagnosed (status : Z)     (* non-zero exit or abort() after a message on stderr *)
  | EndCrash (signal : Z)         (* killed by SIGSEGV/SIGBUS/SIGFPE/... without a diagnosis *)
  | EndFuel.                      (* does not terminate *)
Record run := mkRun { r_end : run_end; r_mem : list mem_event }.

Definition run_safe (r : run) : Prop :=
  r_mem r = [] /\ match r_end r with EndOk | EndDiagnosed _ => True | EndCrash _ | EndFuel => False end.

Definition package_model := executable -> invocation -> run.

Definition tools_safe (m : package_model) : Prop := forall x i, run_safe (m x i).

(* the helper half: every formatter, for every argument value, stays inside its reservation (text and
   vector-store footprint); every reservation is within kToStringMaxBytes, which is within the buffers;
   hence for every sequence of stream operations the three stream classes never store outside their
   buffer / pass end_ (result [Some] / [TOk], never the out-of-bounds result) and lose nothing;
   table indices are inside the digit table *)
Definition helper_half : Prop :=
  (forall v, fits kBytes_u32 (fmt_u32 v)) /\
  (forall v, fits kBytes_u64 (fmt_u64 v)) /\
  (forall v, fits kBytes_i32 (fmt_i32 v)) /\
  (forall v, -9223372036854775808 <= v < 9223372036854775808 -> fits kBytes_i64 (fmt_i64 v)) /\
  (forall v, 0 <= v < 65536 -> fits kBytes_u16 (fmt_u16 v)) /\
  (forall v, -32768 <= v < 32768 -> fits kBytes_i16 (fmt_i16 v)) /\
  (forall p, fits kBytes_ptr (fmt_ptr p)) /\
  (forall b, fits kBytes_bool (fmt_bool b)) /\
  (forall d, dvalue_ok_double d = true -> fits kBytes_double (fmt_double d)) /\
  (forall d, dvalue_ok_float d = true -> fits kBytes_float (fmt_double d)) /\
  (kBytes_bool <= kToStringMaxBytes /\ kBytes_u16 <= kToStringMaxBytes /\ kBytes_i16 <= kToStringMaxBytes /\
   kBytes_u32 <= kToStringMaxBytes /\ kBytes_i32 <= kToStringMaxBytes /\ kBytes_u64 <= kToStringMaxBytes /\
   kBytes_i64 <= kToStringMaxBytes /\ kBytes_ptr <= kToStringMaxBytes /\ kBytes_double <= kToStringMaxBytes /\
   kBytes_float <= kToStringMaxBytes /\ 1 <= kToStringMaxBytes <= stream_cap /\
   kToStringMaxBytes <= Z.max block_queue_min kToStringMaxBytes) /\
  (forall cap kmax ops, 1 <= kmax <= cap -> Forall (sop_ok kmax) ops -> forall buf, zlen buf <= cap ->
     exists b w, s_run cap buf ops = Some (b, w) /\ zlen b <= cap /\ concat w ++ b = buf ++ flat_map sop_bytes ops) /\
  (forall cap kmax ops, 1 <= kmax <= cap -> Forall (sop_ok kmax) ops -> forall buf, zlen buf <= cap ->
     exists b w, t_run cap buf ops = TOk b w /\ zlen b <= cap /\ concat w ++ b = buf ++ flat_map sop_bytes ops /\
                 Forall (block_ok cap) (w ++ t_destroy b) /\ concat (w ++ t_destroy b) = buf ++ flat_map sop_bytes ops) /\
  (forall kmax ops, Forall (sop_ok kmax) ops -> forall str, ss_run str ops = Some (str ++ flat_map sop_bytes ops)) /\
  (forall x, 0 <= x < 100 -> lut_in_range (x * 2) = true /\ lut_in_range (x * 2 + 1) = true).

Definition full_statement (m : package_model) : Prop := tools_safe m /\ helper_half.

Lemma helper_half_proof : helper_half.
Proof.
  unfold helper_half.
  split; [exact fmt_u32_fits_proof|]. split; [exact fmt_u64_fits_proof|]. split; [exact fmt_i32_fits_proof|].
  split; [exact fmt_i64_fits_proof|]. split; [exact fmt_u16_fits_proof|]. split; [exact fmt_i16_fits_proof|].
  split; [exact (proj1 ptr_bool_fit_proof)|]. split; [exact (proj2 ptr_bool_fit_proof)|].
  split; [exact fmt_double_fits_proof|]. split; [exact fmt_float_fits_proof|].
  split; [exact reservations_within_max|]. split; [exact stream_safe_proof|]. split; [exact t_stream_safe_proof|].
  split; [exact ss_run_safe_proof|]. exact lut_indices_in_range.
Qed.

(* the full statement follows from tool-level safety of a model: the only missing part *)
Lemma full_from_tools_proof : forall m, tools_safe m -> full_statement m.
Proof. intros m H. split; [exact H|exact helper_half_proof]. Qed.

(* the notion discriminates: a model with a memory event, or one that does not terminate, is not safe;
   one that always stops with a diagnosed error is *)
Lemma tools_safe_discriminates :
  ~ tools_safe (fun _ _ => mkRun EndOk [OutOfBounds]) /\
  ~ tools_safe (fun _ _ => mkRun EndFuel []) /\
  ~ tools_safe (fun _ _ => mkRun (EndCrash 11) []) /\
  tools_safe (fun _ _ => mkRun (EndDiagnosed 1) []).
Proof.
  split; [intros H; destruct (H X_cache (mkInv [] [] [])) as (H1 & _); discriminate|].
  split; [intros H; destruct (H X_cache (mkInv [] [] [])) as (_ & H2); exact H2|].
  split; [intros H; destruct (H X_cache (mkInv [] [] [])) as (_ & H2); exact H2|].
  intros x i. split; [reflexivity|exact I].
Qed.
