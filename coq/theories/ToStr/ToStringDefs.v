(* C20 -- executable model of the number formatters used by util::FakeOStream
   (util/integer_to_string.cc x86-64/SSE2 branch, util/float_to_string.cc over the
   LAYOUT code of double-conversion's ToShortest) and of the in-place write
   protocol Ensure / ToString / AdvanceTo of BufferedStream.
   Every formatter returns the bytes it hands back ([to, returned pointer)) and its
   FOOTPRINT: how many bytes starting at [to] it stores to (vector stores write
   more than they return; StringBuilder's destructor appends a NUL).
   Constants, tables and thresholds come from Gen/Src_tostring.v.  No proofs here. *)
From PP Require Export Base.Bytes Gen.Src_tostring.
Local Open Scope Z_scope.

Record fmt := mkFmt { f_out : list Z; f_foot : Z }.

Definition zlen {A} (l : list A) : Z := Z.of_nat (length l).
Definition lut (i : Z) : Z := nth (Z.to_nat i) gDigitsLut 0.
Definition lut_in_range (i : Z) : bool := (0 <=? i) && (i <? zlen gDigitsLut).

(* ---- value < 10000:  d1 = (value / 100) << 1; d2 = (value % 100) << 1; conditional stores *)
Definition small4 (v : Z) : list Z :=
  let d1 := (v / 100) * 2 in
  let d2 := (v mod 100) * 2 in
  (if v >=? 1000 then [lut d1] else []) ++
  (if v >=? 100 then [lut (d1 + 1)] else []) ++
  (if v >=? 10 then [lut d2] else []) ++
  [lut (d2 + 1)].

(* ---- 10000 <= value < 10^8: value = bbbbcccc *)
Definition mid8 (v : Z) : list Z :=
  let b := v / 10000 in
  let c := v mod 10000 in
  let d1 := (b / 100) * 2 in
  let d2 := (b mod 100) * 2 in
  let d3 := (c / 100) * 2 in
  let d4 := (c mod 100) * 2 in
  (if v >=? 10000000 then [lut d1] else []) ++
  (if v >=? 1000000 then [lut (d1 + 1)] else []) ++
  (if v >=? 100000 then [lut d2] else []) ++
  [lut (d2 + 1); lut d3; lut (d3 + 1); lut d4; lut (d4 + 1)].

(* ---- Convert8DigitsSSE2, lane by lane (16-bit lanes, 32x32->64 multiply) *)
Definition w16 (x : Z) : Z := x mod 65536.
Definition mulhi16 (a b : Z) : Z := (w16 a * w16 b) / 65536.
(* _mm_packus_epi16: signed 16-bit -> unsigned 8-bit with saturation *)
Definition packus (x : Z) : Z :=
  let s := if w16 x <? 32768 then w16 x else w16 x - 65536 in
  if s <? 0 then 0 else if s >? 255 then 255 else s.

Definition lane4 (x : Z) : list Z :=
  let x4 := w16 (x * 4) in
  let q := map (fun ms => mulhi16 (mulhi16 x4 (fst ms)) (snd ms)) (combine kDivPowers kShiftPowers) in
  let q0 := nth 0 q 0 in let q1 := nth 1 q 0 in let q2 := nth 2 q 0 in let q3 := nth 3 q 0 in
  (* v5 = v4 * 10 (low 16 bits); v6 = v5 shifted up one lane inside the 64-bit half; v7 = v4 - v6 *)
  [w16 q0; w16 (q1 - w16 (q0 * 10)); w16 (q2 - w16 (q1 * 10)); w16 (q3 - w16 (q2 * 10))].

Definition conv8 (v : Z) : list Z :=
  let abcd := (v * kDiv10000) / 2 ^ kDiv10000_shift in
  let efgh := (v - abcd * 10000) mod 4294967296 in
  lane4 abcd ++ lane4 efgh.

(* pack to bytes and add '0' (8-bit wrapping add) *)
Definition conv8_ascii (v : Z) : list Z := map (fun d => (packus d + 48) mod 256) (conv8 v).

(* ---- char *ToString(uint32_t value, char *buffer) *)
Definition fmt_u32 (v : Z) : fmt :=
  if v <? u32_small_limit then let o := small4 v in mkFmt o (zlen o)
  else if v <? u32_mid_limit then let o := mid8 v in mkFmt o (zlen o)
  else
    let a := v / 100000000 in
    let r := v mod 100000000 in
    let pre := if a >=? 10 then [lut (a * 2); lut (a * 2 + 1)] else [(48 + a) mod 256] in
    mkFmt (pre ++ conv8_ascii r) (zlen pre + store_l64).

(* number of leading '0' characters, at most 15:  __builtin_ctz(~mask | 0x8000) *)
Fixpoint leading_zeros (l : list Z) (limit : nat) : nat :=
  match limit, l with
  | S k, c :: r => if c =? 48 then S (leading_zeros r k) else O
  | _, _ => O
  end.

(* ---- char *ToString(uint64_t value, char *buffer) *)
Definition fmt_u64 (v : Z) : fmt :=
  if v <? u64_low_limit then
    if v <? u64_small_limit then let o := small4 v in mkFmt o (zlen o)
    else let o := mid8 v in mkFmt o (zlen o)
  else if v <? u64_mid_limit then
    let va := conv8_ascii (v / 100000000) ++ conv8_ascii (v mod 100000000) in
    let digit := leading_zeros va 15 in
    (* the whole shifted 16-byte vector is stored; [buffer, buffer + 16 - digit) is returned *)
    mkFmt (skipn digit va) store_u128
  else
    let a := v / 10000000000000000 in
    let rest := v mod 10000000000000000 in
    let pre :=
      if a <? 10 then [(48 + a) mod 256]
      else if a <? 100 then [lut (a * 2); lut (a * 2 + 1)]
      else if a <? 1000 then [(48 + a / 100) mod 256; lut ((a mod 100) * 2); lut ((a mod 100) * 2 + 1)]
      else [lut ((a / 100) * 2); lut ((a / 100) * 2 + 1); lut ((a mod 100) * 2); lut ((a mod 100) * 2 + 1)] in
    mkFmt (pre ++ conv8_ascii (rest / 100000000) ++ conv8_ascii (rest mod 100000000)) (zlen pre + store_u128).

(* ---- signed wrappers: un = static_cast<unsigned>(value); if (value < 0) { *to++ = '-'; un = -un; } *)
Definition fmt_i32 (v : Z) : fmt :=
  if v <? 0 then let f := fmt_u32 ((- v) mod 4294967296) in mkFmt (45 :: f_out f) (1 + f_foot f)
  else fmt_u32 (v mod 4294967296).
Definition fmt_i64 (v : Z) : fmt :=
  if v <? 0 then let f := fmt_u64 ((- v) mod 18446744073709551616) in mkFmt (45 :: f_out f) (1 + f_foot f)
  else fmt_u64 (v mod 18446744073709551616).
Definition fmt_i16 (v : Z) : fmt := fmt_i32 v.
Definition fmt_u16 (v : Z) : fmt := fmt_u32 v.
Definition fmt_bool (b : Z) : fmt := mkFmt [(48 + b) mod 256] 1.

(* ---- char *ToString(const void *v, char *to): "0x" then the nibbles without leading zeros *)
Definition hexdigit (n : Z) : Z := nth (Z.to_nat n) kHexDigits 0.
Fixpoint drop_zero_nibbles (l : list Z) : list Z :=
  match l with
  | 0 :: r => drop_zero_nibbles r
  | _ => l
  end.
Definition nibbles (p : Z) : list Z :=
  map (fun i => Z.land (Z.shiftr p (4 * (pointer_size * 2 - 1 - Z.of_nat i))) 15) (seq 0 (Z.to_nat (pointer_size * 2))).
Definition fmt_ptr (p : Z) : fmt :=
  let body := if p =? 0 then [48] else map hexdigit (drop_zero_nibbles (nibbles p)) in
  let o := 48 :: 120 :: body in mkFmt o (zlen o).

(* ------------------------------------------------------------------ *)
(* double-conversion: DoubleToStringConverter::ToShortest / ToShortestSingle as configured in
   float_to_string.cc.  The digit generator (DoubleToAscii) is environment: it supplies
   the sign, 1..kBase10MaximalLength decimal digits and the position of the decimal point. *)

Inductive dvalue :=
| DInf (neg : bool)
| DNan
| DFinite (sign : bool) (digits : list Z) (decimal_point : Z).

Definition padding (c : Z) (count : Z) : list Z := repeat c (Z.to_nat count).

(* while (exponent > 0) { buffer[--first_char_pos] = '0' + (exponent % 10); exponent /= 10; }  (5 slots) *)
Fixpoint exp_loop (fuel : nat) (e : Z) (acc : list Z) : list Z :=
  match fuel with
  | O => acc
  | S f => if e >? 0 then exp_loop f (e / 10) ((48 + e mod 10) :: acc) else acc
  end.

Definition create_exponential (digits : list Z) (exponent : Z) : list Z :=
  let len := zlen digits in
  [nth 0 digits 0] ++
  (if negb (len =? 1) then 46 :: skipn 1 digits else []) ++
  [exponent_character] ++
  (if exponent <? 0 then [45] else []) ++
  (let e := Z.abs exponent in if e =? 0 then [48] else exp_loop 5 e []).

Definition create_decimal (digits : list Z) (decimal_point digits_after_point : Z) : list Z :=
  let len := zlen digits in
  if decimal_point <=? 0 then
    48 :: (if digits_after_point >? 0
           then 46 :: padding 48 (- decimal_point) ++ digits ++ padding 48 (digits_after_point - (- decimal_point) - len)
           else [])
  else if decimal_point >=? len then
    digits ++ padding 48 (decimal_point - len) ++
    (if digits_after_point >? 0 then 46 :: padding 48 digits_after_point else [])
  else
    firstn (Z.to_nat decimal_point) digits ++ [46] ++ skipn (Z.to_nat decimal_point) digits ++
    padding 48 (digits_after_point - (len - decimal_point)).

Definition to_shortest_chars (d : dvalue) : list Z :=
  match d with
  | DInf neg => (if neg then [45] else []) ++ infinity_symbol
  | DNan => nan_symbol
  | DFinite sign digits decimal_point =>
    (if sign then [45] else []) ++
    let exponent := decimal_point - 1 in
    if (decimal_in_shortest_low <=? exponent) && (exponent <? decimal_in_shortest_high)
    then create_decimal digits decimal_point (Z.max 0 (zlen digits - decimal_point))
    else create_exponential digits exponent
  end.

(* char *ToString(double value, char *to): StringBuilder builder(to, kBytes); ToShortest; return &to[position];
   ~StringBuilder writes the terminator at to[position] *)
Definition fmt_double (d : dvalue) : fmt :=
  let o := to_shortest_chars d in mkFmt o (zlen o + string_builder_terminator).

(* what the digit generator may deliver (IEEE double: 17 digits, 5e-324 .. 1.8e308; float: 9 digits, 1e-45 .. 3.4e38) *)
Definition digits_ok (maxlen : Z) (digits : list Z) : bool :=
  (1 <=? zlen digits) && (zlen digits <=? maxlen) && forallb (fun c => (48 <=? c) && (c <=? 57)) digits.
Definition dvalue_ok_double (d : dvalue) : bool :=
  match d with DFinite _ ds dp => digits_ok kBase10MaximalLength ds && (-323 <=? dp) && (dp <=? 309) | _ => true end.
Definition dvalue_ok_float (d : dvalue) : bool :=
  match d with DFinite _ ds dp => digits_ok 9 ds && (-44 <=? dp) && (dp <=? 39) | _ => true end.

(* ------------------------------------------------------------------ *)
(* FakeOStream over BufferedStream: the in-place protocol.
   State = bytes currently in the buffer (cursor = its length); result = chunks
   handed to the writer.  None = a store outside [buf, buf + capacity) or a cursor past end_. *)

Inductive sop :=
| SWrite (data : list Z)                 (* operator<<(StringPiece) -> write(data, length) *)
| SPut (c : Z)                           (* put(char): Ensure(1) *)
| SNumber (kbytes : Z) (f : fmt)         (* CallToString: AdvanceTo(ToString(value, Ensure(kBytes))) *)
| SFlush.

Definition stream_cap : Z := Z.max buffered_stream_min kToStringMaxBytes.

Definition s_step (cap : Z) (buf : list Z) (o : sop) : option (list Z * list (list Z)) :=
  match o with
  | SWrite data =>
    if zlen buf + zlen data <=? cap then Some (buf ++ data, [])
    else
      let spilled := match buf with [] => [] | _ => [buf] end in
      if zlen data <=? cap then Some (data, spilled) else Some ([], spilled ++ [data])
  | SPut c =>
    let '(b, spilled) := if zlen buf + 1 >? cap then ([], match buf with [] => [] | _ => [buf] end) else (buf, []) in
    if zlen b + 1 <=? cap then Some (b ++ [c], spilled) else None
  | SNumber kbytes f =>
    let '(b, spilled) := if zlen buf + kbytes >? cap then ([], match buf with [] => [] | _ => [buf] end) else (buf, []) in
    (* ToString stores f_foot bytes at the cursor, AdvanceTo moves it by the returned length *)
    if (zlen b + f_foot f <=? cap) && (zlen b + zlen (f_out f) <=? cap) then Some (b ++ f_out f, spilled) else None
  | SFlush => Some ([], match buf with [] => [] | _ => [buf] end)
  end.

Fixpoint s_run (cap : Z) (buf : list Z) (ops : list sop) : option (list Z * list (list Z)) :=
  match ops with
  | [] => Some (buf, [])
  | o :: r =>
    match s_step cap buf o with
    | None => None
    | Some (b, w) =>
      match s_run cap b r with
      | None => None
      | Some (b', w') => Some (b', w ++ w')
      end
    end
  end.

(* ------------------------------------------------------------------ *)
(* FakeOStream over ThreadedBufferedStream (shard's outputs): the producer side.
   State = bytes in the leased block; result = blocks handed to the writer thread
   (Lease::SuccessNext with Size() = bytes).  A block of size 0 is the POISON that ends
   the writer thread, so handing over an empty block before the destructor would lose data.
   The hand-off itself (semaphores, ring of kBlocks blocks) is C16's subject. *)

Definition t_spill (buf : list Z) : list Z * list (list Z) :=
  match buf with [] => ([], []) | _ :: _ => ([], [buf]) end.

(* while (current_ + length > end_) { memcpy(current_, data, end_ - current_); data += ..; length -= ..;
                                      current_ = end_; SpillBuffer(); }
   memcpy(current_, data, length); current_ += length; *)
Fixpoint t_write (fuel : nat) (cap : Z) (buf data : list Z) : option (list Z * list (list Z)) :=
  if zlen buf + zlen data >? cap then
    match fuel with
    | O => None
    | S f =>
      let k := Z.to_nat (cap - zlen buf) in
      let '(b, w) := t_spill (buf ++ firstn k data) in
      match t_write f cap b (skipn k data) with
      | None => None
      | Some (b', w') => Some (b', w ++ w')
      end
    end
  else Some (buf ++ data, []).

Inductive tres := TOk (buf : list Z) (blocks : list (list Z)) | TOutOfBounds | TFuel.

Definition t_step (cap : Z) (buf : list Z) (o : sop) : tres :=
  match o with
  | SWrite data =>
    match t_write (S (S (length data))) cap buf data with
    | None => TFuel
    | Some (b, w) => TOk b w
    end
  | SPut c =>
    let '(b, w) := if zlen buf + 1 >? cap then t_spill buf else (buf, []) in
    if zlen b + 1 <=? cap then TOk (b ++ [c]) w else TOutOfBounds
  | SNumber kbytes f =>
    let '(b, w) := if zlen buf + kbytes >? cap then t_spill buf else (buf, []) in
    if (zlen b + f_foot f <=? cap) && (zlen b + zlen (f_out f) <=? cap) then TOk (b ++ f_out f) w else TOutOfBounds
  | SFlush => TOk buf []           (* "No flush." *)
  end.

Fixpoint t_run (cap : Z) (buf : list Z) (ops : list sop) : tres :=
  match ops with
  | [] => TOk buf []
  | o :: r =>
    match t_step cap buf o with
    | TOk b w =>
      match t_run cap b r with
      | TOk b' w' => TOk b' (w ++ w')
      | e => e
      end
    | e => e
    end
  end.

(* ~ThreadedBufferedStream(): SpillBuffer(); then the poison block *)
Definition t_destroy (buf : list Z) : list (list Z) := snd (t_spill buf).

Definition block_cap : Z := Z.max block_queue_min kToStringMaxBytes.

(* ------------------------------------------------------------------ *)
(* FakeOStream over util::StringStream (exception messages): Ensure(amount) resizes the string by
   [amount], the formatter stores into that room, AdvanceTo shrinks the string to the returned end.
   None = a store beyond the room that Ensure made. *)
Definition ss_step (str : list Z) (o : sop) : option (list Z) :=
  match o with
  | SWrite data => Some (str ++ data)
  | SPut c => Some (str ++ [c])
  | SNumber kbytes f => if (f_foot f <=? kbytes) && (zlen (f_out f) <=? kbytes) then Some (str ++ f_out f) else None
  | SFlush => Some str
  end.

Fixpoint ss_run (str : list Z) (ops : list sop) : option (list Z) :=
  match ops with
  | [] => Some str
  | o :: r => match ss_step str o with None => None | Some s => ss_run s r end
  end.
