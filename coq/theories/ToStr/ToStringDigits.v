(* C20 -- the integer formatters produce exactly the decimal numeral, for every value.
   [dec] is an independent specification (repeated division by 10). *)
From PP Require Import ToStr.ToStringDefs.
From Coq Require Import Lia ZifyBool.
Local Open Scope Z_scope.
Ltac Zify.zify_post_hook ::= Z.div_mod_to_equations.

(* ---- specification *)
Fixpoint dec_fuel (fuel : nat) (v : Z) : list Z :=
  match fuel with
  | O => []
  | S f => if v <? 10 then [48 + v] else dec_fuel f (v / 10) ++ [48 + v mod 10]
  end.
Definition dec (v : Z) : list Z := dec_fuel 20 v.

(* k digits, zero padded *)
Fixpoint fixd (k : nat) (r : Z) : list Z :=
  match k with
  | O => []
  | S k' => fixd k' (r / 10) ++ [48 + r mod 10]
  end.

(* ---- finite sweeps *)
Fixpoint zrange_from (start : Z) (n : nat) : list Z :=
  match n with O => [] | S k => start :: zrange_from (start + 1) k end.
Definition zrange (n : Z) : list Z := zrange_from 0 (Z.to_nat n).
Lemma zrange_from_in : forall n start w, start <= w < start + Z.of_nat n -> In w (zrange_from start n).
Proof.
  induction n as [|k IH]; intros start w H; [lia|]. simpl.
  destruct (Z.eq_dec start w) as [E|E]; [left; exact E|right]. apply IH. lia.
Qed.
Lemma zrange_in n w : 0 <= w < n -> In w (zrange n).
Proof. intros H. unfold zrange. apply zrange_from_in. lia. Qed.

Fixpoint list_eqb (a b : list Z) : bool :=
  match a, b with
  | [], [] => true
  | x :: a', y :: b' => (x =? y) && list_eqb a' b'
  | _, _ => false
  end.
Lemma list_eqb_eq a : forall b, list_eqb a b = true -> a = b.
Proof.
  induction a as [|x a IH]; intros [|y b] H; simpl in H; try discriminate; [reflexivity|].
  apply andb_true_iff in H. destruct H as [H1 H2]. apply Z.eqb_eq in H1. subst. f_equal. apply IH. exact H2.
Qed.

Lemma sweep (P : Z -> bool) (n : Z) : forallb P (zrange n) = true -> forall x, 0 <= x < n -> P x = true.
Proof. intros H x Hx. rewrite forallb_forall in H. apply H. apply zrange_in. exact Hx. Qed.

(* the four-digit building blocks, all 10^4 values each *)
Definition digits4 (c : Z) : list Z :=
  [lut ((c / 100) * 2); lut ((c / 100) * 2 + 1); lut ((c mod 100) * 2); lut ((c mod 100) * 2 + 1)].

Lemma small4_sweep : forallb (fun v => list_eqb (small4 v) (dec v)) (zrange 10000) = true.
Proof. vm_compute. reflexivity. Qed.
Lemma small4_dec v : 0 <= v < 10000 -> small4 v = dec v.
Proof. intros H. apply list_eqb_eq. exact (sweep _ _ small4_sweep v H). Qed.

Lemma digits4_sweep : forallb (fun c => list_eqb (digits4 c) (fixd 4 c)) (zrange 10000) = true.
Proof. vm_compute. reflexivity. Qed.
Lemma digits4_fixd c : 0 <= c < 10000 -> digits4 c = fixd 4 c.
Proof. intros H. apply list_eqb_eq. exact (sweep _ _ digits4_sweep c H). Qed.

Lemma lane4_sweep : forallb (fun x => list_eqb (map (fun d => (packus d + 48) mod 256) (lane4 x)) (fixd 4 x)) (zrange 10000) = true.
Proof. vm_compute. reflexivity. Qed.
Lemma lane4_fixd x : 0 <= x < 10000 -> map (fun d => (packus d + 48) mod 256) (lane4 x) = fixd 4 x.
Proof. intros H. apply list_eqb_eq. exact (sweep _ _ lane4_sweep x H). Qed.

(* prefixes used above 10^8 (uint32: a in 1..42) and above 10^16 (uint64: a in 1..1844) *)
Definition pre32 (a : Z) : list Z := if a >=? 10 then [lut (a * 2); lut (a * 2 + 1)] else [(48 + a) mod 256].
Definition pre64 (a : Z) : list Z :=
  if a <? 10 then [(48 + a) mod 256]
  else if a <? 100 then [lut (a * 2); lut (a * 2 + 1)]
  else if a <? 1000 then [(48 + a / 100) mod 256; lut ((a mod 100) * 2); lut ((a mod 100) * 2 + 1)]
  else [lut ((a / 100) * 2); lut ((a / 100) * 2 + 1); lut ((a mod 100) * 2); lut ((a mod 100) * 2 + 1)].
Lemma pre32_sweep : forallb (fun a => (a =? 0) || list_eqb (pre32 a) (dec a)) (zrange 100) = true.
Proof. vm_compute. reflexivity. Qed.
Lemma pre64_sweep : forallb (fun a => (a =? 0) || list_eqb (pre64 a) (dec a)) (zrange 10000) = true.
Proof. vm_compute. reflexivity. Qed.
Lemma pre32_dec a : 1 <= a < 100 -> pre32 a = dec a.
Proof.
  intros H. pose proof (sweep _ _ pre32_sweep a ltac:(lia)) as Hs. apply orb_true_iff in Hs.
  destruct Hs as [Hs|Hs]; [apply Z.eqb_eq in Hs; lia|]. apply list_eqb_eq. exact Hs.
Qed.
Lemma pre64_dec a : 1 <= a < 10000 -> pre64 a = dec a.
Proof.
  intros H. pose proof (sweep _ _ pre64_sweep a ltac:(lia)) as Hs. apply orb_true_iff in Hs.
  destruct Hs as [Hs|Hs]; [apply Z.eqb_eq in Hs; lia|]. apply list_eqb_eq. exact Hs.
Qed.

(* ---- arithmetic of the numeral *)

Lemma pow10_succ k : 10 ^ Z.of_nat (S k) = 10 * 10 ^ Z.of_nat k.
Proof. rewrite Nat2Z.inj_succ, Z.pow_succ_r by lia. reflexivity. Qed.
Lemma pow10_pos k : 0 < 10 ^ Z.of_nat k.
Proof. apply Z.pow_pos_nonneg; lia. Qed.

Lemma dec_fuel_enough : forall f v, 0 <= v < 10 ^ Z.of_nat (S f) ->
  forall f', (S f <= f')%nat -> dec_fuel f' v = dec_fuel (S f) v.
Proof.
  induction f as [|f IH]; intros v Hv f' Hf'; destruct f' as [|f'']; try lia; cbn [dec_fuel].
  - change (10 ^ Z.of_nat 1) with 10 in Hv. replace (v <? 10) with true by lia. reflexivity.
  - rewrite pow10_succ in Hv. pose proof (pow10_pos (S f)).
    destruct (v <? 10) eqn:E; [reflexivity|]. f_equal. apply IH; [|lia].
    split; [apply Z.div_pos; lia|]. apply Z.div_lt_upper_bound; lia.
Qed.

Lemma dec_fuel_S f v : dec_fuel (S f) v = if v <? 10 then [48 + v] else dec_fuel f (v / 10) ++ [48 + v mod 10].
Proof. reflexivity. Qed.

Lemma dec_unfold v : 10 <= v < 100000000000000000000 -> dec v = dec (v / 10) ++ [48 + v mod 10].
Proof.
  intros Hv. unfold dec. change 20%nat with (S 19). rewrite dec_fuel_S. replace (v <? 10) with false by lia.
  assert (0 <= v / 10 < 10 ^ Z.of_nat 19) as Hx by (change (10 ^ Z.of_nat 19) with 10000000000000000000; lia).
  rewrite (dec_fuel_enough 18 (v / 10) Hx (S 19)) by lia. reflexivity.
Qed.

Lemma dec_small v : 0 <= v < 10 -> dec v = [48 + v].
Proof. intros H. unfold dec. change 20%nat with (S 19). rewrite dec_fuel_S. replace (v <? 10) with true by lia. reflexivity. Qed.

Lemma dec_split : forall k q r, 0 < q -> 0 <= r < 10 ^ Z.of_nat k -> q * 10 ^ Z.of_nat k + r < 100000000000000000000 ->
  dec (q * 10 ^ Z.of_nat k + r) = dec q ++ fixd k r.
Proof.
  induction k as [|k IH]; intros q r Hq Hr Hb.
  - change (10 ^ Z.of_nat 0) with 1 in *. replace (q * 1 + r) with q by lia. cbn [fixd]. rewrite app_nil_r. reflexivity.
  - rewrite pow10_succ in *. pose proof (pow10_pos k) as Hp. set (P := 10 ^ Z.of_nat k) in *.
    assert (q * P >= 1) as HqP by nia.
    rewrite dec_unfold by nia.
    replace ((q * (10 * P) + r) / 10) with (q * P + r / 10) by lia.
    replace ((q * (10 * P) + r) mod 10) with (r mod 10) by lia.
    rewrite IH; [|lia|lia|nia]. cbn [fixd]. rewrite app_assoc. reflexivity.
Qed.

Lemma fixd_len k : forall r, length (fixd k r) = k.
Proof. induction k as [|k IH]; intros r; cbn [fixd]; [reflexivity|]. rewrite app_length, IH. simpl. lia. Qed.

Lemma fixd_zero k : fixd k 0 = repeat 48 k.
Proof.
  induction k as [|k IH]; cbn [fixd]; [reflexivity|]. change (0 / 10) with 0. change (48 + 0 mod 10) with 48.
  rewrite IH. clear IH. induction k as [|k IH]; simpl; [reflexivity|]. f_equal. exact IH.
Qed.

Lemma fixd_zeros_dec : forall k v, 0 < v < 10 ^ Z.of_nat k -> v < 100000000000000000000 ->
  exists z, fixd k v = repeat 48 z ++ dec v.
Proof.
  induction k as [|k IH]; intros v Hv Hb.
  - change (10 ^ Z.of_nat 0) with 1 in Hv. lia.
  - rewrite pow10_succ in Hv. cbn [fixd]. destruct (Z_lt_dec v 10) as [Hs|Hs].
    + replace (v / 10) with 0 by lia. replace (v mod 10) with v by lia. rewrite fixd_zero, dec_small by lia. exists k. reflexivity.
    + pose proof (pow10_pos k) as Hp. set (P := 10 ^ Z.of_nat k) in *.
      assert (0 < v / 10 < P) as H1 by lia.
      assert (v / 10 < 100000000000000000000) as H2 by lia.
      destruct (IH (v / 10) H1 H2) as (z & Hz). rewrite Hz, (dec_unfold v) by lia.
      exists z. rewrite app_assoc. reflexivity.
Qed.

Lemma dec_fuel_head : forall f v, 0 < v < 10 ^ Z.of_nat f -> exists d tl, dec_fuel f v = d :: tl /\ 49 <= d <= 57.
Proof.
  induction f as [|f IH]; intros v Hv.
  - change (10 ^ Z.of_nat 0) with 1 in Hv. lia.
  - rewrite pow10_succ in Hv. cbn [dec_fuel]. destruct (v <? 10) eqn:E.
    + exists (48 + v), []. split; [reflexivity|lia].
    + pose proof (pow10_pos f) as Hp. set (P := 10 ^ Z.of_nat f) in *.
      assert (0 < v / 10 < P) as H0 by lia.
      destruct (IH (v / 10) H0) as (d & tl & H1 & H2). rewrite H1. exists d, (tl ++ [48 + v mod 10]). split; [reflexivity|exact H2].
Qed.

Lemma dec_head v : 0 < v < 100000000000000000000 -> exists d tl, dec v = d :: tl /\ 49 <= d <= 57.
Proof. intros H. unfold dec. apply dec_fuel_head. change (10 ^ Z.of_nat 20) with 100000000000000000000. exact H. Qed.

Lemma leading_zeros_repeat : forall z limit d tl, d <> 48 -> (z <= limit)%nat ->
  leading_zeros (repeat 48 z ++ d :: tl) limit = z.
Proof.
  induction z as [|z IH]; intros limit d tl Hd Hl; cbn [repeat app].
  - destruct limit; cbn [leading_zeros]; [reflexivity|]. destruct (d =? 48) eqn:E; [lia|reflexivity].
  - destruct limit as [|l']; [lia|]. cbn [leading_zeros]. change (48 =? 48) with true. cbv iota. f_equal. apply IH; [exact Hd|lia].
Qed.

Lemma skipn_repeat_app {A} (x : A) z l : skipn z (repeat x z ++ l) = l.
Proof. induction z; simpl; auto. Qed.

(* ---- Convert8DigitsSSE2 yields the 8 zero-padded digits *)

Lemma div10000_trick r : 0 <= r < 100000000 -> (r * kDiv10000) / 2 ^ kDiv10000_shift = r / 10000.
Proof. intros H. unfold kDiv10000, kDiv10000_shift. change (2 ^ 45) with 35184372088832. lia. Qed.

Lemma fixd_app : forall b a r, fixd (a + b) r = fixd a (r / 10 ^ Z.of_nat b) ++ fixd b (r mod 10 ^ Z.of_nat b).
Proof.
  induction b as [|b IH]; intros a r.
  - rewrite Nat.add_0_r. change (10 ^ Z.of_nat 0) with 1. rewrite Z.div_1_r. cbn [fixd]. rewrite app_nil_r. reflexivity.
  - rewrite Nat.add_succ_r. cbn [fixd]. rewrite IH. rewrite pow10_succ. pose proof (pow10_pos b) as Hp. set (P := 10 ^ Z.of_nat b) in *.
    rewrite Z.div_div by lia.
    rewrite (Z.rem_mul_r r 10 P) by lia.
    set (X := (r / 10) mod P). set (Y := r mod 10).
    assert (0 <= Y < 10) as HY by (unfold Y; apply Z.mod_pos_bound; lia).
    replace ((Y + 10 * X) / 10) with X by lia. replace ((Y + 10 * X) mod 10) with Y by lia.
    rewrite app_assoc. reflexivity.
Qed.

Lemma fixd8_split r : fixd 8 r = fixd 4 (r / 10000) ++ fixd 4 (r mod 10000).
Proof. exact (fixd_app 4 4 r). Qed.

Lemma conv8_ascii_fixd r : 0 <= r < 100000000 -> conv8_ascii r = fixd 8 r.
Proof.
  intros H. unfold conv8_ascii, conv8. cbv zeta. rewrite div10000_trick by exact H.
  replace ((r - r / 10000 * 10000) mod 4294967296) with (r mod 10000) by lia.
  rewrite map_app, !lane4_fixd by lia. symmetry. apply fixd8_split.
Qed.

Lemma fixd16_split r : fixd 16 r = fixd 8 (r / 100000000) ++ fixd 8 (r mod 100000000).
Proof. exact (fixd_app 8 8 r). Qed.

(* ---- the formatters *)

Lemma mid8_struct v : 10000 <= v < 100000000 -> mid8 v = small4 (v / 10000) ++ digits4 (v mod 10000).
Proof.
  intros H. unfold mid8, small4, digits4. cbv zeta.
  replace (v >=? 10000000) with (v / 10000 >=? 1000) by lia.
  replace (v >=? 1000000) with (v / 10000 >=? 100) by lia.
  replace (v >=? 100000) with (v / 10000 >=? 10) by lia.
  destruct (v / 10000 >=? 1000), (v / 10000 >=? 100), (v / 10000 >=? 10); reflexivity.
Qed.

Lemma mid8_dec v : 10000 <= v < 100000000 -> mid8 v = dec v.
Proof.
  intros H. rewrite mid8_struct by exact H. rewrite small4_dec, digits4_fixd by lia.
  rewrite <- (dec_split 4 (v / 10000) (v mod 10000)); change (10 ^ Z.of_nat 4) with 10000; try lia.
  f_equal. lia.
Qed.

Lemma below_1e8_dec v : 0 <= v < 100000000 ->
  (if v <? 10000 then small4 v else mid8 v) = dec v.
Proof. intros H. destruct (v <? 10000) eqn:E; [apply small4_dec|apply mid8_dec]; lia. Qed.

Theorem fmt_u32_digits_proof : forall v, 0 <= v < 4294967296 -> f_out (fmt_u32 v) = dec v.
Proof.
  intros v H. unfold fmt_u32, u32_small_limit, u32_mid_limit.
  destruct (v <? 10000) eqn:E1; [cbv zeta; cbn [f_out]; apply small4_dec; lia|].
  destruct (v <? 100000000) eqn:E2; cbv zeta; cbn [f_out]; [apply mid8_dec; lia|].
  change (if v / 100000000 >=? 10 then [lut (v / 100000000 * 2); lut (v / 100000000 * 2 + 1)] else [(48 + v / 100000000) mod 256])
    with (pre32 (v / 100000000)).
  rewrite pre32_dec, conv8_ascii_fixd by lia.
  rewrite <- (dec_split 8 (v / 100000000) (v mod 100000000)); change (10 ^ Z.of_nat 8) with 100000000; try lia.
  f_equal. lia.
Qed.

Theorem fmt_u64_digits_proof : forall v, 0 <= v < 18446744073709551616 -> f_out (fmt_u64 v) = dec v.
Proof.
  intros v H. unfold fmt_u64, u64_low_limit, u64_small_limit, u64_mid_limit.
  destruct (v <? 100000000) eqn:E1.
  - destruct (v <? 10000) eqn:E0; cbv zeta; cbn [f_out]; [apply small4_dec|apply mid8_dec]; lia.
  - destruct (v <? 10000000000000000) eqn:E2; cbv zeta; cbn [f_out].
    + rewrite !conv8_ascii_fixd by lia. rewrite <- fixd16_split.
      destruct (fixd_zeros_dec 16 v) as (z & Hz); [change (10 ^ Z.of_nat 16) with 10000000000000000; lia|lia|].
      destruct (dec_head v ltac:(lia)) as (d & tl & Hd & Hr).
      assert (z <= 15)%nat as Hz15.
      { pose proof (fixd_len 16 v) as Hl. rewrite Hz, app_length, repeat_length, Hd in Hl. simpl in Hl. lia. }
      rewrite Hz, Hd. rewrite leading_zeros_repeat by (try lia). apply skipn_repeat_app.
    + change (if v / 10000000000000000 <? 10 then [(48 + v / 10000000000000000) mod 256]
              else if v / 10000000000000000 <? 100 then [lut (v / 10000000000000000 * 2); lut (v / 10000000000000000 * 2 + 1)]
              else if v / 10000000000000000 <? 1000
                   then [(48 + v / 10000000000000000 / 100) mod 256; lut ((v / 10000000000000000) mod 100 * 2); lut ((v / 10000000000000000) mod 100 * 2 + 1)]
                   else [lut (v / 10000000000000000 / 100 * 2); lut (v / 10000000000000000 / 100 * 2 + 1);
                         lut ((v / 10000000000000000) mod 100 * 2); lut ((v / 10000000000000000) mod 100 * 2 + 1)])
        with (pre64 (v / 10000000000000000)).
      rewrite pre64_dec by lia. rewrite !conv8_ascii_fixd by lia. rewrite <- fixd16_split.
      rewrite <- (dec_split 16 (v / 10000000000000000) (v mod 10000000000000000)); change (10 ^ Z.of_nat 16) with 10000000000000000; try lia.
      f_equal. lia.
Qed.

(* signed numerals *)
Definition dec_signed (v : Z) : list Z := if v <? 0 then 45 :: dec (- v) else dec v.

Theorem fmt_i32_digits_proof : forall v, -2147483648 <= v < 2147483648 -> f_out (fmt_i32 v) = dec_signed v.
Proof.
  intros v H. unfold fmt_i32, dec_signed. destruct (v <? 0) eqn:E; cbn [f_out].
  - rewrite Z.mod_small by lia. rewrite fmt_u32_digits_proof by lia. reflexivity.
  - rewrite Z.mod_small by lia. apply fmt_u32_digits_proof. lia.
Qed.

Theorem fmt_i64_digits_proof : forall v, -9223372036854775808 <= v < 9223372036854775808 -> f_out (fmt_i64 v) = dec_signed v.
Proof.
  intros v H. unfold fmt_i64, dec_signed. destruct (v <? 0) eqn:E; cbn [f_out].
  - rewrite Z.mod_small by lia. rewrite fmt_u64_digits_proof by lia. reflexivity.
  - rewrite Z.mod_small by lia. apply fmt_u64_digits_proof. lia.
Qed.

(* 16-bit types go through the 32-bit formatter *)
Theorem fmt_16_digits_proof :
  (forall v, 0 <= v < 65536 -> f_out (fmt_u16 v) = dec v) /\
  (forall v, -32768 <= v < 32768 -> f_out (fmt_i16 v) = dec_signed v).
Proof.
  split; intros v H.
  - unfold fmt_u16. apply fmt_u32_digits_proof. lia.
  - unfold fmt_i16. apply fmt_i32_digits_proof. lia.
Qed.

(* pointers: "0x" followed by the hexadecimal numeral (no leading zeros; "0x0" for null) *)
Fixpoint hex_fuel (fuel : nat) (v : Z) : list Z :=
  match fuel with
  | O => []
  | S f => if v <? 16 then [hexdigit v] else hex_fuel f (v / 16) ++ [hexdigit (v mod 16)]
  end.
Definition hexnum (v : Z) : list Z := hex_fuel 16 v.

(* the exponent loop of CreateExponentialRepresentation: 5 slots suffice and the text is the numeral,
   for every exponent magnitude a double can have (ASSERT(exponent < 1e4) in the source) *)
Lemma exp_loop_sweep : forallb (fun e => (e =? 0) || list_eqb (exp_loop 5 e []) (dec e)) (zrange 10000) = true.
Proof. vm_compute. reflexivity. Qed.

Theorem exp_loop_digits_proof : forall e, 1 <= e < 10000 -> exp_loop 5 e [] = dec e.
Proof.
  intros e H. pose proof (sweep _ _ exp_loop_sweep e ltac:(lia)) as Hs. apply orb_true_iff in Hs.
  destruct Hs as [Hs|Hs]; [apply Z.eqb_eq in Hs; lia|]. apply list_eqb_eq. exact Hs.
Qed.

Theorem i32_i64_digits_proof :
  (forall v, -2147483648 <= v < 2147483648 -> f_out (fmt_i32 v) = dec_signed v) /\
  (forall v, -9223372036854775808 <= v < 9223372036854775808 -> f_out (fmt_i64 v) = dec_signed v).
Proof. split; [exact fmt_i32_digits_proof|exact fmt_i64_digits_proof]. Qed.
