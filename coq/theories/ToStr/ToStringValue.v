(* C20 -- the text laid out by ToShortest DENOTES the decimal digits it was given:
   reading the text back with an independent little reader (sign, integer part, '.', fraction,
   'e', exponent) yields  digits * 10^(decimal_point - number of digits).
   (That the digits denote the double is double-conversion's digit generator: environment.) *)
From PP Require Import ToStr.ToStringDefs ToStr.ToStringProofs ToStr.ToStringDigits.
From Coq Require Import Lia ZifyBool.
Local Open Scope Z_scope.

(* ---- an independent reader of decimal / exponential notation *)
Fixpoint num_of (l : list Z) (acc : Z) : Z :=
  match l with [] => acc | c :: r => num_of r (acc * 10 + (c - 48)) end.
Definition num (l : list Z) : Z := num_of l 0.

Fixpoint split_at_char (c : Z) (l : list Z) : list Z * option (list Z) :=
  match l with
  | [] => ([], None)
  | x :: r => if x =? c then ([], Some r) else let (a, b) := split_at_char c r in (x :: a, b)
  end.

(* (mantissa, power of ten) of an unsigned numeral:  ip [ '.' fp ] [ 'e' ['-'] digits ] *)
Definition read_unsigned (txt : list Z) : Z * Z :=
  let (mant, ex) := split_at_char 101 txt in
  let (ip, fp) := split_at_char 46 mant in
  let f := match fp with Some f => f | None => [] end in
  let e := match ex with
           | None => 0
           | Some [] => 0
           | Some (c :: ds) => if c =? 45 then - num ds else num (c :: ds)
           end in
  (num (ip ++ f), e - zlen f).

Definition read_number (txt : list Z) : bool * (Z * Z) :=
  match txt with
  | c :: r => if c =? 45 then (true, read_unsigned r) else (false, read_unsigned txt)
  | [] => (false, read_unsigned txt)
  end.

(* ---- facts about the reader *)
Definition is_digit (c : Z) : bool := (48 <=? c) && (c <=? 57).

Lemma num_of_app a : forall b acc, num_of (a ++ b) acc = num_of b (num_of a acc).
Proof. induction a as [|x a IH]; intros b acc; simpl; [reflexivity|]. apply IH. Qed.

Lemma num_of_acc l : forall acc, num_of l acc = acc * 10 ^ zlen l + num l.
Proof.
  unfold num. induction l as [|x l IH]; intros acc.
  - simpl. change (zlen (@nil Z)) with 0. lia.
  - cbn [num_of]. rewrite IH, (IH (0 * 10 + (x - 48))). rewrite zlen_cons.
    rewrite Z.pow_add_r by (pose proof (zlen_nonneg l); lia). lia.
Qed.

Lemma num_app a b : num (a ++ b) = num a * 10 ^ zlen b + num b.
Proof. unfold num at 1. rewrite num_of_app, num_of_acc. reflexivity. Qed.

Lemma num_zeros n : num (repeat 48 n) = 0.
Proof. unfold num. induction n as [|n IH]; simpl; [reflexivity|]. exact IH. Qed.

Lemma split_none c l : forallb (fun x => negb (x =? c)) l = true -> split_at_char c l = (l, None).
Proof.
  induction l as [|x l IH]; intros H; simpl; [reflexivity|].
  simpl in H. apply andb_true_iff in H. destruct H as [H1 H2].
  destruct (x =? c); [discriminate|]. rewrite IH by exact H2. reflexivity.
Qed.

Lemma split_some c a b : forallb (fun x => negb (x =? c)) a = true -> split_at_char c (a ++ c :: b) = (a, Some b).
Proof.
  induction a as [|x a IH]; intros H; simpl.
  - rewrite Z.eqb_refl. reflexivity.
  - simpl in H. apply andb_true_iff in H. destruct H as [H1 H2].
    destruct (x =? c); [discriminate|]. rewrite IH by exact H2. reflexivity.
Qed.

Lemma digits_not c l : forallb is_digit l = true -> (c < 48 \/ 57 < c) -> forallb (fun x => negb (x =? c)) l = true.
Proof.
  intros H Hc. rewrite forallb_forall in *. intros x Hx. specialize (H x Hx). unfold is_digit in H. lia.
Qed.

Lemma forallb_digit_app a b : forallb is_digit (a ++ b) = forallb is_digit a && forallb is_digit b.
Proof. apply forallb_app. Qed.

Lemma zeros_digits n : forallb is_digit (repeat 48 n) = true.
Proof. induction n; simpl; auto. Qed.

Definition result_ok (r : Z * Z) (digits : list Z) (dp : Z) : Prop :=
  exists k, 0 <= k /\ fst r = num digits * 10 ^ k /\ snd r = dp - zlen digits - k.

Lemma padding_digits n : forallb is_digit (padding 48 n) = true.
Proof. unfold padding. apply zeros_digits. Qed.

Lemma num_padding n : num (padding 48 n) = 0.
Proof. unfold padding. apply num_zeros. Qed.

Lemma not101 l : forallb is_digit l = true -> forallb (fun x => negb (x =? 101)) l = true.
Proof. intros H. apply digits_not; [exact H|lia]. Qed.
Lemma not46 l : forallb is_digit l = true -> forallb (fun x => negb (x =? 46)) l = true.
Proof. intros H. apply digits_not; [exact H|lia]. Qed.

(* "0.000ddd" *)
Lemma read_decimal_small digits dp : forallb is_digit digits = true -> 1 <= zlen digits -> dp <= 0 ->
  result_ok (read_unsigned (create_decimal digits dp (Z.max 0 (zlen digits - dp)))) digits dp.
Proof.
  intros Hd Hl Hdp. unfold create_decimal. replace (dp <=? 0) with true by lia.
  replace (Z.max 0 (zlen digits - dp) >? 0) with true by lia.
  replace (Z.max 0 (zlen digits - dp) - - dp - zlen digits) with 0 by lia.
  change (padding 48 0) with (@nil Z). rewrite app_nil_r.
  set (frac := padding 48 (- dp) ++ digits).
  assert (forallb is_digit frac = true) as Hf by (unfold frac; rewrite forallb_digit_app, padding_digits, Hd; reflexivity).
  unfold read_unsigned.
  assert (split_at_char 101 (48 :: 46 :: frac) = (48 :: 46 :: frac, None)) as ->.
  { apply split_none. simpl. apply not101. exact Hf. }
  assert (split_at_char 46 (48 :: 46 :: frac) = ([48], Some frac)) as -> by (apply (split_some 46 [48] frac); reflexivity).
  exists 0. cbn [fst snd]. split; [lia|]. split.
  - rewrite Z.pow_0_r, Z.mul_1_r. change ([48] ++ frac) with (48 :: frac). unfold num at 1. cbn [num_of].
    change (num_of frac (0 * 10 + (48 - 48))) with (num frac). unfold frac. rewrite num_app, num_padding. lia.
  - unfold frac. rewrite zlen_app, padding_len. lia.
Qed.

(* "ddd000" *)
Lemma read_decimal_large digits dp : forallb is_digit digits = true -> 1 <= zlen digits -> zlen digits <= dp ->
  result_ok (read_unsigned (create_decimal digits dp (Z.max 0 (zlen digits - dp)))) digits dp.
Proof.
  intros Hd Hl Hdp. unfold create_decimal. replace (dp <=? 0) with false by lia. replace (dp >=? zlen digits) with true by lia.
  replace (Z.max 0 (zlen digits - dp) >? 0) with false by lia. rewrite app_nil_r.
  set (ip := digits ++ padding 48 (dp - zlen digits)).
  assert (forallb is_digit ip = true) as Hf by (unfold ip; rewrite forallb_digit_app, padding_digits, Hd; reflexivity).
  unfold read_unsigned. rewrite (split_none 101 ip (not101 ip Hf)). rewrite (split_none 46 ip (not46 ip Hf)).
  exists (dp - zlen digits). cbn [fst snd]. split; [lia|]. split.
  - rewrite app_nil_r. unfold ip. rewrite num_app, num_padding, padding_len. replace (Z.max 0 (dp - zlen digits)) with (dp - zlen digits) by lia. lia.
  - change (zlen (@nil Z)) with 0. lia.
Qed.

(* "dd.ddd" *)
Lemma read_decimal_mid digits dp : forallb is_digit digits = true -> 0 < dp < zlen digits ->
  result_ok (read_unsigned (create_decimal digits dp (Z.max 0 (zlen digits - dp)))) digits dp.
Proof.
  intros Hd Hdp. unfold create_decimal. replace (dp <=? 0) with false by lia. replace (dp >=? zlen digits) with false by lia.
  replace (Z.max 0 (zlen digits - dp) - (zlen digits - dp)) with 0 by lia. change (padding 48 0) with (@nil Z). rewrite app_nil_r.
  set (a := firstn (Z.to_nat dp) digits). set (b := skipn (Z.to_nat dp) digits).
  assert (a ++ b = digits) as Hab by apply firstn_skipn.
  assert (forallb is_digit a = true /\ forallb is_digit b = true) as [Ha Hb].
  { rewrite <- Hab, forallb_digit_app in Hd. apply andb_true_iff in Hd. exact Hd. }
  unfold read_unsigned.
  assert (split_at_char 101 (a ++ [46] ++ b) = (a ++ [46] ++ b, None)) as ->.
  { apply split_none. rewrite !forallb_app. rewrite (not101 a Ha), (not101 b Hb). reflexivity. }
  assert (split_at_char 46 (a ++ [46] ++ b) = (a, Some b)) as -> by (apply (split_some 46 a b); apply not46; exact Ha).
  exists 0. cbn [fst snd]. split; [lia|]. split.
  - rewrite Hab. lia.
  - assert (zlen b = zlen digits - dp) as Hzb by (unfold b; rewrite zlen_skipn; lia). lia.
Qed.

(* the exponent digits: value and first character, for every magnitude the source allows *)
Definition expd (E : Z) : list Z := if E =? 0 then [48] else exp_loop 5 E [].
Lemma expd_sweep : forallb (fun E => (num (expd E) =? E) && match expd E with x :: _ => is_digit x | [] => false end) (zrange 10000) = true.
Proof. vm_compute. reflexivity. Qed.
Lemma expd_spec E : 0 <= E < 10000 -> num (expd E) = E /\ exists x r, expd E = x :: r /\ is_digit x = true.
Proof.
  intros H. pose proof (sweep _ _ expd_sweep E H) as Hs. apply andb_true_iff in Hs. destruct Hs as [H1 H2].
  split; [lia|]. destruct (expd E) as [|x r]; [discriminate|]. exists x, r. auto.
Qed.

(* "d.ddde-xx" *)
Lemma read_exponential d0 tl exponent : forallb is_digit (d0 :: tl) = true -> -10000 < exponent < 10000 ->
  result_ok (read_unsigned (create_exponential (d0 :: tl) exponent)) (d0 :: tl) (exponent + 1).
Proof.
  intros Hd He. unfold create_exponential, exponent_character. cbn [nth skipn]. cbv zeta. fold (expd (Z.abs exponent)).
  destruct (expd_spec (Z.abs exponent) ltac:(lia)) as (Hnum & x & r & Hx & Hxd). rewrite Hx.
  simpl in Hd. apply andb_true_iff in Hd. destruct Hd as [Hd0 Htl].
  set (frac := if negb (zlen (d0 :: tl) =? 1) then 46 :: tl else []).
  set (expo := (if exponent <? 0 then [45] else []) ++ x :: r).
  assert (forallb (fun c => negb (c =? 101)) ([d0] ++ frac) = true) as Hm.
  { unfold frac. unfold is_digit in Hd0. destruct (negb (zlen (d0 :: tl) =? 1)); simpl; rewrite ?(not101 tl Htl); lia. }
  unfold read_unsigned.
  replace ([d0] ++ frac ++ [101] ++ expo) with (([d0] ++ frac) ++ 101 :: expo) by (rewrite <- app_assoc; reflexivity).
  rewrite (split_some 101 _ expo Hm).
  assert (zlen (d0 :: tl) = 1 + zlen tl) as Hlen by apply zlen_cons.
  assert (exists f, split_at_char 46 ([d0] ++ frac) = ([d0], f) /\ [d0] ++ (match f with Some f => f | None => [] end) = d0 :: tl /\
                    zlen (match f with Some f => f | None => [] end) = zlen tl) as (f & Hsp & Hf1 & Hf2).
  { unfold frac. destruct (zlen (d0 :: tl) =? 1) eqn:E1; cbn [negb].
    - assert (tl = []) as -> by (destruct tl as [|z tl']; [reflexivity|rewrite !zlen_cons in E1; pose proof (zlen_nonneg tl'); lia]).
      exists None. rewrite app_nil_r. split; [|split; reflexivity]. apply split_none. simpl. unfold is_digit in Hd0. assert ((d0 =? 46) = false) as -> by lia. reflexivity.
    - exists (Some tl). split; [|split; reflexivity]. apply (split_some 46 [d0] tl). simpl. unfold is_digit in Hd0. assert ((d0 =? 46) = false) as -> by lia. reflexivity. }
  rewrite Hsp. exists 0. cbn [fst snd]. split; [lia|]. split; [rewrite Hf1; lia|].
  rewrite Hf2, Hlen. unfold expo. unfold is_digit in Hxd.
  destruct (exponent <? 0) eqn:En; cbn [app].
  - rewrite Z.eqb_refl. rewrite <- Hx, Hnum. lia.
  - assert ((x =? 45) = false) as -> by lia. rewrite <- Hx, Hnum. lia.
Qed.

(* ---- the theorem *)
Definition denotes (txt : list Z) (sign : bool) (digits : list Z) (dp : Z) : Prop :=
  fst (read_number txt) = sign /\ result_ok (snd (read_number txt)) digits dp.

Lemma read_number_pos x r : is_digit x = true -> read_number (x :: r) = (false, read_unsigned (x :: r)).
Proof. intros H. unfold read_number. unfold is_digit in H. assert ((x =? 45) = false) as -> by lia. reflexivity. Qed.

Lemma create_decimal_head d0 tl dp dap : is_digit d0 = true ->
  exists x r, create_decimal (d0 :: tl) dp dap = x :: r /\ is_digit x = true.
Proof.
  intros Hd. unfold create_decimal. destruct (dp <=? 0) eqn:E1.
  - eexists. eexists. split; [reflexivity|reflexivity].
  - destruct (dp >=? zlen (d0 :: tl)) eqn:E2.
    + exists d0. eexists. split; [reflexivity|exact Hd].
    + destruct (Z.to_nat dp) as [|n] eqn:En; [lia|]. exists d0. eexists. split; [reflexivity|exact Hd].
Qed.

Theorem to_shortest_denotes_proof : forall maxlen sign digits dp,
  digits_ok maxlen digits = true -> -323 <= dp <= 309 ->
  denotes (to_shortest_chars (DFinite sign digits dp)) sign digits dp.
Proof.
  intros maxlen sign digits dp Hok Hdp. unfold digits_ok in Hok.
  apply andb_true_iff in Hok. destruct Hok as [Hlen Hdig]. apply andb_true_iff in Hlen. destruct Hlen as [Hl1 Hl2].
  change (forallb is_digit digits = true) in Hdig.
  destruct digits as [|d0 tl]; [change (zlen (@nil Z)) with 0 in Hl1; lia|].
  assert (is_digit d0 = true) as Hd0 by (simpl in Hdig; apply andb_true_iff in Hdig; apply Hdig).
  cbn [to_shortest_chars]. cbv zeta.
  set (body := if (decimal_in_shortest_low <=? dp - 1) && (dp - 1 <? decimal_in_shortest_high)
               then create_decimal (d0 :: tl) dp (Z.max 0 (zlen (d0 :: tl) - dp)) else create_exponential (d0 :: tl) (dp - 1)).
  assert (result_ok (read_unsigned body) (d0 :: tl) dp /\ exists x r, body = x :: r /\ is_digit x = true) as (Hres & x & r & Hb & Hx).
  { unfold body. destruct ((decimal_in_shortest_low <=? dp - 1) && (dp - 1 <? decimal_in_shortest_high)) eqn:E.
    - split; [|apply create_decimal_head; exact Hd0].
      destruct (Z_le_dec dp 0); [apply read_decimal_small; auto; lia|].
      destruct (Z_le_dec (zlen (d0 :: tl)) dp); [apply read_decimal_large; auto; lia|].
      apply read_decimal_mid; auto; lia.
    - split.
      + replace dp with (dp - 1 + 1) at 2 by lia. apply read_exponential; [exact Hdig|lia].
      + exists d0. unfold create_exponential. cbn [nth app]. eexists. split; [reflexivity|exact Hd0]. }
  unfold denotes. destruct sign; cbn [app].
  - unfold read_number. rewrite Z.eqb_refl. cbn [fst snd]. split; [reflexivity|exact Hres].
  - rewrite Hb, read_number_pos by exact Hx. cbn [fst snd]. rewrite <- Hb. split; [reflexivity|exact Hres].
Qed.

Theorem float_denotes_proof :
  forall sign digits dp, dvalue_ok_float (DFinite sign digits dp) = true ->
  denotes (to_shortest_chars (DFinite sign digits dp)) sign digits dp.
Proof.
  intros sign digits dp H. simpl in H. apply andb_true_iff in H. destruct H as [H H2]. apply andb_true_iff in H. destruct H as [H0 H1].
  apply (to_shortest_denotes_proof 9 sign digits dp H0). split; [apply Z.leb_le in H1|apply Z.leb_le in H2]; lia.
Qed.

Theorem double_denotes_proof :
  forall sign digits dp, digits_ok kBase10MaximalLength digits = true -> -323 <= dp <= 309 ->
  denotes (to_shortest_chars (DFinite sign digits dp)) sign digits dp.
Proof. intros sign digits dp. exact (to_shortest_denotes_proof kBase10MaximalLength sign digits dp). Qed.
