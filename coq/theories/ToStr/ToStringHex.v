(* C20 -- the pointer formatter writes "0x" followed by the hexadecimal numeral, for every 64-bit value *)
From PP Require Import ToStr.ToStringDefs ToStr.ToStringDigits.
From Coq Require Import Lia ZifyBool.
Local Open Scope Z_scope.
Ltac Zify.zify_post_hook ::= Z.div_mod_to_equations.

(* k nibbles, most significant first, zero padded *)
Fixpoint fixh (k : nat) (v : Z) : list Z :=
  match k with O => [] | S k' => fixh k' (v / 16) ++ [v mod 16] end.

Definition norm (l : list Z) : list Z := match drop_zero_nibbles l with [] => [0] | l' => l' end.

Lemma drop_zeros_app k l : drop_zero_nibbles (repeat 0 k ++ l) = drop_zero_nibbles l.
Proof. induction k; simpl; auto. Qed.

Lemma fixh_zero k : fixh k 0 = repeat 0 k.
Proof.
  induction k as [|k IH]; cbn [fixh]; [reflexivity|]. change (0 / 16) with 0. change (0 mod 16) with 0. rewrite IH.
  clear IH. induction k; simpl; [reflexivity|]. f_equal. assumption.
Qed.

Lemma drop_app_nonempty a x : drop_zero_nibbles a <> [] -> drop_zero_nibbles (a ++ [x]) = drop_zero_nibbles a ++ [x].
Proof.
  induction a as [|y a IH]; intros H; [simpl in H; congruence|].
  simpl. destruct y; simpl in *; auto.
Qed.

Lemma pow16_succ k : 16 ^ Z.of_nat (S k) = 16 * 16 ^ Z.of_nat k.
Proof. rewrite Nat2Z.inj_succ, Z.pow_succ_r by lia. reflexivity. Qed.
Lemma pow16_pos k : 0 < 16 ^ Z.of_nat k.
Proof. apply Z.pow_pos_nonneg; lia. Qed.

Lemma fixh_nonzero : forall k v, 0 < v < 16 ^ Z.of_nat k -> drop_zero_nibbles (fixh k v) <> [].
Proof.
  induction k as [|k IH]; intros v Hv.
  - change (16 ^ Z.of_nat 0) with 1 in Hv. lia.
  - rewrite pow16_succ in Hv. pose proof (pow16_pos k) as Hp. set (P := 16 ^ Z.of_nat k) in *. cbn [fixh].
    destruct (Z_lt_dec v 16) as [Hs|Hs].
    + replace (v / 16) with 0 by lia. replace (v mod 16) with v by lia. rewrite fixh_zero, drop_zeros_app.
      simpl. destruct v; try lia. discriminate.
    + assert (0 < v / 16 < P) as H1 by lia. specialize (IH _ H1). rewrite drop_app_nonempty by exact IH.
      destruct (drop_zero_nibbles (fixh k (v / 16))); [congruence|discriminate].
Qed.

Lemma hex_fuel_fixh : forall k v, 0 <= v < 16 ^ Z.of_nat (S k) -> hex_fuel (S k) v = map hexdigit (norm (fixh (S k) v)).
Proof.
  induction k as [|k IH]; intros v Hv.
  - change (16 ^ Z.of_nat 1) with 16 in Hv. cbn [hex_fuel fixh]. replace (v <? 16) with true by lia.
    replace (v mod 16) with v by lia. unfold norm. simpl. destruct v; try lia; reflexivity.
  - rewrite pow16_succ in Hv. pose proof (pow16_pos (S k)) as Hp. set (P := 16 ^ Z.of_nat (S k)) in *.
    change (hex_fuel (S (S k)) v) with (if v <? 16 then [hexdigit v] else hex_fuel (S k) (v / 16) ++ [hexdigit (v mod 16)]).
    change (fixh (S (S k)) v) with (fixh (S k) (v / 16) ++ [v mod 16]).
    destruct (v <? 16) eqn:E.
    + replace (v / 16) with 0 by lia. replace (v mod 16) with v by lia. rewrite fixh_zero. unfold norm. rewrite drop_zeros_app.
      simpl. destruct v; try lia; reflexivity.
    + assert (0 < v / 16 < P) as H1 by lia. rewrite IH by lia.
      pose proof (fixh_nonzero (S k) (v / 16) H1) as Hn.
      unfold norm. rewrite drop_app_nonempty by exact Hn.
      destruct (drop_zero_nibbles (fixh (S k) (v / 16))) as [|y l] eqn:Ed; [congruence|].
      cbn [app map]. rewrite map_app. reflexivity.
Qed.

(* the nibbles the formatter extracts by shifting and masking are the base-16 digits *)
Lemma nib_eq p j : 0 <= p -> 0 <= j -> Z.land (Z.shiftr p (4 * j)) 15 = (p / 16 ^ j) mod 16.
Proof.
  intros Hp Hj. rewrite Z.shiftr_div_pow2 by lia. change 15 with (Z.ones 4). rewrite Z.land_ones by lia.
  replace (2 ^ (4 * j)) with (16 ^ j) by (rewrite Z.pow_mul_r by lia; reflexivity). reflexivity.
Qed.

Lemma fixh_nth : forall k p, fixh k p = map (fun i => (p / 16 ^ (Z.of_nat k - 1 - Z.of_nat i)) mod 16) (seq 0 k).
Proof.
  induction k as [|k IH]; intros p; [reflexivity|].
  cbn [fixh]. rewrite IH. rewrite seq_S, map_app. cbn [map Nat.add]. f_equal.
  - apply map_ext_in. intros i Hi. apply in_seq in Hi.
    rewrite Z.div_div by (try lia; apply Z.pow_pos_nonneg; lia).
    replace (16 * 16 ^ (Z.of_nat k - 1 - Z.of_nat i)) with (16 ^ (Z.of_nat (S k) - 1 - Z.of_nat i)); [reflexivity|].
    replace (Z.of_nat (S k) - 1 - Z.of_nat i) with (Z.succ (Z.of_nat k - 1 - Z.of_nat i)) by lia.
    rewrite Z.pow_succ_r by lia. reflexivity.
  - replace (Z.of_nat (S k) - 1 - Z.of_nat k) with 0 by lia. rewrite Z.pow_0_r, Z.div_1_r. reflexivity.
Qed.

Lemma nibbles_fixh p : 0 <= p -> nibbles p = fixh 16 p.
Proof.
  intros Hp. rewrite fixh_nth. unfold nibbles, pointer_size. change (Z.to_nat (8 * 2)) with 16%nat.
  apply map_ext_in. intros i Hi. apply in_seq in Hi.
  replace (4 * (8 * 2 - 1 - Z.of_nat i)) with (4 * (Z.of_nat 16 - 1 - Z.of_nat i)) by lia.
  apply nib_eq; lia.
Qed.

Theorem fmt_ptr_digits_proof : forall p, 0 <= p < 18446744073709551616 -> f_out (fmt_ptr p) = 48 :: 120 :: hexnum p.
Proof.
  intros p Hp. unfold fmt_ptr. cbv zeta. cbn [f_out]. f_equal. f_equal.
  unfold hexnum. rewrite (hex_fuel_fixh 15 p) by (change (16 ^ Z.of_nat 16) with 18446744073709551616; lia).
  rewrite nibbles_fixh by lia. destruct (p =? 0) eqn:E.
  - apply Z.eqb_eq in E. subst p. reflexivity.
  - unfold norm. pose proof (fixh_nonzero 16 p ltac:(change (16 ^ Z.of_nat 16) with 18446744073709551616; lia)) as Hn.
    destruct (drop_zero_nibbles (fixh 16 p)); [congruence|reflexivity].
Qed.
